(* C14: admin requests change exactly what they name (theorems about [step], BT/Server.v). *)
From Coq Require Import List NArith ZArith Bool Lia Sorting.
Import ListNotations.
From Emu.Common Require Import Bytes Str StrProofs.
From Emu.BT Require Import Types Mutate Filter Gc RowSet Server ScanProofs.
Local Open Scope Z_scope.

(* ------------------------------------------------------------------ *)
(* vocabulary                                                          *)
(* ------------------------------------------------------------------ *)
(* the table a request names *)
Definition req_table (r : breq) : option bytes :=
  match r with
  | BCreateTable _ _ _ | BListTables _ => None
  | BDeleteTable n | BGetTable n | BModifyFamilies n _ | BDropRowRange n _ _
  | BMutateRow n _ _ | BMutateRows n _ | BCheckAndMutate n _ _ _ _ | BReadModifyWrite n _ _
  | BReadRows n _ _ _ _ | BSampleRowKeys n | BRunGC n => Some n
  end.

Definition table_name (parent tid : bytes) : bytes := parent ++ s_tables_sep ++ tid.

(* the only table a request may change *)
Definition affected (r : breq) : option bytes :=
  match r with
  | BCreateTable parent tid _ => Some (table_name parent tid)
  | _ => req_table r
  end.

Definition make_fams (fams : list (bytes * option gcrule)) : list (bytes * option gcrule) :=
  fold_left (fun acc p => ainsert (fst p) (snd p) acc) fams [].

Definition call_of (r : breq) (now : Z) (coins : list bool) : call := mkCall r now coins.

(* ------------------------------------------------------------------ *)
(* association-list helpers                                            *)
(* ------------------------------------------------------------------ *)
Lemma alookup_none_notin {V} k (l : list (bytes * V)) : ~ In k (map fst l) -> alookup k l = None.
Proof.
  induction l as [|[k0 v0] l IH]; cbn; auto. intros H. destruct (beqb k k0) eqn:E.
  - apply beqb_eq in E. subst. exfalso. apply H. left. reflexivity.
  - apply IH. intros Hin. apply H. right. exact Hin.
Qed.

Lemma alookup_in {V} k v (l : list (bytes * V)) : alookup k l = Some v -> In (k, v) l.
Proof.
  induction l as [|[k0 v0] l IH]; cbn; [discriminate|]. destruct (beqb k k0) eqn:E.
  - apply beqb_eq in E. subst. intros H. injection H as ->. left. reflexivity.
  - intros H. right. auto.
Qed.

Lemma alookup_some_in_keys {V} k (l : list (bytes * V)) : In k (map fst l) -> exists v, alookup k l = Some v.
Proof.
  induction l as [|[k0 v0] l IH]; cbn; [contradiction|]. intros [H|H].
  - subst. rewrite beqb_refl. eauto.
  - destruct (beqb k k0); eauto.
Qed.

Lemma asorted_in_alookup {V} (l : list (bytes * V)) k v : asorted l -> In (k, v) l -> alookup k l = Some v.
Proof.
  induction l as [|[k0 v0] l IH]; intros Hs Hin; [destruct Hin|]. cbn. destruct Hin as [H|H].
  - injection H as -> ->. rewrite beqb_refl. reflexivity.
  - destruct (beqb k k0) eqn:E.
    + apply beqb_eq in E. subst k0. exfalso. assert (Hlt : lex_lt k k) by (eapply asorted_head_lt; eauto).
      unfold lex_lt in Hlt. rewrite lex_refl in Hlt. discriminate.
    + apply IH; auto. eapply asorted_tail; eauto.
Qed.

Lemma known_family_alookup tf f :
  known_family tf f = match alookup f tf with Some _ => true | None => false end.
Proof.
  unfold known_family. induction tf as [|[k v] tf IH]; cbn; auto.
  rewrite (beqb_sym k f). destruct (beqb f k); auto.
Qed.

Lemma in_keys_ainsert {V} k (v : V) l x : In x (map fst (ainsert k v l)) <-> x = k \/ In x (map fst l).
Proof.
  induction l as [|[k0 v0] l IH]; cbn.
  - intuition (subst; auto).
  - destruct (lex_cmp k k0) eqn:E; cbn.
    + apply lex_eq in E. subst k0. intuition (subst; auto).
    + intuition (subst; auto).
    + rewrite IH. intuition (subst; auto).
Qed.

(* ------------------------------------------------------------------ *)
(* requests on a missing table                                         *)
(* ------------------------------------------------------------------ *)
(* EVERY request naming a table that does not exist answers NotFound and changes nothing *)
Theorem missing_table_not_found : forall s r now coins n,
  req_table r = Some n -> alookup n s = None -> step s (mkCall r now coins) = (s, fail cNotFound).
Proof.
  intros s r now coins n Hr Hn.
  destruct r; cbn in Hr; try discriminate; injection Hr as ->; unfold step; cbn [cl_req cl_now cl_coins];
    rewrite Hn; reflexivity.
Qed.

(* ------------------------------------------------------------------ *)
(* create / get / list / delete                                        *)
(* ------------------------------------------------------------------ *)
(* CreateTable in one equation: the names are validated first, then the existence check *)
Theorem create_spec : forall s parent tid fams now coins,
  step s (mkCall (BCreateTable parent tid fams) now coins) =
  if negb (valid_tid tid) || negb (valid_parent parent) then (s, fail cInvalidArgument)
  else match alookup (table_name parent tid) s with
       | Some _ => (s, fail cAlreadyExists)
       | None => (set_table s (table_name parent tid) (mkTable (make_fams fams) []),
                  ok (YTable (table_name parent tid) (make_fams fams)))
       end.
Proof. reflexivity. Qed.

(* an invalid table id or parent: InvalidArgument, nothing changes (whatever the server holds) *)
Theorem create_rejects_invalid_names : forall s parent tid fams now coins,
  valid_tid tid = false \/ valid_parent parent = false ->
  step s (mkCall (BCreateTable parent tid fams) now coins) = (s, fail cInvalidArgument).
Proof.
  intros s parent tid fams now coins H. rewrite create_spec.
  destruct H as [H|H]; rewrite H; cbn [negb orb]; [|rewrite orb_true_r]; reflexivity.
Qed.

(* the table exists: never created again, the state is unchanged; the status is AlreadyExists for
   valid names and InvalidArgument otherwise (the validation comes first) *)
Theorem create_existing : forall s parent tid fams now coins t,
  alookup (table_name parent tid) s = Some t ->
  step s (mkCall (BCreateTable parent tid fams) now coins) =
  (s, fail (if valid_tid tid && valid_parent parent then cAlreadyExists else cInvalidArgument)).
Proof.
  intros s parent tid fams now coins t H. rewrite create_spec, H.
  destruct (valid_tid tid), (valid_parent parent); reflexivity.
Qed.

Theorem create_new : forall s parent tid fams now coins,
  valid_tid tid = true -> valid_parent parent = true ->
  alookup (table_name parent tid) s = None ->
  step s (mkCall (BCreateTable parent tid fams) now coins) =
  (set_table s (table_name parent tid) (mkTable (make_fams fams) []),
   ok (YTable (table_name parent tid) (make_fams fams))).
Proof. intros s parent tid fams now coins H1 H2 H. rewrite create_spec, H1, H2, H. reflexivity. Qed.

(* what a successful CreateTable implies: both names are valid, the table did not exist, and the
   step is the insertion of the empty table *)
Theorem create_ok_inv : forall s parent tid fams now coins,
  br_code (snd (step s (mkCall (BCreateTable parent tid fams) now coins))) = cOK ->
  valid_tid tid = true /\ valid_parent parent = true /\ alookup (table_name parent tid) s = None
  /\ step s (mkCall (BCreateTable parent tid fams) now coins) =
     (set_table s (table_name parent tid) (mkTable (make_fams fams) []),
      ok (YTable (table_name parent tid) (make_fams fams))).
Proof.
  intros s parent tid fams now coins. rewrite create_spec.
  destruct (valid_tid tid), (valid_parent parent); cbn [negb orb]; try (cbn; discriminate).
  destruct (alookup (table_name parent tid) s); [cbn; discriminate|]. auto.
Qed.

Theorem create_ok_iff : forall s parent tid fams now coins,
  br_code (snd (step s (mkCall (BCreateTable parent tid fams) now coins))) = cOK <->
  valid_tid tid = true /\ valid_parent parent = true /\ alookup (table_name parent tid) s = None.
Proof.
  intros s parent tid fams now coins. split.
  - intros H. apply create_ok_inv in H. tauto.
  - intros [H1 [H2 H3]]. rewrite create_new; auto.
Qed.

Theorem get_table_spec : forall s name now coins,
  step s (mkCall (BGetTable name) now coins) =
  (s, match alookup name s with Some t => ok (YTable name (t_fams t)) | None => fail cNotFound end).
Proof. intros s name now coins. unfold step. cbn [cl_req]. destruct (alookup name s); reflexivity. Qed.

(* after a successful create: the table exists with the given families and without rows, and
   GetTable returns those families *)
Theorem create_then_get : forall s parent tid fams now coins now' coins',
  br_code (snd (step s (mkCall (BCreateTable parent tid fams) now coins))) = cOK ->
  let s' := fst (step s (mkCall (BCreateTable parent tid fams) now coins)) in
  alookup (table_name parent tid) s' = Some (mkTable (make_fams fams) [])
  /\ step s' (mkCall (BGetTable (table_name parent tid)) now' coins')
     = (s', ok (YTable (table_name parent tid) (make_fams fams))).
Proof.
  intros s parent tid fams now coins now' coins' H s'. unfold s'.
  destruct (create_ok_inv _ _ _ _ _ _ H) as [_ [_ [_ E0]]]. rewrite E0. cbn [fst].
  assert (E : alookup (table_name parent tid) (set_table s (table_name parent tid) (mkTable (make_fams fams) []))
              = Some (mkTable (make_fams fams) [])) by apply alookup_ainsert_same.
  split; auto. rewrite get_table_spec, E. reflexivity.
Qed.

Theorem delete_spec : forall s name now coins,
  step s (mkCall (BDeleteTable name) now coins) =
  match alookup name s with
  | Some _ => (aremove name s, ok YNone)
  | None => (s, fail cNotFound)
  end.
Proof. intros s name now coins. unfold step. cbn [cl_req]. destruct (alookup name s); reflexivity. Qed.

(* after a successful delete the table is gone: every request naming it answers NotFound *)
Theorem delete_then_not_found : forall s name now coins t, asorted s -> alookup name s = Some t ->
  let s' := fst (step s (mkCall (BDeleteTable name) now coins)) in
  snd (step s (mkCall (BDeleteTable name) now coins)) = ok YNone
  /\ alookup name s' = None
  /\ forall r now' coins', req_table r = Some name -> step s' (mkCall r now' coins') = (s', fail cNotFound).
Proof.
  intros s name now coins t Hs H s'. unfold s'. rewrite delete_spec, H. cbn [fst snd].
  assert (E : alookup name (aremove name s) = None) by (apply alookup_aremove_same; auto).
  repeat split; auto. intros r now' coins' Hr. apply missing_table_not_found with (n := name); auto.
Qed.

(* the three instances the property names *)
Corollary delete_then_requests : forall s name now coins t, asorted s -> alookup name s = Some t ->
  let s' := fst (step s (mkCall (BDeleteTable name) now coins)) in
  (forall n c, step s' (mkCall (BGetTable name) n c) = (s', fail cNotFound))
  /\ (forall key muts n c, step s' (mkCall (BMutateRow name key muts) n c) = (s', fail cNotFound))
  /\ (forall keys ranges f limit n c, step s' (mkCall (BReadRows name keys ranges f limit) n c) = (s', fail cNotFound)).
Proof.
  intros s name now coins t Hs H s'. destruct (delete_then_not_found s name now coins t Hs H) as [_ [_ G]]. fold s' in G.
  repeat split; intros; apply G; reflexivity.
Qed.

(* a re-created table starts without rows, whatever it held before *)
Theorem delete_then_create_empty : forall s parent tid fams now coins now' coins' t, asorted s ->
  valid_tid tid = true -> valid_parent parent = true ->
  alookup (table_name parent tid) s = Some t ->
  let s1 := fst (step s (mkCall (BDeleteTable (table_name parent tid)) now coins)) in
  let s2 := fst (step s1 (mkCall (BCreateTable parent tid fams) now' coins')) in
  br_code (snd (step s1 (mkCall (BCreateTable parent tid fams) now' coins'))) = cOK
  /\ alookup (table_name parent tid) s2 = Some (mkTable (make_fams fams) []).
Proof.
  intros s parent tid fams now coins now' coins' t Hs Ht Hp H s1 s2.
  destruct (delete_then_not_found s _ now coins t Hs H) as [_ [E _]]. fold s1 in E.
  assert (Hok : br_code (snd (step s1 (mkCall (BCreateTable parent tid fams) now' coins'))) = cOK)
    by (apply create_ok_iff; auto).
  split; [exact Hok|]. apply (create_then_get s1 parent tid fams now' coins' 0 []). exact Hok.
Qed.

Lemma has_prefix_app p x : has_prefix (p ++ x) p = true.
Proof. induction p as [|a p IH]; cbn; auto. destruct x; auto. rewrite N.eqb_refl. exact IH. Qed.

Theorem list_tables_spec : forall s parent now coins,
  exists l, step s (mkCall (BListTables parent) now coins) = (s, ok (YTables l))
            /\ forall n, In n l <-> In n (map fst s) /\ has_prefix n (parent ++ s_tables_sep) = true.
Proof.
  intros s parent now coins. exists (filter (fun n => has_prefix n (parent ++ s_tables_sep)) (map fst s)).
  split; [reflexivity|]. intros n. rewrite filter_In. tauto.
Qed.

(* a created table is listed under its parent *)
Theorem create_then_listed : forall s parent tid fams now coins now' coins',
  br_code (snd (step s (mkCall (BCreateTable parent tid fams) now coins))) = cOK ->
  let s' := fst (step s (mkCall (BCreateTable parent tid fams) now coins)) in
  exists l, step s' (mkCall (BListTables parent) now' coins') = (s', ok (YTables l))
            /\ In (table_name parent tid) l.
Proof.
  intros s parent tid fams now coins now' coins' H s'.
  destruct (list_tables_spec s' parent now' coins') as [l [E Hl]]. exists l. split; auto. apply Hl. split.
  - unfold s'. destruct (create_ok_inv _ _ _ _ _ _ H) as [_ [_ [_ E0]]]. rewrite E0. cbn [fst].
    unfold set_table. apply in_keys_ainsert. left. reflexivity.
  - unfold table_name. rewrite app_assoc. apply has_prefix_app.
Qed.

(* ------------------------------------------------------------------ *)
(* frame: no request touches a table it does not name                  *)
(* ------------------------------------------------------------------ *)
Ltac frame_tac :=
  repeat match goal with
         | |- context [match ?x with _ => _ end] => destruct x eqn:?
         end;
  cbn [fst]; try reflexivity;
  try (apply alookup_ainsert_other; congruence); try (apply alookup_aremove_other; congruence).

Theorem step_frame : forall s c other, affected (cl_req c) <> Some other ->
  alookup other (fst (step s c)) = alookup other s.
Proof.
  intros s [r now coins] other Hne. cbn [cl_req] in Hne.
  destruct r; cbn [affected req_table] in Hne; unfold table_name in Hne; unfold step, set_table; cbn [cl_req cl_now cl_coins]; frame_tac.
Qed.

(* ------------------------------------------------------------------ *)
(* ModifyColumnFamilies                                                *)
(* ------------------------------------------------------------------ *)
(* all or nothing: the request is validated as a whole first *)
Theorem modify_families_atomic : forall s name mods now coins t, alookup name s = Some t ->
  step s (mkCall (BModifyFamilies name mods) now coins) =
  if N.eqb (validate_mods (map fst (t_fams t)) mods) cOK
  then (set_table s name (apply_mods t mods), ok (YTable name (t_fams (apply_mods t mods))))
  else (s, fail (validate_mods (map fst (t_fams t)) mods)).
Proof.
  intros s name mods now coins t H. unfold step. cbn [cl_req]. rewrite H.
  destruct (N.eqb (validate_mods (map fst (t_fams t)) mods) cOK); reflexivity.
Qed.

Lemma update_row_fams t k fs : t_fams (update_row t k fs) = t_fams t.
Proof. unfold update_row. destruct (scrub_fams (t_fams t) fs); reflexivity. Qed.

Lemma update_fold_fams l : forall t,
  t_fams (fold_left (fun acc p => update_row acc (fst p) (snd p)) l t) = t_fams t.
Proof. induction l as [|p l IH]; intros t; cbn; auto. rewrite IH. apply update_row_fams. Qed.

Lemma purge_fams t : t_fams (purge t) = t_fams t.
Proof. unfold purge. apply update_fold_fams. Qed.

(* the effect of one modification on the family map *)
Definition mod_fams (tf : list (bytes * option gcrule)) (m : fmod) : list (bytes * option gcrule) :=
  match m with
  | MCreate id rule | MUpdate id rule => ainsert id rule tf
  | MDrop id => aremove id tf
  | MNone _ => tf
  end.

(* the families after a successful request are exactly the modifications applied in order *)
Theorem apply_mods_fams : forall mods t, t_fams (apply_mods t mods) = fold_left mod_fams mods (t_fams t).
Proof.
  induction mods as [|m mods IH]; intros t; [reflexivity|].
  destruct m; cbn [apply_mods fold_left mod_fams]; rewrite IH; cbn [t_fams]; auto. rewrite purge_fams. reflexivity.
Qed.

Lemma mod_fams_sorted tf m : asorted tf -> asorted (mod_fams tf m).
Proof. destruct m; cbn; auto using ainsert_sorted, aremove_sorted. Qed.

Lemma apply_mods_fams_sorted mods : forall t, asorted (t_fams t) -> asorted (t_fams (apply_mods t mods)).
Proof.
  intros t H. rewrite apply_mods_fams. revert H. generalize (t_fams t). induction mods as [|m mods IH]; intros tf H; cbn; auto.
  apply IH. apply mod_fams_sorted; auto.
Qed.

(* Layer B for validation: the status of ONE modification against the families as they are *)
Definition mod_code (tf : list (bytes * option gcrule)) (m : fmod) : N :=
  match m with
  | MCreate id _ => if known_family tf id then cAlreadyExists else cOK
  | MDrop id | MUpdate id _ => if known_family tf id then cOK else cUnknown
  | MNone _ => cOK
  end.

(* sequential simulation: run the modifications one by one on the real table; the answer is the
   status of the first one that fails against the families left by its predecessors *)
Fixpoint first_error (t : table) (mods : list fmod) : N :=
  match mods with
  | [] => cOK
  | m :: r => if N.eqb (mod_code (t_fams t) m) cOK then first_error (apply_mods t [m]) r
              else mod_code (t_fams t) m
  end.

Lemma known_ainsert tf id rule x : known_family (ainsert id rule tf) x = beqb x id || known_family tf x.
Proof.
  rewrite !known_family_alookup. destruct (beqb x id) eqn:E.
  - apply beqb_eq in E. subst. rewrite alookup_ainsert_same. reflexivity.
  - apply beqb_neq in E. rewrite alookup_ainsert_other; auto.
Qed.

Lemma known_aremove tf id x : asorted tf -> known_family (aremove id tf) x = negb (beqb x id) && known_family tf x.
Proof.
  intros Hs. rewrite !known_family_alookup. destruct (beqb x id) eqn:E.
  - apply beqb_eq in E. subst. rewrite alookup_aremove_same; auto.
  - apply beqb_neq in E. rewrite alookup_aremove_other; auto.
Qed.

Lemma existsb_filter_ne id x ex :
  existsb (beqb x) (filter (fun y => negb (beqb id y)) ex) = negb (beqb x id) && existsb (beqb x) ex.
Proof.
  induction ex as [|y ex IH]; cbn; [rewrite andb_false_r; reflexivity|].
  destruct (beqb id y) eqn:E; cbn.
  - rewrite IH. apply beqb_eq in E. subst y. destruct (beqb x id); cbn; reflexivity.
  - rewrite IH. destruct (beqb x y) eqn:E2; cbn; [|reflexivity].
    apply beqb_eq in E2. subst y. rewrite (beqb_sym x id), E. reflexivity.
Qed.

Lemma known_map_fst tf x : existsb (beqb x) (map fst tf) = known_family tf x.
Proof.
  unfold known_family. induction tf as [|[k v] tf IH]; cbn; auto. rewrite IH, (beqb_sym x k). reflexivity.
Qed.

Lemma validate_sequential_gen mods : forall t ex, asorted (t_fams t) ->
  (forall x, existsb (beqb x) ex = known_family (t_fams t) x) ->
  validate_mods ex mods = first_error t mods.
Proof.
  induction mods as [|m mods IH]; intros t ex Hs Hex; [reflexivity|].
  destruct m as [id rule|id rule|id|id]; cbn [validate_mods first_error mod_code]; try rewrite Hex.
  - destruct (known_family (t_fams t) id) eqn:Ek; [reflexivity|]. cbn [N.eqb cOK].
    apply IH; cbn [apply_mods t_fams].
    + apply ainsert_sorted; auto.
    + intros x. cbn [existsb]. rewrite Hex, known_ainsert. reflexivity.
  - destruct (known_family (t_fams t) id) eqn:Ek; [|reflexivity]. cbn [N.eqb cOK].
    apply IH; cbn [apply_mods t_fams].
    + apply ainsert_sorted; auto.
    + intros x. rewrite Hex, known_ainsert. destruct (beqb x id) eqn:E; auto. apply beqb_eq in E. subst. rewrite Ek. reflexivity.
  - destruct (known_family (t_fams t) id) eqn:Ek; [|reflexivity]. cbn [N.eqb cOK].
    apply IH; cbn [apply_mods]; rewrite purge_fams; cbn [t_fams].
    + apply aremove_sorted; auto.
    + intros x. rewrite existsb_filter_ne, Hex, known_aremove; auto.
  - cbn [N.eqb cOK]. apply IH; auto.
Qed.

(* validation = sequential simulation on the real table *)
Theorem validate_mods_sequential : forall t mods, asorted (t_fams t) ->
  validate_mods (map fst (t_fams t)) mods = first_error t mods.
Proof. intros t mods Hs. apply validate_sequential_gen; auto. intros x. apply known_map_fst. Qed.

(* the single-step laws, in the code's own terms (any name list) *)
Theorem validate_create_existing : forall ex id rule rest,
  existsb (beqb id) ex = true -> validate_mods ex (MCreate id rule :: rest) = cAlreadyExists.
Proof. intros ex id rule rest H. cbn. rewrite H. reflexivity. Qed.
Theorem validate_drop_unknown : forall ex id rest,
  existsb (beqb id) ex = false -> validate_mods ex (MDrop id :: rest) = cUnknown.
Proof. intros ex id rest H. cbn. rewrite H. reflexivity. Qed.
Theorem validate_update_unknown : forall ex id rule rest,
  existsb (beqb id) ex = false -> validate_mods ex (MUpdate id rule :: rest) = cUnknown.
Proof. intros ex id rule rest H. cbn. rewrite H. reflexivity. Qed.
(* earlier modifications of the same request count *)
Theorem validate_create_twice : forall ex id r1 r2 rest,
  validate_mods ex (MCreate id r1 :: MCreate id r2 :: rest) = cAlreadyExists.
Proof.
  intros ex id r1 r2 rest. cbn [validate_mods]. destruct (existsb (beqb id) ex); [reflexivity|].
  cbn [existsb]. rewrite beqb_refl. reflexivity.
Qed.
Theorem validate_drop_then_use : forall ex id rule rest,
  validate_mods ex (MDrop id :: MUpdate id rule :: rest) = cUnknown
  /\ validate_mods ex (MDrop id :: MDrop id :: rest) = cUnknown.
Proof.
  intros ex id rule rest. cbn [validate_mods]. destruct (existsb (beqb id) ex); [|split; reflexivity].
  assert (E : existsb (beqb id) (filter (fun x => negb (beqb id x)) ex) = false).
  { rewrite existsb_filter_ne, beqb_refl. reflexivity. }
  rewrite E. split; reflexivity.
Qed.
Theorem validate_create_then_use : forall ex id r1 rule rest,
  existsb (beqb id) ex = false ->
  validate_mods ex (MCreate id r1 :: MUpdate id rule :: rest) = validate_mods (id :: ex) rest.
Proof. intros ex id r1 rule rest H. cbn [validate_mods]. rewrite H. cbn [existsb]. rewrite beqb_refl. reflexivity. Qed.

(* ------------------------------------------------------------------ *)
(* rows under update_row / purge                                       *)
(* ------------------------------------------------------------------ *)
Definition nonempty_opt {A} (l : list A) : option (list A) := match l with [] => None | _ => Some l end.

Lemma update_row_sorted t k fs : asorted (t_rows t) -> asorted (t_rows (update_row t k fs)).
Proof.
  intros H. unfold update_row. destruct (scrub_fams (t_fams t) fs); cbn [t_rows]; auto using aremove_sorted, ainsert_sorted.
Qed.

Lemma update_row_lookup t k fs k' : asorted (t_rows t) ->
  alookup k' (t_rows (update_row t k fs)) =
  if beqb k' k then nonempty_opt (scrub_fams (t_fams t) fs) else alookup k' (t_rows t).
Proof.
  intros H. unfold update_row. destruct (beqb k' k) eqn:E.
  - apply beqb_eq in E. subst k'. destruct (scrub_fams (t_fams t) fs); cbn [t_rows nonempty_opt].
    + apply alookup_aremove_same; auto.
    + apply alookup_ainsert_same.
  - apply beqb_neq in E. destruct (scrub_fams (t_fams t) fs); cbn [t_rows].
    + apply alookup_aremove_other; auto.
    + apply alookup_ainsert_other; auto.
Qed.

Lemma update_fold_rows l : forall acc, asorted (t_rows acc) -> NoDup (map fst l) ->
  let r := fold_left (fun acc p => update_row acc (fst p) (snd p)) l acc in
  asorted (t_rows r)
  /\ forall k, alookup k (t_rows r) = match alookup k l with
                                     | Some fs => nonempty_opt (scrub_fams (t_fams acc) fs)
                                     | None => alookup k (t_rows acc)
                                     end.
Proof.
  induction l as [|[k0 fs0] l IH]; intros acc Hs Hnd; cbn [fold_left].
  - split; auto.
  - cbn [map fst] in Hnd. inversion Hnd as [|? ? Hnotin Hnd']; subst.
    destruct (IH (update_row acc k0 fs0) (update_row_sorted _ _ _ Hs) Hnd') as [H1 H2]. cbn [fst snd].
    split; auto. intros k. rewrite H2. rewrite update_row_fams. cbn [alookup]. destruct (beqb k k0) eqn:E.
    + apply beqb_eq in E. subst k. rewrite (alookup_none_notin k0 l Hnotin). rewrite update_row_lookup; auto.
      rewrite beqb_refl. reflexivity.
    + destruct (alookup k l); auto. rewrite update_row_lookup; auto. rewrite E. reflexivity.
Qed.

Lemma asorted_nodup_keys {V} (l : list (bytes * V)) : asorted l -> NoDup (map fst l).
Proof. intros H. apply sorted_lt_nodup. apply asorted_keys_sorted. exact H. Qed.

(* purge re-scrubs every row against the table's families and removes the rows left empty *)
Lemma purge_rows t : asorted (t_rows t) ->
  asorted (t_rows (purge t))
  /\ forall k, alookup k (t_rows (purge t)) = match alookup k (t_rows t) with
                                               | Some fs => nonempty_opt (scrub_fams (t_fams t) fs)
                                               | None => None
                                               end.
Proof.
  intros Hs. unfold purge. destruct (update_fold_rows (t_rows t) t Hs (asorted_nodup_keys _ Hs)) as [H1 H2].
  split; auto. intros k. rewrite H2. destruct (alookup k (t_rows t)); reflexivity.
Qed.

(* ------------------------------------------------------------------ *)
(* rows in stored form                                                 *)
(* ------------------------------------------------------------------ *)
(* the form update_row leaves a row in: re-scrubbing it changes nothing *)
Definition row_stored (t : table) (fs : list family) : Prop := scrub_fams (t_fams t) fs = fs.

Definition fam_nonempty (f : family) : bool := match fam_cols f with [] => false | _ => true end.

Lemma scrub_fams_cons tf x fs :
  scrub_fams tf (x :: fs) =
  if known_family tf (fam_name x)
  then (if fam_nonempty (scrub_fam x) then scrub_fam x :: scrub_fams tf fs else scrub_fams tf fs)
  else scrub_fams tf fs.
Proof.
  unfold scrub_fams, fam_nonempty. cbn [filter]. destruct (known_family tf (fam_name x)); [|reflexivity].
  cbn [map filter]. destruct (fam_cols (scrub_fam x)); reflexivity.
Qed.

Lemma filter_length_le {A} (p : A -> bool) l : (length (filter p l) <= length l)%nat.
Proof. induction l as [|x l IH]; cbn; auto. destruct (p x); cbn; lia. Qed.

Lemma filter_length_eq {A} (p : A -> bool) l : length (filter p l) = length l -> filter p l = l /\ Forall (fun x => p x = true) l.
Proof.
  induction l as [|x l IH]; cbn; intros H; [split; auto|]. destruct (p x) eqn:E; cbn in H.
  - injection H as H. destruct (IH H) as [H1 H2]. split; [f_equal; auto|constructor; auto].
  - pose proof (filter_length_le p l). lia.
Qed.

Lemma map_id_forall {A} (g : A -> A) l : map g l = l -> Forall (fun x => g x = x) l.
Proof. induction l as [|x l IH]; cbn; intros H; constructor; injection H; auto. Qed.

Lemma row_stored_forall tf fs : scrub_fams tf fs = fs ->
  Forall (fun x => known_family tf (fam_name x) = true /\ scrub_fam x = x /\ fam_nonempty x = true) fs.
Proof.
  unfold scrub_fams. fold fam_nonempty.
  set (l1 := filter (fun f => known_family tf (fam_name f)) fs). intros H.
  assert (Hlen : length (filter fam_nonempty (map scrub_fam l1)) = length fs) by (rewrite H; reflexivity).
  pose proof (filter_length_le fam_nonempty (map scrub_fam l1)) as L1. rewrite map_length in L1.
  pose proof (filter_length_le (fun f => known_family tf (fam_name f)) fs) as L2. fold l1 in L2.
  assert (E1 : length l1 = length fs) by lia.
  destruct (filter_length_eq _ _ E1) as [E1' F1]. fold l1 in E1'. rewrite E1' in *.
  assert (E2 : length (filter fam_nonempty (map scrub_fam fs)) = length (map scrub_fam fs)) by (rewrite map_length; lia).
  destruct (filter_length_eq _ _ E2) as [E2' F2]. rewrite E2' in H.
  pose proof (map_id_forall _ _ H) as F3. rewrite H in F2.
  rewrite Forall_forall in *. intros x Hx. repeat split; auto.
Qed.

Lemma scrub_after_drop tf f fs : asorted tf -> scrub_fams tf fs = fs ->
  scrub_fams (aremove f tf) fs = filter (fun fm => negb (beqb (fam_name fm) f)) fs.
Proof.
  intros Hs H. apply row_stored_forall in H. induction fs as [|x fs IH]; [reflexivity|].
  inversion H as [|? ? [Hk [Hsc Hne]] H']; subst. rewrite scrub_fams_cons. rewrite known_aremove; auto. rewrite Hk, andb_true_r.
  cbn [filter]. destruct (negb (beqb (fam_name x) f)); auto. rewrite Hsc, Hne. f_equal. auto.
Qed.

Lemma get_family_filter_same fs f : get_family (filter (fun fm => negb (beqb (fam_name fm) f)) fs) f = None.
Proof.
  induction fs as [|x fs IH]; cbn; auto. destruct (beqb (fam_name x) f) eqn:E; cbn; auto. rewrite E. auto.
Qed.

Lemma get_family_filter_other fs f g : g <> f ->
  get_family (filter (fun fm => negb (beqb (fam_name fm) f)) fs) g = get_family fs g.
Proof.
  intros Hne. induction fs as [|x fs IH]; cbn; auto. destruct (beqb (fam_name x) f) eqn:E; cbn.
  - apply beqb_eq in E. assert (E2 : beqb (fam_name x) g = false) by (apply beqb_neq; congruence). rewrite E2. auto.
  - destruct (beqb (fam_name x) g); auto.
Qed.

(* ------------------------------------------------------------------ *)
(* dropping a family                                                   *)
(* ------------------------------------------------------------------ *)
Definition drop_family (t : table) (f : bytes) : table := purge (mkTable (aremove f (t_fams t)) (t_rows t)).

Theorem drop_family_step : forall s name f now coins t,
  alookup name s = Some t -> known_family (t_fams t) f = true ->
  step s (mkCall (BModifyFamilies name [MDrop f]) now coins) =
  (set_table s name (drop_family t f), ok (YTable name (aremove f (t_fams t)))).
Proof.
  intros s name f now coins t H Hk. rewrite (modify_families_atomic s name _ now coins t H).
  cbn [validate_mods]. rewrite known_map_fst, Hk. cbn [N.eqb cOK apply_mods]. fold (drop_family t f).
  unfold drop_family. rewrite purge_fams. reflexivity.
Qed.

(* the family is gone from the schema, the others are untouched; every row has lost exactly
   that family; rows left without any family are removed; nothing else changes *)
Theorem drop_family_removes_exactly : forall t f, asorted (t_fams t) -> asorted (t_rows t) ->
  let t' := drop_family t f in
  t_fams t' = aremove f (t_fams t)
  /\ known_family (t_fams t') f = false
  /\ (forall g, g <> f -> alookup g (t_fams t') = alookup g (t_fams t))
  /\ asorted (t_rows t')
  /\ (forall k, alookup k (t_rows t) = None -> alookup k (t_rows t') = None)
  /\ (forall k fs, alookup k (t_rows t) = Some fs -> row_stored t fs ->
        let fs' := filter (fun fm => negb (beqb (fam_name fm) f)) fs in
        alookup k (t_rows t') = nonempty_opt fs'
        /\ get_family fs' f = None
        /\ (forall g, g <> f -> get_family fs' g = get_family fs g)).
Proof.
  intros t f Hf Hr t'. unfold t', drop_family.
  destruct (purge_rows (mkTable (aremove f (t_fams t)) (t_rows t)) Hr) as [P1 P2]. cbn [t_rows t_fams] in P2.
  rewrite purge_fams. cbn [t_fams]. split; [reflexivity|]. split; [|split; [|split; [|split]]].
  - rewrite known_aremove; auto. rewrite beqb_refl. reflexivity.
  - intros g Hg. apply alookup_aremove_other; auto.
  - exact P1.
  - intros k Hk. rewrite P2, Hk. reflexivity.
  - intros k fs Hk Hst. split; [|split].
    + rewrite P2, Hk. rewrite scrub_after_drop; auto.
    + apply get_family_filter_same.
    + intros g Hg. apply get_family_filter_other; auto.
Qed.

(* afterwards a SetCell to the dropped family is rejected and changes nothing *)
Theorem drop_family_then_setcell_rejected : forall s name f now coins t key q ts v rest now' coins',
  alookup name s = Some t -> known_family (t_fams t) f = true -> asorted (t_fams t) ->
  let s' := fst (step s (mkCall (BModifyFamilies name [MDrop f]) now coins)) in
  step s' (mkCall (BMutateRow name key (SetCell f q ts v :: rest)) now' coins') = (s', fail cUnknown).
Proof.
  intros s name f now coins t key q ts v rest now' coins' H Hk Hs s'. unfold s'. rewrite (drop_family_step s name f now coins t H Hk). cbn [fst].
  unfold step. cbn [cl_req cl_now]. unfold set_table. rewrite alookup_ainsert_same.
  assert (E : known_family (t_fams (drop_family t f)) f = false).
  { unfold drop_family. rewrite purge_fams. cbn [t_fams]. rewrite known_aremove; auto. rewrite beqb_refl. reflexivity. }
  cbn [apply_mutations apply_mutation]. rewrite E. reflexivity.
Qed.

(* ------------------------------------------------------------------ *)
(* DropRowRange                                                        *)
(* ------------------------------------------------------------------ *)
(* byte order vs. prefixes: keys with prefix p are >= p, and form a contiguous block that
   starts at the first key >= p *)
Lemma has_prefix_le p : forall k, has_prefix k p = true -> lex_le p k.
Proof.
  induction p as [|a p IH]; intros k H; [apply lex_le_nil|].
  destruct k as [|b k]; cbn [has_prefix] in H; [discriminate|]. apply andb_prop in H. destruct H as [H1 H2].
  apply N.eqb_eq in H1. subst b. unfold lex_le. cbn [lex_cmp]. rewrite N.compare_refl. apply IH. exact H2.
Qed.

Lemma has_prefix_nil k : has_prefix k [] = true.
Proof. destruct k; reflexivity. Qed.

Lemma prefix_contiguous p : forall k1 k2,
  lex_le p k1 -> lex_lt k1 k2 -> has_prefix k2 p = true -> has_prefix k1 p = true.
Proof.
  induction p as [|a p IH]; intros k1 k2 Hle Hlt Hp; [apply has_prefix_nil|].
  destruct k2 as [|b2 k2]; cbn [has_prefix] in Hp; [discriminate|]. apply andb_prop in Hp. destruct Hp as [Hp1 Hp2].
  apply N.eqb_eq in Hp1. subst b2.
  destruct k1 as [|b1 k1]; unfold lex_le, lex_lt in *; cbn [lex_cmp] in Hle, Hlt; [congruence|].
  cbn [has_prefix]. destruct (N.compare_spec a b1) as [E|E|E].
  - subst b1. rewrite N.compare_refl in Hlt. rewrite N.eqb_refl. cbn [andb]. apply (IH k1 k2); auto.
  - destruct (N.compare_spec b1 a) as [E'|E'|E']; try lia. discriminate.
  - congruence.
Qed.

Lemma prefix_block : forall p k1 k2,
  (has_prefix k2 p = true -> lex_le p k2)
  /\ (lex_le p k1 -> lex_lt k1 k2 -> has_prefix k2 p = true -> has_prefix k1 p = true).
Proof. intros p k1 k2. split; [apply has_prefix_le|apply prefix_contiguous]. Qed.

Definition take_pref (p : bytes) :=
  fix take (l : list (bytes * list family)) : list bytes :=
    match l with
    | [] => []
    | r :: rest => if has_prefix (fst r) p then fst r :: take rest else []
    end.

Lemma doomed_spec p (rows : list (bytes * list family)) : StronglySorted lex_lt (map fst rows) ->
  take_pref p (filter (fun r => lex_leb p (fst r)) rows) = map fst (filter (fun r => has_prefix (fst r) p) rows).
Proof.
  induction rows as [|[k v] rows IH]; intros Hs; [reflexivity|].
  cbn [map fst] in Hs. inversion Hs as [|? ? Hs' Hall]; subst. cbn [filter fst].
  destruct (lex_leb p k) eqn:Ele.
  - cbn [take_pref fst]. destruct (has_prefix k p) eqn:Ep.
    + cbn [map fst]. f_equal. apply IH; auto.
    + (* the walk stops here; no later key has the prefix *)
      assert (E : filter (fun r => has_prefix (fst r) p) rows = []).
      { clear IH. rewrite Forall_forall in Hall.
        assert (G : forall r, In r rows -> has_prefix (fst r) p = false).
        { intros r Hin. destruct (has_prefix (fst r) p) eqn:Er; auto.
          rewrite <- Ep. symmetry. apply (prefix_contiguous p k (fst r)); auto.
          - apply lex_leb_iff; auto.
          - apply Hall. apply in_map; auto. }
        clear - G. induction rows as [|x l IHl]; auto. cbn. rewrite G by (left; auto). apply IHl. intros r Hr. apply G. right; auto. }
      rewrite E. reflexivity.
  - assert (Ep : has_prefix k p = false).
    { destruct (has_prefix k p) eqn:Ep; auto. apply has_prefix_le in Ep. apply lex_leb_iff in Ep. congruence. }
    rewrite Ep. apply IH; auto.
Qed.

Lemma fold_aremove_skip {V} ds : forall k (v : V) r, ~ In k ds ->
  fold_left (fun acc d => aremove d acc) ds ((k, v) :: r) = (k, v) :: fold_left (fun acc d => aremove d acc) ds r.
Proof.
  induction ds as [|d ds IH]; intros k v r Hn; [reflexivity|]. cbn [fold_left aremove].
  assert (E : beqb d k = false). { apply beqb_neq. intros ->. apply Hn. left. reflexivity. }
  rewrite E. apply IH. intros Hin. apply Hn. right. exact Hin.
Qed.

Lemma fold_aremove_filter {V} (P : bytes -> bool) (rows : list (bytes * V)) : StronglySorted lex_lt (map fst rows) ->
  fold_left (fun acc d => aremove d acc) (map fst (filter (fun r => P (fst r)) rows)) rows
  = filter (fun r => negb (P (fst r))) rows.
Proof.
  induction rows as [|[k v] rows IH]; intros Hs; [reflexivity|].
  cbn [map fst] in Hs. inversion Hs as [|? ? Hs' Hall]; subst. cbn [filter fst]. destruct (P k) eqn:E; cbn [negb].
  - cbn [map fst fold_left aremove]. rewrite beqb_refl. apply IH; auto.
  - rewrite fold_aremove_skip.
    + f_equal. apply IH; auto.
    + intros Hin. apply in_map_iff in Hin. destruct Hin as [[k' v'] [Hk Hin]]. cbn [fst] in Hk. subst k'.
      apply filter_In in Hin. destruct Hin as [Hin _]. rewrite Forall_forall in Hall.
      apply (lex_lt_irrefl k). apply Hall. apply in_map_iff. exists (k, v'). auto.
Qed.

(* DropRowRange(prefix p) on a sorted table removes exactly the rows whose key has prefix p —
   for EVERY p (empty, equal to a key, ending in 0xff, ...) — and keeps the others, in order,
   unchanged; the schema is untouched *)
Theorem drop_prefix_exact : forall s name p now coins t, alookup name s = Some t -> asorted (t_rows t) ->
  step s (mkCall (BDropRowRange name false (Some p)) now coins) =
  (set_table s name (mkTable (t_fams t) (filter (fun r => negb (has_prefix (fst r) p)) (t_rows t))), ok YNone).
Proof.
  intros s name p now coins t H Hs. unfold step. cbn [cl_req]. rewrite H. cbn match.
  fold (take_pref p). apply asorted_keys_sorted in Hs. rewrite doomed_spec; auto.
  rewrite (fold_aremove_filter (fun k => has_prefix k p)); auto.
Qed.

Lemma alookup_filter_key {V} (q : bytes -> bool) (l : list (bytes * V)) k :
  alookup k (filter (fun r => q (fst r)) l) = if q k then alookup k l else None.
Proof.
  induction l as [|[k0 v0] l IH]; cbn [filter alookup fst]; [destruct (q k); reflexivity|].
  destruct (q k0) eqn:E0; cbn [alookup].
  - destruct (beqb k k0) eqn:E; auto. apply beqb_eq in E. subst. rewrite E0. reflexivity.
  - rewrite IH. destruct (beqb k k0) eqn:E; auto. apply beqb_eq in E. subst. rewrite E0. reflexivity.
Qed.

(* row by row: a key with the prefix is gone, any other key keeps its row *)
Theorem drop_prefix_lookup : forall s name p now coins t, alookup name s = Some t -> asorted (t_rows t) ->
  exists t', step s (mkCall (BDropRowRange name false (Some p)) now coins) = (set_table s name t', ok YNone)
    /\ t_fams t' = t_fams t /\ asorted (t_rows t')
    /\ (forall k, has_prefix k p = true -> alookup k (t_rows t') = None)
    /\ (forall k, has_prefix k p = false -> alookup k (t_rows t') = alookup k (t_rows t))
    /\ (forall kv, In kv (t_rows t') <-> In kv (t_rows t) /\ has_prefix (fst kv) p = false).
Proof.
  intros s name p now coins t H Hs. eexists. split; [apply drop_prefix_exact; eauto|]. cbn [t_fams t_rows].
  split; [reflexivity|]. split; [|split; [|split]].
  - apply keys_sorted_asorted. apply sorted_filter_keys. apply asorted_keys_sorted. auto.
  - intros k Hk. rewrite (alookup_filter_key (fun k => negb (has_prefix k p))). rewrite Hk. reflexivity.
  - intros k Hk. rewrite (alookup_filter_key (fun k => negb (has_prefix k p))). rewrite Hk. reflexivity.
  - intros kv. rewrite filter_In. rewrite negb_true_iff. tauto.
Qed.

(* the empty prefix drops every row *)
Corollary drop_prefix_empty : forall s name now coins t, alookup name s = Some t -> asorted (t_rows t) ->
  step s (mkCall (BDropRowRange name false (Some [])) now coins) = (set_table s name (mkTable (t_fams t) []), ok YNone).
Proof.
  intros s name now coins t H Hs. etransitivity; [apply (drop_prefix_exact s name [] now coins t H Hs)|]. repeat f_equal.
  induction (t_rows t) as [|x l IH]; cbn; auto. rewrite has_prefix_nil. cbn. apply IH. eapply asorted_tail; eauto.
Qed.

(* delete_all_data_from_table: all rows go, families stay *)
Theorem drop_all : forall s name pfx now coins t, alookup name s = Some t ->
  step s (mkCall (BDropRowRange name true pfx) now coins) = (set_table s name (mkTable (t_fams t) []), ok YNone).
Proof. intros s name pfx now coins t H. unfold step. cbn [cl_req]. rewrite H. reflexivity. Qed.

(* neither flag nor prefix: an error, nothing changes *)
Theorem drop_nothing : forall s name now coins t, alookup name s = Some t ->
  step s (mkCall (BDropRowRange name false None) now coins) = (s, fail cUnknown).
Proof. intros s name now coins t H. unfold step. cbn [cl_req]. rewrite H. reflexivity. Qed.

(* no DropRowRange ever changes the schema of the table *)
Theorem drop_keeps_schema : forall s name all pfx now coins t, alookup name s = Some t ->
  match alookup name (fst (step s (mkCall (BDropRowRange name all pfx) now coins))) with
  | Some t' => t_fams t' = t_fams t
  | None => False
  end.
Proof.
  intros s name all pfx now coins t H. unfold step. cbn [cl_req]. rewrite H.
  destruct all; [|destruct pfx]; cbn [fst]; unfold set_table; try rewrite alookup_ainsert_same; try rewrite H; reflexivity.
Qed.

(* ------------------------------------------------------------------ *)
(* the sortedness hypotheses above are invariants of every run         *)
(* ------------------------------------------------------------------ *)
Definition table_wf (t : table) : Prop := asorted (t_rows t) /\ asorted (t_fams t).
Definition server_wf (s : server) : Prop := asorted s /\ forall n t, alookup n s = Some t -> table_wf t.

Lemma set_table_wf s n t : server_wf s -> table_wf t -> server_wf (set_table s n t).
Proof.
  intros [Hs Ht] Hw. unfold set_table. split; [apply ainsert_sorted; auto|]. intros n' t' H.
  destruct (beqb n' n) eqn:E.
  - apply beqb_eq in E. subst. rewrite alookup_ainsert_same in H. injection H as <-. auto.
  - apply beqb_neq in E. rewrite alookup_ainsert_other in H; eauto.
Qed.

Lemma aremove_wf s n : server_wf s -> server_wf (aremove n s).
Proof.
  intros [Hs Ht]. split; [apply aremove_sorted; auto|]. intros n' t' H. destruct (beqb n' n) eqn:E.
  - apply beqb_eq in E. subst. rewrite alookup_aremove_same in H; auto. discriminate.
  - apply beqb_neq in E. rewrite alookup_aremove_other in H; eauto.
Qed.

Lemma update_row_wf t k fs : table_wf t -> table_wf (update_row t k fs).
Proof. intros [H1 H2]. split; [apply update_row_sorted; auto|rewrite update_row_fams; auto]. Qed.

Lemma make_fams_sorted fams : asorted (make_fams fams).
Proof.
  unfold make_fams. assert (G : forall acc, asorted acc ->
    asorted (fold_left (fun acc (p : bytes * option gcrule) => ainsert (fst p) (snd p) acc) fams acc)).
  { induction fams as [|p fams IH]; intros acc H; cbn; auto. apply IH. apply ainsert_sorted; auto. }
  apply G. constructor.
Qed.

Lemma apply_mods_wf mods : forall t, table_wf t -> table_wf (apply_mods t mods).
Proof.
  induction mods as [|m mods IH]; intros t [H1 H2]; [split; auto|].
  destruct m; cbn [apply_mods]; apply IH.
  - split; cbn [t_rows t_fams]; auto using ainsert_sorted.
  - split; cbn [t_rows t_fams]; auto using ainsert_sorted.
  - split; [apply purge_rows; auto|rewrite purge_fams; cbn [t_fams]; apply aremove_sorted; auto].
  - split; auto.
Qed.

Lemma fold_aremove_sorted {V} ds : forall (l : list (bytes * V)), asorted l ->
  asorted (fold_left (fun acc d => aremove d acc) ds l).
Proof. induction ds as [|d ds IH]; intros l H; cbn; auto. apply IH. apply aremove_sorted; auto. Qed.

Lemma mutate_rows_fold_wf now entries : forall (acc : table * list N), table_wf (fst acc) ->
  table_wf (fst (fold_left (fun (acc : table * list N) (e : bytes * list mutation) =>
                         let '(ta, cs) := acc in
                         match apply_mutations (t_fams ta) now (get_row ta (fst e)) (snd e) with
                         | None => (ta, cs ++ [cInternal])
                         | Some fs => (update_row ta (fst e) fs, cs ++ [cOK])
                         end) entries acc)).
Proof.
  induction entries as [|e entries IH]; intros [ta cs] H; cbn [fold_left]; auto.
  apply IH. destruct (apply_mutations (t_fams ta) now (get_row ta (fst e)) (snd e)); cbn [fst] in *; auto using update_row_wf.
Qed.

Lemma gc_pass_wf t now : table_wf t -> table_wf (gc_pass t now).
Proof.
  intros H. unfold gc_pass. destruct (forallb _ (t_fams t)); auto.
  generalize (t_rows t) as l. revert H. generalize t as acc. intros acc H l. revert acc H.
  induction l as [|p l IH]; intros acc H; cbn [fold_left]; auto.
  apply IH. destruct (alookup (fst p) (t_rows acc)) as [fs0|]; auto.
  destruct (gc_fams (t_fams acc) now fs0) as [changed fs']. destruct changed; auto using update_row_wf.
Qed.

Theorem step_wf : forall s c, server_wf s -> server_wf (fst (step s c)).
Proof.
  intros s [r now coins] Hw. pose proof Hw as [Hs Ht].
  destruct r; unfold step; cbn [cl_req cl_now cl_coins].
  - (* create *) destruct (negb (valid_tid tid) || negb (valid_parent parent)); cbn [fst]; auto.
    destruct (alookup _ s) eqn:E; cbn [fst]; auto. apply set_table_wf; auto.
    split; cbn [t_rows t_fams]; [constructor|apply make_fams_sorted].
  - destruct (alookup name s) eqn:E; cbn [fst]; auto. apply aremove_wf; auto.
  - destruct (alookup name s); auto.
  - auto.
  - destruct (alookup name s) as [t|] eqn:E; cbn [fst]; auto.
    destruct (N.eqb _ cOK); cbn [fst]; auto. apply set_table_wf; auto. apply apply_mods_wf. eauto.
  - destruct (alookup name s) as [t|] eqn:E; cbn [fst]; auto. destruct (Ht _ _ E) as [H1 H2].
    destruct all; cbn [fst].
    + apply set_table_wf; auto. split; cbn [t_rows t_fams]; auto. constructor.
    + destruct prefix; cbn [fst]; auto. apply set_table_wf; auto. split; cbn [t_rows t_fams]; auto.
      apply fold_aremove_sorted; auto.
  - destruct (alookup tbl s) as [t|] eqn:E; cbn [fst]; auto.
    destruct (apply_mutations _ _ _ _); cbn [fst]; auto. apply set_table_wf; auto. apply update_row_wf; eauto.
  - destruct (alookup tbl s) as [t|] eqn:E; cbn [fst]; auto.
    pose proof (mutate_rows_fold_wf now entries (t, []) (Ht _ _ E)) as G.
    destruct (fold_left _ entries (t, [])) as [t' codes]. cbn [fst] in *. apply set_table_wf; auto.
  - destruct (alookup tbl s) as [t|] eqn:E; cbn [fst]; auto.
    destruct (match pred with Some p => negb (fvalid p) | None => false end); cbn [fst]; auto.
    destruct (apply_mutations _ _ _ _); cbn [fst]; auto. apply set_table_wf; auto. apply update_row_wf; eauto.
  - destruct (alookup tbl s) as [t|] eqn:E; cbn [fst]; auto.
    destruct (rmw_rules _ _ _ _ _) as [[fs res]|]; cbn [fst]; auto. apply set_table_wf; auto. apply update_row_wf; eauto.
  - destruct (alookup tbl s) as [t|] eqn:E; cbn [fst]; auto.
    destruct (negb (forallb range_ok ranges)); cbn [fst]; auto.
    destruct (match f with Some p => negb (fvalid p) | None => false end); cbn [fst]; auto.
  - destruct (alookup tbl s); auto.
  - destruct (alookup tbl s) as [t|] eqn:E; cbn [fst]; auto. apply set_table_wf; auto. apply gc_pass_wf; eauto.
Qed.

Theorem run_wf : forall cs s, server_wf s -> server_wf (fst (run s cs)).
Proof.
  induction cs as [|c cs IH]; intros s H; cbn [run]; auto.
  pose proof (step_wf s c H) as H1. destruct (step s c) as [s1 r]. cbn [fst] in H1.
  specialize (IH s1 H1). destruct (run s1 cs) as [s2 rs]. exact IH.
Qed.

Corollary reachable_wf : forall cs, server_wf (fst (run [] cs)).
Proof. intros cs. apply run_wf. split; [constructor|]. intros n t H. discriminate. Qed.

(* ------------------------------------------------------------------ *)
(* C17: the row store seen through update_row / get_row                *)
(* ------------------------------------------------------------------ *)
Lemma get_row_update t k fs k' : asorted (t_rows t) ->
  get_row (update_row t k fs) k' = if beqb k' k then scrub_fams (t_fams t) fs else get_row t k'.
Proof.
  intros H. unfold get_row. rewrite update_row_lookup; auto. destruct (beqb k' k); auto.
  destruct (scrub_fams (t_fams t) fs); reflexivity.
Qed.

Corollary reachable_rows_sorted : forall cs n t, alookup n (fst (run [] cs)) = Some t -> asorted (t_rows t).
Proof. intros cs n t H. destruct (reachable_wf cs) as [_ G]. destruct (G n t H) as [G1 _]. exact G1. Qed.

(* ------------------------------------------------------------------ *)
(* table names: what CreateTable's validation buys                     *)
(* ------------------------------------------------------------------ *)
Definition s_tables : bytes := [116; 97; 98; 108; 101; 115]%N.   (* "tables" *)

Lemma s_tables_sep_eq : s_tables_sep = 47%N :: s_tables ++ [47%N].
Proof. reflexivity. Qed.

Definition noslash (w : bytes) : bool := forallb (fun b => negb (N.eqb b 47)) w.

(* strings.Join(l, "/") *)
Fixpoint join (l : list bytes) : bytes :=
  match l with
  | [] => []
  | x :: r => match r with [] => x | _ => x ++ 47%N :: join r end
  end.

Lemma join_cons x l : l <> [] -> join (x :: l) = x ++ 47%N :: join l.
Proof. destruct l; [congruence|reflexivity]. Qed.

Lemma split_go_slash_cons cur c r :
  split_go s_slash1 0 cur (c :: r) =
  if N.eqb c 47 then rev cur :: split_go s_slash1 0 [] r else split_go s_slash1 0 (c :: cur) r.
Proof.
  cbn [split_go s_slash1 has_prefix length Nat.sub]. rewrite has_prefix_nil, andb_true_r. reflexivity.
Qed.

Lemma split_go_nonempty s : forall cur, split_go s_slash1 0 cur s <> [].
Proof.
  induction s as [|c r IH]; intros cur; [cbn; discriminate|]. rewrite split_go_slash_cons.
  destruct (N.eqb c 47); [discriminate|apply IH].
Qed.

Lemma split_go_app_slash a : forall cur b,
  split_go s_slash1 0 cur (a ++ 47%N :: b) = split_go s_slash1 0 cur a ++ split_go s_slash1 0 [] b.
Proof.
  induction a as [|c a IH]; intros cur b; cbn [app].
  - rewrite split_go_slash_cons, N.eqb_refl. reflexivity.
  - rewrite !split_go_slash_cons. destruct (N.eqb c 47); [rewrite IH; reflexivity|apply IH].
Qed.

Lemma split_go_noslash w : forall cur, noslash w = true -> split_go s_slash1 0 cur w = [rev cur ++ w].
Proof.
  induction w as [|c w IH]; intros cur H; [cbn; rewrite app_nil_r; reflexivity|].
  cbn [noslash forallb] in H. apply andb_prop in H. destruct H as [H1 H2]. apply negb_true_iff in H1.
  rewrite split_go_slash_cons, H1, IH by exact H2. cbn [rev]. rewrite <- app_assoc. reflexivity.
Qed.

Lemma join_split_go s : forall cur, join (split_go s_slash1 0 cur s) = rev cur ++ s.
Proof.
  induction s as [|c r IH]; intros cur; [cbn; rewrite app_nil_r; reflexivity|].
  rewrite split_go_slash_cons. destruct (N.eqb c 47) eqn:E.
  - apply N.eqb_eq in E. subst c. rewrite join_cons by apply split_go_nonempty. rewrite IH. reflexivity.
  - rewrite IH. cbn [rev]. rewrite <- app_assoc. reflexivity.
Qed.

(* Join undoes Split *)
Lemma join_split s : join (split s s_slash1) = s.
Proof. unfold split. apply join_split_go. Qed.

Lemma noslash_rev w : noslash (rev w) = noslash w.
Proof.
  unfold noslash. destruct (forallb _ w) eqn:E.
  - apply forallb_forall. intros x Hx. apply in_rev in Hx. rewrite forallb_forall in E. auto.
  - destruct (forallb _ (rev w)) eqn:E2; auto. rewrite <- E. symmetry. apply forallb_forall.
    intros x Hx. rewrite forallb_forall in E2. apply E2. apply in_rev. rewrite rev_involutive. exact Hx.
Qed.

(* no piece of a Split contains the separator *)
Lemma split_go_pieces_noslash s : forall cur, noslash cur = true ->
  Forall (fun w => noslash w = true) (split_go s_slash1 0 cur s).
Proof.
  induction s as [|c r IH]; intros cur H.
  - cbn. constructor; [rewrite noslash_rev; exact H|constructor].
  - rewrite split_go_slash_cons. destruct (N.eqb c 47) eqn:E.
    + constructor; [rewrite noslash_rev; exact H|apply IH; reflexivity].
    + apply IH. cbn [noslash forallb]. rewrite E. exact H.
Qed.

Lemma split_pieces_noslash s : Forall (fun w => noslash w = true) (split s s_slash1).
Proof. apply split_go_pieces_noslash. reflexivity. Qed.

(* Split undoes Join on slash-free pieces *)
Lemma split_join l : l <> [] -> Forall (fun w => noslash w = true) l -> split (join l) s_slash1 = l.
Proof.
  induction l as [|x l IH]; intros Hne Hf; [congruence|]. inversion Hf as [|? ? Hx Hl]; subst.
  destruct l as [|y l].
  - cbn [join]. unfold split. rewrite split_go_noslash by exact Hx. reflexivity.
  - rewrite join_cons by discriminate. unfold split. rewrite split_go_app_slash, split_go_noslash by exact Hx.
    cbn [rev app]. f_equal. apply IH; [discriminate|exact Hl].
Qed.

Lemma split_app_slash a b : split (a ++ 47%N :: b) s_slash1 = split a s_slash1 ++ split b s_slash1.
Proof. unfold split. apply split_go_app_slash. Qed.

Lemma has_prefix_iff p : forall s, has_prefix s p = true <-> exists r, s = p ++ r.
Proof.
  induction p as [|a p IH]; intros s.
  - split; [intros _; exists s; reflexivity|intros _; apply has_prefix_nil].
  - destruct s as [|b s]; cbn [has_prefix].
    + split; [discriminate|intros [r Hr]; discriminate].
    + split.
      * intros H. apply andb_prop in H. destruct H as [H1 H2]. apply N.eqb_eq in H1. subst b.
        apply IH in H2. destruct H2 as [r ->]. exists r. reflexivity.
      * intros [r Hr]. cbn [app] in Hr. injection Hr as -> ->. rewrite N.eqb_refl. apply IH. eauto.
Qed.

(* --- table ids --- *)
Lemma tid_rest_noslash b : tid_rest b = true -> N.eqb b 47 = false.
Proof. intros H. destruct (N.eqb_spec b 47) as [->|]; [vm_compute in H; discriminate|reflexivity]. Qed.

Lemma tid_first_rest b : tid_first b = true -> tid_rest b = true.
Proof. intros H. unfold tid_rest. rewrite H. reflexivity. Qed.

Lemma tid_first_not_dot b : tid_first b = true -> N.eqb b 46 = false.
Proof. intros H. destruct (N.eqb_spec b 46) as [->|]; [vm_compute in H; discriminate|reflexivity]. Qed.

(* what the validation of a table id checks, item by item *)
Lemma valid_tid_inv t : valid_tid t = true ->
  exists b r, t = b :: r /\ tid_first b = true /\ forallb tid_rest r = true /\ (length t <= 50)%nat
              /\ has_suffix t s_table_proto = false /\ has_suffix t s_table_proto_tmp = false.
Proof.
  destruct t as [|b r]; [discriminate|]. unfold valid_tid. intros H.
  apply andb_prop in H. destruct H as [H H5]. apply andb_prop in H. destruct H as [H H4].
  apply andb_prop in H. destruct H as [H H3]. apply andb_prop in H. destruct H as [H1 H2].
  exists b, r. apply negb_true_iff in H4. apply negb_true_iff in H5. apply Nat.leb_le in H3. auto 10.
Qed.

(* a valid table id contains no "/" ... *)
Lemma valid_tid_noslash tid : valid_tid tid = true -> noslash tid = true.
Proof.
  intros H. destruct (valid_tid_inv tid H) as [b [r [-> [H1 [H2 _]]]]]. cbn [noslash forallb].
  rewrite (tid_rest_noslash b (tid_first_rest b H1)). cbn [negb andb].
  apply forallb_forall. intros x Hx. rewrite forallb_forall in H2. rewrite tid_rest_noslash; auto.
Qed.

(* ... and is neither empty nor "." nor ".." *)
Lemma valid_tid_plain tid : valid_tid tid = true -> plain_seg tid = true.
Proof.
  intros H. destruct (valid_tid_inv tid H) as [b [r [-> [H1 _]]]].
  unfold plain_seg, s_dot, s_dotdot. cbn [beqb]. rewrite (tid_first_not_dot b H1). reflexivity.
Qed.

(* ... has between 1 and 50 characters *)
Theorem valid_tid_bounded : forall t, valid_tid t = true -> (1 <= length t <= 50)%nat.
Proof.
  intros t H. destruct (valid_tid_inv t H) as [b [r [-> [_ [_ [H3 _]]]]]]. cbn [length] in *. lia.
Qed.

(* ... and is not the name persistent storage gives to a definition file or its temporary *)
Theorem valid_tid_not_definition_file : forall t, valid_tid t = true ->
  has_suffix t s_table_proto = false /\ has_suffix t s_table_proto_tmp = false.
Proof. intros t H. destruct (valid_tid_inv t H) as [b [r [_ [_ [_ [_ [H4 H5]]]]]]]. auto. Qed.

Theorem valid_tid_no_slash : forall tid, valid_tid tid = true ->
  ~ In 47%N tid /\ split tid s_slash1 = [tid].
Proof.
  intros tid H. pose proof (valid_tid_noslash tid H) as Hn. split.
  - intros Hin. unfold noslash in Hn. rewrite forallb_forall in Hn. specialize (Hn _ Hin). discriminate.
  - unfold split. rewrite split_go_noslash by exact Hn. reflexivity.
Qed.

(* --- parents --- *)
Lemma valid_parent_inv p : valid_parent p = true ->
  exists pr inst, split p s_slash1 = [s_projects; pr; s_instances; inst]
                  /\ plain_seg pr = true /\ plain_seg inst = true.
Proof.
  unfold valid_parent. destruct (split p s_slash1) as [|a [|pr [|b [|inst [|x l]]]]]; try discriminate.
  intros H. apply andb_prop in H. destruct H as [H H4]. apply andb_prop in H. destruct H as [H H3].
  apply andb_prop in H. destruct H as [H1 H2]. apply beqb_eq in H1. apply beqb_eq in H2. subst a b.
  exists pr, inst. auto.
Qed.

(* --- table names --- *)
Definition valid_table_name (n : bytes) : Prop :=
  exists parent tid, n = parent ++ s_tables_sep ++ tid /\ valid_parent parent = true /\ valid_tid tid = true.

(* the same, decided on the name alone *)
Definition valid_table_nameb (n : bytes) : bool :=
  match split n s_slash1 with
  | [a; pr; b; inst; c; tid] =>
      beqb a s_projects && beqb b s_instances && beqb c s_tables && plain_seg pr && plain_seg inst && valid_tid tid
  | _ => false
  end.

Lemma split_table_name parent tid :
  split (parent ++ s_tables_sep ++ tid) s_slash1 = split parent s_slash1 ++ [s_tables] ++ split tid s_slash1.
Proof.
  rewrite s_tables_sep_eq. cbn [app]. rewrite split_app_slash. f_equal. rewrite <- app_assoc. cbn [app].
  rewrite split_app_slash. f_equal. unfold split. rewrite split_go_noslash by reflexivity. reflexivity.
Qed.

(* a valid table name is exactly projects/<project>/instances/<instance>/tables/<table id>: six
   slash-free pieces, none of them empty, "." or ".." *)
Theorem valid_name_six_segments : forall n, valid_table_name n ->
  exists pr inst tid,
    split n s_slash1 = [s_projects; pr; s_instances; inst; s_tables; tid]
    /\ n = join [s_projects; pr; s_instances; inst; s_tables; tid]
    /\ plain_seg pr = true /\ plain_seg inst = true /\ valid_tid tid = true
    /\ noslash pr = true /\ noslash inst = true /\ noslash tid = true.
Proof.
  intros n [parent [tid [-> [Hp Ht]]]]. destruct (valid_parent_inv parent Hp) as [pr [inst [E [H1 H2]]]].
  exists pr, inst, tid.
  assert (Es : split (parent ++ s_tables_sep ++ tid) s_slash1 = [s_projects; pr; s_instances; inst; s_tables; tid]).
  { rewrite split_table_name, E. destruct (valid_tid_no_slash tid Ht) as [_ ->]. reflexivity. }
  pose proof (split_pieces_noslash (parent ++ s_tables_sep ++ tid)) as Hf. rewrite Es in Hf.
  split; [exact Es|]. split; [pose proof (join_split (parent ++ s_tables_sep ++ tid)) as Hj; rewrite Es in Hj; symmetry; exact Hj|].
  inversion Hf as [|? ? _ Hf1]; subst. inversion Hf1 as [|? ? Hpr Hf2]; subst. inversion Hf2 as [|? ? _ Hf3]; subst.
  inversion Hf3 as [|? ? Hinst _]; subst. repeat split; auto. apply valid_tid_noslash; exact Ht.
Qed.

Theorem valid_table_name_iff : forall n, valid_table_name n <-> valid_table_nameb n = true.
Proof.
  intros n. split.
  - intros H. destruct (valid_name_six_segments n H) as [pr [inst [tid [E [_ [H1 [H2 [H3 _]]]]]]]].
    unfold valid_table_nameb. rewrite E, !beqb_refl, H1, H2, H3. reflexivity.
  - unfold valid_table_nameb. intros H. pose proof (join_split n) as Hj. pose proof (split_pieces_noslash n) as Hf.
    destruct (split n s_slash1) as [|a [|pr [|b [|inst [|c [|tid [|x l]]]]]]]; try discriminate.
    apply andb_prop in H. destruct H as [H G6]. apply andb_prop in H. destruct H as [H G5].
    apply andb_prop in H. destruct H as [H G4]. apply andb_prop in H. destruct H as [H G3].
    apply andb_prop in H. destruct H as [G1 G2].
    apply beqb_eq in G1. apply beqb_eq in G2. apply beqb_eq in G3. subst a b c. subst n.
    inversion Hf as [|? ? Ha Hf1]; subst. inversion Hf1 as [|? ? Hpr Hf2]; subst. inversion Hf2 as [|? ? Hb Hf3]; subst.
    inversion Hf3 as [|? ? Hinst _]; subst.
    exists (join [s_projects; pr; s_instances; inst]), tid. split; [|split; [|exact G6]].
    + rewrite s_tables_sep_eq. cbn [join app]. rewrite <- !app_assoc. cbn [app].
      rewrite <- !app_assoc. cbn [app]. rewrite <- !app_assoc. reflexivity.
    + unfold valid_parent. rewrite split_join; [|discriminate|repeat constructor; auto].
      rewrite !beqb_refl, G4, G5. reflexivity.
Qed.

(* no empty, "." or ".." piece; no leading "/" — the path is already clean, so the directory the disk
   storage derives from the name is the name itself, segment by segment *)
Theorem valid_names_are_clean : forall n, valid_table_name n ->
  Forall (fun seg => plain_seg seg = true) (split n s_slash1)
  /\ has_prefix n s_slash1 = false
  /\ length (split n s_slash1) = 6%nat.
Proof.
  intros n H. destruct (valid_name_six_segments n H) as [pr [inst [tid [E [En [H1 [H2 [H3 _]]]]]]]].
  rewrite E. split; [|split; [|reflexivity]].
  - repeat constructor; auto. apply valid_tid_plain; exact H3.
  - rewrite En. reflexivity.
Qed.

(* the directory of one table never lies inside (or equals) the directory of another:
   n1/ is a prefix of n2/ only when n1 = n2 *)
Theorem valid_names_not_nested : forall n1 n2, valid_table_name n1 -> valid_table_name n2 -> n1 <> n2 ->
  ~ has_prefix (n2 ++ s_slash1) (n1 ++ s_slash1) = true.
Proof.
  intros n1 n2 V1 V2 Hne Hp. apply Hne. apply has_prefix_iff in Hp. destruct Hp as [r Hr].
  destruct (valid_name_six_segments n1 V1) as [pr1 [i1 [t1 [E1 [J1 _]]]]].
  destruct (valid_name_six_segments n2 V2) as [pr2 [i2 [t2 [E2 [J2 _]]]]].
  assert (Hs : split (n2 ++ s_slash1) s_slash1 = split ((n1 ++ s_slash1) ++ r) s_slash1) by (rewrite Hr; reflexivity).
  rewrite <- app_assoc in Hs. unfold s_slash1 at 1 3 in Hs. cbn [app] in Hs.
  rewrite !split_app_slash, E1, E2 in Hs. cbn [app] in Hs.
  injection Hs as -> -> -> _. rewrite J1, J2. reflexivity.
Qed.

(* in particular no valid name is a proper path-prefix of another, in either direction *)
Corollary valid_names_disjoint_dirs : forall n1 n2, valid_table_name n1 -> valid_table_name n2 -> n1 <> n2 ->
  has_prefix (n2 ++ s_slash1) (n1 ++ s_slash1) = false /\ has_prefix (n1 ++ s_slash1) (n2 ++ s_slash1) = false.
Proof.
  intros n1 n2 V1 V2 Hne. split.
  - destruct (has_prefix (n2 ++ s_slash1) (n1 ++ s_slash1)) eqn:E; auto. exfalso. apply (valid_names_not_nested n1 n2); auto.
  - destruct (has_prefix (n1 ++ s_slash1) (n2 ++ s_slash1)) eqn:E; auto. exfalso.
    apply (valid_names_not_nested n2 n1); auto.
Qed.

(* a valid name determines its parent and table id *)
Theorem valid_name_unique_parts : forall p1 t1 p2 t2,
  valid_parent p1 = true -> valid_tid t1 = true -> valid_parent p2 = true -> valid_tid t2 = true ->
  table_name p1 t1 = table_name p2 t2 -> p1 = p2 /\ t1 = t2.
Proof.
  intros p1 t1 p2 t2 Hp1 Ht1 Hp2 Ht2 E. unfold table_name in E.
  assert (Hs : split (p1 ++ s_tables_sep ++ t1) s_slash1 = split (p2 ++ s_tables_sep ++ t2) s_slash1) by (rewrite E; reflexivity).
  rewrite !split_table_name in Hs.
  destruct (valid_parent_inv p1 Hp1) as [pr1 [i1 [E1 _]]]. destruct (valid_parent_inv p2 Hp2) as [pr2 [i2 [E2 _]]].
  destruct (valid_tid_no_slash t1 Ht1) as [_ S1]. destruct (valid_tid_no_slash t2 Ht2) as [_ S2].
  rewrite E1, E2, S1, S2 in Hs. cbn [app] in Hs. injection Hs as -> -> ->. split; [|reflexivity].
  rewrite <- (join_split p1), <- (join_split p2), E1, E2. reflexivity.
Qed.

(* --- every registered name is valid --- *)
Definition names_valid (s : server) : Prop := forall n, In n (map fst s) -> valid_table_name n.

Lemma in_keys_alookup {V} k (l : list (bytes * V)) : In k (map fst l) <-> exists v, alookup k l = Some v.
Proof.
  split; [apply alookup_some_in_keys|]. intros [v H]. apply alookup_in in H. apply in_map_iff. exists (k, v). auto.
Qed.

(* only a successful CreateTable adds a name, and the name it adds is valid *)
Theorem step_new_name : forall s c n,
  In n (map fst (fst (step s c))) -> ~ In n (map fst s) ->
  exists parent tid fams, cl_req c = BCreateTable parent tid fams /\ n = table_name parent tid
    /\ valid_parent parent = true /\ valid_tid tid = true /\ br_code (snd (step s c)) = cOK.
Proof.
  intros s [r now coins] n Hin Hnot.
  assert (Hframe : affected r <> Some n -> False).
  { intros Ha. apply Hnot. apply in_keys_alookup. apply in_keys_alookup in Hin.
    rewrite (step_frame s (mkCall r now coins) n) in Hin; auto. }
  destruct (affected r) as [m|] eqn:Ha; [|exfalso; apply Hframe; discriminate].
  destruct (beqb m n) eqn:Em; [|exfalso; apply Hframe; apply beqb_neq in Em; congruence].
  apply beqb_eq in Em. subst m. clear Hframe.
  destruct r; cbn [affected req_table] in Ha; try discriminate;
    try (injection Ha as ->; exfalso;
         match goal with |- _ => idtac end;
         destruct (alookup n s) eqn:E;
         [apply Hnot; apply in_keys_alookup; eauto
         |erewrite missing_table_not_found in Hin; [|reflexivity|exact E]; cbn [fst] in Hin; auto]).
  injection Ha as <-. cbn [cl_req]. rewrite create_spec in *.
  destruct (valid_tid tid) eqn:Et, (valid_parent parent) eqn:Ep; cbn [negb orb fst] in *; try contradiction.
  destruct (alookup (table_name parent tid) s) eqn:E; cbn [fst] in *; [contradiction|].
  exists parent, tid, fams. repeat split; auto.
Qed.

(* no request ever invents a name: the names after a step are names held before, or the valid
   name a successful CreateTable registers *)
Theorem step_names_valid : forall s c, names_valid s -> names_valid (fst (step s c)).
Proof.
  intros s c H n Hin. destruct (in_keys_alookup n s) as [_ Hback].
  destruct (alookup n s) as [t|] eqn:E.
  - apply H. apply Hback. eauto.
  - assert (Hnot : ~ In n (map fst s)).
    { intros Hn. apply in_keys_alookup in Hn. destruct Hn as [v Hv]. congruence. }
    destruct (step_new_name s c n Hin Hnot) as [parent [tid [fams [_ [-> [Hp [Ht _]]]]]]].
    exists parent, tid. auto.
Qed.

Theorem run_names_valid : forall cs s, names_valid s -> names_valid (fst (run s cs)).
Proof.
  induction cs as [|c cs IH]; intros s H; cbn [run]; auto.
  pose proof (step_names_valid s c H) as H1. destruct (step s c) as [s1 r]. cbn [fst] in H1.
  specialize (IH s1 H1). destruct (run s1 cs) as [s2 rs]. exact IH.
Qed.

(* every table name registered in any reachable server is a valid name *)
Theorem reachable_table_names_valid : forall cs n,
  In n (map fst (fst (run [] cs))) -> valid_table_name n.
Proof. intros cs. apply run_names_valid. intros n H. destruct H. Qed.

(* ... hence two different tables of a reachable server never have nested directories *)
Corollary reachable_tables_not_nested : forall cs n1 n2 t1 t2,
  alookup n1 (fst (run [] cs)) = Some t1 -> alookup n2 (fst (run [] cs)) = Some t2 -> n1 <> n2 ->
  has_prefix (n2 ++ s_slash1) (n1 ++ s_slash1) = false.
Proof.
  intros cs n1 n2 t1 t2 H1 H2 Hne.
  apply valid_names_disjoint_dirs; auto; apply (reachable_table_names_valid cs); apply in_keys_alookup; eauto.
Qed.

(* --- non-vacuity: names the validation accepts and rejects --- *)
Definition ex_parent : bytes := s_projects ++ s_slash1 ++ [112%N] ++ s_slash1 ++ s_instances ++ s_slash1 ++ [105%N].
                                                                 (* projects/p/instances/i *)
Definition ex_tid : bytes := [116; 49]%N.                        (* t1 *)
Definition ex_tid2 : bytes := [116; 50]%N.                       (* t2 *)

Example ex_valid_names :
  valid_parent ex_parent = true /\ valid_tid ex_tid = true
  /\ valid_tid [95; 65; 46; 45; 122; 57]%N = true                (* _A.-z9 *)
  /\ valid_table_nameb (table_name ex_parent ex_tid) = true.
Proof. vm_compute. auto. Qed.

Example ex_invalid_tids :
  valid_tid [] = false
  /\ valid_tid (ex_tid2 ++ s_slash1 ++ s_dotdot ++ s_slash1 ++ ex_tid) = false   (* t2/../t1 *)
  /\ valid_tid (s_dot ++ s_slash1 ++ ex_tid) = false                             (* ./t1 *)
  /\ valid_tid s_dotdot = false /\ valid_tid s_dot = false                       (* .. and . *)
  /\ valid_tid (s_dot ++ ex_tid) = false                                         (* .t1 *)
  /\ valid_tid (45%N :: ex_tid) = false                                          (* -t1 *)
  /\ valid_tid (ex_tid ++ [32%N]) = false                                        (* "t1 " *)
  /\ valid_tid (ex_tid ++ s_tables_sep ++ ex_tid2) = false.                      (* t1/tables/t2 *)
Proof. vm_compute. repeat split. Qed.

Example ex_invalid_parents :
  valid_parent [] = false
  /\ valid_parent [112%N] = false                                                (* p *)
  /\ valid_parent (s_slash1 ++ ex_parent) = false                                (* /projects/p/instances/i *)
  /\ valid_parent (ex_parent ++ s_slash1) = false                                (* projects/p/instances/i/ *)
  /\ valid_parent (ex_parent ++ s_tables_sep ++ ex_tid) = false                  (* a table name as parent: the nesting corner *)
  /\ valid_parent (s_projects ++ s_slash1 ++ s_dotdot ++ s_slash1 ++ s_instances ++ s_slash1 ++ [105%N]) = false  (* projects/../instances/i *)
  /\ valid_parent (s_projects ++ s_slash1 ++ s_slash1 ++ s_instances ++ s_slash1 ++ [105%N]) = false              (* projects//instances/i *)
  /\ valid_parent (s_projects ++ s_slash1 ++ [112%N] ++ s_slash1 ++ s_instances ++ s_slash1 ++ s_dot) = false     (* projects/p/instances/. *)
  /\ valid_parent (s_dotdot ++ s_slash1 ++ ex_parent) = false.                   (* ../projects/p/instances/i *)
Proof. vm_compute. repeat split. Qed.

(* the wiping requests of the defect are now refused and leave the server as it was *)
Example ex_create_rejected :
  let s := fst (run [] [mkCall (BCreateTable ex_parent ex_tid []) 0 []]) in
  s <> []
  /\ step s (mkCall (BCreateTable ex_parent (ex_tid2 ++ s_slash1 ++ s_dotdot ++ s_slash1 ++ ex_tid) []) 0 [])
     = (s, fail cInvalidArgument)
  /\ step s (mkCall (BCreateTable ex_parent (s_dot ++ s_slash1 ++ ex_tid) []) 0 []) = (s, fail cInvalidArgument)
  /\ step s (mkCall (BCreateTable (table_name ex_parent ex_tid) ex_tid2 []) 0 []) = (s, fail cInvalidArgument)
  /\ br_code (snd (step s (mkCall (BCreateTable ex_parent ex_tid2 []) 0 []))) = cOK.
Proof. vm_compute. repeat split. discriminate. Qed.

(* t1 and t10 are string-prefix related, but their directories are not nested *)
Example ex_not_nested :
  let n1 := table_name ex_parent ex_tid in
  let n2 := table_name ex_parent (ex_tid ++ [48%N]) in
  valid_table_nameb n1 = true /\ valid_table_nameb n2 = true /\ has_prefix n2 n1 = true
  /\ has_prefix (n2 ++ s_slash1) (n1 ++ s_slash1) = false.
Proof. vm_compute. auto. Qed.

(* ------------------------------------------------------------------ *)
(* definition files: <name>.table.proto beside the directory <name>/   *)
(* ------------------------------------------------------------------ *)
Lemma has_suffix_app t sfx : has_suffix (t ++ sfx) sfx = true.
Proof. unfold has_suffix. rewrite rev_app_distr. apply has_prefix_app. Qed.

Lemma noslash_app a b : noslash (a ++ b) = noslash a && noslash b.
Proof. unfold noslash. apply forallb_app. Qed.

(* the pieces of <name><suffix> for a slash-free suffix: the last one is <table id><suffix> *)
Lemma split_name_suffix parent tid sfx : valid_parent parent = true -> valid_tid tid = true -> noslash sfx = true ->
  exists pr inst, split ((parent ++ s_tables_sep ++ tid) ++ sfx) s_slash1
                  = [s_projects; pr; s_instances; inst; s_tables; tid ++ sfx].
Proof.
  intros Hp Ht Hs. destruct (valid_parent_inv parent Hp) as [pr [inst [E _]]]. exists pr, inst.
  rewrite <- !app_assoc. rewrite split_table_name, E. unfold split at 1.
  rewrite split_go_noslash by (rewrite noslash_app, (valid_tid_noslash tid Ht), Hs; reflexivity). reflexivity.
Qed.

(* a table id followed by a suffix no valid id ends with is not a valid id: <name><suffix> is not a
   table name, and nothing of the form <other name>/... *)
Lemma suffix_file_apart sfx : noslash sfx = true ->
  (forall t, valid_tid t = true -> has_suffix t sfx = false) ->
  forall n1 n2, valid_table_name n1 -> valid_table_name n2 ->
  ~ valid_table_name (n1 ++ sfx) /\ n1 ++ sfx <> n2 /\ ~ has_prefix (n1 ++ sfx) (n2 ++ s_slash1) = true.
Proof.
  intros Hs Hsfx n1 n2 V1 V2.
  assert (Hnot : ~ valid_table_name (n1 ++ sfx)).
  { intros V. destruct V1 as [p1 [t1 [-> [Hp1 Ht1]]]].
    destruct (split_name_suffix p1 t1 sfx Hp1 Ht1 Hs) as [pr [inst E]].
    destruct (valid_name_six_segments _ V) as [pr' [inst' [t' [E' [_ [_ [_ [Ht' _]]]]]]]].
    rewrite E in E'. injection E' as _ _ Et. specialize (Hsfx t' Ht'). rewrite <- Et, has_suffix_app in Hsfx. discriminate. }
  split; [exact Hnot|]. split; [intros E; apply Hnot; rewrite E; exact V2|].
  intros Hpre. apply has_prefix_iff in Hpre. destruct Hpre as [r Hr].
  destruct V1 as [p1 [t1 [-> [Hp1 Ht1]]]]. destruct (split_name_suffix p1 t1 sfx Hp1 Ht1 Hs) as [pr [inst E]].
  destruct (valid_name_six_segments n2 V2) as [pr2 [i2 [t2 [E2 _]]]].
  rewrite Hr in E. rewrite <- app_assoc in E. unfold s_slash1 at 1 in E. cbn [app] in E.
  rewrite split_app_slash, E2 in E. cbn [app] in E. apply (f_equal (@length bytes)) in E. cbn [length] in E.
  pose proof (split_go_nonempty r []) as Hne. unfold split in E.
  destruct (split_go s_slash1 0 [] r); [congruence|cbn [length] in E; lia].
Qed.

(* the definition file of a table (and its temporary) is never the directory of a table - its own
   or another's - nor inside one, and never a table name *)
Theorem definition_files_apart : forall n1 n2, valid_table_name n1 -> valid_table_name n2 ->
  n1 ++ s_table_proto <> n2
  /\ ~ has_prefix (n1 ++ s_table_proto) (n2 ++ s_slash1) = true
  /\ n1 ++ s_table_proto_tmp <> n2
  /\ ~ has_prefix (n1 ++ s_table_proto_tmp) (n2 ++ s_slash1) = true.
Proof.
  intros n1 n2 V1 V2.
  destruct (suffix_file_apart s_table_proto eq_refl (fun t H => proj1 (valid_tid_not_definition_file t H)) n1 n2 V1 V2) as [_ [A B]].
  destruct (suffix_file_apart s_table_proto_tmp eq_refl (fun t H => proj2 (valid_tid_not_definition_file t H)) n1 n2 V1 V2) as [_ [C D]].
  auto.
Qed.

Theorem definition_file_not_table_name : forall n, valid_table_name n ->
  ~ valid_table_name (n ++ s_table_proto) /\ ~ valid_table_name (n ++ s_table_proto_tmp).
Proof.
  intros n V. split.
  - apply (suffix_file_apart s_table_proto eq_refl (fun t H => proj1 (valid_tid_not_definition_file t H)) n n V V).
  - apply (suffix_file_apart s_table_proto_tmp eq_refl (fun t H => proj2 (valid_tid_not_definition_file t H)) n n V V).
Qed.

(* different tables have different definition files, and no temporary is another's definition *)
Theorem definition_files_distinct : forall n1 n2 : bytes,
  (n1 ++ s_table_proto = n2 ++ s_table_proto -> n1 = n2)
  /\ (n1 ++ s_table_proto_tmp = n2 ++ s_table_proto_tmp -> n1 = n2)
  /\ n1 ++ s_table_proto_tmp <> n2 ++ s_table_proto.
Proof.
  intros n1 n2. split; [apply app_inv_tail|]. split; [apply app_inv_tail|].
  intros E. apply (f_equal (@rev N)) in E. rewrite !rev_app_distr in E. cbn in E. discriminate.
Qed.

(* in every reachable server *)
Corollary reachable_definition_files_apart : forall cs n1 n2,
  In n1 (map fst (fst (run [] cs))) -> In n2 (map fst (fst (run [] cs))) ->
  n1 ++ s_table_proto <> n2
  /\ ~ has_prefix (n1 ++ s_table_proto) (n2 ++ s_slash1) = true
  /\ n1 ++ s_table_proto_tmp <> n2
  /\ ~ has_prefix (n1 ++ s_table_proto_tmp) (n2 ++ s_slash1) = true.
Proof. intros cs n1 n2 H1 H2. apply definition_files_apart; eapply reachable_table_names_valid; eauto. Qed.

(* --- non-vacuity --- *)
Definition ex_tid50 : bytes := repeat 97%N 50.
Definition ex_tid51 : bytes := repeat 97%N 51.

Example ex_tid_length_and_suffix :
  valid_tid ex_tid50 = true /\ valid_tid ex_tid51 = false                        (* 50 and 51 characters *)
  /\ valid_tid (ex_tid ++ s_table_proto) = false                                 (* t1.table.proto *)
  /\ valid_tid (120%N :: s_table_proto_tmp) = false                              (* x.table.proto.tmp *)
  /\ valid_tid (97%N :: s_table_proto ++ [120%N]) = true                         (* a.table.protox *)
  /\ valid_tid (ex_tid ++ s_table_proto ++ [46%N; 116%N]) = true                 (* t1.table.proto.t *)
  /\ valid_table_nameb (table_name ex_parent ex_tid ++ s_table_proto) = false.
Proof. vm_compute. repeat split. Qed.

(* the defect: with t1 registered, creating "t1.table.proto" is refused and nothing changes *)
Example ex_create_definition_file_rejected :
  let s := fst (run [] [mkCall (BCreateTable ex_parent ex_tid []) 0 []]) in
  s <> []
  /\ step s (mkCall (BCreateTable ex_parent (ex_tid ++ s_table_proto) []) 0 []) = (s, fail cInvalidArgument)
  /\ step s (mkCall (BCreateTable ex_parent (ex_tid ++ s_table_proto_tmp) []) 0 []) = (s, fail cInvalidArgument)
  /\ step s (mkCall (BCreateTable ex_parent ex_tid51 []) 0 []) = (s, fail cInvalidArgument)
  /\ br_code (snd (step s (mkCall (BCreateTable ex_parent ex_tid50 []) 0 []))) = cOK.
Proof. vm_compute. repeat split. discriminate. Qed.

(* C18: scans stay sane while the table is being written — theorems about the interleaving
   model BT/Conc.v for a ReadRows thread running among ANY other threads (writers, other scans,
   admin requests, GC passes), for all schedules. *)
From Coq Require Import List NArith ZArith Bool Lia Arith Sorting.
Import ListNotations.
From Emu.Common Require Import Bytes Str StrProofs.
From Emu.Gen Require Import Consts.
From Emu.BT Require Import Types Regex Mutate Filter Gc RowSet Server Conc.
From Emu.BT Require Import RowSetProofs ScanProofs AdminProofs ConcProofs.
Local Open Scope Z_scope.

(* ------------------------------------------------------------------ *)
(* the steps of a thread that runs a read                              *)
(* ------------------------------------------------------------------ *)
Definition blocked_for (st : cstate) (i : nat) : bool :=
  match cs_holder st with Some j => negb (Nat.eqb j i) | None => false end.

Lemma cstep_scan st i c rest p tbl keys ranges f limit :
  thread_at st i c rest p -> cl_req c = BReadRows tbl keys ranges f limit ->
  p = PAtLock \/ is_scan_prog p = true ->
  cstep st i =
  if blocked_for st i then (st, OBlocked) else
  match final_acc p with
  | Some acc => (fin st i rest (cs_server st) (cs_holder st), ODone (ok (YRows (rev acc))))
  | None =>
      match scan_resume (cs_server st) c p with
      | Some (inl p') => (set_prog st i c rest p', OAt)
      | Some (inr rsp) => (fin st i rest (cs_server st) (cs_holder st), ODone rsp)
      | None => (st, OIdle)
      end
  end.
Proof.
  intros Hat Hr Hp. unfold cstep, blocked_for. unfold thread_at in Hat. rewrite Hat. cbn [th_todo th_prog].
  unfold scan_resume. rewrite Hr. cbn [is_write].
  destruct Hp as [->|Hp].
  - destruct (match cs_holder st with Some j => negb (Nat.eqb j i) | None => false end); [reflexivity|].
    cbn [final_acc]. destruct (scan_continue _ _ _ _ _ _ _ _ _ _ _); reflexivity.
  - destruct p as [| | |rows rngs count coins pending acc final|]; try discriminate.
    destruct (match cs_holder st with Some j => negb (Nat.eqb j i) | None => false end); [reflexivity|].
    destruct final; [reflexivity|]. cbn [final_acc]. destruct (scan_continue _ _ _ _ _ _ _ _ _ _ _); reflexivity.
Qed.

(* a read that has not parked yet answers only errors at that step *)
Lemma cstep_new_read st i c rest rsp : thread_at st i c rest PNew -> is_read (cl_req c) = true ->
  snd (cstep st i) = ODone rsp -> br_code rsp <> cOK.
Proof.
  intros Hat Hr. unfold cstep. unfold thread_at in Hat. rewrite Hat. cbn [th_todo th_prog].
  destruct (cl_req c) eqn:Er; try discriminate. cbv zeta. cbn [Conc.req_table].
  destruct (alookup tbl (cs_server st)) as [t|] eqn:Ht.
  - destruct (negb (forallb range_ok ranges)); [cbn; intros H; injection H as <-; discriminate|].
    destruct (match f with Some p => negb (fvalid p) | None => false end); cbn; intros H; [injection H as <-|]; discriminate.
  - cbn [snd]. assert (Hs : step (cs_server st) c = (cs_server st, fail cNotFound)).
    { apply (step_missing_table _ _ tbl); auto. rewrite Er. reflexivity. }
    rewrite Hs. cbn. intros H. injection H as <-. discriminate.
Qed.

(* ------------------------------------------------------------------ *)
(* all reachable servers keep their tables sorted                      *)
(* ------------------------------------------------------------------ *)
Lemma gc_section_wf t now keys : table_wf t -> table_wf (fst (gc_section t now keys)).
Proof.
  unfold gc_section. cbn [fst]. generalize (firstn (Z.to_nat btGcBatch) keys) as l. intros l. revert t.
  induction l as [|k l IH]; intros t H; cbn [fold_left]; auto. apply IH.
  destruct (alookup k (t_rows t)) as [fs|]; auto. destruct (gc_fams (t_fams t) now fs) as [ch fs'].
  destruct ch; auto. apply update_row_wf. exact H.
Qed.

Lemma apply_effect_wf s e : server_wf s -> server_wf (apply_effect s e).
Proof.
  intros H. destruct e as [|c|tbl now keys]; cbn [apply_effect]; auto.
  - apply step_wf. exact H.
  - destruct (alookup tbl s) as [t|] eqn:E; auto. apply set_table_wf; auto. apply gc_section_wf.
    destruct H as [_ H]. eauto.
Qed.

Lemma cstep_wf st i : server_wf (cs_server st) -> server_wf (cs_server (fst (cstep st i))).
Proof. intros H. rewrite cstep_effect. apply apply_effect_wf. exact H. Qed.

Theorem crun_wf : forall sched st, server_wf (cs_server st) -> server_wf (cs_server (fst (crun st sched))).
Proof.
  induction sched as [|i sched IH]; intros st H; [exact H|]. rewrite crun_cons. cbn [fst]. apply IH, cstep_wf, H.
Qed.

(* ------------------------------------------------------------------ *)
(* C18 (d): the scan's status                                          *)
(* ------------------------------------------------------------------ *)
(* with enough fuel a continuation never gives up: it parks, or answers rows, or NotFound when
   the table has been deleted *)
Lemma scan_continue_ok s tbl f limit t : alookup tbl s = Some t ->
  forall fuel rows rngs count coins pending acc, (length rngs < fuel)%nat ->
  match scan_continue fuel s tbl f limit rows rngs count coins pending acc with
  | inl p => is_scan_prog p = true
  | inr rsp => exists res, rsp = ok (YRows res)
  end.
Proof.
  intros Ht. induction fuel as [|fu IH]; intros rows rngs count coins pending acc Hlen; [lia|].
  cbn [scan_continue]. rewrite Ht.
  destruct (scan_section t f limit rows count coins pending acc) as [[[[[[rest c'] coins'] p'] acc1] handed] stop].
  destruct handed; [reflexivity|].
  destruct rngs as [|sr more].
  - destruct (0 <? p'); [reflexivity|eauto].
  - apply IH. cbn [length] in Hlen. lia.
Qed.

Lemma scan_resume_ok s c p t tbl keys ranges f limit x :
  cl_req c = BReadRows tbl keys ranges f limit -> alookup tbl s = Some t -> scan_resume s c p = Some x ->
  match x with inl p' => is_scan_prog p' = true | inr rsp => exists res, rsp = ok (YRows res) end.
Proof.
  intros Hr Ht. unfold scan_resume. rewrite Hr.
  destruct p as [| | |rows rngs count coins pending acc final|]; try discriminate.
  - intros H. apply some_inj in H. subst x. apply (scan_continue_ok s tbl f limit t Ht).
    pose proof (scan_ranges_length keys ranges). lia.
  - destruct final; [discriminate|]. intros H. apply some_inj in H. subst x.
    apply (scan_continue_ok s tbl f limit t Ht). lia.
Qed.

(* whenever a read whose table exists answers after it has parked, the answer is OK with rows:
   never Internal (the fuel of the model always suffices), never an error *)
Theorem scan_status_ok : forall st i c rest p tbl keys ranges f limit t rsp,
  thread_at st i c rest p -> cl_req c = BReadRows tbl keys ranges f limit ->
  p = PAtLock \/ is_scan_prog p = true ->
  alookup tbl (cs_server st) = Some t ->
  snd (cstep st i) = ODone rsp -> exists res, rsp = ok (YRows res).
Proof.
  intros st i c rest p tbl keys ranges f limit t rsp Hat Hr Hp Ht.
  rewrite (cstep_scan _ _ _ _ _ _ _ _ _ _ Hat Hr Hp).
  destruct (blocked_for st i); [discriminate|].
  destruct (final_acc p) as [acc|]; [cbn; intros H; injection H as <-; eauto|].
  destruct (scan_resume (cs_server st) c p) as [[p'|r]|] eqn:Hs; cbn; try discriminate.
  intros H. injection H as <-. exact (scan_resume_ok _ _ _ _ _ _ _ _ _ _ Hr Ht Hs).
Qed.

(* ... and a valid read whose table exists does park at its first step *)
Theorem scan_starts : forall st i c rest tbl t, thread_at st i c rest PNew -> valid_read (cl_req c) ->
  Conc.req_table (cl_req c) = Some tbl -> alookup tbl (cs_server st) = Some t ->
  cstep st i = (set_prog st i c rest PAtLock, OAt).
Proof.
  intros st i c rest tbl t Hat Hv Hrt Ht. unfold cstep. unfold thread_at in Hat. rewrite Hat. cbn [th_todo th_prog].
  destruct (cl_req c) eqn:Er; cbn [valid_read] in Hv; try tauto. cbn in Hrt. injection Hrt as ->.
  cbv zeta. cbn [Conc.req_table]. rewrite Ht. destruct Hv as [Hv1 Hv2]. rewrite Hv1. cbn [negb].
  destruct f as [p|]; [rewrite Hv2|]; reflexivity.
Qed.

(* it is never blocked unless a writer is parked inside its write section *)
Theorem scan_not_blocked : forall st i, conc_inv st -> (forall j, ~ at_mid st j) -> snd (cstep st i) <> OBlocked.
Proof.
  intros st i Hinv Hno H. destruct (blocked_spec st i H) as [_ [c [rest [p [j [_ [_ [_ [_ Hm]]]]]]]]].
  exact (Hno j (Hm Hinv)).
Qed.

(* progress: every hand-over consumes at least one row of the snapshot or moves to a later range *)
Lemma scan_section_handed t f limit : forall rows count coins pending acc rest c' coins' p' acc' stop,
  scan_section t f limit rows count coins pending acc = (rest, c', coins', p', acc', true, stop) ->
  (length rest < length rows)%nat.
Proof.
  induction rows as [|[k fs] rows IH]; intros count coins pending acc rest c' coins' p' acc' stop H.
  - cbn in H. discriminate.
  - rewrite scan_section_step in H. destruct ((0 <? limit) && (limit <=? count)); [discriminate|].
    destruct (visit t f k fs coins) as [[r|] c1].
    + destruct (btFlushChunks <? pending + cells_of (row_fams r)).
      * injection H as <- _ _ _ _ _. cbn. lia.
      * apply IH in H. cbn. lia.
    + apply IH in H. cbn. lia.
Qed.

Definition scan_lt (a b : nat * nat) : Prop := (fst a < fst b)%nat \/ (fst a = fst b /\ (snd a < snd b)%nat).

Lemma scan_continue_progress s tbl f limit : forall fuel rows rngs count coins pending acc rows' rngs' c' co' p' acc' final',
  scan_continue fuel s tbl f limit rows rngs count coins pending acc = inl (PScan rows' rngs' c' co' p' acc' final') ->
  (final' = true /\ rows' = [] /\ rngs' = [])
  \/ (final' = false /\ scan_lt (length rngs', length rows') (length rngs, length rows)).
Proof.
  induction fuel as [|fu IH]; intros rows rngs count coins pending acc rows' rngs' c' co' p' acc' final' H;
    cbn [scan_continue] in H; [discriminate|].
  destruct (alookup tbl s) as [t|]; [|discriminate].
  destruct (scan_section t f limit rows count coins pending acc) as [[[[[[rest c1] coins1] p1] acc1] handed] stop] eqn:Hs.
  destruct handed.
  - injection H as <- <- _ _ _ _ <-. right. split; auto. right. cbn. split; auto. eapply scan_section_handed; eauto.
  - destruct rngs as [|sr more].
    + destruct (0 <? p1); [|discriminate]. injection H as <- <- _ _ _ _ <-. auto.
    + apply IH in H. destruct H as [H|[H1 H2]]; auto. right. split; auto. left. cbn [fst length].
      destruct H2 as [H2|[H2 _]]; cbn [fst] in H2; lia.
Qed.

(* a scheduled, unblocked step of a scan either answers, or parks for the last send, or parks
   with a strictly smaller (ranges, rows) measure: the scan ends after finitely many own steps *)
Theorem scan_step_progress : forall st i c rest tbl keys ranges f limit rows rngs count coins pending acc,
  thread_at st i c rest (PScan rows rngs count coins pending acc false) ->
  cl_req c = BReadRows tbl keys ranges f limit ->
  snd (cstep st i) = OAt ->
  exists rows' rngs' c' co' p' acc' final',
    prog_at (fst (cstep st i)) i = PScan rows' rngs' c' co' p' acc' final'
    /\ ((final' = true /\ rows' = [] /\ rngs' = [])
        \/ (final' = false /\ scan_lt (length rngs', length rows') (length rngs, length rows))).
Proof.
  intros st i c rest tbl keys ranges f limit rows rngs count coins pending acc Hat Hr.
  rewrite (cstep_scan _ _ _ _ _ _ _ _ _ _ Hat Hr (or_intror eq_refl)).
  destruct (blocked_for st i); [discriminate|]. cbn [final_acc].
  destruct (scan_resume (cs_server st) c _) as [[p'|r]|] eqn:Hs; cbn [fst snd]; try discriminate. intros _.
  unfold scan_resume in Hs. rewrite Hr in Hs. apply some_inj in Hs.
  pose proof (scan_continue_inl _ _ _ _ _ _ _ _ _ _ _ _ Hs) as Hp'.
  destruct p' as [| | |rows' rngs' c' co' p1 acc' final'|]; try discriminate.
  exists rows', rngs', c', co', p1, acc', final'. split.
  - unfold set_prog. rewrite (prog_at_upd _ _ _ _ _ _ Hat). reflexivity.
  - eapply scan_continue_progress; eauto.
Qed.

(* ------------------------------------------------------------------ *)
(* C18 (b): the returned keys are strictly ascending                   *)
(* ------------------------------------------------------------------ *)
Lemma subseq_refl {A} (l : list A) : subseq l l.
Proof. induction l; constructor; auto. Qed.

Lemma subseq_app_head {A} (l a b : list A) : subseq a b -> subseq (l ++ a) (l ++ b).
Proof. intros H. induction l; cbn; [auto|constructor; auto]. Qed.

Lemma subseq_trans {A} (b c : list A) : subseq b c -> forall a, subseq a b -> subseq a c.
Proof.
  intros H. induction H as [l|x b c H IH|x b c H IH]; intros a Ha.
  - inversion Ha; subst. constructor.
  - inversion Ha; subst; [constructor|apply sub_take; auto|apply sub_skip; auto].
  - apply sub_skip. auto.
Qed.

Lemma subseq_in {A} (a b : list A) : subseq a b -> forall x, In x a -> In x b.
Proof.
  intros H. induction H as [l|x l1 l2 H IH|x l1 l2 H IH]; intros y Hy; cbn in *; [contradiction|destruct Hy; auto|auto].
Qed.

Lemma visit_key t f k fs coins r c1 : visit t f k fs coins = (Some r, c1) -> row_key r = k.
Proof.
  unfold visit. destruct fs as [|fm fs0]; [discriminate|].
  destruct (match f with Some flt => feval k flt (fm :: fs0) coins | None => (true, fm :: fs0, coins) end) as [[m fs'] c'].
  destruct (negb m); [discriminate|]. destruct (scrub_fams (t_fams t) fs'); [discriminate|].
  intros H. injection H as <- _. reflexivity.
Qed.

(* keys already emitted (in emission order) followed by the keys still to visit in the snapshot *)
Definition scan_keys (rows : list (bytes * list family)) (acc : list row) : list bytes :=
  rev (map row_key acc) ++ map fst rows.

Lemma scan_keys_emit k fs rows r acc : row_key r = k -> scan_keys rows (r :: acc) = scan_keys ((k, fs) :: rows) acc.
Proof. intros <-. unfold scan_keys. cbn [map rev fst]. rewrite <- app_assoc. reflexivity. Qed.

Lemma scan_section_subseq t f limit : forall rows count coins pending acc rest c' coins' p' acc' handed stop,
  scan_section t f limit rows count coins pending acc = (rest, c', coins', p', acc', handed, stop) ->
  subseq (scan_keys rest acc') (scan_keys rows acc).
Proof.
  induction rows as [|[k fs] rows IH]; intros count coins pending acc rest c' coins' p' acc' handed stop H.
  - cbn in H. injection H as <- _ _ _ <- _ _. apply subseq_refl.
  - rewrite scan_section_step in H. destruct ((0 <? limit) && (limit <=? count)).
    + injection H as <- _ _ _ <- _ _. unfold scan_keys. apply subseq_app_head. constructor.
    + destruct (visit t f k fs coins) as [[r|] c1] eqn:Hv.
      * pose proof (visit_key _ _ _ _ _ _ _ Hv) as Hk. rewrite <- (scan_keys_emit k fs rows r acc Hk).
        destruct (btFlushChunks <? pending + cells_of (row_fams r)).
        -- injection H as <- _ _ _ <- _ _. apply subseq_refl.
        -- eapply IH; eauto.
      * apply IH in H. eapply subseq_trans; [|exact H]. unfold scan_keys. apply subseq_app_head. cbn [map].
        apply sub_skip, subseq_refl.
Qed.

Definition scan_sorted (rows : list (bytes * list family)) (rngs : list srange) (acc : list row) : Prop :=
  StronglySorted lex_lt (scan_keys rows acc)
  /\ StronglySorted range_sep rngs
  /\ (forall k sr, In k (scan_keys rows acc) -> In sr rngs -> lex_lt k (rs sr)).

Lemma sorted_app (a b : list bytes) : StronglySorted lex_lt a -> StronglySorted lex_lt b ->
  (forall x y, In x a -> In y b -> lex_lt x y) -> StronglySorted lex_lt (a ++ b).
Proof.
  intros Ha Hb Hab. induction a as [|x a IH]; cbn; auto. inversion Ha as [|? ? Ha' Hall]; subst.
  constructor.
  - apply IH; auto. intros; apply Hab; cbn; auto.
  - rewrite Forall_forall in *. intros y Hy. apply in_app_or in Hy. destruct Hy; auto. apply Hab; cbn; auto.
Qed.

Lemma sorted_app_l (a b : list bytes) : StronglySorted lex_lt (a ++ b) -> StronglySorted lex_lt a.
Proof.
  intros H. eapply subseq_sorted; [|exact H]. rewrite <- (app_nil_r a) at 1. apply subseq_app_head. constructor.
Qed.

Lemma scan_sorted_sub rows rngs acc rows' acc' :
  scan_sorted rows rngs acc -> subseq (scan_keys rows' acc') (scan_keys rows acc) -> scan_sorted rows' rngs acc'.
Proof.
  intros [H1 [H2 H3]] Hs. split; [eapply subseq_sorted; eauto|]. split; auto.
  intros k sr Hk Hsr. apply H3; auto. eapply subseq_in; eauto.
Qed.

Lemma scan_sorted_next t sr more rest acc : asorted (t_rows t) -> scan_sorted rest (sr :: more) acc ->
  scan_sorted (filter (fun p => in_srange_b sr (fst p)) (t_rows t)) more acc.
Proof.
  intros Hs [H1 [H2 H3]]. inversion H2 as [|? ? H2' Hsep]; subst. rewrite Forall_forall in Hsep.
  set (snap := filter (fun p => in_srange_b sr (fst p)) (t_rows t)).
  assert (Hacc : forall k, In k (rev (map row_key acc)) -> In k (scan_keys rest acc)) by (intros k Hk; apply in_or_app; auto).
  assert (Hsnap : forall k, In k (map fst snap) -> in_srange sr k).
  { intros k Hk. apply in_map_iff in Hk. destruct Hk as [[k' v] [<- Hin]]. apply filter_In in Hin. destruct Hin as [_ Hin].
    apply in_srange_b_iff. exact Hin. }
  split; [|split; auto].
  - unfold scan_keys. apply sorted_app.
    + unfold scan_keys in H1. apply sorted_app_l in H1. exact H1.
    + apply asorted_keys_sorted. destruct (omap_range_iter sr (t_rows t) Hs) as [G _]. exact G.
    + intros x y Hx Hy. eapply lex_lt_le_trans; [apply (H3 x sr); [auto|left; reflexivity]|]. apply (Hsnap y Hy).
  - intros k b Hk Hb. unfold scan_keys in Hk. apply in_app_or in Hk. destruct Hk as [Hk|Hk].
    + apply H3; [auto|right; exact Hb].
    + destruct (Hsnap k Hk) as [_ Hhi]. destruct (Hsep b Hb) as [Hne Hlt]. destruct Hhi as [Hhi|Hhi]; [congruence|].
      eapply lex_lt_trans; eauto.
Qed.

Lemma scan_continue_sorted s tbl f limit : (forall t, alookup tbl s = Some t -> asorted (t_rows t)) ->
  forall fuel rows rngs count coins pending acc, scan_sorted rows rngs acc ->
  match scan_continue fuel s tbl f limit rows rngs count coins pending acc with
  | inl (PScan rows' rngs' _ _ _ acc' _) => scan_sorted rows' rngs' acc'
  | inl _ => True
  | inr rsp => forall res, rsp = ok (YRows res) -> StronglySorted lex_lt (map row_key res)
  end.
Proof.
  intros Hsrt. induction fuel as [|fu IH]; intros rows rngs count coins pending acc Hinv; cbn [scan_continue]; [discriminate|].
  destruct (alookup tbl s) as [t|] eqn:Ht; [|discriminate].
  destruct (scan_section t f limit rows count coins pending acc) as [[[[[[rest c1] coins1] p1] acc1] handed] stop] eqn:Hs.
  pose proof (scan_sorted_sub _ _ _ _ _ Hinv (scan_section_subseq _ _ _ _ _ _ _ _ _ _ _ _ _ _ _ Hs)) as Hinv1.
  destruct handed; [exact Hinv1|].
  destruct rngs as [|sr more].
  - assert (Hfin : StronglySorted lex_lt (rev (map row_key acc1))).
    { destruct Hinv1 as [H1 _]. unfold scan_keys in H1. apply sorted_app_l in H1. exact H1. }
    destruct (0 <? p1).
    + split; [unfold scan_keys; rewrite app_nil_r; exact Hfin|]. split; [constructor|]. intros k sr _ [].
    + intros res Hres. injection Hres as <-. rewrite map_rev. exact Hfin.
  - apply IH. apply (scan_sorted_next t sr more rest acc1); auto.
Qed.

Definition scan_thread_ok (th : thread) : Prop :=
  match th_prog th with
  | PScan rows rngs _ _ _ acc _ => scan_sorted rows rngs acc
  | _ => True
  end.

(* a thread that is in a scan after a step either was there before, unchanged, or has just run
   a section *)
Lemma cstep_spec_scan_thread st i st' o : cstep_spec st i st' o ->
  forall th', nth_error (cs_threads st') i = Some th' -> is_scan_prog (th_prog th') = true ->
  nth_error (cs_threads st) i = Some th'
  \/ exists c rest p p', thread_at st i c rest p /\ scan_resume (cs_server st) c p = Some (inl p')
                         /\ th' = mkThread (c :: rest) p'.
Proof.
  intros H th' Hth Hsc.
  destruct H as [ | c rest p j Hat Hj Hne Hn
                | c rest p Hat Hp Hl
                | c rest tbl t Hat Hrt Ht Hk
                | c rest k Hat Hf Hw1 Hm
                | c rest Hat Hf Hw1 Hm
                | c rest k Hat
                | c rest Hat
                | c rest p p' Hat Hf Hs
                | c rest p rsp Hat Hf Hs
                | c rest rows rngs count coins pending0 acc Hat Hf
                | c rest p tbl t keys now Hat Hf Hrt Ht Hg Hb
                | c rest p tbl t keys now Hat Hf Hrt Ht Hg Hb
                | c rest tbl t Hat Hf Hr Ht Hru
                | c rest keys now tbl Hat Hf Hrt Ht ]; auto;
    unfold fin, set_prog in Hth; cbn [cs_threads] in Hth; rewrite (nth_error_upd_same _ _ _ _ Hat) in Hth;
    injection Hth as <-; try discriminate Hsc.
  right. exists c, rest, p, p'. auto.
Qed.

Definition scan_inv (st : cstate) : Prop :=
  conc_inv st /\ server_wf (cs_server st) /\ Forall scan_thread_ok (cs_threads st).

Lemma scan_resume_sorted st i c rest p x : scan_inv st -> thread_at st i c rest p ->
  scan_resume (cs_server st) c p = Some x ->
  match x with
  | inl (PScan rows' rngs' _ _ _ acc' _) => scan_sorted rows' rngs' acc'
  | inl _ => True
  | inr rsp => forall res, rsp = ok (YRows res) -> StronglySorted lex_lt (map row_key res)
  end.
Proof.
  intros [Hinv [Hwf Hok]] Hat Hs. unfold scan_resume in Hs. destruct (cl_req c) eqn:Hr; try discriminate.
  assert (Hsrt : forall t, alookup tbl (cs_server st) = Some t -> asorted (t_rows t)).
  { intros t Ht. destruct Hwf as [_ Hwf]. destruct (Hwf _ _ Ht) as [G _]. exact G. }
  destruct p as [| | |rows rngs count coins pending acc final|]; try discriminate.
  - apply some_inj in Hs. subst x. apply scan_continue_sorted; auto.
    split; [constructor|]. split; [apply scan_ranges_sep|]. intros k sr [].
  - destruct final; [discriminate|]. apply some_inj in Hs. subst x. apply scan_continue_sorted; auto.
    exact (forall_nth_error _ _ _ _ Hok Hat).
Qed.

Theorem cstep_scan_inv : forall st i, scan_inv st -> scan_inv (fst (cstep st i)).
Proof.
  intros st i Hinv. pose proof Hinv as [Hc [Hwf Hok]].
  split; [apply cstep_inv; auto|]. split; [apply cstep_wf; auto|].
  rewrite Forall_forall. intros th' Hin. apply In_nth_error in Hin. destruct Hin as [j Hj].
  destruct (Nat.eq_dec j i) as [->|Hne].
  - unfold scan_thread_ok. destruct (is_scan_prog (th_prog th')) eqn:Hsc; [|destruct (th_prog th'); try exact I; discriminate].
    destruct (cstep_spec_scan_thread st i _ _ (cstep_spec_holds st i) th' Hj Hsc) as [Hold|[c [rest [p [p' [Hat [Hs ->]]]]]]].
    + exact (forall_nth_error _ _ _ _ Hok Hold).
    + pose proof (scan_resume_sorted st i c rest p _ Hinv Hat Hs) as G. cbn [th_prog]. exact G.
  - rewrite cstep_frame in Hj by auto. exact (forall_nth_error _ _ _ _ Hok Hj).
Qed.

Theorem crun_scan_inv : forall sched st, scan_inv st -> scan_inv (fst (crun st sched)).
Proof.
  induction sched as [|i sched IH]; intros st H; [exact H|]. rewrite crun_cons. cbn [fst]. apply IH, cstep_scan_inv, H.
Qed.

Lemma init_scan_inv s0 progs : server_wf s0 -> scan_inv (init_cstate s0 progs).
Proof.
  intros H. split; [apply init_inv|]. split; [exact H|]. cbn. rewrite Forall_map, Forall_forall. intros cs _. exact I.
Qed.

(* C18 (b): whatever runs beside it (writers, other scans, admin requests, GC), whenever a read
   answers rows, their keys are strictly ascending — in particular pairwise different *)
Theorem scan_ascending_nodup : forall s0 progs sched i c rest p res, server_wf s0 ->
  let st := fst (crun (init_cstate s0 progs) sched) in
  thread_at st i c rest p -> is_read (cl_req c) = true ->
  snd (cstep st i) = ODone (ok (YRows res)) ->
  StronglySorted lex_lt (map row_key res) /\ NoDup (map row_key res).
Proof.
  intros s0 progs sched i c rest p res Hwf st Hat Hrd Hdone.
  assert (Hinv : scan_inv st) by (apply crun_scan_inv, init_scan_inv, Hwf).
  assert (Hs : StronglySorted lex_lt (map row_key res)); [|split; [exact Hs|apply sorted_lt_nodup; exact Hs]].
  destruct (cl_req c) eqn:Hr; try discriminate.
  destruct Hinv as [Hc [Hwf' Hok]]. pose proof Hc as [_ Hw].
  pose proof (forall_nth_error _ _ _ _ Hw Hat) as W. unfold thread_wf in W. cbn [th_prog th_todo] in W.
  assert (Hp : p = PNew \/ p = PAtLock \/ is_scan_prog p = true).
  { destruct p; auto; destruct W as [c0 [r0 [E W]]]; injection E as <- <-; rewrite Hr in W; cbn in W;
      [destruct W as [W _]|]; discriminate. }
  destruct Hp as [->|Hp].
  - exfalso. apply (cstep_new_read st i c rest (ok (YRows res)) Hat); [rewrite Hr; reflexivity|exact Hdone|reflexivity].
  - rewrite (cstep_scan _ _ _ _ _ _ _ _ _ _ Hat Hr Hp) in Hdone.
    destruct (blocked_for st i); [discriminate|].
    destruct (final_acc p) as [acc|] eqn:Hfa.
    + cbn in Hdone. injection Hdone as <-. destruct p; try discriminate. destruct final; [|discriminate]. injection Hfa as ->.
      pose proof (forall_nth_error _ _ _ _ Hok Hat) as [G _]. cbn in G. unfold scan_keys in G. apply sorted_app_l in G. rewrite map_rev. exact G.
    + destruct (scan_resume (cs_server st) c p) as [[p'|rsp]|] eqn:Hs; cbn in Hdone; try discriminate.
      injection Hdone as ->.
      exact (scan_resume_sorted st i c rest p _ (conj Hc (conj Hwf' Hok)) Hat Hs res eq_refl).
Qed.

(* ------------------------------------------------------------------ *)
(* C18 (a): every returned row comes from a snapshot                   *)
(* ------------------------------------------------------------------ *)
(* the server states at the steps of thread i in a schedule: the states in which the scan ran
   its sections (each range's snapshot is taken in one of them) *)
Fixpoint own_servers (i : nat) (st : cstate) (sched : list nat) : list server :=
  match sched with
  | [] => []
  | j :: r => (if Nat.eqb j i then [cs_server st] else []) ++ own_servers i (fst (cstep st j)) r
  end.

(* each of them is the server after a prefix of the schedule, at a step of thread i *)
Lemma own_servers_prefix i sched : forall st s, In s (own_servers i st sched) ->
  exists n, (n < length sched)%nat /\ nth_error sched n = Some i /\ s = cs_server (fst (crun st (firstn n sched))).
Proof.
  induction sched as [|j sched IH]; intros st s H; [destruct H|]. cbn [own_servers] in H. apply in_app_or in H.
  destruct H as [H|H].
  - destruct (Nat.eqb j i) eqn:E; [|destruct H]. destruct H as [<-|[]]. apply Nat.eqb_eq in E. subst j.
    exists O. cbn. repeat split; auto. lia.
  - destruct (IH _ _ H) as [n [H1 [H2 H3]]]. exists (S n). cbn [length nth_error firstn]. rewrite crun_cons. cbn [fst].
    repeat split; auto. lia.
Qed.

(* (k, fs) is a stored row of table tbl in one of the servers H *)
Definition stored_in (H : list server) (tbl k : bytes) (fs : list family) : Prop :=
  exists s t, In s H /\ alookup tbl s = Some t /\ In (k, fs) (t_rows t).

(* r was produced from a row (row_key r, fs) stored in one of the servers H (the snapshot), by
   the scan loop body [visit] (filter, then scrub with the table's families) in one of H *)
Definition emitted_from (H : list server) (tbl : bytes) (f : option rfilter) (r : row) : Prop :=
  exists fs s2 t2 coins, stored_in H tbl (row_key r) fs /\ In s2 H /\ alookup tbl s2 = Some t2
                         /\ fst (visit t2 f (row_key r) fs coins) = Some r.

Lemma stored_in_mono H H' tbl k fs : incl H H' -> stored_in H tbl k fs -> stored_in H' tbl k fs.
Proof. intros Hi [s [t [H1 H2]]]. exists s, t. split; auto. Qed.

Lemma emitted_from_mono H H' tbl f r : incl H H' -> emitted_from H tbl f r -> emitted_from H' tbl f r.
Proof.
  intros Hi [fs [s2 [t2 [coins [H1 [H2 H3]]]]]]. exists fs, s2, t2, coins. split; [eapply stored_in_mono; eauto|]. split; auto.
Qed.

(* without a filter: the row is the stored value, scrubbed *)
Lemma visit_nofilter t k fs coins r : fst (visit t None k fs coins) = Some r ->
  r = mkRow k (scrub_fams (t_fams t) fs) /\ scrub_fams (t_fams t) fs <> [].
Proof.
  unfold visit. destruct fs as [|fm fs0]; [discriminate|]. cbn [negb].
  destruct (scrub_fams (t_fams t) (fm :: fs0)) eqn:E; [discriminate|]. cbn. intros H. injection H as <-. split; auto. discriminate.
Qed.

(* one section: what is left of the snapshot, and where the new rows come from *)
Lemma scan_section_acc t f limit : forall rows count coins pending acc rest c' coins' p' acc' handed stop,
  scan_section t f limit rows count coins pending acc = (rest, c', coins', p', acc', handed, stop) ->
  (forall x, In x rest -> In x rows)
  /\ (forall r, In r acc' -> In r acc \/ exists k fs coins0, In (k, fs) rows /\ fst (visit t f k fs coins0) = Some r)
  /\ (forall r, In r acc -> In r acc').
Proof.
  induction rows as [|[k fs] rows IH]; intros count coins pending acc rest c' coins' p' acc' handed stop H.
  - cbn in H. injection H as <- _ _ _ <- _ _. auto.
  - rewrite scan_section_step in H. destruct ((0 <? limit) && (limit <=? count)).
    + injection H as <- _ _ _ <- _ _. split; [intros x []|]. auto.
    + destruct (visit t f k fs coins) as [[r|] c1] eqn:Hv.
      * assert (Hr : forall r', In r' (r :: acc) -> In r' acc \/ exists k0 fs0 coins0, In (k0, fs0) ((k, fs) :: rows) /\ fst (visit t f k0 fs0 coins0) = Some r').
        { intros r' [<-|Hr']; auto. right. exists k, fs, coins. split; [left; reflexivity|rewrite Hv; reflexivity]. }
        destruct (btFlushChunks <? pending + cells_of (row_fams r)).
        -- injection H as <- _ _ _ <- _ _. split; [intros x Hx; right; exact Hx|]. split; [exact Hr|]. intros r' Hr'. right. exact Hr'.
        -- apply IH in H. destruct H as [H1 [H2 H3]]. split; [intros x Hx; right; auto|]. split.
           ++ intros r' Hr'. destruct (H2 r' Hr') as [G|[k0 [fs0 [c0 [G1 G2]]]]]; [apply Hr; exact G|].
              right. exists k0, fs0, c0. split; [right; exact G1|exact G2].
           ++ intros r' Hr'. apply H3. right. exact Hr'.
      * apply IH in H. destruct H as [H1 [H2 H3]]. split; [intros x Hx; right; auto|]. split; auto.
        intros r' Hr'. destruct (H2 r' Hr') as [G|[k0 [fs0 [c0 [G1 G2]]]]]; auto.
        right. exists k0, fs0, c0. split; [right; exact G1|exact G2].
Qed.

Definition rows_src (H : list server) tbl (rows : list (bytes * list family)) : Prop :=
  forall k fs, In (k, fs) rows -> stored_in H tbl k fs.
Definition acc_src (H : list server) tbl f (acc : list row) : Prop :=
  forall r, In r acc -> emitted_from H tbl f r.

Lemma scan_continue_src H s tbl f limit : In s H ->
  forall fuel rows rngs count coins pending acc, rows_src H tbl rows -> acc_src H tbl f acc ->
  match scan_continue fuel s tbl f limit rows rngs count coins pending acc with
  | inl (PScan rows' _ _ _ _ acc' _) => rows_src H tbl rows' /\ acc_src H tbl f acc'
  | inl _ => True
  | inr rsp => forall res, rsp = ok (YRows res) -> forall r, In r res -> emitted_from H tbl f r
  end.
Proof.
  intros Hs. induction fuel as [|fu IH]; intros rows rngs count coins pending acc Hrows Hacc; cbn [scan_continue]; [discriminate|].
  destruct (alookup tbl s) as [t|] eqn:Ht; [|discriminate].
  destruct (scan_section t f limit rows count coins pending acc) as [[[[[[rest c1] coins1] p1] acc1] handed] stop] eqn:Hsec.
  destruct (scan_section_acc _ _ _ _ _ _ _ _ _ _ _ _ _ _ _ Hsec) as [S1 [S2 _]].
  assert (Hrows1 : rows_src H tbl rest) by (intros k fs Hin; apply Hrows, S1, Hin).
  assert (Hacc1 : acc_src H tbl f acc1).
  { intros r Hr. destruct (S2 r Hr) as [G|[k [fs [c0 [G1 G2]]]]]; [apply Hacc, G|].
    assert (Hk : row_key r = k).
    { destruct (visit t f k fs c0) as [o c1'] eqn:Ev. cbn in G2. subst o. eapply visit_key; eauto. }
    subst k. exists fs, s, t, c0. split; [apply Hrows, G1|]. auto. }
  destruct handed; [auto|].
  destruct rngs as [|sr more].
  - destruct (0 <? p1).
    + split; [intros k fs []|exact Hacc1].
    + intros res Hres r Hr. injection Hres as <-. apply in_rev in Hr. apply Hacc1, Hr.
  - apply IH; auto. intros k fs Hin. apply filter_In in Hin. destruct Hin as [Hin _]. exists s, t. auto.
Qed.

Definition scan_prog_src (H : list server) tbl f (p : progress) : Prop :=
  match p with
  | PAtLock => True
  | PScan rows _ _ _ _ acc _ => rows_src H tbl rows /\ acc_src H tbl f acc
  | _ => False
  end.

Lemma scan_prog_src_mono H H' tbl f p : incl H H' -> scan_prog_src H tbl f p -> scan_prog_src H' tbl f p.
Proof.
  intros Hi. destruct p; cbn; auto. intros [H1 H2]. split.
  - intros k fs Hin. eapply stored_in_mono; eauto.
  - intros r Hr. eapply emitted_from_mono; eauto.
Qed.

Lemma scan_prog_src_shape H tbl f p : scan_prog_src H tbl f p -> p = PAtLock \/ is_scan_prog p = true.
Proof. destruct p; cbn; auto; tauto. Qed.

Lemma scan_resume_src H st c p tbl keys ranges f limit x :
  cl_req c = BReadRows tbl keys ranges f limit -> In (cs_server st) H -> scan_prog_src H tbl f p ->
  scan_resume (cs_server st) c p = Some x ->
  match x with
  | inl p' => scan_prog_src H tbl f p'
  | inr rsp => forall res, rsp = ok (YRows res) -> forall r, In r res -> emitted_from H tbl f r
  end.
Proof.
  intros Hr Hin Hsrc Hs. pose proof Hs as Hs0. unfold scan_resume in Hs. rewrite Hr in Hs.
  destruct p as [| | |rows rngs count coins pending acc final|]; try discriminate.
  - apply some_inj in Hs.
    pose proof (scan_continue_src H (cs_server st) tbl f limit Hin (S (S (length keys + length ranges))) []
                  (scan_ranges keys ranges) 0 (cl_coins c) 0 [] ltac:(intros k fs []) ltac:(intros r [])) as G.
    rewrite Hs in G. destruct x as [p'|rsp]; auto.
    pose proof (scan_continue_inl _ _ _ _ _ _ _ _ _ _ _ _ Hs) as Hp'. destruct p'; try discriminate. exact G.
  - destruct final; [discriminate|]. apply some_inj in Hs. destruct Hsrc as [H1 H2].
    pose proof (scan_continue_src H (cs_server st) tbl f limit Hin (S (S (length rngs))) rows rngs count coins pending acc H1 H2) as G.
    rewrite Hs in G. destruct x as [p'|rsp]; auto.
    pose proof (scan_continue_inl _ _ _ _ _ _ _ _ _ _ _ _ Hs) as Hp'. destruct p'; try discriminate. exact G.
Qed.

Section ScanRun.
  Variables (i : nat) (c : call) (rest : list call) (tbl : bytes) (keys : list bytes) (ranges : list rowrange)
            (f : option rfilter) (limit : Z).
  Hypothesis Hreq : cl_req c = BReadRows tbl keys ranges f limit.

  Lemma scan_src_run : forall sb st H p res,
    thread_at st i c rest p -> scan_prog_src H tbl f p ->
    done_of i sb (snd (crun st sb)) = [] ->
    snd (cstep (fst (crun st sb)) i) = ODone (ok (YRows res)) ->
    forall r, In r res -> emitted_from (H ++ own_servers i st (sb ++ [i])) tbl f r.
  Proof.
    induction sb as [|j sb IH]; intros st H p res Hat Hsrc Hnd Hdone r Hr.
    - cbn [crun fst app own_servers] in *. rewrite Nat.eqb_refl. cbn [app].
      set (H' := H ++ [cs_server st]).
      assert (Hin : In (cs_server st) H') by (apply in_or_app; right; left; reflexivity).
      assert (Hsrc' : scan_prog_src H' tbl f p) by (eapply scan_prog_src_mono; [|exact Hsrc]; apply incl_appl, incl_refl).
      rewrite (cstep_scan _ _ _ _ _ _ _ _ _ _ Hat Hreq (scan_prog_src_shape _ _ _ _ Hsrc)) in Hdone.
      destruct (blocked_for st i); [discriminate|].
      destruct (final_acc p) as [acc|] eqn:Hfa.
      + cbn in Hdone. injection Hdone as <-. destruct p; try discriminate. destruct final; [|discriminate]. injection Hfa as ->.
        destruct Hsrc' as [_ G]. apply G. apply in_rev. exact Hr.
      + destruct (scan_resume (cs_server st) c p) as [[p'|rsp]|] eqn:Hs; cbn in Hdone; try discriminate.
        injection Hdone as ->. exact (scan_resume_src H' st c p _ _ _ _ _ _ Hreq Hin Hsrc' Hs res eq_refl r Hr).
    - rewrite crun_cons in Hnd, Hdone. cbn [fst snd done_of] in Hnd, Hdone. apply app_eq_nil in Hnd. destruct Hnd as [Hnd1 Hnd2].
      rewrite <- app_comm_cons. cbn [own_servers].
      destruct (Nat.eqb j i) eqn:Eji.
      + apply Nat.eqb_eq in Eji. subst j. rewrite app_assoc. set (H' := H ++ [cs_server st]).
        assert (Hin : In (cs_server st) H') by (apply in_or_app; right; left; reflexivity).
        assert (Hsrc' : scan_prog_src H' tbl f p) by (eapply scan_prog_src_mono; [|exact Hsrc]; apply incl_appl, incl_refl).
        pose proof (cstep_scan _ _ _ _ _ _ _ _ _ _ Hat Hreq (scan_prog_src_shape _ _ _ _ Hsrc)) as Hstep.
        destruct (blocked_for st i).
        * rewrite Hstep in *. cbn [fst] in *. eapply IH; eauto.
        * destruct (final_acc p) as [acc|]; [rewrite Hstep in Hnd1; discriminate|].
          destruct (scan_resume (cs_server st) c p) as [[p'|rsp]|] eqn:Hs.
          -- rewrite Hstep in *. cbn [fst] in *. eapply (IH _ H' p'); eauto.
             ++ unfold thread_at, set_prog. cbn [cs_threads]. apply (nth_error_upd_same _ _ _ _ Hat).
             ++ exact (scan_resume_src H' st c p _ _ _ _ _ _ Hreq Hin Hsrc' Hs).
          -- rewrite Hstep in Hnd1. discriminate.
          -- rewrite Hstep in *. cbn [fst] in *. eapply IH; eauto.
      + cbn [app]. eapply IH; eauto. unfold thread_at. rewrite cstep_frame; auto. apply Nat.eqb_neq in Eji. auto.
  Qed.
End ScanRun.

(* C18 (a): a read parked before its first lock in [st]; [sb ++ [i]] any schedule (ANY other
   threads: writers, scans, admin requests, GC) whose last step is the read's answer.  Every
   returned row was produced, by the scan's loop body, from a row stored under its key in the
   table in one of the states in which the scan itself was running a section (its snapshot):
   server states that existed between the scan's first and its last step. *)
Theorem scan_rows_from_snapshot : forall st i c rest tbl keys ranges f limit sb res,
  thread_at st i c rest PAtLock -> cl_req c = BReadRows tbl keys ranges f limit ->
  done_of i sb (snd (crun st sb)) = [] ->
  snd (cstep (fst (crun st sb)) i) = ODone (ok (YRows res)) ->
  forall r, In r res -> emitted_from (own_servers i st (sb ++ [i])) tbl f r.
Proof.
  intros st i c rest tbl keys ranges f limit sb res Hat Hr Hnd Hdone r Hin.
  exact (scan_src_run i c rest tbl keys ranges f limit Hr sb st [] PAtLock res Hat I Hnd Hdone r Hin).
Qed.

(* without a filter: the row IS the stored value of its key in a snapshot state, scrubbed with
   the families of the table in (possibly another) such state *)
Corollary scan_rows_from_snapshot_nofilter : forall st i c rest tbl keys ranges limit sb res,
  thread_at st i c rest PAtLock -> cl_req c = BReadRows tbl keys ranges None limit ->
  done_of i sb (snd (crun st sb)) = [] ->
  snd (cstep (fst (crun st sb)) i) = ODone (ok (YRows res)) ->
  forall r, In r res ->
  exists n1 n2 t1 t2 fs,
    (n1 < length (sb ++ [i]))%nat /\ nth_error (sb ++ [i]) n1 = Some i
    /\ alookup tbl (cs_server (fst (crun st (firstn n1 (sb ++ [i]))))) = Some t1
    /\ In (row_key r, fs) (t_rows t1)
    /\ (n2 < length (sb ++ [i]))%nat /\ nth_error (sb ++ [i]) n2 = Some i
    /\ alookup tbl (cs_server (fst (crun st (firstn n2 (sb ++ [i]))))) = Some t2
    /\ r = mkRow (row_key r) (scrub_fams (t_fams t2) fs) /\ row_fams r <> [].
Proof.
  intros st i c rest tbl keys ranges limit sb res Hat Hr Hnd Hdone r Hin.
  destruct (scan_rows_from_snapshot st i c rest tbl keys ranges None limit sb res Hat Hr Hnd Hdone r Hin)
    as [fs [s2 [t2 [coins [[s1 [t1 [S1 [S2 S3]]]] [E1 [E2 E3]]]]]]].
  destruct (own_servers_prefix _ _ _ _ S1) as [n1 [A1 [A2 A3]]].
  destruct (own_servers_prefix _ _ _ _ E1) as [n2 [B1 [B2 B3]]].
  destruct (visit_nofilter _ _ _ _ _ E3) as [V1 V2].
  exists n1, n2, t1, t2, fs. subst s1 s2. repeat split; auto. rewrite V1. exact V2.
Qed.

(* ------------------------------------------------------------------ *)
(* C18 (c): rows nobody touches are returned exactly                   *)
(* ------------------------------------------------------------------ *)
Lemma visit_nofilter_some t k fs coins : scrub_fams (t_fams t) fs <> [] ->
  visit t None k fs coins = (Some (mkRow k (scrub_fams (t_fams t) fs)), coins).
Proof.
  intros H. unfold visit. destruct fs as [|fm fs0]; [exfalso; apply H; reflexivity|]. cbn [negb].
  destruct (scrub_fams (t_fams t) (fm :: fs0)); [exfalso; apply H; reflexivity|reflexivity].
Qed.

Lemma scan_section_cover t limit k fs : limit <= 0 -> scrub_fams (t_fams t) fs <> [] ->
  forall rows count coins pending acc rest c' coins' p' acc' handed stop,
  scan_section t None limit rows count coins pending acc = (rest, c', coins', p', acc', handed, stop) ->
  In (k, fs) rows ->
  In (mkRow k (scrub_fams (t_fams t) fs)) acc' \/ (handed = true /\ In (k, fs) rest).
Proof.
  intros Hl Hout. induction rows as [|[k0 fs0] rows IH]; intros count coins pending acc rest c' coins' p' acc' handed stop H Hin;
    [destruct Hin|].
  rewrite scan_section_step in H. assert (E : 0 <? limit = false) by lia. rewrite E in H. cbn [andb] in H.
  destruct Hin as [Heq|Hin].
  - injection Heq as E1 E2. subst k0 fs0. rewrite (visit_nofilter_some t k fs coins Hout) in H.
    destruct (btFlushChunks <? pending + cells_of (row_fams (mkRow k (scrub_fams (t_fams t) fs)))).
    + injection H as _ _ _ _ <- _ _. left. left. reflexivity.
    + destruct (scan_section_acc _ _ _ _ _ _ _ _ _ _ _ _ _ _ _ H) as [_ [_ H3]]. left. apply H3. left. reflexivity.
  - destruct (visit t None k0 fs0 coins) as [[r|] c1].
    + destruct (btFlushChunks <? pending + cells_of (row_fams r)).
      * injection H as <- _ _ _ _ <- _. right. auto.
      * eapply IH; eauto.
    + eapply IH; eauto.
Qed.

Definition covered (k : bytes) (fs out : list family) (rows : list (bytes * list family)) (rngs : list srange)
           (acc : list row) : Prop :=
  In (mkRow k out) acc \/ In (k, fs) rows \/ in_any rngs k.

Definition prog_cover (k : bytes) (fs out : list family) (keys : list bytes) (ranges : list rowrange) (p : progress) : Prop :=
  match p with
  | PAtLock => in_any (scan_ranges keys ranges) k
  | PScan rows rngs _ _ _ acc final => if final then In (mkRow k out) acc else covered k fs out rows rngs acc
  | _ => False
  end.

Lemma scan_continue_cover s tbl limit k fs t :
  limit <= 0 -> alookup tbl s = Some t -> alookup k (t_rows t) = Some fs -> scrub_fams (t_fams t) fs <> [] ->
  forall fuel rows rngs count coins pending acc, covered k fs (scrub_fams (t_fams t) fs) rows rngs acc ->
  (length rngs < fuel)%nat ->
  match scan_continue fuel s tbl None limit rows rngs count coins pending acc with
  | inl p => forall keys ranges, prog_cover k fs (scrub_fams (t_fams t) fs) keys ranges p
  | inr rsp => forall res, rsp = ok (YRows res) -> In (mkRow k (scrub_fams (t_fams t) fs)) res
  end.
Proof.
  intros Hl Ht Hk Hout. set (out := scrub_fams (t_fams t) fs).
  induction fuel as [|fu IH]; intros rows rngs count coins pending acc Hcov Hlen; [lia|].
  cbn [scan_continue]. rewrite Ht.
  destruct (scan_section t None limit rows count coins pending acc) as [[[[[[rest c1] coins1] p1] acc1] handed] stop] eqn:Hsec.
  destruct (scan_section_acc _ _ _ _ _ _ _ _ _ _ _ _ _ _ _ Hsec) as [_ [_ S3]].
  assert (Hcov1 : In (mkRow k out) acc1 \/ (handed = true /\ In (k, fs) rest) \/ in_any rngs k).
  { destruct Hcov as [G|[G|G]]; auto.
    destruct (scan_section_cover t limit k fs Hl Hout _ _ _ _ _ _ _ _ _ _ _ _ Hsec G) as [G'|G']; auto. }
  destruct handed.
  - intros ? ?. cbn. destruct Hcov1 as [G|[[_ G]|G]]; [left|right; left|right; right]; auto.
  - assert (Hcov2 : In (mkRow k out) acc1 \/ in_any rngs k) by (destruct Hcov1 as [G|[[G _]|G]]; auto; discriminate).
    destruct rngs as [|sr more].
    + assert (Hacc : In (mkRow k out) acc1) by (destruct Hcov2 as [G|[r [[] _]]]; auto).
      destruct (0 <? p1); [intros ? ?; exact Hacc|]. intros res Hres. injection Hres as <-. apply in_rev in Hacc. exact Hacc.
    + apply IH; [|cbn [length] in Hlen; lia]. destruct Hcov2 as [G|[r [[<-|Hr] Hin]]].
      * left. exact G.
      * right. left. apply filter_In. split; [apply alookup_in; exact Hk|]. apply in_srange_b_iff. exact Hin.
      * right. right. exists r. auto.
Qed.

Section ScanExact.
  Variables (i : nat) (c : call) (rest : list call) (tbl : bytes) (keys : list bytes) (ranges : list rowrange) (limit : Z).
  Hypothesis Hreq : cl_req c = BReadRows tbl keys ranges None limit.
  Variables (k : bytes) (fs : list family) (tf : list (bytes * option gcrule)).

  (* in server state s the table exists with families tf and holds fs under key k *)
  Definition row_const (s : server) : Prop :=
    exists t, alookup tbl s = Some t /\ t_fams t = tf /\ asorted (t_rows t) /\ alookup k (t_rows t) = Some fs.

  Hypothesis Hlimit : limit <= 0.
  Hypothesis Hout : scrub_fams tf fs <> [].

  Lemma scan_resume_cover st p x : row_const (cs_server st) -> prog_cover k fs (scrub_fams tf fs) keys ranges p ->
    scan_resume (cs_server st) c p = Some x ->
    match x with
    | inl p' => prog_cover k fs (scrub_fams tf fs) keys ranges p'
    | inr rsp => forall res, rsp = ok (YRows res) -> In (mkRow k (scrub_fams tf fs)) res
    end.
  Proof.
    intros [t [Ht [Hf [_ Hk]]]] Hcov Hs. unfold scan_resume in Hs. rewrite Hreq in Hs. subst tf.
    destruct p as [| | |rows rngs count coins pending acc final|]; try discriminate.
    - apply some_inj in Hs.
      pose proof (scan_continue_cover (cs_server st) tbl limit k fs t Hlimit Ht Hk Hout (S (S (length keys + length ranges))) []
                    (scan_ranges keys ranges) 0 (cl_coins c) 0 []) as G.
      rewrite Hs in G. destruct x; [intros; apply G|apply G]; try (right; right; exact Hcov);
        pose proof (scan_ranges_length keys ranges); lia.
    - destruct final; [discriminate|]. apply some_inj in Hs.
      pose proof (scan_continue_cover (cs_server st) tbl limit k fs t Hlimit Ht Hk Hout (S (S (length rngs))) rows rngs count coins pending acc) as G.
      rewrite Hs in G. destruct x; [intros; apply G|apply G]; auto.
  Qed.

  Lemma prog_cover_shape p : prog_cover k fs (scrub_fams tf fs) keys ranges p -> p = PAtLock \/ is_scan_prog p = true.
  Proof. destruct p; cbn; auto; tauto. Qed.

  Lemma scan_cover_run : forall sb st p res,
    thread_at st i c rest p -> prog_cover k fs (scrub_fams tf fs) keys ranges p ->
    (forall s, In s (own_servers i st (sb ++ [i])) -> row_const s) ->
    done_of i sb (snd (crun st sb)) = [] ->
    snd (cstep (fst (crun st sb)) i) = ODone (ok (YRows res)) ->
    In (mkRow k (scrub_fams tf fs)) res.
  Proof.
    induction sb as [|j sb IH]; intros st p res Hat Hcov Hconst Hnd Hdone.
    - cbn [crun fst app own_servers] in *. rewrite Nat.eqb_refl in Hconst.
      assert (Hc : row_const (cs_server st)) by (apply Hconst; left; reflexivity).
      rewrite (cstep_scan _ _ _ _ _ _ _ _ _ _ Hat Hreq (prog_cover_shape _ Hcov)) in Hdone.
      destruct (blocked_for st i); [discriminate|].
      destruct (final_acc p) as [acc|] eqn:Hfa.
      + cbn in Hdone. injection Hdone as <-. destruct p; try discriminate. destruct final; [|discriminate]. injection Hfa as ->.
        cbn in Hcov. apply in_rev in Hcov. exact Hcov.
      + destruct (scan_resume (cs_server st) c p) as [[p'|rsp]|] eqn:Hs; cbn in Hdone; try discriminate.
        injection Hdone as ->. exact (scan_resume_cover st p _ Hc Hcov Hs res eq_refl).
    - rewrite crun_cons in Hnd, Hdone. cbn [fst snd done_of] in Hnd, Hdone. apply app_eq_nil in Hnd. destruct Hnd as [Hnd1 Hnd2].
      rewrite <- app_comm_cons in Hconst. cbn [own_servers] in Hconst.
      destruct (Nat.eqb j i) eqn:Eji.
      + apply Nat.eqb_eq in Eji. subst j.
        assert (Hc : row_const (cs_server st)) by (apply Hconst; left; reflexivity).
        assert (Hconst' : forall s, In s (own_servers i (fst (cstep st i)) (sb ++ [i])) -> row_const s)
          by (intros s Hs; apply Hconst; right; exact Hs).
        pose proof (cstep_scan _ _ _ _ _ _ _ _ _ _ Hat Hreq (prog_cover_shape _ Hcov)) as Hstep.
        destruct (blocked_for st i).
        * rewrite Hstep in *. cbn [fst] in *. eapply IH; eauto.
        * destruct (final_acc p) as [acc|]; [rewrite Hstep in Hnd1; discriminate|].
          destruct (scan_resume (cs_server st) c p) as [[p'|rsp]|] eqn:Hs.
          -- rewrite Hstep in *. cbn [fst] in *. eapply (IH _ p'); eauto.
             ++ unfold thread_at, set_prog. cbn [cs_threads]. apply (nth_error_upd_same _ _ _ _ Hat).
             ++ exact (scan_resume_cover st p _ Hc Hcov Hs).
          -- rewrite Hstep in Hnd1. discriminate.
          -- rewrite Hstep in *. cbn [fst] in *. eapply IH; eauto.
      + cbn [app] in Hconst. apply (IH (fst (cstep st j)) p res); auto.
        unfold thread_at. rewrite cstep_frame; auto. apply Nat.eqb_neq in Eji. auto.
  Qed.
End ScanExact.

(* C18 (c): an unfiltered read interleaved with ANY other threads.  Let key k hold the same value
   fs, in a table with the same families tf, in every state in which the scan runs a section
   (e.g. because no write commits to k and no admin request touches the table between the scan's
   start and end).  Then (1) a returned row with key k is exactly the stored value (scrubbed), and
   (2) without a row limit, if k is requested and has output, its row IS returned. *)
Theorem scan_untouched_rows_exact : forall st i c rest tbl keys ranges limit sb res k fs tf,
  thread_at st i c rest PAtLock -> cl_req c = BReadRows tbl keys ranges None limit ->
  done_of i sb (snd (crun st sb)) = [] ->
  snd (cstep (fst (crun st sb)) i) = ODone (ok (YRows res)) ->
  (forall s, In s (own_servers i st (sb ++ [i])) -> row_const tbl k fs tf s) ->
  (forall r, In r res -> row_key r = k -> r = mkRow k (scrub_fams tf fs))
  /\ (limit <= 0 -> in_any (scan_ranges keys ranges) k -> scrub_fams tf fs <> [] -> In (mkRow k (scrub_fams tf fs)) res).
Proof.
  intros st i c rest tbl keys ranges limit sb res k fs tf Hat Hr Hnd Hdone Hconst. split.
  - intros r Hin Hk.
    destruct (scan_rows_from_snapshot st i c rest tbl keys ranges None limit sb res Hat Hr Hnd Hdone r Hin)
      as [fs' [s2 [t2 [coins [[s1 [t1 [S1 [S2 S3]]]] [E1 [E2 E3]]]]]]].
    destruct (Hconst s1 S1) as [t1' [A1 [_ [A3 A4]]]]. rewrite S2 in A1. injection A1 as <-.
    destruct (Hconst s2 E1) as [t2' [B1 [B2 _]]]. rewrite E2 in B1. injection B1 as <-.
    rewrite Hk in S3. rewrite (asorted_in_alookup _ _ _ A3 S3) in A4. injection A4 as ->.
    destruct (visit_nofilter _ _ _ _ _ E3) as [V1 _]. rewrite V1, B2, Hk. reflexivity.
  - intros Hl Hin Hout.
    exact (scan_cover_run i c rest tbl keys ranges limit Hr k fs tf Hl Hout sb st PAtLock res Hat Hin Hconst Hnd Hdone).
Qed.

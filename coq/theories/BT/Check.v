(* Correspondence-check glue for the Bigtable model: canonical forms, decidable equality,
   comparison of an observed history with the model's run. *)
From Coq Require Import List NArith ZArith Bool.
Import ListNotations.
From Emu.Common Require Import Bytes Str.
From Emu.BT Require Import Types Mutate Server.
Local Open Scope Z_scope.

Fixpoint list_eqb {A} (e : A -> A -> bool) (a b : list A) : bool :=
  match a, b with
  | [], [] => true
  | x :: xs, y :: ys => e x y && list_eqb e xs ys
  | _, _ => false
  end.

Fixpoint lexl_cmp (a b : list bytes) : comparison :=
  match a, b with
  | [], [] => Eq
  | [], _ => Lt
  | _, [] => Gt
  | x :: xs, y :: ys => match lex_cmp x y with Eq => lexl_cmp xs ys | c => c end
  end.

(* canonical cell order: timestamp descending, then value, then labels *)
Definition cell_lt (a b : cell) : bool :=
  if c_ts b <? c_ts a then true else if c_ts a <? c_ts b then false else
  match lex_cmp (c_val a) (c_val b) with
  | Lt => true | Gt => false
  | Eq => match lexl_cmp (c_labels a) (c_labels b) with Lt => true | _ => false end
  end.
Fixpoint cinsert (c : cell) (l : list cell) : list cell :=
  match l with [] => [c] | d :: r => if cell_lt d c then d :: cinsert c r else c :: l end.
Definition canon_cells (l : list cell) : list cell := fold_right cinsert [] l.

Fixpoint finsert (f : family) (l : list family) : list family :=
  match l with [] => [f] | g :: r => if lex_ltb (fam_name g) (fam_name f) then g :: finsert f r else f :: l end.
Definition canon_fams (fs : list family) : list family :=
  fold_right finsert [] (map (fun f => mkFam (fam_name f) (map (fun c => mkCol (col_q c) (canon_cells (col_cells c))) (fam_cols f))) fs).
Definition canon_row (r : row) : row := mkRow (row_key r) (canon_fams (row_fams r)).

Definition cell_eqb (a b : cell) : bool :=
  Z.eqb (c_ts a) (c_ts b) && beqb (c_val a) (c_val b) && list_eqb beqb (c_labels a) (c_labels b).
Definition col_eqb (a b : column) : bool := beqb (col_q a) (col_q b) && list_eqb cell_eqb (col_cells a) (col_cells b).
Definition fam_eqb (a b : family) : bool := beqb (fam_name a) (fam_name b) && list_eqb col_eqb (fam_cols a) (fam_cols b).
Definition row_eqb (a b : row) : bool := beqb (row_key a) (row_key b) && list_eqb fam_eqb (row_fams a) (row_fams b).

Fixpoint gc_eqb (a b : gcrule) : bool :=
  match a, b with
  | GMaxVersions x, GMaxVersions y => Z.eqb x y
  | GMaxAge s n, GMaxAge s' n' => Z.eqb s s' && Z.eqb n n'
  | GUnion l, GUnion l' => (fix go (l l' : list gcrule) := match l, l' with
                                                         | [], [] => true
                                                         | x :: r, y :: r' => gc_eqb x y && go r r'
                                                         | _, _ => false end) l l'
  | GOther, GOther => true
  | _, _ => false
  end.
Definition famdef_eqb (a b : bytes * option gcrule) : bool :=
  beqb (fst a) (fst b) && match snd a, snd b with
                          | None, None => true
                          | Some x, Some y => gc_eqb x y
                          | _, _ => false end.

Definition body_eqb (a b : bbody) : bool :=
  match a, b with
  | YNone, YNone => true
  | YRows x, YRows y => list_eqb row_eqb (map canon_row x) y
  | YMatched x, YMatched y => Bool.eqb x y
  | YEntries x, YEntries y => list_eqb N.eqb x y
  | YTable n f, YTable n' f' => beqb n n' && list_eqb famdef_eqb f f'
  | YTables x, YTables y => list_eqb beqb x y
  | _, _ => false
  end.

(* model response (left) against observed response (right, already canonical) *)
Definition step_ok (s : server) (c : call) (obs : bresp) : bool :=
  match cl_req c, br_body obs with
  | BSampleRowKeys tbl, YSample samples =>
      match alookup tbl s with
      | Some t => N.eqb (br_code obs) cOK && sample_ok t samples
      | None => false
      end
  | _, _ => let r := snd (step s c) in N.eqb (br_code r) (br_code obs) && body_eqb (br_body r) (br_body obs)
  end.

Fixpoint first_bad (s : server) (i : N) (cs : list call) (obs : list bresp) : option N :=
  match cs, obs with
  | [], [] => None
  | c :: cs', o :: obs' => if step_ok s c o then first_bad (fst (step s c)) (i + 1)%N cs' obs' else Some i
  | _, _ => Some i
  end.

Definition check_case (c : list call * list bresp) : option N := first_bad [] 0%N (fst c) (snd c).

Fixpoint check_all_from (i : N) (cs : list (list call * list bresp)) : list (N * N) :=
  match cs with
  | [] => []
  | c :: r => match check_case c with
              | Some k => (i, k) :: check_all_from (i + 1)%N r
              | None => check_all_from (i + 1)%N r
              end
  end.
Definition check_all := check_all_from 0%N.

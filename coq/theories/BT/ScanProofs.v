(* C03: theorems about the ReadRows scan of the model (BT/Server.v) against the RowSet
   meaning of BT/RowSetSpec.v. *)
From Coq Require Import List NArith ZArith Bool Lia Sorting Permutation.
Import ListNotations.
From Emu.Common Require Import Bytes Str StrProofs.
From Emu.BT Require Import Types Mutate Filter RowSet RowSetProofs RowSetSpec Server.

(* ------------------------------------------------------------------ *)
(* byte order: boolean reflections and a few extra facts               *)
(* ------------------------------------------------------------------ *)
Lemma lex_leb_iff a b : lex_leb a b = true <-> lex_le a b.
Proof. unfold lex_leb, lex_le. destruct (lex_cmp a b); split; intros H; try discriminate; auto; congruence. Qed.
Lemma lex_ltb_iff a b : lex_ltb a b = true <-> lex_lt a b.
Proof. unfold lex_ltb, lex_lt. destruct (lex_cmp a b); split; intros H; try discriminate; auto. Qed.
Lemma lex_lt_iff_not_le a b : lex_lt a b <-> ~ lex_le b a.
Proof.
  unfold lex_lt, lex_le. rewrite (lex_antisym a b).
  destruct (lex_cmp a b); cbn; split; intros H; try discriminate; try congruence;
    try (exfalso; apply H; (reflexivity || discriminate)).
Qed.
Lemma lex_le_iff_not_lt a b : lex_le a b <-> ~ lex_lt b a.
Proof.
  unfold lex_lt, lex_le. rewrite (lex_antisym a b).
  destruct (lex_cmp a b); cbn; split; intros H; try discriminate; try congruence;
    try (exfalso; apply H; (reflexivity || discriminate)).
Qed.
Lemma lex_lt_irrefl a : ~ lex_lt a a.
Proof. unfold lex_lt. rewrite lex_refl. discriminate. Qed.
Lemma lex_lt_nil_l k : k <> [] -> lex_lt [] k.
Proof. destruct k; [congruence|reflexivity]. Qed.
Lemma lex_le_nil_r k : lex_le k [] -> k = [].
Proof. destruct k; auto. unfold lex_le. cbn. congruence. Qed.
Lemma lex_le_antisym a b : lex_le a b -> lex_le b a -> a = b.
Proof.
  unfold lex_le. rewrite (lex_antisym a b). destruct (lex_cmp a b) eqn:E; cbn; intros H1 H2; try congruence.
  apply lex_eq; auto.
Qed.
(* a closed end is encoded by appending a zero byte *)
Lemma lt_succ_key k e : lex_lt k (e ++ [0%N]) <-> lex_le k e.
Proof. rewrite lex_lt_iff_not_le, <- succ_key, <- lex_le_iff_not_lt. tauto. Qed.

Lemma in_srange_b_iff r k : in_srange_b r k = true <-> in_srange r k.
Proof.
  unfold in_srange_b, in_srange. rewrite andb_true_iff, lex_leb_iff.
  destruct (re r) as [|x xs].
  - split; intros [H1 H2]; auto.
  - rewrite lex_ltb_iff. split; intros [H1 H2]; split; auto. destruct H2 as [H2|H2]; [discriminate|auto].
Qed.

(* ------------------------------------------------------------------ *)
(* 1a. the encoding of bounds                                          *)
(* ------------------------------------------------------------------ *)
Lemma encode_lo_spec b k : k <> [] ->
  (lex_le (match b with BClosed s => s | BOpen s => s ++ [0%N] | BUnset => [] end) k <-> in_bound_lo b k).
Proof.
  intros Hk. destruct b as [|s|s]; cbn [in_bound_lo].
  - split; auto. intros _. apply lex_le_nil.
  - split; auto. intros [->|H]; auto. apply lex_le_nil.
  - rewrite <- succ_key. split; auto. intros [->|H]; auto. apply lex_lt_nil_l; auto.
Qed.

(* an empty closed end is encoded as "no end" (like an unset one), any other closed end by
   appending a zero byte *)
Lemma encode_hi_spec b k : k <> [] ->
  (let e := match b with
            | BClosed [] => []
            | BClosed e => e ++ [0%N] | BOpen e => e | BUnset => [] end in
   e = [] \/ lex_lt k e) <-> in_bound_hi b k.
Proof.
  intros Hk. destruct b as [|e|e]; cbn [in_bound_hi].
  - tauto.
  - destruct e as [|x e'].
    + split; auto.
    + rewrite lt_succ_key. split.
      * intros [H|H]; auto. discriminate.
      * intros [H|H]; auto. discriminate.
  - tauto.
Qed.

(* the half-open byte range the code scans for rr contains exactly the keys of rr
   (every rowrange, every non-empty key; an end closed at the empty key is "unset") *)
Theorem encode_range_spec : forall rr k, k <> [] ->
  (in_srange (encode_range rr) k <-> in_row_range rr k).
Proof.
  intros [s e] k Hk. unfold in_srange, in_row_range, encode_range in *. cbn [rs re rr_start rr_end] in *.
  rewrite (encode_lo_spec s k Hk). rewrite <- (encode_hi_spec e k Hk). cbv zeta. tauto.
Qed.

(* the shape that used to select nothing: an end_key_closed set to the empty key is unbounded
   above, exactly like an unset end -- every key that satisfies the start bound is inside *)
Lemma encode_range_closed_empty_end_unbounded s k : k <> [] ->
  (in_srange (encode_range (mkRange s (BClosed []))) k <-> in_bound_lo s k).
Proof.
  intros Hk. rewrite encode_range_spec by exact Hk. unfold in_row_range. cbn [rr_start rr_end in_bound_hi]. tauto.
Qed.

(* in particular it scans the same keys as the range with the end left unset, and with a
   closed start every key >= start *)
Lemma encode_range_closed_empty_end_as_unset s : encode_range (mkRange s (BClosed [])) = encode_range (mkRange s BUnset).
Proof. reflexivity. Qed.

Lemma encode_range_closed_empty_end_from_start s k : lex_le s k ->
  in_srange (encode_range (mkRange (BClosed s) (BClosed []))) k.
Proof. intros H. split; cbn [encode_range rr_start rr_end rs re]; auto. Qed.

Theorem key_range_spec : forall x k, in_srange (key_range x) k <-> k = x.
Proof.
  intros x k. unfold in_srange, key_range. cbn [rs re]. rewrite lt_succ_key. split.
  - intros [H1 [H2|H2]]; [destruct x; discriminate|]. apply lex_le_antisym; auto.
  - intros ->. split; [apply lex_le_refl|right; apply lex_le_refl].
Qed.

(* ------------------------------------------------------------------ *)
(* 1d. validation                                                      *)
(* ------------------------------------------------------------------ *)
Lemma bound_nonempty_spec b k : bound_nonempty b = Some k <-> bound_key b = Some k /\ k <> [].
Proof.
  destruct b as [|x|x]; cbn.
  - split; [discriminate|intros [H _]; discriminate].
  - destruct x; split; try discriminate.
    + intros [H1 H2]. congruence.
    + intros H. injection H as <-. split; auto. discriminate.
    + intros [H _]. exact H.
  - destruct x; split; try discriminate.
    + intros [H1 H2]. congruence.
    + intros H. injection H as <-. split; auto. discriminate.
    + intros [H _]. exact H.
Qed.

Theorem range_ok_spec : forall rr, range_ok rr = false <-> range_inverted rr.
Proof.
  intros rr. unfold range_ok, range_inverted. split.
  - destruct (bound_nonempty (rr_start rr)) as [s|] eqn:Es; [|discriminate].
    destruct (bound_nonempty (rr_end rr)) as [e|] eqn:Ee; [|discriminate].
    intros H. apply negb_false_iff in H. unfold lex_gtb in H. apply lex_ltb_iff in H.
    apply bound_nonempty_spec in Es. apply bound_nonempty_spec in Ee.
    exists s, e. tauto.
  - intros [s [e [Hs [He [Hs0 [He0 Hlt]]]]]].
    assert (Es : bound_nonempty (rr_start rr) = Some s) by (apply bound_nonempty_spec; auto).
    assert (Ee : bound_nonempty (rr_end rr) = Some e) by (apply bound_nonempty_spec; auto).
    rewrite Es, Ee. apply negb_false_iff. unfold lex_gtb. apply lex_ltb_iff. exact Hlt.
Qed.

(* ------------------------------------------------------------------ *)
(* 1b. the scanned ranges cover exactly the requested keys             *)
(* ------------------------------------------------------------------ *)
Lemma in_any_app l1 l2 k : in_any (l1 ++ l2) k <-> in_any l1 k \/ in_any l2 k.
Proof.
  unfold in_any. split.
  - intros [r [Hr H]]. apply in_app_or in Hr. destruct Hr; [left|right]; exists r; auto.
  - intros [[r [Hr H]]|[r [Hr H]]]; exists r; split; auto; apply in_or_app; auto.
Qed.

Lemma in_any_keys keys k : in_any (map key_range keys) k <-> In k keys.
Proof.
  unfold in_any. split.
  - intros [r [Hr H]]. apply in_map_iff in Hr. destruct Hr as [x [<- Hx]]. apply key_range_spec in H. subst. auto.
  - intros H. exists (key_range k). split; [apply in_map; auto|apply key_range_spec; auto].
Qed.

Lemma in_any_ranges ranges k : k <> [] ->
  (in_any (map encode_range ranges) k <-> exists rr, In rr ranges /\ in_row_range rr k).
Proof.
  intros Hk. unfold in_any. split.
  - intros [r [Hr H]]. apply in_map_iff in Hr. destruct Hr as [rr [<- Hrr]]. exists rr. split; auto.
    apply encode_range_spec; auto.
  - intros [rr [Hrr H]]. exists (encode_range rr). split; [apply in_map; auto|]. apply encode_range_spec; auto.
Qed.

Lemma in_any_whole k : in_any [ {| rs := []; re := [] |} ] k.
Proof. exists {| rs := []; re := [] |}. split; [left; auto|]. split; cbn; auto. apply lex_le_nil. Qed.

(* the union of the scanned ranges, unguarded, in the code's own terms *)
Lemma scan_ranges_any keys ranges k :
  in_any (scan_ranges keys ranges) k <->
  (keys = [] /\ ranges = []) \/ In k keys \/ in_any (map encode_range ranges) k.
Proof.
  unfold scan_ranges. destruct keys as [|x keys].
  - destruct ranges as [|rr ranges].
    + split; [auto|]. intros _. apply in_any_whole.
    + rewrite merge_union, in_any_app, in_any_keys. split; [auto|]. intros [[_ H]|H]; [discriminate|auto].
  - rewrite merge_union, in_any_app, in_any_keys. split; [auto|]. intros [[H _]|H]; [discriminate|auto].
Qed.

(* all keys and ranges, every non-empty key *)
Theorem scan_ranges_union : forall keys ranges k, k <> [] ->
  (in_any (scan_ranges keys ranges) k <-> requested keys ranges k).
Proof.
  intros keys ranges k Hk. rewrite scan_ranges_any. unfold requested, in_rowset.
  rewrite (in_any_ranges ranges k Hk). tauto.
Qed.

(* ------------------------------------------------------------------ *)
(* 1c. the merged ranges are sorted and pairwise separated             *)
(* ------------------------------------------------------------------ *)
(* a lies entirely below b, with a gap: a has an end and it is strictly below b's start *)
Definition range_sep (a b : srange) : Prop := re a <> [] /\ lex_lt (re a) (rs b).

Lemma merge2_none a b : merge2 a b = None -> range_sep a b.
Proof.
  unfold merge2, range_sep. destruct (re a) as [|x xs]; cbn [is_nil negb andb]; [discriminate|].
  destruct (lex_cmp (x :: xs) (rs b)) eqn:E; try discriminate. intros _. split; [discriminate|exact E].
Qed.

Lemma coalesce_sep rest : forall a, StronglySorted start_le (a :: rest) ->
  StronglySorted range_sep (coalesce a rest) /\ Forall (start_le a) (coalesce a rest).
Proof.
  induction rest as [|b rest IH]; intros a Hs; cbn [coalesce].
  - split; repeat constructor. apply lex_le_refl.
  - inversion Hs as [|? ? Hs' Hall]; subst. inversion Hall as [|? ? Hab Hall']; subst.
    destruct (merge2 a b) as [m|] eqn:Hm.
    + assert (Hsm : StronglySorted start_le (m :: rest)).
      { constructor. { inversion Hs'; auto. }
        unfold start_le in *. rewrite (merge2_start _ _ _ Hm). exact Hall'. }
      destruct (IH m Hsm) as [H1 H2]. split; auto.
      unfold start_le in *. rewrite (merge2_start _ _ _ Hm) in H2. exact H2.
    + destruct (IH b Hs') as [H1 H2]. apply merge2_none in Hm. destruct Hm as [Hne Hlt]. split.
      * constructor; auto. rewrite Forall_forall in *. intros c Hc. split; auto.
        apply lex_lt_le_trans with (rs b); [exact Hlt|apply H2; exact Hc].
      * constructor. { apply lex_le_refl. }
        rewrite Forall_forall in *. intros c Hc. apply start_le_trans with b; [exact Hab|apply H2; exact Hc].
Qed.

(* pairwise form: every range lies strictly below every later one *)
Theorem merge_sorted_disjoint_strong : forall l, StronglySorted range_sep (merge_simple_ranges l).
Proof.
  intros l. unfold merge_simple_ranges. pose proof (isort_sorted l) as Hs.
  destruct (isort l) as [|a rest]; [constructor|]. apply coalesce_sep; auto.
Qed.

Theorem merge_sorted_by_start : forall l, StronglySorted start_le (merge_simple_ranges l).
Proof.
  intros l. unfold merge_simple_ranges. pose proof (isort_sorted l) as Hs.
  destruct (isort l) as [|a rest]; [constructor|].
  assert (G : forall rest a, StronglySorted start_le (a :: rest) -> StronglySorted start_le (coalesce a rest)
                             /\ Forall (start_le a) (coalesce a rest)).
  { clear. induction rest as [|b rest IH]; intros a Hs; cbn [coalesce].
    - split; repeat constructor. apply lex_le_refl.
    - inversion Hs as [|? ? Hs' Hall]; subst. inversion Hall as [|? ? Hab Hall']; subst.
      destruct (merge2 a b) as [m|] eqn:Hm.
      + assert (Hsm : StronglySorted start_le (m :: rest)).
        { constructor. { inversion Hs'; auto. }
          unfold start_le in *. rewrite (merge2_start _ _ _ Hm). exact Hall'. }
        destruct (IH m Hsm) as [H1 H2]. split; auto.
        unfold start_le in *. rewrite (merge2_start _ _ _ Hm) in H2. exact H2.
      + destruct (IH b Hs') as [H1 H2]. split.
        * constructor; auto. rewrite Forall_forall in *. intros c Hc. apply start_le_trans with b; [exact Hab|apply H2; exact Hc].
        * constructor. { apply lex_le_refl. }
          rewrite Forall_forall in *. intros c Hc. apply start_le_trans with b; [exact Hab|apply H2; exact Hc]. }
  apply G; auto.
Qed.

(* consecutive form, as in the task statement *)
Theorem merge_sorted_disjoint : forall l pre a b post,
  merge_simple_ranges l = pre ++ a :: b :: post -> re a <> [] /\ lex_lt (re a) (rs b).
Proof.
  intros l pre a b post E. pose proof (merge_sorted_disjoint_strong l) as H. rewrite E in H. clear E.
  induction pre as [|p pre IH]; cbn in H.
  - inversion H as [|? ? _ Hall]; subst. inversion Hall; subst. assumption.
  - inversion H; subst. auto.
Qed.

(* consequence: no key lies in two output ranges, and keys of an earlier range are below keys of a later one *)
Lemma range_sep_keys a b k1 k2 : range_sep a b -> in_srange a k1 -> in_srange b k2 -> lex_lt k1 k2.
Proof.
  intros [Hne Hlt] [_ [H1|H1]] [H2 _]; [contradiction|].
  eapply lex_lt_le_trans; [|exact H2]. eapply lex_lt_trans; eauto.
Qed.

Theorem merge_no_overlap : forall l pre a mid b post k,
  merge_simple_ranges l = pre ++ a :: mid ++ b :: post -> in_srange a k -> ~ in_srange b k.
Proof.
  intros l pre a mid b post k E Ha Hb. pose proof (merge_sorted_disjoint_strong l) as H. rewrite E in H. clear E.
  induction pre as [|p pre IH]; cbn in H.
  - inversion H as [|? ? _ Hall]; subst. rewrite Forall_forall in Hall.
    assert (Hs : range_sep a b) by (apply Hall; apply in_or_app; right; left; auto).
    apply (lex_lt_irrefl k). eapply range_sep_keys; eauto.
  - inversion H; subst. auto.
Qed.

(* ------------------------------------------------------------------ *)
(* 1e. the scan                                                        *)
(* ------------------------------------------------------------------ *)
Local Open Scope Z_scope.

(* what the scan does with ONE stored row (any filter): the row it emits, if any, and the
   coins left.  Emitted iff the row has cells, the filter matches, and the scrubbed filter
   result is not empty. *)
Definition visit (t : table) (f : option rfilter) (k : bytes) (fs : list family) (coins : list bool)
  : option row * list bool :=
  match fs with
  | [] => (None, coins)
  | _ => let '(m, fs', coins') := match f with
                                  | Some flt => feval k flt fs coins
                                  | None => (true, fs, coins)
                                  end in
         if negb m then (None, coins')
         else let out := scrub_fams (t_fams t) fs' in
              match out with [] => (None, coins') | _ => (Some (mkRow k out), coins') end
  end.

(* one pass over a list of rows, coins threaded in list order *)
Fixpoint visit_all (t : table) (f : option rfilter) (rows : list (bytes * list family)) (coins : list bool)
  : list row * list bool :=
  match rows with
  | [] => ([], coins)
  | (k, fs) :: rest =>
      let '(o, c1) := visit t f k fs coins in
      let '(out, c2) := visit_all t f rest c1 in
      (match o with Some r => r :: out | None => out end, c2)
  end.

Lemma scan_rows_step t f limit k fs rest count coins acc :
  scan_rows t f limit ((k, fs) :: rest) count coins acc =
  if (0 <? limit) && (limit <=? count) then (count, coins, acc, true)
  else match visit t f k fs coins with
       | (Some r, c1) => scan_rows t f limit rest (count + 1) c1 (r :: acc)
       | (None, c1) => scan_rows t f limit rest count c1 acc
       end.
Proof.
  cbn [scan_rows]. destruct ((0 <? limit) && (limit <=? count)); [reflexivity|].
  unfold visit. destruct fs as [|fm fs0]; [reflexivity|].
  destruct (match f with Some flt => feval k flt (fm :: fs0) coins | None => (true, fm :: fs0, coins) end) as [[m fs'] c'].
  destruct m; cbn [negb]; [|reflexivity].
  destruct (scrub_fams (t_fams t) fs'); reflexivity.
Qed.

Lemma visit_all_cons t f k fs rest coins :
  visit_all t f ((k, fs) :: rest) coins =
  (match fst (visit t f k fs coins) with
   | Some r => r :: fst (visit_all t f rest (snd (visit t f k fs coins)))
   | None => fst (visit_all t f rest (snd (visit t f k fs coins)))
   end, snd (visit_all t f rest (snd (visit t f k fs coins)))).
Proof.
  cbn [visit_all]. destruct (visit t f k fs coins) as [o c1]. cbn [fst snd].
  destruct (visit_all t f rest c1) as [out c2]. reflexivity.
Qed.

Lemma visit_all_app t f l1 : forall l2 coins,
  visit_all t f (l1 ++ l2) coins =
  (fst (visit_all t f l1 coins) ++ fst (visit_all t f l2 (snd (visit_all t f l1 coins))),
   snd (visit_all t f l2 (snd (visit_all t f l1 coins)))).
Proof.
  induction l1 as [|[k fs] l1 IH]; intros l2 coins.
  - cbn. destruct (visit_all t f l2 coins); reflexivity.
  - rewrite <- app_comm_cons. rewrite !visit_all_cons. rewrite IH. cbn [fst snd].
    destruct (fst (visit t f k fs coins)); reflexivity.
Qed.

(* no limit: the scan of a row list is one [visit_all] pass *)
Lemma scan_rows_nolimit t f limit : limit <= 0 -> forall rows count coins acc,
  scan_rows t f limit rows count coins acc =
  (count + Z.of_nat (length (fst (visit_all t f rows coins))), snd (visit_all t f rows coins),
   rev (fst (visit_all t f rows coins)) ++ acc, false).
Proof.
  intros Hl. induction rows as [|[k fs] rest IH]; intros count coins acc.
  - cbn. f_equal. f_equal. f_equal. lia.
  - rewrite scan_rows_step. assert (E : 0 <? limit = false) by lia. rewrite E. cbn [andb].
    rewrite visit_all_cons. destruct (visit t f k fs coins) as [[r|] c1]; cbn [fst snd].
    + rewrite IH. cbn [length rev]. rewrite <- app_assoc. cbn [app]. f_equal. f_equal. f_equal. lia.
    + rewrite IH. reflexivity.
Qed.

(* with a limit: the scan takes a prefix of the [visit_all] pass; the coins agree as long as
   the limit has not been reached *)
Lemma scan_rows_limit t f limit : 0 < limit -> forall rows count coins acc,
  exists c' stop,
    scan_rows t f limit rows count coins acc =
    (count + Z.of_nat (length (firstn (Z.to_nat (limit - count)) (fst (visit_all t f rows coins)))), c',
     rev (firstn (Z.to_nat (limit - count)) (fst (visit_all t f rows coins))) ++ acc, stop)
    /\ (count + Z.of_nat (length (firstn (Z.to_nat (limit - count)) (fst (visit_all t f rows coins)))) < limit ->
        c' = snd (visit_all t f rows coins)).
Proof.
  intros Hl. induction rows as [|[k fs] rest IH]; intros count coins acc.
  - exists coins, false. cbn [scan_rows visit_all fst snd]. rewrite firstn_nil. cbn [length rev app]. split; auto.
    f_equal. f_equal. f_equal. lia.
  - rewrite scan_rows_step. assert (E : 0 <? limit = true) by lia. rewrite E. cbn [andb].
    destruct (limit <=? count) eqn:Ec.
    + exists coins, true. assert (E0 : Z.to_nat (limit - count) = O) by lia. rewrite E0. cbn [firstn length rev app].
      split; [f_equal; f_equal; f_equal; lia|]. intros H. lia.
    + rewrite visit_all_cons. destruct (visit t f k fs coins) as [[r|] c1]; cbn [fst snd].
      * destruct (IH (count + 1) c1 (r :: acc)) as [c' [stop [H1 H2]]]. exists c', stop.
        assert (En : Z.to_nat (limit - count) = S (Z.to_nat (limit - (count + 1)))) by lia.
        rewrite En. cbn [firstn length rev]. rewrite H1. split.
        -- rewrite <- app_assoc. cbn [app]. f_equal. f_equal. f_equal. lia.
        -- intros H. apply H2. lia.
      * apply IH.
Qed.

(* the rows the scan walks: per range, the stored rows whose key is inside, in stored order *)
Definition ranges_rows (t : table) (srs : list srange) : list (bytes * list family) :=
  flat_map (fun sr => filter (fun p => in_srange_b sr (fst p)) (t_rows t)) srs.

Lemma scan_all_nolimit t f limit : limit <= 0 -> forall srs count coins acc,
  scan_all t f limit srs count coins acc = rev acc ++ fst (visit_all t f (ranges_rows t srs) coins).
Proof.
  intros Hl. induction srs as [|sr rest IH]; intros count coins acc.
  - cbn. rewrite app_nil_r. reflexivity.
  - cbn [scan_all]. rewrite (scan_rows_nolimit t f limit Hl). rewrite IH.
    cbn [ranges_rows flat_map]. rewrite visit_all_app. cbn [fst]. rewrite rev_app_distr, rev_involutive.
    rewrite <- app_assoc. reflexivity.
Qed.

Lemma scan_all_limit t f limit : 0 < limit -> forall srs count coins acc,
  scan_all t f limit srs count coins acc =
  rev acc ++ firstn (Z.to_nat (limit - count)) (fst (visit_all t f (ranges_rows t srs) coins)).
Proof.
  intros Hl. induction srs as [|sr rest IH]; intros count coins acc.
  - cbn. rewrite firstn_nil, app_nil_r. reflexivity.
  - cbn [scan_all].
    set (rows := filter (fun p => in_srange_b sr (fst p)) (t_rows t)).
    destruct (scan_rows_limit t f limit Hl rows count coins acc) as [c' [stop [H1 H2]]].
    rewrite H1. rewrite IH. clear H1.
    cbn [ranges_rows flat_map]. fold rows. fold (ranges_rows t rest). rewrite visit_all_app. cbn [fst].
    set (o1 := fst (visit_all t f rows coins)) in *. set (c1 := snd (visit_all t f rows coins)) in *.
    set (n := Z.to_nat (limit - count)) in *.
    rewrite rev_app_distr, rev_involutive, <- app_assoc. f_equal.
    rewrite firstn_app. f_equal.
    pose proof (firstn_length n o1) as Hlen.
    destruct (Z.ltb_spec (count + Z.of_nat (length (firstn n o1))) limit) as [Hlt|Hge].
    + rewrite (H2 Hlt). f_equal. lia.
    + assert (E1 : Z.to_nat (limit - (count + Z.of_nat (length (firstn n o1)))) = O) by lia.
      assert (E2 : (n - length o1)%nat = O) by lia.
      rewrite E1, E2. reflexivity.
Qed.

Definition limit_cut {A} (limit : Z) (l : list A) : list A :=
  if 0 <? limit then firstn (Z.to_nat limit) l else l.

(* ReadRows = one coin-threaded pass over the rows of the ranges, cut at the limit (any filter,
   any range list) *)
Theorem scan_all_spec : forall t f limit srs coins,
  scan_all t f limit srs 0 coins [] = limit_cut limit (fst (visit_all t f (ranges_rows t srs) coins)).
Proof.
  intros t f limit srs coins. unfold limit_cut. destruct (Z.ltb_spec 0 limit) as [H|H].
  - rewrite scan_all_limit; auto. cbn [rev app]. f_equal. lia.
  - rewrite scan_all_nolimit; auto.
Qed.

(* limit = n > 0 returns the first n rows of the unlimited result (any filter, any ranges, any
   non-positive "no limit" value) *)
Theorem limit_first_n : forall t f limit limit0 srs coins, 0 < limit -> limit0 <= 0 ->
  scan_all t f limit srs 0 coins [] = firstn (Z.to_nat limit) (scan_all t f limit0 srs 0 coins []).
Proof.
  intros t f limit limit0 srs coins H H0. rewrite !scan_all_spec. unfold limit_cut.
  assert (E : 0 <? limit = true) by lia. assert (E0 : 0 <? limit0 = false) by lia. rewrite E, E0. reflexivity.
Qed.

(* --- sorted, separated ranges over a sorted table: the concatenation of the per-range
       sub-lists is the single filtered pass --- *)
Definition in_ranges_b (srs : list srange) (k : bytes) : bool := existsb (fun sr => in_srange_b sr k) srs.

Lemma in_ranges_b_iff srs k : in_ranges_b srs k = true <-> in_any srs k.
Proof.
  unfold in_ranges_b, in_any. rewrite existsb_exists. split; intros [r [H1 H2]]; exists r; split; auto; apply in_srange_b_iff; auto.
Qed.

Lemma asorted_keys_sorted {V} (l : list (bytes * V)) : asorted l -> StronglySorted lex_lt (map fst l).
Proof.
  induction l as [|[k v] l IH]; intros Hs; cbn; [constructor|].
  constructor. { apply IH. eapply asorted_tail; eauto. }
  rewrite Forall_forall. intros k' Hk'. apply in_map_iff in Hk'. destruct Hk' as [[k1 v1] [<- Hin]].
  eapply asorted_head_lt; eauto.
Qed.

Lemma keys_sorted_asorted {V} (l : list (bytes * V)) : StronglySorted lex_lt (map fst l) -> asorted l.
Proof.
  induction l as [|[k v] l IH]; intros Hs; [constructor|]. cbn in Hs. inversion Hs as [|? ? Hs' Hall]; subst.
  apply asorted_cons_intro; auto. intros k' v' Hin. rewrite Forall_forall in Hall. apply Hall.
  apply in_map_iff. exists (k', v'). auto.
Qed.

Lemma filter_split_sorted {V} (p q : bytes -> bool) (l : list (bytes * V)) :
  StronglySorted lex_lt (map fst l) ->
  (forall x y, p x = true -> q y = true -> lex_lt x y) ->
  filter (fun kv => p (fst kv) || q (fst kv)) l = filter (fun kv => p (fst kv)) l ++ filter (fun kv => q (fst kv)) l.
Proof.
  intros Hs Hpq. induction l as [|[k v] l IH]; [reflexivity|].
  cbn in Hs. inversion Hs as [|? ? Hs' Hall]; subst. cbn [filter fst].
  destruct (p k) eqn:Ep; cbn [orb].
  - assert (Eq : q k = false).
    { destruct (q k) eqn:Eq; auto. exfalso. apply (lex_lt_irrefl k). apply Hpq; auto. }
    rewrite Eq. rewrite IH; auto.
  - destruct (q k) eqn:Eq.
    + assert (Hnp : forall kv, In kv l -> p (fst kv) = false).
      { intros kv Hin. destruct (p (fst kv)) eqn:Epk; auto. exfalso.
        rewrite Forall_forall in Hall. assert (H1 : lex_lt k (fst kv)) by (apply Hall; apply in_map; auto).
        assert (H2 : lex_lt (fst kv) k) by (apply Hpq; auto).
        apply (lex_lt_irrefl k). eapply lex_lt_trans; eauto. }
      assert (E1 : filter (fun kv => p (fst kv)) l = []).
      { clear - Hnp. induction l as [|x l IH]; auto. cbn. rewrite Hnp by (left; auto). apply IH. intros kv H. apply Hnp. right; auto. }
      rewrite E1. cbn [app]. f_equal. apply filter_ext_in. intros kv Hin. rewrite (Hnp kv Hin). reflexivity.
    + apply IH; auto.
Qed.

Lemma ranges_rows_filter t srs :
  asorted (t_rows t) -> StronglySorted range_sep srs ->
  ranges_rows t srs = filter (fun p => in_ranges_b srs (fst p)) (t_rows t).
Proof.
  intros Hs Hsep. apply asorted_keys_sorted in Hs. induction srs as [|sr rest IH].
  - cbn. clear Hs. induction (t_rows t) as [|x l IHl]; cbn; auto.
  - inversion Hsep as [|? ? Hsep' Hall]; subst. cbn [ranges_rows flat_map]. fold (ranges_rows t rest). rewrite IH; auto.
    unfold in_ranges_b at 2. cbn [existsb]. fold (in_ranges_b rest).
    symmetry. apply (filter_split_sorted (in_srange_b sr) (in_ranges_b rest)); auto.
    intros x y Hx Hy. apply in_srange_b_iff in Hx. apply in_ranges_b_iff in Hy. destruct Hy as [c [Hc Hy]].
    rewrite Forall_forall in Hall. eapply range_sep_keys; eauto.
Qed.

Lemma scan_ranges_sep keys ranges : StronglySorted range_sep (scan_ranges keys ranges).
Proof.
  unfold scan_ranges. destruct keys; [destruct ranges|]; try apply merge_sorted_disjoint_strong.
  repeat constructor.
Qed.

(* ReadRows for ANY filter and limit over a sorted table: one pass, in key order, over the
   stored rows whose key the scanned ranges cover, coins consumed in that order *)
Theorem scan_exact_filter : forall t f limit keys ranges coins, asorted (t_rows t) ->
  scan_all t f limit (scan_ranges keys ranges) 0 coins [] =
  limit_cut limit (fst (visit_all t f (filter (fun p => in_ranges_b (scan_ranges keys ranges) (fst p)) (t_rows t)) coins)).
Proof.
  intros t f limit keys ranges coins Hs. rewrite scan_all_spec. rewrite ranges_rows_filter; auto. apply scan_ranges_sep.
Qed.

(* --- no filter --- *)
Definition has_output (t : table) (fs : list family) : bool :=
  match scrub_fams (t_fams t) fs with [] => false | _ => true end.
Definition out_row (t : table) (p : bytes * list family) : row := mkRow (fst p) (scrub_fams (t_fams t) (snd p)).

Lemma has_output_iff t fs : has_output t fs = true <-> scrub_fams (t_fams t) fs <> [].
Proof. unfold has_output. destruct (scrub_fams (t_fams t) fs); split; intros H; congruence. Qed.

Lemma visit_all_nofilter t rows : forall coins,
  visit_all t None rows coins = (map (out_row t) (filter (fun p => has_output t (snd p)) rows), coins).
Proof.
  induction rows as [|[k fs] rest IH]; intros coins; [reflexivity|].
  cbn [visit_all filter snd]. unfold visit, has_output at 1.
  destruct fs as [|fm fs0].
  - cbn. rewrite IH. reflexivity.
  - cbn [negb]. destruct (scrub_fams (t_fams t) (fm :: fs0)) eqn:E; rewrite IH; [reflexivity|].
    cbn [map]. unfold out_row at 2. cbn [fst snd]. rewrite E. reflexivity.
Qed.

Lemma sorted_filter_keys {V} (g : bytes * V -> bool) (l : list (bytes * V)) :
  StronglySorted lex_lt (map fst l) -> StronglySorted lex_lt (map fst (filter g l)).
Proof.
  induction l as [|x l IH]; intros Hs; cbn; [constructor|]. cbn in Hs. inversion Hs as [|? ? Hs' Hall]; subst.
  destruct (g x); auto. cbn. constructor; auto. rewrite Forall_forall in *. intros k Hk. apply Hall.
  apply in_map_iff in Hk. destruct Hk as [y [<- Hy]]. apply filter_In in Hy. apply in_map. tauto.
Qed.

Lemma sorted_lt_nodup (l : list bytes) : StronglySorted lex_lt l -> NoDup l.
Proof.
  induction l as [|x l IH]; intros Hs; constructor; inversion Hs as [|? ? Hs' Hall]; subst; auto.
  intros Hin. rewrite Forall_forall in Hall. apply (lex_lt_irrefl x). auto.
Qed.

(* the result as an equation: the stored list, filtered, mapped — nothing else *)
Theorem scan_exact_eq : forall t keys ranges limit coins, asorted (t_rows t) -> limit <= 0 ->
  scan_all t None limit (scan_ranges keys ranges) 0 coins [] =
  map (out_row t) (filter (fun p => has_output t (snd p))
                     (filter (fun p => in_ranges_b (scan_ranges keys ranges) (fst p)) (t_rows t))).
Proof.
  intros t keys ranges limit coins Hs Hl. rewrite scan_exact_filter; auto. rewrite visit_all_nofilter. cbn [fst].
  unfold limit_cut. assert (E : 0 <? limit = false) by lia. rewrite E. reflexivity.
Qed.

(* membership form, in the code's own range terms (no guard on the ranges) *)
Theorem scan_exact_ranges : forall t keys ranges limit coins, asorted (t_rows t) -> limit <= 0 ->
  let res := scan_all t None limit (scan_ranges keys ranges) 0 coins [] in
  (forall r, In r res <->
     exists fs, In (row_key r, fs) (t_rows t) /\ in_any (scan_ranges keys ranges) (row_key r)
                /\ row_fams r = scrub_fams (t_fams t) fs /\ row_fams r <> [])
  /\ StronglySorted lex_lt (map row_key res)
  /\ NoDup (map row_key res).
Proof.
  intros t keys ranges limit coins Hs Hl res.
  assert (Hsorted : StronglySorted lex_lt (map row_key res)).
  { unfold res. rewrite scan_exact_eq; auto. rewrite map_map. cbn [out_row row_key].
    apply sorted_filter_keys. apply sorted_filter_keys. apply asorted_keys_sorted; auto. }
  split; [|split; auto using sorted_lt_nodup].
  intros r. unfold res. rewrite scan_exact_eq; auto. rewrite in_map_iff. split.
  - intros [[k fs] [<- Hin]]. apply filter_In in Hin. destruct Hin as [Hin Ho]. apply filter_In in Hin. destruct Hin as [Hin Hr].
    cbn [fst snd out_row row_key row_fams] in *. exists fs. repeat split; auto.
    + apply in_ranges_b_iff; auto.
    + apply has_output_iff; auto.
  - intros [fs [Hin [Hr [Hf Hne]]]]. exists (row_key r, fs). split.
    + unfold out_row. cbn [fst snd]. rewrite <- Hf. destruct r; reflexivity.
    + apply filter_In. split; [apply filter_In; split; auto|].
      * cbn [fst]. apply in_ranges_b_iff; auto.
      * cbn [snd]. apply has_output_iff. rewrite <- Hf. auto.
Qed.

(* "readrows_exact": against the RowSet meaning, for every RowSet (no guard on the ranges).
   The table carries no row with the empty key (the empty row key is a separate matter: the
   RowSet convention reads an empty bound as unset, so it says nothing about the key []). *)
Theorem scan_exact : forall t keys ranges limit coins,
  asorted (t_rows t) -> Forall (fun p => fst p <> []) (t_rows t) -> limit <= 0 ->
  let res := scan_all t None limit (scan_ranges keys ranges) 0 coins [] in
  (forall r, In r res <->
     exists fs, In (row_key r, fs) (t_rows t) /\ requested keys ranges (row_key r)
                /\ row_fams r = scrub_fams (t_fams t) fs /\ row_fams r <> [])
  /\ StronglySorted lex_lt (map row_key res)
  /\ NoDup (map row_key res).
Proof.
  intros t keys ranges limit coins Hs Hne Hl res.
  destruct (scan_exact_ranges t keys ranges limit coins Hs Hl) as [H1 H2]. fold res in H1, H2. split; auto.
  intros r. rewrite H1. rewrite Forall_forall in Hne.
  split; intros [fs [Hin [Hr Hrest]]]; exists fs; (split; [exact Hin|split; [|exact Hrest]]);
    apply (scan_ranges_union keys ranges (row_key r)); auto; apply (Hne (row_key r, fs)); auto.
Qed.

(* ------------------------------------------------------------------ *)
(* 1f. SampleRowKeys: the relational check                             *)
(* ------------------------------------------------------------------ *)
Inductive subseq {A} : list A -> list A -> Prop :=
| sub_nil l : subseq [] l
| sub_take x l1 l2 : subseq l1 l2 -> subseq (x :: l1) (x :: l2)
| sub_skip x l1 l2 : subseq l1 l2 -> subseq l1 (x :: l2).

(* lo <= x1 <= x2 <= ... *)
Fixpoint nondecr_from (lo : Z) (l : list Z) : Prop :=
  match l with [] => True | x :: r => lo <= x /\ nondecr_from x r end.

(* what a SampleRowKeys answer must look like for a table with these keys *)
Definition sample_spec (keys : list bytes) (obs : list (bytes * Z)) : Prop :=
  subseq (map fst obs) keys /\ nondecr_from 0 (map snd obs)
  /\ match keys with
     | [] => obs = []
     | _ => obs <> [] /\ last (map fst obs) [] = last keys []
     end.

Fixpoint find_key (k : bytes) (keys : list bytes) : option (list bytes) :=
  match keys with
  | [] => None
  | k' :: ks => if beqb k k' then Some ks else find_key k ks
  end.

Lemma sample_find_eq k r off keys :
  (fix find (keys0 : list bytes) : bool :=
     match keys0 with
     | [] => false
     | k' :: ks => if beqb k k' then sample_subseq ks r off else find ks
     end) keys
  = match find_key k keys with Some ks => sample_subseq ks r off | None => false end.
Proof.
  induction keys as [|k' ks IH]; [reflexivity|]. cbn [find_key]. destruct (beqb k k'); auto.
Qed.

Lemma sample_subseq_cons keys k off r lo :
  sample_subseq keys ((k, off) :: r) lo =
  (lo <=? off) && match find_key k keys with Some ks => sample_subseq ks r off | None => false end.
Proof.
  destruct keys as [|k' ks]; [reflexivity|]. rewrite <- sample_find_eq. reflexivity.
Qed.

Lemma subseq_tail {A} (x : A) l1 l2 : subseq (x :: l1) l2 -> subseq l1 l2.
Proof.
  induction l2 as [|y l2 IH]; intros H; inversion H; subst.
  - apply sub_skip. auto.
  - apply sub_skip. auto.
Qed.

Lemma find_key_subseq k l1 keys : subseq (k :: l1) keys -> exists ks, find_key k keys = Some ks /\ subseq l1 ks.
Proof.
  induction keys as [|y keys IH]; intros H; [inversion H|].
  cbn [find_key]. destruct (beqb k y) eqn:E.
  - exists keys. split; auto. inversion H; subst; auto. eapply subseq_tail; eauto.
  - inversion H; subst; auto. rewrite beqb_refl in E. discriminate.
Qed.

Lemma find_key_sound k keys ks : find_key k keys = Some ks -> forall l1, subseq l1 ks -> subseq (k :: l1) keys.
Proof.
  induction keys as [|y keys IH]; cbn [find_key]; [discriminate|].
  destruct (beqb k y) eqn:E; intros H l1 Hs.
  - injection H as <-. apply beqb_eq in E. subst y. apply sub_take. auto.
  - apply sub_skip. apply IH; auto.
Qed.

Lemma sample_subseq_iff obs : forall keys lo,
  sample_subseq keys obs lo = true <-> subseq (map fst obs) keys /\ nondecr_from lo (map snd obs).
Proof.
  induction obs as [|[k off] r IH]; intros keys lo.
  - assert (E : sample_subseq keys [] lo = true) by (destruct keys; reflexivity). rewrite E.
    cbn. split; auto. intros _. split; [constructor|auto].
  - rewrite sample_subseq_cons. cbn [map fst snd nondecr_from]. rewrite andb_true_iff. split.
    + intros [H1 H2]. destruct (find_key k keys) as [ks|] eqn:E; [|discriminate].
      apply IH in H2. destruct H2 as [H2 H3]. split; [|split; [lia|auto]]. eapply find_key_sound; eauto.
    + intros [H1 [H2 H3]]. split; [lia|]. apply find_key_subseq in H1. destruct H1 as [ks [E Hs]]. rewrite E.
      apply IH. auto.
Qed.

Lemma rev_head_last {A} (l : list A) x r d : rev l = x :: r -> last l d = x.
Proof.
  intros H. assert (E : l = rev r ++ [x]). { rewrite <- (rev_involutive l), H. reflexivity. }
  rewrite E. apply last_last.
Qed.
Lemma last_rev_head {A} (l : list A) d : l <> [] -> exists r, rev l = last l d :: r.
Proof.
  intros H. destruct (rev l) as [|x r] eqn:E.
  - exfalso. apply H. rewrite <- (rev_involutive l), E. reflexivity.
  - exists r. f_equal. symmetry. eapply rev_head_last; eauto.
Qed.

(* the check is exactly the relation *)
Theorem sample_ok_iff : forall t obs, sample_ok t obs = true <-> sample_spec (map fst (t_rows t)) obs.
Proof.
  intros t obs. unfold sample_ok, sample_spec. destruct (map fst (t_rows t)) as [|k0 ks] eqn:Ek.
  - destruct obs as [|o obs]; split; auto.
    + intros _. repeat split; constructor.
    + discriminate.
    + intros [_ [_ H]]. discriminate.
  - rewrite andb_true_iff, sample_subseq_iff. set (keys := k0 :: ks) in *.
    assert (Hk : keys <> []) by discriminate.
    destruct (last_rev_head keys [] Hk) as [rk Erk]. rewrite Erk. split.
    + intros [[H1 H2] H3]. split; auto. split; auto.
      destruct (rev obs) as [|[k z] ro] eqn:Ero; [discriminate|]. apply beqb_eq in H3.
      split. { intros ->. discriminate. }
      rewrite <- H3. apply rev_head_last with (r := map fst ro). rewrite <- map_rev, Ero. reflexivity.
    + intros [H1 [H2 [H3 H4]]]. split; auto.
      destruct (last_rev_head obs ([], 0) H3) as [ro Ero]. rewrite Ero.
      destruct (last obs ([], 0)) as [k z] eqn:El. apply beqb_eq. rewrite <- H4.
      symmetry. apply rev_head_last with (r := map fst ro). rewrite <- map_rev, Ero. reflexivity.
Qed.

Lemma subseq_sorted (l1 l2 : list bytes) : subseq l1 l2 -> StronglySorted lex_lt l2 -> StronglySorted lex_lt l1.
Proof.
  intros H. induction H as [l|x l1 l2 H IH|x l1 l2 H IH]; intros Hs.
  - constructor.
  - inversion Hs as [|? ? Hs' Hall]; subst. constructor; auto.
    assert (G : forall a b : list bytes, subseq a b -> forall y, In y a -> In y b).
    { clear. intros a b H. induction H as [l|x l1 l2 H IH|x l1 l2 H IH]; intros y Hy; cbn in *;
        [contradiction|destruct Hy; auto|auto]. }
    rewrite Forall_forall in *. intros y Hy. apply Hall. eapply G; eauto.
  - inversion Hs; subst. auto.
Qed.

(* "sample_keys_ok": an accepted answer is a subsequence of the stored keys (hence strictly
   ascending when the table is), ends with the last stored key, offsets are non-negative and
   non-decreasing *)
Theorem sample_ok_sound : forall t obs, sample_ok t obs = true ->
  subseq (map fst obs) (map fst (t_rows t))
  /\ nondecr_from 0 (map snd obs)
  /\ (t_rows t <> [] -> obs <> [] /\ last (map fst obs) [] = last (map fst (t_rows t)) [])
  /\ (t_rows t = [] -> obs = [])
  /\ (asorted (t_rows t) -> StronglySorted lex_lt (map fst obs)).
Proof.
  intros t obs H. apply sample_ok_iff in H. destruct H as [H1 [H2 H3]]. repeat split; auto.
  - destruct (t_rows t) as [|p l]; [congruence|]. cbn in H3. tauto.
  - destruct (t_rows t) as [|p l]; [congruence|]. cbn in H3. tauto.
  - intros E. rewrite E in H3. exact H3.
  - intros Hs. eapply subseq_sorted; eauto. apply asorted_keys_sorted; auto.
Qed.

(* conversely, the minimal answer passes: just the last key with any non-negative offset *)
Theorem sample_ok_last_only : forall t off, t_rows t <> [] -> 0 <= off ->
  sample_ok t [(last (map fst (t_rows t)) [], off)] = true.
Proof.
  intros t off Hne Hoff. apply sample_ok_iff. unfold sample_spec.
  assert (Hk : map fst (t_rows t) <> []). { destruct (t_rows t); [congruence|discriminate]. }
  set (keys := map fst (t_rows t)) in *. cbn [map fst snd nondecr_from last].
  split; [|split; [split; auto|]].
  - assert (G : forall l : list bytes, l <> [] -> subseq [last l []] l).
    { clear. induction l as [|x [|y l] IH]; intros H; [congruence| |].
      - cbn. apply sub_take. constructor.
      - change (last (x :: y :: l) []) with (last (y :: l) []). apply sub_skip. apply IH. discriminate. }
    apply G; auto.
  - destruct keys; [congruence|]. split; [discriminate|reflexivity].
Qed.

(* ------------------------------------------------------------------ *)
(* the ReadRows handler itself                                         *)
(* ------------------------------------------------------------------ *)
Theorem step_readrows : forall s tbl t keys ranges limit now coins,
  alookup tbl s = Some t ->
  step s (mkCall (BReadRows tbl keys ranges None limit) now coins) =
  (s, if forallb range_ok ranges
      then ok (YRows (scan_all t None limit (scan_ranges keys ranges) 0 coins []))
      else fail cInvalidArgument).
Proof.
  intros s tbl t keys ranges limit now coins H. unfold step. cbn [cl_req cl_coins cl_now]. rewrite H.
  destruct (forallb range_ok ranges); reflexivity.
Qed.

(* rejected iff some range is inverted *)
Theorem readrows_rejects_iff : forall ranges,
  forallb range_ok ranges = false <-> exists rr, In rr ranges /\ range_inverted rr.
Proof.
  intros ranges. split.
  - intros H. induction ranges as [|rr l IH]; [discriminate|]. cbn in H. apply andb_false_iff in H. destruct H as [H|H].
    + exists rr. split; [left; auto|apply range_ok_spec; auto].
    + destruct (IH H) as [x [Hx Hi]]. exists x. split; [right; auto|auto].
  - intros [rr [Hin Hi]]. apply range_ok_spec in Hi. destruct (forallb range_ok ranges) eqn:E; auto.
    rewrite forallb_forall in E. rewrite (E rr Hin) in Hi. discriminate.
Qed.

(* ------------------------------------------------------------------ *)
(* C17: the ordered-map laws of the row store (t_rows as a strictly    *)
(* ascending association list) that the handlers rely on               *)
(* ------------------------------------------------------------------ *)
Section OrderedMap.
  Context {V : Type}.
  Implicit Types rows : list (bytes * V).

  (* get after put / delete *)
  Lemma omap_get_put_same k v rows : alookup k (ainsert k v rows) = Some v.
  Proof. apply alookup_ainsert_same. Qed.
  Lemma omap_get_put_other k k' v rows : k' <> k -> alookup k' (ainsert k v rows) = alookup k' rows.
  Proof. apply alookup_ainsert_other. Qed.
  Lemma omap_get_delete_same k rows : asorted rows -> alookup k (aremove k rows) = None.
  Proof. apply alookup_aremove_same. Qed.
  Lemma omap_get_delete_other k k' rows : k' <> k -> alookup k' (aremove k rows) = alookup k' rows.
  Proof. apply alookup_aremove_other. Qed.
  Lemma omap_put_sorted k v rows : asorted rows -> asorted (ainsert k v rows).
  Proof. apply ainsert_sorted. Qed.
  Lemma omap_delete_sorted k rows : asorted rows -> asorted (aremove k rows).
  Proof. apply aremove_sorted. Qed.

  (* full iteration: strictly ascending keys, hence no key twice *)
  Lemma omap_iter_order rows : asorted rows -> StronglySorted lex_lt (map fst rows) /\ NoDup (map fst rows).
  Proof. intros H. split; [apply asorted_keys_sorted; auto|apply sorted_lt_nodup, asorted_keys_sorted; auto]. Qed.

  Lemma asorted_head_absent k v rows : asorted ((k, v) :: rows) -> alookup k rows = None.
  Proof.
    intros H. destruct rows as [|[k' v'] r]; [reflexivity|]. inversion H; subst. apply asorted_lookup_lt; auto.
  Qed.

  (* the list is determined by the map it represents: two sorted stores with the same lookups
     iterate identically (nothing of the insertion history is observable) *)
  Lemma omap_ext rows1 : forall rows2, asorted rows1 -> asorted rows2 ->
    (forall k, alookup k rows1 = alookup k rows2) -> rows1 = rows2.
  Proof.
    induction rows1 as [|[k1 v1] r1 IH]; intros [|[k2 v2] r2] H1 H2 Hl.
    - reflexivity.
    - specialize (Hl k2). cbn in Hl. rewrite beqb_refl in Hl. discriminate.
    - specialize (Hl k1). cbn in Hl. rewrite beqb_refl in Hl. discriminate.
    - assert (Ek : k1 = k2).
      { destruct (lex_cmp k1 k2) eqn:E.
        - apply lex_eq; auto.
        - pose proof (Hl k1) as H. rewrite (asorted_lookup_lt k2 v2 r2 k1 H2 E) in H. cbn in H. rewrite beqb_refl in H. discriminate.
        - assert (E' : lex_lt k2 k1) by (unfold lex_lt; rewrite (lex_antisym k1 k2), E; reflexivity).
          pose proof (Hl k2) as H. rewrite (asorted_lookup_lt k1 v1 r1 k2 H1 E') in H. cbn in H. rewrite beqb_refl in H. discriminate. }
      subst k2. assert (Ev : v1 = v2).
      { pose proof (Hl k1) as H. cbn in H. rewrite beqb_refl in H. congruence. }
      subst v2. f_equal. apply IH; eauto using asorted_tail. intros k. destruct (beqb k k1) eqn:E.
      + apply beqb_eq in E. subst k. rewrite (asorted_head_absent _ _ _ H1), (asorted_head_absent _ _ _ H2). reflexivity.
      + specialize (Hl k). cbn in Hl. rewrite E in Hl. exact Hl.
  Qed.

  Lemma filter_subseq (g : bytes * V -> bool) rows : subseq (filter g rows) rows.
  Proof. induction rows as [|x l IH]; cbn; [constructor|]. destruct (g x); constructor; auto. Qed.

  (* range iteration (what scan_all does per range): an ascending sub-list holding exactly the
     entries whose key is in the range *)
  Lemma omap_range_iter sr rows : asorted rows ->
    let it := filter (fun p => in_srange_b sr (fst p)) rows in
    asorted it /\ subseq it rows /\ forall kv, In kv it <-> In kv rows /\ in_srange sr (fst kv).
  Proof.
    intros H it. split; [|split].
    - apply keys_sorted_asorted. apply sorted_filter_keys. apply asorted_keys_sorted. auto.
    - apply filter_subseq.
    - intros kv. unfold it. rewrite filter_In, in_srange_b_iff. tauto.
  Qed.
End OrderedMap.

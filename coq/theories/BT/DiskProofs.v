(* C08: the on-disk engine (BT/Disk.v): what a restart serves, at request boundaries and at the
   instrumented crash points, for every program and every number of crash/restart cycles. *)
From Coq Require Import List NArith ZArith Bool Lia.
Import ListNotations.
From Emu.Common Require Import Bytes Str StrProofs.
From Emu.BT Require Import Types Mutate Filter Gc RowSet Server ScanProofs AdminProofs ConcProofs Disk DiskCheck.
From Emu.BT Require Import CellSpec CellProofs MutateProofs.

(* ------------------------------------------------------------------ *)
(* observational equality of servers                                   *)
(* ------------------------------------------------------------------ *)
(* same table names, and under each name the same families (with GC rules) and the same rows *)
Definition srv_eq (s1 s2 : server) : Prop := forall n, alookup n s1 = alookup n s2.

Lemma srv_eq_refl s : srv_eq s s.
Proof. intros n. reflexivity. Qed.
Lemma srv_eq_sym s1 s2 : srv_eq s1 s2 -> srv_eq s2 s1.
Proof. intros H n. symmetry. apply H. Qed.
Lemma srv_eq_trans s1 s2 s3 : srv_eq s1 s2 -> srv_eq s2 s3 -> srv_eq s1 s3.
Proof. intros H1 H2 n. rewrite H1. apply H2. Qed.

(* on sorted servers (all the model ever builds) it is equality of the lists *)
Lemma srv_eq_sorted_eq s1 s2 : asorted s1 -> asorted s2 -> srv_eq s1 s2 -> s1 = s2.
Proof. intros H1 H2 H. apply omap_ext; auto. Qed.

(* ------------------------------------------------------------------ *)
(* association-list helpers                                            *)
(* ------------------------------------------------------------------ *)
Lemma alookup_ainsert {V} k k' (v : V) l :
  alookup k' (ainsert k v l) = if beqb k' k then Some v else alookup k' l.
Proof.
  destruct (beqb k' k) eqn:E.
  - apply beqb_eq in E. subst. apply alookup_ainsert_same.
  - apply beqb_neq in E. apply alookup_ainsert_other. auto.
Qed.

Lemma alookup_aremove {V} k k' (l : list (bytes * V)) : asorted l ->
  alookup k' (aremove k l) = if beqb k' k then None else alookup k' l.
Proof.
  intros Hs. destruct (beqb k' k) eqn:E.
  - apply beqb_eq in E. subst. apply alookup_aremove_same. auto.
  - apply beqb_neq in E. apply alookup_aremove_other. auto.
Qed.

(* a map that keeps the keys: lookups, order *)
Lemma alookup_map_key {V W} (G : bytes -> V -> W) (l : list (bytes * V)) n :
  alookup n (map (fun p => (fst p, G (fst p) (snd p))) l) = option_map (G n) (alookup n l).
Proof.
  induction l as [|[k v] r IH]; cbn; auto. destruct (beqb n k) eqn:E; auto.
  apply beqb_eq in E. subst. reflexivity.
Qed.

Lemma asorted_map_key {V W} (G : bytes -> V -> W) (l : list (bytes * V)) :
  asorted l -> asorted (map (fun p => (fst p, G (fst p) (snd p))) l).
Proof.
  induction l as [|[k v] r IH]; intros H; cbn; [constructor|].
  destruct r as [|[k1 v1] r']; cbn in *; [constructor|]. inversion H; subst. constructor; auto.
Qed.

Lemma alookup_fold_ainsert {V W} (f : V -> W) (l : list (bytes * V)) : NoDup (map fst l) -> forall acc n,
  alookup n (fold_left (fun acc p => ainsert (fst p) (f (snd p)) acc) l acc)
  = match alookup n l with Some v => Some (f v) | None => alookup n acc end.
Proof.
  induction l as [|[k v] r IH]; intros Hnd acc n; cbn [fold_left alookup fst snd]; auto.
  inversion Hnd as [|? ? Hni Hnd']; subst. rewrite IH; auto. destruct (beqb n k) eqn:E.
  - apply beqb_eq in E. subst. rewrite (alookup_none_notin k r Hni). apply alookup_ainsert_same.
  - destruct (alookup n r); auto. apply beqb_neq in E. apply alookup_ainsert_other. auto.
Qed.

Lemma fold_ainsert_sorted {V W} (f : V -> W) (l : list (bytes * V)) : forall acc, asorted acc ->
  asorted (fold_left (fun acc p => ainsert (fst p) (f (snd p)) acc) l acc).
Proof. induction l as [|p r IH]; intros acc H; cbn; auto. apply IH. apply ainsert_sorted. auto. Qed.

Lemma alookup_filter_keys {V} (q : bytes -> bool) (l : list (bytes * V)) k :
  alookup k (filter (fun p => q (fst p)) l) = if q k then alookup k l else None.
Proof.
  induction l as [|[k0 v0] r IH]; cbn [filter alookup fst]; [destruct (q k); auto|].
  destruct (q k0) eqn:Eq0; cbn [alookup]; destruct (beqb k k0) eqn:E; auto.
  - apply beqb_eq in E. subst. rewrite Eq0. reflexivity.
  - apply beqb_eq in E. subst. rewrite Eq0 in IH. rewrite Eq0. exact IH.
Qed.

Lemma filter_sorted {V} (q : bytes * V -> bool) (l : list (bytes * V)) : asorted l -> asorted (filter q l).
Proof.
  induction l as [|[k v] r IH]; intros H; cbn; auto. pose proof (asorted_tail _ _ H) as Ht.
  destruct (q (k, v)); auto. apply asorted_cons_intro; auto.
  intros k' v' Hin. apply filter_In in Hin. destruct Hin as [Hin _]. eapply asorted_head_lt; eauto.
Qed.

(* ------------------------------------------------------------------ *)
(* what a restart serves, name by name                                 *)
(* ------------------------------------------------------------------ *)
Definition dir_rows (im : image) (n : bytes) : rows_t :=
  match alookup n (im_dirs im) with Some r => r | None => [] end.

Lemma alookup_restart im n :
  alookup n (restart im) = option_map (fun f => mkTable f (dir_rows im n)) (alookup n (im_meta im)).
Proof. unfold restart. apply (alookup_map_key (fun k f => mkTable f (dir_rows im k))). Qed.

Lemma restart_sorted im : asorted (im_meta im) -> asorted (restart im).
Proof. intros H. unfold restart. apply (asorted_map_key (fun k f => mkTable f (dir_rows im k))). auto. Qed.

(* ------------------------------------------------------------------ *)
(* one request of the disk engine, by cases (the only unfolding of dstep) *)
(* ------------------------------------------------------------------ *)
(* the requests that touch the definition files or remove a directory (all the others, DropRowRange
   with delete-all included, are single atomic leveldb writes: no crash point) *)
Definition disk_special (r : breq) : bool :=
  match r with
  | BCreateTable _ _ _ | BDeleteTable _ | BModifyFamilies _ _ => true
  | _ => false
  end.

Inductive dstep_spec (d : dstate) (c : call) : dstate * bresp * list (bytes * image) -> Prop :=
| DS_fail rsp : disk_special (cl_req c) = true -> br_code rsp <> cOK -> step (ds_mem d) c = (ds_mem d, rsp) ->
    dstep_spec d c (d, rsp, [])
| DS_create parent tid fams rsp : cl_req c = BCreateTable parent tid fams ->
    valid_tid tid = true -> valid_parent parent = true ->
    let name := table_name parent tid in let tf := make_fams fams in
    alookup name (ds_mem d) = None ->
    step (ds_mem d) c = (set_table (ds_mem d) name (mkTable tf []), rsp) -> br_code rsp = cOK ->
    let im0 := image_of d in
    let imc := set_dir im0 name None in
    let im1 := set_dir imc name (Some []) in
    let im2 := set_meta im1 name tf in
    let im3 := set_dir im2 name None in
    dstep_spec d c (mkDState (set_table (ds_mem d) name (mkTable tf [])) (ainsert name tf (ds_meta d)) (aremove name (ds_orphans d)),
                    rsp, [(s_create_cleaned, imc); (s_meta_tmp, im1); (s_meta_renamed, im2); (s_db_removed, im3)])
| DS_delete name t rsp : cl_req c = BDeleteTable name -> alookup name (ds_mem d) = Some t ->
    step (ds_mem d) c = (aremove name (ds_mem d), rsp) -> br_code rsp = cOK ->
    dstep_spec d c (mkDState (aremove name (ds_mem d)) (aremove name (ds_meta d)) (aremove name (ds_orphans d)), rsp,
                    [(s_delete_undefined, unset_meta (image_of d) name)])
| DS_modify name mods t rsp : cl_req c = BModifyFamilies name mods -> alookup name (ds_mem d) = Some t ->
    let t' := apply_mods t mods in let mem' := set_table (ds_mem d) name t' in
    step (ds_mem d) c = (mem', rsp) -> br_code rsp = cOK ->
    let d1 := mkDState mem' (ds_meta d) (ds_orphans d) in
    dstep_spec d c (mkDState mem' (ainsert name (t_fams t') (ds_meta d)) (ds_orphans d), rsp,
                    [(s_meta_tmp, image_of d1); (s_meta_renamed, set_meta (image_of d1) name (t_fams t'))])
| DS_other : disk_special (cl_req c) = false ->
    dstep_spec d c (mkDState (fst (step (ds_mem d) c)) (ds_meta d) (ds_orphans d), snd (step (ds_mem d) c), []).

Lemma alookup_set_table_same s n t : alookup n (set_table s n t) = Some t.
Proof. apply alookup_ainsert_same. Qed.

Lemma code_dec (rsp : bresp) : {br_code rsp = cOK} + {br_code rsp <> cOK}.
Proof. apply N.eq_dec. Qed.

Lemma dstep_spec_ok d c : dstep_spec d c (dstep d c).
Proof.
  pose proof (failure_atomic (ds_mem d) c) as Hfa.
  destruct c as [r now coins].
  destruct r as [parent tid fams|name|name|parent|name mods|name all prefix|tbl key muts|tbl entries|tbl key pred tm fm
                |tbl key rules|tbl keys ranges f limit|tbl|tbl];
    try (match goal with |- dstep_spec _ ?c _ => pose proof (DS_other d c eq_refl) as G end; unfold dstep; cbn [cl_req] in *;
         destruct (step (ds_mem d) _) as [mem' rsp]; exact G).
  - (* create *)
    unfold dstep. cbn [cl_req]. fold (table_name parent tid).
    destruct (step (ds_mem d) _) as [mem' rsp] eqn:E. cbn [fst snd] in Hfa.
    destruct (N.eqb (br_code rsp) cOK) eqn:Ec.
    + apply N.eqb_eq in Ec. pose proof E as E0.
      assert (Hok : br_code (snd (step (ds_mem d) (mkCall (BCreateTable parent tid fams) now coins))) = cOK)
        by (rewrite E; exact Ec).
      destruct (create_ok_inv _ _ _ _ _ _ Hok) as [Vt [Vp [El E1]]]. rewrite E1 in E. injection E as <- <-.
      rewrite !alookup_set_table_same. cbn [t_fams].
      eapply (DS_create d _ parent tid fams); eauto.
    + apply N.eqb_neq in Ec. rewrite (Hfa Ec) in E. apply DS_fail; auto.
  - (* delete *)
    unfold dstep. cbn [cl_req]. destruct (step (ds_mem d) _) as [mem' rsp] eqn:E. cbn [fst snd] in Hfa.
    destruct (N.eqb (br_code rsp) cOK) eqn:Ec.
    + apply N.eqb_eq in Ec. pose proof E as E0. unfold step in E. cbn [cl_req] in E.
      destruct (alookup name (ds_mem d)) eqn:El.
      * injection E as <- <-. eapply DS_delete; eauto.
      * injection E as <- <-. discriminate.
    + apply N.eqb_neq in Ec. rewrite (Hfa Ec) in E. apply DS_fail; auto.
  - (* modify *)
    unfold dstep. cbn [cl_req]. destruct (step (ds_mem d) _) as [mem' rsp] eqn:E. cbn [fst snd] in Hfa.
    destruct (N.eqb (br_code rsp) cOK) eqn:Ec.
    + apply N.eqb_eq in Ec. pose proof E as E0. unfold step in E. cbn [cl_req] in E.
      destruct (alookup name (ds_mem d)) as [t|] eqn:El.
      * destruct (N.eqb (validate_mods (map fst (t_fams t)) mods) cOK) eqn:Ev.
        -- injection E as <- <-. rewrite !alookup_set_table_same.
           eapply (DS_modify d _ name mods t); eauto.
        -- injection E as <- <-. cbn [fail br_code] in Ec. apply N.eqb_neq in Ev. contradiction.
      * injection E as <- <-. discriminate.
    + apply N.eqb_neq in Ec. rewrite (Hfa Ec) in E. apply DS_fail; auto.
Qed.

Ltac dstep_cases d c :=
  destruct (dstep_spec_ok d c) as [rsp Hsp Hc E|parent tid fams rsp R Vt Vp name tf Hl E Hc im0 imc im1 im2 im3|name t rsp R Hl E Hc
                                  |name mods t rsp R Hl t' mem' E Hc d1|Hsp].

(* ------------------------------------------------------------------ *)
(* requests other than create / delete / modify keep every table's families *)
(* ------------------------------------------------------------------ *)
Lemma mutate_rows_fold_fams now entries : forall (acc : table * list N),
  t_fams (fst (fold_left (fun (acc : table * list N) (e : bytes * list mutation) =>
                         let '(ta, cs) := acc in
                         match apply_mutations (t_fams ta) now (get_row ta (fst e)) (snd e) with
                         | None => (ta, cs ++ [cInternal])
                         | Some fs => (update_row ta (fst e) fs, cs ++ [cOK])
                         end) entries acc)) = t_fams (fst acc).
Proof.
  induction entries as [|e entries IH]; intros [ta cs]; cbn [fold_left]; auto.
  rewrite IH. destruct (apply_mutations (t_fams ta) now (get_row ta (fst e)) (snd e)); cbn [fst]; auto using update_row_fams.
Qed.

Lemma gc_pass_fams t now : t_fams (gc_pass t now) = t_fams t.
Proof.
  unfold gc_pass. destruct (forallb _ (t_fams t)); auto.
  generalize (t_rows t) as l. generalize t as acc. intros acc l. revert acc.
  induction l as [|p l IH]; intros acc; cbn [fold_left]; auto.
  rewrite IH. destruct (alookup (fst p) (t_rows acc)) as [fs0|]; auto.
  destruct (gc_fams (t_fams acc) now fs0) as [changed fs']. destruct changed; auto using update_row_fams.
Qed.

Lemma set_table_keeps_fams s tbl t t' n : alookup tbl s = Some t -> t_fams t' = t_fams t ->
  option_map t_fams (alookup n (set_table s tbl t')) = option_map t_fams (alookup n s).
Proof.
  intros Hl Hf. unfold set_table. rewrite alookup_ainsert. destruct (beqb n tbl) eqn:E; auto.
  apply beqb_eq in E. subst. rewrite Hl. cbn. f_equal. auto.
Qed.

Definition schema_req (r : breq) : bool :=
  match r with BCreateTable _ _ _ | BDeleteTable _ | BModifyFamilies _ _ => true | _ => false end.

Theorem step_keeps_fams : forall s c n, schema_req (cl_req c) = false ->
  option_map t_fams (alookup n (fst (step s c))) = option_map t_fams (alookup n s).
Proof.
  intros s [r now coins] n Hs. cbn [cl_req] in Hs.
  destruct r as [parent tid fams|name|name|parent|name mods|name all prefix|tbl key muts|tbl entries|tbl key pred tm fm
                |tbl key rules|tbl keys ranges f limit|tbl|tbl]; try discriminate; unfold step; cbn [cl_req cl_now cl_coins].
  - destruct (alookup name s); auto.
  - auto.
  - destruct (alookup name s) as [t|] eqn:E; cbn [fst]; auto.
    destruct all; cbn [fst]; [eapply set_table_keeps_fams; eauto|].
    destruct prefix; cbn [fst]; auto. eapply set_table_keeps_fams; eauto.
  - destruct (alookup tbl s) as [t|] eqn:E; cbn [fst]; auto.
    destruct (apply_mutations _ _ _ _); cbn [fst]; auto. eapply set_table_keeps_fams; eauto using update_row_fams.
  - destruct (alookup tbl s) as [t|] eqn:E; cbn [fst]; auto.
    pose proof (mutate_rows_fold_fams now entries (t, [])) as G.
    destruct (fold_left _ entries (t, [])) as [t' codes]. cbn [fst] in *. eapply set_table_keeps_fams; eauto.
  - destruct (alookup tbl s) as [t|] eqn:E; cbn [fst]; auto.
    destruct (match pred with Some p => negb (fvalid p) | None => false end); cbn [fst]; auto.
    destruct (apply_mutations _ _ _ _); cbn [fst]; auto. eapply set_table_keeps_fams; eauto using update_row_fams.
  - destruct (alookup tbl s) as [t|] eqn:E; cbn [fst]; auto.
    destruct (rmw_rules _ _ _ _ _) as [[fs res]|]; cbn [fst]; auto. eapply set_table_keeps_fams; eauto using update_row_fams.
  - destruct (alookup tbl s) as [t|] eqn:E; cbn [fst]; auto.
    destruct (negb (forallb range_ok ranges)); cbn [fst]; auto.
    destruct (match f with Some p => negb (fvalid p) | None => false end); cbn [fst]; auto.
  - destruct (alookup tbl s); auto.
  - destruct (alookup tbl s) as [t|] eqn:E; cbn [fst]; auto. eapply set_table_keeps_fams; eauto using gc_pass_fams.
Qed.

Lemma special_not_schema r : disk_special r = false -> schema_req r = false.
Proof. destruct r; cbn; auto. Qed.

(* ------------------------------------------------------------------ *)
(* 1. the invariant tying the definition files and directories to the running server *)
(* ------------------------------------------------------------------ *)
Record disk_inv (d : dstate) : Prop := mkInv {
  di_mem : server_wf (ds_mem d);
  (* one definition file per live table, holding exactly its families and GC rules *)
  di_meta_sorted : asorted (ds_meta d);
  di_meta : forall n, alookup n (ds_meta d) = option_map t_fams (alookup n (ds_mem d));
  (* directories without a live table: none under a live name *)
  di_orph_sorted : asorted (ds_orphans d);
  di_orph_rows : forall n r, alookup n (ds_orphans d) = Some r -> asorted r;
  di_disjoint : forall n t, alookup n (ds_mem d) = Some t -> alookup n (ds_orphans d) = None }.

(* every orphan directory is empty.  Preserved by requests and by restarts at request boundaries,
   NOT by a restart on the image of DeleteTable's crash point (disk.delete.undefined leaves the
   directory with its rows: [dreach_orphan_with_rows]); no theorem below assumes it *)
Definition orphans_empty (d : dstate) : Prop := forall n r, alookup n (ds_orphans d) = Some r -> r = [].

Lemma init_inv : disk_inv init_dstate.
Proof.
  split; cbn [init_dstate ds_mem ds_meta ds_orphans alookup option_map]; try discriminate; try (constructor; fail); auto.
  split; [constructor|discriminate].
Qed.

Lemma disk_inv_step d c : disk_inv d -> disk_inv (fst (fst (dstep d c))).
Proof.
  intros [Hm Hms Hme Hos Hor Hdj]. pose proof (step_wf (ds_mem d) c Hm) as Hw.
  dstep_cases d c; cbn [fst].
  - split; auto.
  - rewrite E in Hw. cbn [fst] in Hw. split; cbn [ds_mem ds_meta ds_orphans]; auto using ainsert_sorted, aremove_sorted.
    + intros n. unfold set_table. rewrite !alookup_ainsert. destruct (beqb n name); auto.
    + intros n r H. destruct (beqb n name) eqn:En.
      * apply beqb_eq in En. subst. rewrite alookup_aremove_same in H; auto. discriminate.
      * apply beqb_neq in En. rewrite alookup_aremove_other in H; eauto.
    + intros n t. unfold set_table. rewrite alookup_ainsert, alookup_aremove; auto.
      destruct (beqb n name); auto. apply Hdj.
  - rewrite E in Hw. cbn [fst] in Hw. destruct Hm as [Hm1 Hm2].
    split; cbn [ds_mem ds_meta ds_orphans]; auto using aremove_sorted.
    + intros n. rewrite !alookup_aremove; auto. destruct (beqb n name); auto.
    + intros n r H. rewrite alookup_aremove in H; auto. destruct (beqb n name); [discriminate|eauto].
    + intros n t0. rewrite !alookup_aremove; auto. destruct (beqb n name); auto. apply Hdj.
  - rewrite E in Hw. cbn [fst] in Hw. split; cbn [ds_mem ds_meta ds_orphans]; auto using ainsert_sorted.
    + intros n. unfold mem', set_table. rewrite !alookup_ainsert. destruct (beqb n name); auto.
    + intros n t0. unfold mem', set_table. rewrite alookup_ainsert. destruct (beqb n name) eqn:En; [|apply Hdj].
      apply beqb_eq in En. subst. intros _. eauto.
  - pose proof (fun n => step_keeps_fams (ds_mem d) c n (special_not_schema _ Hsp)) as Hk.
    split; cbn [ds_mem ds_meta ds_orphans]; auto.
    + intros n. rewrite Hme. symmetry. apply Hk.
    + intros n t H. specialize (Hk n). rewrite H in Hk. destruct (alookup n (ds_mem d)) eqn:El; [eauto|discriminate].
Qed.

Lemma orphans_empty_step d c : disk_inv d -> orphans_empty d -> orphans_empty (fst (fst (dstep d c))).
Proof.
  intros Hi He. dstep_cases d c; cbn [fst]; auto; intros n r H; cbn [ds_orphans] in H;
    try (rewrite alookup_aremove in H by apply (di_orph_sorted _ Hi); destruct (beqb n _); [discriminate|]); eauto.
Qed.

Theorem disk_inv_run : forall cs d, disk_inv d -> disk_inv (fst (drun d cs)).
Proof.
  induction cs as [|c cs IH]; intros d H; cbn [drun]; auto.
  pose proof (disk_inv_step d c H) as H1. destruct (dstep d c) as [[d1 r] pts]. cbn [fst] in H1.
  specialize (IH d1 H1). destruct (drun d1 cs) as [d2 rs]. exact IH.
Qed.

Corollary disk_inv_reachable : forall cs, disk_inv (fst (drun init_dstate cs)).
Proof. intros cs. apply disk_inv_run, init_inv. Qed.

(* ------------------------------------------------------------------ *)
(* 3. while it runs, the disk engine is unobservable: same states, same answers as [step]/[run] *)
(* ------------------------------------------------------------------ *)
Theorem dstep_mem : forall d c,
  ds_mem (fst (fst (dstep d c))) = fst (step (ds_mem d) c) /\ snd (fst (dstep d c)) = snd (step (ds_mem d) c).
Proof.
  intros d c. dstep_cases d c;
    cbn [fst snd ds_mem]; try rewrite E; auto.
Qed.

Theorem drun_mem : forall cs d,
  ds_mem (fst (drun d cs)) = fst (run (ds_mem d) cs) /\ map fst (snd (drun d cs)) = snd (run (ds_mem d) cs).
Proof.
  induction cs as [|c cs IH]; intros d; cbn [drun run]; auto.
  destruct (dstep_mem d c) as [H1 H2]. destruct (dstep d c) as [[d1 r] pts]. cbn [fst snd] in H1, H2.
  destruct (step (ds_mem d) c) as [s1 r1]. cbn [fst snd] in H1, H2. subst s1 r1.
  destruct (IH d1) as [G1 G2]. destruct (drun d1 cs) as [d2 rs]. destruct (run (ds_mem d1) cs) as [s2 rs2].
  cbn [fst snd map] in *. split; congruence.
Qed.

Corollary mem_is_sequential : forall cs,
  ds_mem (fst (drun init_dstate cs)) = fst (run [] cs) /\ map fst (snd (drun init_dstate cs)) = snd (run [] cs).
Proof. intros cs. apply (drun_mem cs init_dstate). Qed.

(* ------------------------------------------------------------------ *)
(* 2. durability: at a request boundary a restart serves exactly the acknowledged state *)
(* ------------------------------------------------------------------ *)
Lemma alookup_image_dirs d n : disk_inv d ->
  alookup n (im_dirs (image_of d))
  = match alookup n (ds_mem d) with Some t => Some (t_rows t) | None => alookup n (ds_orphans d) end.
Proof.
  intros Hi. unfold image_of. cbn [im_dirs]. apply (alookup_fold_ainsert t_rows).
  apply asorted_nodup_keys. apply (di_mem _ Hi).
Qed.

Theorem restart_image_of : forall d, disk_inv d -> srv_eq (restart (image_of d)) (ds_mem d).
Proof.
  intros d Hi n. rewrite alookup_restart. unfold dir_rows. rewrite alookup_image_dirs by auto.
  cbn [image_of im_meta]. rewrite (di_meta _ Hi). destruct (alookup n (ds_mem d)) as [[tf rows]|]; reflexivity.
Qed.

(* ... as lists, not only as maps *)
Theorem restart_image_of_eq : forall d, disk_inv d -> restart (image_of d) = ds_mem d.
Proof.
  intros d Hi. apply srv_eq_sorted_eq.
  - apply restart_sorted. apply (di_meta_sorted _ Hi).
  - apply (di_mem _ Hi).
  - apply restart_image_of. auto.
Qed.

Theorem durable_after_ack : forall cs,
  srv_eq (restart (image_of (fst (drun init_dstate cs)))) (ds_mem (fst (drun init_dstate cs)))
  /\ restart (image_of (fst (drun init_dstate cs))) = fst (run [] cs).
Proof.
  intros cs. pose proof (disk_inv_reachable cs) as Hi. split; [apply restart_image_of; auto|].
  rewrite restart_image_of_eq by auto. apply mem_is_sequential.
Qed.

(* at every request boundary of a program: every prefix *)
Corollary durable_every_boundary : forall cs k,
  restart (image_of (fst (drun init_dstate (firstn k cs)))) = fst (run [] (firstn k cs)).
Proof. intros cs k. apply durable_after_ack. Qed.

(* ------------------------------------------------------------------ *)
(* 5. restart cycles                                                   *)
(* ------------------------------------------------------------------ *)
(* a well-formed directory image; [image_ok]: moreover every directory without a definition file
   is empty *)
Record image_wf (im : image) : Prop := mkImWf {
  iw_meta : asorted (im_meta im);
  iw_fams : forall n f, alookup n (im_meta im) = Some f -> asorted f;
  iw_dirs : asorted (im_dirs im);
  iw_rows : forall n r, alookup n (im_dirs im) = Some r -> asorted r }.

Definition image_ok (im : image) : Prop :=
  image_wf im /\ forall n r, alookup n (im_meta im) = None -> alookup n (im_dirs im) = Some r -> r = [].

Lemma alookup_image_dirs_gen d n : asorted (ds_mem d) ->
  alookup n (im_dirs (image_of d))
  = match alookup n (ds_mem d) with Some t => Some (t_rows t) | None => alookup n (ds_orphans d) end.
Proof.
  intros Hs. unfold image_of. cbn [im_dirs]. apply (alookup_fold_ainsert t_rows). apply asorted_nodup_keys. auto.
Qed.

(* the image of a state whose definition files may lag behind the server (as inside ModifyFamilies) *)
Lemma image_of_wf_gen d : server_wf (ds_mem d) -> asorted (ds_meta d) ->
  (forall n f, alookup n (ds_meta d) = Some f -> asorted f) ->
  asorted (ds_orphans d) -> (forall n r, alookup n (ds_orphans d) = Some r -> asorted r) ->
  image_wf (image_of d).
Proof.
  intros [Hs Ht] Hm Hf Ho Hr. split; cbn [image_of im_meta]; auto.
  - unfold image_of. cbn [im_dirs]. apply (fold_ainsert_sorted t_rows). auto.
  - intros n r. rewrite alookup_image_dirs_gen by auto. destruct (alookup n (ds_mem d)) as [t|] eqn:E; [|eauto].
    intros H. injection H as <-. apply (Ht n t E).
Qed.

Lemma inv_meta_fams d : disk_inv d -> forall n f, alookup n (ds_meta d) = Some f -> asorted f.
Proof.
  intros Hi n f H. rewrite (di_meta _ Hi) in H. destruct (alookup n (ds_mem d)) as [t|] eqn:E; [|discriminate].
  injection H as <-. destruct (di_mem _ Hi) as [_ Ht]. apply (Ht n t E).
Qed.

Lemma image_of_wf d : disk_inv d -> image_wf (image_of d).
Proof.
  intros Hi. apply image_of_wf_gen; try apply Hi. apply inv_meta_fams. auto.
Qed.

Lemma image_of_ok d : disk_inv d -> orphans_empty d -> image_ok (image_of d).
Proof.
  intros Hi He. split; [apply image_of_wf; auto|]. intros n r Hm. cbn [image_of im_meta] in Hm.
  rewrite (di_meta _ Hi) in Hm. rewrite alookup_image_dirs by auto.
  destruct (alookup n (ds_mem d)); [discriminate|]. apply He.
Qed.

Definition no_def (im : image) (k : bytes) : bool :=
  match alookup k (im_meta im) with Some _ => false | None => true end.

Lemma boot_orphans im : ds_orphans (boot im) = filter (fun p => no_def im (fst p)) (im_dirs im).
Proof. reflexivity. Qed.

(* starting a server on a well-formed image gives a state satisfying the invariant *)
Theorem boot_inv : forall im, image_wf im -> disk_inv (boot im).
Proof.
  intros im [Hm Hf Hd Hr]. split; cbn [boot ds_mem ds_meta]; auto.
  - split; [apply restart_sorted; auto|]. intros n t. rewrite alookup_restart.
    destruct (alookup n (im_meta im)) as [f|] eqn:E; [|discriminate]. cbn [option_map]. intros H. injection H as <-.
    split; cbn [t_rows t_fams]; [|eauto]. unfold dir_rows. destruct (alookup n (im_dirs im)) eqn:E2; [eauto|constructor].
  - intros n. rewrite alookup_restart. destruct (alookup n (im_meta im)); reflexivity.
  - rewrite boot_orphans. apply filter_sorted. auto.
  - intros n r. rewrite boot_orphans, (alookup_filter_keys (no_def im)). destruct (no_def im n); [eauto|discriminate].
  - intros n t. rewrite alookup_restart, boot_orphans, (alookup_filter_keys (no_def im)). unfold no_def.
    destruct (alookup n (im_meta im)); [reflexivity|discriminate].
Qed.

Lemma boot_orphans_empty im : image_ok im -> orphans_empty (boot im).
Proof.
  intros [_ He] n r. rewrite boot_orphans, (alookup_filter_keys (no_def im)). unfold no_def.
  destruct (alookup n (im_meta im)) eqn:E; [discriminate|]. apply He. auto.
Qed.

(* the restarted server serves what [restart] says, and stopping it again leaves an image that
   restarts to the same server: any number of stop/start cycles without requests changes nothing *)
Theorem restart_boot : forall im, image_wf im -> restart (image_of (boot im)) = restart im.
Proof. intros im H. rewrite restart_image_of_eq by (apply boot_inv; auto). reflexivity. Qed.

Definition cycle (im : image) : image := image_of (boot im).

Lemma cycle_wf im : image_wf im -> image_wf (cycle im).
Proof. intros H. apply image_of_wf, boot_inv. auto. Qed.

Theorem restart_cycles : forall k im, image_wf im ->
  image_wf (Nat.iter k cycle im) /\ restart (Nat.iter k cycle im) = restart im.
Proof.
  induction k as [|k IH]; intros im H; cbn [Nat.iter]; auto.
  destruct (IH im H) as [H1 H2]. split; [apply cycle_wf; auto|].
  change (restart (image_of (boot (Nat.iter k cycle im))) = restart im). rewrite restart_boot; auto.
Qed.

Theorem restart_idempotent : forall d, disk_inv d ->
  disk_inv (boot (image_of d))
  /\ ds_mem (boot (image_of d)) = ds_mem d
  /\ restart (image_of (boot (image_of d))) = restart (image_of d)
  /\ forall k, restart (Nat.iter k cycle (image_of d)) = ds_mem d.
Proof.
  intros d Hi. pose proof (image_of_wf d Hi) as Hw. split; [apply boot_inv; auto|].
  split; [apply restart_image_of_eq; auto|]. split; [apply restart_boot; auto|].
  intros k. destruct (restart_cycles k _ Hw) as [_ H]. rewrite H. apply restart_image_of_eq. auto.
Qed.

(* at a request boundary the directory itself is unchanged by a stop/start cycle *)
Theorem cycle_identity : forall d, disk_inv d -> image_of (boot (image_of d)) = image_of d.
Proof.
  intros d Hi. pose proof (image_of_wf d Hi) as Hw. pose proof (boot_inv _ Hw) as Hb.
  assert (Hd : im_dirs (image_of (boot (image_of d))) = im_dirs (image_of d)).
  { apply omap_ext; [apply (iw_dirs _ (image_of_wf _ Hb))|apply (iw_dirs _ Hw)|]. intros n.
    rewrite (alookup_image_dirs (boot (image_of d))) by auto. cbn [boot ds_mem].
    rewrite restart_image_of_eq by auto. rewrite boot_orphans, (alookup_filter_keys (no_def (image_of d))).
    unfold no_def. cbn [image_of im_meta]. rewrite (di_meta _ Hi). rewrite alookup_image_dirs by auto.
    destruct (alookup n (ds_mem d)); reflexivity. }
  unfold image_of in *. cbn [im_dirs boot ds_meta im_meta] in *. rewrite Hd. reflexivity.
Qed.

(* the restarted server continues like the original: same states, same answers, for every program *)
Theorem restarted_continues : forall d cs, disk_inv d ->
  ds_mem (fst (drun (boot (image_of d)) cs)) = ds_mem (fst (drun d cs))
  /\ map fst (snd (drun (boot (image_of d)) cs)) = map fst (snd (drun d cs))
  /\ restart (image_of (fst (drun (boot (image_of d)) cs))) = restart (image_of (fst (drun d cs))).
Proof.
  intros d cs Hi. destruct (restart_idempotent d Hi) as [Hb [Hm _]].
  destruct (drun_mem cs (boot (image_of d))) as [H1 H2]. destruct (drun_mem cs d) as [H3 H4].
  rewrite Hm in H1, H2. split; [congruence|]. split; [congruence|].
  rewrite !restart_image_of_eq by (apply disk_inv_run; auto). congruence.
Qed.

Corollary restarted_continues_srv_eq : forall d cs, disk_inv d ->
  srv_eq (ds_mem (fst (drun (boot (image_of d)) cs))) (ds_mem (fst (drun d cs))).
Proof. intros d cs Hi n. destruct (restarted_continues d cs Hi) as [H _]. rewrite H. reflexivity. Qed.

(* ------------------------------------------------------------------ *)
(* 4. a crash inside a request                                         *)
(* ------------------------------------------------------------------ *)
Lemma alookup_restart_set_meta im name f n :
  alookup n (restart (set_meta im name f))
  = if beqb n name then Some (mkTable f (dir_rows im name)) else alookup n (restart im).
Proof.
  rewrite !alookup_restart. cbn [set_meta im_meta]. rewrite alookup_ainsert. unfold dir_rows. cbn [set_meta im_dirs].
  destruct (beqb n name) eqn:E; auto. apply beqb_eq in E. subst. reflexivity.
Qed.

Lemma alookup_restart_set_dir im name r n : asorted (im_dirs im) ->
  alookup n (restart (set_dir im name r))
  = if beqb n name then option_map (fun f => mkTable f (match r with Some x => x | None => [] end)) (alookup name (im_meta im))
    else alookup n (restart im).
Proof.
  intros Hs. rewrite !alookup_restart. cbn [set_dir im_meta]. unfold dir_rows. cbn [set_dir im_dirs].
  destruct (beqb n name) eqn:E.
  - apply beqb_eq in E. subst. destruct r as [x|].
    + rewrite alookup_ainsert_same. reflexivity.
    + rewrite alookup_aremove_same by auto. reflexivity.
  - apply beqb_neq in E. destruct r as [x|].
    + rewrite alookup_ainsert_other by auto. reflexivity.
    + rewrite alookup_aremove_other by auto. reflexivity.
Qed.

Lemma alookup_restart_unset_meta im name n : asorted (im_meta im) ->
  alookup n (restart (unset_meta im name)) = if beqb n name then None else alookup n (restart im).
Proof.
  intros Hs. rewrite !alookup_restart. cbn [unset_meta im_meta]. rewrite alookup_aremove by auto.
  destruct (beqb n name); reflexivity.
Qed.

(* the ModifyFamilies requests for which crash atomicity holds: the purge of dropped families
   rewrites no row, or the request leaves the families as they were *)
Definition no_effective_drop (s : server) (c : call) : Prop :=
  match cl_req c with
  | BModifyFamilies name mods =>
      forall t, alookup name s = Some t ->
                t_rows (apply_mods t mods) = t_rows t \/ t_fams (apply_mods t mods) = t_fams t
  | _ => True
  end.

Lemma table_eta t : mkTable (t_fams t) (t_rows t) = t.
Proof. destruct t; reflexivity. Qed.

(* core: against the in-memory states before and after.  No hypothesis on the directories left
   without a definition: they may hold rows (a DeleteTable killed at disk.delete.undefined) *)
Lemma crash_atomic_mem d c : disk_inv d -> no_effective_drop (ds_mem d) c ->
  forall nm im, In (nm, im) (snd (dstep d c)) ->
  srv_eq (restart im) (ds_mem d) \/ srv_eq (restart im) (ds_mem (fst (fst (dstep d c)))).
Proof.
  intros Hi Hg nm im Hin. pose proof (restart_image_of d Hi) as Hb.
  pose proof (iw_dirs _ (image_of_wf d Hi)) as Hds. pose proof (disk_inv_step d c Hi) as Hi'.
  dstep_cases d c; cbn [fst snd ds_mem] in *; try contradiction.
  - (* create: the leftover directory is removed first *)
    assert (Hmeta : alookup name (im_meta im0) = None).
    { unfold im0. cbn [image_of im_meta]. rewrite (di_meta _ Hi), Hl. reflexivity. }
    assert (Hdc : asorted (im_dirs imc)) by (unfold imc; cbn [set_dir im_dirs]; apply aremove_sorted; auto).
    assert (Hc0 : forall n, alookup n (restart imc) = alookup n (ds_mem d)).
    { intros n. rewrite <- Hb. fold im0. unfold imc. rewrite alookup_restart_set_dir by auto.
      destruct (beqb n name) eqn:En; auto.
      apply beqb_eq in En. subst. rewrite Hmeta, alookup_restart, Hmeta. reflexivity. }
    assert (H1 : forall n, alookup n (restart im1) = alookup n (ds_mem d)).
    { intros n. rewrite <- Hc0. unfold im1. rewrite alookup_restart_set_dir by auto.
      destruct (beqb n name) eqn:En; auto.
      apply beqb_eq in En. subst. rewrite alookup_restart. change (im_meta imc) with (im_meta im0).
      rewrite Hmeta. reflexivity. }
    assert (Hr1 : dir_rows im1 name = []).
    { unfold im1, dir_rows. cbn [set_dir im_dirs]. rewrite alookup_ainsert_same. reflexivity. }
    assert (H2 : forall n, alookup n (restart im2) = alookup n (set_table (ds_mem d) name (mkTable tf []))).
    { intros n. unfold im2. rewrite alookup_restart_set_meta, H1, Hr1. unfold set_table. rewrite alookup_ainsert. reflexivity. }
    destruct Hin as [Hin|[Hin|[Hin|[Hin|[]]]]]; injection Hin as _ <-.
    + left. exact Hc0.
    + left. exact H1.
    + right. exact H2.
    + right. intros n. unfold im3.
      rewrite alookup_restart_set_dir by (unfold im2, im1; cbn [set_meta set_dir im_dirs]; apply ainsert_sorted; auto).
      rewrite <- H2. destruct (beqb n name) eqn:En; auto. apply beqb_eq in En. subst.
      unfold im2 at 2. rewrite alookup_restart_set_meta, beqb_refl, Hr1. unfold im2. cbn [set_meta im_meta].
      rewrite alookup_ainsert_same. reflexivity.
  - (* delete: the definition file is gone, the directory is still there *)
    destruct Hin as [Hin|[]]; injection Hin as _ <-.
    right. intros n. rewrite alookup_restart_unset_meta by (cbn [image_of im_meta]; apply (di_meta_sorted _ Hi)).
    rewrite Hb. rewrite alookup_aremove by (apply (di_mem _ Hi)). reflexivity.
  - (* modify *)
    destruct Hin as [Hin|[Hin|[]]]; injection Hin as _ <-.
    + assert (Hs' : asorted mem') by (unfold mem', set_table; apply ainsert_sorted; apply (di_mem _ Hi)).
      assert (H1 : forall n, alookup n (restart (image_of d1))
                             = if beqb n name then Some (mkTable (t_fams t) (t_rows t')) else alookup n (ds_mem d)).
      { intros n. rewrite alookup_restart. unfold dir_rows. rewrite (alookup_image_dirs_gen d1) by auto.
        unfold d1. cbn [image_of im_meta ds_mem ds_meta ds_orphans]. rewrite (di_meta _ Hi).
        unfold mem', set_table. rewrite alookup_ainsert. destruct (beqb n name) eqn:En.
        - apply beqb_eq in En. subst. rewrite Hl. reflexivity.
        - destruct (alookup n (ds_mem d)) as [t0|]; cbn [option_map]; auto. rewrite table_eta. reflexivity. }
      unfold no_effective_drop in Hg. rewrite R in Hg. destruct (Hg t Hl) as [Hrows|Hfams].
      * left. intros n. rewrite H1. destruct (beqb n name) eqn:En; auto. apply beqb_eq in En. subst.
        fold t' in Hrows. rewrite Hrows, table_eta. auto.
      * right. intros n. rewrite H1. unfold mem', set_table. rewrite alookup_ainsert. destruct (beqb n name); auto.
        fold t' in Hfams. rewrite <- Hfams, table_eta. reflexivity.
    + right. apply (restart_image_of _ Hi').
Qed.

(* every image at an instrumented crash point restarts to the state before or the state after
   the request.  PARTIAL: guarded by [no_effective_drop] (a ModifyFamilies that drops a family
   holding cells is excluded: finding BT-18, refuted below; the guard is exact, see
   [crash_modify_first_point_exact]) *)
Theorem crash_atomic_partial : forall d c, disk_inv d -> no_effective_drop (ds_mem d) c ->
  forall nm im, In (nm, im) (snd (dstep d c)) ->
  srv_eq (restart im) (restart (image_of d)) \/ srv_eq (restart im) (restart (image_of (fst (fst (dstep d c))))).
Proof.
  intros d c Hi Hg nm im Hin. rewrite !restart_image_of_eq by auto using disk_inv_step.
  eapply crash_atomic_mem; eauto.
Qed.

(* the requests without any crash point: each is a sequence of single-key leveldb operations
   (DeleteTable has one since the directory is removed after the definition file: [crash_in_delete_is_after]) *)
Theorem no_crash_points : forall d c, disk_special (cl_req c) = false -> snd (dstep d c) = [].
Proof.
  intros d c H. dstep_cases d c; try reflexivity; try (rewrite R in H; discriminate).
Qed.

Corollary row_requests_no_crash_points : forall d now coins,
  (forall tbl key muts, snd (dstep d (mkCall (BMutateRow tbl key muts) now coins)) = [])
  /\ (forall tbl entries, snd (dstep d (mkCall (BMutateRows tbl entries) now coins)) = [])
  /\ (forall tbl key p tm fm, snd (dstep d (mkCall (BCheckAndMutate tbl key p tm fm) now coins)) = [])
  /\ (forall tbl key rules, snd (dstep d (mkCall (BReadModifyWrite tbl key rules) now coins)) = [])
  /\ (forall tbl all pfx, snd (dstep d (mkCall (BDropRowRange tbl all pfx) now coins)) = [])
  /\ (forall tbl, snd (dstep d (mkCall (BRunGC tbl) now coins)) = [])
  /\ (forall tbl keys ranges f limit, snd (dstep d (mkCall (BReadRows tbl keys ranges f limit) now coins)) = []).
Proof.
  intros d now coins. repeat split; intros; apply no_crash_points; reflexivity.
Qed.

(* DropRowRange with delete-all is ONE atomic leveldb batch: no crash point, whatever its outcome *)
Theorem clear_has_no_crash_point : forall d name pfx now coins,
  snd (dstep d (mkCall (BDropRowRange name true pfx) now coins)) = [].
Proof. intros d name pfx now coins. apply no_crash_points. reflexivity. Qed.

(* the crash points a request passes, by name, in code order *)
Theorem crash_point_names : forall d c,
  map fst (snd (dstep d c)) =
  if negb (N.eqb (br_code (snd (fst (dstep d c)))) cOK) then [] else
  match cl_req c with
  | BCreateTable _ _ _ => [s_create_cleaned; s_meta_tmp; s_meta_renamed; s_db_removed]
  | BDeleteTable _ => [s_delete_undefined]
  | BModifyFamilies _ _ => [s_meta_tmp; s_meta_renamed]
  | _ => []
  end.
Proof.
  intros d c. dstep_cases d c; cbn [fst snd map].
  - apply N.eqb_neq in Hc. rewrite Hc. reflexivity.
  - rewrite Hc, R. reflexivity.
  - rewrite Hc, R. reflexivity.
  - rewrite Hc, R. reflexivity.
  - destruct (negb _); auto. destruct (cl_req c); try discriminate; reflexivity.
Qed.

(* ---- the guard is exact ---- *)
Theorem crash_modify_first_point_exact : forall d name mods now coins t, disk_inv d ->
  alookup name (ds_mem d) = Some t ->
  let c := mkCall (BModifyFamilies name mods) now coins in
  br_code (snd (fst (dstep d c))) = cOK ->
  let t' := apply_mods t mods in
  exists im rest, snd (dstep d c) = (s_meta_tmp, im) :: rest
    /\ alookup name (restart im) = Some (mkTable (t_fams t) (t_rows t'))
    /\ (srv_eq (restart im) (restart (image_of d)) <-> t_rows t' = t_rows t)
    /\ (srv_eq (restart im) (restart (image_of (fst (fst (dstep d c))))) <-> t_fams t' = t_fams t).
Proof.
  intros d name0 mods0 now coins t0 Hi Hl0 c Hok t0'. pose proof (disk_inv_step d c Hi) as Hi'.
  rewrite !restart_image_of_eq by auto. unfold c in *.
  dstep_cases d (mkCall (BModifyFamilies name0 mods0) now coins); cbn [fst snd ds_mem cl_req] in *; try discriminate; try contradiction.
  injection R as <- <-. rewrite Hl0 in Hl. injection Hl as <-. exists (image_of d1), [(s_meta_renamed, set_meta (image_of d1) name0 (t_fams t'))].
  assert (Hs' : asorted mem') by (unfold mem', set_table; apply ainsert_sorted; apply (di_mem _ Hi)).
  assert (H1 : forall n, alookup n (restart (image_of d1))
                         = if beqb n name0 then Some (mkTable (t_fams t0) (t_rows t')) else alookup n (ds_mem d)).
  { intros n. rewrite alookup_restart. unfold dir_rows. rewrite (alookup_image_dirs_gen d1) by auto.
    unfold d1. cbn [image_of im_meta ds_mem ds_meta ds_orphans]. rewrite (di_meta _ Hi).
    unfold mem', set_table. rewrite alookup_ainsert. destruct (beqb n name0) eqn:En.
    - apply beqb_eq in En. subst. rewrite Hl0. reflexivity.
    - destruct (alookup n (ds_mem d)) as [t1|]; cbn [option_map]; auto. rewrite table_eta. reflexivity. }
  change t0' with t' in *. clear t0'.
  split; [reflexivity|]. split; [rewrite H1, beqb_refl; reflexivity|]. split; split.
  - intros H. specialize (H name0). rewrite H1, beqb_refl, Hl0 in H. injection H as H.
    apply (f_equal t_rows) in H. cbn [t_rows] in H. exact H.
  - intros H n. rewrite H1. destruct (beqb n name0) eqn:En; auto. apply beqb_eq in En. subst.
    rewrite H, table_eta. auto.
  - intros H. specialize (H name0). rewrite H1, beqb_refl in H. unfold mem' in H. rewrite alookup_set_table_same in H.
    injection H as H. apply (f_equal t_fams) in H. cbn [t_fams] in H. auto.
  - intros H n. rewrite H1. unfold mem', set_table. rewrite alookup_ainsert. destruct (beqb n name0); auto.
    rewrite <- H, table_eta. reflexivity.
Qed.

(* sufficient conditions for the guard *)
Fixpoint no_drop (mods : list fmod) : bool :=
  match mods with
  | [] => true
  | MDrop _ :: _ => false
  | _ :: r => no_drop r
  end.

Lemma apply_mods_no_drop_rows mods : forall t, no_drop mods = true -> t_rows (apply_mods t mods) = t_rows t.
Proof.
  induction mods as [|m mods IH]; intros t H; auto.
  destruct m; cbn [apply_mods no_drop] in *; try discriminate; rewrite IH; auto.
Qed.

Lemma no_drop_no_effective_drop s name mods now coins : no_drop mods = true ->
  no_effective_drop s (mkCall (BModifyFamilies name mods) now coins).
Proof. intros H t _. left. apply apply_mods_no_drop_rows. auto. Qed.

Lemma other_no_effective_drop s c : (forall name mods, cl_req c <> BModifyFamilies name mods) -> no_effective_drop s c.
Proof. intros H. unfold no_effective_drop. destruct (cl_req c); auto. exfalso. eapply H. reflexivity. Qed.

(* ------------------------------------------------------------------ *)
(* repeated crash/restart cycles: everything reachable by requests, clean restarts and restarts *)
(* on the image of any crash point                                     *)
(* ------------------------------------------------------------------ *)
Lemma set_dir_wf im n r : image_wf im -> (forall x, r = Some x -> asorted x) -> image_wf (set_dir im n r).
Proof.
  intros [Hm Hf Hd Hr] Hx. split; cbn [set_dir im_meta im_dirs]; auto.
  - destruct r; auto using ainsert_sorted, aremove_sorted.
  - intros k x. destruct r as [y|].
    + rewrite alookup_ainsert. destruct (beqb k n); [intros H; injection H as <-; auto|eauto].
    + rewrite alookup_aremove by auto. destruct (beqb k n); [discriminate|eauto].
Qed.

Lemma set_meta_wf im n f : image_wf im -> asorted f -> image_wf (set_meta im n f).
Proof.
  intros [Hm Hf Hd Hr] Hs. split; cbn [set_meta im_meta im_dirs]; auto using ainsert_sorted.
  intros k x. rewrite alookup_ainsert. destruct (beqb k n); [intros H; injection H as <-; auto|eauto].
Qed.

Lemma unset_meta_wf im n : image_wf im -> image_wf (unset_meta im n).
Proof.
  intros [Hm Hf Hd Hr]. split; cbn [unset_meta im_meta im_dirs]; auto using aremove_sorted.
  intros k x. rewrite alookup_aremove by auto. destruct (beqb k n); [discriminate|eauto].
Qed.

(* the image at every crash point is a well-formed directory image (it may contain directories
   with rows and without a definition) *)
Theorem crash_image_wf : forall d c nm im, disk_inv d ->
  In (nm, im) (snd (dstep d c)) -> image_wf im.
Proof.
  intros d c nm im Hi Hin. pose proof (image_of_wf d Hi) as Hok. pose proof (disk_inv_step d c Hi) as Hi'.
  assert (Hnil : forall x : rows_t, Some [] = Some x -> asorted x) by (intros x H; injection H as <-; constructor).
  assert (Hnone : forall x : rows_t, None = Some x -> asorted x) by discriminate.
  dstep_cases d c; cbn [fst snd] in *; try contradiction.
  - assert (Htf : asorted tf) by apply make_fams_sorted.
    assert (Hc0 : image_wf imc) by (apply set_dir_wf; auto).
    assert (H1 : image_wf im1) by (apply set_dir_wf; auto).
    assert (H2 : image_wf im2) by (apply set_meta_wf; auto).
    destruct Hin as [Hin|[Hin|[Hin|[Hin|[]]]]]; injection Hin as _ <-; auto.
    apply set_dir_wf; auto.
  - destruct Hin as [Hin|[]]; injection Hin as _ <-. apply unset_meta_wf; auto.
  - assert (Hw' : table_wf t').
    { destruct (di_mem _ Hi') as [_ Ht]. cbn [ds_mem] in Ht. apply (Ht name). unfold mem'. apply alookup_set_table_same. }
    assert (H1 : image_wf (image_of d1)).
    { apply image_of_wf_gen; unfold d1; cbn [ds_mem ds_meta ds_orphans]; try apply Hi. apply (di_mem _ Hi'). apply inv_meta_fams; auto. }
    destruct Hin as [Hin|[Hin|[]]]; injection Hin as _ <-; auto. apply set_meta_wf; auto. apply Hw'.
Qed.

Inductive dreach : dstate -> Prop :=
| DR_init : dreach init_dstate
| DR_step d c : dreach d -> dreach (fst (fst (dstep d c)))                    (* a request *)
| DR_restart d : dreach d -> dreach (boot (image_of d))                       (* stop or kill between requests, start *)
| DR_crash d c nm im : dreach d -> In (nm, im) (snd (dstep d c)) -> dreach (boot im).   (* kill inside a request, start *)

(* the invariant holds after every history; directories without a definition may hold rows
   ([dreach_orphan_with_rows] below), they are never under a live name ([di_disjoint]) *)
Theorem dreach_inv : forall d, dreach d -> disk_inv d.
Proof.
  intros d H. induction H as [|d c H IH|d H IH|d c nm im H IH Hin].
  - apply init_inv.
  - apply disk_inv_step; auto.
  - apply boot_inv, image_of_wf; auto.
  - apply boot_inv. apply (crash_image_wf d c nm im IH Hin).
Qed.

Lemma drun_dreach cs : forall d, dreach d -> dreach (fst (drun d cs)).
Proof.
  induction cs as [|c cs IH]; intros d H; cbn [drun]; auto.
  pose proof (DR_step d c H) as H1. destruct (dstep d c) as [[d1 r] pts]. cbn [fst] in H1.
  specialize (IH d1 H1). destruct (drun d1 cs) as [d2 rs]. exact IH.
Qed.

(* C08 for every history of requests, clean restarts and crashes at instrumented points:
   durability at the boundary, crash atomicity inside the next request, and the server started on
   a crash image is again such a state *)
Theorem crash_restart_cycles : forall d, dreach d ->
  restart (image_of d) = ds_mem d
  /\ (forall cs, restart (image_of (fst (drun d cs))) = fst (run (ds_mem d) cs)
                 /\ map fst (snd (drun d cs)) = snd (run (ds_mem d) cs))
  /\ (forall c nm im, In (nm, im) (snd (dstep d c)) ->
        ds_mem (boot im) = restart im
        /\ restart (image_of (boot im)) = restart im
        /\ (no_effective_drop (ds_mem d) c ->
            srv_eq (restart im) (restart (image_of d)) \/ srv_eq (restart im) (restart (image_of (fst (fst (dstep d c))))))).
Proof.
  intros d H. pose proof (dreach_inv d H) as Hi. split; [apply restart_image_of_eq; auto|]. split.
  - intros cs. rewrite restart_image_of_eq by (apply disk_inv_run; auto). apply drun_mem.
  - intros c nm im Hin. split; [reflexivity|]. split.
    + apply restart_boot. apply (crash_image_wf d c nm im Hi Hin).
    + intros Hg. eapply crash_atomic_partial; eauto.
Qed.

Corollary crash_atomic_program : forall cs c nm im,
  let d := fst (drun init_dstate cs) in
  no_effective_drop (fst (run [] cs)) c -> In (nm, im) (snd (dstep d c)) ->
  srv_eq (restart im) (fst (run [] cs)) \/ srv_eq (restart im) (fst (run [] (cs ++ [c]))).
Proof.
  intros cs c nm im d Hg Hin. pose proof (drun_dreach cs _ DR_init) as Hr. fold d in Hr.
  pose proof (dreach_inv d Hr) as Hi. destruct (mem_is_sequential cs) as [Hm _]. fold d in Hm.
  rewrite <- Hm in Hg. destruct (crash_atomic_mem d c Hi Hg nm im Hin) as [G|G].
  - left. rewrite <- Hm. exact G.
  - right. destruct (dstep_mem d c) as [G1 _]. rewrite G1, Hm in G.
    assert (Hrun : forall l s, fst (run s (l ++ [c])) = fst (step (fst (run s l)) c)).
    { induction l as [|x l IH]; intros s; cbn [app run].
      - cbn [fst]. destruct (step s c); reflexivity.
      - destruct (step s x) as [s1 r1]. specialize (IH s1). destruct (run s1 (l ++ [c])). destruct (run s1 l). exact IH. }
    rewrite Hrun. exact G.
Qed.

(* ------------------------------------------------------------------ *)
(* 6. nothing deleted comes back                                       *)
(* ------------------------------------------------------------------ *)
Definition not_create (name : bytes) (c : call) : Prop :=
  forall p tid f, cl_req c = BCreateTable p tid f -> table_name p tid <> name.

Lemma absent_stays_absent s c name : alookup name s = None -> not_create name c ->
  alookup name (fst (step s c)) = None.
Proof.
  intros Hl Hnc. assert (Hdec : affected (cl_req c) = Some name \/ affected (cl_req c) <> Some name).
  { destruct (affected (cl_req c)) as [a|]; [|right; discriminate]. destruct (beqb a name) eqn:Eb.
    - apply beqb_eq in Eb. subst. left. reflexivity.
    - apply beqb_neq in Eb. right. congruence. }
  destruct Hdec as [Ha|Ha].
  - destruct c as [r now coins]. cbn [cl_req] in *.
    assert (Hr : req_table r = Some name).
    { destruct r; cbn [affected req_table] in *; auto; try discriminate. injection Ha as Ha. exfalso. exact (Hnc _ _ _ eq_refl Ha). }
    rewrite (missing_table_not_found s r now coins name Hr Hl). exact Hl.
  - rewrite step_frame; auto.
Qed.

(* histories after a point: requests other than a create of [name], clean restarts, and restarts
   on the image of a crash point inside such a request *)
Inductive reach_nc (name : bytes) (d0 : dstate) : dstate -> Prop :=
| RN_refl : reach_nc name d0 d0
| RN_step d c : reach_nc name d0 d -> not_create name c -> reach_nc name d0 (fst (fst (dstep d c)))
| RN_restart d : reach_nc name d0 d -> reach_nc name d0 (boot (image_of d))
| RN_crash d c nm im : reach_nc name d0 d -> not_create name c -> In (nm, im) (snd (dstep d c)) ->
    reach_nc name d0 (boot im).

Lemma reach_nc_dreach name d0 d : dreach d0 -> reach_nc name d0 d -> dreach d.
Proof. intros H0 H. induction H; auto using DR_step, DR_restart. eapply DR_crash; eauto. Qed.

Lemma crash_image_meta_absent d c nm im x : disk_inv d -> alookup x (ds_mem d) = None -> not_create x c ->
  In (nm, im) (snd (dstep d c)) -> alookup x (im_meta im) = None.
Proof.
  intros Hi Hl0 Hnc Hin. assert (Hm : alookup x (ds_meta d) = None) by (rewrite (di_meta _ Hi), Hl0; reflexivity).
  dstep_cases d c; cbn [fst snd] in *; try contradiction.
  - assert (Hne : x <> name) by (intros ->; exact (Hnc _ _ _ R eq_refl)).
    destruct Hin as [Hin|[Hin|[Hin|[Hin|[]]]]]; injection Hin as _ <-; unfold im3, im2, im1, imc, im0;
      cbn [set_dir set_meta im_meta image_of]; auto; rewrite alookup_ainsert_other; auto.
  - destruct Hin as [Hin|[]]; injection Hin as _ <-. cbn [unset_meta image_of im_meta].
    rewrite alookup_aremove by (apply (di_meta_sorted _ Hi)). destruct (beqb x name); auto.
  - assert (Hne : x <> name) by (intros ->; congruence).
    destruct Hin as [Hin|[Hin|[]]]; injection Hin as _ <-; cbn [image_of set_meta im_meta ds_meta]; auto.
    rewrite alookup_ainsert_other; auto.
Qed.

Lemma reach_nc_absent name d0 d : dreach d0 -> alookup name (ds_mem d0) = None -> reach_nc name d0 d ->
  alookup name (ds_mem d) = None.
Proof.
  intros H0 Hl H. induction H as [|d c H IH Hnc|d H IH|d c nm im H IH Hnc Hin]; auto.
  - destruct (dstep_mem d c) as [G _]. rewrite G. apply absent_stays_absent; auto.
  - pose proof (dreach_inv d (reach_nc_dreach _ _ _ H0 H)) as Hi.
    cbn [boot ds_mem]. rewrite restart_image_of_eq; auto.
  - pose proof (dreach_inv d (reach_nc_dreach _ _ _ H0 H)) as Hi.
    cbn [boot ds_mem]. rewrite alookup_restart, (crash_image_meta_absent d c nm im name Hi IH Hnc Hin). reflexivity.
Qed.

(* a table deleted with an OK answer is absent from the restart right after, and from every later
   restart - at a request boundary or at a crash point - until a CreateTable of that name *)
Theorem deleted_table_stays_deleted : forall d name now coins, dreach d ->
  let c := mkCall (BDeleteTable name) now coins in
  br_code (snd (fst (dstep d c))) = cOK ->
  let d' := fst (fst (dstep d c)) in
  alookup name (restart (image_of d')) = None
  /\ forall d2, reach_nc name d' d2 ->
       alookup name (restart (image_of d2)) = None
       /\ forall c2 nm im, not_create name c2 -> In (nm, im) (snd (dstep d2 c2)) -> alookup name (restart im) = None.
Proof.
  intros d name0 now coins Hr c Hok d'. pose proof (DR_step d c Hr) as Hr'. fold d' in Hr'.
  pose proof (dreach_inv d Hr) as Hi. pose proof (dreach_inv d' Hr') as Hi'.
  assert (Hl' : alookup name0 (ds_mem d') = None).
  { unfold d', c in *. dstep_cases d (mkCall (BDeleteTable name0) now coins); cbn [fst snd cl_req ds_mem] in *; try discriminate; try contradiction.
    injection R as <-. apply alookup_aremove_same. apply (di_mem _ Hi). }
  split; [rewrite restart_image_of_eq; auto|].
  intros d2 H2. pose proof (reach_nc_absent _ _ _ Hr' Hl' H2) as Hl2.
  pose proof (dreach_inv d2 (reach_nc_dreach _ _ _ Hr' H2)) as Hi2.
  split; [rewrite restart_image_of_eq; auto|].
  intros c2 nm im Hnc Hin. rewrite alookup_restart, (crash_image_meta_absent d2 c2 nm im name0 Hi2 Hl2 Hnc Hin). reflexivity.
Qed.

(* ... also when the DeleteTable itself is killed (disk.delete.undefined: the directory, with its
   rows, is still there): the table is absent from the restart on that image and from every later
   restart until a CreateTable of that name *)
Theorem killed_delete_stays_deleted : forall d name now coins, dreach d ->
  let c := mkCall (BDeleteTable name) now coins in
  forall nm im, In (nm, im) (snd (dstep d c)) ->
  dreach (boot im) /\ alookup name (restart im) = None
  /\ forall d2, reach_nc name (boot im) d2 ->
       alookup name (restart (image_of d2)) = None
       /\ forall c2 nm2 im2, not_create name c2 -> In (nm2, im2) (snd (dstep d2 c2)) -> alookup name (restart im2) = None.
Proof.
  intros d name0 now coins Hr c nm im Hin. pose proof (DR_crash d c nm im Hr Hin) as Hr'.
  pose proof (dreach_inv d Hr) as Hi.
  assert (Hl' : alookup name0 (restart im) = None).
  { unfold c in *. dstep_cases d (mkCall (BDeleteTable name0) now coins); cbn [fst snd cl_req] in *; try discriminate; try contradiction.
    injection R as <-. destruct Hin as [Hin|[]]. injection Hin as _ <-.
    rewrite alookup_restart_unset_meta, beqb_refl by (cbn [image_of im_meta]; apply (di_meta_sorted _ Hi)). reflexivity. }
  split; [exact Hr'|]. split; [exact Hl'|].
  intros d2 H2. pose proof (reach_nc_absent name0 (boot im) d2 Hr' Hl' H2) as Hl2.
  pose proof (dreach_inv d2 (reach_nc_dreach _ _ _ Hr' H2)) as Hi2.
  split; [rewrite restart_image_of_eq; auto|].
  intros c2 nm2 im2 Hnc Hin2. rewrite alookup_restart, (crash_image_meta_absent d2 c2 nm2 im2 name0 Hi2 Hl2 Hnc Hin2). reflexivity.
Qed.

(* a successfully created table (valid names, absent before; in particular re-created after a
   delete) restarts empty, at the boundary and at every crash point of the create (absent or empty,
   never with old rows); after that it holds exactly what the sequential server holds *)
Theorem recreated_table_restarts_empty : forall d parent tid fams now coins, dreach d ->
  let name := table_name parent tid in
  let c := mkCall (BCreateTable parent tid fams) now coins in
  br_code (snd (fst (dstep d c))) = cOK ->
  let d' := fst (fst (dstep d c)) in
  valid_tid tid = true /\ valid_parent parent = true /\ alookup name (ds_mem d) = None
  /\ alookup name (restart (image_of d')) = Some (mkTable (make_fams fams) [])
  /\ ds_mem d' = set_table (ds_mem d) name (mkTable (make_fams fams) [])
  /\ (forall nm im, In (nm, im) (snd (dstep d c)) ->
        alookup name (restart im) = None \/ alookup name (restart im) = Some (mkTable (make_fams fams) []))
  /\ (forall cs, restart (image_of (fst (drun d' cs))) = fst (run (ds_mem d') cs)).
Proof.
  intros d parent tid fams now coins Hr name0 c Hok d'. pose proof (DR_step d c Hr) as Hr'. fold d' in Hr'.
  pose proof (dreach_inv d Hr) as Hi. pose proof (dreach_inv d' Hr') as Hi'.
  destruct (dstep_mem d c) as [Gm Gr]. rewrite Gr in Hok. unfold c in Hok.
  destruct (create_ok_inv _ _ _ _ _ _ Hok) as [Vt [Vp [Hl Es]]]. fold name0 in Hl.
  split; [exact Vt|]. split; [exact Vp|]. split; [exact Hl|].
  assert (Hm : ds_mem d' = set_table (ds_mem d) name0 (mkTable (make_fams fams) [])).
  { unfold d'. rewrite Gm. unfold c. rewrite Es. reflexivity. }
  assert (Hg : no_effective_drop (ds_mem d) c) by (apply other_no_effective_drop; intros ? ?; discriminate).
  split; [rewrite restart_image_of_eq, Hm by auto; apply alookup_set_table_same|]. split; [exact Hm|]. split.
  - intros nm im Hin. destruct (crash_atomic_mem d c Hi Hg nm im Hin) as [G|G].
    + left. rewrite G. exact Hl.
    + right. rewrite G. fold d'. rewrite Hm. apply alookup_set_table_same.
  - intros cs. destruct (crash_restart_cycles d' Hr') as [_ [G _]]. apply G.
Qed.

(* rows and families removed by an acknowledged request are not served by a restart *)
Lemma restart_after_step d c : dreach d ->
  restart (image_of (fst (fst (dstep d c)))) = fst (step (ds_mem d) c).
Proof.
  intros Hr. pose proof (dreach_inv _ (DR_step d c Hr)) as Hi'. rewrite restart_image_of_eq by auto. apply dstep_mem.
Qed.

Theorem dropped_prefix_absent : forall d name p now coins t, dreach d -> alookup name (ds_mem d) = Some t ->
  let d' := fst (fst (dstep d (mkCall (BDropRowRange name false (Some p)) now coins))) in
  exists t', alookup name (restart (image_of d')) = Some t'
    /\ t_fams t' = t_fams t
    /\ (forall k, has_prefix k p = true -> alookup k (t_rows t') = None)
    /\ (forall k, has_prefix k p = false -> alookup k (t_rows t') = alookup k (t_rows t)).
Proof.
  intros d name0 p now coins t0 Hr Hl0 d'. unfold d'. rewrite restart_after_step by auto.
  pose proof (dreach_inv d Hr) as Hi. destruct (di_mem _ Hi) as [_ Ht]. destruct (Ht _ _ Hl0) as [Hrows _].
  destruct (drop_prefix_lookup (ds_mem d) name0 p now coins t0 Hl0 Hrows) as [t1 [E [Hf [_ [H1 [H2 _]]]]]].
  exists t1. rewrite E. cbn [fst]. split; [apply alookup_set_table_same|]. auto.
Qed.

Theorem cleared_table_restarts_empty : forall d name pfx now coins t, dreach d -> alookup name (ds_mem d) = Some t ->
  let c := mkCall (BDropRowRange name true pfx) now coins in
  alookup name (restart (image_of (fst (fst (dstep d c))))) = Some (mkTable (t_fams t) [])
  /\ snd (dstep d c) = [].
Proof.
  intros d name0 pfx now coins t0 Hr Hl0 c.
  assert (Hs : fst (step (ds_mem d) c) = set_table (ds_mem d) name0 (mkTable (t_fams t0) [])).
  { unfold c. rewrite (drop_all _ _ pfx now coins _ Hl0). reflexivity. }
  split.
  - rewrite restart_after_step by auto. rewrite Hs. apply alookup_set_table_same.
  - apply clear_has_no_crash_point.
Qed.

Lemma apply_mutations_app tf now : forall ms fs ms',
  apply_mutations tf now fs (ms ++ ms')
  = match apply_mutations tf now fs ms with Some fs' => apply_mutations tf now fs' ms' | None => None end.
Proof.
  induction ms as [|m ms IH]; intros fs ms'; cbn [app apply_mutations]; auto.
  destruct (apply_mutation tf now fs m); auto.
Qed.

(* a MutateRow ending in DeleteFromRow, acknowledged: the row is not on disk *)
Theorem deleted_row_absent : forall d name key muts now coins, dreach d ->
  let c := mkCall (BMutateRow name key (muts ++ [DeleteFromRow])) now coins in
  br_code (snd (fst (dstep d c))) = cOK ->
  exists t', alookup name (restart (image_of (fst (fst (dstep d c))))) = Some t' /\ alookup key (t_rows t') = None.
Proof.
  intros d name0 key muts now coins Hr c Hok. rewrite restart_after_step by auto.
  destruct (dstep_mem d c) as [_ G]. rewrite G in Hok. clear G.
  pose proof (dreach_inv d Hr) as Hi. destruct (di_mem _ Hi) as [_ Ht].
  unfold c, step in *. cbn [cl_req cl_now] in *. destruct (alookup name0 (ds_mem d)) as [t0|] eqn:El; [|discriminate].
  rewrite apply_mutations_app in *. destruct (apply_mutations (t_fams t0) now (get_row t0 key) muts); [|discriminate].
  cbn [apply_mutations apply_mutation fst] in *. exists (update_row t0 key []). split; [apply alookup_set_table_same|].
  rewrite update_row_lookup by (apply (Ht _ _ El)). rewrite beqb_refl. reflexivity.
Qed.

Lemma get_family_scrub_unknown tf f : known_family tf f = false -> forall fs, get_family (scrub_fams tf fs) f = None.
Proof.
  intros Hk fs. unfold scrub_fams. induction fs as [|x fs IH]; cbn [filter map get_family]; auto.
  destruct (known_family tf (fam_name x)) eqn:Ex; auto. cbn [map filter].
  destruct (fam_cols (scrub_fam x)) eqn:Ec; auto. cbn [get_family]. cbn [scrub_fam fam_name].
  destruct (beqb (fam_name x) f) eqn:Eb; auto. apply beqb_eq in Eb. subst. congruence.
Qed.

(* a dropped family: gone from the definition and from every row a restart serves *)
Theorem dropped_family_absent : forall d name f now coins t, dreach d -> alookup name (ds_mem d) = Some t ->
  known_family (t_fams t) f = true ->
  let d' := fst (fst (dstep d (mkCall (BModifyFamilies name [MDrop f]) now coins))) in
  exists t', alookup name (restart (image_of d')) = Some t'
    /\ t_fams t' = aremove f (t_fams t)
    /\ known_family (t_fams t') f = false
    /\ (forall k fs, alookup k (t_rows t') = Some fs -> get_family fs f = None)
    /\ (forall k, alookup k (t_rows t) = None -> alookup k (t_rows t') = None).
Proof.
  intros d name0 f now coins t0 Hr Hl0 Hk d'. unfold d'. rewrite restart_after_step by auto.
  pose proof (dreach_inv d Hr) as Hi. destruct (di_mem _ Hi) as [_ Ht]. destruct (Ht _ _ Hl0) as [Hrows Hfams].
  rewrite (drop_family_step _ _ _ now coins _ Hl0 Hk). cbn [fst]. exists (drop_family t0 f).
  split; [apply alookup_set_table_same|].
  destruct (drop_family_removes_exactly t0 f Hfams Hrows) as [H1 [H2 [_ [_ [H5 _]]]]].
  split; [exact H1|]. split; [exact H2|]. split; [|exact H5].
  intros k fs. unfold drop_family. destruct (purge_rows (mkTable (aremove f (t_fams t0)) (t_rows t0)) Hrows) as [_ Hp].
  rewrite Hp. cbn [t_rows t_fams]. destruct (alookup k (t_rows t0)) as [fs0|]; [|discriminate].
  intros H. assert (Hfs : fs = scrub_fams (aremove f (t_fams t0)) fs0).
  { destruct (scrub_fams (aremove f (t_fams t0)) fs0); cbn [nonempty_opt] in H; [discriminate|]. injection H as <-. reflexivity. }
  rewrite Hfs. apply get_family_scrub_unknown. rewrite <- H1. exact H2.
Qed.

(* ------------------------------------------------------------------ *)
(* refutations of the unguarded statements, and concrete runs          *)
(* ------------------------------------------------------------------ *)
Definition ex_name : bytes := table_name [112; 114; 111; 106; 101; 99; 116; 115; 47; 112; 47; 105; 110; 115; 116; 97; 110; 99; 101; 115; 47; 105]%N [116%N].                                   (* projects/p/instances/i/tables/t *)
Definition ex_create (fams : list (bytes * option gcrule)) : call := mkCall (BCreateTable [112; 114; 111; 106; 101; 99; 116; 115; 47; 112; 47; 105; 110; 115; 116; 97; 110; 99; 101; 115; 47; 105]%N [116%N] fams) 0%Z [].
Definition ex_put (k : N) (fam : N) : call :=
  mkCall (BMutateRow ex_name [k] [SetCell [fam] [113%N] 1000%Z [118%N]]) 0%Z [].
Definition ex_fg : list (bytes * option gcrule) := [([102%N], None); ([103%N], Some (GMaxVersions 1))].

(* BT-18: ModifyFamilies dropping a family that holds cells rewrites the rows (purge) BEFORE the
   new definition is persisted; killed at disk.meta.tmp, the directory restarts with the OLD
   families and WITHOUT the cells: neither the state before nor the state after the request *)
Theorem crash_atomic_drop_family_refuted :
  exists cs c im rest,
    let d := fst (drun init_dstate cs) in
    snd (dstep d c) = (s_meta_tmp, im) :: rest
    /\ br_code (snd (fst (dstep d c))) = cOK
    /\ ~ srv_eq (restart im) (restart (image_of d))
    /\ ~ srv_eq (restart im) (restart (image_of (fst (fst (dstep d c))))).
Proof.
  exists [ex_create ex_fg; ex_put 97 102], (mkCall (BModifyFamilies ex_name [MDrop [102%N]]) 0%Z []).
  eexists. eexists. cbv zeta. split; [vm_compute; reflexivity|]. split; [vm_compute; reflexivity|].
  split; intros H; specialize (H ex_name); vm_compute in H; discriminate.
Qed.

(* what the three restarts serve in that scenario *)
Example bt18_restarts :
  let d := fst (drun init_dstate [ex_create ex_fg; ex_put 97 102]) in
  let c := mkCall (BModifyFamilies ex_name [MDrop [102%N]]) 0%Z [] in
  let view (s : server) := match alookup ex_name s with
                           | Some t => Some (map fst (t_fams t), map fst (t_rows t))
                           | None => None end in
  view (restart (image_of d)) = Some ([[102%N]; [103%N]], [[97%N]])
  /\ map (fun p => view (restart (snd p))) (snd (dstep d c)) = [Some ([[102%N]; [103%N]], []); Some ([[103%N]], [])]
  /\ view (restart (image_of (fst (fst (dstep d c))))) = Some ([[103%N]], []).
Proof. vm_compute. repeat split; reflexivity. Qed.

(* ---- directories without a definition that hold rows ---- *)
(* DeleteTable removes the definition file and then the directory; killed in between
   (disk.delete.undefined) it leaves the directory, with its rows, without a definition.  The
   restarted server does not have the table: the state AFTER the request.  All other tables are
   unchanged, and the directory is an orphan of the started server, rows included *)
Theorem crash_in_delete_is_after : forall d name now coins, disk_inv d ->
  let c := mkCall (BDeleteTable name) now coins in
  br_code (snd (fst (dstep d c))) = cOK ->
  let d' := fst (fst (dstep d c)) in
  exists im t, snd (dstep d c) = [(s_delete_undefined, im)]
    /\ alookup name (ds_mem d) = Some t
    /\ srv_eq (restart im) (restart (image_of d'))
    /\ alookup name (restart im) = None
    /\ (forall n, n <> name -> alookup n (restart im) = alookup n (restart (image_of d)))
    /\ alookup name (im_dirs im) = Some (t_rows t)
    /\ alookup name (ds_orphans (boot im)) = Some (t_rows t).
Proof.
  intros d name0 now coins Hi c Hok d'. pose proof (disk_inv_step d c Hi) as Hi'. fold d' in Hi'.
  pose proof (restart_image_of d Hi) as Hb. pose proof (restart_image_of d' Hi') as Hb'.
  assert (Hms : asorted (im_meta (image_of d))) by (cbn [image_of im_meta]; apply (di_meta_sorted _ Hi)).
  unfold d', c in *.
  dstep_cases d (mkCall (BDeleteTable name0) now coins); cbn [fst snd cl_req ds_mem] in *; try discriminate; try contradiction.
  injection R as <-. exists (unset_meta (image_of d) name0), t.
  assert (Hdir : alookup name0 (im_dirs (unset_meta (image_of d) name0)) = Some (t_rows t)).
  { cbn [unset_meta im_dirs]. rewrite alookup_image_dirs, Hl by auto. reflexivity. }
  split; [reflexivity|]. split; [exact Hl|]. split; [|split; [|split; [|split]]].
  - intros n. rewrite alookup_restart_unset_meta, Hb', Hb by auto.
    rewrite alookup_aremove by (apply (di_mem _ Hi)). reflexivity.
  - rewrite alookup_restart_unset_meta, beqb_refl by auto. reflexivity.
  - intros n Hn. rewrite alookup_restart_unset_meta by auto. apply beqb_neq in Hn. rewrite Hn. reflexivity.
  - exact Hdir.
  - rewrite boot_orphans, (alookup_filter_keys (no_def (unset_meta (image_of d) name0))). unfold no_def.
    cbn [unset_meta im_meta]. rewrite alookup_aremove_same by auto. exact Hdir.
Qed.

(* CreateTable removes a leftover directory before anything else: a kill at any of its four crash
   points restarts to the state before or the state after the request, WHATEVER the directories
   without a definition hold (only [disk_inv]; in particular old rows under the created name) *)
Theorem crash_atomic_create_with_orphan : forall d parent tid fams now coins, disk_inv d ->
  let c := mkCall (BCreateTable parent tid fams) now coins in
  let d' := fst (fst (dstep d c)) in
  forall nm im, In (nm, im) (snd (dstep d c)) ->
  srv_eq (restart im) (restart (image_of d)) \/ srv_eq (restart im) (restart (image_of d')).
Proof.
  intros d parent tid fams now coins Hi c d' nm im Hin. unfold d'. eapply crash_atomic_partial; eauto.
  apply other_no_effective_drop. intros ? ?. discriminate.
Qed.

(* ... point by point: at the first two the table is absent, at the last two it is defined and empty *)
Theorem create_crash_points_exact : forall d parent tid fams now coins, disk_inv d ->
  let name := table_name parent tid in
  let c := mkCall (BCreateTable parent tid fams) now coins in
  br_code (snd (fst (dstep d c))) = cOK ->
  exists imc im1 im2 im3,
    snd (dstep d c) = [(s_create_cleaned, imc); (s_meta_tmp, im1); (s_meta_renamed, im2); (s_db_removed, im3)]
    /\ srv_eq (restart imc) (ds_mem d) /\ srv_eq (restart im1) (ds_mem d)
    /\ alookup name (restart imc) = None /\ alookup name (restart im1) = None
    /\ alookup name (restart im2) = Some (mkTable (make_fams fams) [])
    /\ alookup name (restart im3) = Some (mkTable (make_fams fams) [])
    /\ alookup name (im_dirs imc) = None /\ alookup name (im_dirs im3) = None.
Proof.
  intros d parent0 tid0 fams0 now coins Hi name0 c Hok.
  assert (Hg : no_effective_drop (ds_mem d) c) by (apply other_no_effective_drop; intros ? ?; discriminate).
  pose proof (crash_atomic_mem d c Hi Hg) as Hat. pose proof (iw_dirs _ (image_of_wf d Hi)) as Hds.
  unfold c in *.
  dstep_cases d (mkCall (BCreateTable parent0 tid0 fams0) now coins); cbn [fst snd cl_req ds_mem] in *; try discriminate; try contradiction.
  injection R as <- <- <-. change name0 with name. clear name0. exists imc, im1, im2, im3. split; [reflexivity|].
  assert (Hmeta : alookup name (im_meta im0) = None).
  { unfold im0. cbn [image_of im_meta]. rewrite (di_meta _ Hi), Hl. reflexivity. }
  assert (Hn0 : alookup name (restart imc) = None) by (rewrite alookup_restart; change (im_meta imc) with (im_meta im0); rewrite Hmeta; reflexivity).
  assert (Hn1 : alookup name (restart im1) = None) by (rewrite alookup_restart; change (im_meta im1) with (im_meta im0); rewrite Hmeta; reflexivity).
  assert (H2 : alookup name (restart im2) = Some (mkTable tf [])).
  { unfold im2. rewrite alookup_restart_set_meta, beqb_refl. unfold dir_rows, im1. cbn [set_dir im_dirs].
    rewrite alookup_ainsert_same. reflexivity. }
  assert (H3 : alookup name (restart im3) = Some (mkTable tf [])).
  { unfold im3. rewrite alookup_restart_set_dir, beqb_refl by (unfold im2, im1; cbn [set_meta set_dir im_dirs]; apply ainsert_sorted, aremove_sorted; auto).
    unfold im2. cbn [set_meta im_meta]. rewrite alookup_ainsert_same. reflexivity. }
  assert (Hsame : forall im, alookup name (restart im) = None ->
            srv_eq (restart im) (ds_mem d) \/ srv_eq (restart im) (set_table (ds_mem d) name (mkTable tf [])) ->
            srv_eq (restart im) (ds_mem d)).
  { intros im Hn [G|G]; auto. specialize (G name). rewrite Hn, alookup_set_table_same in G. discriminate. }
  split; [apply Hsame; auto; apply (Hat s_create_cleaned); left; reflexivity|].
  split; [apply Hsame; auto; apply (Hat s_meta_tmp); right; left; reflexivity|].
  repeat (split; [assumption|]). split.
  - unfold imc. cbn [set_dir im_dirs]. apply alookup_aremove_same. auto.
  - unfold im3. cbn [set_dir im_dirs]. apply alookup_aremove_same.
    unfold im2, im1. cbn [set_meta set_dir im_dirs]. apply ainsert_sorted, aremove_sorted. auto.
Qed.

(* a state with a directory holding a row and no definition: create, write, DeleteTable killed at
   disk.delete.undefined, start.  It is reachable, and [orphans_empty] fails on it *)
Definition ex_pick (nm : bytes) (pts : list (bytes * image)) : image :=
  match find (fun q => beqb (fst q) nm) pts with Some q => snd q | None => mkImage [] [] end.
Definition ex_row97 : rows_t := [([97%N], [mkFam [102%N] [mkCol [113%N] [mkCell 1000 [118%N] []]]])].
Definition ex_delete : call := mkCall (BDeleteTable ex_name) 0%Z [].
Definition ex_before_delete : dstate := fst (drun init_dstate [ex_create ex_fg; ex_put 97 102]).
Definition ex_killed_delete : dstate := boot (ex_pick s_delete_undefined (snd (dstep ex_before_delete ex_delete))).

Example dreach_orphan_with_rows :
  dreach ex_killed_delete /\ disk_inv ex_killed_delete
  /\ ex_killed_delete = mkDState [] [] [(ex_name, ex_row97)]
  /\ ~ orphans_empty ex_killed_delete
  /\ ex_killed_delete = next_boot (fst (fst (dstep ex_before_delete ex_delete))) (snd (dstep ex_before_delete ex_delete))
                                   (Some s_delete_undefined).
Proof.
  assert (Hr : dreach ex_killed_delete).
  { unfold ex_killed_delete. eapply (DR_crash ex_before_delete ex_delete s_delete_undefined).
    - apply drun_dreach, DR_init.
    - vm_compute. left. reflexivity. }
  split; [exact Hr|]. split; [apply dreach_inv; exact Hr|]. split; [vm_compute; reflexivity|]. split.
  - intros H. assert (E : alookup ex_name (ds_orphans ex_killed_delete) = Some ex_row97) by (vm_compute; reflexivity).
    specialize (H _ _ E). discriminate.
  - vm_compute. reflexivity.
Qed.

(* CreateTable on that state: (families, row keys) of the table served at the four crash points and after *)
Example create_over_orphan_with_rows :
  let view (s : server) := match alookup ex_name s with
                           | Some t => Some (map fst (t_fams t), map fst (t_rows t))
                           | None => None end in
  map (fun p => (fst p, view (restart (snd p)))) (snd (dstep ex_killed_delete (ex_create ex_fg)))
  = [ (s_create_cleaned, None); (s_meta_tmp, None);
      (s_meta_renamed, Some ([[102%N]; [103%N]], [])); (s_db_removed, Some ([[102%N]; [103%N]], [])) ]
  /\ view (restart (image_of (fst (fst (dstep ex_killed_delete (ex_create ex_fg)))))) = Some ([[102%N]; [103%N]], [])
  /\ ds_orphans (fst (fst (dstep ex_killed_delete (ex_create ex_fg)))) = [].
Proof. vm_compute. repeat split; reflexivity. Qed.

(* the double kill: create, write a row, DeleteTable killed at disk.delete.undefined, start,
   CreateTable killed at disk.meta.renamed, start: the table is defined and EMPTY, and no directory
   is left without a definition *)
Definition ex_double_kill : dstate :=
  boot (ex_pick s_meta_renamed (snd (dstep ex_killed_delete (ex_create ex_fg)))).

Example double_kill_table_empty :
  dreach ex_double_kill
  /\ ds_mem ex_double_kill = [(ex_name, mkTable (make_fams ex_fg) [])]
  /\ ds_orphans ex_double_kill = []
  /\ ex_double_kill = next_boot (fst (fst (dstep ex_killed_delete (ex_create ex_fg)))) (snd (dstep ex_killed_delete (ex_create ex_fg)))
                                 (Some s_meta_renamed)
  /\ alookup ex_name (restart (image_of ex_before_delete)) = Some (mkTable (make_fams ex_fg) ex_row97).
Proof.
  split.
  - unfold ex_double_kill. eapply (DR_crash ex_killed_delete (ex_create ex_fg) s_meta_renamed).
    + apply dreach_orphan_with_rows.
    + vm_compute. right. right. left. reflexivity.
  - vm_compute. repeat split; reflexivity.
Qed.

(* a program with create, writes, clear, delete, re-create *)
Definition ex_prog : list call :=
  [ ex_create ex_fg; ex_put 97 102; ex_put 98 103;
    mkCall (BDropRowRange ex_name true None) 0%Z [];
    ex_put 99 102;
    mkCall (BModifyFamilies ex_name [MCreate [104%N] None]) 0%Z [];
    mkCall (BDeleteTable ex_name) 0%Z [];
    ex_create [([103%N], None)]; ex_put 100 103 ].

Definition ex_view (s : server) : list (bytes * (list bytes * list bytes)) :=
  map (fun p => (fst p, (map fst (t_fams (snd p)), map fst (t_rows (snd p))))) s.

(* every request is acknowledged; the crash points passed, by name *)
Example ex_prog_acks :
  map (fun r => (br_code (fst r), map fst (snd r))) (snd (drun init_dstate ex_prog))
  = [ (cOK, [s_create_cleaned; s_meta_tmp; s_meta_renamed; s_db_removed]); (cOK, []); (cOK, []);
      (cOK, []); (cOK, []); (cOK, [s_meta_tmp; s_meta_renamed]); (cOK, [s_delete_undefined]);
      (cOK, [s_create_cleaned; s_meta_tmp; s_meta_renamed; s_db_removed]); (cOK, []) ].
Proof. vm_compute. reflexivity. Qed.

(* what a restart serves at every request boundary of the program *)
Example ex_prog_boundaries :
  map (fun k => ex_view (restart (image_of (fst (drun init_dstate (firstn k ex_prog)))))) (seq 0 10)
  = [ [];
      [(ex_name, ([[102%N]; [103%N]], []))];
      [(ex_name, ([[102%N]; [103%N]], [[97%N]]))];
      [(ex_name, ([[102%N]; [103%N]], [[97%N]; [98%N]]))];
      [(ex_name, ([[102%N]; [103%N]], []))];
      [(ex_name, ([[102%N]; [103%N]], [[99%N]]))];
      [(ex_name, ([[102%N]; [103%N]; [104%N]], [[99%N]]))];
      [];
      [(ex_name, ([[103%N]], []))];
      [(ex_name, ([[103%N]], [[100%N]]))] ].
Proof. vm_compute. reflexivity. Qed.

(* ... and at every crash point inside its requests *)
Example ex_prog_crash_points :
  map (fun r => map (fun p => ex_view (restart (snd p))) (snd r)) (snd (drun init_dstate ex_prog))
  = [ [ []; []; [(ex_name, ([[102%N]; [103%N]], []))]; [(ex_name, ([[102%N]; [103%N]], []))] ];
      []; [];
      [];
      [];
      [ [(ex_name, ([[102%N]; [103%N]], [[99%N]]))]; [(ex_name, ([[102%N]; [103%N]; [104%N]], [[99%N]]))] ];
      [ [] ];
      [ []; []; [(ex_name, ([[103%N]], []))]; [(ex_name, ([[103%N]], []))] ];
      [] ].
Proof. vm_compute. reflexivity. Qed.

(* the hypotheses of the theorems are met on the way: the state before the re-create is reachable,
   the table is absent, the guard holds for every request of the program *)
Example ex_prog_hyps :
  let d := fst (drun init_dstate (firstn 7 ex_prog)) in
  dreach d /\ disk_inv d /\ alookup ex_name (ds_mem d) = None
  /\ no_effective_drop (ds_mem (fst (drun init_dstate (firstn 5 ex_prog)))) (nth 5 ex_prog (ex_put 0 0)).
Proof.
  cbv zeta. pose proof (drun_dreach (firstn 7 ex_prog) _ DR_init) as H. pose proof (dreach_inv _ H) as H1.
  split; [exact H|]. split; [exact H1|]. split; [vm_compute; reflexivity|].
  apply no_drop_no_effective_drop. reflexivity.
Qed.

(* a crash image with an orphan directory (create killed at disk.meta.tmp), restarted, then used *)
Example ex_crash_then_continue :
  let c := ex_create ex_fg in
  let im := snd (nth 1 (snd (dstep init_dstate c)) (s_meta_tmp, mkImage [] [])) in
  im = mkImage [] [(ex_name, [])]
  /\ ds_orphans (boot im) = [(ex_name, [])]
  /\ ex_view (restart (image_of (fst (drun (boot im) [c; ex_put 97 102])))) = [(ex_name, ([[102%N]; [103%N]], [[97%N]]))].
Proof. vm_compute. repeat split; reflexivity. Qed.

(* ------------------------------------------------------------------ *)
(* the guard in concrete terms: dropping a family that holds no cell is crash atomic *)
(* ------------------------------------------------------------------ *)
Lemma get_family_none_filter f : forall fs, get_family fs f = None ->
  filter (fun fm => negb (beqb (fam_name fm) f)) fs = fs.
Proof.
  induction fs as [|x fs IH]; cbn [get_family filter]; auto.
  destruct (beqb (fam_name x) f); [discriminate|]. intros H. cbn [negb]. f_equal. auto.
Qed.

Theorem drop_cellless_family_rows : forall t f, table_ok t -> asorted (t_fams t) ->
  (forall k fs, alookup k (t_rows t) = Some fs -> get_family fs f = None) ->
  t_rows (apply_mods t [MDrop f]) = t_rows t.
Proof.
  intros t f [Hrows Hall] Hfams Hno. change (apply_mods t [MDrop f]) with (drop_family t f).
  destruct (drop_family_removes_exactly t f Hfams Hrows) as [_ [_ [_ [H4 [H5 H6]]]]].
  apply omap_ext; auto. intros k. destruct (alookup k (t_rows t)) as [fs|] eqn:E; [|auto].
  rewrite Forall_forall in Hall. destruct (Hall _ (alookup_in _ _ _ E)) as [Hst Hne]. cbn [snd] in *.
  destruct (H6 k fs E (scrub_stored_id _ _ Hst)) as [G _]. rewrite G, get_family_none_filter by eauto.
  destruct fs; [contradiction|reflexivity].
Qed.

Theorem drop_cellless_family_guard : forall cs name f now coins,
  let s := fst (run [] cs) in
  (forall t k fs, alookup name s = Some t -> alookup k (t_rows t) = Some fs -> get_family fs f = None) ->
  no_effective_drop s (mkCall (BModifyFamilies name [MDrop f]) now coins).
Proof.
  intros cs name0 f now coins s Hno t Hl. left.
  pose proof (server_ok_lookup _ _ _ (C01_history cs) Hl) as Hok.
  destruct (reachable_wf cs) as [_ Ht]. destruct (Ht _ _ Hl) as [_ Hf].
  apply drop_cellless_family_rows; eauto.
Qed.

(* ------------------------------------------------------------------ *)
(* the checker (BT/DiskCheck.v) only visits states of the theory: the state a program segment starts
   in - the directory as the stopped server left it, or the image at the marked crash point of the
   segment's last request - is a [dreach] state *)
(* ------------------------------------------------------------------ *)
Theorem next_boot_dreach : forall d0 c crash, dreach d0 ->
  dreach (next_boot (fst (fst (dstep d0 c))) (snd (dstep d0 c)) crash).
Proof.
  intros d0 c crash H. pose proof (DR_restart _ (DR_step d0 c H)) as Hclean. unfold next_boot.
  destruct crash as [p|]; [|exact Hclean].
  destruct (find (fun q => beqb (fst q) p) (snd (dstep d0 c))) as [[nm im]|] eqn:E; [|exact Hclean].
  apply find_some in E. destruct E as [Hin _]. cbn [snd]. exact (DR_crash d0 c nm im H Hin).
Qed.

(* [last] as [dcheck_segment] maintains it: empty, or the crash points of the request that produced the state *)
Definition last_of (d1 : dstate) (last : list (bytes * image)) : Prop :=
  last = [] \/ exists d0 c, dreach d0 /\ d1 = fst (fst (dstep d0 c)) /\ last = snd (dstep d0 c).

Lemma next_boot_last_of d1 last crash : dreach d1 -> last_of d1 last -> dreach (next_boot d1 last crash).
Proof.
  intros H [->|[d0 [c [H0 [-> ->]]]]]; [|apply next_boot_dreach; auto].
  unfold next_boot. destruct crash; cbn [find]; apply DR_restart; auto.
Qed.

Theorem dcheck_segment_dreach : forall names cs obs d i last, dreach d -> last_of d last ->
  let r := dcheck_segment names d i last cs obs in
  dreach (fst (fst r)) /\ last_of (fst (fst r)) (snd (fst r)).
Proof.
  intros names cs. induction cs as [|c cs IH]; intros obs d i last H Hl; destruct obs as [|[[r pts] after] obs'];
    cbn [dcheck_segment]; try (cbn [fst snd]; auto; fail).
  pose proof (DR_step d c H) as H1.
  assert (Hl1 : last_of (fst (fst (dstep d c))) (snd (dstep d c))) by (right; exists d, c; auto).
  destruct (dstep d c) as [[d1 rsp] mpts]. cbn [fst snd] in H1, Hl1.
  destruct (resp_eqb rsp r && points_eqb names mpts pts && resps_eqb (probe (restart (image_of d1)) names) after).
  - apply IH; auto.
  - cbn [fst snd]. auto.
Qed.

(* every state a case of the checker starts a segment in is a state of the theory *)
Corollary dcheck_next_segment_dreach : forall names cs obs crash d i, dreach d ->
  let r := dcheck_segment names d i [] cs obs in
  dreach (next_boot (fst (fst r)) (snd (fst r)) crash).
Proof.
  intros names cs obs crash d i H r. destruct (dcheck_segment_dreach names cs obs d i [] H (or_introl eq_refl)) as [H1 H2].
  apply next_boot_last_of; auto.
Qed.

(* ------------------------------------------------------------------ *)
(* table names on the disk: only valid names are ever registered       *)
(* ------------------------------------------------------------------ *)
Lemma restart_keys im : map fst (restart im) = map fst (im_meta im).
Proof. unfold restart. rewrite map_map. reflexivity. Qed.

Lemma aremove_keys {V} k (l : list (bytes * V)) n : In n (map fst (aremove k l)) -> In n (map fst l).
Proof.
  intros H. apply in_map_iff in H. destruct H as [kv [<- Hin]]. apply in_map. eapply aremove_in; eauto.
Qed.

Lemma meta_keys_live d : disk_inv d -> forall n, In n (map fst (ds_meta d)) -> In n (map fst (ds_mem d)).
Proof.
  intros Hi n H. apply in_keys_alookup in H. destruct H as [f Hf]. rewrite (di_meta _ Hi) in Hf.
  apply in_keys_alookup. destruct (alookup n (ds_mem d)) as [t|]; [eauto|discriminate].
Qed.

(* the definition files at every crash point of a request carry names of live tables or the
   valid name being created *)
Lemma crash_image_names_valid d c nm im : disk_inv d -> names_valid (ds_mem d) ->
  In (nm, im) (snd (dstep d c)) -> forall n, In n (map fst (im_meta im)) -> valid_table_name n.
Proof.
  intros Hi Hv Hin n Hn.
  assert (Hmeta : forall x, In x (map fst (ds_meta d)) -> valid_table_name x).
  { intros x Hx. apply Hv. apply meta_keys_live; auto. }
  dstep_cases d c; cbn [fst snd] in Hin; try contradiction.
  - (* create *)
    assert (Hnew : valid_table_name name) by (exists parent, tid; auto).
    destruct Hin as [Hin|[Hin|[Hin|[Hin|[]]]]]; injection Hin as _ <-;
      unfold im3, im2, im1, imc, im0 in Hn; cbn [set_dir set_meta im_meta image_of] in Hn;
      try (apply Hmeta; exact Hn); apply in_keys_ainsert in Hn; destruct Hn as [->|Hn]; auto.
  - (* delete *)
    destruct Hin as [Hin|[]]. injection Hin as _ <-. cbn [unset_meta im_meta image_of] in Hn.
    apply Hmeta. eapply aremove_keys; eauto.
  - (* modify *)
    destruct Hin as [Hin|[Hin|[]]]; injection Hin as _ <-; unfold d1 in Hn; cbn [set_meta im_meta image_of ds_meta] in Hn.
    + apply Hmeta; exact Hn.
    + apply in_keys_ainsert in Hn. destruct Hn as [->|Hn]; [|apply Hmeta; exact Hn].
      apply Hv. apply in_keys_alookup. eauto.
Qed.

(* every table of every state of the disk engine - after any requests, restarts and kills inside
   requests - has a valid name *)
Theorem dreach_names_valid : forall d, dreach d -> names_valid (ds_mem d).
Proof.
  intros d H. induction H as [|d c H IH|d H IH|d c nm im H IH Hin].
  - intros n Hn. destruct Hn.
  - destruct (dstep_mem d c) as [G _]. rewrite G. apply step_names_valid. exact IH.
  - cbn [boot ds_mem]. rewrite restart_image_of_eq by (apply dreach_inv; exact H). exact IH.
  - cbn [boot ds_mem]. intros n Hn. rewrite restart_keys in Hn.
    eapply crash_image_names_valid; eauto. apply dreach_inv; exact H.
Qed.

(* ... so two different tables never have nested directories, whatever happened before *)
Corollary dreach_tables_not_nested : forall d n1 n2 t1 t2, dreach d ->
  alookup n1 (ds_mem d) = Some t1 -> alookup n2 (ds_mem d) = Some t2 -> n1 <> n2 ->
  has_prefix (n2 ++ s_slash1) (n1 ++ s_slash1) = false.
Proof.
  intros d n1 n2 t1 t2 H H1 H2 Hne. pose proof (dreach_names_valid d H) as Hv.
  apply valid_names_disjoint_dirs; auto; apply Hv; apply in_keys_alookup; eauto.
Qed.

(* the definition files too *)
Corollary dreach_meta_names_valid : forall d n, dreach d -> In n (map fst (ds_meta d)) -> valid_table_name n.
Proof.
  intros d n H Hn. apply (dreach_names_valid d H). apply meta_keys_live; auto. apply dreach_inv; exact H.
Qed.

(* [boot] of an ARBITRARY image does not have the property (a server started on a directory it did
   not write serves whatever definition files it finds): the theorem is about the images the
   engine itself produces *)
Example boot_arbitrary_image_names_refuted :
  let im := mkImage [([46%N; 46%N], [])] [] in
  map fst (ds_mem (boot im)) = [[46%N; 46%N]] /\ valid_table_nameb [46%N; 46%N] = false.
Proof. vm_compute. auto. Qed.

Example dreach_names_valid_nonvacuous :
  let d := fst (drun init_dstate [ex_create ex_fg; ex_put 97 102]) in
  dreach d /\ map fst (ds_mem d) = [ex_name] /\ valid_table_nameb ex_name = true.
Proof.
  split; [|vm_compute; auto].
  apply drun_dreach. apply DR_init.
Qed.

(* the definition file <name>.table.proto of a table (and its temporary) is never the directory
   of a table nor inside one, in every state of the disk engine *)
Corollary dreach_definition_files_apart : forall d n1 n2, dreach d ->
  In n1 (map fst (ds_mem d)) -> In n2 (map fst (ds_mem d)) ->
  n1 ++ s_table_proto <> n2
  /\ ~ has_prefix (n1 ++ s_table_proto) (n2 ++ s_slash1) = true
  /\ n1 ++ s_table_proto_tmp <> n2
  /\ ~ has_prefix (n1 ++ s_table_proto_tmp) (n2 ++ s_slash1) = true.
Proof. intros d n1 n2 H H1 H2. apply definition_files_apart; apply (dreach_names_valid d H); auto. Qed.

(* table ids the disk engine registers have at most 50 characters *)
Corollary dreach_tid_bounded : forall d n, dreach d -> In n (map fst (ds_mem d)) ->
  exists parent tid, n = table_name parent tid /\ valid_parent parent = true /\ valid_tid tid = true
                     /\ (1 <= length tid <= 50)%nat.
Proof.
  intros d n H Hn. destruct (dreach_names_valid d H n Hn) as [parent [tid [-> [Hp Ht]]]].
  exists parent, tid. repeat split; auto; apply valid_tid_bounded; exact Ht.
Qed.

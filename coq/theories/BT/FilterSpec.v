(* Layer B: denotational semantics of Bigtable row filters, written from the filter documentation
   (google/bigtable/v2/data.proto, RowFilter) and NOT from the emulator's code.

   A row is seen as the list of its cells in row order, each cell located by (family, qualifier).
   A filter maps that list to the list of cells it outputs; the only nondeterminism, the row-sample
   filter, reads its decision from a list of coins.  Nothing here mentions columns without cells,
   "matched" flags or the family/column nesting of the emulator's row representation. *)
From Coq Require Import List NArith ZArith Bool.
Import ListNotations.
From Emu.Common Require Import Bytes Str.
From Emu.BT Require Import Types Regex.
Local Open Scope Z_scope.

(* ---- located cells ---- *)
Definition lcell := (bytes * bytes * cell)%type.
Definition lc_fam (x : lcell) : bytes := fst (fst x).
Definition lc_q (x : lcell) : bytes := snd (fst x).
Definition lc_cell (x : lcell) : cell := snd x.

Definition flatten_col (fam : bytes) (c : column) : list lcell :=
  map (fun x => (fam, col_q c, x)) (col_cells c).
Definition flatten_fam (f : family) : list lcell := flat_map (flatten_col (fam_name f)) (fam_cols f).
Definition flatten (fs : list family) : list lcell := flat_map flatten_fam fs.

(* ---- cell predicates ---- *)

(* a regex filter matches when the pattern matches the WHOLE field, bytewise
   (re_match is the language membership test: RegexProofs.regex_matcher_correct) *)
Definition matches (r : regex) (s : bytes) : bool :=
  match r with RxOk x => re_match x s | RxBad => false end.

(* range bounds over the bytewise lexicographic order; unset = unbounded *)
Definition lower_ok (b : bound) (x : bytes) : bool :=
  match b with
  | BUnset => true
  | BClosed k => negb (lex_ltb x k)      (* k <= x *)
  | BOpen k => lex_ltb k x               (* k <  x *)
  end.
Definition upper_ok (b : bound) (x : bytes) : bool :=
  match b with
  | BUnset => true
  | BClosed k => negb (lex_ltb k x)      (* x <= k *)
  | BOpen k => lex_ltb x k               (* x <  k *)
  end.

(* timestamp range: start inclusive, end exclusive, end = 0 means no upper bound *)
Definition ts_in (s e ts : Z) : bool := (s <=? ts) && (if e =? 0 then true else ts <? e).

(* the cell-selecting filters as predicates on a located cell *)
Definition selects (f : rfilter) (x : lcell) : bool :=
  match f with
  | FFamilyRegex r => matches r (lc_fam x)
  | FQualRegex r => matches r (lc_q x)
  | FValueRegex r => matches r (c_val (lc_cell x))
  | FColRange fam s e => beqb (lc_fam x) fam && lower_ok s (lc_q x) && upper_ok e (lc_q x)
  | FValueRange s e => lower_ok s (c_val (lc_cell x)) && upper_ok e (c_val (lc_cell x))
  | FTsRange s e => ts_in s e (c_ts (lc_cell x))
  | _ => true
  end.

(* the transformers *)
Definition strip_value (x : lcell) : lcell := (lc_fam x, lc_q x, mkCell (c_ts (lc_cell x)) [] []).
Definition apply_label (l : bytes) (x : lcell) : lcell :=
  (lc_fam x, lc_q x, mkCell (c_ts (lc_cell x)) (c_val (lc_cell x)) [l]).

(* ---- cells-per-column limit: keep a cell iff fewer than n cells of the same column precede it ---- *)
Definition same_col (x y : lcell) : bool := beqb (lc_fam x) (lc_fam y) && beqb (lc_q x) (lc_q y).

Fixpoint col_limit (n : nat) (seen l : list lcell) : list lcell :=
  match l with
  | [] => []
  | x :: r => (if (length (filter (same_col x) seen) <? n)%nat then [x] else [])
              ++ col_limit n (x :: seen) r
  end.

(* ---- interleave: merge the branch outputs back into row order ---- *)

(* the columns of a cell list, each once, in order of first appearance *)
Definition col_key := (bytes * bytes)%type.
Definition key_of (x : lcell) : col_key := (lc_fam x, lc_q x).
Definition key_eqb (a b : col_key) : bool := beqb (fst a) (fst b) && beqb (snd a) (snd b).
Fixpoint columns_of (l : list lcell) : list col_key :=
  match l with
  | [] => []
  | x :: r => key_of x :: filter (fun k => negb (key_eqb (key_of x) k)) (columns_of r)
  end.

(* stable insertion sort by descending timestamp *)
Fixpoint ins_ts (x : lcell) (l : list lcell) : list lcell :=
  match l with
  | [] => [x]
  | y :: r => if c_ts (lc_cell x) <? c_ts (lc_cell y) then y :: ins_ts x r else x :: l
  end.
Definition sort_ts (l : list lcell) : list lcell := fold_right ins_ts [] l.

(* all the cells of [outs], column by column in the row order of [input] (every filter output lies
   in a column of its input), newest first within a column; cells output by several branches are
   all kept *)
Definition regroup (input outs : list lcell) : list lcell :=
  flat_map (fun k => sort_ts (filter (fun x => key_eqb k (key_of x)) outs)) (columns_of input).

Definition opt_sem {A} (g : rfilter -> A) (dflt : A) (o : option rfilter) : A :=
  match o with Some x => g x | None => dflt end.

(* ---- the semantics ---- *)
Fixpoint fsem (key : bytes) (f : rfilter) (l : list lcell) (coins : list bool)
  : list lcell * list bool :=
  match f with
  | FPass _ => (l, coins)
  | FBlock _ => ([], coins)
  | FRowKeyRegex r => (if matches r key then l else [], coins)
  | FFamilyRegex _ | FQualRegex _ | FValueRegex _
  | FColRange _ _ _ | FValueRange _ _ | FTsRange _ _ => (filter (selects f) l, coins)
  | FStrip => (map strip_value l, coins)
  | FLabel lb => (map (apply_label lb) l, coins)
  | FCellsPerColLimit n => (col_limit (Z.to_nat n) [] l, coins)
  | FCellsPerRowLimit n => (firstn (Z.to_nat n) l, coins)
  | FCellsPerRowOffset n => (skipn (Z.to_nat n) l, coins)
  | FSample _ => match coins with
                 | c :: r => (if c then l else [], r)
                 | [] => ([], [])
                 end
  | FChain fl =>
      (* each stage works on the previous stage's output; no cell left = nothing to pass on *)
      (fix go (fl : list rfilter) (l : list lcell) (coins : list bool) :=
         match fl with
         | [] => (l, coins)
         | x :: r => let '(l', c') := fsem key x l coins in
                     match l' with [] => ([], c') | _ => go r l' c' end
         end) fl l coins
  | FInterleave fl =>
      (* every branch works on the original input *)
      let '(outs, c') :=
        (fix go (fl : list rfilter) (coins : list bool) : list lcell * list bool :=
           match fl with
           | [] => ([], coins)
           | x :: r => let '(o, c1) := fsem key x l coins in
                       let '(rest, c2) := go r c1 in (o ++ rest, c2)
           end) fl coins in
      (regroup l outs, c')
  | FCondition p t e =>
      let '(o, c') := fsem key p l coins in
      match o with
      | [] => match e with Some x => fsem key x l c' | None => ([], c') end
      | _ => match t with Some x => fsem key x l c' | None => ([], c') end
      end
  end.

(* ---- sanity examples (the documentation's own examples, on a two-family row) ---- *)
Definition ex_row : list lcell :=
  [ (H 0x0161, H 0x0171, mkCell 3000 (H 0x0133) []);      (* a:q  @3000 "3" *)
    (H 0x0161, H 0x0171, mkCell 1000 (H 0x0131) []);      (* a:q  @1000 "1" *)
    (H 0x0161, H 0x0172, mkCell 2000 (H 0x0132) []);      (* a:r  @2000 "2" *)
    (H 0x0162, H 0x0171, mkCell 2000 (H 0x0178) []) ].    (* b:q  @2000 "x" *)

Example ex_percol : fst (fsem [] (FCellsPerColLimit 1) ex_row []) =
  [ (H 0x0161, H 0x0171, mkCell 3000 (H 0x0133) []);
    (H 0x0161, H 0x0172, mkCell 2000 (H 0x0132) []);
    (H 0x0162, H 0x0171, mkCell 2000 (H 0x0178) []) ].
Proof. vm_compute. reflexivity. Qed.

Example ex_ts_end_exclusive : fst (fsem [] (FTsRange 1000 3000) ex_row []) =
  [ (H 0x0161, H 0x0171, mkCell 1000 (H 0x0131) []);
    (H 0x0161, H 0x0172, mkCell 2000 (H 0x0132) []);
    (H 0x0162, H 0x0171, mkCell 2000 (H 0x0178) []) ].
Proof. vm_compute. reflexivity. Qed.

(* interleave keeps duplicates and emits in row order even when a later branch contributes to an
   earlier column *)
Example ex_interleave :
  fst (fsem [] (FInterleave [FFamilyRegex (RxOk (RLit 98)); FCellsPerRowLimit 1; FPass true]) ex_row []) =
  [ (H 0x0161, H 0x0171, mkCell 3000 (H 0x0133) []);
    (H 0x0161, H 0x0171, mkCell 3000 (H 0x0133) []);
    (H 0x0161, H 0x0171, mkCell 1000 (H 0x0131) []);
    (H 0x0161, H 0x0172, mkCell 2000 (H 0x0132) []);
    (H 0x0162, H 0x0171, mkCell 2000 (H 0x0178) []);
    (H 0x0162, H 0x0171, mkCell 2000 (H 0x0178) []) ].
Proof. vm_compute. reflexivity. Qed.

Example ex_condition_chain_sample :
  fsem [] (FCondition (FChain [FFamilyRegex (RxOk (RLit 99)); FSample true])
                      (Some FStrip) (Some (FChain [FSample true; FCellsPerRowOffset 3]))) ex_row [true; false] =
  ([ (H 0x0162, H 0x0171, mkCell 2000 (H 0x0178) []) ], [false]).
Proof. vm_compute. reflexivity. Qed.

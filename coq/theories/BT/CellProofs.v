(* Cell-, column- and family-level lemmas about the row representation of BT/Mutate.v
   against the Layer-B spec of BT/CellSpec.v. *)
From Coq Require Import List NArith ZArith Bool Lia ZifyBool ZifyNat ZifyN Arith.
Import ListNotations.
From Emu.Common Require Import Bytes Str StrProofs.
From Emu.BT Require Import Types Mutate Server CellSpec.
Local Open Scope Z_scope.

(* ------------------------------------------------------------------ *)
(* generic list facts *)
Lemma filter_all {A} (p : A -> bool) l : (forall x, In x l -> p x = true) -> filter p l = l.
Proof.
  induction l as [|a l IH]; intros H; cbn; auto.
  rewrite (H a (or_introl eq_refl)). f_equal. apply IH. intros x Hx. apply H. right. exact Hx.
Qed.

Lemma filter_none {A} (p : A -> bool) l : (forall x, In x l -> p x = false) -> filter p l = [].
Proof.
  induction l as [|a l IH]; intros H; cbn; auto.
  rewrite (H a (or_introl eq_refl)). apply IH. intros x Hx. apply H. right. exact Hx.
Qed.

(* ------------------------------------------------------------------ *)
(* desc *)
Lemma desc_tail c r : desc (c :: r) -> desc r.
Proof. intros [_ H]. exact H. Qed.

Lemma desc_filter p cs : desc cs -> desc (filter p cs).
Proof.
  induction cs as [|c r IH]; intros Hd; cbn; auto.
  destruct Hd as [Hc Hr]. destruct (p c); cbn; auto.
  split; auto. intros d Hd. apply filter_In in Hd. apply Hc. tauto.
Qed.

Lemma desc_firstn n cs : desc cs -> desc (firstn n cs).
Proof.
  revert cs. induction n as [|n IH]; intros [|c r] Hd; cbn; auto.
  destruct Hd as [Hc Hr]. split; auto.
  intros d Hd. apply Hc. rewrite <- (firstn_skipn n r). apply in_or_app. left. exact Hd.
Qed.

Lemma desc_head_max c r : desc (c :: r) -> forall d, In d (c :: r) -> c_ts d <= c_ts c.
Proof. intros [Hc _] d [<-|Hd]; [lia|]. specialize (Hc d Hd). lia. Qed.

(* boolean checker, for examples *)
Fixpoint descb (cs : list cell) : bool :=
  match cs with
  | [] => true
  | c :: r => forallb (fun d => c_ts d <? c_ts c) r && descb r
  end.

Lemma descb_sound cs : descb cs = true -> desc cs.
Proof.
  induction cs as [|c r IH]; cbn; auto. intros H. apply andb_prop in H. destruct H as [H1 H2].
  split; auto. intros d Hd. rewrite forallb_forall in H1. specialize (H1 d Hd). lia.
Qed.

(* ------------------------------------------------------------------ *)
(* cell_lookup *)
Lemma cell_lookup_filter (p : Z -> bool) cs t :
  cell_lookup (filter (fun c => p (c_ts c)) cs) t = if p t then cell_lookup cs t else None.
Proof.
  induction cs as [|c r IH]; cbn.
  - destruct (p t); reflexivity.
  - destruct (p (c_ts c)) eqn:Ep; cbn.
    + destruct (c_ts c =? t) eqn:Et.
      * assert (c_ts c = t) by lia. subst t. rewrite Ep. reflexivity.
      * exact IH.
    + rewrite IH. destruct (c_ts c =? t) eqn:Et; auto.
      assert (c_ts c = t) by lia. subst t. rewrite Ep. reflexivity.
Qed.

Lemma cell_lookup_in cs t v : cell_lookup cs t = Some v -> exists c, In c cs /\ c_ts c = t /\ c_val c = v.
Proof.
  induction cs as [|c r IH]; cbn; [discriminate|].
  destruct (c_ts c =? t) eqn:Et.
  - intros H. injection H as <-. exists c. split; auto. split; auto. lia.
  - intros H. destruct (IH H) as [d [Hd Hd']]. exists d. split; auto.
Qed.

Lemma cell_lookup_desc_in cs c : desc cs -> In c cs -> cell_lookup cs (c_ts c) = Some (c_val c).
Proof.
  induction cs as [|d r IH]; intros Hd Hin; [destruct Hin|].
  destruct Hd as [Hc Hr]. cbn. destruct Hin as [->|Hin].
  - rewrite Z.eqb_refl. reflexivity.
  - specialize (Hc c Hin). destruct (c_ts d =? c_ts c) eqn:E; [lia|]. apply IH; auto.
Qed.

Lemma cell_lookup_none cs t : (forall c, In c cs -> c_ts c <> t) -> cell_lookup cs t = None.
Proof.
  induction cs as [|c r IH]; intros H; cbn; auto.
  destruct (c_ts c =? t) eqn:E.
  - exfalso. apply (H c); [left; reflexivity|lia].
  - apply IH. intros d Hd. apply H. right. exact Hd.
Qed.

(* the head of a descending column is its newest cell *)
Lemma newest_is_max c r : desc (c :: r) ->
  cell_lookup (c :: r) (c_ts c) = Some (c_val c)
  /\ forall t, cell_lookup (c :: r) t <> None -> t <= c_ts c.
Proof.
  intros Hd. split.
  - cbn. rewrite Z.eqb_refl. reflexivity.
  - intros t Ht. destruct (cell_lookup (c :: r) t) as [v|] eqn:E; [|congruence].
    apply cell_lookup_in in E. destruct E as [d [Hd1 [Hd2 _]]]. subst t.
    eapply desc_head_max; eauto.
Qed.

(* ------------------------------------------------------------------ *)
(* 2a. insert_cell (appendOrReplaceCell) *)
Lemma insert_cell_lookup cs n t :
  cell_lookup (insert_cell cs n) t = if t =? c_ts n then Some (c_val n) else cell_lookup cs t.
Proof.
  induction cs as [|c r IH]; cbn.
  - rewrite (Z.eqb_sym t). reflexivity.
  - destruct (c_ts c =? c_ts n) eqn:E1.
    + cbn. rewrite (Z.eqb_sym t). destruct (c_ts n =? t) eqn:E2; auto.
      destruct (c_ts c =? t) eqn:E3; auto. lia.
    + destruct (c_ts c <? c_ts n) eqn:E2; cbn.
      * rewrite (Z.eqb_sym t). reflexivity.
      * rewrite IH. destruct (t =? c_ts n) eqn:E3; auto.
        destruct (c_ts c =? t) eqn:E4; auto. lia.
Qed.

Lemma insert_cell_in cs n d : In d (insert_cell cs n) -> d = n \/ In d cs.
Proof.
  induction cs as [|c r IH]; cbn.
  - intros [<-|[]]. auto.
  - destruct (c_ts c =? c_ts n).
    + intros [<-|H]; auto.
    + destruct (c_ts c <? c_ts n).
      * intros [<-|H]; auto.
      * intros [<-|H]; auto. destruct (IH H); auto.
Qed.

Lemma insert_cell_desc cs n : desc cs -> desc (insert_cell cs n).
Proof.
  induction cs as [|c r IH]; intros Hd; cbn.
  - split; auto. intros d [].
  - destruct Hd as [Hc Hr]. destruct (c_ts c =? c_ts n) eqn:E1.
    + split; auto. intros d Hd. specialize (Hc d Hd). lia.
    + destruct (c_ts c <? c_ts n) eqn:E2.
      * split; [|split; auto]. intros d [<-|Hd]; [lia|]. specialize (Hc d Hd). lia.
      * split; auto. intros d Hd. apply insert_cell_in in Hd. destruct Hd as [->|Hd]; [lia|auto].
Qed.

Theorem insert_cell_spec : forall cs n, desc cs ->
  desc (insert_cell cs n)
  /\ forall t, cell_lookup (insert_cell cs n) t = if t =? c_ts n then Some (c_val n) else cell_lookup cs t.
Proof. intros cs n Hd. split; [apply insert_cell_desc; exact Hd|apply insert_cell_lookup]. Qed.

(* the new cell is always present afterwards; every other cell of the result was there before *)
Lemma insert_cell_has cs n : In n (insert_cell cs n).
Proof.
  induction cs as [|c r IH]; cbn; auto.
  destruct (c_ts c =? c_ts n); [left; reflexivity|].
  destruct (c_ts c <? c_ts n); [left; reflexivity|right; exact IH].
Qed.

Lemma insert_cell_nonempty cs n : insert_cell cs n <> [].
Proof. intros H. pose proof (insert_cell_has cs n) as Hin. rewrite H in Hin. destruct Hin. Qed.

(* ------------------------------------------------------------------ *)
(* 2b. search_lt / delete_range: the index arithmetic of DeleteFromColumn *)
Lemma search_lt_le_length cs b : (search_lt cs b <= length cs)%nat.
Proof. induction cs as [|c r IH]; cbn; [lia|]. destruct (c_ts c <? b); cbn; lia. Qed.

Lemma skipn_search_lt cs b : desc cs ->
  skipn (search_lt cs b) cs = filter (fun c => c_ts c <? b) cs.
Proof.
  induction cs as [|c r IH]; intros Hd; cbn; auto.
  destruct Hd as [Hc Hr]. destruct (c_ts c <? b) eqn:E; cbn.
  - f_equal. symmetry. apply filter_all. intros d Hd. specialize (Hc d Hd). lia.
  - apply IH. exact Hr.
Qed.

Lemma firstn_search_lt cs b : desc cs ->
  firstn (search_lt cs b) cs = filter (fun c => b <=? c_ts c) cs.
Proof.
  induction cs as [|c r IH]; intros Hd; cbn; auto.
  destruct Hd as [Hc Hr]. destruct (c_ts c <? b) eqn:E; cbn.
  - assert (E' : (b <=? c_ts c) = false) by lia. rewrite E'.
    symmetry. apply filter_none. intros d Hd. specialize (Hc d Hd). lia.
  - assert (E' : (b <=? c_ts c) = true) by lia. rewrite E'. f_equal. apply IH. exact Hr.
Qed.

(* the interval actually removed, for arbitrary integers: a non-positive bound is "unbounded" *)
Definition in_range_gen (s e t : Z) : bool :=
  ((s <=? 0) || (s <=? t)) && ((e <=? 0) || (t <? e)).

Lemma skipn_lower cs s : desc cs ->
  skipn (if 0 <? s then search_lt cs s else length cs) cs
  = filter (fun c => negb ((s <=? 0) || (s <=? c_ts c))) cs.
Proof.
  intros Hd. destruct (0 <? s) eqn:E.
  - rewrite skipn_search_lt by exact Hd. apply filter_ext. intros c. lia.
  - rewrite skipn_all. symmetry. apply filter_none. intros c _. lia.
Qed.

Lemma delete_range_filter cs s e : desc cs ->
  delete_range cs s e = filter (fun c => negb (in_range_gen s e (c_ts c))) cs.
Proof.
  unfold in_range_gen.
  set (keep := fun c : cell => negb (((s <=? 0) || (s <=? c_ts c)) && ((e <=? 0) || (c_ts c <? e)))).
  induction cs as [|c r IH]; intros Hd.
  - unfold delete_range. cbn. destruct (0 <? s), (0 <? e); reflexivity.
  - destruct Hd as [Hc Hr]. specialize (IH Hr). unfold delete_range in *.
    cbn [search_lt length filter].
    pose proof (skipn_lower r s Hr) as Hl.
    destruct (0 <? e) eqn:E0.
    + destruct (c_ts c <? e) eqn:E1.
      * (* si = 0 *)
        destruct (0 <? s) eqn:S0.
        -- destruct (c_ts c <? s) eqn:S1.
           ++ (* ei = 0: nothing removed; every cell is below s *)
              cbn. assert (Hk : keep c = true) by (unfold keep; lia). rewrite Hk.
              f_equal. symmetry. apply filter_all. intros d Hd. specialize (Hc d Hd). unfold keep. lia.
           ++ (* ei = S _ : the head is removed, then everything down to s *)
              cbn [Nat.ltb Nat.leb firstn app skipn].
              assert (Hk : keep c = false) by (unfold keep; lia). rewrite Hk.
              rewrite Hl. apply filter_ext_in. intros d Hd. specialize (Hc d Hd). unfold keep. lia.
        -- cbn [Nat.ltb Nat.leb firstn app skipn].
           assert (Hk : keep c = false) by (unfold keep; lia). rewrite Hk.
           rewrite Hl. apply filter_ext_in. intros d Hd. specialize (Hc d Hd). unfold keep. lia.
      * (* si = S _ : the head stays *)
        assert (Hk : keep c = true) by (unfold keep; lia). rewrite Hk.
        destruct (0 <? s) eqn:S0.
        -- destruct (c_ts c <? s) eqn:S1.
           ++ cbn [Nat.ltb Nat.leb]. f_equal. symmetry. apply filter_all.
              intros d Hd. specialize (Hc d Hd). unfold keep. lia.
           ++ change (S (search_lt r e) <? S (search_lt r s))%nat with (search_lt r e <? search_lt r s)%nat.
              destruct (search_lt r e <? search_lt r s)%nat; cbn [firstn skipn app]; f_equal; exact IH.
        -- change (S (search_lt r e) <? S (length r))%nat with (search_lt r e <? length r)%nat.
           destruct (search_lt r e <? length r)%nat; cbn [firstn skipn app]; f_equal; exact IH.
    + (* e <= 0: si = 0 *)
      destruct (0 <? s) eqn:S0.
      * destruct (c_ts c <? s) eqn:S1.
        -- cbn. assert (Hk : keep c = true) by (unfold keep; lia). rewrite Hk.
           f_equal. symmetry. apply filter_all. intros d Hd. specialize (Hc d Hd). unfold keep. lia.
        -- cbn [Nat.ltb Nat.leb firstn app skipn].
           assert (Hk : keep c = false) by (unfold keep; lia). rewrite Hk.
           rewrite Hl. apply filter_ext_in. intros d Hd. unfold keep. lia.
      * cbn [Nat.ltb Nat.leb firstn app skipn].
        assert (Hk : keep c = false) by (unfold keep; lia). rewrite Hk.
        rewrite Hl. apply filter_ext_in. intros d Hd. unfold keep. lia.
Qed.

Lemma in_range_gen_nonneg s e t : 0 <= s -> 0 <= e -> in_range_gen s e t = in_del_range s e t.
Proof. intros Hs He. unfold in_range_gen, in_del_range. lia. Qed.

(* delete_range_halfopen: for every descending cell list the two sort.Search indices cut out
   exactly the cells with s <= ts < e, where s = 0 / e = 0 mean "unbounded" on that side;
   order and all other cells are kept (the result is a filter of the input). *)
Theorem delete_range_spec : forall cs s e, desc cs -> 0 <= s -> 0 <= e ->
  delete_range cs s e = filter (fun c => negb (in_del_range s e (c_ts c))) cs
  /\ desc (delete_range cs s e)
  /\ (forall c, In c (delete_range cs s e) <-> In c cs /\ in_del_range s e (c_ts c) = false)
  /\ (forall t, cell_lookup (delete_range cs s e) t = if in_del_range s e t then None else cell_lookup cs t).
Proof.
  intros cs s e Hd Hs He.
  assert (Heq : delete_range cs s e = filter (fun c => negb (in_del_range s e (c_ts c))) cs).
  { rewrite delete_range_filter by exact Hd. apply filter_ext. intros c.
    rewrite in_range_gen_nonneg by assumption. reflexivity. }
  split; [exact Heq|]. rewrite Heq. split; [apply desc_filter; exact Hd|]. split.
  - intros c. rewrite filter_In. destruct (in_del_range s e (c_ts c)); cbn; intuition congruence.
  - intros t. rewrite (cell_lookup_filter (fun t => negb (in_del_range s e t))).
    destruct (in_del_range s e t); reflexivity.
Qed.

(* the same for arbitrary (also negative) bounds: a bound <= 0 is "unbounded" *)
Theorem delete_range_spec_gen : forall cs s e, desc cs ->
  delete_range cs s e = filter (fun c => negb (in_range_gen s e (c_ts c))) cs.
Proof. intros. apply delete_range_filter. assumption. Qed.

(* With a literal lower bound ("s <= ts" also for s = 0) the statement is false for cells with a
   negative timestamp (ReadModifyWrite can store such cells when the clock is negative):
   start 0 removes them as well. *)
Lemma delete_range_literal_lower_bound_refuted :
  exists cs s e, desc cs /\ 0 <= s /\ 0 <= e /\
    delete_range cs s e <> filter (fun c => negb ((s <=? c_ts c) && ((e =? 0) || (c_ts c <? e)))) cs.
Proof.
  exists [mkCell (-1000) [] []], 0, 0. repeat split; try lia.
  - intros d [].
  - vm_compute. discriminate.
Qed.

(* when all timestamps are non-negative the literal reading is fine *)
Lemma delete_range_spec_nonneg_ts cs s e : desc cs -> 0 <= s -> 0 <= e ->
  (forall c, In c cs -> 0 <= c_ts c) ->
  delete_range cs s e = filter (fun c => negb ((s <=? c_ts c) && ((e =? 0) || (c_ts c <? e)))) cs.
Proof.
  intros Hd Hs He Hnn. destruct (delete_range_spec cs s e Hd Hs He) as [-> _].
  apply filter_ext_in. intros c Hc. specialize (Hnn c Hc). unfold in_del_range. lia.
Qed.

(* ------------------------------------------------------------------ *)
(* families and columns: get / set *)
Lemma get_family_some fs n f : get_family fs n = Some f -> fam_name f = n /\ In f fs.
Proof.
  induction fs as [|g r IH]; cbn; [discriminate|].
  destruct (beqb (fam_name g) n) eqn:E.
  - intros H. injection H as <-. apply beqb_eq in E. auto.
  - intros H. destruct (IH H). auto.
Qed.

Lemma get_family_none fs n : get_family fs n = None <-> ~ In n (map fam_name fs).
Proof.
  induction fs as [|g r IH]; cbn; [tauto|].
  destruct (beqb (fam_name g) n) eqn:E.
  - apply beqb_eq in E. split; [discriminate|]. intros H. exfalso. apply H. auto.
  - apply beqb_neq in E. rewrite IH. tauto.
Qed.

Lemma get_column_some cs q c : get_column cs q = Some c -> col_q c = q /\ In c cs.
Proof.
  induction cs as [|d r IH]; cbn; [discriminate|].
  destruct (beqb (col_q d) q) eqn:E.
  - intros H. injection H as <-. apply beqb_eq in E. auto.
  - intros H. destruct (IH H). auto.
Qed.

Lemma get_column_none cs q : get_column cs q = None <-> ~ In q (map col_q cs).
Proof.
  induction cs as [|d r IH]; cbn; [tauto|].
  destruct (beqb (col_q d) q) eqn:E.
  - apply beqb_eq in E. split; [discriminate|]. intros H. exfalso. apply H. auto.
  - apply beqb_neq in E. rewrite IH. tauto.
Qed.

Lemma get_set_family fs f n :
  get_family (set_family fs f) n = if beqb (fam_name f) n then Some f else get_family fs n.
Proof.
  induction fs as [|g r IH]; cbn.
  - destruct (beqb (fam_name f) n); reflexivity.
  - destruct (beqb (fam_name g) (fam_name f)) eqn:E; cbn.
    + apply beqb_eq in E. rewrite E. destruct (beqb (fam_name f) n); reflexivity.
    + rewrite IH. destruct (beqb (fam_name f) n) eqn:E2; auto.
      apply beqb_eq in E2. subst n. rewrite E. reflexivity.
Qed.

Lemma get_set_column cs c q :
  get_column (set_column cs c) q = if beqb (col_q c) q then Some c else get_column cs q.
Proof.
  induction cs as [|d r IH]; cbn.
  - destruct (beqb (col_q c) q); reflexivity.
  - destruct (beqb (col_q d) (col_q c)) eqn:E; cbn.
    + apply beqb_eq in E. rewrite E. destruct (beqb (col_q c) q); reflexivity.
    + rewrite IH. destruct (beqb (col_q c) q) eqn:E2; auto.
      apply beqb_eq in E2. subst q. rewrite E. reflexivity.
Qed.

Lemma set_family_names fs f :
  map fam_name (set_family fs f)
  = if get_family fs (fam_name f) then map fam_name fs else map fam_name fs ++ [fam_name f].
Proof.
  induction fs as [|g r IH]; cbn; auto.
  destruct (beqb (fam_name g) (fam_name f)) eqn:E; cbn.
  - apply beqb_eq in E. congruence.
  - rewrite IH. destruct (get_family r (fam_name f)); reflexivity.
Qed.

Lemma set_column_names cs c :
  map col_q (set_column cs c)
  = if get_column cs (col_q c) then map col_q cs else map col_q cs ++ [col_q c].
Proof.
  induction cs as [|d r IH]; cbn; auto.
  destruct (beqb (col_q d) (col_q c)) eqn:E; cbn.
  - apply beqb_eq in E. congruence.
  - rewrite IH. destruct (get_column r (col_q c)); reflexivity.
Qed.

Lemma NoDup_snoc {A} (l : list A) a : NoDup l -> ~ In a l -> NoDup (l ++ [a]).
Proof.
  induction l as [|x l IH]; intros Hn Ha; cbn.
  - constructor; [auto|constructor].
  - inversion Hn; subst. constructor.
    + rewrite in_app_iff. cbn. intros [H|[H|[]]]; [auto|]. subst. apply Ha. left. reflexivity.
    + apply IH; auto. intros H. apply Ha. right. exact H.
Qed.

Lemma set_family_nodup fs f : NoDup (map fam_name fs) -> NoDup (map fam_name (set_family fs f)).
Proof.
  intros H. rewrite set_family_names. destruct (get_family fs (fam_name f)) eqn:E; auto.
  apply NoDup_snoc; auto. apply get_family_none. exact E.
Qed.

Lemma set_column_nodup cs c : NoDup (map col_q cs) -> NoDup (map col_q (set_column cs c)).
Proof.
  intros H. rewrite set_column_names. destruct (get_column cs (col_q c)) eqn:E; auto.
  apply NoDup_snoc; auto. apply get_column_none. exact E.
Qed.

Lemma set_family_forall (P : family -> Prop) fs f : Forall P fs -> P f -> Forall P (set_family fs f).
Proof.
  induction fs as [|g r IH]; intros Hf Hp; cbn.
  - constructor; auto.
  - inversion Hf; subst. destruct (beqb (fam_name g) (fam_name f)); constructor; auto.
Qed.

Lemma set_column_forall (P : column -> Prop) cs c : Forall P cs -> P c -> Forall P (set_column cs c).
Proof.
  induction cs as [|d r IH]; intros Hf Hp; cbn.
  - constructor; auto.
  - inversion Hf; subst. destruct (beqb (col_q d) (col_q c)); constructor; auto.
Qed.

(* ------------------------------------------------------------------ *)
(* abs_fams / cells_of *)
Lemma abs_cells_of fs f q t : abs_fams fs f q t = cell_lookup (cells_of fs f q) t.
Proof.
  unfold abs_fams, cells_of. destruct (get_family fs f) as [fm|]; auto.
  destruct (get_column (fam_cols fm) q); auto.
Qed.

Lemma fams_ok_nil : fams_ok [].
Proof. split; constructor. Qed.

Lemma fams_ok_family fs n fm : fams_ok fs -> get_family fs n = Some fm -> fam_ok fm.
Proof.
  intros [_ Hf] Hg. apply get_family_some in Hg. destruct Hg as [_ Hin].
  rewrite Forall_forall in Hf. auto.
Qed.

Lemma fams_ok_cells_desc fs f q : fams_ok fs -> desc (cells_of fs f q).
Proof.
  intros Hok. unfold cells_of. destruct (get_family fs f) as [fm|] eqn:Ef; cbn; auto.
  destruct (get_column (fam_cols fm) q) as [c|] eqn:Ec; cbn; auto.
  destruct (fams_ok_family _ _ _ Hok Ef) as [_ Hc]. apply get_column_some in Ec.
  rewrite Forall_forall in Hc. apply Hc. tauto.
Qed.

(* upd_col: the single place where SetCell / DeleteFromColumn / ReadModifyWrite touch a row *)
Lemma cells_of_upd_col fs fam q g f q' :
  cells_of (upd_col fs fam q g) f q'
  = if beqb f fam && beqb q' q then g (cells_of fs fam q) else cells_of fs f q'.
Proof.
  unfold upd_col, cells_of. rewrite get_set_family. cbn [fam_name fam_cols].
  rewrite (beqb_sym fam f). destruct (beqb f fam) eqn:Ef; cbn [andb]; auto.
  apply beqb_eq in Ef. subst f. cbn [fam_cols].
  rewrite get_set_column. cbn [col_q col_cells]. rewrite (beqb_sym q q').
  destruct (beqb q' q) eqn:Eq.
  - apply beqb_eq in Eq. subst q'. destruct (get_family fs fam) as [fm|]; cbn; auto.
    destruct (get_column (fam_cols fm) q); reflexivity.
  - destruct (get_family fs fam) as [fm|]; cbn; auto.
Qed.

Lemma abs_upd_col fs fam q g f q' t :
  abs_fams (upd_col fs fam q g) f q' t
  = if beqb f fam && beqb q' q then cell_lookup (g (cells_of fs fam q)) t else abs_fams fs f q' t.
Proof.
  rewrite !abs_cells_of, cells_of_upd_col. destruct (beqb f fam && beqb q' q); reflexivity.
Qed.

Lemma upd_col_ok fs fam q g : fams_ok fs -> desc (g (cells_of fs fam q)) -> fams_ok (upd_col fs fam q g).
Proof.
  intros [Hn Hf] Hg. unfold upd_col, cells_of in *. split.
  - apply set_family_nodup. exact Hn.
  - apply set_family_forall; auto.
    destruct (get_family fs fam) as [fm|] eqn:Ef.
    + apply get_family_some in Ef. destruct Ef as [_ Hin].
      rewrite Forall_forall in Hf. destruct (Hf fm Hin) as [Hcn Hcf].
      split; cbn [fam_cols].
      * apply set_column_nodup. exact Hcn.
      * apply set_column_forall; auto. unfold col_ok. cbn [col_cells].
        destruct (get_column (fam_cols fm) q); exact Hg.
    + cbn in *. split; cbn.
      * constructor; [auto|constructor].
      * constructor; auto.
Qed.

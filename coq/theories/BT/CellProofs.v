(* Cell-, column- and family-level lemmas about the row representation of BT/Mutate.v
   against the Layer-B spec of BT/CellSpec.v. *)
From Coq Require Import List NArith ZArith Bool Lia ZifyBool ZifyNat ZifyN Arith.
Import ListNotations.
From Emu.Common Require Import Bytes Str StrProofs.
From Emu.BT Require Import Types Mutate Server CellSpec.
Local Open Scope Z_scope.

(* ------------------------------------------------------------------ *)
(* generic list facts *)
Lemma filter_all {A} (p : A -> bool) l : (forall x, In x l -> p x = true) -> filter p l = l.
Proof.
  induction l as [|a l IH]; intros H; cbn; auto.
  rewrite (H a (or_introl eq_refl)). f_equal. apply IH. intros x Hx. apply H. right. exact Hx.
Qed.

Lemma filter_none {A} (p : A -> bool) l : (forall x, In x l -> p x = false) -> filter p l = [].
Proof.
  induction l as [|a l IH]; intros H; cbn; auto.
  rewrite (H a (or_introl eq_refl)). apply IH. intros x Hx. apply H. right. exact Hx.
Qed.

(* ------------------------------------------------------------------ *)
(* desc *)
Lemma desc_tail c r : desc (c :: r) -> desc r.
Proof. intros [_ H]. exact H. Qed.

Lemma desc_filter p cs : desc cs -> desc (filter p cs).
Proof.
  induction cs as [|c r IH]; intros Hd; cbn; auto.
  destruct Hd as [Hc Hr]. destruct (p c); cbn; auto.
  split; auto. intros d Hd. apply filter_In in Hd. apply Hc. tauto.
Qed.

Lemma desc_firstn n cs : desc cs -> desc (firstn n cs).
Proof.
  revert cs. induction n as [|n IH]; intros [|c r] Hd; cbn; auto.
  destruct Hd as [Hc Hr]. split; auto.
  intros d Hd. apply Hc. rewrite <- (firstn_skipn n r). apply in_or_app. left. exact Hd.
Qed.

Lemma desc_head_max c r : desc (c :: r) -> forall d, In d (c :: r) -> c_ts d <= c_ts c.
Proof. intros [Hc _] d [<-|Hd]; [lia|]. specialize (Hc d Hd). lia. Qed.

(* boolean checker, for examples *)
Fixpoint descb (cs : list cell) : bool :=
  match cs with
  | [] => true
  | c :: r => forallb (fun d => c_ts d <? c_ts c) r && descb r
  end.

Lemma descb_sound cs : descb cs = true -> desc cs.
Proof.
  induction cs as [|c r IH]; cbn; auto. intros H. apply andb_prop in H. destruct H as [H1 H2].
  split; auto. intros d Hd. rewrite forallb_forall in H1. specialize (H1 d Hd). lia.
Qed.

(* ------------------------------------------------------------------ *)
(* cell_lookup *)
Lemma cell_lookup_filter (p : Z -> bool) cs t :
  cell_lookup (filter (fun c => p (c_ts c)) cs) t = if p t then cell_lookup cs t else None.
Proof.
  induction cs as [|c r IH]; cbn.
  - destruct (p t); reflexivity.
  - destruct (p (c_ts c)) eqn:Ep; cbn.
    + destruct (c_ts c =? t) eqn:Et.
      * assert (c_ts c = t) by lia. subst t. rewrite Ep. reflexivity.
      * exact IH.
    + rewrite IH. destruct (c_ts c =? t) eqn:Et; auto.
      assert (c_ts c = t) by lia. subst t. rewrite Ep. reflexivity.
Qed.

Lemma cell_lookup_in cs t v : cell_lookup cs t = Some v -> exists c, In c cs /\ c_ts c = t /\ c_val c = v.
Proof.
  induction cs as [|c r IH]; cbn; [discriminate|].
  destruct (c_ts c =? t) eqn:Et.
  - intros H. injection H as <-. exists c. split; auto. split; auto. lia.
  - intros H. destruct (IH H) as [d [Hd Hd']]. exists d. split; auto.
Qed.

Lemma cell_lookup_desc_in cs c : desc cs -> In c cs -> cell_lookup cs (c_ts c) = Some (c_val c).
Proof.
  induction cs as [|d r IH]; intros Hd Hin; [destruct Hin|].
  destruct Hd as [Hc Hr]. cbn. destruct Hin as [->|Hin].
  - rewrite Z.eqb_refl. reflexivity.
  - specialize (Hc c Hin). destruct (c_ts d =? c_ts c) eqn:E; [lia|]. apply IH; auto.
Qed.

Lemma cell_lookup_none cs t : (forall c, In c cs -> c_ts c <> t) -> cell_lookup cs t = None.
Proof.
  induction cs as [|c r IH]; intros H; cbn; auto.
  destruct (c_ts c =? t) eqn:E.
  - exfalso. apply (H c); [left; reflexivity|lia].
  - apply IH. intros d Hd. apply H. right. exact Hd.
Qed.

(* the head of a descending column is its newest cell *)
Lemma newest_is_max c r : desc (c :: r) ->
  cell_lookup (c :: r) (c_ts c) = Some (c_val c)
  /\ forall t, cell_lookup (c :: r) t <> None -> t <= c_ts c.
Proof.
  intros Hd. split.
  - cbn. rewrite Z.eqb_refl. reflexivity.
  - intros t Ht. destruct (cell_lookup (c :: r) t) as [v|] eqn:E; [|congruence].
    apply cell_lookup_in in E. destruct E as [d [Hd1 [Hd2 _]]]. subst t.
    eapply desc_head_max; eauto.
Qed.

(* ------------------------------------------------------------------ *)
(* 2a. insert_cell (appendOrReplaceCell) *)
Lemma insert_cell_lookup cs n t :
  cell_lookup (insert_cell cs n) t = if t =? c_ts n then Some (c_val n) else cell_lookup cs t.
Proof.
  induction cs as [|c r IH]; cbn.
  - rewrite (Z.eqb_sym t). reflexivity.
  - destruct (c_ts c =? c_ts n) eqn:E1.
    + cbn. rewrite (Z.eqb_sym t). destruct (c_ts n =? t) eqn:E2; auto.
      destruct (c_ts c =? t) eqn:E3; auto. lia.
    + destruct (c_ts c <? c_ts n) eqn:E2; cbn.
      * rewrite (Z.eqb_sym t). reflexivity.
      * rewrite IH. destruct (t =? c_ts n) eqn:E3; auto.
        destruct (c_ts c =? t) eqn:E4; auto. lia.
Qed.

Lemma insert_cell_in cs n d : In d (insert_cell cs n) -> d = n \/ In d cs.
Proof.
  induction cs as [|c r IH]; cbn.
  - intros [<-|[]]. auto.
  - destruct (c_ts c =? c_ts n).
    + intros [<-|H]; auto.
    + destruct (c_ts c <? c_ts n).
      * intros [<-|H]; auto.
      * intros [<-|H]; auto. destruct (IH H); auto.
Qed.

Lemma insert_cell_desc cs n : desc cs -> desc (insert_cell cs n).
Proof.
  induction cs as [|c r IH]; intros Hd; cbn.
  - split; auto. intros d [].
  - destruct Hd as [Hc Hr]. destruct (c_ts c =? c_ts n) eqn:E1.
    + split; auto. intros d Hd. specialize (Hc d Hd). lia.
    + destruct (c_ts c <? c_ts n) eqn:E2.
      * split; [|split; auto]. intros d [<-|Hd]; [lia|]. specialize (Hc d Hd). lia.
      * split; auto. intros d Hd. apply insert_cell_in in Hd. destruct Hd as [->|Hd]; [lia|auto].
Qed.

Theorem insert_cell_spec : forall cs n, desc cs ->
  desc (insert_cell cs n)
  /\ forall t, cell_lookup (insert_cell cs n) t = if t =? c_ts n then Some (c_val n) else cell_lookup cs t.
Proof. intros cs n Hd. split; [apply insert_cell_desc; exact Hd|apply insert_cell_lookup]. Qed.

(* the new cell is always present afterwards; every other cell of the result was there before *)
Lemma insert_cell_has cs n : In n (insert_cell cs n).
Proof.
  induction cs as [|c r IH]; cbn; auto.
  destruct (c_ts c =? c_ts n); [left; reflexivity|].
  destruct (c_ts c <? c_ts n); [left; reflexivity|right; exact IH].
Qed.

Lemma insert_cell_nonempty cs n : insert_cell cs n <> [].
Proof. intros H. pose proof (insert_cell_has cs n) as Hin. rewrite H in Hin. destruct Hin. Qed.

(* ------------------------------------------------------------------ *)
(* 2b. search_lt / delete_range: the index arithmetic of DeleteFromColumn *)
Lemma search_lt_le_length cs b : (search_lt cs b <= length cs)%nat.
Proof. induction cs as [|c r IH]; cbn; [lia|]. destruct (c_ts c <? b); cbn; lia. Qed.

Lemma skipn_search_lt cs b : desc cs ->
  skipn (search_lt cs b) cs = filter (fun c => c_ts c <? b) cs.
Proof.
  induction cs as [|c r IH]; intros Hd; cbn; auto.
  destruct Hd as [Hc Hr]. destruct (c_ts c <? b) eqn:E; cbn.
  - f_equal. symmetry. apply filter_all. intros d Hd. specialize (Hc d Hd). lia.
  - apply IH. exact Hr.
Qed.

Lemma firstn_search_lt cs b : desc cs ->
  firstn (search_lt cs b) cs = filter (fun c => b <=? c_ts c) cs.
Proof.
  induction cs as [|c r IH]; intros Hd; cbn; auto.
  destruct Hd as [Hc Hr]. destruct (c_ts c <? b) eqn:E; cbn.
  - assert (E' : (b <=? c_ts c) = false) by lia. rewrite E'.
    symmetry. apply filter_none. intros d Hd. specialize (Hc d Hd). lia.
  - assert (E' : (b <=? c_ts c) = true) by lia. rewrite E'. f_equal. apply IH. exact Hr.
Qed.

(* the interval actually removed, for arbitrary integers: a non-positive bound is "unbounded" *)
Definition in_range_gen (s e t : Z) : bool :=
  ((s <=? 0) || (s <=? t)) && ((e <=? 0) || (t <? e)).

Lemma skipn_lower cs s : desc cs ->
  skipn (if 0 <? s then search_lt cs s else length cs) cs
  = filter (fun c => negb ((s <=? 0) || (s <=? c_ts c))) cs.
Proof.
  intros Hd. destruct (0 <? s) eqn:E.
  - rewrite skipn_search_lt by exact Hd. apply filter_ext. intros c. lia.
  - rewrite skipn_all. symmetry. apply filter_none. intros c _. lia.
Qed.

Lemma delete_range_filter cs s e : desc cs ->
  delete_range cs s e = filter (fun c => negb (in_range_gen s e (c_ts c))) cs.
Proof.
  unfold in_range_gen.
  set (keep := fun c : cell => negb (((s <=? 0) || (s <=? c_ts c)) && ((e <=? 0) || (c_ts c <? e)))).
  induction cs as [|c r IH]; intros Hd.
  - unfold delete_range. cbn. destruct (0 <? s), (0 <? e); reflexivity.
  - destruct Hd as [Hc Hr]. specialize (IH Hr). unfold delete_range in *.
    cbn [search_lt length filter].
    pose proof (skipn_lower r s Hr) as Hl.
    destruct (0 <? e) eqn:E0.
    + destruct (c_ts c <? e) eqn:E1.
      * (* si = 0 *)
        destruct (0 <? s) eqn:S0.
        -- destruct (c_ts c <? s) eqn:S1.
           ++ (* ei = 0: nothing removed; every cell is below s *)
              cbn. assert (Hk : keep c = true) by (unfold keep; lia). rewrite Hk.
              f_equal. symmetry. apply filter_all. intros d Hd. specialize (Hc d Hd). unfold keep. lia.
           ++ (* ei = S _ : the head is removed, then everything down to s *)
              cbn [Nat.ltb Nat.leb firstn app skipn].
              assert (Hk : keep c = false) by (unfold keep; lia). rewrite Hk.
              rewrite Hl. apply filter_ext_in. intros d Hd. specialize (Hc d Hd). unfold keep. lia.
        -- cbn [Nat.ltb Nat.leb firstn app skipn].
           assert (Hk : keep c = false) by (unfold keep; lia). rewrite Hk.
           rewrite Hl. apply filter_ext_in. intros d Hd. specialize (Hc d Hd). unfold keep. lia.
      * (* si = S _ : the head stays *)
        assert (Hk : keep c = true) by (unfold keep; lia). rewrite Hk.
        destruct (0 <? s) eqn:S0.
        -- destruct (c_ts c <? s) eqn:S1.
           ++ cbn [Nat.ltb Nat.leb]. f_equal. symmetry. apply filter_all.
              intros d Hd. specialize (Hc d Hd). unfold keep. lia.
           ++ change (S (search_lt r e) <? S (search_lt r s))%nat with (search_lt r e <? search_lt r s)%nat.
              destruct (search_lt r e <? search_lt r s)%nat; cbn [firstn skipn app]; f_equal; exact IH.
        -- change (S (search_lt r e) <? S (length r))%nat with (search_lt r e <? length r)%nat.
           destruct (search_lt r e <? length r)%nat; cbn [firstn skipn app]; f_equal; exact IH.
    + (* e <= 0: si = 0 *)
      destruct (0 <? s) eqn:S0.
      * destruct (c_ts c <? s) eqn:S1.
        -- cbn. assert (Hk : keep c = true) by (unfold keep; lia). rewrite Hk.
           f_equal. symmetry. apply filter_all. intros d Hd. specialize (Hc d Hd). unfold keep. lia.
        -- cbn [Nat.ltb Nat.leb firstn app skipn].
           assert (Hk : keep c = false) by (unfold keep; lia). rewrite Hk.
           rewrite Hl. apply filter_ext_in. intros d Hd. unfold keep. lia.
      * cbn [Nat.ltb Nat.leb firstn app skipn].
        assert (Hk : keep c = false) by (unfold keep; lia). rewrite Hk.
        rewrite Hl. apply filter_ext_in. intros d Hd. unfold keep. lia.
Qed.

Lemma in_range_gen_nonneg s e t : 0 <= s -> 0 <= e -> in_range_gen s e t = in_del_range s e t.
Proof. intros Hs He. unfold in_range_gen, in_del_range. lia. Qed.

(* delete_range_halfopen: for every descending cell list the two sort.Search indices cut out
   exactly the cells with s <= ts < e, where s = 0 / e = 0 mean "unbounded" on that side;
   order and all other cells are kept (the result is a filter of the input). *)
Theorem delete_range_spec : forall cs s e, desc cs -> 0 <= s -> 0 <= e ->
  delete_range cs s e = filter (fun c => negb (in_del_range s e (c_ts c))) cs
  /\ desc (delete_range cs s e)
  /\ (forall c, In c (delete_range cs s e) <-> In c cs /\ in_del_range s e (c_ts c) = false)
  /\ (forall t, cell_lookup (delete_range cs s e) t = if in_del_range s e t then None else cell_lookup cs t).
Proof.
  intros cs s e Hd Hs He.
  assert (Heq : delete_range cs s e = filter (fun c => negb (in_del_range s e (c_ts c))) cs).
  { rewrite delete_range_filter by exact Hd. apply filter_ext. intros c.
    rewrite in_range_gen_nonneg by assumption. reflexivity. }
  split; [exact Heq|]. rewrite Heq. split; [apply desc_filter; exact Hd|]. split.
  - intros c. rewrite filter_In. destruct (in_del_range s e (c_ts c)); cbn; intuition congruence.
  - intros t. rewrite (cell_lookup_filter (fun t => negb (in_del_range s e t))).
    destruct (in_del_range s e t); reflexivity.
Qed.

(* the same for arbitrary (also negative) bounds: a bound <= 0 is "unbounded" *)
Theorem delete_range_spec_gen : forall cs s e, desc cs ->
  delete_range cs s e = filter (fun c => negb (in_range_gen s e (c_ts c))) cs.
Proof. intros. apply delete_range_filter. assumption. Qed.

(* With a literal lower bound ("s <= ts" also for s = 0) the statement is false for cells with a
   negative timestamp (ReadModifyWrite can store such cells when the clock is negative):
   start 0 removes them as well. *)
Lemma delete_range_literal_lower_bound_refuted :
  exists cs s e, desc cs /\ 0 <= s /\ 0 <= e /\
    delete_range cs s e <> filter (fun c => negb ((s <=? c_ts c) && ((e =? 0) || (c_ts c <? e)))) cs.
Proof.
  exists [mkCell (-1000) [] []], 0, 0. repeat split; try lia.
  - intros d [].
  - vm_compute. discriminate.
Qed.

(* when all timestamps are non-negative the literal reading is fine *)
Lemma delete_range_spec_nonneg_ts cs s e : desc cs -> 0 <= s -> 0 <= e ->
  (forall c, In c cs -> 0 <= c_ts c) ->
  delete_range cs s e = filter (fun c => negb ((s <=? c_ts c) && ((e =? 0) || (c_ts c <? e)))) cs.
Proof.
  intros Hd Hs He Hnn. destruct (delete_range_spec cs s e Hd Hs He) as [-> _].
  apply filter_ext_in. intros c Hc. specialize (Hnn c Hc). unfold in_del_range. lia.
Qed.

(* ------------------------------------------------------------------ *)
(* families and columns: get / set *)
Lemma get_family_some fs n f : get_family fs n = Some f -> fam_name f = n /\ In f fs.
Proof.
  induction fs as [|g r IH]; cbn; [discriminate|].
  destruct (beqb (fam_name g) n) eqn:E.
  - intros H. injection H as <-. apply beqb_eq in E. auto.
  - intros H. destruct (IH H). auto.
Qed.

Lemma get_family_none fs n : get_family fs n = None <-> ~ In n (map fam_name fs).
Proof.
  induction fs as [|g r IH]; cbn; [tauto|].
  destruct (beqb (fam_name g) n) eqn:E.
  - apply beqb_eq in E. split; [discriminate|]. intros H. exfalso. apply H. auto.
  - apply beqb_neq in E. rewrite IH. tauto.
Qed.

Lemma get_column_some cs q c : get_column cs q = Some c -> col_q c = q /\ In c cs.
Proof.
  induction cs as [|d r IH]; cbn; [discriminate|].
  destruct (beqb (col_q d) q) eqn:E.
  - intros H. injection H as <-. apply beqb_eq in E. auto.
  - intros H. destruct (IH H). auto.
Qed.

Lemma get_column_none cs q : get_column cs q = None <-> ~ In q (map col_q cs).
Proof.
  induction cs as [|d r IH]; cbn; [tauto|].
  destruct (beqb (col_q d) q) eqn:E.
  - apply beqb_eq in E. split; [discriminate|]. intros H. exfalso. apply H. auto.
  - apply beqb_neq in E. rewrite IH. tauto.
Qed.

Lemma get_set_family fs f n :
  get_family (set_family fs f) n = if beqb (fam_name f) n then Some f else get_family fs n.
Proof.
  induction fs as [|g r IH]; cbn.
  - destruct (beqb (fam_name f) n); reflexivity.
  - destruct (beqb (fam_name g) (fam_name f)) eqn:E; cbn.
    + apply beqb_eq in E. rewrite E. destruct (beqb (fam_name f) n); reflexivity.
    + rewrite IH. destruct (beqb (fam_name f) n) eqn:E2; auto.
      apply beqb_eq in E2. subst n. rewrite E. reflexivity.
Qed.

Lemma get_set_column cs c q :
  get_column (set_column cs c) q = if beqb (col_q c) q then Some c else get_column cs q.
Proof.
  induction cs as [|d r IH]; cbn.
  - destruct (beqb (col_q c) q); reflexivity.
  - destruct (beqb (col_q d) (col_q c)) eqn:E; cbn.
    + apply beqb_eq in E. rewrite E. destruct (beqb (col_q c) q); reflexivity.
    + rewrite IH. destruct (beqb (col_q c) q) eqn:E2; auto.
      apply beqb_eq in E2. subst q. rewrite E. reflexivity.
Qed.

Lemma set_family_names fs f :
  map fam_name (set_family fs f)
  = if get_family fs (fam_name f) then map fam_name fs else map fam_name fs ++ [fam_name f].
Proof.
  induction fs as [|g r IH]; cbn; auto.
  destruct (beqb (fam_name g) (fam_name f)) eqn:E; cbn.
  - apply beqb_eq in E. congruence.
  - rewrite IH. destruct (get_family r (fam_name f)); reflexivity.
Qed.

Lemma set_column_names cs c :
  map col_q (set_column cs c)
  = if get_column cs (col_q c) then map col_q cs else map col_q cs ++ [col_q c].
Proof.
  induction cs as [|d r IH]; cbn; auto.
  destruct (beqb (col_q d) (col_q c)) eqn:E; cbn.
  - apply beqb_eq in E. congruence.
  - rewrite IH. destruct (get_column r (col_q c)); reflexivity.
Qed.

Lemma NoDup_snoc {A} (l : list A) a : NoDup l -> ~ In a l -> NoDup (l ++ [a]).
Proof.
  induction l as [|x l IH]; intros Hn Ha; cbn.
  - constructor; [auto|constructor].
  - inversion Hn; subst. constructor.
    + rewrite in_app_iff. cbn. intros [H|[H|[]]]; [auto|]. subst. apply Ha. left. reflexivity.
    + apply IH; auto. intros H. apply Ha. right. exact H.
Qed.

Lemma set_family_nodup fs f : NoDup (map fam_name fs) -> NoDup (map fam_name (set_family fs f)).
Proof.
  intros H. rewrite set_family_names. destruct (get_family fs (fam_name f)) eqn:E; auto.
  apply NoDup_snoc; auto. apply get_family_none. exact E.
Qed.

Lemma set_column_nodup cs c : NoDup (map col_q cs) -> NoDup (map col_q (set_column cs c)).
Proof.
  intros H. rewrite set_column_names. destruct (get_column cs (col_q c)) eqn:E; auto.
  apply NoDup_snoc; auto. apply get_column_none. exact E.
Qed.

Lemma set_family_forall (P : family -> Prop) fs f : Forall P fs -> P f -> Forall P (set_family fs f).
Proof.
  induction fs as [|g r IH]; intros Hf Hp; cbn.
  - constructor; auto.
  - inversion Hf; subst. destruct (beqb (fam_name g) (fam_name f)); constructor; auto.
Qed.

Lemma set_column_forall (P : column -> Prop) cs c : Forall P cs -> P c -> Forall P (set_column cs c).
Proof.
  induction cs as [|d r IH]; intros Hf Hp; cbn.
  - constructor; auto.
  - inversion Hf; subst. destruct (beqb (col_q d) (col_q c)); constructor; auto.
Qed.

(* ------------------------------------------------------------------ *)
(* abs_fams / cells_of *)
Lemma abs_cells_of fs f q t : abs_fams fs f q t = cell_lookup (cells_of fs f q) t.
Proof.
  unfold abs_fams, cells_of. destruct (get_family fs f) as [fm|]; auto.
  destruct (get_column (fam_cols fm) q); auto.
Qed.

Lemma fams_ok_nil : fams_ok [].
Proof. split; constructor. Qed.

Lemma fams_ok_family fs n fm : fams_ok fs -> get_family fs n = Some fm -> fam_ok fm.
Proof.
  intros [_ Hf] Hg. apply get_family_some in Hg. destruct Hg as [_ Hin].
  rewrite Forall_forall in Hf. auto.
Qed.

Lemma fams_ok_cells_desc fs f q : fams_ok fs -> desc (cells_of fs f q).
Proof.
  intros Hok. unfold cells_of. destruct (get_family fs f) as [fm|] eqn:Ef; cbn; auto.
  destruct (get_column (fam_cols fm) q) as [c|] eqn:Ec; cbn; auto.
  destruct (fams_ok_family _ _ _ Hok Ef) as [_ Hc]. apply get_column_some in Ec.
  rewrite Forall_forall in Hc. apply Hc. tauto.
Qed.

(* upd_col: the single place where SetCell / DeleteFromColumn / ReadModifyWrite touch a row *)
Lemma cells_of_upd_col fs fam q g f q' :
  cells_of (upd_col fs fam q g) f q'
  = if beqb f fam && beqb q' q then g (cells_of fs fam q) else cells_of fs f q'.
Proof.
  unfold upd_col, cells_of. rewrite get_set_family. cbn [fam_name fam_cols].
  rewrite (beqb_sym fam f). destruct (beqb f fam) eqn:Ef; cbn [andb]; auto.
  apply beqb_eq in Ef. subst f. cbn [fam_cols].
  rewrite get_set_column. cbn [col_q col_cells]. rewrite (beqb_sym q q').
  destruct (beqb q' q) eqn:Eq.
  - apply beqb_eq in Eq. subst q'. destruct (get_family fs fam) as [fm|]; cbn; auto.
    destruct (get_column (fam_cols fm) q); reflexivity.
  - destruct (get_family fs fam) as [fm|]; cbn; auto.
Qed.

Lemma abs_upd_col fs fam q g f q' t :
  abs_fams (upd_col fs fam q g) f q' t
  = if beqb f fam && beqb q' q then cell_lookup (g (cells_of fs fam q)) t else abs_fams fs f q' t.
Proof.
  rewrite !abs_cells_of, cells_of_upd_col. destruct (beqb f fam && beqb q' q); reflexivity.
Qed.

Lemma upd_col_ok fs fam q g : fams_ok fs -> desc (g (cells_of fs fam q)) -> fams_ok (upd_col fs fam q g).
Proof.
  intros [Hn Hf] Hg. unfold upd_col, cells_of in *. split.
  - apply set_family_nodup. exact Hn.
  - apply set_family_forall; auto.
    destruct (get_family fs fam) as [fm|] eqn:Ef.
    + apply get_family_some in Ef. destruct Ef as [_ Hin].
      rewrite Forall_forall in Hf. destruct (Hf fm Hin) as [Hcn Hcf].
      split; cbn [fam_cols].
      * apply set_column_nodup. exact Hcn.
      * apply set_column_forall; auto. unfold col_ok. cbn [col_cells].
        destruct (get_column (fam_cols fm) q); exact Hg.
    + cbn in *. split; cbn.
      * constructor; [auto|constructor].
      * constructor; auto.
Qed.

(* ------------------------------------------------------------------ *)
(* 2d. scrubRow / scrubFam *)
Definition nonempty_col (c : column) : bool := match col_cells c with [] => false | _ => true end.
Definition nonempty_fam (f : family) : bool := match fam_cols f with [] => false | _ => true end.

Lemma insert_col_in c l x : In x (insert_col c l) <-> x = c \/ In x l.
Proof.
  induction l as [|d r IH]; cbn.
  - intuition.
  - destruct (lex_ltb (col_q c) (col_q d)); cbn; [intuition|]. rewrite IH. intuition.
Qed.

Lemma sort_cols_in l x : In x (sort_cols l) <-> In x l.
Proof.
  induction l as [|c r IH]; cbn; [tauto|]. rewrite insert_col_in, IH. intuition.
Qed.

Lemma insert_col_nonempty c l : insert_col c l <> [].
Proof. destruct l as [|d r]; cbn; [discriminate|]. destruct (lex_ltb _ _); discriminate. Qed.

Lemma sort_cols_nil l : sort_cols l = [] <-> l = [].
Proof.
  destruct l as [|c r]; cbn; [tauto|]. split; [|discriminate].
  intros H. exfalso. eapply insert_col_nonempty; eauto.
Qed.

Lemma insert_col_names_in c l q : In q (map col_q (insert_col c l)) <-> q = col_q c \/ In q (map col_q l).
Proof.
  rewrite !in_map_iff. split.
  - intros [x [Hx Hin]]. apply insert_col_in in Hin. destruct Hin as [->|Hin]; [left; auto|].
    right. exists x. auto.
  - intros [->|[x [Hx Hin]]].
    + exists c. split; auto. apply insert_col_in. auto.
    + exists x. split; auto. apply insert_col_in. auto.
Qed.

Lemma sort_cols_names_in l q : In q (map col_q (sort_cols l)) <-> In q (map col_q l).
Proof.
  rewrite !in_map_iff. split; intros [x [Hx Hin]]; exists x; split; auto; apply sort_cols_in; auto.
Qed.

Lemma insert_col_nodup c l : NoDup (map col_q l) -> ~ In (col_q c) (map col_q l) ->
  NoDup (map col_q (insert_col c l)).
Proof.
  induction l as [|d r IH]; intros Hn Hc; cbn.
  - constructor; [auto|constructor].
  - destruct (lex_ltb (col_q c) (col_q d)); cbn.
    + constructor; auto.
    + inversion Hn; subst. constructor.
      * rewrite insert_col_names_in. intros [H|H]; [|auto]. apply Hc. left. auto.
      * apply IH; auto. intros H. apply Hc. right. exact H.
Qed.

Lemma sort_cols_nodup l : NoDup (map col_q l) -> NoDup (map col_q (sort_cols l)).
Proof.
  induction l as [|c r IH]; intros Hn; cbn; [constructor|].
  inversion Hn; subst. apply insert_col_nodup; auto. rewrite sort_cols_names_in. auto.
Qed.

Lemma get_column_insert_col c l q : ~ In (col_q c) (map col_q l) ->
  get_column (insert_col c l) q = if beqb (col_q c) q then Some c else get_column l q.
Proof.
  induction l as [|d r IH]; intros Hc; cbn; auto.
  destruct (lex_ltb (col_q c) (col_q d)); cbn; auto.
  rewrite IH by (intros H; apply Hc; right; exact H).
  destruct (beqb (col_q d) q) eqn:Ed; auto.
  destruct (beqb (col_q c) q) eqn:Ec; auto.
  apply beqb_eq in Ed. apply beqb_eq in Ec. exfalso. apply Hc. left. congruence.
Qed.

Lemma get_column_sort_cols l q : NoDup (map col_q l) -> get_column (sort_cols l) q = get_column l q.
Proof.
  induction l as [|c r IH]; intros Hn; cbn; auto.
  inversion Hn; subst. rewrite get_column_insert_col by (rewrite sort_cols_names_in; auto).
  fold (sort_cols r). rewrite IH by auto. reflexivity.
Qed.

Lemma lex_ltb_false_lt a b : lex_ltb a b = false -> a <> b -> lex_lt b a.
Proof.
  unfold lex_ltb, lex_lt. intros H Hne. rewrite (lex_antisym a b).
  destruct (lex_cmp a b) eqn:E; try discriminate; auto.
  apply lex_eq in E. contradiction.
Qed.

Lemma insert_col_qsorted c l : qsorted l -> ~ In (col_q c) (map col_q l) -> qsorted (insert_col c l).
Proof.
  induction l as [|d r IH]; intros Hs Hc; cbn.
  - split; auto. intros x [].
  - destruct Hs as [Hd Hr]. destruct (lex_ltb (col_q c) (col_q d)) eqn:E.
    + split; [|split; auto]. assert (Hlt : lex_lt (col_q c) (col_q d)).
      { unfold lex_ltb in E. unfold lex_lt. destruct (lex_cmp (col_q c) (col_q d)); auto; discriminate. }
      intros x [<-|Hx]; auto. eapply lex_lt_trans; eauto.
    + split.
      * intros x Hx. apply insert_col_in in Hx. destruct Hx as [->|Hx]; auto.
        apply lex_ltb_false_lt; auto. intros Heq. apply Hc. left. auto.
      * apply IH; auto. intros H. apply Hc. right. exact H.
Qed.

Lemma sort_cols_qsorted l : NoDup (map col_q l) -> qsorted (sort_cols l).
Proof.
  induction l as [|c r IH]; intros Hn; cbn; [exact I|].
  inversion Hn; subst. apply insert_col_qsorted; auto. rewrite sort_cols_names_in. auto.
Qed.

Lemma nodup_map_filter {A B} (g : A -> B) p l : NoDup (map g l) -> NoDup (map g (filter p l)).
Proof.
  induction l as [|a l IH]; intros Hn; cbn; auto.
  inversion Hn; subst. destruct (p a); cbn; auto. constructor; auto.
  rewrite in_map_iff in *. intros [x [Hx Hin]]. apply H1. exists x. split; auto.
  apply filter_In in Hin. tauto.
Qed.

Lemma get_column_filter p l q : NoDup (map col_q l) ->
  get_column (filter p l) q = match get_column l q with Some c => if p c then Some c else None | None => None end.
Proof.
  induction l as [|c r IH]; intros Hn; cbn; auto.
  inversion Hn; subst. destruct (beqb (col_q c) q) eqn:E.
  - destruct (p c) eqn:Ep; cbn; [rewrite E; reflexivity|].
    rewrite IH by auto. apply beqb_eq in E. subst q.
    destruct (get_column r (col_q c)) eqn:Eg; auto.
    apply get_column_some in Eg. destruct Eg as [Hq Hin]. exfalso. apply H1.
    rewrite <- Hq. apply in_map. exact Hin.
  - destruct (p c); cbn; [rewrite E|]; apply IH; auto.
Qed.

Lemma get_family_filter p l n : NoDup (map fam_name l) ->
  get_family (filter p l) n = match get_family l n with Some f => if p f then Some f else None | None => None end.
Proof.
  induction l as [|c r IH]; intros Hn; cbn; auto.
  inversion Hn; subst. destruct (beqb (fam_name c) n) eqn:E.
  - destruct (p c) eqn:Ep; cbn; [rewrite E; reflexivity|].
    rewrite IH by auto. apply beqb_eq in E. subst n.
    destruct (get_family r (fam_name c)) eqn:Eg; auto.
    apply get_family_some in Eg. destruct Eg as [Hq Hin]. exfalso. apply H1.
    rewrite <- Hq. apply in_map. exact Hin.
  - destruct (p c); cbn; [rewrite E|]; apply IH; auto.
Qed.

Lemma get_family_map_scrub l n : get_family (map scrub_fam l) n = option_map scrub_fam (get_family l n).
Proof.
  induction l as [|f r IH]; cbn; auto. destruct (beqb (fam_name f) n); auto.
Qed.

Lemma map_name_scrub l : map fam_name (map scrub_fam l) = map fam_name l.
Proof. rewrite map_map. reflexivity. Qed.

(* content of one scrubbed family *)
Lemma scrub_fam_lookup f q t : NoDup (map col_q (fam_cols f)) ->
  match get_column (fam_cols (scrub_fam f)) q with Some c => cell_lookup (col_cells c) t | None => None end
  = match get_column (fam_cols f) q with Some c => cell_lookup (col_cells c) t | None => None end.
Proof.
  intros Hn. unfold scrub_fam. cbn [fam_cols].
  rewrite get_column_sort_cols by (apply nodup_map_filter; exact Hn).
  rewrite get_column_filter by exact Hn.
  destruct (get_column (fam_cols f) q) as [c|]; auto.
  destruct (col_cells c) eqn:E; cbn; auto. rewrite E. reflexivity.
Qed.

Lemma scrub_fam_ok f : fam_ok f -> fam_ok (scrub_fam f).
Proof.
  intros [Hn Hc]. unfold scrub_fam. split; cbn [fam_cols].
  - apply sort_cols_nodup. apply nodup_map_filter. exact Hn.
  - rewrite Forall_forall in *. intros c Hin. rewrite sort_cols_in in Hin. apply filter_In in Hin. apply Hc. tauto.
Qed.

(* the content a reader sees after scrubbing: cells of families unknown to the table vanish,
   everything else is unchanged *)
Theorem scrub_content : forall tf fs, fams_ok fs -> forall f q t,
  abs_fams (scrub_fams tf fs) f q t = if known_family tf f then abs_fams fs f q t else None.
Proof.
  intros tf fs [Hn Hf] f q t. unfold abs_fams, scrub_fams.
  rewrite get_family_filter.
  2:{ rewrite map_name_scrub. apply nodup_map_filter. exact Hn. }
  rewrite get_family_map_scrub, get_family_filter by exact Hn.
  destruct (get_family fs f) as [fm|] eqn:Ef; cbn [option_map].
  - apply get_family_some in Ef. destruct Ef as [Hname Hin]. rewrite Hname.
    destruct (known_family tf f); cbn [option_map]; auto.
    rewrite Forall_forall in Hf. destruct (Hf fm Hin) as [Hcn _].
    destruct (fam_cols (scrub_fam fm)) eqn:Es.
    + pose proof (scrub_fam_lookup fm q t Hcn) as H. rewrite Es in H. cbn in H. rewrite <- H. reflexivity.
    + apply scrub_fam_lookup. exact Hcn.
  - destruct (known_family tf f); reflexivity.
Qed.

Lemma all_known_unknown_none tf fs f q t : all_known tf fs -> known_family tf f = false -> abs_fams fs f q t = None.
Proof.
  intros Hk Hf. unfold abs_fams. destruct (get_family fs f) as [fm|] eqn:E; auto.
  apply get_family_some in E. destruct E as [Hn Hin]. unfold all_known in Hk. rewrite Forall_forall in Hk.
  specialize (Hk fm Hin). congruence.
Qed.

Theorem scrub_stored_ok : forall tf fs, fams_ok fs -> stored_ok tf (scrub_fams tf fs).
Proof.
  intros tf fs [Hn Hf]. unfold scrub_fams. split; [split|].
  - apply nodup_map_filter. rewrite map_name_scrub. apply nodup_map_filter. exact Hn.
  - rewrite Forall_forall in *. intros f Hin. apply filter_In in Hin. destruct Hin as [Hin _].
    apply in_map_iff in Hin. destruct Hin as [g [<- Hg]]. apply filter_In in Hg.
    apply scrub_fam_ok. apply Hf. tauto.
  - rewrite Forall_forall in *. intros f Hin. apply filter_In in Hin. destruct Hin as [Hin Hne].
    apply in_map_iff in Hin. destruct Hin as [g [<- Hg]]. apply filter_In in Hg. destruct Hg as [Hg Hk].
    destruct (Hf g Hg) as [Hcn Hcf].
    split; [exact Hk|]. split; [destruct (fam_cols (scrub_fam g)); [discriminate|discriminate]|].
    unfold scrub_fam. cbn [fam_cols]. split.
    + rewrite Forall_forall. intros c Hc. rewrite sort_cols_in in Hc. apply filter_In in Hc.
      destruct Hc as [_ Hc]. destruct (col_cells c); [discriminate|discriminate].
    + apply sort_cols_qsorted. apply nodup_map_filter. exact Hcn.
Qed.

(* 2d as stated: for rows whose families are all known scrubbing does not change the content *)
Theorem scrub_preserves_content : forall tf fs, fams_ok fs -> all_known tf fs ->
  cm_eq (abs_fams (scrub_fams tf fs)) (abs_fams fs) /\ stored_ok tf (scrub_fams tf fs).
Proof.
  intros tf fs Hok Hk. split; [|apply scrub_stored_ok; exact Hok].
  intros f q t. rewrite scrub_content by exact Hok.
  destruct (known_family tf f) eqn:E; auto. symmetry. eapply all_known_unknown_none; eauto.
Qed.

Lemma scrub_fam_cols_nil f : fam_cols (scrub_fam f) = [] <-> forallb (fun c => negb (nonempty_col c)) (fam_cols f) = true.
Proof.
  unfold scrub_fam. cbn [fam_cols]. rewrite sort_cols_nil. fold nonempty_col.
  induction (fam_cols f) as [|c r IH]; cbn; [tauto|].
  destruct (nonempty_col c); cbn; [split; discriminate|exact IH].
Qed.

Theorem scrub_empty_iff : forall tf fs, all_known tf fs ->
  (scrub_fams tf fs = [] <-> is_empty_fams fs = true).
Proof.
  intros tf fs Hk. unfold scrub_fams, is_empty_fams.
  rewrite (filter_all (fun f => known_family tf (fam_name f)) fs).
  2:{ unfold all_known in Hk. rewrite Forall_forall in Hk. exact Hk. }
  clear Hk. induction fs as [|f r IH]; cbn [map filter forallb]; [tauto|].
  assert (Hf : forallb (fun c => match col_cells c with [] => true | _ :: _ => false end) (fam_cols f)
               = forallb (fun c => negb (nonempty_col c)) (fam_cols f)).
  { clear. induction (fam_cols f) as [|c l IHl]; cbn [forallb]; auto. rewrite IHl. f_equal.
    unfold nonempty_col. destruct (col_cells c); reflexivity. }
  rewrite Hf. destruct (fam_cols (scrub_fam f)) eqn:E.
  - apply scrub_fam_cols_nil in E. rewrite E. cbn [andb]. exact IH.
  - split; [discriminate|]. intros H. apply andb_prop in H. destruct H as [H _].
    apply scrub_fam_cols_nil in H. congruence.
Qed.

(* "has no cell" in terms of content *)
Theorem is_empty_content : forall fs, fams_ok fs ->
  (is_empty_fams fs = true <-> forall f q t, abs_fams fs f q t = None).
Proof.
  intros fs Hok. unfold is_empty_fams. rewrite forallb_forall. split.
  - intros H f q t. unfold abs_fams. destruct (get_family fs f) as [fm|] eqn:Ef; auto.
    apply get_family_some in Ef. destruct Ef as [_ Hin]. specialize (H fm Hin).
    rewrite forallb_forall in H. destruct (get_column (fam_cols fm) q) as [c|] eqn:Ec; auto.
    apply get_column_some in Ec. destruct Ec as [_ Hc]. specialize (H c Hc).
    destruct (col_cells c); [reflexivity|discriminate].
  - intros H fm Hin. rewrite forallb_forall. intros c Hc.
    destruct Hok as [Hn Hf]. rewrite Forall_forall in Hf. destruct (Hf fm Hin) as [Hcn _].
    assert (Hgf : get_family fs (fam_name fm) = Some fm).
    { clear - Hn Hin. induction fs as [|g r IH]; [destruct Hin|]. cbn. inversion Hn; subst.
      destruct Hin as [->|Hin]; [rewrite beqb_refl; reflexivity|].
      destruct (beqb (fam_name g) (fam_name fm)) eqn:E; auto.
      apply beqb_eq in E. exfalso. apply H1. rewrite E. apply in_map. exact Hin. }
    assert (Hgc : get_column (fam_cols fm) (col_q c) = Some c).
    { clear - Hcn Hc. induction (fam_cols fm) as [|g r IH]; [destruct Hc|]. cbn. inversion Hcn; subst.
      destruct Hc as [->|Hc]; [rewrite beqb_refl; reflexivity|].
      destruct (beqb (col_q g) (col_q c)) eqn:E; auto.
      apply beqb_eq in E. exfalso. apply H1. rewrite E. apply in_map. exact Hc. }
    destruct (col_cells c) as [|d ds] eqn:Ecs; auto.
    specialize (H (fam_name fm) (col_q c) (c_ts d)). unfold abs_fams in H.
    rewrite Hgf, Hgc, Ecs in H. cbn in H. rewrite Z.eqb_refl in H. discriminate.
Qed.

(* ------------------------------------------------------------------ *)
(* association lists, tables, updateRow *)
Section AListMore.
  Context {V : Type}.
  Implicit Types l : list (bytes * V).

  Lemma alookup_in k l v : alookup k l = Some v -> In (k, v) l.
  Proof.
    induction l as [|[k0 v0] r IH]; cbn; [discriminate|].
    destruct (beqb k k0) eqn:E.
    - intros H. injection H as ->. apply beqb_eq in E. subst. left. reflexivity.
    - intros H. right. apply IH. exact H.
  Qed.

  Lemma ainsert_in k v l p : In p (ainsert k v l) -> p = (k, v) \/ In p l.
  Proof.
    induction l as [|[k0 v0] r IH]; cbn.
    - intros [<-|[]]. auto.
    - destruct (lex_cmp k k0); cbn.
      + intros [<-|H]; auto.
      + intros [<-|[<-|H]]; auto.
      + intros [<-|H]; auto. destruct (IH H); auto.
  Qed.

  Lemma lex_lt_neq a b : lex_lt a b -> a <> b.
  Proof. unfold lex_lt. intros H ->. rewrite lex_refl in H. discriminate. Qed.

  Lemma ainsert_in_sorted k v l p : asorted l -> In p (ainsert k v l) -> p = (k, v) \/ (In p l /\ fst p <> k).
  Proof.
    induction l as [|[k0 v0] r IH]; intros Hs; cbn.
    - intros [<-|[]]. auto.
    - destruct (lex_cmp k k0) eqn:E; cbn.
      + apply lex_eq in E. subst k0. intros [<-|H]; auto. right. split; auto.
        destruct p as [kp vp]. cbn. pose proof (asorted_head_lt _ _ _ Hs kp vp H) as Hlt.
        intros ->. eapply lex_lt_neq; eauto.
      + intros [<-|[<-|H]]; auto.
        * right. split; auto. cbn. intros ->. eapply lex_lt_neq; eauto.
        * right. split; auto. destruct p as [kp vp]. cbn.
          pose proof (asorted_head_lt _ _ _ Hs kp vp H) as Hlt. intros ->.
          assert (Hkk : lex_lt k k) by (eapply lex_lt_trans; eauto). eapply lex_lt_neq; eauto.
      + intros [<-|H].
        * right. split; auto. cbn. intros ->. rewrite lex_refl in E. discriminate.
        * destruct (IH (asorted_tail _ _ Hs) H) as [->|[Hin Hne]]; auto.
  Qed.

  Lemma aremove_in_sorted k l p : asorted l -> In p (aremove k l) -> In p l /\ fst p <> k.
  Proof.
    induction l as [|[k0 v0] r IH]; intros Hs; cbn; [tauto|].
    destruct (beqb k k0) eqn:E.
    - apply beqb_eq in E. subst k0. intros H. split; auto. destruct p as [kp vp]. cbn.
      pose proof (asorted_head_lt _ _ _ Hs kp vp H) as Hlt. intros ->. eapply lex_lt_neq; eauto.
    - intros [<-|H].
      + split; auto. cbn. apply beqb_neq in E. congruence.
      + destruct (IH (asorted_tail _ _ Hs) H). auto.
  Qed.

  Lemma ainsert_forall (P : bytes * V -> Prop) k v l : Forall P l -> P (k, v) -> Forall P (ainsert k v l).
  Proof.
    intros Hl Hp. rewrite Forall_forall in *. intros p Hin. apply ainsert_in in Hin.
    destruct Hin as [->|Hin]; auto.
  Qed.

  Lemma aremove_forall (P : bytes * V -> Prop) k l : Forall P l -> Forall P (aremove k l).
  Proof.
    intros Hl. rewrite Forall_forall in *. intros p Hin. apply aremove_in in Hin. auto.
  Qed.
End AListMore.

Lemma stored_ok_nil tf : stored_ok tf [].
Proof. split; [apply fams_ok_nil|constructor]. Qed.

Lemma table_ok_get_row t key : table_ok t -> stored_ok (t_fams t) (get_row t key).
Proof.
  intros [_ Hr]. unfold get_row. destruct (alookup key (t_rows t)) as [fs|] eqn:E; [|apply stored_ok_nil].
  apply alookup_in in E. rewrite Forall_forall in Hr. apply (Hr _ E).
Qed.

Lemma table_ok_get_row_fams t key : table_ok t -> fams_ok (get_row t key).
Proof. intros H. apply (table_ok_get_row t key H). Qed.

Lemma stored_all_known tf fs : stored_ok tf fs -> all_known tf fs.
Proof.
  intros [_ H]. unfold all_known. rewrite Forall_forall in *. intros f Hf. apply (H f Hf).
Qed.

Lemma update_row_fams t key fs : t_fams (update_row t key fs) = t_fams t.
Proof. unfold update_row. destruct (scrub_fams (t_fams t) fs); reflexivity. Qed.

Theorem update_row_ok : forall t key fs, table_ok t -> fams_ok fs -> table_ok (update_row t key fs).
Proof.
  intros t key fs [Hs Hr] Hok. unfold update_row.
  pose proof (scrub_stored_ok (t_fams t) fs Hok) as Hst.
  destruct (scrub_fams (t_fams t) fs) as [|f r] eqn:E; split; cbn [t_rows t_fams].
  - apply aremove_sorted. exact Hs.
  - apply aremove_forall. exact Hr.
  - apply ainsert_sorted. exact Hs.
  - apply ainsert_forall; auto. cbn. split; [exact Hst|discriminate].
Qed.

Theorem get_row_update_same : forall t key fs, asorted (t_rows t) ->
  get_row (update_row t key fs) key = scrub_fams (t_fams t) fs.
Proof.
  intros t key fs Hs. unfold update_row, get_row.
  destruct (scrub_fams (t_fams t) fs) as [|f r]; cbn [t_rows].
  - rewrite alookup_aremove_same by exact Hs. reflexivity.
  - rewrite alookup_ainsert_same. reflexivity.
Qed.

Theorem lookup_update_other : forall t key fs k, k <> key ->
  alookup k (t_rows (update_row t key fs)) = alookup k (t_rows t).
Proof.
  intros t key fs k Hne. unfold update_row.
  destruct (scrub_fams (t_fams t) fs) as [|f r]; cbn [t_rows].
  - apply alookup_aremove_other. exact Hne.
  - apply alookup_ainsert_other. exact Hne.
Qed.

Lemma server_ok_lookup s n t : server_ok s -> alookup n s = Some t -> table_ok t.
Proof.
  intros Hs H. apply alookup_in in H. unfold server_ok in Hs. rewrite Forall_forall in Hs. apply (Hs _ H).
Qed.

Lemma set_table_ok s n t : server_ok s -> table_ok t -> server_ok (set_table s n t).
Proof. intros Hs Ht. unfold set_table, server_ok. apply ainsert_forall; auto. Qed.

Lemma server_ok_nil : server_ok [].
Proof. constructor. Qed.

(* boolean checkers for the examples *)
Fixpoint nodupb (l : list bytes) : bool :=
  match l with [] => true | x :: r => negb (existsb (beqb x) r) && nodupb r end.

Lemma nodupb_sound l : nodupb l = true -> NoDup l.
Proof.
  induction l as [|x r IH]; cbn; [constructor|]. intros H. apply andb_prop in H. destruct H as [H1 H2].
  constructor; auto. intros Hin. rewrite negb_true_iff in H1.
  assert (existsb (beqb x) r = true) by (apply existsb_exists; exists x; split; auto; apply beqb_refl).
  congruence.
Qed.

Definition fams_okb (fs : list family) : bool :=
  nodupb (map fam_name fs)
  && forallb (fun f => nodupb (map col_q (fam_cols f)) && forallb (fun c => descb (col_cells c)) (fam_cols f)) fs.

Lemma fams_okb_sound fs : fams_okb fs = true -> fams_ok fs.
Proof.
  unfold fams_okb. intros H. apply andb_prop in H. destruct H as [H1 H2]. split.
  - apply nodupb_sound. exact H1.
  - rewrite Forall_forall. rewrite forallb_forall in H2. intros f Hf. specialize (H2 f Hf).
    apply andb_prop in H2. destruct H2 as [H3 H4]. split.
    + apply nodupb_sound. exact H3.
    + rewrite Forall_forall. rewrite forallb_forall in H4. intros c Hc. apply descb_sound. auto.
Qed.

(* a stored row is a fixpoint of scrubbing: an unfiltered read (which scrubs what it returns)
   hands out the stored row verbatim *)
Lemma sort_cols_sorted_id l : qsorted l -> sort_cols l = l.
Proof.
  induction l as [|c r IH]; intros Hs; [reflexivity|].
  destruct Hs as [Hc Hr]. change (sort_cols (c :: r)) with (insert_col c (sort_cols r)).
  rewrite IH by exact Hr. destruct r as [|d r']; [reflexivity|]. cbn [insert_col].
  assert (Hlt : lex_lt (col_q c) (col_q d)) by (apply Hc; left; reflexivity).
  unfold lex_ltb. unfold lex_lt in Hlt. rewrite Hlt. reflexivity.
Qed.

Theorem scrub_stored_id : forall tf fs, stored_ok tf fs -> scrub_fams tf fs = fs.
Proof.
  intros tf fs [_ Hst]. unfold scrub_fams. rewrite Forall_forall in Hst.
  rewrite (filter_all (fun f => known_family tf (fam_name f)) fs) by (intros f Hf; apply (Hst f Hf)).
  assert (Hmap : map scrub_fam fs = fs).
  { induction fs as [|f r IH]; [reflexivity|]. cbn [map]. f_equal.
    - destruct (Hst f (or_introl eq_refl)) as [_ [_ [Hcells Hq]]]. unfold scrub_fam.
      rewrite filter_all.
      + rewrite sort_cols_sorted_id by exact Hq. destruct f; reflexivity.
      + rewrite Forall_forall in Hcells. intros c Hc. specialize (Hcells c Hc).
        destruct (col_cells c); [contradiction|reflexivity].
    - apply IH. intros g Hg. apply Hst. right. exact Hg. }
  rewrite Hmap. apply filter_all. intros f Hf. destruct (Hst f Hf) as [_ [Hne _]].
  destruct (fam_cols f); [contradiction|reflexivity].
Qed.

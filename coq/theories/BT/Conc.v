(* Interleaving model of concurrent Bigtable requests on ONE table lock, at the granularity of the
   yield points instrumented in the code (build tag verif):
     write RPCs  : start -> [w.lock] -> Lock, fetch row -> [w.mid] (once per entry for MutateRows)
                   -> compute, store, Unlock -> response
     ReadRows    : start -> [r.lock] -> RLock, snapshot of the current range, rows ... each time more
                   than btFlushChunks chunks are pending: RUnlock -> [r.send] -> Send, RLock ...
                   -> final RUnlock -> [r.send] -> Send -> response      (leveldb engines: the
                   iterator of a range is a snapshot taken when the range scan starts)
     GC pass     : Lock, rules, keys; every btGcBatch rows: Unlock -> [gc.handover] -> Lock ...
   Only a writer parks while holding the lock (at w.mid); a scheduler step of a thread that needs the
   lock while a writer holds it is "blocked" and changes nothing. *)
From Coq Require Import List NArith ZArith Bool.
Import ListNotations.
From Emu.Common Require Import Bytes Str.
From Emu.Gen Require Import Consts.
From Emu.BT Require Import Types Regex Mutate Filter Gc RowSet Server.
Local Open Scope Z_scope.

Inductive outcome :=
| OAt                      (* parked at the next yield point *)
| OBlocked                 (* needs the table lock, which a parked writer holds *)
| ODone (r : bresp)        (* the request returned *)
| OIdle.                   (* nothing left to run *)

(* progress of the request a thread is running *)
Inductive progress :=
| PNew                                   (* not started *)
| PAtLock                                (* parked before taking the lock *)
| PMid (left : nat)                      (* writer inside its section, [left] more w.mid yields to pass *)
| PScan (rows : list (bytes * list family))  (* rest of the current range's snapshot *)
        (ranges : list srange) (count : Z) (coins : list bool) (pending : Z) (acc : list row)
        (final : bool)                   (* parked at r.send; final = the last send *)
| PGc (keys : list bytes) (now : Z).     (* parked at gc.handover with the keys still to visit *)

Record thread := mkThread { th_todo : list call; th_prog : progress }.

Record cstate := mkCState { cs_server : server; cs_holder : option nat; cs_threads : list thread }.

Fixpoint upd_nth {A} (l : list A) (n : nat) (v : A) : list A :=
  match l, n with
  | [], _ => []
  | _ :: xs, O => v :: xs
  | x :: xs, S k => x :: upd_nth xs k v
  end.

Definition is_write (r : breq) : bool :=
  match r with
  | BMutateRow _ _ _ | BMutateRows _ _ | BCheckAndMutate _ _ _ _ _ | BReadModifyWrite _ _ _ => true
  | _ => false
  end.
Definition req_table (r : breq) : option bytes :=
  match r with
  | BMutateRow t _ _ | BMutateRows t _ | BCheckAndMutate t _ _ _ _ | BReadModifyWrite t _ _
  | BReadRows t _ _ _ _ | BRunGC t => Some t
  | _ => None
  end.
Definition takes_lock (r : breq) : bool :=
  match r with BModifyFamilies _ _ | BDropRowRange _ _ _ | BSampleRowKeys _ => true | _ => false end.
Definition mid_yields (r : breq) : nat :=
  match r with BMutateRows _ es => length es | _ => 1%nat end.

Definition cells_of (fs : list family) : Z := Z.of_nat (count_cells fs).

(* run the scan of the current snapshot until the next hand-over or the end of the range *)
Fixpoint scan_section (t : table) (f : option rfilter) (limit : Z) (rows : list (bytes * list family))
         (count : Z) (coins : list bool) (pending : Z) (acc : list row)
  : list (bytes * list family) * Z * list bool * Z * list row * bool (* handed over *) * bool (* stop: limit *) :=
  match rows with
  | [] => ([], count, coins, pending, acc, false, false)
  | (k, fs) :: rest =>
      if (0 <? limit) && (limit <=? count) then ([], count, coins, pending, acc, false, true)
      else
        match fs with
        | [] => scan_section t f limit rest count coins pending acc
        | _ =>
          let '(m, fs', coins') := match f with
                                   | Some flt => feval k flt fs coins
                                   | None => (true, fs, coins)
                                   end in
          if negb m then scan_section t f limit rest count coins' pending acc
          else
            let out := scrub_fams (t_fams t) fs' in
            match out with
            | [] => scan_section t f limit rest count coins' pending acc
            | _ =>
                let pending' := pending + cells_of out in
                let acc' := mkRow k out :: acc in
                if btFlushChunks <? pending'
                then (rest, count + 1, coins', 0, acc', true, false)
                else scan_section t f limit rest (count + 1) coins' pending' acc'
            end
        end
  end.

(* continue a scan that holds the read lock: returns the new progress or the response *)
Fixpoint scan_continue (fuel : nat) (s : server) (tbl : bytes) (f : option rfilter) (limit : Z)
         (rows : list (bytes * list family)) (ranges : list srange)
         (count : Z) (coins : list bool) (pending : Z) (acc : list row) : progress + bresp :=
  match fuel with
  | O => inr (fail cInternal)
  | S fu =>
    match alookup tbl s with
    | None => inr (fail cNotFound)
    | Some t =>
      let '(rest, count', coins', pending', acc', handed, stop) := scan_section t f limit rows count coins pending acc in
      if handed then inl (PScan rest ranges count' coins' pending' acc' false)
      else
        match ranges with
        | sr :: more =>
            (* next range: its iterator is a snapshot of the table as it is NOW *)
            let snap := filter (fun p => in_srange_b sr (fst p)) (t_rows t) in
            scan_continue fu s tbl f limit snap more count' coins' pending' acc'
        | [] =>
            if 0 <? pending' then inl (PScan [] [] count' coins' 0 acc' true)
            else inr (ok (YRows (rev acc')))
        end
    end
  end.

Definition gc_section (t : table) (now : Z) (keys : list bytes) : table * list bytes :=
  let batch := firstn (Z.to_nat btGcBatch) keys in
  (fold_left (fun acc k =>
                match alookup k (t_rows acc) with
                | None => acc
                | Some fs => let '(changed, fs') := gc_fams (t_fams acc) now fs in
                             if changed then update_row acc k fs' else acc
                end) batch t,
   skipn (Z.to_nat btGcBatch) keys).

Definition has_rules (t : table) : bool :=
  negb (forallb (fun p => match snd p with None => true | Some _ => false end) (t_fams t)).

(* one scheduler step of thread i *)
Definition cstep (st : cstate) (i : nat) : cstate * outcome :=
  match nth_error (cs_threads st) i with
  | None => (st, OIdle)
  | Some th =>
    match th_todo th with
    | [] => (st, OIdle)
    | c :: rest =>
      let r := cl_req c in
      let set_th (p : progress) := mkCState (cs_server st) (cs_holder st) (upd_nth (cs_threads st) i (mkThread (th_todo th) p)) in
      let finish (s' : server) (h : option nat) (rsp : bresp) :=
          (mkCState s' h (upd_nth (cs_threads st) i (mkThread rest PNew)), ODone rsp) in
      let writer_holds := match cs_holder st with Some j => negb (Nat.eqb j i) | None => false end in
      match th_prog th with
      | PNew =>
          (* table lookup happens before the first yield: a missing table answers at once; GC has no
             yield before its Lock *)
          match req_table r with
          | None =>
              (* requests without a yield point run atomically; the ones that take the table lock
                 wait for a parked writer *)
              if takes_lock r && writer_holds then (st, OBlocked)
              else finish (fst (step (cs_server st) c)) (cs_holder st) (snd (step (cs_server st) c))
          | Some tbl =>
              match alookup tbl (cs_server st) with
              | None => finish (cs_server st) (cs_holder st) (snd (step (cs_server st) c))
              | Some t =>
                  match r with
                  | BRunGC _ =>
                      if writer_holds then (st, OBlocked) else
                      if negb (has_rules t) then finish (cs_server st) (cs_holder st) (ok YNone) else
                      let keys := map fst (t_rows t) in
                      let '(t', keys') := gc_section t (cl_now c) keys in
                      let s' := set_table (cs_server st) tbl t' in
                      if (Z.to_nat btGcBatch <=? length keys)%nat
                      then (mkCState s' (cs_holder st) (upd_nth (cs_threads st) i (mkThread (th_todo th) (PGc keys' (cl_now c)))), OAt)
                      else finish s' (cs_holder st) (ok YNone)
                  | BReadRows _ _ ranges f _ =>
                      if negb (forallb range_ok ranges) then finish (cs_server st) (cs_holder st) (fail cInvalidArgument)
                      else if match f with Some p => negb (fvalid p) | None => false end
                           then finish (cs_server st) (cs_holder st) (fail cInvalidArgument)
                      else (set_th PAtLock, OAt)
                  | BCheckAndMutate _ _ (Some p) _ _ =>
                      if negb (fvalid p) then finish (cs_server st) (cs_holder st) (fail cInvalidArgument)
                      else (set_th PAtLock, OAt)
                  | _ => (set_th PAtLock, OAt)
                  end
              end
          end
      | PAtLock =>
          if writer_holds then (st, OBlocked) else
          if is_write r then
            match mid_yields r with
            | O => finish (fst (step (cs_server st) c)) None (snd (step (cs_server st) c))
            | S k => (mkCState (cs_server st) (Some i) (upd_nth (cs_threads st) i (mkThread (th_todo th) (PMid k))), OAt)
            end
          else
            match r with
            | BReadRows tbl keys ranges f limit =>
                match scan_continue (S (S (length keys + length ranges))) (cs_server st) tbl f limit [] (scan_ranges keys ranges) 0 (cl_coins c) 0 [] with
                | inl p => (set_th p, OAt)
                | inr rsp => finish (cs_server st) (cs_holder st) rsp
                end
            | _ => finish (fst (step (cs_server st) c)) (cs_holder st) (snd (step (cs_server st) c))
            end
      | PMid (S k) => (set_th (PMid k), OAt)
      | PMid O => finish (fst (step (cs_server st) c)) None (snd (step (cs_server st) c))
      | PScan rows ranges count coins pending acc final =>
          (* after every r.send yield, the final one included, the scan re-takes the read lock *)
          if writer_holds then (st, OBlocked) else
          if final then finish (cs_server st) (cs_holder st) (ok (YRows (rev acc))) else
          match r with
          | BReadRows tbl _ _ f limit =>
              match scan_continue (S (S (length ranges))) (cs_server st) tbl f limit rows ranges count coins pending acc with
              | inl p => (set_th p, OAt)
              | inr rsp => finish (cs_server st) (cs_holder st) rsp
              end
          | _ => (st, OIdle)
          end
      | PGc keys now =>
          if writer_holds then (st, OBlocked) else
          match req_table r with
          | Some tbl =>
              match alookup tbl (cs_server st) with
              | None => finish (cs_server st) (cs_holder st) (ok YNone)
              | Some t =>
                  let n := length keys in
                  let '(t', keys') := gc_section t now keys in
                  let s' := set_table (cs_server st) tbl t' in
                  if (Z.to_nat btGcBatch <=? n)%nat
                  then (mkCState s' (cs_holder st) (upd_nth (cs_threads st) i (mkThread (th_todo th) (PGc keys' now))), OAt)
                  else finish s' (cs_holder st) (ok YNone)
              end
          | None => (st, OIdle)
          end
      end
    end
  end.

Fixpoint crun (st : cstate) (sched : list nat) : cstate * list outcome :=
  match sched with
  | [] => (st, [])
  | i :: rest => let '(st1, o) := cstep st i in
                 let '(st2, os) := crun st1 rest in (st2, o :: os)
  end.

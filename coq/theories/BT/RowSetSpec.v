(* Layer B for C03: what a Bigtable RowSet MEANS, written from the API description
   (google.bigtable.v2.RowSet / RowRange), not from the emulator's code.

   A RowRange has a start bound (unset / closed = inclusive / open = exclusive) and an end
   bound (same three shapes).  A RowSet is a list of single keys plus a list of ranges and
   denotes the union; the RowSet without keys and without ranges denotes the whole table.

   Convention on EMPTY keys: a bound that is set to the zero-length key counts as UNSET
   (start: from the beginning of the table, end: to the end of the table).  This is how the
   emulator's validation (validateRowRanges: len(key) == 0 means "not set") and the
   clients read it; that the scan agrees is a theorem ([encode_range_spec] in ScanProofs.v;
   for an end closed at the empty key see [encode_range_closed_empty_end_unbounded]). *)
From Coq Require Import List NArith Bool.
Import ListNotations.
From Emu.Common Require Import Bytes.
From Emu.BT Require Import Types.

(* the key a bound carries *)
Definition bound_key (b : bound) : option bytes :=
  match b with BUnset => None | BClosed k | BOpen k => Some k end.

(* k satisfies the lower bound b *)
Definition in_bound_lo (b : bound) (k : bytes) : Prop :=
  match b with
  | BUnset => True
  | BClosed s => s = [] \/ lex_le s k
  | BOpen s => s = [] \/ lex_lt s k
  end.

(* k satisfies the upper bound b *)
Definition in_bound_hi (b : bound) (k : bytes) : Prop :=
  match b with
  | BUnset => True
  | BClosed e => e = [] \/ lex_le k e
  | BOpen e => e = [] \/ lex_lt k e
  end.

Definition in_row_range (rr : rowrange) (k : bytes) : Prop :=
  in_bound_lo (rr_start rr) k /\ in_bound_hi (rr_end rr) k.

(* membership in a non-trivial RowSet: one of the keys, or inside one of the ranges *)
Definition in_rowset (keys : list bytes) (ranges : list rowrange) (k : bytes) : Prop :=
  In k keys \/ exists rr, In rr ranges /\ in_row_range rr k.

(* what a ReadRows request asks for: the empty RowSet is the whole table *)
Definition requested (keys : list bytes) (ranges : list rowrange) (k : bytes) : Prop :=
  (keys = [] /\ ranges = []) \/ in_rowset keys ranges k.

(* a range the API rejects: both ends carry a non-empty key and start > end bytewise *)
Definition range_inverted (rr : rowrange) : Prop :=
  exists s e, bound_key (rr_start rr) = Some s /\ bound_key (rr_end rr) = Some e
              /\ s <> [] /\ e <> [] /\ lex_lt e s.

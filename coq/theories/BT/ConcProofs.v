(* Theorems about the interleaving model BT/Conc.v, for ALL schedules and any number of threads.
   Part 1: the shape of one scheduler step ([cstep_spec]) and the lock structure ([conc_inv]).
   Part 2: every step is a serial effect on the server ([crun_is_serial_effects]); the
           linearisation log and serialisability of schedules without GC (C06). *)
From Coq Require Import List NArith ZArith Bool Lia Arith.
Import ListNotations.
From Emu.Common Require Import Bytes Str StrProofs.
From Emu.Gen Require Import Consts.
From Emu.BT Require Import Types Regex Mutate Filter Gc RowSet Server Conc.
Local Open Scope Z_scope.

Definition init_cstate (s0 : server) (progs : list (list call)) : cstate :=
  mkCState s0 None (map (fun cs => mkThread cs PNew) progs).

(* ------------------------------------------------------------------ *)
(* lists                                                               *)
(* ------------------------------------------------------------------ *)
Lemma upd_nth_length {A} (l : list A) : forall n v, length (upd_nth l n v) = length l.
Proof. induction l as [|x xs IH]; intros [|n] v; cbn; auto. Qed.

Lemma nth_error_upd_same {A} (l : list A) : forall n v x, nth_error l n = Some x -> nth_error (upd_nth l n v) n = Some v.
Proof. induction l as [|y ys IH]; intros [|n] v x H; cbn in *; try discriminate; eauto. Qed.

Lemma nth_error_upd_other {A} (l : list A) : forall n m v, n <> m -> nth_error (upd_nth l n v) m = nth_error l m.
Proof.
  induction l as [|y ys IH]; intros [|n] [|m] v H; cbn; auto; try congruence.
Qed.

Lemma upd_nth_none {A} (l : list A) : forall n v, nth_error l n = None -> upd_nth l n v = l.
Proof. induction l as [|y ys IH]; intros [|n] v H; cbn in *; try discriminate; auto. f_equal. auto. Qed.

Lemma upd_nth_same {A} (l : list A) : forall n v, nth_error l n = Some v -> upd_nth l n v = l.
Proof.
  induction l as [|y ys IH]; intros [|n] v H; cbn in *; try discriminate; auto.
  - injection H as ->. reflexivity.
  - f_equal. auto.
Qed.

(* ------------------------------------------------------------------ *)
(* Part 1a: the shape of a scheduler step                              *)
(* ------------------------------------------------------------------ *)
Definition thread_at (st : cstate) (i : nat) (c : call) (rest : list call) (p : progress) : Prop :=
  nth_error (cs_threads st) i = Some (mkThread (c :: rest) p).

(* nobody else is parked inside a write section *)
Definition lock_free_for (st : cstate) (i : nat) : Prop := forall j, cs_holder st = Some j -> j = i.

Definition set_prog (st : cstate) (i : nat) (c : call) (rest : list call) (p : progress) : cstate :=
  mkCState (cs_server st) (cs_holder st) (upd_nth (cs_threads st) i (mkThread (c :: rest) p)).
Definition fin (st : cstate) (i : nat) (rest : list call) (s' : server) (h : option nat) : cstate :=
  mkCState s' h (upd_nth (cs_threads st) i (mkThread rest PNew)).

Definition is_gc (r : breq) : bool := match r with BRunGC _ => true | _ => false end.
Definition is_read (r : breq) : bool := match r with BReadRows _ _ _ _ _ => true | _ => false end.

(* the situations in which a thread must take the table lock at its next step *)
Definition needs_lock (r : breq) (p : progress) : bool :=
  match p with
  | PNew => takes_lock r || is_gc r
  | PMid _ => false
  | _ => true
  end.

Definition valid_read (r : breq) : Prop :=
  match r with
  | BReadRows _ _ ranges f _ =>
      forallb range_ok ranges = true /\ match f with Some p => fvalid p = true | None => True end
  | _ => False
  end.

(* the section a scan runs when it is scheduled at [p] *)
Definition scan_resume (s : server) (c : call) (p : progress) : option (progress + bresp) :=
  match cl_req c, p with
  | BReadRows tbl keys ranges f limit, PAtLock =>
      Some (scan_continue (S (S (length keys + length ranges))) s tbl f limit [] (scan_ranges keys ranges) 0 (cl_coins c) 0 [])
  | BReadRows tbl _ _ f limit, PScan rows rngs count coins pending acc false =>
      Some (scan_continue (S (S (length rngs))) s tbl f limit rows rngs count coins pending acc)
  | _, _ => None
  end.

(* the batch a GC thread runs when it is scheduled at [p]: (keys, clock) *)
Definition gc_resume (t : table) (c : call) (p : progress) : option (list bytes * Z) :=
  match p with
  | PNew => if is_gc (cl_req c) && has_rules t then Some (map fst (t_rows t), cl_now c) else None
  | PGc keys now => Some (keys, now)
  | _ => None
  end.

Inductive cstep_spec (st : cstate) (i : nat) : cstate -> outcome -> Prop :=
| CsIdle : cstep_spec st i st OIdle
| CsBlocked c rest p j :
    thread_at st i c rest p -> cs_holder st = Some j -> j <> i -> needs_lock (cl_req c) p = true ->
    cstep_spec st i st OBlocked
(* the whole request runs at once, as [step]: no yield point on its path *)
| CsAtomic c rest p :
    thread_at st i c rest p ->
    (p = PNew /\ is_gc (cl_req c) = false \/ p = PNew /\ (exists tbl, cl_req c = BRunGC tbl /\ alookup tbl (cs_server st) = None)
     \/ p = PAtLock /\ is_write (cl_req c) = false /\ is_read (cl_req c) = false) ->
    (takes_lock (cl_req c) = true -> lock_free_for st i) ->
    cstep_spec st i (fin st i rest (fst (step (cs_server st) c)) (cs_holder st)) (ODone (snd (step (cs_server st) c)))
| CsPark c rest tbl t :
    thread_at st i c rest PNew -> req_table (cl_req c) = Some tbl -> alookup tbl (cs_server st) = Some t ->
    is_write (cl_req c) = true \/ valid_read (cl_req c) ->
    cstep_spec st i (set_prog st i c rest PAtLock) OAt
| CsAcquire c rest k :
    thread_at st i c rest PAtLock -> lock_free_for st i -> is_write (cl_req c) = true -> mid_yields (cl_req c) = S k ->
    cstep_spec st i (mkCState (cs_server st) (Some i) (upd_nth (cs_threads st) i (mkThread (c :: rest) (PMid k)))) OAt
| CsCommit0 c rest :
    thread_at st i c rest PAtLock -> lock_free_for st i -> is_write (cl_req c) = true -> mid_yields (cl_req c) = O ->
    cstep_spec st i (fin st i rest (fst (step (cs_server st) c)) None) (ODone (snd (step (cs_server st) c)))
| CsMid c rest k :
    thread_at st i c rest (PMid (S k)) ->
    cstep_spec st i (set_prog st i c rest (PMid k)) OAt
| CsCommit c rest :
    thread_at st i c rest (PMid O) ->
    cstep_spec st i (fin st i rest (fst (step (cs_server st) c)) None) (ODone (snd (step (cs_server st) c)))
| CsScanPark c rest p p' :
    thread_at st i c rest p -> lock_free_for st i -> scan_resume (cs_server st) c p = Some (inl p') ->
    cstep_spec st i (set_prog st i c rest p') OAt
| CsScanDone c rest p rsp :
    thread_at st i c rest p -> lock_free_for st i -> scan_resume (cs_server st) c p = Some (inr rsp) ->
    cstep_spec st i (fin st i rest (cs_server st) (cs_holder st)) (ODone rsp)
| CsScanFinal c rest rows rngs count coins pending acc :
    thread_at st i c rest (PScan rows rngs count coins pending acc true) -> lock_free_for st i ->
    cstep_spec st i (fin st i rest (cs_server st) (cs_holder st)) (ODone (ok (YRows (rev acc))))
| CsGcBatch c rest p tbl t keys now :
    thread_at st i c rest p -> lock_free_for st i -> req_table (cl_req c) = Some tbl ->
    alookup tbl (cs_server st) = Some t -> gc_resume t c p = Some (keys, now) ->
    (Z.to_nat btGcBatch <= length keys)%nat ->
    cstep_spec st i (mkCState (set_table (cs_server st) tbl (fst (gc_section t now keys))) (cs_holder st)
                              (upd_nth (cs_threads st) i (mkThread (c :: rest) (PGc (snd (gc_section t now keys)) now)))) OAt
| CsGcLast c rest p tbl t keys now :
    thread_at st i c rest p -> lock_free_for st i -> req_table (cl_req c) = Some tbl ->
    alookup tbl (cs_server st) = Some t -> gc_resume t c p = Some (keys, now) ->
    (length keys < Z.to_nat btGcBatch)%nat ->
    cstep_spec st i (fin st i rest (set_table (cs_server st) tbl (fst (gc_section t now keys))) (cs_holder st)) (ODone (ok YNone))
| CsGcNoRules c rest tbl t :
    thread_at st i c rest PNew -> lock_free_for st i -> cl_req c = BRunGC tbl ->
    alookup tbl (cs_server st) = Some t -> has_rules t = false ->
    cstep_spec st i (fin st i rest (cs_server st) (cs_holder st)) (ODone (ok YNone))
| CsGcGone c rest keys now tbl :
    thread_at st i c rest (PGc keys now) -> lock_free_for st i -> req_table (cl_req c) = Some tbl ->
    alookup tbl (cs_server st) = None ->
    cstep_spec st i (fin st i rest (cs_server st) (cs_holder st)) (ODone (ok YNone)).

Lemma writer_holds_false st i :
  match cs_holder st with Some j => negb (Nat.eqb j i) | None => false end = false -> lock_free_for st i.
Proof.
  intros H j Hj. rewrite Hj in H. apply negb_false_iff in H. apply Nat.eqb_eq in H. exact H.
Qed.

Lemma writer_holds_true st i :
  match cs_holder st with Some j => negb (Nat.eqb j i) | None => false end = true ->
  exists j, cs_holder st = Some j /\ j <> i.
Proof.
  destruct (cs_holder st) as [j|]; [|discriminate]. intros H. exists j. split; auto.
  apply negb_true_iff in H. apply Nat.eqb_neq in H. exact H.
Qed.

Lemma step_missing_table s c tbl : req_table (cl_req c) = Some tbl -> alookup tbl s = None ->
  step s c = (s, fail cNotFound).
Proof.
  destruct c as [r now coins]. cbn [cl_req]. intros Hr Hn.
  destruct r; cbn in Hr; try discriminate; injection Hr as ->; unfold step; cbn [cl_req cl_now cl_coins];
    rewrite Hn; reflexivity.
Qed.

Theorem cstep_spec_holds : forall st i, cstep_spec st i (fst (cstep st i)) (snd (cstep st i)).
Proof.
  intros st i. unfold cstep.
  destruct (nth_error (cs_threads st) i) as [[todo prog]|] eqn:Hth; [|apply CsIdle].
  destruct todo as [|c rest]; [apply CsIdle|]. cbn [th_todo th_prog].
  assert (Hat : thread_at st i c rest prog) by exact Hth.
  set (wh := match cs_holder st with Some j => negb (Nat.eqb j i) | None => false end).
  assert (Hwh : wh = true -> exists j, cs_holder st = Some j /\ j <> i) by apply writer_holds_true.
  assert (Hfree : wh = false -> lock_free_for st i) by apply writer_holds_false.
  destruct prog as [| |k|rows rngs count coins pending acc final|keys now].
  - (* PNew *)
    destruct (req_table (cl_req c)) as [tbl|] eqn:Hrt.
    + destruct (alookup tbl (cs_server st)) as [t|] eqn:Ht.
      * destruct (cl_req c) eqn:Hr; cbn in Hrt; try discriminate; injection Hrt as <-.
        -- (* MutateRow *)
           cbn [fst snd]. eapply CsPark; eauto; [rewrite Hr; reflexivity|left; rewrite Hr; reflexivity].
        -- cbn [fst snd]. eapply CsPark; eauto; [rewrite Hr; reflexivity|left; rewrite Hr; reflexivity].
        -- (* CheckAndMutate *)
           destruct pred as [p|].
           ++ destruct (negb (fvalid p)) eqn:Hv; cbn [fst snd].
              ** assert (Hs : step (cs_server st) c = (cs_server st, fail cInvalidArgument)).
                 { unfold step. rewrite Hr, Ht, Hv. reflexivity. }
                 replace (cs_server st) with (fst (step (cs_server st) c)) at 1 by (rewrite Hs; reflexivity).
                 replace (fail cInvalidArgument) with (snd (step (cs_server st) c)) by (rewrite Hs; reflexivity).
                 eapply CsAtomic; eauto; [left; rewrite Hr; auto|rewrite Hr; discriminate].
              ** eapply CsPark; eauto; [rewrite Hr; reflexivity|left; rewrite Hr; reflexivity].
           ++ cbn [fst snd]. eapply CsPark; eauto; [rewrite Hr; reflexivity|left; rewrite Hr; reflexivity].
        -- cbn [fst snd]. eapply CsPark; eauto; [rewrite Hr; reflexivity|left; rewrite Hr; reflexivity].
        -- (* ReadRows *)
           destruct (negb (forallb range_ok ranges)) eqn:Hv1; cbn [fst snd].
           ++ assert (Hs : step (cs_server st) c = (cs_server st, fail cInvalidArgument)).
              { unfold step. rewrite Hr, Ht, Hv1. reflexivity. }
              replace (cs_server st) with (fst (step (cs_server st) c)) at 1 by (rewrite Hs; reflexivity).
              replace (fail cInvalidArgument) with (snd (step (cs_server st) c)) by (rewrite Hs; reflexivity).
              eapply CsAtomic; eauto; [left; rewrite Hr; auto|rewrite Hr; discriminate].
           ++ destruct (match f with Some p => negb (fvalid p) | None => false end) eqn:Hv2; cbn [fst snd].
              ** assert (Hs : step (cs_server st) c = (cs_server st, fail cInvalidArgument)).
                 { unfold step. rewrite Hr, Ht, Hv1, Hv2. reflexivity. }
                 replace (cs_server st) with (fst (step (cs_server st) c)) at 1 by (rewrite Hs; reflexivity).
                 replace (fail cInvalidArgument) with (snd (step (cs_server st) c)) by (rewrite Hs; reflexivity).
                 eapply CsAtomic; eauto; [left; rewrite Hr; auto|rewrite Hr; discriminate].
              ** eapply CsPark; eauto; [rewrite Hr; reflexivity|right; rewrite Hr].
                 cbn. apply negb_false_iff in Hv1. split; auto.
                 destruct f as [p|]; auto. apply negb_false_iff in Hv2. exact Hv2.
        -- (* RunGC *)
           destruct wh eqn:Ew.
           ++ destruct (Hwh eq_refl) as [j [Hj Hne]]. cbn [fst snd].
              eapply CsBlocked; eauto. rewrite Hr. reflexivity.
           ++ specialize (Hfree eq_refl). destruct (negb (has_rules t)) eqn:Hru; cbn [fst snd].
              ** eapply CsGcNoRules; eauto. apply negb_true_iff in Hru. exact Hru.
              ** apply negb_false_iff in Hru.
                 assert (Hg : gc_resume t c PNew = Some (map fst (t_rows t), cl_now c)).
                 { unfold gc_resume. rewrite Hr, Hru. reflexivity. }
                 destruct (gc_section t (cl_now c) (map fst (t_rows t))) as [t' keys'] eqn:Hgs.
                 replace t' with (fst (gc_section t (cl_now c) (map fst (t_rows t)))) by (rewrite Hgs; reflexivity).
                 replace keys' with (snd (gc_section t (cl_now c) (map fst (t_rows t)))) by (rewrite Hgs; reflexivity).
                 destruct (Z.to_nat btGcBatch <=? length (map fst (t_rows t)))%nat eqn:Hb; cbn [fst snd].
                 --- apply Nat.leb_le in Hb. eapply CsGcBatch; eauto. rewrite Hr. reflexivity.
                 --- apply Nat.leb_gt in Hb. eapply CsGcLast; eauto. rewrite Hr. reflexivity.
      * (* table missing *)
        cbn [fst snd]. pose proof (step_missing_table _ _ _ Hrt Ht) as Hs.
        match goal with |- cstep_spec _ _ ?S _ =>
          replace S with (fin st i rest (fst (step (cs_server st) c)) (cs_holder st))
            by (unfold fin; rewrite Hs; reflexivity) end.
        eapply CsAtomic; eauto.
        -- destruct (is_gc (cl_req c)) eqn:Eg; auto. right. left. split; auto.
           destruct (cl_req c); try discriminate. cbn in Hrt. injection Hrt as <-. eauto.
        -- intros Htl. destruct (cl_req c); cbn in Hrt, Htl; discriminate.
    + destruct (takes_lock (cl_req c) && wh) eqn:Eb; cbn [fst snd].
      * apply andb_true_iff in Eb. destruct Eb as [E1 E2]. destruct (Hwh E2) as [j [Hj Hne]].
        eapply CsBlocked; eauto. cbn. rewrite E1. reflexivity.
      * eapply CsAtomic; eauto.
        -- left. split; auto. destruct (cl_req c); cbn in Hrt; try discriminate; reflexivity.
        -- intros Htl. rewrite Htl in Eb. cbn in Eb. auto.
  - (* PAtLock *)
    destruct wh eqn:Ew.
    + destruct (Hwh eq_refl) as [j [Hj Hne]]. cbn [fst snd]. eapply CsBlocked; eauto.
    + specialize (Hfree eq_refl). destruct (is_write (cl_req c)) eqn:Hw.
      * destruct (mid_yields (cl_req c)) as [|k] eqn:Hm; cbn [fst snd].
        -- eapply CsCommit0; eauto.
        -- eapply CsAcquire; eauto.
      * destruct (cl_req c) eqn:Hr; try discriminate Hw;
          try (cbn [fst snd]; eapply CsAtomic; eauto;
               right; right; rewrite Hr; auto).
        (* ReadRows *)
        assert (Hsr : scan_resume (cs_server st) c PAtLock =
                      Some (scan_continue (S (S (length keys + length ranges))) (cs_server st) tbl f limit []
                                          (scan_ranges keys ranges) 0 (cl_coins c) 0 [])).
        { unfold scan_resume. rewrite Hr. reflexivity. }
        destruct (scan_continue _ _ _ _ _ _ _ _ _ _ _) as [p'|rsp] eqn:Hsc; cbn [fst snd].
        -- eapply CsScanPark; eauto.
        -- eapply CsScanDone; eauto.
  - (* PMid *)
    destruct k as [|k]; cbn [fst snd].
    + eapply CsCommit; eauto.
    + eapply CsMid; eauto.
  - (* PScan *)
    destruct wh eqn:Ew.
    + destruct (Hwh eq_refl) as [j [Hj Hne]]. cbn [fst snd]. eapply CsBlocked; eauto.
    + specialize (Hfree eq_refl). destruct final; cbn [fst snd].
      * eapply CsScanFinal; eauto.
      * destruct (cl_req c) eqn:Hr; try (cbn [fst snd]; apply CsIdle).
        assert (Hsr : scan_resume (cs_server st) c (PScan rows rngs count coins pending acc false) =
                      Some (scan_continue (S (S (length rngs))) (cs_server st) tbl f limit rows rngs count coins pending acc)).
        { unfold scan_resume. rewrite Hr. reflexivity. }
        destruct (scan_continue _ _ _ _ _ _ _ _ _ _ _) as [p'|rsp] eqn:Hsc; cbn [fst snd].
        -- eapply CsScanPark; eauto.
        -- eapply CsScanDone; eauto.
  - (* PGc *)
    destruct wh eqn:Ew.
    + destruct (Hwh eq_refl) as [j [Hj Hne]]. cbn [fst snd]. eapply CsBlocked; eauto.
    + specialize (Hfree eq_refl). destruct (req_table (cl_req c)) as [tbl|] eqn:Hrt; [|apply CsIdle].
      destruct (alookup tbl (cs_server st)) as [t|] eqn:Ht; cbn [fst snd].
      * destruct (gc_section t now keys) as [t' keys'] eqn:Hgs.
        replace t' with (fst (gc_section t now keys)) by (rewrite Hgs; reflexivity).
        replace keys' with (snd (gc_section t now keys)) by (rewrite Hgs; reflexivity).
        destruct (Z.to_nat btGcBatch <=? length keys)%nat eqn:Hb; cbn [fst snd].
        -- apply Nat.leb_le in Hb. eapply CsGcBatch; eauto.
        -- apply Nat.leb_gt in Hb. eapply CsGcLast; eauto.
      * eapply CsGcGone; eauto.
Qed.

(* ------------------------------------------------------------------ *)
(* Part 1b: the lock structure                                         *)
(* ------------------------------------------------------------------ *)
Definition is_mid (p : progress) : bool := match p with PMid _ => true | _ => false end.

Definition at_mid (st : cstate) (i : nat) : Prop :=
  exists th, nth_error (cs_threads st) i = Some th /\ is_mid (th_prog th) = true.

Definition is_scan_prog (p : progress) : bool := match p with PScan _ _ _ _ _ _ _ => true | _ => false end.

(* what a thread's progress says about the request it is running *)
Definition thread_wf (th : thread) : Prop :=
  match th_prog th with
  | PNew => True
  | PAtLock => exists c rest, th_todo th = c :: rest /\ (is_write (cl_req c) = true \/ valid_read (cl_req c))
  | PMid k => exists c rest, th_todo th = c :: rest /\ is_write (cl_req c) = true /\ (k < mid_yields (cl_req c))%nat
  | PScan _ _ _ _ _ _ _ => exists c rest, th_todo th = c :: rest /\ valid_read (cl_req c)
  | PGc _ _ => exists c rest, th_todo th = c :: rest /\ is_gc (cl_req c) = true
  end.

Definition conc_inv (st : cstate) : Prop :=
  (forall i, cs_holder st = Some i <-> at_mid st i) /\ Forall thread_wf (cs_threads st).

Lemma forall_upd_nth {A} (P : A -> Prop) l : forall n v, Forall P l -> P v -> Forall P (upd_nth l n v).
Proof.
  induction l as [|x xs IH]; intros [|n] v Hl Hv; cbn; auto; inversion Hl; subst; constructor; auto.
Qed.

Lemma forall_nth_error {A} (P : A -> Prop) l n x : Forall P l -> nth_error l n = Some x -> P x.
Proof. intros H Hn. rewrite Forall_forall in H. apply H. eapply nth_error_In; eauto. Qed.

Lemma at_mid_upd st s' h' i th th' j :
  nth_error (cs_threads st) i = Some th ->
  (at_mid (mkCState s' h' (upd_nth (cs_threads st) i th')) j <->
   (j = i /\ is_mid (th_prog th') = true) \/ (j <> i /\ at_mid st j)).
Proof.
  intros Hi. unfold at_mid. cbn [cs_threads]. destruct (Nat.eq_dec j i) as [->|Hne].
  - rewrite (nth_error_upd_same _ _ _ _ Hi). split.
    + intros [th0 [E M]]. injection E as <-. auto.
    + intros [[_ M]|[C _]]; [eauto|congruence].
  - rewrite nth_error_upd_other by auto. split; [auto|]. intros [[C _]|[_ H]]; [congruence|auto].
Qed.

(* same holder, the stepping thread stays outside write sections *)
Lemma inv_keep st i th th' s' :
  conc_inv st -> nth_error (cs_threads st) i = Some th -> thread_wf th' ->
  is_mid (th_prog th) = is_mid (th_prog th') ->
  conc_inv (mkCState s' (cs_holder st) (upd_nth (cs_threads st) i th')).
Proof.
  intros [Hh Hw] Hi Hw' Hm. split; [|apply forall_upd_nth; auto].
  intros j. cbn [cs_holder]. rewrite (at_mid_upd st s' _ i th th' j Hi), Hh. split.
  - intros Hj. destruct (Nat.eq_dec j i) as [->|Hne]; [left|right; auto]. split; auto.
    destruct Hj as [th0 [E M]]. rewrite Hi in E. injection E as <-. congruence.
  - intros [[-> M]|[_ H]]; auto. exists th. split; auto. congruence.
Qed.

Lemma inv_acquire st i th th' s' :
  conc_inv st -> nth_error (cs_threads st) i = Some th -> thread_wf th' ->
  lock_free_for st i -> is_mid (th_prog th') = true ->
  conc_inv (mkCState s' (Some i) (upd_nth (cs_threads st) i th')).
Proof.
  intros [Hh Hw] Hi Hw' Hf Hm. split; [|apply forall_upd_nth; auto].
  intros j. cbn [cs_holder]. rewrite (at_mid_upd st s' _ i th th' j Hi). split.
  - intros E. injection E as <-. auto.
  - intros [[-> _]|[Hne H]]; auto. apply Hh in H. apply Hf in H. congruence.
Qed.

Lemma inv_release st i th th' s' :
  conc_inv st -> nth_error (cs_threads st) i = Some th -> thread_wf th' ->
  lock_free_for st i -> is_mid (th_prog th') = false ->
  conc_inv (mkCState s' None (upd_nth (cs_threads st) i th')).
Proof.
  intros [Hh Hw] Hi Hw' Hf Hm. split; [|apply forall_upd_nth; auto].
  intros j. cbn [cs_holder]. rewrite (at_mid_upd st s' _ i th th' j Hi). split; [discriminate|].
  intros [[_ M]|[Hne H]]; [congruence|]. apply Hh in H. apply Hf in H. congruence.
Qed.

Lemma holder_lock_free st i : conc_inv st -> at_mid st i -> lock_free_for st i.
Proof. intros [Hh _] Hm j Hj. apply Hh in Hm. congruence. Qed.

Lemma scan_continue_inl fuel s tbl f limit : forall rows rngs count coins pending acc p,
  scan_continue fuel s tbl f limit rows rngs count coins pending acc = inl p -> is_scan_prog p = true.
Proof.
  induction fuel as [|fu IH]; intros rows rngs count coins pending acc p H; cbn [scan_continue] in H; [discriminate|].
  destruct (alookup tbl s) as [t|]; [|discriminate].
  destruct (scan_section t f limit rows count coins pending acc) as [[[[[[rest count'] coins'] pending'] acc'] handed] stop].
  destruct handed; [injection H as <-; reflexivity|].
  destruct rngs as [|sr more]; [|eauto].
  destruct (0 <? pending'); [injection H as <-; reflexivity|discriminate].
Qed.

Lemma some_inj {A} (x y : A) : Some x = Some y -> x = y.
Proof. congruence. Qed.

Lemma scan_resume_read s c p x : scan_resume s c p = Some x -> is_read (cl_req c) = true.
Proof. unfold scan_resume. destruct (cl_req c); try discriminate. reflexivity. Qed.

Lemma scan_resume_some s c p x : scan_resume s c p = Some x ->
  is_read (cl_req c) = true
  /\ (p = PAtLock \/ exists rows rngs count coins pending acc, p = PScan rows rngs count coins pending acc false).
Proof.
  unfold scan_resume. destruct (cl_req c); try discriminate.
  destruct p as [| | |rows rngs count coins pending acc final|]; try discriminate.
  - intros _; split; auto.
  - destruct final; [discriminate|]. intros _. split; auto. right. do 6 eexists. reflexivity.
Qed.

Lemma scan_resume_inl s c p p' : scan_resume s c p = Some (inl p') -> is_scan_prog p' = true.
Proof.
  unfold scan_resume. destruct (cl_req c); try discriminate.
  destruct p as [| | |rows rngs count coins pending acc final|]; try discriminate.
  - intros H. apply some_inj in H. eapply scan_continue_inl; eauto.
  - destruct final; [discriminate|]. intros H. apply some_inj in H. eapply scan_continue_inl; eauto.
Qed.

Lemma scan_resume_prog s c p x : scan_resume s c p = Some x -> is_mid p = false.
Proof.
  unfold scan_resume. destruct (cl_req c); try discriminate. destruct p; try discriminate; reflexivity.
Qed.

Lemma gc_resume_prog t c p x : gc_resume t c p = Some x -> is_mid p = false /\ (p = PNew -> is_gc (cl_req c) = true).
Proof.
  unfold gc_resume. destruct p; try discriminate; cbn; intros H; split; auto; try discriminate.
  intros _. destruct (is_gc (cl_req c)); auto. discriminate.
Qed.

Lemma thread_wf_new rest : thread_wf (mkThread rest PNew).
Proof. exact I. Qed.

Theorem cstep_spec_inv : forall st i st' o, cstep_spec st i st' o -> conc_inv st -> conc_inv st'.
Proof.
  intros st i st' o H Hinv. pose proof Hinv as [Hh Hw].
  destruct H as [ | c rest p j Hat Hj Hne Hn
                | c rest p Hat Hp Hl
                | c rest tbl t Hat Hrt Ht Hk
                | c rest k Hat Hf Hw1 Hm
                | c rest Hat Hf Hw1 Hm
                | c rest k Hat
                | c rest Hat
                | c rest p p' Hat Hf Hs
                | c rest p rsp Hat Hf Hs
                | c rest rows rngs count coins pending acc Hat Hf
                | c rest p tbl t keys now Hat Hf Hrt Ht Hg Hb
                | c rest p tbl t keys now Hat Hf Hrt Ht Hg Hb
                | c rest tbl t Hat Hf Hr Ht Hru
                | c rest keys now tbl Hat Hf Hrt Ht ]; auto; unfold fin, set_prog.
  - (* atomic *) eapply inv_keep; eauto; [apply thread_wf_new|].
    destruct Hp as [[-> _]|[[-> _]|[-> _]]]; reflexivity.
  - (* park *) eapply inv_keep; eauto. cbn. eauto.
  - (* acquire *) eapply inv_acquire; eauto. cbn. exists c, rest. repeat split; auto. lia.
  - (* commit0 *) eapply inv_release; eauto. apply thread_wf_new.
  - (* mid *) eapply inv_keep; eauto.
    pose proof (forall_nth_error _ _ _ _ Hw Hat) as W. cbn in W. destruct W as [c0 [r0 [E [W1 W2]]]].
    injection E as <- <-. cbn. exists c, rest. repeat split; auto. lia.
  - (* commit *) eapply inv_release; eauto; [apply thread_wf_new|].
    eapply holder_lock_free; eauto. eexists. split; [exact Hat|reflexivity].
  - (* scan park *)
    pose proof (scan_resume_inl _ _ _ _ Hs) as Hp'. pose proof (scan_resume_prog _ _ _ _ Hs) as Hp.
    eapply inv_keep; eauto.
    + pose proof (forall_nth_error _ _ _ _ Hw Hat) as W.
      assert (Hv : valid_read (cl_req c)).
      { pose proof (scan_resume_read _ _ _ _ Hs) as Hrd. unfold thread_wf in W. cbn [th_prog th_todo] in W.
        destruct p; try discriminate Hp; try (destruct final; discriminate Hs);
          try (unfold scan_resume in Hs; destruct (cl_req c); discriminate Hs);
          destruct W as [c0 [r0 [E W]]]; injection E as <- <-; auto.
        destruct W as [W|W]; auto. destruct (cl_req c); discriminate. }
      destruct p'; try discriminate. cbn. eauto.
    + cbn [th_prog]. rewrite Hp. destruct p'; try discriminate; reflexivity.
  - (* scan done *) eapply inv_keep; eauto; [apply thread_wf_new|]. cbn [th_prog]. rewrite (scan_resume_prog _ _ _ _ Hs). reflexivity.
  - eapply inv_keep; eauto. apply thread_wf_new.
  - (* gc batch *) destruct (gc_resume_prog _ _ _ _ Hg) as [G1 G2]. eapply inv_keep; eauto.
    cbn. exists c, rest. split; auto. destruct p; try discriminate; auto.
    pose proof (forall_nth_error _ _ _ _ Hw Hat) as W. cbn in W. destruct W as [c0 [r0 [E W]]]. injection E as <- <-. auto.
  - destruct (gc_resume_prog _ _ _ _ Hg) as [G1 G2]. eapply inv_keep; eauto. apply thread_wf_new.
  - eapply inv_keep; eauto. apply thread_wf_new.
  - eapply inv_keep; eauto. apply thread_wf_new.
Qed.

Theorem cstep_inv : forall st i, conc_inv st -> conc_inv (fst (cstep st i)).
Proof. intros st i. apply (cstep_spec_inv st i _ _ (cstep_spec_holds st i)). Qed.

Lemma crun_cons st i rest :
  crun st (i :: rest) = (fst (crun (fst (cstep st i)) rest), snd (cstep st i) :: snd (crun (fst (cstep st i)) rest)).
Proof. cbn [crun]. destruct (cstep st i) as [st1 o]. cbn [fst snd]. destruct (crun st1 rest). reflexivity. Qed.

Lemma crun_app st s1 : forall s2,
  crun st (s1 ++ s2) = (fst (crun (fst (crun st s1)) s2), snd (crun st s1) ++ snd (crun (fst (crun st s1)) s2)).
Proof.
  revert st. induction s1 as [|i s1 IH]; intros st s2.
  - cbn. destruct (crun st s2); reflexivity.
  - rewrite <- app_comm_cons, !crun_cons, IH. cbn [fst snd]. reflexivity.
Qed.

Theorem crun_inv : forall sched st, conc_inv st -> conc_inv (fst (crun st sched)).
Proof.
  induction sched as [|i sched IH]; intros st H; [exact H|]. rewrite crun_cons. cbn [fst].
  apply IH. apply cstep_inv. exact H.
Qed.

Lemma init_inv s0 progs : conc_inv (init_cstate s0 progs).
Proof.
  split.
  - intros i. unfold at_mid, init_cstate. cbn [cs_holder cs_threads]. split; [discriminate|]. intros [th [E M]].
    rewrite nth_error_map in E. destruct (nth_error progs i); cbn in E; [|discriminate]. injection E as <-. discriminate.
  - cbn. rewrite Forall_map. rewrite Forall_forall. intros cs _. exact I.
Qed.

(* every reachable state: the holder is exactly the thread parked inside its write section *)
Theorem conc_inv_reachable : forall s0 progs sched, conc_inv (fst (crun (init_cstate s0 progs) sched)).
Proof. intros. apply crun_inv, init_inv. Qed.

(* at most one thread is inside a write section *)
Theorem mid_unique : forall st i j, conc_inv st -> at_mid st i -> at_mid st j -> i = j.
Proof. intros st i j [Hh _] Hi Hj. apply Hh in Hi. apply Hh in Hj. congruence. Qed.

(* a blocked step: the thread needs the lock, ANOTHER thread holds it parked inside its write
   section, and nothing changes *)
Theorem blocked_spec : forall st i, snd (cstep st i) = OBlocked ->
  fst (cstep st i) = st
  /\ exists c rest p j, thread_at st i c rest p /\ needs_lock (cl_req c) p = true
                        /\ cs_holder st = Some j /\ j <> i /\ (conc_inv st -> at_mid st j).
Proof.
  intros st i H. pose proof (cstep_spec_holds st i) as S. rewrite H in S.
  remember (fst (cstep st i)) as st'. remember OBlocked as o.
  destruct S; try discriminate. split; auto. exists c, rest, p, j. repeat split; auto.
  intros [Hh _]. apply Hh. auto.
Qed.

Theorem idle_spec : forall st i, snd (cstep st i) = OIdle -> fst (cstep st i) = st.
Proof.
  intros st i H. pose proof (cstep_spec_holds st i) as S. rewrite H in S.
  remember (fst (cstep st i)) as st'. remember OIdle as o.
  destruct S; try discriminate. reflexivity.
Qed.

(* whenever no writer is parked inside its section, no step is blocked *)
Theorem free_not_blocked : forall st i, cs_holder st = None -> snd (cstep st i) <> OBlocked.
Proof. intros st i Hn H. destruct (blocked_spec st i H) as [_ [c [rest [p [j [_ [_ [Hj _]]]]]]]]. congruence. Qed.

(* a step of thread i never changes another thread's record, nor the number of threads *)
Theorem cstep_spec_frame : forall st i st' o, cstep_spec st i st' o ->
  length (cs_threads st') = length (cs_threads st)
  /\ forall j, j <> i -> nth_error (cs_threads st') j = nth_error (cs_threads st) j.
Proof.
  intros st i st' o H. destruct H; unfold fin, set_prog; cbn [cs_threads];
    (split; [try apply upd_nth_length; reflexivity|intros j0 Hj0; try apply nth_error_upd_other; auto]).
Qed.

Theorem cstep_frame : forall st i j, j <> i ->
  nth_error (cs_threads (fst (cstep st i))) j = nth_error (cs_threads st) j.
Proof. intros st i j H. apply (cstep_spec_frame st i _ _ (cstep_spec_holds st i)); auto. Qed.

(* ------------------------------------------------------------------ *)
(* Part 2a: every step is a serial effect on the server               *)
(* ------------------------------------------------------------------ *)
Inductive effect :=
| ENone                                          (* the server is not touched *)
| ECommit (c : call)                             (* the whole request, as [step] *)
| EGc (tbl : bytes) (now : Z) (keys : list bytes). (* one GC batch: [gc_section] on the table as it is NOW *)

Definition apply_effect (s : server) (e : effect) : server :=
  match e with
  | ENone => s
  | ECommit c => fst (step s c)
  | EGc tbl now keys =>
      match alookup tbl s with
      | Some t => set_table s tbl (fst (gc_section t now keys))
      | None => s
      end
  end.

Definition is_done (o : outcome) : bool := match o with ODone _ => true | _ => false end.

(* what the step of thread [i] does to the server *)
Definition step_effect (st : cstate) (i : nat) : effect :=
  match nth_error (cs_threads st) i with
  | Some (mkThread (c :: _) p) =>
      match snd (cstep st i) with
      | OBlocked | OIdle => ENone
      | o =>
          match p with
          | PNew =>
              match cl_req c with
              | BRunGC tbl =>
                  match alookup tbl (cs_server st) with
                  | Some t => if has_rules t then EGc tbl (cl_now c) (map fst (t_rows t)) else ENone
                  | None => ENone
                  end
              | _ => if is_done o then ECommit c else ENone
              end
          | PAtLock => if is_done o && negb (is_read (cl_req c)) then ECommit c else ENone
          | PMid O => ECommit c
          | PMid (S _) => ENone
          | PScan _ _ _ _ _ _ _ => ENone
          | PGc keys now => match req_table (cl_req c) with Some tbl => EGc tbl now keys | None => ENone end
          end
      end
  | _ => ENone
  end.

Lemma step_read_server s c : is_read (cl_req c) = true -> fst (step s c) = s.
Proof.
  destruct c as [r now coins]. cbn [cl_req]. destruct r; try discriminate. intros _.
  unfold step. cbn [cl_req cl_now cl_coins]. destruct (alookup tbl s); auto.
  destruct (negb (forallb range_ok ranges)); auto. destruct (match f with Some p => negb (fvalid p) | None => false end); auto.
Qed.

Theorem cstep_effect : forall st i, cs_server (fst (cstep st i)) = apply_effect (cs_server st) (step_effect st i).
Proof.
  intros st i. pose proof (cstep_spec_holds st i) as S. unfold step_effect.
  remember (fst (cstep st i)) as st' eqn:E1. remember (snd (cstep st i)) as o eqn:E2.
  destruct S as [ | c rest p j Hat Hj Hne Hn
                | c rest p Hat Hp Hl
                | c rest tbl t Hat Hrt Ht Hk
                | c rest k Hat Hf Hw1 Hm
                | c rest Hat Hf Hw1 Hm
                | c rest k Hat
                | c rest Hat
                | c rest p p' Hat Hf Hs
                | c rest p rsp Hat Hf Hs
                | c rest rows rngs count coins pending acc Hat Hf
                | c rest p tbl t keys now Hat Hf Hrt Ht Hg Hb
                | c rest p tbl t keys now Hat Hf Hrt Ht Hg Hb
                | c rest tbl t Hat Hf Hr Ht Hru
                | c rest keys now tbl Hat Hf Hrt Ht ];
    try (unfold thread_at in Hat; rewrite Hat); unfold fin, set_prog; cbn [cs_server].
  - destruct (nth_error (cs_threads st) i) as [[[|c rest] p]|]; reflexivity.
  - reflexivity.
  - (* atomic *)
    destruct Hp as [[-> Hg]|[[-> [tbl [Hr Ht]]]|[-> [Hw Hrd]]]].
    + destruct (cl_req c); try discriminate; reflexivity.
    + rewrite Hr, Ht. cbn [apply_effect]. rewrite (step_missing_table (cs_server st) c tbl); auto. rewrite Hr. reflexivity.
    + rewrite Hrd. reflexivity.
  - (* park *) destruct (cl_req c); try reflexivity. cbn in Hk. destruct Hk as [Hk|Hk]; [discriminate|destruct Hk].
  - reflexivity.
  - assert (Hrd : is_read (cl_req c) = false) by (destruct (cl_req c); try discriminate; reflexivity).
    rewrite Hrd. reflexivity.
  - reflexivity.
  - reflexivity.
  - (* scan park *)
    destruct (scan_resume_some _ _ _ _ Hs) as [Hrd [->|[rows [rngs [count [coins [pending [acc ->]]]]]]]]; reflexivity.
  - destruct (scan_resume_some _ _ _ _ Hs) as [Hrd [->|[rows [rngs [count [coins [pending [acc ->]]]]]]]]; [|reflexivity].
    rewrite Hrd. reflexivity.
  - reflexivity.
  - (* gc batch *)
    destruct p; try discriminate Hg.
    + unfold gc_resume in Hg. destruct (cl_req c) eqn:Hr; try discriminate Hg. cbn in Hrt. injection Hrt as ->.
      rewrite Ht. cbn [is_gc andb] in Hg. destruct (has_rules t); [|discriminate]. injection Hg as <- <-.
      cbn [apply_effect]. rewrite Ht. reflexivity.
    + cbn in Hg. injection Hg as <- <-. rewrite Hrt. cbn [apply_effect]. rewrite Ht. reflexivity.
  - destruct p; try discriminate Hg.
    + unfold gc_resume in Hg. destruct (cl_req c) eqn:Hr; try discriminate Hg. cbn in Hrt. injection Hrt as ->.
      rewrite Ht. cbn [is_gc andb] in Hg. destruct (has_rules t); [|discriminate]. injection Hg as <- <-.
      cbn [apply_effect]. rewrite Ht. reflexivity.
    + cbn in Hg. injection Hg as <- <-. rewrite Hrt. cbn [apply_effect]. rewrite Ht. reflexivity.
  - rewrite Hr, Ht, Hru. reflexivity.
  - rewrite Hrt. cbn [apply_effect]. rewrite Ht. reflexivity.
Qed.

Fixpoint effects (st : cstate) (sched : list nat) : list effect :=
  match sched with
  | [] => []
  | i :: rest => step_effect st i :: effects (fst (cstep st i)) rest
  end.

(* the server after any schedule is the serial composition, in schedule order, of the commit
   effects ([step] of the committing call) and the GC batch effects ([gc_section]), each one
   acting on the state left by everything before it *)
Theorem crun_is_serial_effects : forall sched st,
  cs_server (fst (crun st sched)) = fold_left apply_effect (effects st sched) (cs_server st).
Proof.
  induction sched as [|i sched IH]; intros st; [reflexivity|].
  rewrite crun_cons. cbn [fst effects fold_left]. rewrite IH, cstep_effect. reflexivity.
Qed.

(* ------------------------------------------------------------------ *)
(* Part 2b: scan sections as functions                                 *)
(* ------------------------------------------------------------------ *)
From Emu.BT Require Import RowSetProofs ScanProofs.
From Coq Require Import Sorting Permutation.

Lemma scan_section_step t f limit k fs rest count coins pending acc :
  scan_section t f limit ((k, fs) :: rest) count coins pending acc =
  if (0 <? limit) && (limit <=? count) then ([], count, coins, pending, acc, false, true)
  else match visit t f k fs coins with
       | (Some r, c1) =>
           if btFlushChunks <? pending + cells_of (row_fams r)
           then (rest, count + 1, c1, 0, r :: acc, true, false)
           else scan_section t f limit rest (count + 1) c1 (pending + cells_of (row_fams r)) (r :: acc)
       | (None, c1) => scan_section t f limit rest count c1 pending acc
       end.
Proof.
  cbn [scan_section]. destruct ((0 <? limit) && (limit <=? count)); [reflexivity|].
  unfold visit. destruct fs as [|fm fs0]; [reflexivity|].
  destruct (match f with Some flt => feval k flt (fm :: fs0) coins | None => (true, fm :: fs0, coins) end) as [[m fs'] c'].
  destruct m; cbn [negb]; [|reflexivity].
  destruct (scrub_fams (t_fams t) fs'); reflexivity.
Qed.

(* a section that does not hand over is the sequential row loop *)
Lemma scan_section_quiet t f limit : forall rows count coins pending acc rest c' coins' p' acc' stop,
  scan_section t f limit rows count coins pending acc = (rest, c', coins', p', acc', false, stop) ->
  scan_rows t f limit rows count coins acc = (c', coins', acc', stop).
Proof.
  induction rows as [|[k fs] rows IH]; intros count coins pending acc rest c' coins' p' acc' stop H.
  - cbn in H. injection H as <- <- <- <- <- <-. reflexivity.
  - rewrite scan_section_step in H. rewrite scan_rows_step.
    destruct ((0 <? limit) && (limit <=? count)); [injection H as <- <- <- <- <- <-; reflexivity|].
    destruct (visit t f k fs coins) as [[r|] c1]; [|eauto].
    destruct (btFlushChunks <? pending + cells_of (row_fams r)); [discriminate|eauto].
Qed.

Definition final_acc (p : progress) : option (list row) :=
  match p with PScan _ _ _ _ _ acc true => Some acc | _ => None end.

Definition scan_rest (t : table) (f : option rfilter) (limit : Z) (rows : list (bytes * list family))
           (rngs : list srange) (count : Z) (coins : list bool) (acc : list row) : list row :=
  let '(c1, coins1, acc1, _) := scan_rows t f limit rows count coins acc in scan_all t f limit rngs c1 coins1 acc1.

(* a continuation that reaches the end of the scan without handing over computes what the
   sequential scan computes on the table as it is now *)
Lemma scan_continue_quiet s tbl f limit t : alookup tbl s = Some t ->
  forall fuel rows rngs count coins pending acc, (length rngs < fuel)%nat ->
  match scan_continue fuel s tbl f limit rows rngs count coins pending acc with
  | inr rsp => rsp = ok (YRows (scan_rest t f limit rows rngs count coins acc))
  | inl p => forall acc', final_acc p = Some acc' -> rev acc' = scan_rest t f limit rows rngs count coins acc
  end.
Proof.
  intros Ht. induction fuel as [|fu IH]; intros rows rngs count coins pending acc Hlen; [lia|].
  cbn [scan_continue]. rewrite Ht.
  destruct (scan_section t f limit rows count coins pending acc) as [[[[[[rest c'] coins'] p'] acc1] handed] stop] eqn:Hs.
  destruct handed; [intros acc' H; discriminate|].
  apply scan_section_quiet in Hs. unfold scan_rest. rewrite Hs.
  destruct rngs as [|sr more].
  - cbn [scan_all]. destruct (0 <? p'); [|reflexivity]. intros acc' H. injection H as <-. reflexivity.
  - cbn [length] in Hlen. specialize (IH (filter (fun p => in_srange_b sr (fst p)) (t_rows t)) more c' coins' p' acc1 ltac:(lia)).
    unfold scan_rest in IH. cbn [scan_all].
    destruct (scan_rows t f limit (filter (fun p => in_srange_b sr (fst p)) (t_rows t)) c' coins' acc1) as [[[c2 coins2] acc2] st2].
    exact IH.
Qed.

Lemma insert_length x l : length (insert x l) = S (length l).
Proof. induction l as [|y ys IH]; cbn; auto. destruct (range_leb x y); cbn; auto. Qed.

Lemma isort_length l : length (isort l) = length l.
Proof. induction l as [|x xs IH]; cbn; auto. rewrite insert_length, IH. reflexivity. Qed.

Lemma coalesce_length rest : forall a, (length (coalesce a rest) <= S (length rest))%nat.
Proof.
  induction rest as [|b rest IH]; intros a; cbn; auto.
  destruct (merge2 a b); cbn; [specialize (IH s)|specialize (IH b)]; lia.
Qed.

Lemma merge_length l : (length (merge_simple_ranges l) <= length l)%nat.
Proof.
  unfold merge_simple_ranges. pose proof (isort_length l) as H. destruct (isort l) as [|a rest]; cbn in *; [lia|].
  pose proof (coalesce_length rest a). lia.
Qed.

Lemma scan_ranges_length keys ranges : (length (scan_ranges keys ranges) <= S (length keys + length ranges))%nat.
Proof.
  unfold scan_ranges.
  assert (G : (length (merge_simple_ranges (map key_range keys ++ map encode_range ranges)) <= length keys + length ranges)%nat).
  { etransitivity; [apply merge_length|]. rewrite app_length, !map_length. lia. }
  destruct keys; [destruct ranges|]; cbn [length] in *; lia.
Qed.

(* a valid read that runs from its first lock to its end in ONE section answers what the
   sequential [step] answers in the state of that moment *)
Lemma scan_first_section_exact s c : valid_read (cl_req c) ->
  match scan_resume s c PAtLock with
  | Some (inr rsp) => rsp = snd (step s c)
  | Some (inl p) => forall acc, final_acc p = Some acc -> ok (YRows (rev acc)) = snd (step s c)
  | None => False
  end.
Proof.
  destruct c as [r now coins]. cbn [cl_req]. destruct r; cbn [valid_read]; try tauto. intros [Hv1 Hv2].
  unfold scan_resume. cbn [cl_req cl_coins].
  assert (Hstep : step s (mkCall (BReadRows tbl keys ranges f limit) now coins) =
                  match alookup tbl s with
                  | Some t => (s, ok (YRows (scan_all t f limit (scan_ranges keys ranges) 0 coins [])))
                  | None => (s, fail cNotFound)
                  end).
  { unfold step. cbn [cl_req cl_now cl_coins]. destruct (alookup tbl s); auto. rewrite Hv1. cbn [negb].
    destruct f as [p|]; auto. rewrite Hv2. reflexivity. }
  rewrite Hstep. destruct (alookup tbl s) as [t|] eqn:Ht.
  - pose proof (scan_continue_quiet s tbl f limit t Ht (S (S (length keys + length ranges))) []
                  (scan_ranges keys ranges) 0 coins 0 []) as Q.
    specialize (Q ltac:(pose proof (scan_ranges_length keys ranges); lia)).
    unfold scan_rest in Q. cbn [scan_rows] in Q.
    destruct (scan_continue _ s tbl f limit [] _ 0 coins 0 []) as [p|rsp]; cbn [snd]; auto.
    intros acc Ha. rewrite (Q acc Ha). reflexivity.
  - cbn [scan_continue]. rewrite Ht. reflexivity.
Qed.

(* ------------------------------------------------------------------ *)
(* Part 2c: the linearisation log                                      *)
(* ------------------------------------------------------------------ *)
(* A request is linearised at the step where its effect and its response are fixed:
   - every request except a read: the step that answers it (for a writer: the step that leaves
     the write section, so commit order = order of the ODone steps);
   - a read: the step at which its LAST section ends (the answer is then fixed; it is handed to
     the client one step later, after the final r.send yield).
   [ev_rem] = number of requests behind this one in its thread's program: (ev_tid, ev_rem)
   names the request.  [ev_exact] = false only for a read that handed over in the middle. *)
Record event := mkEv { ev_tid : nat; ev_call : call; ev_rem : nat; ev_resp : bresp; ev_exact : bool }.

Definition prog_at (st : cstate) (i : nat) : progress :=
  match nth_error (cs_threads st) i with Some th => th_prog th | None => PNew end.
Definition todo_at (st : cstate) (i : nat) : list call :=
  match nth_error (cs_threads st) i with Some th => th_todo th | None => [] end.

Definition step_event (st : cstate) (i : nat) : option event :=
  match nth_error (cs_threads st) i with
  | Some (mkThread (c :: rest) p) =>
      match final_acc p with
      | Some _ => None                       (* the last send of a read: linearised before *)
      | None =>
          match snd (cstep st i) with
          | ODone r => Some (mkEv i c (length rest) r (negb (is_scan_prog p)))
          | OAt => match final_acc (prog_at (fst (cstep st i)) i) with
                   | Some acc => Some (mkEv i c (length rest) (ok (YRows (rev acc))) (negb (is_scan_prog p)))
                   | None => None
                   end
          | _ => None
          end
      end
  | _ => None
  end.

Definition opt_list {A} (o : option A) : list A := match o with Some x => [x] | None => [] end.

Fixpoint lin_log (st : cstate) (sched : list nat) : list event :=
  match sched with
  | [] => []
  | i :: rest => opt_list (step_event st i) ++ lin_log (fst (cstep st i)) rest
  end.

Lemma lin_log_app st s1 : forall s2, lin_log st (s1 ++ s2) = lin_log st s1 ++ lin_log (fst (crun st s1)) s2.
Proof.
  revert st. induction s1 as [|i s1 IH]; intros st s2; [reflexivity|].
  rewrite <- app_comm_cons. cbn [lin_log]. rewrite IH, crun_cons, app_assoc. reflexivity.
Qed.

(* the answer a thread still owes its client for a request already linearised *)
Definition pending (st : cstate) (i : nat) : list bresp :=
  match final_acc (prog_at st i) with Some acc => [ok (YRows (rev acc))] | None => [] end.
(* the requests of a thread not yet linearised *)
Definition unlin (st : cstate) (i : nat) : list call := skipn (length (pending st i)) (todo_at st i).

Fixpoint tag (l : list call) : list (call * nat) :=
  match l with [] => [] | c :: r => (c, length r) :: tag r end.
Definition ev_tag (e : event) : call * nat := (ev_call e, ev_rem e).
Definition done_resp (o : outcome) : list bresp := match o with ODone r => [r] | _ => [] end.

(* no request satisfying [P] anywhere in the programs still to run *)
Definition no_req (P : breq -> bool) (st : cstate) : Prop :=
  Forall (fun th => Forall (fun c => P (cl_req c) = false) (th_todo th)) (cs_threads st).
Definition no_req_progs (P : breq -> bool) (progs : list (list call)) : Prop :=
  Forall (Forall (fun c => P (cl_req c) = false)) progs.

Lemma no_req_at P st i c rest p : no_req P st -> thread_at st i c rest p -> P (cl_req c) = false.
Proof.
  intros H Hat. pose proof (forall_nth_error _ _ _ _ H Hat) as W. cbn in W. inversion W; auto.
Qed.

Lemma no_req_tail P st i c rest p s' h : no_req P st -> thread_at st i c rest p -> no_req P (fin st i rest s' h).
Proof.
  intros H Hat. unfold no_req, fin. cbn [cs_threads]. apply forall_upd_nth; auto.
  pose proof (forall_nth_error _ _ _ _ H Hat) as W. cbn in *. inversion W; auto.
Qed.

Lemma no_req_same P st i c rest p p' s' h : no_req P st -> thread_at st i c rest p ->
  no_req P (mkCState s' h (upd_nth (cs_threads st) i (mkThread (c :: rest) p'))).
Proof.
  intros H Hat. unfold no_req. cbn [cs_threads]. apply forall_upd_nth; auto.
  exact (forall_nth_error _ _ _ _ H Hat).
Qed.

Theorem cstep_spec_no_req : forall P st i st' o, cstep_spec st i st' o -> no_req P st -> no_req P st'.
Proof.
  intros P st i st' o H Hn. destruct H; auto; unfold set_prog; eauto using no_req_tail, no_req_same.
Qed.

Lemma cstep_no_req P st i : no_req P st -> no_req P (fst (cstep st i)).
Proof. apply (cstep_spec_no_req P st i _ _ (cstep_spec_holds st i)). Qed.

Lemma crun_no_req P sched : forall st, no_req P st -> no_req P (fst (crun st sched)).
Proof.
  induction sched as [|i sched IH]; intros st H; [exact H|]. rewrite crun_cons. cbn [fst]. apply IH, cstep_no_req, H.
Qed.

Lemma init_no_req P s0 progs : no_req_progs P progs -> no_req P (init_cstate s0 progs).
Proof.
  intros H. unfold no_req, init_cstate. cbn [cs_threads]. rewrite Forall_map.
  eapply Forall_impl; [|exact H]. intros cs Hcs. exact Hcs.
Qed.

Definition no_gc : cstate -> Prop := no_req is_gc.
Definition no_gc_progs : list (list call) -> Prop := no_req_progs is_gc.
Lemma no_gc_at st i c rest p : no_gc st -> thread_at st i c rest p -> is_gc (cl_req c) = false.
Proof. apply no_req_at. Qed.
Lemma cstep_no_gc st i : no_gc st -> no_gc (fst (cstep st i)).
Proof. apply cstep_no_req. Qed.
Lemma crun_no_gc sched st : no_gc st -> no_gc (fst (crun st sched)).
Proof. apply crun_no_req. Qed.
Lemma init_no_gc s0 progs : no_gc_progs progs -> no_gc (init_cstate s0 progs).
Proof. apply init_no_req. Qed.

Lemma prog_at_fin st i rest s' h th : nth_error (cs_threads st) i = Some th -> prog_at (fin st i rest s' h) i = PNew.
Proof. intros H. unfold prog_at, fin. cbn [cs_threads]. rewrite (nth_error_upd_same _ _ _ _ H). reflexivity. Qed.
Lemma todo_at_fin st i rest s' h th : nth_error (cs_threads st) i = Some th -> todo_at (fin st i rest s' h) i = rest.
Proof. intros H. unfold todo_at, fin. cbn [cs_threads]. rewrite (nth_error_upd_same _ _ _ _ H). reflexivity. Qed.
Lemma prog_at_upd st i s' h th th' : nth_error (cs_threads st) i = Some th ->
  prog_at (mkCState s' h (upd_nth (cs_threads st) i th')) i = th_prog th'.
Proof. intros H. unfold prog_at. cbn [cs_threads]. rewrite (nth_error_upd_same _ _ _ _ H). reflexivity. Qed.
Lemma todo_at_upd st i s' h th th' : nth_error (cs_threads st) i = Some th ->
  todo_at (mkCState s' h (upd_nth (cs_threads st) i th')) i = th_todo th'.
Proof. intros H. unfold todo_at. cbn [cs_threads]. rewrite (nth_error_upd_same _ _ _ _ H). reflexivity. Qed.

Lemma final_acc_scan p acc : final_acc p = Some acc -> is_scan_prog p = true.
Proof. destruct p; try discriminate. reflexivity. Qed.

Lemma pending_fin st i rest s' h th : nth_error (cs_threads st) i = Some th -> pending (fin st i rest s' h) i = [].
Proof. intros H. unfold pending. rewrite (prog_at_fin _ _ _ _ _ _ H). reflexivity. Qed.
Lemma unlin_fin st i rest s' h th : nth_error (cs_threads st) i = Some th -> unlin (fin st i rest s' h) i = rest.
Proof. intros H. unfold unlin. rewrite (pending_fin _ _ _ _ _ _ H), (todo_at_fin _ _ _ _ _ _ H). reflexivity. Qed.
Definition pending_of (p : progress) : list bresp :=
  match final_acc p with Some acc => [ok (YRows (rev acc))] | None => [] end.
Lemma pending_upd st i s' h th th' : nth_error (cs_threads st) i = Some th ->
  pending (mkCState s' h (upd_nth (cs_threads st) i th')) i = pending_of (th_prog th').
Proof. intros H. unfold pending. rewrite (prog_at_upd _ _ _ _ _ _ H). reflexivity. Qed.
Lemma unlin_upd st i s' h th th' : nth_error (cs_threads st) i = Some th ->
  unlin (mkCState s' h (upd_nth (cs_threads st) i th')) i = skipn (length (pending_of (th_prog th'))) (th_todo th').
Proof. intros H. unfold unlin. rewrite (pending_upd _ _ _ _ _ _ H), (todo_at_upd _ _ _ _ _ _ H). reflexivity. Qed.
Lemma pending_at st i c rest p : thread_at st i c rest p -> pending st i = pending_of p.
Proof. intros H. unfold pending, prog_at. rewrite H. reflexivity. Qed.
Lemma unlin_at st i c rest p : thread_at st i c rest p -> unlin st i = skipn (length (pending_of p)) (c :: rest).
Proof. intros H. unfold unlin. rewrite (pending_at _ _ _ _ _ H). unfold todo_at. rewrite H. reflexivity. Qed.

(* case analysis of a step in a state without GC requests *)
Ltac lin_cases st i Hinv Hng :=
  let S := fresh "S" in
  pose proof (cstep_spec_holds st i) as S;
  let Hw := fresh "Hw" in assert (Hw : Forall thread_wf (cs_threads st)) by (apply Hinv);
  let E1 := fresh "E1" in let E2 := fresh "E2" in let st' := fresh "st'" in let o := fresh "o" in
  remember (fst (cstep st i)) as st' eqn:E1; remember (snd (cstep st i)) as o eqn:E2;
  destruct S as [ | c rest p j Hat Hj Hne Hn
                | c rest p Hat Hp Hl
                | c rest tbl t Hat Hrt Ht Hk
                | c rest k Hat Hf Hw1 Hm
                | c rest Hat Hf Hw1 Hm
                | c rest k Hat
                | c rest Hat
                | c rest p p' Hat Hf Hs
                | c rest p rsp Hat Hf Hs
                | c rest rows rngs count coins pending0 acc Hat Hf
                | c rest p tbl t keys now Hat Hf Hrt Ht Hg Hb
                | c rest p tbl t keys now Hat Hf Hrt Ht Hg Hb
                | c rest tbl t Hat Hf Hr Ht Hru
                | c rest keys now tbl Hat Hf Hrt Ht ];
  try (exfalso; pose proof (no_gc_at _ _ _ _ _ Hng Hat) as G;
       destruct (gc_resume_prog _ _ _ _ Hg) as [G1 G2];
       destruct p; try discriminate Hg; [rewrite G2 in G; auto; discriminate|];
       pose proof (forall_nth_error _ _ _ _ Hw Hat) as W; cbn in W; destruct W as [c0 [r0 [E W]]];
       injection E as <- <-; congruence);
  try (exfalso; pose proof (no_gc_at _ _ _ _ _ Hng Hat) as G; rewrite Hr in G; discriminate);
  try (exfalso; pose proof (no_gc_at _ _ _ _ _ Hng Hat) as G;
       pose proof (forall_nth_error _ _ _ _ Hw Hat) as W; cbn in W; destruct W as [c0 [r0 [E W]]];
       injection E as <- <-; congruence).

Lemma atomic_final_acc p (c : call) :
  (p = PNew /\ is_gc (cl_req c) = false \/ p = PNew /\ (exists tbl : bytes, cl_req c = BRunGC tbl /\ True)
   \/ p = PAtLock /\ is_write (cl_req c) = false /\ is_read (cl_req c) = false) -> final_acc p = None /\ is_scan_prog p = false.
Proof. intros [[-> _]|[[-> _]|[-> _]]]; auto. Qed.

Lemma scan_resume_final_acc s c p x : scan_resume s c p = Some x -> final_acc p = None.
Proof. intros H. destruct (scan_resume_some _ _ _ _ H) as [_ [->|[? [? [? [? [? [? ->]]]]]]]]; reflexivity. Qed.

(* the event of a step, case by case *)
Lemma step_event_spec st i : conc_inv st -> no_gc st ->
  (step_event st i = None /\
     (snd (cstep st i) = OIdle \/ snd (cstep st i) = OBlocked
      \/ (snd (cstep st i) = OAt /\ pending (fst (cstep st i)) i = [] /\ pending st i = []
          /\ unlin (fst (cstep st i)) i = unlin st i /\ cs_server (fst (cstep st i)) = cs_server st)
      \/ (exists r, snd (cstep st i) = ODone r /\ pending st i = [r] /\ pending (fst (cstep st i)) i = []
                    /\ unlin (fst (cstep st i)) i = unlin st i /\ cs_server (fst (cstep st i)) = cs_server st)))
  \/ (exists c rest p r ex,
        thread_at st i c rest p /\ step_event st i = Some (mkEv i c (length rest) r ex)
        /\ pending st i = [] /\ unlin st i = c :: rest /\ unlin (fst (cstep st i)) i = rest
        /\ cs_server (fst (cstep st i)) = fst (step (cs_server st) c)
        /\ (ex = true -> r = snd (step (cs_server st) c))
        /\ ((snd (cstep st i) = ODone r /\ pending (fst (cstep st i)) i = [])
            \/ (snd (cstep st i) = OAt /\ pending (fst (cstep st i)) i = [r]))).
Proof.
  intros Hinv Hng. unfold step_event. lin_cases st i Hinv Hng.
  - left. split; auto. destruct (nth_error (cs_threads st) i) as [[[|c rest] p]|]; try reflexivity. destruct (final_acc p); reflexivity.
  - left. split; auto. unfold thread_at in Hat. rewrite Hat. destruct (final_acc p); reflexivity.
  - (* atomic *)
    right. assert (Hfa : final_acc p = None /\ is_scan_prog p = false) by (destruct Hp as [[-> _]|[[-> _]|[-> _]]]; auto).
    destruct Hfa as [Hfa Hsp]. exists c, rest, p, (snd (step (cs_server st) c)), true.
    rewrite (pending_at _ _ _ _ _ Hat), (unlin_at _ _ _ _ _ Hat). unfold pending_of. rewrite Hfa.
    rewrite (unlin_fin _ _ _ _ _ _ Hat), (pending_fin _ _ _ _ _ _ Hat).
    unfold thread_at in Hat. rewrite Hat, Hfa, Hsp. repeat split; auto.
  - (* park *)
    left. rewrite (pending_at _ _ _ _ _ Hat), (unlin_at _ _ _ _ _ Hat). unfold set_prog.
    rewrite (pending_upd _ _ _ _ _ _ Hat), (unlin_upd _ _ _ _ _ _ Hat).
    unfold thread_at in Hat. rewrite Hat. cbn [final_acc]. rewrite (prog_at_upd _ _ _ _ _ _ Hat). cbn [th_prog final_acc].
    split; auto. right. right. left. repeat split; auto.
  - left. rewrite (pending_at _ _ _ _ _ Hat), (unlin_at _ _ _ _ _ Hat).
    rewrite (pending_upd _ _ _ _ _ _ Hat), (unlin_upd _ _ _ _ _ _ Hat).
    unfold thread_at in Hat. rewrite Hat. cbn [final_acc]. rewrite (prog_at_upd _ _ _ _ _ _ Hat). cbn [th_prog final_acc].
    split; auto. right. right. left. repeat split; auto.
  - right. exists c, rest, PAtLock, (snd (step (cs_server st) c)), true.
    rewrite (pending_at _ _ _ _ _ Hat), (unlin_at _ _ _ _ _ Hat).
    rewrite (unlin_fin _ _ _ _ _ _ Hat), (pending_fin _ _ _ _ _ _ Hat).
    unfold thread_at in Hat. rewrite Hat. repeat split; auto.
  - left. rewrite (pending_at _ _ _ _ _ Hat), (unlin_at _ _ _ _ _ Hat). unfold set_prog.
    rewrite (pending_upd _ _ _ _ _ _ Hat), (unlin_upd _ _ _ _ _ _ Hat).
    unfold thread_at in Hat. rewrite Hat. cbn [final_acc]. rewrite (prog_at_upd _ _ _ _ _ _ Hat). cbn [th_prog final_acc].
    split; auto. right. right. left. repeat split; auto.
  - right. exists c, rest, (PMid 0), (snd (step (cs_server st) c)), true.
    rewrite (pending_at _ _ _ _ _ Hat), (unlin_at _ _ _ _ _ Hat).
    rewrite (unlin_fin _ _ _ _ _ _ Hat), (pending_fin _ _ _ _ _ _ Hat).
    unfold thread_at in Hat. rewrite Hat. repeat split; auto.
  - (* scan park *)
    destruct (scan_resume_some _ _ _ _ Hs) as [Hrd Hp]. pose proof (scan_resume_final_acc _ _ _ _ Hs) as Hfa.
    rewrite (pending_at _ _ _ _ _ Hat), (unlin_at _ _ _ _ _ Hat). unfold set_prog.
    rewrite (pending_upd _ _ _ _ _ _ Hat), (unlin_upd _ _ _ _ _ _ Hat). cbn [th_prog th_todo cs_server].
    pose proof Hat as Hat'. unfold thread_at in Hat'. rewrite Hat', Hfa. rewrite (prog_at_upd _ _ _ _ _ _ Hat). cbn [th_prog].
    unfold pending_of. rewrite Hfa. destruct (final_acc p') as [acc|] eqn:Hfa'.
    + right. exists c, rest, p, (ok (YRows (rev acc))), (negb (is_scan_prog p)). repeat split; auto.
      * rewrite step_read_server; auto.
      * intros Hex. destruct Hp as [->|[? [? [? [? [? [? ->]]]]]]]; [|discriminate].
        pose proof (forall_nth_error _ _ _ _ Hw Hat) as W. cbn in W. destruct W as [c0 [r0 [E W]]]. injection E as <- <-.
        assert (Hv : valid_read (cl_req c)) by (destruct W as [W|W]; auto; destruct (cl_req c); discriminate).
        pose proof (scan_first_section_exact (cs_server st) c Hv) as Q. rewrite Hs in Q. auto.
    + left. split; auto. right. right. left. repeat split; auto.
  - (* scan done *)
    destruct (scan_resume_some _ _ _ _ Hs) as [Hrd Hp]. pose proof (scan_resume_final_acc _ _ _ _ Hs) as Hfa.
    right. exists c, rest, p, rsp, (negb (is_scan_prog p)).
    rewrite (pending_at _ _ _ _ _ Hat), (unlin_at _ _ _ _ _ Hat). unfold pending_of. rewrite Hfa.
    rewrite (unlin_fin _ _ _ _ _ _ Hat), (pending_fin _ _ _ _ _ _ Hat).
    pose proof Hat as Hat'. unfold thread_at in Hat'. rewrite Hat', Hfa. cbn [fin cs_server]. repeat split; auto.
    + rewrite step_read_server; auto.
    + intros Hex. destruct Hp as [->|[? [? [? [? [? [? ->]]]]]]]; [|discriminate].
      pose proof (forall_nth_error _ _ _ _ Hw Hat) as W. cbn in W. destruct W as [c0 [r0 [E W]]]. injection E as <- <-.
      assert (Hv : valid_read (cl_req c)) by (destruct W as [W|W]; auto; destruct (cl_req c); discriminate).
      pose proof (scan_first_section_exact (cs_server st) c Hv) as Q. rewrite Hs in Q. auto.
  - (* scan final *)
    left. rewrite (pending_at _ _ _ _ _ Hat), (unlin_at _ _ _ _ _ Hat).
    rewrite (unlin_fin _ _ _ _ _ _ Hat), (pending_fin _ _ _ _ _ _ Hat).
    unfold thread_at in Hat. rewrite Hat. cbn [final_acc]. split; auto. right. right. right.
    exists (ok (YRows (rev acc))). repeat split; auto.
Qed.

Definition lin_of (j : nat) (L : list event) : list event := filter (fun e => Nat.eqb (ev_tid e) j) L.

Fixpoint done_of (j : nat) (sched : list nat) (outs : list outcome) : list bresp :=
  match sched, outs with
  | i :: s', o :: os' => (if Nat.eqb i j then done_resp o else []) ++ done_of j s' os'
  | _, _ => []
  end.

Lemma lin_of_app j l1 l2 : lin_of j (l1 ++ l2) = lin_of j l1 ++ lin_of j l2.
Proof. apply filter_app. Qed.

Lemma pending_frame st st' j : nth_error (cs_threads st') j = nth_error (cs_threads st) j -> pending st' j = pending st j.
Proof. intros H. unfold pending, prog_at. rewrite H. reflexivity. Qed.
Lemma unlin_frame st st' j : nth_error (cs_threads st') j = nth_error (cs_threads st) j -> unlin st' j = unlin st j.
Proof. intros H. unfold unlin, todo_at. rewrite (pending_frame _ _ _ H), H. reflexivity. Qed.

Lemma step_event_tid st i e : step_event st i = Some e -> ev_tid e = i.
Proof.
  unfold step_event. destruct (nth_error (cs_threads st) i) as [[[|c rest] p]|]; try discriminate.
  destruct (final_acc p); [discriminate|]. destruct (snd (cstep st i)); try discriminate.
  - destruct (final_acc _); [|discriminate]. intros H. injection H as <-. reflexivity.
  - intros H. injection H as <-. reflexivity.
Qed.

Lemma run_cons s c cs : run s (c :: cs) = (fst (run (fst (step s c)) cs), snd (step s c) :: snd (run (fst (step s c)) cs)).
Proof. cbn [run]. destruct (step s c) as [s1 r]. cbn [fst snd]. destruct (run s1 cs). reflexivity. Qed.

(* (a) the server and the responses are those of the serial run of the log *)
Theorem lin_log_serial : forall sched st, conc_inv st -> no_gc st ->
  let L := lin_log st sched in
  fst (run (cs_server st) (map ev_call L)) = cs_server (fst (crun st sched))
  /\ Forall2 (fun e r => ev_exact e = true -> ev_resp e = r) L (snd (run (cs_server st) (map ev_call L))).
Proof.
  induction sched as [|i sched IH]; intros st Hinv Hng; [split; [reflexivity|constructor]|].
  cbn zeta. cbn [lin_log]. rewrite crun_cons. cbn [fst].
  specialize (IH (fst (cstep st i)) (cstep_inv _ _ Hinv) (cstep_no_gc _ _ Hng)). cbn zeta in IH. destruct IH as [IH1 IH2].
  destruct (step_event_spec st i Hinv Hng) as [[He Hc]|[c [rest [p [r [ex [Hat [He [P1 [U1 [U2 [Hsrv [Hex _]]]]]]]]]]]]].
  - rewrite He. cbn [opt_list app].
    assert (Hs : cs_server (fst (cstep st i)) = cs_server st).
    { destruct Hc as [Hc|[Hc|[[_ [_ [_ [_ Hc]]]]|[r [_ [_ [_ [_ Hc]]]]]]]]; auto.
      - rewrite (idle_spec _ _ Hc) at 1. reflexivity.
      - destruct (blocked_spec _ _ Hc) as [Hc' _]. rewrite Hc' at 1. reflexivity. }
    rewrite Hs in IH1, IH2. auto.
  - rewrite He. cbn [opt_list app map ev_call]. rewrite run_cons. cbn [fst snd]. rewrite <- Hsrv. split; auto.
Qed.

(* the answers a thread has received are, in order, the answers recorded in its log entries;
   the requests it has linearised followed by those it has not are its program *)
Theorem lin_log_threads : forall sched st j, conc_inv st -> no_gc st ->
  let L := lin_log st sched in
  pending st j ++ map ev_resp (lin_of j L) = done_of j sched (snd (crun st sched)) ++ pending (fst (crun st sched)) j
  /\ map ev_tag (lin_of j L) ++ tag (unlin (fst (crun st sched)) j) = tag (unlin st j).
Proof.
  induction sched as [|i sched IH]; intros st j Hinv Hng.
  - cbn. rewrite app_nil_r. auto.
  - cbn zeta. cbn [lin_log]. rewrite crun_cons. cbn [fst snd done_of]. rewrite lin_of_app, !map_app.
    specialize (IH (fst (cstep st i)) j (cstep_inv _ _ Hinv) (cstep_no_gc _ _ Hng)). cbn zeta in IH. destruct IH as [IH1 IH2].
    destruct (Nat.eqb i j) eqn:Eij.
    + apply Nat.eqb_eq in Eij. subst j.
      destruct (step_event_spec st i Hinv Hng) as [[He Hc]|[c [rest [p [r [ex [Hat [He [P1 [U1 [U2 [Hsrv [Hex Hd]]]]]]]]]]]]].
      * rewrite He. cbn [opt_list lin_of filter map app].
        destruct Hc as [Hc|[Hc|[[Ho [Q1 [Q2 [Q3 _]]]]|[r [Ho [Q1 [Q2 [Q3 _]]]]]]]].
        -- rewrite Hc. rewrite (idle_spec _ _ Hc) in *. auto.
        -- rewrite Hc. destruct (blocked_spec _ _ Hc) as [Hc' _]. rewrite Hc' in *. auto.
        -- rewrite Ho. cbn [done_resp app]. rewrite Q2 in *. rewrite Q1 in IH1. rewrite Q3 in IH2. auto.
        -- rewrite Ho. cbn [done_resp app]. rewrite Q1. rewrite Q2 in IH1. rewrite Q3 in IH2. cbn [app] in *.
           rewrite IH1. auto.
      * rewrite He. cbn [opt_list lin_of filter ev_tid]. rewrite Nat.eqb_refl. cbn [map app ev_resp ev_tag ev_call ev_rem].
        rewrite P1, U1. rewrite U2 in IH2. cbn [app tag]. rewrite IH2. split; auto.
        destruct Hd as [[Ho Q]|[Ho Q]]; rewrite Ho; rewrite Q in IH1; cbn [done_resp app] in *.
        -- rewrite IH1. reflexivity.
        -- exact IH1.
    + apply Nat.eqb_neq in Eij.
      assert (Hl : lin_of j (opt_list (step_event st i)) = []).
      { destruct (step_event st i) as [e|] eqn:He; [|reflexivity]. cbn. rewrite (step_event_tid _ _ _ He).
        apply Nat.eqb_neq in Eij. rewrite Eij. reflexivity. }
      rewrite Hl. cbn [map app].
      assert (Hfr : nth_error (cs_threads (fst (cstep st i))) j = nth_error (cs_threads st) j) by (apply cstep_frame; auto).
      rewrite (pending_frame _ _ _ Hfr) in IH1. rewrite (unlin_frame _ _ _ Hfr) in IH2. auto.
Qed.

(* ------------------------------------------------------------------ *)
(* Part 2d: C06 — serialisability from the initial state              *)
(* ------------------------------------------------------------------ *)
Lemma init_pending s0 progs j : pending (init_cstate s0 progs) j = [].
Proof.
  unfold pending, prog_at, init_cstate. cbn [cs_threads]. rewrite nth_error_map.
  destruct (nth_error progs j); reflexivity.
Qed.

Lemma init_todo s0 progs j : todo_at (init_cstate s0 progs) j = nth j progs [].
Proof.
  unfold todo_at, init_cstate. cbn [cs_threads]. rewrite nth_error_map.
  destruct (nth_error progs j) as [cs|] eqn:E; cbn.
  - symmetry. apply nth_error_nth. exact E.
  - symmetry. apply nth_overflow. apply nth_error_None. exact E.
Qed.

Lemma init_unlin s0 progs j : unlin (init_cstate s0 progs) j = nth j progs [].
Proof. unfold unlin. rewrite init_pending, init_todo. reflexivity. Qed.

(* C06 (a): EVERY schedule of programs without GC requests is explained by the serial execution
   of its linearisation log: same final server, same responses (for every request but a read
   that handed over in the middle), and per thread the log lists the thread's requests in
   program order with the answers the thread actually received. *)
Theorem conc_serializable : forall s0 progs sched, no_gc_progs progs ->
  let st0 := init_cstate s0 progs in
  let L := lin_log st0 sched in
  fst (run s0 (map ev_call L)) = cs_server (fst (crun st0 sched))
  /\ Forall2 (fun e r => ev_exact e = true -> ev_resp e = r) L (snd (run s0 (map ev_call L)))
  /\ forall j,
       map ev_resp (lin_of j L) = done_of j sched (snd (crun st0 sched)) ++ pending (fst (crun st0 sched)) j
       /\ map ev_tag (lin_of j L) ++ tag (unlin (fst (crun st0 sched)) j) = tag (nth j progs []).
Proof.
  intros s0 progs sched Hng. cbn zeta.
  pose proof (lin_log_serial sched (init_cstate s0 progs) (init_inv s0 progs) (init_no_gc s0 progs Hng)) as [H1 H2].
  split; [exact H1|]. split; [exact H2|]. intros j.
  pose proof (lin_log_threads sched (init_cstate s0 progs) j (init_inv s0 progs) (init_no_gc s0 progs Hng)) as [H3 H4].
  rewrite init_pending in H3. rewrite init_unlin in H4. auto.
Qed.

(* ---- the log in the order of the ODone steps (writers, admin requests) ---- *)
Definition done_event (st : cstate) (i : nat) : option event :=
  match nth_error (cs_threads st) i, snd (cstep st i) with
  | Some (mkThread (c :: rest) _), ODone r => Some (mkEv i c (length rest) r true)
  | _, _ => None
  end.

Fixpoint done_log (st : cstate) (sched : list nat) : list event :=
  match sched with
  | [] => []
  | i :: rest => opt_list (done_event st i) ++ done_log (fst (cstep st i)) rest
  end.

Definition no_read : cstate -> Prop := no_req is_read.

Lemma no_read_no_scan st i : conc_inv st -> no_read st -> is_scan_prog (prog_at st i) = false.
Proof.
  intros [_ Hw] Hn. unfold prog_at. destruct (nth_error (cs_threads st) i) as [th|] eqn:E; [|reflexivity].
  pose proof (forall_nth_error _ _ _ _ Hw E) as W. pose proof (forall_nth_error _ _ _ _ Hn E) as N. cbn in N.
  unfold thread_wf in W. destruct (th_prog th); try reflexivity.
  destruct W as [c [rest [Et Hv]]]. rewrite Et in N. inversion N as [|? ? N1 N2]; subst.
  destruct (cl_req c); try destruct Hv. discriminate.
Qed.

Lemma step_event_done st i : conc_inv st -> no_read st -> step_event st i = done_event st i.
Proof.
  intros Hinv Hn. pose proof (no_read_no_scan st i Hinv Hn) as H1.
  pose proof (no_read_no_scan _ i (cstep_inv st i Hinv) (cstep_no_req _ st i Hn)) as H2.
  unfold step_event, done_event. unfold prog_at in H1. destruct (nth_error (cs_threads st) i) as [[[|c rest] p]|]; try reflexivity.
  cbn [th_prog] in H1. assert (Hfa : final_acc p = None) by (destruct p; try reflexivity; discriminate).
  rewrite Hfa, H1. destruct (snd (cstep st i)); try reflexivity.
  destruct (final_acc (prog_at (fst (cstep st i)) i)) eqn:Hf; [|reflexivity].
  apply final_acc_scan in Hf. congruence.
Qed.

Lemma lin_log_done sched : forall st, conc_inv st -> no_read st -> lin_log st sched = done_log st sched.
Proof.
  induction sched as [|i sched IH]; intros st Hinv Hn; [reflexivity|]. cbn [lin_log done_log].
  rewrite step_event_done, IH; auto using cstep_inv. apply cstep_no_req. exact Hn.
Qed.

Lemma done_log_exact sched : forall st, Forall (fun e => ev_exact e = true) (done_log st sched).
Proof.
  induction sched as [|i sched IH]; intros st; [constructor|]. cbn [done_log]. apply Forall_app. split; [|apply IH].
  unfold done_event. destruct (nth_error (cs_threads st) i) as [[[|c rest] p]|]; try constructor.
  destruct (snd (cstep st i)); constructor; auto.
Qed.

Lemma forall2_exact_eq (L : list event) : forall rs, Forall (fun e => ev_exact e = true) L ->
  Forall2 (fun e r => ev_exact e = true -> ev_resp e = r) L rs -> map ev_resp L = rs.
Proof.
  induction L as [|e L IH]; intros rs Hx H2; inversion H2; subst; [reflexivity|].
  inversion Hx; subst. cbn. f_equal; auto.
Qed.

(* C06 (a), in the order in which the requests ANSWERED: for programs made of writes and admin
   requests (no ReadRows, no GC), let log = the calls in the order of their ODone steps; then
   the final server and all the responses are exactly those of [run s0 log] *)
Theorem conc_serializable_writes : forall s0 progs sched,
  no_gc_progs progs -> no_req_progs is_read progs ->
  let st0 := init_cstate s0 progs in
  let D := done_log st0 sched in
  run s0 (map ev_call D) = (cs_server (fst (crun st0 sched)), map ev_resp D).
Proof.
  intros s0 progs sched Hng Hnr. cbn zeta.
  pose proof (conc_serializable s0 progs sched Hng) as [H1 [H2 _]]. cbn zeta in H1, H2.
  rewrite (lin_log_done sched _ (init_inv s0 progs) (init_no_req _ s0 progs Hnr)) in H1, H2.
  apply forall2_exact_eq in H2; [|apply done_log_exact].
  rewrite (surjective_pairing (run s0 _)). rewrite H1, H2. reflexivity.
Qed.

(* ---- writers commit in the order in which they took the lock ---- *)
Definition acq_event (st : cstate) (i : nat) : list nat :=
  match prog_at st i, prog_at (fst (cstep st i)) i with
  | PAtLock, PMid _ => [i]
  | _, _ => []
  end.
Definition mid_done (st : cstate) (i : nat) : list nat :=
  match prog_at st i, snd (cstep st i) with
  | PMid _, ODone _ => [i]
  | _, _ => []
  end.
Fixpoint acq_log (st : cstate) (sched : list nat) : list nat :=
  match sched with [] => [] | i :: rest => acq_event st i ++ acq_log (fst (cstep st i)) rest end.
Fixpoint commit_log (st : cstate) (sched : list nat) : list nat :=
  match sched with [] => [] | i :: rest => mid_done st i ++ commit_log (fst (cstep st i)) rest end.

Lemma prog_at_thread st i c rest p : thread_at st i c rest p -> prog_at st i = p.
Proof. intros H. unfold prog_at. rewrite H. reflexivity. Qed.

Lemma lock_step st i : conc_inv st ->
  opt_list (cs_holder st) ++ acq_event st i = mid_done st i ++ opt_list (cs_holder (fst (cstep st i))).
Proof.
  intros Hinv. pose proof Hinv as [Hh Hw]. unfold acq_event, mid_done.
  pose proof (cstep_spec_holds st i) as S.
  remember (fst (cstep st i)) as st' eqn:E1. remember (snd (cstep st i)) as o eqn:E2.
  assert (Hnone : forall c rest p, thread_at st i c rest p -> is_mid p = false -> lock_free_for st i -> cs_holder st = None).
  { intros c rest p Hat Hp Hf. destruct (cs_holder st) as [j|] eqn:Ej; auto. pose proof (Hf j Ej). subst j.
    rewrite <- Ej in Hh. apply Hh in Ej. destruct Ej as [th [E M]]. unfold thread_at in Hat. rewrite Hat in E. injection E as <-. cbn in M. congruence. }
  destruct S as [ | c rest p j Hat Hj Hne Hn
                | c rest p Hat Hp Hl
                | c rest tbl t Hat Hrt Ht Hk
                | c rest k Hat Hf Hw1 Hm
                | c rest Hat Hf Hw1 Hm
                | c rest k Hat
                | c rest Hat
                | c rest p p' Hat Hf Hs
                | c rest p rsp Hat Hf Hs
                | c rest rows rngs count coins pending0 acc Hat Hf
                | c rest p tbl t keys now Hat Hf Hrt Ht Hg Hb
                | c rest p tbl t keys now Hat Hf Hrt Ht Hg Hb
                | c rest tbl t Hat Hf Hr Ht Hru
                | c rest keys now tbl Hat Hf Hrt Ht ];
    try rewrite (prog_at_thread _ _ _ _ _ Hat); unfold fin, set_prog;
    try rewrite (prog_at_upd _ _ _ _ _ _ Hat); cbn [th_prog cs_holder].
  - destruct (prog_at st i); cbn; rewrite ?app_nil_r; reflexivity.
  - destruct p; cbn; rewrite ?app_nil_r; reflexivity.
  - destruct Hp as [[-> _]|[[-> _]|[-> _]]]; cbn; rewrite ?app_nil_r; reflexivity.
  - cbn; rewrite ?app_nil_r; reflexivity.
  - rewrite (Hnone _ _ _ Hat eq_refl Hf). reflexivity.
  - rewrite (Hnone _ _ _ Hat eq_refl Hf). reflexivity.
  - cbn; rewrite ?app_nil_r; reflexivity.
  - assert (Hi : cs_holder st = Some i) by (apply Hh; eexists; split; [exact Hat|reflexivity]). rewrite Hi. reflexivity.
  - pose proof (scan_resume_inl _ _ _ _ Hs) as Hp'.
    destruct (scan_resume_some _ _ _ _ Hs) as [_ [->|[? [? [? [? [? [? ->]]]]]]]]; destruct p'; try discriminate Hp'; cbn; rewrite ?app_nil_r; reflexivity.
  - destruct (scan_resume_some _ _ _ _ Hs) as [_ [->|[? [? [? [? [? [? ->]]]]]]]]; cbn; rewrite ?app_nil_r; reflexivity.
  - cbn; rewrite ?app_nil_r; reflexivity.
  - destruct p; try discriminate Hg; cbn; rewrite ?app_nil_r; reflexivity.
  - destruct p; try discriminate Hg; cbn; rewrite ?app_nil_r; reflexivity.
  - cbn; rewrite ?app_nil_r; reflexivity.
  - cbn; rewrite ?app_nil_r; reflexivity.
Qed.

(* the writers that went through the write section leave it (= answer = are logged) in exactly
   the order in which they entered it; the one still inside is the holder *)
Theorem commit_order_is_lock_order : forall sched st, conc_inv st ->
  opt_list (cs_holder st) ++ acq_log st sched = commit_log st sched ++ opt_list (cs_holder (fst (crun st sched))).
Proof.
  induction sched as [|i sched IH]; intros st Hinv.
  - cbn. rewrite app_nil_r. reflexivity.
  - cbn [acq_log commit_log]. rewrite crun_cons. cbn [fst]. rewrite app_assoc, (lock_step st i Hinv), <- !app_assoc.
    rewrite (IH _ (cstep_inv st i Hinv)). reflexivity.
Qed.

Corollary commit_order_is_lock_order_init : forall s0 progs sched,
  acq_log (init_cstate s0 progs) sched
  = commit_log (init_cstate s0 progs) sched ++ opt_list (cs_holder (fst (crun (init_cstate s0 progs) sched))).
Proof. intros. exact (commit_order_is_lock_order sched _ (init_inv s0 progs)). Qed.

(* ------------------------------------------------------------------ *)
(* Part 2e: C06 (b) — real-time order                                  *)
(* ------------------------------------------------------------------ *)
Lemma todo_at_thread st i c rest p : thread_at st i c rest p -> todo_at st i = c :: rest.
Proof. intros H. unfold todo_at. rewrite H. reflexivity. Qed.

(* a step only ever drops the head of the stepping thread's program *)
Lemma cstep_spec_todo st i st' o : cstep_spec st i st' o ->
  exists pre, todo_at st i = pre ++ todo_at st' i.
Proof.
  intros H. destruct H; try (exists []; reflexivity); unfold set_prog;
    try (exists []; rewrite (todo_at_upd _ _ _ _ _ _ H); cbn [th_todo app]; apply (todo_at_thread _ _ _ _ _ H));
    try (exists [c]; rewrite (todo_at_fin _ _ _ _ _ _ H); apply (todo_at_thread _ _ _ _ _ H)).
Qed.

Lemma todo_frame st st' j : nth_error (cs_threads st') j = nth_error (cs_threads st) j -> todo_at st' j = todo_at st j.
Proof. intros H. unfold todo_at. rewrite H. reflexivity. Qed.

Lemma crun_todo sched : forall st j, exists pre, todo_at st j = pre ++ todo_at (fst (crun st sched)) j.
Proof.
  induction sched as [|i sched IH]; intros st j; [exists []; reflexivity|].
  rewrite crun_cons. cbn [fst]. destruct (IH (fst (cstep st i)) j) as [pre2 H2].
  destruct (Nat.eq_dec j i) as [->|Hne].
  - destruct (cstep_spec_todo st i _ _ (cstep_spec_holds st i)) as [pre1 H1].
    exists (pre1 ++ pre2). rewrite H1, H2 at 1. rewrite app_assoc. reflexivity.
  - exists pre2. rewrite <- H2. symmetry. apply todo_frame, cstep_frame. exact Hne.
Qed.

Lemma tag_length l : length (tag l) = length l.
Proof. induction l as [|c l IH]; cbn; auto. Qed.

Lemma tag_app l1 l2 : tag (l1 ++ l2) = map (fun p => (fst p, (snd p + length l2)%nat)) (tag l1) ++ tag l2.
Proof.
  induction l1 as [|c l1 IH]; [reflexivity|]. cbn [app tag map fst snd]. rewrite IH, app_length. reflexivity.
Qed.

(* entries in front of a tagged suffix carry larger indices *)
Lemma tag_prefix_ge l : forall X m, tag l = X ++ tag m -> forall x, In x X -> (length m <= snd x)%nat.
Proof.
  induction l as [|c l IH]; intros X m H x Hx.
  - destruct X; [destruct Hx|discriminate].
  - destruct X as [|x0 X]; [destruct Hx|]. cbn [tag app] in H. injection H as H0 H.
    assert (Hlen : (length m <= length l)%nat).
    { pose proof (f_equal (@length _) H) as E. rewrite app_length, !tag_length in E. lia. }
    destruct Hx as [<-|Hx]; [subst x0; exact Hlen|]. eapply IH; eauto.
Qed.

Lemma done_of_app j s1 : forall o1 s2 o2, length s1 = length o1 ->
  done_of j (s1 ++ s2) (o1 ++ o2) = done_of j s1 o1 ++ done_of j s2 o2.
Proof.
  induction s1 as [|i s1 IH]; intros [|o o1] s2 o2 Hl; try discriminate; [reflexivity|].
  cbn [app done_of]. rewrite IH by (cbn in Hl; lia). rewrite app_assoc. reflexivity.
Qed.

Lemma crun_length sched : forall st, length (snd (crun st sched)) = length sched.
Proof. induction sched as [|i sched IH]; intros st; [reflexivity|]. rewrite crun_cons. cbn. rewrite IH. reflexivity. Qed.

Lemma last_two_maps {A B C} (f : A -> B) (g : A -> C) (l : list A) b x c y :
  map f l = b ++ [x] -> map g l = c ++ [y] -> exists e, In e l /\ f e = x /\ g e = y.
Proof.
  intros Hf Hg. destruct l as [|a l] using rev_ind; [destruct b; discriminate|].
  rewrite map_app in Hf, Hg. cbn in Hf, Hg. apply app_inj_tail in Hf. apply app_inj_tail in Hg.
  exists a. split; [apply in_or_app; right; left; reflexivity|]. split; [apply Hf|apply Hg].
Qed.

(* C06 (b): if request A answers (ODone) before request B is started (B still at PNew), then A's
   log entry precedes B's: the log splits as La ++ Lb with A's entry in La and no entry of B
   (nor of any later request of B's thread) in La.  Entries are named by (thread, ev_rem). *)
Theorem conc_realtime : forall s0 progs sa i sb j cA restA pA cB restB r,
  no_gc_progs progs ->
  let st0 := init_cstate s0 progs in
  let st1 := fst (crun st0 sa) in
  thread_at st1 i cA restA pA -> snd (cstep st1 i) = ODone r ->
  let st2 := fst (crun st0 (sa ++ i :: sb)) in
  thread_at st2 j cB restB PNew ->
  forall sc,
  exists La Lb ea,
    lin_log st0 ((sa ++ i :: sb) ++ sc) = La ++ Lb
    /\ In ea La /\ ev_tid ea = i /\ ev_tag ea = (cA, length restA) /\ ev_resp ea = r
    /\ forall eb, In eb La -> ev_tid eb = j -> (length restB < ev_rem eb)%nat.
Proof.
  intros s0 progs sa i sb j cA restA pA cB restB r Hng st0 st1 HatA Hdone st2 HatB sc.
  exists (lin_log st0 (sa ++ i :: sb)), (lin_log st2 sc).
  assert (Hinv0 : conc_inv st0) by apply init_inv. assert (Hng0 : no_gc st0) by (apply init_no_gc; exact Hng).
  (* A's entry: the last entry of thread i in the log through A's ODone step *)
  assert (HA : exists ea, In ea (lin_log st0 (sa ++ [i])) /\ ev_tid ea = i /\ ev_tag ea = (cA, length restA) /\ ev_resp ea = r).
  { pose proof (lin_log_threads (sa ++ [i]) st0 i Hinv0 Hng0) as [T2 T3]. cbn zeta in T2, T3.
    unfold st0 in T2, T3. rewrite init_pending in T2. rewrite init_unlin in T3. fold st0 in T2, T3.
    rewrite crun_app in T2, T3. cbn [fst snd] in T2, T3. fold st1 in T2, T3.
    rewrite crun_cons in T2, T3. cbn [crun fst snd] in T2, T3.
    rewrite done_of_app in T2 by (rewrite crun_length; reflexivity). cbn [done_of] in T2. rewrite Nat.eqb_refl, Hdone in T2.
    cbn [done_resp app] in T2.
    assert (Hafter : pending (fst (cstep st1 i)) i = [] /\ unlin (fst (cstep st1 i)) i = restA).
    { pose proof (crun_inv sa st0 Hinv0) as Hinv1. pose proof (crun_no_gc sa st0 Hng0) as Hng1. fold st1 in Hinv1, Hng1.
      destruct (step_event_spec st1 i Hinv1 Hng1) as [[He Hc]|[c [rest [p [r' [ex [Hat [He [P1 [U1 [U2 [Hsrv [Hex Hd]]]]]]]]]]]]].
      - destruct Hc as [Hc|[Hc|[[Hc _]|[r' [_ [Q1 [Q2 [Q3 _]]]]]]]]; try congruence.
        split; auto. rewrite Q3, (unlin_at _ _ _ _ _ HatA). rewrite (pending_at _ _ _ _ _ HatA) in Q1. rewrite Q1. reflexivity.
      - unfold thread_at in Hat, HatA. rewrite HatA in Hat. injection Hat as <- <- <-.
        destruct Hd as [[_ Q]|[Q _]]; [auto|congruence]. }
    destruct Hafter as [Q1 Q2]. rewrite Q1 in T2. rewrite Q2 in T3. rewrite !app_nil_r in T2.
    destruct (crun_todo sa st0 i) as [pre Hpre]. fold st1 in Hpre. unfold st0 in Hpre. rewrite init_todo in Hpre.
    rewrite (todo_at_thread _ _ _ _ _ HatA) in Hpre. rewrite Hpre in T3.
    replace (pre ++ cA :: restA) with ((pre ++ [cA]) ++ restA) in T3 by (rewrite <- app_assoc; reflexivity).
    rewrite tag_app in T3. apply app_inv_tail in T3. rewrite tag_app, map_app in T3. cbn [tag map fst snd length] in T3.
    destruct (last_two_maps _ _ _ _ _ _ _ T2 T3) as [ea [Hin [E1 E2]]]. exists ea.
    unfold lin_of in Hin. apply filter_In in Hin. destruct Hin as [Hin Ht]. apply Nat.eqb_eq in Ht.
    repeat split; auto. }
  destruct HA as [ea [Hin [Ht [Hg Hr]]]]. exists ea.
  split; [apply lin_log_app|]. split.
  { replace (sa ++ i :: sb) with ((sa ++ [i]) ++ sb) by (rewrite <- app_assoc; reflexivity).
    rewrite lin_log_app. apply in_or_app. left. exact Hin. }
  split; [exact Ht|]. split; [exact Hg|]. split; [exact Hr|].
  (* B's thread: everything logged so far stands in front of B in the program *)
  intros eb Hinb Htb.
  pose proof (lin_log_threads (sa ++ i :: sb) st0 j Hinv0 Hng0) as [_ T3]. cbn zeta in T3. fold st2 in T3.
  rewrite (unlin_at _ _ _ _ _ HatB) in T3. cbn [pending_of final_acc length skipn] in T3.
  unfold st0 in T3. rewrite init_unlin in T3. fold st0 in T3. symmetry in T3.
  pose proof (tag_prefix_ge _ _ _ T3 (ev_tag eb)) as G. cbn [length] in G.
  assert (Hx : In (ev_tag eb) (map ev_tag (lin_of j (lin_log st0 (sa ++ i :: sb))))).
  { apply in_map. unfold lin_of. apply filter_In. split; auto. apply Nat.eqb_eq. exact Htb. }
  specialize (G Hx). cbn in G. lia.
Qed.

(* ------------------------------------------------------------------ *)
(* Part 2f: C06 (e) failure atomicity, (f) no torn reads               *)
(* ------------------------------------------------------------------ *)
(* (e) sequential: EVERY request that is answered with an error leaves the whole server — all
   tables, all rows — exactly as it was (MutateRow, CheckAndMutateRow, ReadModifyWriteRow, and all
   the others; MutateRows as a whole, its entries below) *)
Theorem failure_atomic : forall s c, br_code (snd (step s c)) <> cOK -> fst (step s c) = s.
Proof.
  intros s [r now coins]. destruct r; unfold step; cbn [cl_req cl_now cl_coins];
    repeat match goal with
           | |- context [match ?x with _ => _ end] => destruct x eqn:?
           end; cbn [fst snd ok fail br_code]; intros H; try reflexivity; exfalso; apply H; reflexivity.
Qed.

Corollary failure_atomic_row : forall s c tbl key, br_code (snd (step s c)) <> cOK ->
  option_map (fun t => get_row t key) (alookup tbl (fst (step s c)))
  = option_map (fun t => get_row t key) (alookup tbl s).
Proof. intros s c tbl key H. rewrite (failure_atomic s c H). reflexivity. Qed.

From Emu.BT Require Import CellSpec CellProofs MutateProofs RmwProofs.

(* MutateRows is the fold of [mrows_step] over its entries ... *)
Theorem step_mutate_rows : forall s tbl entries now coins,
  step s (mkCall (BMutateRows tbl entries) now coins) =
  match alookup tbl s with
  | None => (s, fail cNotFound)
  | Some t => (set_table s tbl (fst (fold_left (mrows_step now) entries (t, []))),
               ok (YEntries (snd (fold_left (mrows_step now) entries (t, [])))))
  end.
Proof.
  intros. unfold step. cbn [cl_req cl_now cl_coins]. destruct (alookup tbl s) as [t|]; [|reflexivity].
  unfold mrows_step. destruct (fold_left _ entries (t, [])) as [t' codes]. reflexivity.
Qed.

(* ... and an entry whose status is not OK leaves the table exactly as the previous entries left it *)
Theorem mutate_rows_entry_atomic : forall now ta cs e,
  exists code, snd (mrows_step now (ta, cs) e) = cs ++ [code]
               /\ (code <> cOK -> fst (mrows_step now (ta, cs) e) = ta).
Proof.
  intros now ta cs e. unfold mrows_step.
  destruct (apply_mutations (t_fams ta) now (get_row ta (fst e)) (snd e)).
  - exists cOK. split; [reflexivity|]. intros H. exfalso. apply H. reflexivity.
  - exists cInternal. split; reflexivity.
Qed.

Lemma run_app s cs1 : forall cs2,
  run s (cs1 ++ cs2) = (fst (run (fst (run s cs1)) cs2), snd (run s cs1) ++ snd (run (fst (run s cs1)) cs2)).
Proof.
  revert s. induction cs1 as [|c cs1 IH]; intros s cs2.
  - cbn. destruct (run s cs2); reflexivity.
  - rewrite <- app_comm_cons, !run_cons, IH. reflexivity.
Qed.

Lemma run_nth cs : forall s k c, nth_error cs k = Some c ->
  nth_error (snd (run s cs)) k = Some (snd (step (fst (run s (firstn k cs))) c)).
Proof.
  induction cs as [|c0 cs IH]; intros s [|k] c H; cbn in H; try discriminate.
  - injection H as ->. rewrite run_cons. reflexivity.
  - rewrite run_cons. cbn [snd nth_error firstn]. rewrite run_cons. cbn [fst]. apply IH. exact H.
Qed.

Lemma forall2_nth {A B} (R : A -> B -> Prop) l1 : forall l2 k a, Forall2 R l1 l2 -> nth_error l1 k = Some a ->
  exists b, nth_error l2 k = Some b /\ R a b.
Proof.
  induction l1 as [|x l1 IH]; intros l2 [|k] a H Hn; cbn in Hn; try discriminate; inversion H; subst.
  - injection Hn as ->. eexists. split; [reflexivity|auto].
  - cbn. eauto.
Qed.

(* (f) no torn read: the answer of every log entry (reads that ran in one section, writes, ...)
   is the answer of the sequential [step] in the state left by the serial run of the log entries
   before it — a committed prefix *)
Theorem no_torn_read : forall s0 progs sched, no_gc_progs progs ->
  let L := lin_log (init_cstate s0 progs) sched in
  forall k e, nth_error L k = Some e -> ev_exact e = true ->
    ev_resp e = snd (step (fst (run s0 (map ev_call (firstn k L)))) (ev_call e)).
Proof.
  intros s0 progs sched Hng L k e Hk Hex.
  pose proof (conc_serializable s0 progs sched Hng) as [_ [H2 _]]. cbn zeta in H2. fold L in H2.
  destruct (forall2_nth _ _ _ _ _ H2 Hk) as [r [Hr HR]]. rewrite (HR Hex).
  assert (Hc : nth_error (map ev_call L) k = Some (ev_call e)) by (rewrite nth_error_map, Hk; reflexivity).
  rewrite (run_nth _ s0 k _ Hc) in Hr. injection Hr as <-. rewrite firstn_map. reflexivity.
Qed.

(* ------------------------------------------------------------------ *)
(* Part 2g: C06 (d) — two conditional writes                           *)
(* ------------------------------------------------------------------ *)
Lemma step_event_thread st i e : step_event st i = Some e -> (i < length (cs_threads st))%nat.
Proof.
  unfold step_event. destruct (nth_error (cs_threads st) i) eqn:E; [|discriminate]. intros _.
  apply nth_error_Some. congruence.
Qed.

Lemma cstep_threads_length st i : length (cs_threads (fst (cstep st i))) = length (cs_threads st).
Proof. apply (cstep_spec_frame st i _ _ (cstep_spec_holds st i)). Qed.

Lemma lin_log_tid_lt sched : forall st e, In e (lin_log st sched) -> (ev_tid e < length (cs_threads st))%nat.
Proof.
  induction sched as [|i sched IH]; intros st e H; [destruct H|]. cbn [lin_log] in H. apply in_app_or in H.
  destruct H as [H|H].
  - destruct (step_event st i) as [e0|] eqn:E; [|destruct H]. destruct H as [<-|[]].
    rewrite (step_event_tid _ _ _ E). eapply step_event_thread; eauto.
  - rewrite <- (cstep_threads_length st i). apply IH. exact H.
Qed.

Lemma filter_compl_length {A} (p q : A -> bool) l : (forall x, In x l -> p x = negb (q x)) ->
  length l = (length (filter p l) + length (filter q l))%nat.
Proof.
  induction l as [|x l IH]; intros H; [reflexivity|]. cbn [filter].
  rewrite (H x (or_introl eq_refl)). specialize (IH (fun y Hy => H y (or_intror Hy))).
  destruct (q x); cbn [negb length]; lia.
Qed.

Lemma split_two {A} (p q : A -> bool) l a b : (forall x, In x l -> p x = negb (q x)) ->
  filter p l = [a] -> filter q l = [b] -> l = [a; b] \/ l = [b; a].
Proof.
  intros Hc Hp Hq. pose proof (filter_compl_length p q l Hc) as Hl. rewrite Hp, Hq in Hl. cbn in Hl.
  destruct l as [|x [|y [|z l]]]; try discriminate.
  pose proof (Hc x (or_introl eq_refl)) as Hx. pose proof (Hc y (or_intror (or_introl eq_refl))) as Hy.
  cbn [filter] in Hp, Hq. destruct (q x), (q y); cbn [negb] in Hx, Hy; rewrite Hx, Hy in Hp; try discriminate.
  - injection Hp as <-. injection Hq as <-. auto.
  - injection Hp as <-. injection Hq as <-. auto.
Qed.

Lemma singleton_tag (l : list event) u c : map ev_tag l ++ u = [(c, O)] -> forall r, In r (map ev_resp l) ->
  exists e, l = [e] /\ ev_call e = c /\ ev_resp e = r.
Proof.
  intros H r Hr. destruct l as [|e [|e' l]]; [destruct Hr| |discriminate].
  destruct Hr as [<-|[]]. cbn in H. injection H as H1 H2 H3. exists e. auto.
Qed.

(* (d) two conditional writes (any two requests that are neither reads nor GC) running
   concurrently: if, serially in either order, the second does not answer "matched" once the
   first has, then in NO schedule both answer "matched" *)
Theorem conc_cam_exclusive : forall s0 cA cB sched rA rB,
  is_gc (cl_req cA) = false -> is_gc (cl_req cB) = false ->
  is_read (cl_req cA) = false -> is_read (cl_req cB) = false ->
  (br_body (snd (step s0 cA)) = YMatched true -> br_body (snd (step (fst (step s0 cA)) cB)) <> YMatched true) ->
  (br_body (snd (step s0 cB)) = YMatched true -> br_body (snd (step (fst (step s0 cB)) cA)) <> YMatched true) ->
  let outs := snd (crun (init_cstate s0 [[cA]; [cB]]) sched) in
  In rA (done_of 0 sched outs) -> In rB (done_of 1 sched outs) ->
  ~ (br_body rA = YMatched true /\ br_body rB = YMatched true).
Proof.
  intros s0 cA cB sched rA rB GA GB RA RB H1 H2 outs HA HB [MA MB].
  assert (Hng : no_gc_progs [[cA]; [cB]]) by (repeat constructor; auto).
  assert (Hnr : no_req_progs is_read [[cA]; [cB]]) by (repeat constructor; auto).
  pose proof (conc_serializable s0 _ sched Hng) as [_ [_ T]]. cbn zeta in T.
  pose proof (conc_serializable_writes s0 _ sched Hng Hnr) as W. cbn zeta in W.
  rewrite (lin_log_done sched _ (init_inv s0 _) (init_no_req _ s0 _ Hnr)) in T.
  set (D := done_log (init_cstate s0 [[cA]; [cB]]) sched) in *.
  destruct (T 0%nat) as [T2a T3a]. destruct (T 1%nat) as [T2b T3b]. cbn [nth tag length] in T3a, T3b.
  fold outs in T2a, T2b.
  destruct (singleton_tag _ _ _ T3a rA) as [ea [Ea [Ca Ra]]]; [rewrite T2a; apply in_or_app; auto|].
  destruct (singleton_tag _ _ _ T3b rB) as [eb [Eb [Cb Rb]]]; [rewrite T2b; apply in_or_app; auto|].
  assert (Hc : forall x, In x D -> Nat.eqb (ev_tid x) 0 = negb (Nat.eqb (ev_tid x) 1)).
  { intros x Hx. unfold D in Hx. rewrite <- (lin_log_done sched _ (init_inv s0 _) (init_no_req _ s0 _ Hnr)) in Hx.
    apply lin_log_tid_lt in Hx. cbn in Hx. destruct (ev_tid x) as [|[|n]]; try reflexivity. lia. }
  destruct (split_two _ _ D ea eb Hc Ea Eb) as [E|E]; rewrite E in W; cbn [map] in W;
    rewrite Ca, Cb, Ra, Rb, !run_cons in W; cbn [fst snd run] in W; injection W as _ W1 W2.
  - apply H1; congruence.
  - apply H2; congruence.
Qed.

(* ------------------------------------------------------------------ *)
(* Part 2h: C06 (c) — concurrent increments add up                     *)
(* ------------------------------------------------------------------ *)
Definition is_incr (tbl key fam q : bytes) (c : call) : Prop :=
  cl_req c = BReadModifyWrite tbl key [RIncrement fam q 1].

(* the newest cell of column (fam, q) of row [key] holds an 8-byte counter of value v *)
Definition counter_at (s : server) (tbl key fam q : bytes) (v : Z) : Prop :=
  exists t c r, alookup tbl s = Some t /\ known_family (t_fams t) fam = true
    /\ CellSpec.cells_of (get_row t key) fam q = c :: r /\ length (c_val c) = 8%nat /\ be64_decode (c_val c) = v.

Lemma wrap64_add_l a b : wrap64 (wrap64 a + b) = wrap64 (a + b).
Proof.
  unfold wrap64. f_equal.
  replace ((a + 9223372036854775808) mod 18446744073709551616 - 9223372036854775808 + b + 9223372036854775808)
    with ((a + 9223372036854775808) mod 18446744073709551616 + b) by lia.
  rewrite Zplus_mod_idemp_l. f_equal. lia.
Qed.

Lemma incr_step s tbl key fam q v c : server_ok s -> is_incr tbl key fam q c -> counter_at s tbl key fam q v ->
  server_ok (fst (step s c)) /\ counter_at (fst (step s c)) tbl key fam q (wrap64 (v + 1)).
Proof.
  intros Hs Hc [t [c0 [r0 [Ht [Hk [Hcells [Hlen Hv]]]]]]]. destruct c as [rq now coins]. unfold is_incr in Hc. cbn [cl_req] in Hc. subst rq.
  pose proof (server_ok_lookup _ _ _ Hs Ht) as Htok.
  pose proof (table_ok_get_row_fams t key Htok) as Hrow.
  set (rule := RIncrement fam q 1).
  assert (Hnc : rmw_new_cell (t_fams t) now rule (get_row t key)
                = Some (mkCell (rmw_ts now (c0 :: r0)) (incr_value (c_val c0) 1) [])).
  { unfold rmw_new_cell, rule. cbn [rule_target]. rewrite Hk, Hcells. cbn [rmw_value]. rewrite Hlen. reflexivity. }
  set (nc := mkCell (rmw_ts now (c0 :: r0)) (incr_value (c_val c0) 1) []) in *.
  assert (Hrules : rmw_rules (t_fams t) now [rule] (get_row t key) [] = Some (rmw_write (get_row t key) rule nc, rmw_note [] rule nc)).
  { rewrite rmw_rules_cons, Hnc. reflexivity. }
  pose proof (rmw_step_ok s tbl key [rule] now coins t _ _ Hs Ht Hrules) as Hok.
  destruct (step s (mkCall (BReadModifyWrite tbl key [rule]) now coins)) as [s' rsp]. cbn [fst].
  destruct Hok as [Hs' [_ [_ [[t' [Ht' [Hf' [Hcm _]]]] _]]]]. split; [exact Hs'|].
  pose proof (rmw_rule_spec (t_fams t) now rule (get_row t key) nc Hrow Hnc) as Spec. cbn zeta in Spec.
  cbn [rule rule_target fst snd] in Spec. destruct Spec as [Hfs' [_ [_ [[Hdec [Hl8 _]] [[r1 Hhead] _]]]]].
  rewrite Hcells in Hdec.
  set (fs' := rmw_write (get_row t key) rule nc) in *.
  pose proof (fams_ok_cells_desc fs' fam q Hfs') as Hd1. rewrite Hhead in Hd1.
  destruct (newest_is_max _ _ Hd1) as [M1 M2].
  pose proof (server_ok_lookup _ _ _ Hs' Ht') as Htok'.
  pose proof (fams_ok_cells_desc _ fam q (table_ok_get_row_fams t' key Htok')) as Hd2.
  assert (A1 : cell_lookup (CellSpec.cells_of (get_row t' key) fam q) (c_ts nc) = Some (c_val nc)).
  { rewrite <- abs_cells_of, (Hcm fam q (c_ts nc)), abs_cells_of, Hhead. exact M1. }
  assert (A2 : forall ts, cell_lookup (CellSpec.cells_of (get_row t' key) fam q) ts <> None -> ts <= c_ts nc).
  { intros ts Hts. apply M2. rewrite <- Hhead, <- abs_cells_of, <- (Hcm fam q ts), abs_cells_of. exact Hts. }
  destruct (CellSpec.cells_of (get_row t' key) fam q) as [|c' r'] eqn:El; [discriminate|].
  destruct (newest_is_max _ _ Hd2) as [N1 N2].
  assert (Ets : c_ts c' = c_ts nc).
  { apply Z.le_antisymm; [apply A2; rewrite N1; discriminate|apply N2; rewrite A1; discriminate]. }
  rewrite <- Ets, N1 in A1. injection A1 as Ev.
  change (incr_value (c_val c0) 1) with (c_val nc) in Ev.
  exists t', c', r'. rewrite Hf', El, Ev. repeat split; auto. rewrite Hdec, Hv. reflexivity.
Qed.

Lemma run_incrs tbl key fam q : forall calls s v, server_ok s -> counter_at s tbl key fam q v ->
  Forall (is_incr tbl key fam q) calls ->
  counter_at (fst (run s calls)) tbl key fam q (wrap64 (v + Z.of_nat (length calls))).
Proof.
  induction calls as [|c calls IH]; intros s v Hs Hc Hall.
  - cbn [run fst length]. destruct Hc as [t [c0 [r0 [H1 [H2 [H3 [H4 H5]]]]]]]. exists t, c0, r0. repeat split; auto.
    rewrite Z.add_0_r, <- H5. unfold be64_decode. rewrite wrap64_idem. reflexivity.
  - inversion Hall as [|? ? Hc1 Hall1]; subst. rewrite run_cons. cbn [fst].
    destruct (incr_step s tbl key fam q v c Hs Hc1 Hc) as [Hs1 Hc2].
    specialize (IH _ _ Hs1 Hc2 Hall1). rewrite wrap64_add_l in IH.
    replace (v + Z.of_nat (length (c :: calls))) with (v + 1 + Z.of_nat (length calls)) by (cbn [length]; lia). exact IH.
Qed.

Lemma filter_filter_imp {A} (p q : A -> bool) l : (forall x, p x = true -> q x = true) ->
  filter p (filter q l) = filter p l.
Proof.
  intros H. induction l as [|x l IH]; [reflexivity|]. cbn [filter]. destruct (q x) eqn:Eq; cbn [filter].
  - rewrite IH. reflexivity.
  - destruct (p x) eqn:Ep; auto. rewrite (H x Ep) in Eq. discriminate.
Qed.

Lemma length_by_tid N : forall L : list event, (forall e, In e L -> (ev_tid e < N)%nat) ->
  (forall j, (j < N)%nat -> length (lin_of j L) = 1%nat) -> length L = N.
Proof.
  induction N as [|N IH]; intros L Hlt H1.
  - destruct L as [|e L]; auto. specialize (Hlt e (or_introl eq_refl)). lia.
  - rewrite (filter_compl_length (fun e => Nat.eqb (ev_tid e) N) (fun e => negb (Nat.eqb (ev_tid e) N)) L)
      by (intros x _; rewrite negb_involutive; reflexivity).
    fold (lin_of N L). rewrite (H1 N) by lia. cbn [plus]. f_equal. apply IH.
    + intros e He. apply filter_In in He. destruct He as [He Hne]. specialize (Hlt e He).
      apply negb_true_iff, Nat.eqb_neq in Hne. lia.
    + intros j Hj. unfold lin_of. rewrite filter_filter_imp; [apply H1; lia|].
      intros x Hx. apply Nat.eqb_eq in Hx. apply negb_true_iff, Nat.eqb_neq. lia.
Qed.

Lemma init_threads_length s0 progs : length (cs_threads (init_cstate s0 progs)) = length progs.
Proof. cbn. apply map_length. Qed.

Lemma in_tag c n l : In (c, n) (tag l) -> In c l.
Proof. induction l as [|x l IH]; cbn; [auto|]. intros [H|H]; [injection H as <- _; auto|auto]. Qed.

(* (c) N threads, each one ReadModifyWrite "+1" on the same existing 8-byte counter: in any
   schedule that lets them all finish the counter has grown by exactly N (mod 2^64) *)
Theorem conc_increments_add_up : forall s0 tbl key fam q v0 progs sched,
  server_ok s0 -> counter_at s0 tbl key fam q v0 ->
  Forall (fun p => exists c, p = [c] /\ is_incr tbl key fam q c) progs ->
  let st := fst (crun (init_cstate s0 progs) sched) in
  (forall j, todo_at st j = []) ->
  counter_at (cs_server st) tbl key fam q (wrap64 (v0 + Z.of_nat (length progs))).
Proof.
  intros s0 tbl key fam q v0 progs sched Hs Hc Hp st Hfin.
  assert (Hng : no_gc_progs progs).
  { eapply Forall_impl; [|exact Hp]. intros p [c [-> Hi]]. constructor; [|constructor]. unfold is_incr in Hi. rewrite Hi. reflexivity. }
  pose proof (conc_serializable s0 progs sched Hng) as [S1 [_ T]]. cbn zeta in S1, T. fold st in S1, T.
  set (L := lin_log (init_cstate s0 progs) sched) in *.
  assert (Htags : forall j, map ev_tag (lin_of j L) = tag (nth j progs [])).
  { intros j. destruct (T j) as [_ T3]. unfold unlin in T3. rewrite Hfin, skipn_nil in T3. cbn [tag] in T3.
    rewrite app_nil_r in T3. exact T3. }
  assert (Hnth : forall j, (j < length progs)%nat -> exists c, nth j progs [] = [c] /\ is_incr tbl key fam q c).
  { intros j Hj. rewrite Forall_forall in Hp. apply Hp. apply nth_In. exact Hj. }
  assert (Hlen : length L = length progs).
  { apply length_by_tid.
    - intros e He. apply lin_log_tid_lt in He. rewrite init_threads_length in He. exact He.
    - intros j Hj. destruct (Hnth j Hj) as [c [Ec _]]. pose proof (f_equal (@length _) (Htags j)) as E.
      rewrite map_length, Ec in E. exact E. }
  rewrite <- S1, <- Hlen, <- (map_length ev_call L). apply run_incrs; auto.
  rewrite Forall_forall. intros c Hin. apply in_map_iff in Hin. destruct Hin as [e [<- He]].
  pose proof (lin_log_tid_lt _ _ _ He) as Hlt. rewrite init_threads_length in Hlt.
  destruct (Hnth _ Hlt) as [c [Ec Hi]].
  assert (Hin : In (ev_tag e) (map ev_tag (lin_of (ev_tid e) L))).
  { apply in_map. unfold lin_of. apply filter_In. split; auto. apply Nat.eqb_refl. }
  rewrite Htags, Ec in Hin. unfold ev_tag in Hin. apply in_tag in Hin. destruct Hin as [<-|[]]. exact Hi.
Qed.

(* ------------------------------------------------------------------ *)
(* Part 2i: the log names every request once; inexact entries          *)
(* ------------------------------------------------------------------ *)
Lemma nodup_app_l_gen {A} (l l' : list A) : NoDup (l ++ l') -> NoDup l.
Proof.
  induction l as [|x l IH]; cbn; intros H; [constructor|]. inversion H as [|? ? Hn Hd]; subst.
  constructor; auto. intros Hin. apply Hn. apply in_or_app. auto.
Qed.

Lemma tag_rems_lt l : forall x, In x (tag l) -> (snd x < length l)%nat.
Proof.
  induction l as [|c l IH]; intros x H; [destruct H|]. cbn [tag length] in *. destruct H as [<-|H]; cbn; [lia|].
  specialize (IH x H). lia.
Qed.

Lemma tag_rems_nodup l : NoDup (map snd (tag l)).
Proof.
  induction l as [|c l IH]; cbn; constructor; auto. intros H. apply in_map_iff in H. destruct H as [x [E Hx]].
  apply tag_rems_lt in Hx. lia.
Qed.

Lemma nodup_by_thread (L : list event) : (forall j, NoDup (map ev_rem (lin_of j L))) ->
  NoDup (map (fun e => (ev_tid e, ev_rem e)) L).
Proof.
  induction L as [|e L IH]; intros H; cbn [map]; constructor.
  - intros Hin. apply in_map_iff in Hin. destruct Hin as [e' [E He']]. injection E as E1 E2.
    specialize (H (ev_tid e)). unfold lin_of in H. cbn [filter] in H. rewrite Nat.eqb_refl in H. cbn [map] in H.
    inversion H as [|? ? Hn _]; subst. apply Hn. rewrite <- E2. apply in_map. apply filter_In. split; auto.
    apply Nat.eqb_eq. exact E1.
  - apply IH. intros j. specialize (H j). unfold lin_of in *. cbn [filter] in H.
    destruct (Nat.eqb (ev_tid e) j); auto. cbn [map] in H. inversion H; auto.
Qed.

(* (thread, ev_rem) names a request: no request is logged twice *)
Theorem lin_log_nodup : forall s0 progs sched, no_gc_progs progs ->
  NoDup (map (fun e => (ev_tid e, ev_rem e)) (lin_log (init_cstate s0 progs) sched)).
Proof.
  intros s0 progs sched Hng. apply nodup_by_thread. intros j.
  pose proof (conc_serializable s0 progs sched Hng) as [_ [_ T]]. cbn zeta in T. destruct (T j) as [_ T3].
  pose proof (tag_rems_nodup (nth j progs [])) as Hn. rewrite <- T3, map_app in Hn. apply nodup_app_l_gen in Hn.
  rewrite map_map in Hn. exact Hn.
Qed.

(* an entry is inexact only for a read that was parked at a hand-over (it had handed the lock
   over in the middle of its scan): every request that runs in one section is exact *)
Theorem inexact_only_after_handover : forall st i e, step_event st i = Some e -> ev_exact e = false ->
  exists rows rngs count coins pending acc, prog_at st i = PScan rows rngs count coins pending acc false.
Proof.
  intros st i e. unfold step_event. destruct (nth_error (cs_threads st) i) as [[[|c rest] p]|] eqn:Hn; try discriminate.
  assert (Hp : prog_at st i = p) by (unfold prog_at; rewrite Hn; reflexivity). rewrite Hp.
  destruct (final_acc p) eqn:Hfa; [discriminate|].
  assert (G : is_scan_prog p = true -> exists rows rngs count coins pending acc, p = PScan rows rngs count coins pending acc false).
  { destruct p as [| | |rows rngs count coins pending acc final|]; try discriminate. destruct final; [discriminate|]. intros _.
    do 6 eexists. reflexivity. }
  destruct (snd (cstep st i)); try discriminate.
  - destruct (final_acc (prog_at (fst (cstep st i)) i)); [|discriminate].
    intros H Hex. injection H as <-. cbn in Hex. apply negb_false_iff in Hex. auto.
  - intros H Hex. injection H as <-. cbn in Hex. apply negb_false_iff in Hex. auto.
Qed.

(* ------------------------------------------------------------------ *)
(* Part 2j: ODone order, with reads that answer at once                *)
(* ------------------------------------------------------------------ *)
(* no thread is ever parked inside a scan along the schedule: every read answers in the step
   that takes its first lock (nothing to send), or is rejected *)
Fixpoint scan_free (st : cstate) (sched : list nat) : Prop :=
  (forall i, is_scan_prog (prog_at st i) = false)
  /\ match sched with [] => True | j :: rest => scan_free (fst (cstep st j)) rest end.

Lemma scan_free_head st sched : scan_free st sched -> forall i, is_scan_prog (prog_at st i) = false.
Proof. destruct sched; cbn; tauto. Qed.

Lemma step_event_done_gen st i : is_scan_prog (prog_at st i) = false ->
  is_scan_prog (prog_at (fst (cstep st i)) i) = false -> step_event st i = done_event st i.
Proof.
  intros H1 H2. unfold step_event, done_event. unfold prog_at in H1.
  destruct (nth_error (cs_threads st) i) as [[[|c rest] p]|]; try reflexivity.
  cbn [th_prog] in H1. assert (Hfa : final_acc p = None) by (destruct p; try reflexivity; discriminate).
  rewrite Hfa, H1. destruct (snd (cstep st i)); try reflexivity.
  destruct (final_acc (prog_at (fst (cstep st i)) i)) eqn:Hf; [|reflexivity].
  apply final_acc_scan in Hf. congruence.
Qed.

Lemma lin_log_done_gen sched : forall st, scan_free st sched -> lin_log st sched = done_log st sched.
Proof.
  induction sched as [|i sched IH]; intros st H; [reflexivity|]. cbn [lin_log done_log]. destruct H as [H1 H2].
  rewrite step_event_done_gen, IH; auto. apply (scan_free_head _ _ H2).
Qed.

(* C06 (a) in ODone order, in general: for every schedule of programs without GC along which no
   read is ever parked inside its scan, the calls in the order of their ODone steps explain the
   execution: [run s0 log] gives the final server and exactly the responses received *)
Theorem conc_serializable_odone : forall s0 progs sched, no_gc_progs progs ->
  let st0 := init_cstate s0 progs in
  scan_free st0 sched ->
  let D := done_log st0 sched in
  run s0 (map ev_call D) = (cs_server (fst (crun st0 sched)), map ev_resp D).
Proof.
  intros s0 progs sched Hng st0 Hfree. cbn zeta.
  pose proof (conc_serializable s0 progs sched Hng) as [H1 [H2 _]]. cbn zeta in H1, H2. fold st0 in H1, H2.
  rewrite (lin_log_done_gen sched st0 Hfree) in H1, H2.
  apply forall2_exact_eq in H2; [|apply done_log_exact].
  rewrite (surjective_pairing (run s0 _)). rewrite H1, H2. reflexivity.
Qed.

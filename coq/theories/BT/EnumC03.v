(* The exhaustive RowSet space of C03: every set of at most two ranges plus at most one key with
   bounds drawn from the adversarial key universe, each bound unset / closed / open, on a table that
   holds all keys of the universe (one cell each).  The harness enumerates the same space in the same
   order and reports one number per request; check_enum compares them with the model. *)
From Coq Require Import List NArith ZArith Bool.
Import ListNotations.
From Emu.Common Require Import Bytes Str.
From Emu.BT Require Import Types Mutate Server.
Local Open Scope N_scope.

Definition universe : list bytes :=
  [[97]; [97; 0]; [97; 0; 0]; [97; 98]; [98]; [0]; [255]].

Definition nthb (i : N) : bytes := nth (N.to_nat i) universe [].

(* bound index: 0 unset, 1..7 closed, 8..14 open *)
Definition bound_of (i : N) : bound :=
  if i =? 0 then BUnset else if i <=? 7 then BClosed (nthb (i - 1)) else BOpen (nthb (i - 8)).
Definition range_of (i : N) : rowrange := mkRange (bound_of (i / 15)) (bound_of (i mod 15)).

(* range-set index: 0 none, 1..225 one range, then 226 + r1*225 + r2 *)
Definition ranges_of (i : N) : list rowrange :=
  if i =? 0 then []
  else if i <=? 225 then [range_of (i - 1)]
  else let j := i - 226 in [range_of (j / 225); range_of (j mod 225)].
Definition n_rangesets : N := 1 + 225 + 225 * 225.

Definition keys_of (i : N) : list bytes := if i =? 0 then [] else [nthb (i - 1)].

Definition enum_table : bytes := [116].     (* "t" *)
Definition enum_fam : bytes := [102].       (* "f" *)

Definition enum_server : server :=
  let t0 := mkTable [(enum_fam, None)] [] in
  [(enum_table,
    fold_left (fun t k => update_row t k [mkFam enum_fam [mkCol [113] [mkCell 1000%Z k []]]]) universe t0)].

Fixpoint index_of_key (k : bytes) (l : list bytes) (i : N) : N :=
  match l with
  | [] => 0
  | x :: r => if beqb x k then i + 1 else index_of_key k r (i + 1)
  end.

(* 1 = InvalidArgument, 2 + code = other error, 10 + base-8 digit string of the returned keys *)
Definition encode_resp (r : bresp) : N :=
  if br_code r =? cOK then
    match br_body r with
    | YRows rows => 10 + fold_left (fun acc row => acc * 8 + index_of_key (row_key row) universe 0) rows 0
    | _ => 9
    end
  else if br_code r =? cInvalidArgument then 1 else 2 + br_code r.

Definition model_code (rs k : N) (limit : Z) : N :=
  encode_resp (snd (step enum_server (mkCall (BReadRows enum_table (keys_of k) (ranges_of rs) None limit) 0%Z []))).

(* observations are listed for range-set indices rs0 .. rs0+count-1, inside: key index 0..7, inside: limits *)
Fixpoint check_limits (rs k : N) (limits : list Z) (obs : list N) (pos : N) : list (N * N) * list N * N :=
  match limits with
  | [] => ([], obs, pos)
  | l :: ls =>
      match obs with
      | [] => ([(pos, 0)], [], pos)
      | o :: obs' =>
          let '(bad, rest, p') := check_limits rs k ls obs' (pos + 1) in
          (if model_code rs k l =? o then bad else (pos, o) :: bad, rest, p')
      end
  end.

Fixpoint check_keys (fuel : nat) (rs k : N) (limits : list Z) (obs : list N) (pos : N) : list (N * N) * list N * N :=
  match fuel with
  | O => ([], obs, pos)
  | S f => let '(bad, rest, p') := check_limits rs k limits obs pos in
           let '(bad2, rest2, p2) := check_keys f rs (k + 1) limits rest p' in
           (bad ++ bad2, rest2, p2)
  end.

Fixpoint check_rangesets (count : nat) (rs : N) (limits : list Z) (obs : list N) (pos : N) : list (N * N) :=
  match count with
  | O => []
  | S c => let '(bad, rest, p') := check_keys 8 rs 0 limits obs pos in
           bad ++ check_rangesets c (rs + 1) limits rest p'
  end.

(* result: (position in the observation list, observed number) of every disagreement *)
Definition check_enum (rs0 : N) (count : nat) (limits : list Z) (obs : list N) : list (N * N) :=
  check_rangesets count rs0 limits obs 0.

(* driver form: cases = (first range-set index, number of range sets, observations); result =
   (case index, position of the first disagreement inside the case) *)
Fixpoint check_enum_cases_from (limits : list Z) (i : N) (cs : list (N * nat * list N)) : list (N * N) :=
  match cs with
  | [] => []
  | (rs0, count, obs) :: r =>
      match check_enum rs0 count limits obs with
      | [] => check_enum_cases_from limits (i + 1) r
      | (pos, _) :: _ => (i, pos) :: check_enum_cases_from limits (i + 1) r
      end
  end.
Definition check_enum_quick := check_enum_cases_from [0%Z; 2%Z] 0.
Definition check_enum_thorough := check_enum_cases_from [0%Z; 1%Z; 2%Z; 3%Z; 7%Z; 8%Z] 0.

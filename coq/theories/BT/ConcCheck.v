(* Correspondence check for scheduled (interleaved) executions. *)
From Coq Require Import List NArith ZArith Bool.
Import ListNotations.
From Emu.Common Require Import Bytes Str.
From Emu.BT Require Import Types Mutate Server Check Conc Bulk.

Record ccase := mkCCase {
  cc_setup : list call;              (* run sequentially first *)
  cc_threads : list (list call);     (* one request list per thread *)
  cc_sched : list nat;               (* scheduler steps *)
  cc_obs : list outcome;             (* what each step did on the implementation *)
  cc_final : list (call * bresp) }.  (* sequential probes afterwards *)

Definition outcome_eqb (m o : outcome) : bool :=
  match m, o with
  | OAt, OAt | OBlocked, OBlocked | OIdle, OIdle => true
  | ODone a, ODone b => N.eqb (br_code a) (br_code b) && body_eqb (br_body a) (br_body b)
  | _, _ => false
  end.

Fixpoint first_bad_out (i : N) (ms os : list outcome) : option N :=
  match ms, os with
  | [], [] => None
  | m :: ms', o :: os' => if outcome_eqb m o then first_bad_out (i + 1)%N ms' os' else Some i
  | _, _ => Some i
  end.

(* mismatch position: schedule step index, or 1000 + index of the first differing final probe *)
Definition check_ccase (c : ccase) : option N :=
  let s0 := fst (run [] (cc_setup c)) in
  let st0 := mkCState s0 None (map (fun cs => mkThread cs PNew) (cc_threads c)) in
  let '(st1, outs) := crun st0 (cc_sched c) in
  match first_bad_out 0%N outs (cc_obs c) with
  | Some k => Some k
  | None => match first_bad (cs_server st1) 0%N (map fst (cc_final c)) (map snd (cc_final c)) with
            | Some k => Some (1000 + k)%N
            | None => None
            end
  end.

Fixpoint check_call_from (i : N) (cs : list ccase) : list (N * N) :=
  match cs with
  | [] => []
  | c :: r => match check_ccase c with
              | Some k => (i, k) :: check_call_from (i + 1)%N r
              | None => check_call_from (i + 1)%N r
              end
  end.
Definition check_conc := check_call_from 0%N.

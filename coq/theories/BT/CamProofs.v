(* C12: CheckAndMutateRow over the sequential model (Server.step). *)
From Coq Require Import List NArith ZArith Bool Lia.
Import ListNotations.
From Emu.Common Require Import Bytes Str StrProofs.
From Emu.Gen Require Import Consts.
From Emu.BT Require Import Types Regex Mutate Filter Gc RowSet Server.
From Emu.BT Require Import FilterSpec CellSpec CellProofs FilterProofs.
Local Open Scope Z_scope.

(* ------------------------------------------------------------------ *)
(* the predicate's verdict, as the handler computes it *)
Definition cam_which (key : bytes) (pred : option rfilter) (fs : list family) (coins : list bool) : bool :=
  match pred with
  | None => negb (is_empty_fams fs)
  | Some p => let '(m, nfs, _) := feval key p fs coins in m && negb (is_empty_fams nfs)
  end.

Definition pred_valid (pred : option rfilter) : bool :=
  match pred with Some p => fvalid p | None => true end.

Definition cam_call tbl key pred tm fm now coins : call :=
  mkCall (BCheckAndMutate tbl key pred tm fm) now coins.

(* "at least one cell" *)
Lemma cam_which_none_iff key fs coins :
  cam_which key None fs coins = true <-> flatten fs <> [].
Proof. cbn. rewrite negb_true_iff. apply is_empty_fams_false. Qed.

Lemma cam_which_some_iff key p fs coins :
  cam_which key (Some p) fs coins = true
  <-> (let '(m, nfs, _) := feval key p fs coins in m = true /\ flatten nfs <> []).
Proof.
  cbn. destruct (feval key p fs coins) as [[m nfs] c'].
  rewrite andb_true_iff, negb_true_iff, is_empty_fams_false. tauto.
Qed.

(* the handler, once the table is found and the predicate validated *)
Lemma cam_step s tbl t key pred tm fm now coins :
  alookup tbl s = Some t -> pred_valid pred = true ->
  step s (cam_call tbl key pred tm fm now coins) =
  let b := cam_which key pred (get_row t key) coins in
  match apply_mutations (t_fams t) now (get_row t key) (if b then tm else fm) with
  | None => (s, fail cUnknown)
  | Some fs' => (set_table s tbl (update_row t key fs'), ok (YMatched b))
  end.
Proof.
  intros Ht Hv. unfold step, cam_call. cbn [cl_req cl_now cl_coins]. rewrite Ht.
  destruct pred as [p|]; cbn [pred_valid] in Hv; [rewrite Hv|]; reflexivity.
Qed.

(* ------------------------------------------------------------------ *)
(* validity of a mutation does not depend on the row content *)
Definition mutation_ok (tf : list (bytes * option gcrule)) (now : Z) (m : mutation) : bool :=
  match m with
  | MutUnset => false
  | SetCell fam _ ts _ =>
      known_family tf fam && valid_timestamp (if Z.eqb ts (-1) then trunc_ms now else ts)
  | DeleteFromColumn fam _ (Some (s, e)) => known_family tf fam && range_valid s e
  | DeleteFromColumn fam _ None => known_family tf fam
  | DeleteFromFamily fam => known_family tf fam
  | DeleteFromRow => true
  end.

Lemma apply_mutation_none_iff tf now fs m :
  apply_mutation tf now fs m = None <-> mutation_ok tf now m = false.
Proof.
  destruct m as [fam q ts v|fam q [[s e]|]|fam| |]; cbn [apply_mutation mutation_ok].
  - destruct (known_family tf fam); cbn [negb andb]; [|tauto].
    destruct (valid_timestamp (if ts =? -1 then trunc_ms now else ts)); cbn [negb]; split; congruence.
  - destruct (known_family tf fam); cbn [negb andb]; [|tauto].
    destruct (range_valid s e); cbn [negb]; [|tauto].
    destruct (get_family fs fam) as [fm|]; [destruct (get_column (fam_cols fm) q)|]; split; congruence.
  - destruct (known_family tf fam); cbn [negb]; [|tauto].
    destruct (get_family fs fam) as [fm|]; [destruct (get_column (fam_cols fm) q)|]; split; congruence.
  - destruct (known_family tf fam); cbn [negb]; [|tauto].
    destruct (get_family fs fam); split; congruence.
  - split; congruence.
  - tauto.
Qed.

Lemma apply_mutations_none_iff tf now ms : forall fs,
  apply_mutations tf now fs ms = None <-> forallb (mutation_ok tf now) ms = false.
Proof.
  induction ms as [|m r IH]; intros fs; cbn [apply_mutations forallb].
  - split; congruence.
  - destruct (apply_mutation tf now fs m) as [fs'|] eqn:E.
    + rewrite IH. destruct (mutation_ok tf now m) eqn:Em; cbn [andb]; [tauto|].
      apply apply_mutation_none_iff with (fs := fs) in Em. congruence.
    + apply apply_mutation_none_iff in E. rewrite E. cbn. tauto.
Qed.

Lemma apply_mutations_some_iff tf now ms fs :
  (exists fs', apply_mutations tf now fs ms = Some fs') <-> forallb (mutation_ok tf now) ms = true.
Proof.
  destruct (apply_mutations tf now fs ms) as [fs'|] eqn:E.
  - split; [|eauto]. intros _. destruct (forallb (mutation_ok tf now) ms) eqn:F; [reflexivity|].
    apply apply_mutations_none_iff with (fs := fs) in F. congruence.
  - apply apply_mutations_none_iff in E. rewrite E. split; [intros [? ?]|]; discriminate.
Qed.

(* ------------------------------------------------------------------ *)
(* C12a: the reported verdict *)
Theorem cam_matched_iff : forall s tbl t key p tm fm now coins b,
  alookup tbl s = Some t -> fvalid p = true ->
  br_body (snd (step s (cam_call tbl key (Some p) tm fm now coins))) = YMatched b ->
  b = (let '(m, nfs, _) := feval key p (get_row t key) coins in m && negb (is_empty_fams nfs))
  /\ (b = true <-> let '(m, nfs, _) := feval key p (get_row t key) coins in m = true /\ flatten nfs <> []).
Proof.
  intros s tbl t key p tm fm now coins b Ht Hv Hb.
  rewrite (cam_step s tbl t key (Some p) tm fm now coins Ht Hv) in Hb. cbv zeta in Hb.
  assert (E : b = cam_which key (Some p) (get_row t key) coins).
  { destruct (apply_mutations _ _ _ _); cbn in Hb; [|discriminate]. injection Hb as <-. reflexivity. }
  split; [exact E|]. rewrite E. apply cam_which_some_iff.
Qed.

Theorem cam_matched_nopred_iff : forall s tbl t key tm fm now coins b,
  alookup tbl s = Some t ->
  br_body (snd (step s (cam_call tbl key None tm fm now coins))) = YMatched b ->
  (b = true <-> flatten (get_row t key) <> []).
Proof.
  intros s tbl t key tm fm now coins b Ht Hb.
  rewrite (cam_step s tbl t key None tm fm now coins Ht eq_refl) in Hb. cbv zeta in Hb.
  assert (E : b = cam_which key None (get_row t key) coins).
  { destruct (apply_mutations _ _ _ _); cbn in Hb; [|discriminate]. injection Hb as <-. reflexivity. }
  rewrite E. apply cam_which_none_iff.
Qed.

(* the answer is a verdict whenever it is not an error, and the only error then is Unknown *)
Theorem cam_response_shape : forall s tbl t key pred tm fm now coins,
  alookup tbl s = Some t -> pred_valid pred = true ->
  let r := snd (step s (cam_call tbl key pred tm fm now coins)) in
  r = ok (YMatched (cam_which key pred (get_row t key) coins)) \/ r = fail cUnknown.
Proof.
  intros s tbl t key pred tm fm now coins Ht Hv. cbv zeta.
  rewrite (cam_step _ _ _ _ _ _ _ _ _ Ht Hv). cbv zeta.
  destruct (apply_mutations _ _ _ _); cbn; auto.
Qed.

(* ------------------------------------------------------------------ *)
(* C12c: the state change is that of MutateRow with the selected list *)
Theorem cam_applies_selected_branch : forall s tbl t key pred tm fm now coins,
  alookup tbl s = Some t -> pred_valid pred = true ->
  let b := cam_which key pred (get_row t key) coins in
  let '(s1, r1) := step s (cam_call tbl key pred tm fm now coins) in
  let '(s2, r2) := step s (mkCall (BMutateRow tbl key (if b then tm else fm)) now coins) in
  s1 = s2 /\ br_code r1 = br_code r2
  /\ (br_code r1 = cOK -> r1 = ok (YMatched b) /\ r2 = ok YNone)
  /\ (br_code r1 <> cOK -> r1 = fail cUnknown /\ r2 = fail cUnknown /\ s1 = s).
Proof.
  intros s tbl t key pred tm fm now coins Ht Hv. cbv zeta.
  rewrite (cam_step _ _ _ _ _ _ _ _ _ Ht Hv). cbv zeta.
  unfold step. cbn [cl_req cl_now cl_coins]. rewrite Ht.
  destruct (apply_mutations _ _ _ _) as [fs'|]; cbn.
  - split; [reflexivity|]. split; [reflexivity|]. split.
    + intros _. split; reflexivity.
    + intros Hne. exfalso. apply Hne. reflexivity.
  - split; [reflexivity|]. split; [reflexivity|]. split.
    + discriminate.
    + intros _. repeat split; reflexivity.
Qed.

(* ------------------------------------------------------------------ *)
(* C12d: errors are atomic; only the selected branch is looked at *)
Theorem cam_invalid_predicate : forall s tbl t key p tm fm now coins,
  alookup tbl s = Some t -> fvalid p = false ->
  step s (cam_call tbl key (Some p) tm fm now coins) = (s, fail cInvalidArgument).
Proof.
  intros s tbl t key p tm fm now coins Ht Hv. unfold step, cam_call. cbn [cl_req cl_now cl_coins].
  rewrite Ht, Hv. reflexivity.
Qed.

Theorem cam_error_atomic : forall s tbl t key pred tm fm now coins,
  alookup tbl s = Some t ->
  let b := cam_which key pred (get_row t key) coins in
  let '(s1, r1) := step s (cam_call tbl key pred tm fm now coins) in
  (* an invalid predicate: InvalidArgument, nothing changes *)
  (pred_valid pred = false -> r1 = fail cInvalidArgument /\ s1 = s)
  (* an invalid mutation in the selected list: error, nothing changes *)
  /\ (pred_valid pred = true -> forallb (mutation_ok (t_fams t) now) (if b then tm else fm) = false ->
      r1 = fail cUnknown /\ s1 = s)
  (* the selected list is valid: success, whatever the other list contains *)
  /\ (pred_valid pred = true -> forallb (mutation_ok (t_fams t) now) (if b then tm else fm) = true ->
      r1 = ok (YMatched b)).
Proof.
  intros s tbl t key pred tm fm now coins Ht. cbv zeta.
  destruct (pred_valid pred) eqn:Hv.
  - rewrite (cam_step _ _ _ _ _ _ _ _ _ Ht Hv). cbv zeta.
    destruct (apply_mutations _ _ _ _) as [fs'|] eqn:E.
    + split; [discriminate|]. split; intros _ F; [|reflexivity].
      apply apply_mutations_none_iff with (fs := get_row t key) in F. congruence.
    + split; [discriminate|]. split; intros _ F; [auto|].
      apply apply_mutations_none_iff in E. congruence.
  - destruct pred as [p|]; [|discriminate]. cbn in Hv.
    rewrite (cam_invalid_predicate _ _ _ _ _ _ _ _ _ Ht Hv).
    split; [auto|]. split; discriminate.
Qed.

(* the list that is not selected has no influence at all *)
Theorem cam_other_branch_irrelevant : forall s tbl t key pred tm fm other now coins,
  alookup tbl s = Some t ->
  let b := cam_which key pred (get_row t key) coins in
  step s (cam_call tbl key pred tm fm now coins)
  = step s (cam_call tbl key pred (if b then tm else other) (if b then other else fm) now coins).
Proof.
  intros s tbl t key pred tm fm other now coins Ht. cbv zeta.
  destruct (pred_valid pred) eqn:Hv.
  - rewrite !(cam_step _ _ _ _ _ _ _ _ _ Ht Hv). cbv zeta.
    destruct (cam_which key pred (get_row t key) coins); reflexivity.
  - destruct pred as [p|]; [|discriminate]. cbn in Hv.
    rewrite !(cam_invalid_predicate _ _ _ _ _ _ _ _ _ Ht Hv). reflexivity.
Qed.

(* ------------------------------------------------------------------ *)
(* C12b: the verdict agrees with a ReadRows of that single key under the same filter *)

(* a row held in the form updateRow leaves it: the table's keys are sorted (one entry per key) and
   every family of the row is a family of the table *)
Definition row_stored (t : table) (key : bytes) : Prop :=
  asorted (t_rows t) /\ all_known (t_fams t) (get_row t key).

Lemma table_ok_row_stored t key : table_ok t -> row_stored t key.
Proof.
  intros [Hs Hr]. split; [exact Hs|]. unfold get_row.
  destruct (alookup key (t_rows t)) as [fs|] eqn:E; [|constructor].
  assert (Hin : exists k, In (k, fs) (t_rows t)).
  { clear Hs Hr. induction (t_rows t) as [|[k v] r IH]; cbn in E; [discriminate|].
    destruct (beqb key k).
    - injection E as ->. exists k. left. reflexivity.
    - destruct (IH E) as [k' Hk']. exists k'. right. exact Hk'. }
  destruct Hin as [k Hin]. rewrite Forall_forall in Hr. destruct (Hr _ Hin) as [[_ Hst] _].
  cbn in Hst. unfold all_known. eapply Forall_impl; [|exact Hst]. intros f Hf. apply Hf.
Qed.

Lemma in_key_range key k : in_srange_b (key_range key) k = beqb key k.
Proof.
  unfold in_srange_b, key_range. cbn [rs RowSet.re].
  destruct (key ++ [0%N]) as [|a e] eqn:Ek; [destruct key; discriminate|]. rewrite <- Ek. clear Ek a e.
  assert (S := succ_key key k). unfold lex_lt, lex_le in S.
  unfold lex_leb, lex_ltb. rewrite (lex_antisym (key ++ [0%N]) k).
  destruct (beqb key k) eqn:B.
  - apply beqb_eq in B. subst k. rewrite lex_refl in *.
    destruct (lex_cmp (key ++ [0%N]) key) eqn:C; cbn; auto.
    + exfalso. assert (X : @eq comparison Eq Lt) by (apply S; discriminate). discriminate X.
    + exfalso. assert (X : @eq comparison Eq Lt) by (apply S; discriminate). discriminate X.
  - apply beqb_neq in B. destruct (lex_cmp key k) eqn:C.
    + apply lex_cmp_eq_iff in C. congruence.
    + destruct S as [S _]. specialize (S eq_refl).
      destruct (lex_cmp (key ++ [0%N]) k); cbn; congruence.
    + reflexivity.
Qed.

Lemma filter_key_range (rows : list (bytes * list family)) key :
  asorted rows ->
  filter (fun p => in_srange_b (key_range key) (fst p)) rows
  = match alookup key rows with Some fs => [(key, fs)] | None => [] end.
Proof.
  induction rows as [|[k v] r IH]; intros Hs; cbn [filter alookup fst]; [reflexivity|].
  rewrite in_key_range. destruct (beqb key k) eqn:B.
  - apply beqb_eq in B. subst k. f_equal. apply filter_none. intros [k' v'] Hin. cbn [fst].
    rewrite in_key_range. apply beqb_neq. intros ->.
    assert (L := asorted_head_lt _ _ _ Hs _ _ Hin). unfold lex_lt in L. rewrite lex_refl in L. discriminate.
  - apply IH. eapply asorted_tail. exact Hs.
Qed.

Lemma feval_nil_row key p coins : snd (fst (feval key p [] coins)) = [].
Proof.
  assert (H := feval_fam_names p key [] coins). destruct (snd (fst (feval key p [] coins))) as [|f r]; [reflexivity|].
  exfalso. apply (H (fam_name f)). left. reflexivity.
Qed.

Theorem cam_matches_readrows : forall s tbl t key p now coins,
  alookup tbl s = Some t -> row_stored t key -> fvalid p = true ->
  let b := cam_which key (Some p) (get_row t key) coins in
  let filtered := snd (fst (feval key p (get_row t key) coins)) in
  step s (mkCall (BReadRows tbl [key] [] (Some p) 0) now coins)
  = (s, ok (YRows (if b then [mkRow key (scrub_fams (t_fams t) filtered)] else []))).
Proof.
  intros s tbl t key p now coins Ht [Hs Hk] Hv. cbv zeta.
  unfold step. cbn [cl_req cl_now cl_coins]. rewrite Ht, Hv. cbn [forallb negb].
  do 3 f_equal.
  change (scan_ranges [key] []) with [key_range key]. cbn [scan_all].
  rewrite (filter_key_range _ key Hs).
  assert (Hk' := feval_all_known (t_fams t) key p (get_row t key) coins Hk).
  unfold get_row in *. destruct (alookup key (t_rows t)) as [fs|] eqn:E.
  - cbn [scan_rows]. change ((0 <? 0) && (0 <=? 0)) with false. cbn [cam_which].
    destruct fs as [|f0 fr].
    + assert (N := feval_nil_row key p coins). destruct (feval key p [] coins) as [[m nfs] c'].
      cbn [fst snd] in N. subst nfs. cbn. rewrite andb_false_r. reflexivity.
    + destruct (feval key p (f0 :: fr) coins) as [[m nfs] c']. cbn [fst snd] in *.
      destruct m; cbn [negb andb].
      * destruct (is_empty_fams nfs) eqn:Em.
        -- apply (scrub_fams_nil _ _ Hk') in Em. rewrite Em. reflexivity.
        -- destruct (scrub_fams (t_fams t) nfs) eqn:Es.
           ++ apply (scrub_fams_nil _ _ Hk') in Es. congruence.
           ++ reflexivity.
      * reflexivity.
  - cbn [scan_rows cam_which].
    assert (N := feval_nil_row key p coins). destruct (feval key p [] coins) as [[m nfs] c'].
    cbn [fst snd] in N. subst nfs. cbn. rewrite andb_false_r. reflexivity.
Qed.

(* the reading asked for: "matched" iff that ReadRows returns the row *)
Corollary cam_matched_iff_readrows : forall s tbl t key p tm fm now now' coins b,
  alookup tbl s = Some t -> row_stored t key -> fvalid p = true ->
  br_body (snd (step s (cam_call tbl key (Some p) tm fm now coins))) = YMatched b ->
  exists rows, snd (step s (mkCall (BReadRows tbl [key] [] (Some p) 0) now' coins)) = ok (YRows rows)
    /\ (b = true <-> exists r, rows = [r] /\ row_key r = key /\ row_fams r <> [])
    /\ (b = false <-> rows = []).
Proof.
  intros s tbl t key p tm fm now now' coins b Ht Hst Hv Hb.
  destruct (cam_matched_iff _ _ _ _ _ _ _ _ _ _ Ht Hv Hb) as [E _].
  rewrite (cam_matches_readrows s tbl t key p now' coins Ht Hst Hv). cbv zeta. cbn [snd].
  change (cam_which key (Some p) (get_row t key) coins) with
    (let '(m, nfs, _) := feval key p (get_row t key) coins in m && negb (is_empty_fams nfs)).
  rewrite <- E. eexists. split; [reflexivity|]. destruct b.
  - split; split; try discriminate; auto.
    + intros _. eexists. split; [reflexivity|]. split; [reflexivity|]. cbn [row_fams].
      destruct Hst as [_ Hk].
      assert (Hk' := feval_all_known (t_fams t) key p (get_row t key) coins Hk).
      destruct (feval key p (get_row t key) coins) as [[m nfs] c']. cbn [fst snd] in *.
      symmetry in E. apply andb_true_iff in E. destruct E as [_ E]. apply negb_true_iff in E.
      intros Es. apply (scrub_fams_nil _ _ Hk') in Es. congruence.
  - split; split; try discriminate; auto. intros (r & Hr & _). discriminate.
Qed.

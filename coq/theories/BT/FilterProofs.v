(* C05: the emulator's filter evaluation (BT/Filter.v) against the denotational filter semantics
   (BT/FilterSpec.v); validation; per-leaf boundary lemmas. *)
From Coq Require Import List NArith ZArith Bool Lia ZifyBool ZifyNat ZifyN Arith.
Import ListNotations.
From Emu.Common Require Import Bytes Str StrProofs.
From Emu.BT Require Import Types Regex Mutate Filter Gc RowSet Server.
From Emu.BT Require Import RegexProofs FilterSpec CellSpec CellProofs.
Local Open Scope Z_scope.

(* ------------------------------------------------------------------ *)
(* induction over filters through the nested lists / options *)
Definition opt_list {A} (o : option A) : list A := match o with Some x => [x] | None => [] end.
Definition subs (f : rfilter) : list rfilter :=
  match f with
  | FChain l | FInterleave l => l
  | FCondition p t e => p :: opt_list t ++ opt_list e
  | _ => []
  end.

Lemma rfilter_ind' (P : rfilter -> Prop) :
  (forall f, Forall P (subs f) -> P f) -> forall f, P f.
Proof.
  intros H. fix IH 1. intros f. apply H.
  destruct f as [b|b|l|l|p t e|r|r|r|r|fm s e|s e|s e|n|n|n| |l|v]; cbn [subs]; try constructor.
  - induction l as [|x l IHl]; constructor; [apply IH|exact IHl].
  - induction l as [|x l IHl]; constructor; [apply IH|exact IHl].
  - apply IH.
  - destruct t as [x|], e as [y|]; cbn; repeat constructor; apply IH.
Qed.

(* ------------------------------------------------------------------ *)
(* flatten: basic facts *)
Lemma flatten_cons f r : flatten (f :: r) = flatten_fam f ++ flatten r.
Proof. reflexivity. Qed.
Lemma flatten_fam_cons n c cs :
  flatten_fam (mkFam n (c :: cs)) = flatten_col n c ++ flatten_fam (mkFam n cs).
Proof. reflexivity. Qed.
Lemma flatten_col_length n c : length (flatten_col n c) = length (col_cells c).
Proof. unfold flatten_col. apply map_length. Qed.

Lemma flatten_app a b : flatten (a ++ b) = flatten a ++ flatten b.
Proof. unfold flatten. apply flat_map_app. Qed.

Lemma count_cells_flatten fs : count_cells fs = length (flatten fs).
Proof.
  unfold count_cells. induction fs as [|f r IH]; cbn [fold_right]; [reflexivity|].
  rewrite flatten_cons, app_length, <- IH. clear IH. generalize (fold_right
    (fun (f0 : family) (acc : nat) => fold_right (fun (c : column) (a : nat) => (length (col_cells c) + a)%nat) acc (fam_cols f0)) 0%nat r).
  intros k. unfold flatten_fam. induction (fam_cols f) as [|c cs IHc]; cbn [fold_right flat_map length]; [reflexivity|].
  rewrite app_length, flatten_col_length, IHc. lia.
Qed.

Lemma is_empty_fams_flatten fs : is_empty_fams fs = true <-> flatten fs = [].
Proof.
  unfold is_empty_fams. induction fs as [|f r IH]; cbn [forallb]; [tauto|].
  rewrite flatten_cons, andb_true_iff, IH. clear IH.
  assert (H : forallb (fun c => match col_cells c with [] => true | _ => false end) (fam_cols f) = true
              <-> flatten_fam f = []).
  { unfold flatten_fam. induction (fam_cols f) as [|c cs IHc]; cbn [forallb flat_map]; [tauto|].
    rewrite andb_true_iff, IHc. unfold flatten_col. destruct (col_cells c); cbn; [tauto|].
    split; [intros [? _]; discriminate|discriminate]. }
  rewrite H. split.
  - intros [-> ->]. reflexivity.
  - intros E. apply app_eq_nil in E. exact E.
Qed.

Lemma is_empty_fams_false fs : is_empty_fams fs = false <-> flatten fs <> [].
Proof.
  rewrite <- is_empty_fams_flatten. destruct (is_empty_fams fs); split; congruence.
Qed.

Lemma count_pos_flatten fs : (0 <? count_cells fs)%nat = negb (is_empty_fams fs).
Proof.
  rewrite count_cells_flatten. destruct (is_empty_fams fs) eqn:E.
  - apply is_empty_fams_flatten in E. rewrite E. reflexivity.
  - apply is_empty_fams_false in E. destruct (flatten fs); [congruence|reflexivity].
Qed.

(* ------------------------------------------------------------------ *)
(* filters never invent a family: the family names of the result are among those of the input *)
Lemma map_cols_names g fs : map fam_name (map_cols g fs) = map fam_name fs.
Proof. unfold map_cols. rewrite map_map. reflexivity. Qed.

Lemma limit_fams_names fs : forall n, map fam_name (limit_fams n fs) = map fam_name fs.
Proof.
  induction fs as [|f r IH]; intros n; cbn [limit_fams]; [reflexivity|].
  destruct (limit_cols n (fam_cols f)) as [l' cs']. cbn. rewrite IH. reflexivity.
Qed.

Lemma offset_fams_names fs : forall n, map fam_name (offset_fams n fs) = map fam_name fs.
Proof.
  induction fs as [|f r IH]; intros n; cbn [offset_fams]; [reflexivity|].
  destruct (offset_cols n (fam_cols f)) as [[o'|] cs']; cbn; [rewrite IH|]; reflexivity.
Qed.

Lemma upd_col_names fs fam q g :
  map fam_name (upd_col fs fam q g)
  = if get_family fs fam then map fam_name fs else map fam_name fs ++ [fam].
Proof. unfold upd_col. rewrite set_family_names. reflexivity. Qed.

Lemma ensure_family_names fs n : incl (map fam_name (ensure_family fs n)) (n :: map fam_name fs).
Proof.
  unfold ensure_family. destruct (get_family fs n).
  - apply incl_tl, incl_refl.
  - rewrite map_app. cbn. intros x Hx. apply in_app_iff in Hx. cbn in *. tauto.
Qed.

Lemma merge_branch_names br : forall acc,
  incl (map fam_name (merge_branch acc br)) (map fam_name acc ++ map fam_name br).
Proof.
  unfold merge_branch. induction br as [|f r IH]; intros acc; cbn [fold_left map].
  - rewrite app_nil_r. apply incl_refl.
  - eapply incl_tran; [apply IH|]. clear IH.
    assert (H : forall cs a, incl (map fam_name a) (fam_name f :: map fam_name acc) ->
              incl (map fam_name (fold_left (fun a' c => upd_col a' (fam_name f) (col_q c) (fun cs0 => cs0 ++ col_cells c)) cs a))
                   (fam_name f :: map fam_name acc)).
    { induction cs as [|c cs IHc]; intros a Ha; cbn [fold_left]; [exact Ha|].
      apply IHc. rewrite upd_col_names. destruct (get_family a (fam_name f)); [exact Ha|].
      intros x Hx. apply in_app_iff in Hx. destruct Hx as [Hx|[<-|[]]]; [apply Ha, Hx|left; reflexivity]. }
    specialize (H (fam_cols f) _ (ensure_family_names acc (fam_name f))).
    intros x Hx. apply in_app_iff in Hx. rewrite in_app_iff. cbn. destruct Hx as [Hx|Hx].
    + apply H in Hx. cbn in Hx. tauto.
    + tauto.
Qed.

Lemma merge_branches_names brs (l : list bytes) :
  Forall (fun br => incl (map fam_name br) l) brs -> incl (map fam_name (merge_branches brs)) l.
Proof.
  intros H. unfold merge_branches. rewrite map_cols_names.
  assert (G : forall acc, incl (map fam_name acc) l -> incl (map fam_name (fold_left merge_branch brs acc)) l).
  { induction H as [|br brs Hbr _ IH]; intros acc Hacc; cbn [fold_left]; [exact Hacc|].
    apply IH. eapply incl_tran; [apply merge_branch_names|]. apply incl_app; assumption. }
  apply G. intros x [].
Qed.

Lemma feval_fam_names f : forall key fs coins,
  incl (map fam_name (snd (fst (feval key f fs coins)))) (map fam_name fs).
Proof.
  induction f as [f IH] using rfilter_ind'. intros key fs coins.
  destruct f as [b|b|l|l|p t e|r|r|r|r|fm s e|s e|s e|n|n|n| |lb|v]; cbn [subs] in IH;
    try (cbn [feval fst snd]; unfold per_cell; rewrite ?map_cols_names; apply incl_refl).
  - (* chain *) cbn [feval]. revert fs coins. induction IH as [|x l Hx _ IHl]; intros fs coins; [apply incl_refl|].
    specialize (Hx key fs coins). destruct (feval key x fs coins) as [[m fs'] c']. cbn [fst snd] in Hx.
    destruct m; [|exact Hx]. eapply incl_tran; [apply IHl|exact Hx].
  - (* interleave *) cbn [feval].
    match goal with |- context [let '(brs, coins') := ?G l coins in _] => set (go := G) end.
    assert (Hgo : forall l', Forall (fun g => forall key fs coins,
                     incl (map fam_name (snd (fst (feval key g fs coins)))) (map fam_name fs)) l' ->
                   forall coins, Forall (fun br => incl (map fam_name br) (map fam_name fs)) (fst (go l' coins))).
    { intros l' Hl'. induction Hl' as [|x l' Hx _ IHl]; intros cs; cbn [go fst]; [constructor|].
      specialize (Hx key fs cs). destruct (feval key x fs cs) as [[m fs'] c']. cbn [fst snd] in Hx.
      specialize (IHl c'). fold go. destruct (go l' c') as [rest c'']. cbn [fst] in *.
      destruct m; cbn [app]; [constructor|]; assumption. }
    specialize (Hgo l IH coins). destruct (go l coins) as [brs coins']. cbn [fst snd] in *.
    apply merge_branches_names. exact Hgo.
  - (* condition *) cbn [feval]. inversion IH as [|? ? Hp Hte]; subst.
    destruct (feval key p fs coins) as [[m pfs] c'].
    assert (Ht : forall x, t = Some x -> forall key fs coins,
               incl (map fam_name (snd (fst (feval key x fs coins)))) (map fam_name fs)).
    { intros x ->. cbn in Hte. inversion Hte; subst. assumption. }
    assert (He : forall x, e = Some x -> forall key fs coins,
               incl (map fam_name (snd (fst (feval key x fs coins)))) (map fam_name fs)).
    { intros x ->. rewrite Forall_app in Hte. destruct Hte as [_ Hte]. inversion Hte; subst. assumption. }
    destruct (m && negb (is_empty_fams pfs)).
    + destruct t as [x|]; [apply (Ht x eq_refl)|apply incl_refl].
    + destruct e as [x|]; [apply (He x eq_refl)|apply incl_refl].
  - (* row key regex *) cbn [feval]. destruct (opt_true (rx_match r key)); apply incl_refl.
  - (* row limit *) cbn [feval fst snd]. rewrite limit_fams_names. apply incl_refl.
  - (* row offset *) cbn [feval fst snd]. rewrite offset_fams_names. apply incl_refl.
  - (* sample *) cbn [feval]. destruct coins; apply incl_refl.
Qed.

Lemma all_known_names tf fs : all_known tf fs <-> (forall n, In n (map fam_name fs) -> known_family tf n = true).
Proof.
  unfold all_known. rewrite Forall_forall. split.
  - intros H n Hn. apply in_map_iff in Hn. destruct Hn as (f & <- & Hf). apply H, Hf.
  - intros H f Hf. apply H. apply in_map. exact Hf.
Qed.

Lemma feval_all_known tf key f fs coins :
  all_known tf fs -> all_known tf (snd (fst (feval key f fs coins))).
Proof.
  rewrite !all_known_names. intros H n Hn. apply H. eapply feval_fam_names. exact Hn.
Qed.

(* ------------------------------------------------------------------ *)
(* scrubbing a row whose families the table knows leaves a row iff there is a cell *)
Lemma insert_col_nonempty c l : insert_col c l <> [].
Proof. destruct l as [|d r]; cbn; [discriminate|]. destruct (lex_ltb (col_q c) (col_q d)); discriminate. Qed.

Lemma sort_cols_nil l : sort_cols l = [] <-> l = [].
Proof.
  destruct l as [|c r]; cbn; [tauto|]. split; [|discriminate].
  intros H. exfalso. exact (insert_col_nonempty _ _ H).
Qed.

Lemma scrub_fams_nil tf fs : all_known tf fs -> (scrub_fams tf fs = [] <-> is_empty_fams fs = true).
Proof.
  unfold scrub_fams, is_empty_fams, all_known. induction fs as [|f r IH]; intros Hk; cbn [filter map forallb]; [tauto|].
  inversion Hk as [|? ? Hf Hr]; subst. rewrite Hf. cbn [map filter]. specialize (IH Hr).
  rewrite andb_true_iff, <- IH. clear IH.
  assert (H : fam_cols (scrub_fam f) = [] <->
              forallb (fun c => match col_cells c with [] => true | _ => false end) (fam_cols f) = true).
  { unfold scrub_fam. cbn [fam_cols]. rewrite sort_cols_nil.
    induction (fam_cols f) as [|c cs IHc]; cbn [filter forallb]; [tauto|].
    destruct (col_cells c); cbn [andb]; [exact IHc|]. split; discriminate. }
  destruct (fam_cols (scrub_fam f)) eqn:E.
  - rewrite <- H. tauto.
  - split; [discriminate|]. intros [H1 _]. apply H in H1. discriminate.
Qed.

Lemma scrub_fams_nonempty tf fs : all_known tf fs -> (scrub_fams tf fs <> [] <-> flatten fs <> []).
Proof.
  intros Hk. rewrite (scrub_fams_nil tf fs Hk), is_empty_fams_flatten. tauto.
Qed.

(* ------------------------------------------------------------------ *)
(* validation *)
Lemma fix_all_forallb (g : rfilter -> bool) l :
  (fix all (l : list rfilter) := match l with [] => true | x :: r => g x && all r end) l = forallb g l.
Proof. induction l as [|x r IH]; cbn; [reflexivity|]. rewrite IH. reflexivity. Qed.

Lemma fvalid_chain l : fvalid (FChain l) = (2 <=? length l)%nat && forallb fvalid l.
Proof. cbn [fvalid]. rewrite fix_all_forallb. reflexivity. Qed.
Lemma fvalid_interleave l : fvalid (FInterleave l) = (2 <=? length l)%nat && forallb fvalid l.
Proof. cbn [fvalid]. rewrite fix_all_forallb. reflexivity. Qed.

(* what the validator accepts, declaratively *)
Inductive valid_filter : rfilter -> Prop :=
| VPass : valid_filter (FPass true)                       (* pass_all / block_all must be set to true *)
| VBlock : valid_filter (FBlock true)
| VChain l : (2 <= length l)%nat -> Forall valid_filter l -> valid_filter (FChain l)
| VInterleave l : (2 <= length l)%nat -> Forall valid_filter l -> valid_filter (FInterleave l)
| VCondition p t e : valid_filter p -> Forall valid_filter (opt_list t) -> Forall valid_filter (opt_list e) ->
                     valid_filter (FCondition p t e)
| VRowKeyRegex r : valid_filter (FRowKeyRegex (RxOk r))   (* the pattern compiles *)
| VFamilyRegex r : valid_filter (FFamilyRegex (RxOk r))
| VQualRegex r : valid_filter (FQualRegex (RxOk r))
| VValueRegex r : valid_filter (FValueRegex (RxOk r))
| VColRange fam s e : valid_filter (FColRange fam s e)
| VValueRange s e : valid_filter (FValueRange s e)
| VTsRange s e : (1000 | s) -> (1000 | e) -> valid_filter (FTsRange s e)   (* millisecond granularity *)
| VRowLimit n : 0 <= n -> valid_filter (FCellsPerRowLimit n)
| VRowOffset n : 0 <= n -> valid_filter (FCellsPerRowOffset n)
| VColLimit n : 0 <= n -> valid_filter (FCellsPerColLimit n)
| VStrip : valid_filter FStrip
| VLabel l : (exists c, In c l /\ is_label_char c = true) -> valid_filter (FLabel l)
| VSample : valid_filter (FSample true).                   (* probability strictly between 0 and 1 *)

Lemma rem1000 z : (Z.rem z 1000 =? 0) = true <-> (1000 | z).
Proof. rewrite Z.eqb_eq. apply Z.rem_divide. discriminate. Qed.

Lemma Forall_forallb {A} (g : A -> bool) (P : A -> Prop) l :
  Forall (fun x => g x = true <-> P x) l -> (forallb g l = true <-> Forall P l).
Proof.
  induction 1 as [|x l Hx _ IH]; cbn [forallb].
  - split; constructor.
  - rewrite andb_true_iff, Hx, IH. split.
    + intros [? ?]. constructor; assumption.
    + intros H. inversion H; subst. auto.
Qed.

Theorem fvalid_spec : forall f, fvalid f = true <-> valid_filter f.
Proof.
  induction f as [f IH] using rfilter_ind'.
  destruct f as [b|b|l|l|p t e|r|r|r|r|fm s e|s e|s e|n|n|n| |lb|v]; cbn [subs] in IH.
  - destruct b; cbn; (split; [try discriminate; intros _; constructor|intros H; inversion H; reflexivity]).
  - destruct b; cbn; (split; [try discriminate; intros _; constructor|intros H; inversion H; reflexivity]).
  - rewrite fvalid_chain, andb_true_iff, (Forall_forallb _ _ _ IH), Nat.leb_le. split.
    + intros [? ?]. constructor; assumption.
    + intros H. inversion H; subst. auto.
  - rewrite fvalid_interleave, andb_true_iff, (Forall_forallb _ _ _ IH), Nat.leb_le. split.
    + intros [? ?]. constructor; assumption.
    + intros H. inversion H; subst. auto.
  - inversion IH as [|? ? Hp Hte]; subst. apply Forall_app in Hte. destruct Hte as [Ht He].
    cbn [fvalid]. rewrite !andb_true_iff, Hp.
    assert (Ht' : match t with Some x => fvalid x | None => true end = true <-> Forall valid_filter (opt_list t)).
    { destruct t as [x|]; cbn in *; [|split; constructor]. inversion Ht as [|? ? Hx _]; subst. rewrite Hx.
      split; [intros; repeat constructor; assumption|intros H; inversion H; assumption]. }
    assert (He' : match e with Some x => fvalid x | None => true end = true <-> Forall valid_filter (opt_list e)).
    { destruct e as [x|]; cbn in *; [|split; constructor]. inversion He as [|? ? Hx _]; subst. rewrite Hx.
      split; [intros; repeat constructor; assumption|intros H; inversion H; assumption]. }
    rewrite Ht', He'. split.
    + intros [[? ?] ?]. constructor; assumption.
    + intros H. inversion H; subst. auto.
  - destruct r; cbn; (split; [try discriminate; intros _; constructor|intros H; inversion H; reflexivity]).
  - destruct r; cbn; (split; [try discriminate; intros _; constructor|intros H; inversion H; reflexivity]).
  - destruct r; cbn; (split; [try discriminate; intros _; constructor|intros H; inversion H; reflexivity]).
  - destruct r; cbn; (split; [try discriminate; intros _; constructor|intros H; inversion H; reflexivity]).
  - cbn. split; [constructor|reflexivity].
  - cbn. split; [constructor|reflexivity].
  - cbn [fvalid]. rewrite andb_true_iff, !rem1000. split.
    + intros [? ?]. constructor; assumption.
    + intros H. inversion H; subst. auto.
  - cbn [fvalid]. rewrite Z.leb_le. split; [constructor; assumption|intros H; inversion H; assumption].
  - cbn [fvalid]. rewrite Z.leb_le. split; [constructor; assumption|intros H; inversion H; assumption].
  - cbn [fvalid]. rewrite Z.leb_le. split; [constructor; assumption|intros H; inversion H; assumption].
  - cbn. split; [constructor|reflexivity].
  - cbn [fvalid]. rewrite existsb_exists. split; [constructor; assumption|intros H; inversion H; assumption].
  - destruct v; cbn; (split; [try discriminate; intros _; constructor|intros H; inversion H; reflexivity]).
Qed.

(* an invalid filter is rejected before anything is read or written *)
Theorem invalid_rejected : forall s tbl t f now coins,
  alookup tbl s = Some t -> fvalid f = false ->
  (forall keys ranges limit,
      step s (mkCall (BReadRows tbl keys ranges (Some f) limit) now coins) = (s, fail cInvalidArgument))
  /\ (forall key tm fm,
      step s (mkCall (BCheckAndMutate tbl key (Some f) tm fm) now coins) = (s, fail cInvalidArgument)).
Proof.
  intros s tbl t f now coins Ht Hv. split.
  - intros keys ranges limit. unfold step. cbn [cl_req cl_now cl_coins]. rewrite Ht, Hv.
    destruct (negb (forallb range_ok ranges)); reflexivity.
  - intros key tm fm. unfold step. cbn [cl_req cl_now cl_coins]. rewrite Ht, Hv. reflexivity.
Qed.

(* the sample filter lets the whole row through or nothing, as the coin says *)
Theorem sample_all_or_nothing : forall key fs c coins,
  feval key (FSample true) fs (c :: coins) = (c, fs, coins).
Proof. reflexivity. Qed.

(* ------------------------------------------------------------------ *)
(* per-leaf boundary lemmas, in terms of the order relations of Common/Bytes.v *)
Definition lower_in (b : bound) (x : bytes) : Prop :=
  match b with BUnset => True | BClosed k => lex_le k x | BOpen k => lex_lt k x end.
Definition upper_in (b : bound) (x : bytes) : Prop :=
  match b with BUnset => True | BClosed k => lex_le x k | BOpen k => lex_lt x k end.

Lemma lex_ltb_lt a b : lex_ltb a b = true <-> lex_lt a b.
Proof. unfold lex_ltb, lex_lt. destruct (lex_cmp a b); split; congruence. Qed.
Lemma lex_leb_le a b : lex_leb a b = true <-> lex_le a b.
Proof. unfold lex_leb, lex_le. destruct (lex_cmp a b); split; congruence. Qed.
Lemma lex_leb_negb a b : lex_leb a b = negb (lex_ltb b a).
Proof. unfold lex_leb, lex_ltb. rewrite (lex_antisym a b). destruct (lex_cmp a b); reflexivity. Qed.

Lemma in_lower_spec b x : in_lower b x = true <-> lower_in b x.
Proof. destruct b; cbn; [tauto|apply lex_leb_le|apply lex_ltb_lt]. Qed.
Lemma in_upper_spec b x : in_upper b x = true <-> upper_in b x.
Proof. destruct b; cbn; [tauto|apply lex_leb_le|apply lex_ltb_lt]. Qed.

Theorem column_range_spec : forall fam s e f q c,
  include_cell (FColRange fam s e) f q c = true <-> f = fam /\ lower_in s q /\ upper_in e q.
Proof.
  intros. cbn [include_cell]. rewrite !andb_true_iff, beqb_eq, in_lower_spec, in_upper_spec. tauto.
Qed.

Theorem value_range_spec : forall s e f q c,
  include_cell (FValueRange s e) f q c = true <-> lower_in s (c_val c) /\ upper_in e (c_val c).
Proof. intros. cbn [include_cell]. rewrite andb_true_iff, in_lower_spec, in_upper_spec. tauto. Qed.

(* start inclusive, end exclusive, end 0 = unbounded *)
Theorem ts_range_spec : forall s e f q c,
  include_cell (FTsRange s e) f q c = true <-> s <= c_ts c /\ (e = 0 \/ c_ts c < e).
Proof. intros. cbn [include_cell]. lia. Qed.

(* the regex leaves: whole-field, bytewise match *)
Theorem regex_leaf_spec : forall r f q c,
  (include_cell (FFamilyRegex (RxOk r)) f q c = true <-> lang r f)
  /\ (include_cell (FQualRegex (RxOk r)) f q c = true <-> lang r q)
  /\ (include_cell (FValueRegex (RxOk r)) f q c = true <-> lang r (c_val c)).
Proof. intros. cbn. rewrite <- !regex_matcher_correct. tauto. Qed.

(* ------------------------------------------------------------------ *)
(* a row as a list of column blocks *)
Definition tagc (k : col_key) (c : cell) : lcell := (fst k, snd k, c).
Definition block := (col_key * list cell)%type.
Definition fam_blocks (f : family) : list block :=
  map (fun c => ((fam_name f, col_q c), col_cells c)) (fam_cols f).
Definition blocks (fs : list family) : list block := flat_map fam_blocks fs.
Definition unblock (b : block) : list lcell := map (tagc (fst b)) (snd b).
Definition unblocks (bs : list block) : list lcell := flat_map unblock bs.
Definition keys (fs : list family) : list col_key := map fst (blocks fs).

Lemma flatten_blocks fs : flatten fs = unblocks (blocks fs).
Proof.
  unfold flatten, unblocks, blocks. induction fs as [|f r IH]; cbn [flat_map]; [reflexivity|].
  rewrite flat_map_app, IH. f_equal. unfold flatten_fam, fam_blocks.
  induction (fam_cols f) as [|c cs IHc]; cbn [flat_map map]; [reflexivity|]. rewrite IHc. reflexivity.
Qed.

Lemma unblocks_app a b : unblocks (a ++ b) = unblocks a ++ unblocks b.
Proof. apply flat_map_app. Qed.
Lemma unblocks_cons b bs : unblocks (b :: bs) = unblock b ++ unblocks bs.
Proof. reflexivity. Qed.

Lemma blocks_map_cols (g : bytes -> bytes -> list cell -> list cell) fs :
  blocks (map_cols (fun fam c => mkCol (col_q c) (g fam (col_q c) (col_cells c))) fs)
  = map (fun b => (fst b, g (fst (fst b)) (snd (fst b)) (snd b))) (blocks fs).
Proof.
  unfold blocks, map_cols. induction fs as [|f r IH]; cbn [map flat_map]; [reflexivity|].
  rewrite map_app, IH. f_equal. unfold fam_blocks. cbn [fam_name fam_cols]. rewrite !map_map. reflexivity.
Qed.

(* the representation invariant needed here: distinct family names, distinct qualifiers *)
Definition skel_ok (fs : list family) : Prop :=
  NoDup (map fam_name fs) /\ Forall (fun f => NoDup (map col_q (fam_cols f))) fs.

Lemma fams_ok_skel_ok fs : fams_ok fs -> skel_ok fs.
Proof.
  intros [Hn Hf]. split; [exact Hn|]. eapply Forall_impl; [|exact Hf]. intros f [H _]. exact H.
Qed.

Lemma keys_in fs k : In k (keys fs) -> In (fst k) (map fam_name fs).
Proof.
  unfold keys, blocks. rewrite in_map_iff. intros ((k', cs) & <- & Hin). apply in_flat_map in Hin.
  destruct Hin as (f & Hf & Hb). unfold fam_blocks in Hb. apply in_map_iff in Hb.
  destruct Hb as (c & E & _). inversion E; subst. cbn. apply in_map. exact Hf.
Qed.

Lemma NoDup_app_intro {A} (a b : list A) :
  NoDup a -> NoDup b -> (forall x, In x a -> In x b -> False) -> NoDup (a ++ b).
Proof.
  induction a as [|x a IH]; intros Ha Hb Hd; cbn; [exact Hb|].
  inversion Ha; subst. constructor.
  - rewrite in_app_iff. intros [H|H]; [auto|]. apply (Hd x); [left; reflexivity|exact H].
  - apply IH; auto. intros y Hy. apply Hd. right. exact Hy.
Qed.

Lemma NoDup_app_inv {A} (a b : list A) :
  NoDup (a ++ b) -> NoDup a /\ NoDup b /\ (forall x, In x a -> In x b -> False).
Proof.
  induction a as [|x a IH]; cbn; intros H.
  - split; [constructor|]. split; [exact H|]. intros x [].
  - inversion H as [|? ? Hx Hr]; subst. destruct (IH Hr) as (Ha & Hb & Hd). split; [|split].
    + constructor; [|exact Ha]. intros Hin. apply Hx. apply in_app_iff. auto.
    + exact Hb.
    + intros y [<-|Hy] Hyb; [apply Hx; apply in_app_iff; auto|apply (Hd y); assumption].
Qed.

Lemma keys_nodup fs : skel_ok fs -> NoDup (keys fs).
Proof.
  unfold keys, blocks. intros [Hn Hf]. induction fs as [|f r IH]; cbn [flat_map map]; [constructor|].
  inversion Hn as [|? ? Hnf Hnr]; subst. inversion Hf as [|? ? Hq Hfr]; subst.
  rewrite map_app. apply NoDup_app_intro.
  - unfold fam_blocks. rewrite map_map. cbn [fst].
    clear -Hq. induction (fam_cols f) as [|c cs IHc]; cbn [map]; [constructor|].
    inversion Hq as [|? ? Hc Hcs]; subst. constructor; [|apply IHc; exact Hcs].
    intros Hin. apply Hc. apply in_map_iff in Hin. destruct Hin as (c' & E & Hc'). inversion E.
    apply in_map_iff. exists c'. auto.
  - apply IH; assumption.
  - intros k Hk1 Hk2. apply Hnf. apply (keys_in r k) in Hk2.
    unfold fam_blocks in Hk1. rewrite map_map in Hk1. apply in_map_iff in Hk1.
    destruct Hk1 as (c & <- & _). exact Hk2.
Qed.

(* ------------------------------------------------------------------ *)
(* the per-cell filters *)
Definition linc (f : rfilter) (x : lcell) : bool := include_cell f (lc_fam x) (lc_q x) (lc_cell x).
Definition lmod (f : rfilter) (x : lcell) : lcell := (lc_fam x, lc_q x, modify_cell f (lc_cell x)).

Lemma filter_map_comm {A B} (g : A -> B) (p : B -> bool) l :
  filter p (map g l) = map g (filter (fun x => p (g x)) l).
Proof. induction l as [|x l IH]; cbn; [reflexivity|]. destruct (p (g x)); cbn; rewrite IH; reflexivity. Qed.

Lemma per_cell_flatten f fs : flatten (per_cell f fs) = map (lmod f) (filter (linc f) (flatten fs)).
Proof.
  unfold per_cell, map_cols, flatten. induction fs as [|fm r IH]; cbn [map flat_map]; [reflexivity|].
  rewrite filter_app, map_app, IH. f_equal. unfold flatten_fam. cbn [fam_name fam_cols].
  induction (fam_cols fm) as [|c cs IHc]; cbn [map flat_map]; [reflexivity|].
  rewrite filter_app, map_app, IHc. f_equal. unfold flatten_col. cbn [col_q col_cells].
  rewrite filter_map_comm, !map_map. reflexivity.
Qed.

Lemma lower_ok_eq b x : in_lower b x = lower_ok b x.
Proof. destruct b; cbn; [reflexivity| |reflexivity]. unfold lex_geb. apply lex_leb_negb. Qed.
Lemma upper_ok_eq b x : in_upper b x = upper_ok b x.
Proof. destruct b; cbn; [reflexivity| |reflexivity]. apply lex_leb_negb. Qed.

Definition is_per_cell (f : rfilter) : bool :=
  match f with
  | FFamilyRegex _ | FQualRegex _ | FValueRegex _ | FColRange _ _ _ | FValueRange _ _ | FTsRange _ _
  | FStrip | FLabel _ => true
  | _ => false
  end.

Lemma lcell_eta (x : lcell) : (lc_fam x, lc_q x, lc_cell x) = x.
Proof. destruct x as [[a b] c]. reflexivity. Qed.

Lemma filter_true {A} (l : list A) : filter (fun _ => true) l = l.
Proof. induction l as [|x l IH]; cbn; [reflexivity|]. rewrite IH. reflexivity. Qed.

Lemma per_cell_sem key f l coins : is_per_cell f = true -> fvalid f = true ->
  fsem key f l coins = (map (lmod f) (filter (linc f) l), coins).
Proof.
  assert (Hid : forall g, (forall x, lmod g x = x) -> forall l', map (lmod g) l' = l').
  { intros g Hg l'. rewrite (map_ext _ (fun x => x) Hg). apply map_id. }
  destruct f as [b|b|fl|fl|p t e|r|r|r|r|fm s e|s e|s e|n|n|n| |lb|v]; try discriminate; intros _ Hv;
    cbn [fsem]; f_equal.
  - destruct r as [|r]; [discriminate|]. rewrite Hid by (intros x; apply lcell_eta). reflexivity.
  - destruct r as [|r]; [discriminate|]. rewrite Hid by (intros x; apply lcell_eta). reflexivity.
  - destruct r as [|r]; [discriminate|]. rewrite Hid by (intros x; apply lcell_eta). reflexivity.
  - rewrite Hid by (intros x; apply lcell_eta). apply filter_ext. intros x. unfold linc. cbn.
    rewrite lower_ok_eq, upper_ok_eq. reflexivity.
  - rewrite Hid by (intros x; apply lcell_eta). apply filter_ext. intros x. unfold linc. cbn.
    rewrite lower_ok_eq, upper_ok_eq. reflexivity.
  - rewrite Hid by (intros x; apply lcell_eta). apply filter_ext. intros x. unfold linc. cbn. unfold ts_in.
    destruct (e =? 0); reflexivity.
  - unfold linc. cbn [include_cell]. rewrite filter_true. reflexivity.
  - unfold linc. cbn [include_cell]. rewrite filter_true. reflexivity.
Qed.

(* ------------------------------------------------------------------ *)
(* cells-per-row limit and offset *)
Lemma flatten_fam_cons' n c cs :
  flatten_fam (mkFam n (c :: cs)) = flatten_col n c ++ flatten_fam (mkFam n cs).
Proof. reflexivity. Qed.

Lemma limit_cols_flatten nm cs : forall n,
  flatten_fam (mkFam nm (snd (limit_cols n cs))) = firstn n (flatten_fam (mkFam nm cs))
  /\ fst (limit_cols n cs) = (n - length (flatten_fam (mkFam nm cs)))%nat.
Proof.
  induction cs as [|c r IH]; intros n; cbn [limit_cols fst snd].
  - cbn. rewrite firstn_nil. split; [reflexivity|lia].
  - rewrite flatten_fam_cons', firstn_app, app_length, flatten_col_length.
    destruct (n <? length (col_cells c))%nat eqn:E.
    + destruct (IH 0%nat) as [IH1 IH2]. destruct (limit_cols 0 r) as [l' r']. cbn [fst snd] in *.
      rewrite flatten_fam_cons'. split; [|lia]. f_equal.
      * unfold flatten_col. cbn [col_q col_cells]. rewrite firstn_map. reflexivity.
      * rewrite IH1. replace (n - length (col_cells c))%nat with 0%nat by lia. reflexivity.
    + destruct (IH (n - length (col_cells c))%nat) as [IH1 IH2].
      destruct (limit_cols (n - length (col_cells c)) r) as [l' r']. cbn [fst snd] in *.
      rewrite flatten_fam_cons'. split; [|lia]. f_equal; [|exact IH1].
      symmetry. apply firstn_all2. rewrite flatten_col_length. lia.
Qed.

Lemma fam_eta f : mkFam (fam_name f) (fam_cols f) = f.
Proof. destruct f; reflexivity. Qed.

Lemma limit_fams_flatten fs : forall n, flatten (limit_fams n fs) = firstn n (flatten fs).
Proof.
  induction fs as [|f r IH]; intros n; cbn [limit_fams].
  - cbn. rewrite firstn_nil. reflexivity.
  - destruct (limit_cols_flatten (fam_name f) (fam_cols f) n) as [H1 H2].
    destruct (limit_cols n (fam_cols f)) as [l' cs']. cbn [fst snd] in *.
    rewrite !flatten_cons, firstn_app, IH, H1, H2, fam_eta. reflexivity.
Qed.

Lemma offset_cols_flatten nm cs : forall n,
  flatten_fam (mkFam nm (snd (offset_cols n cs))) = skipn n (flatten_fam (mkFam nm cs))
  /\ match fst (offset_cols n cs) with
     | None => (n < length (flatten_fam (mkFam nm cs)))%nat
     | Some o => o = (n - length (flatten_fam (mkFam nm cs)))%nat
                 /\ (length (flatten_fam (mkFam nm cs)) <= n)%nat
     end.
Proof.
  induction cs as [|c r IH]; intros n; cbn [offset_cols fst snd].
  - cbn. rewrite skipn_nil. split; [reflexivity|lia].
  - rewrite flatten_fam_cons', skipn_app, app_length, flatten_col_length.
    destruct (n <? length (col_cells c))%nat eqn:E; cbn [fst snd].
    + rewrite flatten_fam_cons'. split; [|lia]. f_equal.
      * unfold flatten_col. cbn [col_q col_cells]. rewrite skipn_map. reflexivity.
      * replace (n - length (col_cells c))%nat with 0%nat by lia. reflexivity.
    + destruct (IH (n - length (col_cells c))%nat) as [IH1 IH2].
      destruct (offset_cols (n - length (col_cells c)) r) as [o' r']. cbn [fst snd] in *.
      rewrite flatten_fam_cons'. split.
      * rewrite IH1. f_equal. unfold flatten_col at 1. cbn [col_cells map].
        symmetry. apply skipn_all2. rewrite flatten_col_length. lia.
      * destruct o'; lia.
Qed.

Lemma offset_fams_flatten fs : forall n, flatten (offset_fams n fs) = skipn n (flatten fs).
Proof.
  induction fs as [|f r IH]; intros n; cbn [offset_fams].
  - cbn. rewrite skipn_nil. reflexivity.
  - destruct (offset_cols_flatten (fam_name f) (fam_cols f) n) as [H1 H2]. rewrite fam_eta in H1, H2.
    destruct (offset_cols n (fam_cols f)) as [[o'|] cs']; cbn [fst snd] in *;
      rewrite !flatten_cons, skipn_app, H1.
    + rewrite IH. destruct H2 as [-> _]. reflexivity.
    + replace (n - length (flatten_fam f))%nat with 0%nat by lia. reflexivity.
Qed.

(* ------------------------------------------------------------------ *)
(* cells-per-column limit *)
Lemma key_eqb_eq a b : key_eqb a b = true <-> a = b.
Proof.
  destruct a as [a1 a2], b as [b1 b2]. unfold key_eqb. cbn [fst snd].
  rewrite andb_true_iff, !beqb_eq. split; [intros [-> ->]; reflexivity|intros H; inversion H; auto].
Qed.
Lemma key_eqb_refl a : key_eqb a a = true.
Proof. apply key_eqb_eq. reflexivity. Qed.
Lemma key_eqb_neq a b : key_eqb a b = false <-> a <> b.
Proof. rewrite <- key_eqb_eq. destruct (key_eqb a b); split; congruence. Qed.

Lemma key_of_tagc k c : key_of (tagc k c) = k.
Proof. destruct k; reflexivity. Qed.

Definition cntk (k : col_key) (seen : list lcell) : nat :=
  length (filter (fun y => key_eqb k (key_of y)) seen).

Lemma col_limit_block n k cells : forall seen rest,
  col_limit n seen (map (tagc k) cells ++ rest)
  = firstn (n - cntk k seen) (map (tagc k) cells) ++ col_limit n (rev (map (tagc k) cells) ++ seen) rest.
Proof.
  destruct k as [fam q]. induction cells as [|c cells IH]; intros seen rest.
  - cbn [map app rev]. rewrite firstn_nil. reflexivity.
  - cbn [map app col_limit rev]. rewrite IH. rewrite <- (app_assoc (rev _) [_] seen). cbn [app].
    change (filter (same_col (tagc (fam, q) c)) seen) with (filter (fun y => key_eqb (fam, q) (key_of y)) seen).
    fold (cntk (fam, q) seen).
    assert (E : cntk (fam, q) (tagc (fam, q) c :: seen) = S (cntk (fam, q) seen)).
    { unfold cntk. cbn [filter]. rewrite key_of_tagc, key_eqb_refl. reflexivity. }
    rewrite E. destruct (cntk (fam, q) seen <? n)%nat eqn:L.
    + replace (n - cntk (fam, q) seen)%nat with (S (n - S (cntk (fam, q) seen))) by lia. reflexivity.
    + replace (n - cntk (fam, q) seen)%nat with 0%nat by lia.
      replace (n - S (cntk (fam, q) seen))%nat with 0%nat by lia. reflexivity.
Qed.

Lemma cntk_zero k seen : (forall y, In y seen -> key_of y <> k) -> cntk k seen = 0%nat.
Proof.
  intros H. unfold cntk. rewrite filter_none; [reflexivity|]. intros y Hy. apply key_eqb_neq.
  intros E. apply (H y Hy). symmetry. exact E.
Qed.

Lemma col_limit_blocks n bs : forall seen,
  NoDup (map fst bs) -> (forall y, In y seen -> ~ In (key_of y) (map fst bs)) ->
  col_limit n seen (unblocks bs) = unblocks (map (fun b => (fst b, firstn n (snd b))) bs).
Proof.
  induction bs as [|[k cells] bs IH]; intros seen Hnd Hseen; [reflexivity|].
  cbn [map fst snd] in *. rewrite !unblocks_cons. unfold unblock at 1 2. cbn [fst snd].
  inversion Hnd as [|? ? Hk Hnd']; subst.
  rewrite col_limit_block, cntk_zero, Nat.sub_0_r, firstn_map.
  - f_equal. apply IH; [exact Hnd'|]. intros y Hy. apply in_app_iff in Hy. destruct Hy as [Hy|Hy].
    + apply in_rev in Hy. apply in_map_iff in Hy. destruct Hy as (c & <- & _). rewrite key_of_tagc. exact Hk.
    + intros Hin. apply (Hseen y Hy). right. exact Hin.
  - intros y Hy E. apply (Hseen y Hy). left. symmetry. exact E.
Qed.

Lemma percol_flatten n fs : skel_ok fs ->
  flatten (map_cols (fun _ c => mkCol (col_q c) (firstn n (col_cells c))) fs) = col_limit n [] (flatten fs).
Proof.
  intros Hok. rewrite !flatten_blocks.
  rewrite (blocks_map_cols (fun _ _ cs => firstn n cs)).
  symmetry. apply col_limit_blocks; [apply keys_nodup, Hok|intros y []].
Qed.

(* ------------------------------------------------------------------ *)
(* the skeleton of a row (family names and qualifiers, in order) *)
Definition skel (fs : list family) : list (bytes * list bytes) :=
  map (fun f => (fam_name f, map col_q (fam_cols f))) fs.

Lemma skel_names fs : map fam_name fs = map fst (skel fs).
Proof. unfold skel. rewrite map_map. reflexivity. Qed.

Lemma skel_ok_skel fs : skel_ok fs <-> NoDup (map fst (skel fs)) /\ Forall (fun p => NoDup (snd p)) (skel fs).
Proof.
  unfold skel_ok. rewrite skel_names. unfold skel. rewrite Forall_map. cbn [snd]. tauto.
Qed.

Lemma skel_ok_eq fs fs' : skel fs' = skel fs -> skel_ok fs -> skel_ok fs'.
Proof. rewrite !skel_ok_skel. intros ->. tauto. Qed.

Lemma keys_skel fs : keys fs = flat_map (fun p => map (pair (fst p)) (snd p)) (skel fs).
Proof.
  unfold keys, blocks, skel. induction fs as [|f r IH]; cbn [flat_map map]; [reflexivity|].
  rewrite map_app. f_equal; [|exact IH]. unfold fam_blocks. cbn [fst snd]. rewrite !map_map. reflexivity.
Qed.

Lemma keys_eq fs fs' : skel fs' = skel fs -> keys fs' = keys fs.
Proof. rewrite !keys_skel. intros ->. reflexivity. Qed.

Lemma skel_map_cols g fs : (forall n c, col_q (g n c) = col_q c) -> skel (map_cols g fs) = skel fs.
Proof.
  intros Hg. unfold skel, map_cols. rewrite map_map. apply map_ext. intros f. cbn [fam_name fam_cols].
  f_equal. rewrite map_map. apply map_ext. intros c. apply Hg.
Qed.

Lemma limit_cols_quals cs : forall n, map col_q (snd (limit_cols n cs)) = map col_q cs.
Proof.
  induction cs as [|c r IH]; intros n; cbn [limit_cols]; [reflexivity|].
  destruct (n <? length (col_cells c))%nat.
  - specialize (IH 0%nat). destruct (limit_cols 0 r) as [l' r']. cbn [snd map col_q] in *. rewrite IH. reflexivity.
  - specialize (IH (n - length (col_cells c))%nat). destruct (limit_cols _ r) as [l' r'].
    cbn [snd map] in *. rewrite IH. reflexivity.
Qed.

Lemma skel_limit_fams fs : forall n, skel (limit_fams n fs) = skel fs.
Proof.
  induction fs as [|f r IH]; intros n; cbn [limit_fams]; [reflexivity|].
  assert (Q := limit_cols_quals (fam_cols f) n). destruct (limit_cols n (fam_cols f)) as [l' cs'].
  cbn [snd] in Q. unfold skel in *. cbn [map fam_name fam_cols]. rewrite Q, IH. reflexivity.
Qed.

Lemma offset_cols_quals cs : forall n, map col_q (snd (offset_cols n cs)) = map col_q cs.
Proof.
  induction cs as [|c r IH]; intros n; cbn [offset_cols]; [reflexivity|].
  destruct (n <? length (col_cells c))%nat; [reflexivity|].
  specialize (IH (n - length (col_cells c))%nat). destruct (offset_cols _ r) as [o' r'].
  cbn [snd map col_q] in *. rewrite IH. reflexivity.
Qed.

Lemma skel_offset_fams fs : forall n, skel (offset_fams n fs) = skel fs.
Proof.
  induction fs as [|f r IH]; intros n; cbn [offset_fams]; [reflexivity|].
  assert (Q := offset_cols_quals (fam_cols f) n). destruct (offset_cols n (fam_cols f)) as [[o'|] cs'];
    cbn [snd] in Q; unfold skel in *; cbn [map fam_name fam_cols]; rewrite Q, ?IH; reflexivity.
Qed.

(* ---- lookups under the invariant ---- *)
Lemma get_family_in_nodup fs f : NoDup (map fam_name fs) -> In f fs -> get_family fs (fam_name f) = Some f.
Proof.
  induction fs as [|g r IH]; intros Hn Hin; [destruct Hin|]. cbn [get_family].
  inversion Hn as [|? ? Hg Hr]; subst. destruct Hin as [->|Hin].
  - rewrite beqb_refl. reflexivity.
  - destruct (beqb (fam_name g) (fam_name f)) eqn:E; [|apply IH; assumption].
    apply beqb_eq in E. exfalso. apply Hg. rewrite E. apply in_map. exact Hin.
Qed.

Lemma get_column_in_nodup cs c : NoDup (map col_q cs) -> In c cs -> get_column cs (col_q c) = Some c.
Proof.
  induction cs as [|d r IH]; intros Hn Hin; [destruct Hin|]. cbn [get_column].
  inversion Hn as [|? ? Hd Hr]; subst. destruct Hin as [->|Hin].
  - rewrite beqb_refl. reflexivity.
  - destruct (beqb (col_q d) (col_q c)) eqn:E; [|apply IH; assumption].
    apply beqb_eq in E. exfalso. apply Hd. rewrite E. apply in_map. exact Hin.
Qed.

Lemma keys_present fs n q : skel_ok fs -> In (n, q) (keys fs) ->
  exists fm c, get_family fs n = Some fm /\ get_column (fam_cols fm) q = Some c.
Proof.
  intros [Hn Hq] Hin. unfold keys, blocks in Hin. apply in_map_iff in Hin.
  destruct Hin as ([k cs] & E & Hin). cbn in E. subst k. apply in_flat_map in Hin.
  destruct Hin as (f & Hf & Hb). unfold fam_blocks in Hb. apply in_map_iff in Hb.
  destruct Hb as (c & E & Hc). inversion E; subst. exists f.
  rewrite (get_family_in_nodup fs f Hn Hf). rewrite Forall_forall in Hq.
  exists c. split; [reflexivity|]. apply get_column_in_nodup; [apply Hq, Hf|exact Hc].
Qed.

(* all the cells filed under a key, in block order *)
Definition contrib (bs : list block) (k : col_key) : list cell :=
  flat_map (fun b => if key_eqb (fst b) k then snd b else []) bs.

Lemma contrib_none bs k : ~ In k (map fst bs) -> contrib bs k = [].
Proof.
  unfold contrib. induction bs as [|b bs IH]; intros H; cbn [flat_map]; [reflexivity|].
  cbn [map In] in H. rewrite IH by tauto. destruct (key_eqb (fst b) k) eqn:E; [|reflexivity].
  apply key_eqb_eq in E. tauto.
Qed.

Lemma contrib_app a b k : contrib (a ++ b) k = contrib a k ++ contrib b k.
Proof. apply flat_map_app. Qed.
Lemma contrib_cons b bs k : contrib (b :: bs) k = (if key_eqb (fst b) k then snd b else []) ++ contrib bs k.
Proof. reflexivity. Qed.
Lemma blocks_cons f r : blocks (f :: r) = fam_blocks f ++ blocks r.
Proof. reflexivity. Qed.

Lemma col_contrib n cs q : NoDup (map col_q cs) ->
  contrib (map (fun c => ((n, col_q c), col_cells c)) cs) (n, q)
  = match get_column cs q with Some c => col_cells c | None => [] end.
Proof.
  induction cs as [|c cs IHc]; intros Hnd; [reflexivity|]. cbn [map get_column]. rewrite contrib_cons.
  inversion Hnd as [|? ? Hc Hcs]; subst. cbn [fst snd]. unfold key_eqb at 1. cbn [fst snd].
  rewrite beqb_refl. cbn [andb]. destruct (beqb (col_q c) q) eqn:E.
  - apply beqb_eq in E. subst q. rewrite contrib_none; [apply app_nil_r|].
    rewrite map_map. cbn [fst]. intros Hin. apply in_map_iff in Hin. destruct Hin as (c' & E & Hc').
    inversion E as [E']. apply Hc. rewrite <- E'. apply in_map. exact Hc'.
  - cbn [app]. apply IHc. exact Hcs.
Qed.

Lemma cells_of_contrib fs n q : skel_ok fs -> cells_of fs n q = contrib (blocks fs) (n, q).
Proof.
  intros [Hn Hq]. unfold cells_of. induction fs as [|f r IH]; [reflexivity|].
  inversion Hn as [|? ? Hf Hr]; subst. inversion Hq as [|? ? Hqf Hqr]; subst.
  cbn [get_family]. rewrite blocks_cons, contrib_app.
  destruct (beqb (fam_name f) n) eqn:E.
  - apply beqb_eq in E. subst n. rewrite (contrib_none (blocks r)).
    2:{ intros Hin. apply Hf. change (map fst (blocks r)) with (keys r) in Hin. apply keys_in in Hin. exact Hin. }
    rewrite app_nil_r. unfold fam_blocks. symmetry. apply col_contrib. exact Hqf.
  - rewrite (contrib_none (fam_blocks f)).
    2:{ unfold fam_blocks. rewrite map_map. cbn [fst]. intros Hin. apply in_map_iff in Hin.
        destruct Hin as (c & E' & _). inversion E'. subst. rewrite beqb_refl in E. discriminate. }
    cbn [app]. apply IH; assumption.
Qed.

Lemma blocks_cells_of fs : skel_ok fs ->
  blocks fs = map (fun k => (k, cells_of fs (fst k) (snd k))) (keys fs).
Proof.
  intros Hok. unfold keys. rewrite map_map.
  rewrite <- (map_id (blocks fs)) at 1. apply map_ext_in. intros [[n q] cs] Hin. cbn [fst snd].
  rewrite (cells_of_contrib fs n q Hok). f_equal.
  assert (Hnd := keys_nodup fs Hok). unfold keys in Hnd. revert Hin Hnd. generalize (blocks fs).
  intros bs. induction bs as [|b bs IH]; intros Hin Hnd; [destruct Hin|]. cbn [map] in Hnd.
  inversion Hnd as [|? ? Hb Hbs]; subst. rewrite contrib_cons.
  destruct Hin as [->|Hin].
  - cbn [fst snd]. rewrite key_eqb_refl. rewrite contrib_none; [rewrite app_nil_r; reflexivity|exact Hb].
  - destruct (key_eqb (fst b) (n, q)) eqn:E.
    + apply key_eqb_eq in E. exfalso. apply Hb. rewrite E.
      change (n, q) with (fst ((n, q), cs)). apply in_map. exact Hin.
    + cbn [app]. apply IH; assumption.
Qed.

(* ---- interleave's merge ---- *)
Lemma set_family_skel fs f' fm :
  get_family fs (fam_name f') = Some fm -> map col_q (fam_cols f') = map col_q (fam_cols fm) ->
  skel (set_family fs f') = skel fs.
Proof.
  induction fs as [|g r IH]; intros Hg Hq; [discriminate|]. cbn [get_family set_family] in *.
  destruct (beqb (fam_name g) (fam_name f')) eqn:E.
  - injection Hg as <-. apply beqb_eq in E. unfold skel. cbn [map]. rewrite Hq, E. reflexivity.
  - unfold skel in *. cbn [map]. rewrite (IH Hg Hq). reflexivity.
Qed.

Lemma upd_col_skel fs fam q g fm c :
  get_family fs fam = Some fm -> get_column (fam_cols fm) q = Some c -> skel (upd_col fs fam q g) = skel fs.
Proof.
  intros Hf Hc. unfold upd_col. rewrite Hf, Hc. apply (set_family_skel fs _ fm); cbn [fam_name fam_cols]; [exact Hf|].
  rewrite set_column_names. cbn [col_q]. rewrite Hc. reflexivity.
Qed.

Definition merge_step (a : list family) (b : block) : list family :=
  upd_col a (fst (fst b)) (snd (fst b)) (fun cs => cs ++ snd b).

Lemma merge_fold bs : forall a, skel_ok a -> (forall b, In b bs -> In (fst b) (keys a)) ->
  skel (fold_left merge_step bs a) = skel a
  /\ forall n q, cells_of (fold_left merge_step bs a) n q = cells_of a n q ++ contrib bs (n, q).
Proof.
  induction bs as [|[[n0 q0] cs0] bs IH]; intros a Hok Hin; cbn [fold_left].
  - split; [reflexivity|]. intros n q. cbn. rewrite app_nil_r. reflexivity.
  - assert (Hk : In (n0, q0) (keys a)) by (apply (Hin ((n0, q0), cs0)); left; reflexivity).
    destruct (keys_present a n0 q0 Hok Hk) as (fm & c & Hf & Hc).
    assert (Hs : skel (merge_step a ((n0, q0), cs0)) = skel a).
    { unfold merge_step. cbn [fst snd]. eapply upd_col_skel; eassumption. }
    destruct (IH (merge_step a ((n0, q0), cs0))) as [IH1 IH2].
    + eapply skel_ok_eq; eassumption.
    + intros b Hb. rewrite (keys_eq _ _ Hs). apply Hin. right. exact Hb.
    + split; [exact (eq_trans IH1 Hs)|]. intros n q.
      refine (eq_trans (IH2 n q) _). rewrite contrib_cons. cbn [fst snd].
      unfold merge_step at 1. cbn [fst snd]. rewrite cells_of_upd_col. unfold key_eqb. cbn [fst snd].
      rewrite (beqb_sym n n0), (beqb_sym q q0). destruct (beqb n0 n && beqb q0 q) eqn:E.
      * apply andb_true_iff in E. destruct E as [E1 E2]. apply beqb_eq in E1, E2. subst.
        rewrite <- !app_assoc. reflexivity.
      * reflexivity.
Qed.

Lemma fold_left_map {A B C} (f : A -> B -> A) (g : C -> B) l : forall a,
  fold_left f (map g l) a = fold_left (fun a c => f a (g c)) l a.
Proof. induction l as [|x l IH]; intros a; cbn; [reflexivity|]. apply IH. Qed.

Lemma merge_step_keeps a b n : get_family a n <> None -> get_family (merge_step a b) n <> None.
Proof.
  unfold merge_step, upd_col. rewrite get_set_family. cbn [fam_name].
  destruct (beqb (fst (fst b)) n); [discriminate|auto].
Qed.

Lemma merge_fold_keeps bs : forall a n, get_family a n <> None -> get_family (fold_left merge_step bs a) n <> None.
Proof.
  induction bs as [|b bs IH]; intros a n H; cbn [fold_left]; [exact H|]. apply IH, merge_step_keeps, H.
Qed.

Lemma merge_branch_blocks br : forall acc,
  (forall f, In f br -> get_family acc (fam_name f) <> None) ->
  merge_branch acc br = fold_left merge_step (blocks br) acc.
Proof.
  unfold merge_branch. induction br as [|f r IH]; intros acc Hp; [reflexivity|].
  cbn [fold_left]. rewrite blocks_cons, fold_left_app.
  assert (Ef : ensure_family acc (fam_name f) = acc).
  { unfold ensure_family. destruct (get_family acc (fam_name f)) eqn:E; [reflexivity|].
    exfalso. apply (Hp f); [left; reflexivity|exact E]. }
  rewrite Ef. unfold fam_blocks. rewrite fold_left_map. unfold merge_step at 2. cbn [fst snd].
  change (fun (a : list family) (c : column) =>
            upd_col a (fam_name f) (col_q c) (fun cs => cs ++ col_cells c))
    with (fun (a : list family) (c : column) => merge_step a ((fam_name f, col_q c), col_cells c)).
  rewrite <- (fold_left_map merge_step (fun c => ((fam_name f, col_q c), col_cells c))).
  apply IH. intros g Hg. apply merge_fold_keeps. apply Hp. right. exact Hg.
Qed.

(* the first branch lands in an empty accumulator and is copied *)
Lemma get_family_app_notin acc l n : ~ In n (map fam_name acc) -> get_family (acc ++ l) n = get_family l n.
Proof.
  induction acc as [|g r IH]; intros H; [reflexivity|]. cbn [app get_family map In] in *.
  destruct (beqb (fam_name g) n) eqn:E; [apply beqb_eq in E; tauto|]. apply IH. tauto.
Qed.

Lemma set_family_app_notin acc l f : ~ In (fam_name f) (map fam_name acc) ->
  set_family (acc ++ l) f = acc ++ set_family l f.
Proof.
  induction acc as [|g r IH]; intros H; [reflexivity|]. cbn [app set_family map In] in *.
  destruct (beqb (fam_name g) (fam_name f)) eqn:E; [apply beqb_eq in E; tauto|]. rewrite IH by tauto. reflexivity.
Qed.

Lemma set_column_notin cs c : get_column cs (col_q c) = None -> set_column cs c = cs ++ [c].
Proof.
  induction cs as [|d r IH]; intros H; [reflexivity|]. cbn [get_column set_column app] in *.
  destruct (beqb (col_q d) (col_q c)); [discriminate|]. rewrite IH by exact H. reflexivity.
Qed.

Lemma col_eta c : mkCol (col_q c) (col_cells c) = c.
Proof. destruct c; reflexivity. Qed.

Lemma merge_fresh_cols n cols : forall done acc,
  ~ In n (map fam_name acc) -> NoDup (map col_q done ++ map col_q cols) ->
  fold_left (fun a' c => upd_col a' n (col_q c) (fun cs => cs ++ col_cells c)) cols (acc ++ [mkFam n done])
  = acc ++ [mkFam n (done ++ cols)].
Proof.
  induction cols as [|c cols IH]; intros done acc Hn Hnd; cbn [fold_left].
  - rewrite app_nil_r. reflexivity.
  - assert (Hq : get_column done (col_q c) = None).
    { apply get_column_none. intros Hin. apply NoDup_app_inv in Hnd. destruct Hnd as (_ & _ & Hd).
      apply (Hd (col_q c) Hin). left. reflexivity. }
    assert (E : upd_col (acc ++ [mkFam n done]) n (col_q c) (fun cs => cs ++ col_cells c)
                = acc ++ [mkFam n (done ++ [c])]).
    { unfold upd_col. rewrite (get_family_app_notin acc _ n Hn). cbn [get_family fam_name].
      rewrite beqb_refl. cbn [fam_cols]. rewrite Hq. cbn [col_cells app].
      rewrite set_column_notin by (cbn [col_q]; exact Hq). rewrite col_eta.
      rewrite set_family_app_notin by (cbn [fam_name]; exact Hn). cbn [set_family fam_name].
      rewrite beqb_refl. reflexivity. }
    rewrite E, IH; [rewrite <- app_assoc; reflexivity|exact Hn|].
    rewrite map_app, <- app_assoc. exact Hnd.
Qed.

Lemma merge_branch_fresh br : forall acc,
  NoDup (map fam_name acc ++ map fam_name br) -> Forall (fun f => NoDup (map col_q (fam_cols f))) br ->
  merge_branch acc br = acc ++ br.
Proof.
  unfold merge_branch. induction br as [|f r IH]; intros acc Hnd Hq; cbn [fold_left].
  - rewrite app_nil_r. reflexivity.
  - inversion Hq as [|? ? Hqf Hqr]; subst.
    assert (Hn : ~ In (fam_name f) (map fam_name acc)).
    { intros Hin. apply NoDup_app_inv in Hnd. destruct Hnd as (_ & _ & Hd). apply (Hd _ Hin). left. reflexivity. }
    assert (Ef : ensure_family acc (fam_name f) = acc ++ [mkFam (fam_name f) []]).
    { unfold ensure_family. destruct (get_family acc (fam_name f)) eqn:E; [|reflexivity].
      exfalso. apply get_family_some in E. destruct E as [E Hin]. apply Hn. rewrite <- E. apply in_map. exact Hin. }
    rewrite Ef, (merge_fresh_cols (fam_name f) (fam_cols f) [] acc Hn Hqf). cbn [app]. rewrite fam_eta.
    rewrite IH; [rewrite <- app_assoc; reflexivity| |exact Hqr].
    rewrite map_app, <- app_assoc. exact Hnd.
Qed.

Lemma merge_branch_nil br : skel_ok br -> merge_branch [] br = br.
Proof. intros [Hn Hq]. apply (merge_branch_fresh br []); assumption. Qed.

Lemma merge_same acc br : skel_ok acc -> skel br = skel acc ->
  skel (merge_branch acc br) = skel acc
  /\ forall n q, cells_of (merge_branch acc br) n q = cells_of acc n q ++ cells_of br n q.
Proof.
  intros Hok Hs. assert (Hokb : skel_ok br) by (eapply skel_ok_eq; eassumption).
  rewrite merge_branch_blocks.
  - destruct (merge_fold (blocks br) acc Hok) as [H1 H2].
    + intros b Hb. rewrite <- (keys_eq _ _ Hs). unfold keys. apply in_map. exact Hb.
    + split; [exact H1|]. intros n q. rewrite H2, (cells_of_contrib br n q Hokb). reflexivity.
  - intros f Hf Hn. apply get_family_none in Hn. apply Hn.
    rewrite skel_names, <- Hs, <- skel_names. apply in_map. exact Hf.
Qed.

Lemma merge_all brs : forall acc, skel_ok acc -> Forall (fun br => skel br = skel acc) brs ->
  skel (fold_left merge_branch brs acc) = skel acc
  /\ forall n q, cells_of (fold_left merge_branch brs acc) n q
                 = cells_of acc n q ++ flat_map (fun br => cells_of br n q) brs.
Proof.
  induction brs as [|br brs IH]; intros acc Hok Hall; cbn [fold_left flat_map].
  - split; [reflexivity|]. intros. rewrite app_nil_r. reflexivity.
  - inversion Hall as [|? ? Hbr Hbrs]; subst. destruct (merge_same acc br Hok Hbr) as [M1 M2].
    destruct (IH (merge_branch acc br)) as [I1 I2].
    + eapply skel_ok_eq; eassumption.
    + eapply Forall_impl; [|exact Hbrs]. intros b Hb. cbn in Hb. congruence.
    + split; [congruence|]. intros n q. rewrite I2, M2, <- app_assoc. reflexivity.
Qed.

(* ---- the two sorts agree ---- *)
Fixpoint ins_c (x : cell) (l : list cell) : list cell :=
  match l with
  | [] => [x]
  | y :: r => if c_ts x <? c_ts y then y :: ins_c x r else x :: l
  end.

Lemma insert_ins_comm c x l : insert_desc c (ins_c x l) = ins_c x (insert_desc c l).
Proof.
  induction l as [|y r IH]; cbn [ins_c insert_desc]; [reflexivity|].
  destruct (c_ts x <? c_ts y) eqn:E1; destruct (c_ts y <? c_ts c) eqn:E2;
    destruct (c_ts x <? c_ts c) eqn:E3; cbn [ins_c insert_desc]; rewrite ?E1, ?E2, ?E3;
    try rewrite IH; try reflexivity; exfalso; lia.
Qed.

Lemma sort_desc_fold l : forall acc x,
  fold_left (fun a c => insert_desc c a) l (ins_c x acc) = ins_c x (fold_left (fun a c => insert_desc c a) l acc).
Proof.
  induction l as [|c l IH]; intros acc x; cbn [fold_left]; [reflexivity|].
  rewrite insert_ins_comm. apply IH.
Qed.

Lemma sort_desc_cons x l : sort_desc (x :: l) = ins_c x (sort_desc l).
Proof. unfold sort_desc. cbn [fold_left insert_desc]. apply (sort_desc_fold l [] x). Qed.

Lemma ins_ts_tagc k c l : ins_ts (tagc k c) (map (tagc k) l) = map (tagc k) (ins_c c l).
Proof.
  induction l as [|y r IH]; cbn [map ins_ts ins_c]; [reflexivity|].
  change (c_ts (lc_cell (tagc k c))) with (c_ts c). change (c_ts (lc_cell (tagc k y))) with (c_ts y).
  destruct (c_ts c <? c_ts y); cbn [map]; [rewrite IH|]; reflexivity.
Qed.

Lemma sort_ts_tagc k cs : sort_ts (map (tagc k) cs) = map (tagc k) (sort_desc cs).
Proof.
  induction cs as [|c cs IH]; [reflexivity|]. rewrite sort_desc_cons. cbn [map]. unfold sort_ts in *.
  cbn [fold_right]. rewrite IH. apply ins_ts_tagc.
Qed.

Lemma ins_ts_in x y l : In y (ins_ts x l) <-> y = x \/ In y l.
Proof.
  induction l as [|z r IH]; cbn [ins_ts In]; [intuition congruence|].
  destruct (c_ts (lc_cell x) <? c_ts (lc_cell z)); cbn [In]; [rewrite IH|]; intuition congruence.
Qed.

Lemma sort_ts_in y l : In y (sort_ts l) <-> In y l.
Proof.
  unfold sort_ts. induction l as [|x l IH]; cbn [fold_right In]; [tauto|]. rewrite ins_ts_in, IH. intuition congruence.
Qed.

(* ---- columns_of on a block list ---- *)
Definition nonempty_block (b : block) : bool := match snd b with [] => false | _ => true end.

Lemma columns_of_in l k : In k (columns_of l) -> In k (map key_of l).
Proof.
  revert k. induction l as [|x l IH]; intros k; cbn [columns_of map In]; [tauto|].
  intros [H|H]; [auto|]. apply filter_In in H. right. apply IH. tauto.
Qed.

Lemma filter_idem {A} (p : A -> bool) l : filter p (filter p l) = filter p l.
Proof.
  induction l as [|x l IH]; cbn; [reflexivity|]. destruct (p x) eqn:E; cbn; rewrite ?E, IH; reflexivity.
Qed.

Lemma columns_of_block k cells rest : ~ In k (map key_of rest) -> cells <> [] ->
  columns_of (map (tagc k) cells ++ rest) = k :: columns_of rest.
Proof.
  intros Hk Hne.
  assert (Hf : filter (fun k' => negb (key_eqb k k')) (columns_of rest) = columns_of rest).
  { apply filter_all. intros k' Hk'. apply negb_true_iff, key_eqb_neq. intros <-.
    apply Hk, columns_of_in, Hk'. }
  assert (Hgen : forall cs, filter (fun k' => negb (key_eqb k k')) (columns_of (map (tagc k) cs ++ rest))
                            = columns_of rest).
  { induction cs as [|c cs IHc]; cbn [map app columns_of]; [exact Hf|].
    rewrite key_of_tagc. cbn [filter]. rewrite key_eqb_refl. cbn [negb]. rewrite filter_idem. exact IHc. }
  destruct cells as [|c cs]; [congruence|]. cbn [map app columns_of]. rewrite key_of_tagc, Hgen. reflexivity.
Qed.

Lemma unblocks_keys bs k : In k (map key_of (unblocks bs)) <-> exists b, In b bs /\ fst b = k /\ snd b <> [].
Proof.
  unfold unblocks. rewrite in_map_iff. split.
  - intros (x & <- & Hx). apply in_flat_map in Hx. destruct Hx as (b & Hb & Hx). unfold unblock in Hx.
    apply in_map_iff in Hx. destruct Hx as (c & <- & Hc). exists b. rewrite key_of_tagc.
    split; [exact Hb|]. split; [reflexivity|]. intros E. rewrite E in Hc. destruct Hc.
  - intros (b & Hb & <- & Hne). destruct (snd b) as [|c cs] eqn:E; [congruence|].
    exists (tagc (fst b) c). split; [apply key_of_tagc|]. apply in_flat_map. exists b. split; [exact Hb|].
    unfold unblock. rewrite E. left. reflexivity.
Qed.

Lemma columns_of_unblocks bs : NoDup (map fst bs) ->
  columns_of (unblocks bs) = map fst (filter nonempty_block bs).
Proof.
  induction bs as [|[k cells] bs IH]; intros Hnd; [reflexivity|]. cbn [map fst] in Hnd.
  inversion Hnd as [|? ? Hk Hnd']; subst. rewrite unblocks_cons. unfold unblock. cbn [fst snd filter].
  unfold nonempty_block at 1. cbn [snd]. destruct cells as [|c cs].
  - cbn [map app]. apply IH. exact Hnd'.
  - cbn [fst]. change (map fst (((k, c :: cs) : block) :: filter nonempty_block bs))
      with (k :: map fst (filter nonempty_block bs)).
    rewrite <- (IH Hnd'). apply (columns_of_block k (c :: cs)); [|discriminate].
    intros Hin. apply unblocks_keys in Hin. destruct Hin as (b & Hb & E & _). apply Hk. rewrite <- E.
    apply in_map. exact Hb.
Qed.

Lemma filter_key_unblocks bs k :
  filter (fun x => key_eqb k (key_of x)) (unblocks bs) = map (tagc k) (contrib bs k).
Proof.
  induction bs as [|[k' cells] bs IH]; [reflexivity|]. rewrite unblocks_cons, filter_app, contrib_cons, map_app, IH.
  f_equal. unfold unblock. cbn [fst snd]. destruct (key_eqb k' k) eqn:E.
  - apply key_eqb_eq in E. subst k'. apply filter_all. intros x Hx. apply in_map_iff in Hx.
    destruct Hx as (c & <- & _). rewrite key_of_tagc. apply key_eqb_refl.
  - cbn [map]. apply filter_none. intros x Hx. apply in_map_iff in Hx. destruct Hx as (c & <- & _).
    rewrite key_of_tagc. apply key_eqb_neq. apply key_eqb_neq in E. congruence.
Qed.

Lemma filter_flat_map {A B} (p : B -> bool) (g : A -> list B) l :
  filter p (flat_map g l) = flat_map (fun x => filter p (g x)) l.
Proof. induction l as [|x l IH]; cbn; [reflexivity|]. rewrite filter_app, IH. reflexivity. Qed.

Lemma map_flat_map {A B C} (h : B -> C) (g : A -> list B) l :
  map h (flat_map g l) = flat_map (fun x => map h (g x)) l.
Proof. induction l as [|x l IH]; cbn; [reflexivity|]. rewrite map_app, IH. reflexivity. Qed.

Lemma flat_map_ext_in {A B} (g h : A -> list B) l : (forall x, In x l -> g x = h x) -> flat_map g l = flat_map h l.
Proof.
  induction l as [|x l IH]; intros H; cbn; [reflexivity|]. rewrite H by (left; reflexivity).
  rewrite IH; [reflexivity|]. intros y Hy. apply H. right. exact Hy.
Qed.

Lemma flat_map_nil {A B} (l : list A) : flat_map (fun _ => @nil B) l = [].
Proof. induction l; cbn; auto. Qed.

Lemma nodup_fst_inj {A B} (bs : list (A * B)) b b' :
  NoDup (map fst bs) -> In b bs -> In b' bs -> fst b = fst b' -> b = b'.
Proof.
  induction bs as [|x bs IH]; intros Hnd Hb Hb' E; [destruct Hb|]. cbn [map] in Hnd.
  inversion Hnd as [|? ? Hx Hr]; subst. destruct Hb as [->|Hb], Hb' as [->|Hb'].
  - reflexivity.
  - exfalso. apply Hx. rewrite E. apply in_map. exact Hb'.
  - exfalso. apply Hx. rewrite <- E. apply in_map. exact Hb.
  - apply IH; assumption.
Qed.

(* the emulator's merge is the regrouping of the specification *)
Lemma merge_branches_flatten fs brs : skel_ok fs -> Forall (fun br => skel br = skel fs) brs ->
  (forall br, In br brs -> forall x, In x (flatten br) -> In (key_of x) (map key_of (flatten fs))) ->
  flatten (merge_branches brs) = regroup (flatten fs) (flat_map flatten brs)
  /\ (brs <> [] -> skel (merge_branches brs) = skel fs).
Proof.
  intros Hok Hsk Hkeys. unfold merge_branches. destruct brs as [|br1 rest].
  - split; [|congruence]. cbn. unfold regroup. cbn [filter]. symmetry. apply flat_map_nil.
  - inversion Hsk as [|? ? Hs1 Hsr]; subst. cbn [fold_left].
    assert (Hok1 : skel_ok br1) by (eapply skel_ok_eq; eassumption).
    rewrite (merge_branch_nil br1 Hok1).
    destruct (merge_all rest br1 Hok1) as [M1 M2].
    { eapply Forall_impl; [|exact Hsr]. intros b Hb. cbn in Hb. congruence. }
    set (r := fold_left merge_branch rest br1) in *.
    assert (Hsr' : skel r = skel fs) by congruence.
    assert (Hokr : skel_ok r) by (eapply skel_ok_eq; eassumption).
    split; [|intros _; rewrite skel_map_cols by reflexivity; exact Hsr'].
    set (G := fun k : col_key =>
                map (tagc k) (sort_desc (flat_map (fun br => cells_of br (fst k) (snd k)) (br1 :: rest)))).
    (* the emulator's side *)
    assert (L : flatten (map_cols (fun _ c => mkCol (col_q c) (sort_desc (col_cells c))) r)
                = flat_map G (keys fs)).
    { rewrite flatten_blocks, (blocks_map_cols (fun _ _ cs => sort_desc cs)), (blocks_cells_of r Hokr).
      rewrite (keys_eq _ _ Hsr'), map_map. cbn [fst snd]. unfold unblocks. rewrite flat_map_concat_map, map_map.
      rewrite <- flat_map_concat_map. apply flat_map_ext_in. intros k _. unfold unblock, G. cbn [fst snd].
      rewrite M2. reflexivity. }
    (* the specification's side *)
    assert (R : regroup (flatten fs) (flat_map flatten (br1 :: rest)) = flat_map G (columns_of (flatten fs))).
    { unfold regroup. apply flat_map_ext_in. intros k _. unfold G.
      rewrite filter_flat_map, <- sort_ts_tagc. f_equal. rewrite map_flat_map. apply flat_map_ext_in.
      intros br Hbr. rewrite flatten_blocks, filter_key_unblocks. destruct k as [n q]. cbn [fst snd].
      rewrite cells_of_contrib; [reflexivity|]. eapply skel_ok_eq; [|exact Hok].
      rewrite Forall_forall in Hsk. apply Hsk. exact Hbr. }
    rewrite L, R. rewrite flatten_blocks, columns_of_unblocks by (apply keys_nodup, Hok).
    unfold keys. assert (Hnd := keys_nodup fs Hok). unfold keys in Hnd.
    assert (HG : forall b, In b (blocks fs) -> snd b = [] -> G (fst b) = []).
    { intros b Hb Hnil. unfold G.
      assert (E : flat_map (fun br => cells_of br (fst (fst b)) (snd (fst b))) (br1 :: rest) = []).
      { rewrite <- (flat_map_nil (br1 :: rest)). apply flat_map_ext_in. intros br Hbr.
        destruct (cells_of br (fst (fst b)) (snd (fst b))) as [|c cs] eqn:Ec; [reflexivity|]. exfalso.
        assert (Hokb : skel_ok br).
        { eapply skel_ok_eq; [|exact Hok]. rewrite Forall_forall in Hsk. apply Hsk. exact Hbr. }
        assert (Hx : In (tagc (fst b) c) (flatten br)).
        { assert (F := filter_key_unblocks (blocks br) (fst b)). rewrite <- flatten_blocks in F.
          destruct (fst b) as [n q] eqn:Ek. cbn [fst snd] in Ec. rewrite <- (cells_of_contrib br n q Hokb), Ec in F.
          assert (Hin : In (tagc (n, q) c) (filter (fun x => key_eqb (n, q) (key_of x)) (flatten br))).
          { rewrite F. left. reflexivity. }
          apply filter_In in Hin. tauto. }
        apply (Hkeys br Hbr) in Hx. rewrite key_of_tagc, flatten_blocks in Hx. apply unblocks_keys in Hx.
        destruct Hx as (b' & Hb' & Ek & Hne). apply Hne.
        rewrite (nodup_fst_inj _ b' b Hnd Hb' Hb Ek). exact Hnil. }
      rewrite E. reflexivity. }
    clear -HG. induction (blocks fs) as [|b bs IH]; [reflexivity|]. cbn [map flat_map filter].
    rewrite IH by (intros b' Hb'; apply HG; right; exact Hb').
    unfold nonempty_block at 2. destruct (snd b) eqn:E.
    + rewrite (HG b (or_introl eq_refl) E). reflexivity.
    + reflexivity.
Qed.

Lemma merge_branches_skel fs brs : skel_ok fs -> Forall (fun br => skel br = skel fs) brs -> brs <> [] ->
  skel (merge_branches brs) = skel fs.
Proof.
  intros Hok Hsk Hne. unfold merge_branches. destruct brs as [|br1 rest]; [congruence|].
  inversion Hsk as [|? ? Hs1 Hsr]; subst. cbn [fold_left].
  assert (Hok1 : skel_ok br1) by (eapply skel_ok_eq; eassumption).
  rewrite (merge_branch_nil br1 Hok1). destruct (merge_all rest br1 Hok1) as [M1 _].
  { eapply Forall_impl; [|exact Hsr]. intros b Hb. cbn in Hb. congruence. }
  rewrite skel_map_cols by reflexivity. congruence.
Qed.

(* ------------------------------------------------------------------ *)
(* specification side: a filter's output lies in the columns of its input *)
Lemma col_limit_in n l : forall seen x, In x (col_limit n seen l) -> In x l.
Proof.
  induction l as [|y l IH]; intros seen x; cbn [col_limit]; [tauto|]. rewrite in_app_iff.
  intros [H|H]; [|right; eapply IH; exact H].
  destruct (length (filter (same_col y) seen) <? n)%nat; [destruct H as [->|[]]; left; reflexivity|destruct H].
Qed.

Lemma firstn_in {A} n (l : list A) x : In x (firstn n l) -> In x l.
Proof. intros H. rewrite <- (firstn_skipn n l). apply in_app_iff. auto. Qed.
Lemma skipn_in {A} n (l : list A) x : In x (skipn n l) -> In x l.
Proof. intros H. rewrite <- (firstn_skipn n l). apply in_app_iff. auto. Qed.

Lemma fsem_keys f : forall key l coins x,
  In x (fst (fsem key f l coins)) -> In (key_of x) (map key_of l).
Proof.
  induction f as [f IH] using rfilter_ind'. intros key l coins x.
  assert (Hsub : forall l', (forall y, In y l' -> In y l) -> In x l' -> In (key_of x) (map key_of l)).
  { intros l' Hl' Hx. apply in_map, Hl', Hx. }
  destruct f as [b|b|fl|fl|p t e|r|r|r|r|fm s e|s e|s e|n|n|n| |lb|v]; cbn [subs] in IH; cbn [fsem fst].
  - apply Hsub. auto.
  - intros [].
  - (* chain *) revert l coins x Hsub. induction IH as [|g fl Hg _ IHfl]; intros l coins x _.
    + apply in_map.
    + destruct (fsem key g l coins) as [l' c'] eqn:E. destruct l' as [|y l'']; [intros []|].
      intros Hx. apply IHfl in Hx; [|intros; apply in_map; auto]. apply in_map_iff in Hx.
      destruct Hx as (z & <- & Hz). apply (Hg key l coins). rewrite E. exact Hz.
  - (* interleave *)
    match goal with |- context [let '(outs, c') := ?G fl coins in _] => destruct (G fl coins) as [outs c'] end.
    cbn [fst]. unfold regroup. intros Hx. apply in_flat_map in Hx. destruct Hx as (k & Hk & Hx).
    apply sort_ts_in, filter_In in Hx. destruct Hx as [_ Hx]. apply key_eqb_eq in Hx. subst k.
    apply columns_of_in, Hk.
  - (* condition *) inversion IH as [|? ? Hp Hte]; subst. apply Forall_app in Hte. destruct Hte as [Ht He].
    destruct (fsem key p l coins) as [o c']. destruct o as [|y o].
    + destruct e as [g|]; [|intros []]. cbn in He. inversion He as [|? ? Hg _]; subst. apply Hg.
    + destruct t as [g|]; [|intros []]. cbn in Ht. inversion Ht as [|? ? Hg _]; subst. apply Hg.
  - destruct (matches r key); [apply Hsub; auto|intros []].
  - apply Hsub. intros y Hy. apply filter_In in Hy. tauto.
  - apply Hsub. intros y Hy. apply filter_In in Hy. tauto.
  - apply Hsub. intros y Hy. apply filter_In in Hy. tauto.
  - apply Hsub. intros y Hy. apply filter_In in Hy. tauto.
  - apply Hsub. intros y Hy. apply filter_In in Hy. tauto.
  - apply Hsub. intros y Hy. apply filter_In in Hy. tauto.
  - apply Hsub. intros y. apply firstn_in.
  - apply Hsub. intros y. apply skipn_in.
  - apply Hsub. intros y. apply col_limit_in.
  - intros Hx. apply in_map_iff in Hx. destruct Hx as (y & <- & Hy).
    change (key_of (strip_value y)) with (key_of y). apply in_map, Hy.
  - intros Hx. apply in_map_iff in Hx. destruct Hx as (y & <- & Hy).
    change (key_of (apply_label lb y)) with (key_of y). apply in_map, Hy.
  - destruct coins as [|c cs]; [intros []|]. destruct c; [apply Hsub; auto|intros []].
Qed.

Lemma fsem_nil key f coins : fst (fsem key f [] coins) = [].
Proof.
  assert (H := fsem_keys f key [] coins). destruct (fst (fsem key f [] coins)) as [|x l]; [reflexivity|].
  exfalso. apply (H x). left. reflexivity.
Qed.

(* ------------------------------------------------------------------ *)
(* skeleton preservation: a row that passes a filter keeps its families and columns (possibly
   without cells), so the distinctness invariant is available at every stage *)
Definition igo_code (key : bytes) (fs : list family) :=
  fix go (l : list rfilter) (coins : list bool) : list (list family) * list bool :=
    match l with
    | [] => ([], coins)
    | x :: r => let '(m, fs', c') := feval key x fs coins in
                let '(rest, c'') := go r c' in
                ((if m then [fs'] else []) ++ rest, c'')
    end.

Lemma feval_interleave key l fs coins :
  feval key (FInterleave l) fs coins =
  let '(brs, coins') := igo_code key fs l coins in
  let merged := merge_branches brs in ((0 <? count_cells merged)%nat, merged, coins').
Proof. reflexivity. Qed.

Lemma feval_chain_cons key x r fs coins :
  feval key (FChain (x :: r)) fs coins =
  let '(m, fs', c') := feval key x fs coins in
  if m then feval key (FChain r) fs' c' else (false, fs', c').
Proof. reflexivity. Qed.

Lemma feval_skel f : forall key fs coins, skel_ok fs ->
  fst (fst (feval key f fs coins)) = true -> skel (snd (fst (feval key f fs coins))) = skel fs.
Proof.
  induction f as [f IH] using rfilter_ind'. intros key fs coins Hok.
  destruct f as [b|b|l|l|p t e|r|r|r|r|fm s e|s e|s e|n|n|n| |lb|v]; cbn [subs] in IH;
    try (cbn [feval fst snd]; intros _; unfold per_cell; apply skel_map_cols; reflexivity);
    try (cbn [feval fst snd]; reflexivity).
  - (* chain *) revert fs coins Hok. induction IH as [|x l Hx _ IHl]; intros fs coins Hok; [reflexivity|].
    rewrite feval_chain_cons. specialize (Hx key fs coins Hok).
    destruct (feval key x fs coins) as [[m fs'] c']. cbn [fst snd] in Hx. destruct m; [|discriminate].
    intros Hm. rewrite <- (Hx eq_refl). apply IHl; [|exact Hm]. eapply skel_ok_eq; [apply Hx; reflexivity|exact Hok].
  - (* interleave *) rewrite feval_interleave.
    assert (Hgo : forall l', Forall (fun g => forall key fs coins, skel_ok fs ->
                     fst (fst (feval key g fs coins)) = true -> skel (snd (fst (feval key g fs coins))) = skel fs) l' ->
                   forall coins, Forall (fun br => skel br = skel fs) (fst (igo_code key fs l' coins))).
    { intros l' Hl'. induction Hl' as [|x l' Hx _ IHl]; intros cs; cbn [igo_code fst]; [constructor|].
      specialize (Hx key fs cs Hok). destruct (feval key x fs cs) as [[m fs'] c']. cbn [fst snd] in Hx.
      specialize (IHl c'). destruct (igo_code key fs l' c') as [rest c'']. cbn [fst] in *.
      destruct m; cbn [app]; [constructor; auto|assumption]. }
    specialize (Hgo l IH coins). destruct (igo_code key fs l coins) as [brs coins']. cbn [fst snd] in *.
    intros Hm. apply merge_branches_skel; [exact Hok|exact Hgo|]. intros ->. cbn in Hm. discriminate.
  - (* condition *) cbn [feval]. inversion IH as [|? ? Hp Hte]; subst. apply Forall_app in Hte. destruct Hte as [Ht He].
    destruct (feval key p fs coins) as [[m pfs] c']. destruct (m && negb (is_empty_fams pfs)).
    + destruct t as [g|]; [|discriminate]. cbn in Ht. inversion Ht as [|? ? Hg _]; subst. apply Hg, Hok.
    + destruct e as [g|]; [|discriminate]. cbn in He. inversion He as [|? ? Hg _]; subst. apply Hg, Hok.
  - (* row key *) cbn [feval]. destruct (opt_true (rx_match r key)); reflexivity.
  - (* row limit *) cbn [feval fst snd]. intros _. apply skel_limit_fams.
  - (* row offset *) cbn [feval fst snd]. intros _. apply skel_offset_fams.
  - (* sample *) cbn [feval]. destruct coins; reflexivity.
Qed.

(* ------------------------------------------------------------------ *)
(* coins *)
Fixpoint uses_coins (f : rfilter) : bool :=
  match f with
  | FSample _ => true
  | FChain l | FInterleave l =>
      (fix any (l : list rfilter) := match l with [] => false | x :: r => uses_coins x || any r end) l
  | FCondition p t e =>
      uses_coins p || match t with Some x => uses_coins x | None => false end
                   || match e with Some x => uses_coins x | None => false end
  | _ => false
  end.

(* the match flag is exact: "true" only together with at least one cell *)
Fixpoint exact_flag (f : rfilter) : bool :=
  match f with
  | FPass _ | FSample _ | FCellsPerRowLimit _ | FCellsPerRowOffset _ | FCellsPerColLimit _ => false
  | FChain l =>
      (fix lastx (l : list rfilter) :=
         match l with [] => false | x :: r => match r with [] => exact_flag x | _ => lastx r end end) l
  | FCondition p t e =>
      match t with Some x => exact_flag x | None => true end
      && match e with Some x => exact_flag x | None => true end
  | _ => true
  end.

(* in a chain, a stage that may report "match" without a cell is not followed by a sample filter *)
Fixpoint tails_ok (l : list rfilter) : bool :=
  match l with
  | [] => true
  | x :: r => (exact_flag x || negb (existsb uses_coins r)) && tails_ok r
  end.

Fixpoint coin_safe (f : rfilter) : bool :=
  match f with
  | FChain l =>
      (fix all (l : list rfilter) := match l with [] => true | x :: r => coin_safe x && all r end) l && tails_ok l
  | FInterleave l =>
      (fix all (l : list rfilter) := match l with [] => true | x :: r => coin_safe x && all r end) l
  | FCondition p t e =>
      coin_safe p && match t with Some x => coin_safe x | None => true end
                  && match e with Some x => coin_safe x | None => true end
  | _ => true
  end.

Lemma fix_any_existsb (g : rfilter -> bool) l :
  (fix any (l : list rfilter) := match l with [] => false | x :: r => g x || any r end) l = existsb g l.
Proof. induction l as [|x r IH]; cbn; [reflexivity|]. rewrite IH. reflexivity. Qed.

Lemma uses_coins_chain l : uses_coins (FChain l) = existsb uses_coins l.
Proof. cbn [uses_coins]. apply fix_any_existsb. Qed.
Lemma uses_coins_interleave l : uses_coins (FInterleave l) = existsb uses_coins l.
Proof. cbn [uses_coins]. apply fix_any_existsb. Qed.
Lemma coin_safe_chain l : coin_safe (FChain l) = forallb coin_safe l && tails_ok l.
Proof. cbn [coin_safe]. rewrite fix_all_forallb. reflexivity. Qed.
Lemma coin_safe_interleave l : coin_safe (FInterleave l) = forallb coin_safe l.
Proof. cbn [coin_safe]. apply fix_all_forallb. Qed.

(* a filter without a sample filter does not touch the coins *)
Lemma feval_no_coins f : forall key fs coins, uses_coins f = false -> snd (feval key f fs coins) = coins.
Proof.
  induction f as [f IH] using rfilter_ind'. intros key fs coins.
  destruct f as [b|b|l|l|p t e|r|r|r|r|fm s e|s e|s e|n|n|n| |lb|v]; cbn [subs] in IH;
    try (intros _; cbn [feval snd]; reflexivity).
  - (* chain *) rewrite uses_coins_chain. revert fs coins. induction IH as [|x l Hx _ IHl]; intros fs coins Hu; [reflexivity|].
    cbn [existsb] in Hu. apply orb_false_iff in Hu. destruct Hu as [Hu1 Hu2].
    rewrite feval_chain_cons. specialize (Hx key fs coins Hu1). destruct (feval key x fs coins) as [[m fs'] c'].
    cbn [snd] in Hx. subst c'. destruct m; [apply IHl, Hu2|reflexivity].
  - (* interleave *) rewrite uses_coins_interleave, feval_interleave. intros Hu.
    assert (Hgo : forall cs, snd (igo_code key fs l cs) = cs).
    { revert Hu. induction IH as [|x l Hx _ IHl]; intros Hu cs; [reflexivity|].
      cbn [existsb] in Hu. apply orb_false_iff in Hu. destruct Hu as [Hu1 Hu2]. cbn [igo_code].
      specialize (Hx key fs cs Hu1). destruct (feval key x fs cs) as [[m fs'] c']. cbn [snd] in Hx. subst c'.
      specialize (IHl Hu2 cs). destruct (igo_code key fs l cs) as [rest c'']. exact IHl. }
    specialize (Hgo coins). destruct (igo_code key fs l coins) as [brs c']. exact Hgo.
  - (* condition *) cbn [uses_coins feval]. intros Hu. apply orb_false_iff in Hu. destruct Hu as [Hu He].
    apply orb_false_iff in Hu. destruct Hu as [Hp Ht].
    inversion IH as [|? ? Hp' Hte]; subst. apply Forall_app in Hte. destruct Hte as [Ht' He'].
    specialize (Hp' key fs coins Hp). destruct (feval key p fs coins) as [[m pfs] c']. cbn [snd] in Hp'. subst c'.
    destruct (m && negb (is_empty_fams pfs)).
    + destruct t as [g|]; [|reflexivity]. cbn in Ht'. inversion Ht' as [|? ? Hg _]; subst. apply Hg, Ht.
    + destruct e as [g|]; [|reflexivity]. cbn in He'. inversion He' as [|? ? Hg _]; subst. apply Hg, He.
  - (* row key *) intros _. cbn [feval]. destruct (opt_true (rx_match r key)); reflexivity.
  - (* sample *) discriminate.
Qed.

Lemma feval_exact f : forall key fs coins, exact_flag f = true ->
  fst (fst (feval key f fs coins)) = true -> flatten (snd (fst (feval key f fs coins))) <> [].
Proof.
  assert (Hcount : forall fs', (0 <? count_cells fs')%nat = true -> flatten fs' <> []).
  { intros fs' H. rewrite count_pos_flatten, negb_true_iff in H. apply is_empty_fams_false, H. }
  induction f as [f IH] using rfilter_ind'. intros key fs coins.
  destruct f as [b|b|l|l|p t e|r|r|r|r|fm s e|s e|s e|n|n|n| |lb|v]; cbn [subs] in IH;
    try discriminate; try (intros _; cbn [feval fst snd]; apply Hcount).
  - (* chain *) cbn [exact_flag]. revert fs coins. induction IH as [|x l Hx _ IHl]; intros fs coins He; [discriminate|].
    rewrite feval_chain_cons. specialize (Hx key fs coins).
    destruct (feval key x fs coins) as [[m fs'] c']. cbn [fst snd] in Hx. destruct m; [|discriminate].
    destruct l as [|y l'].
    + intros _. cbn [feval fst snd]. apply Hx; [exact He|reflexivity].
    + apply IHl. exact He.
  - (* interleave *) intros _. rewrite feval_interleave. destruct (igo_code key fs l coins) as [brs c'].
    cbn [fst snd]. apply Hcount.
  - (* condition *) cbn [exact_flag feval]. intros He. apply andb_true_iff in He. destruct He as [Het Hee].
    inversion IH as [|? ? Hp Hte]; subst. apply Forall_app in Hte. destruct Hte as [Ht He].
    destruct (feval key p fs coins) as [[m pfs] c']. destruct (m && negb (is_empty_fams pfs)).
    + destruct t as [g|]; [|discriminate]. cbn in Ht. inversion Ht as [|? ? Hg _]; subst. apply Hg, Het.
    + destruct e as [g|]; [|discriminate]. cbn in He. inversion He as [|? ? Hg _]; subst. apply Hg, Hee.
  - (* row key *) intros _. cbn [feval]. destruct (opt_true (rx_match r key)); cbn [fst snd]; [apply Hcount|discriminate].
Qed.

(* ------------------------------------------------------------------ *)
(* the refinement *)
Definition refines (key : bytes) (f : rfilter) (fs : list family) (coins : list bool) : Prop :=
  snd (feval key f fs coins) = snd (fsem key f (flatten fs) coins)
  /\ (fst (fst (feval key f fs coins)) = true ->
      flatten (snd (fst (feval key f fs coins))) = fst (fsem key f (flatten fs) coins))
  /\ (fst (fst (feval key f fs coins)) = false -> fst (fsem key f (flatten fs) coins) = []).

Definition igo_spec (key : bytes) (l : list lcell) :=
  fix go (fl : list rfilter) (coins : list bool) : list lcell * list bool :=
    match fl with
    | [] => ([], coins)
    | x :: r => let '(o, c1) := fsem key x l coins in
                let '(rest, c2) := go r c1 in (o ++ rest, c2)
    end.

Lemma fsem_interleave key fl l coins :
  fsem key (FInterleave fl) l coins = let '(outs, c') := igo_spec key l fl coins in (regroup l outs, c').
Proof. reflexivity. Qed.

Lemma fsem_chain_cons key x r l coins :
  fsem key (FChain (x :: r)) l coins =
  let '(l', c') := fsem key x l coins in
  match l' with [] => ([], c') | _ => fsem key (FChain r) l' c' end.
Proof. reflexivity. Qed.

Lemma chain_refines key l :
  Forall (fun g => forall fs coins, skel_ok fs -> refines key g fs coins) l -> tails_ok l = true ->
  forall fs coins, skel_ok fs -> refines key (FChain l) fs coins.
Proof.
  induction 1 as [|x r Hx Hr IH]; intros Ht fs coins Hok.
  - unfold refines. cbn. split; [reflexivity|]. split; [reflexivity|discriminate].
  - cbn [tails_ok] in Ht. apply andb_true_iff in Ht. destruct Ht as [Ht1 Ht2].
    specialize (IH Ht2). unfold refines. rewrite feval_chain_cons, fsem_chain_cons.
    destruct (Hx fs coins Hok) as (Hc & Hm1 & Hm0).
    assert (Hsk := feval_skel x key fs coins Hok).
    assert (Hex := feval_exact x key fs coins).
    destruct (feval key x fs coins) as [[m fs'] c']. destruct (fsem key x (flatten fs) coins) as [o sc].
    cbn [fst snd] in *. subst sc. destruct m.
    + specialize (Hm1 eq_refl). specialize (Hsk eq_refl).
      assert (Hok' : skel_ok fs') by (eapply skel_ok_eq; eassumption).
      destruct (IH fs' c' Hok') as (Ic & I1 & I0). destruct o as [|y o'].
      * (* the stage reports a match without a cell: the specification stops here *)
        destruct (exact_flag x); [exfalso; apply Hex; auto|]. cbn [orb] in Ht1. apply negb_true_iff in Ht1.
        cbn [fst snd]. split; [|split].
        -- apply feval_no_coins. rewrite uses_coins_chain. exact Ht1.
        -- intros Hm. rewrite (I1 Hm), Hm1. apply fsem_nil.
        -- reflexivity.
      * rewrite <- Hm1. split; [exact Ic|]. split; [exact I1|exact I0].
    + rewrite (Hm0 eq_refl). cbn [fst snd]. split; [reflexivity|]. split; [discriminate|reflexivity].
Qed.

Lemma interleave_go key fs l : skel_ok fs ->
  Forall (fun g => forall fs coins, skel_ok fs -> refines key g fs coins) l ->
  forall coins,
    snd (igo_code key fs l coins) = snd (igo_spec key (flatten fs) l coins)
    /\ flat_map flatten (fst (igo_code key fs l coins)) = fst (igo_spec key (flatten fs) l coins)
    /\ Forall (fun br => skel br = skel fs) (fst (igo_code key fs l coins))
    /\ (forall br, In br (fst (igo_code key fs l coins)) ->
        forall x, In x (flatten br) -> In (key_of x) (map key_of (flatten fs))).
Proof.
  intros Hok. induction 1 as [|x r Hx Hr IH]; intros coins.
  - cbn. repeat split; auto. intros br [].
  - cbn [igo_code igo_spec]. destruct (Hx fs coins Hok) as (Hc & Hm1 & Hm0).
    assert (Hsk := feval_skel x key fs coins Hok).
    assert (Hk := fsem_keys x key (flatten fs) coins).
    destruct (feval key x fs coins) as [[m fs'] c']. destruct (fsem key x (flatten fs) coins) as [o sc].
    cbn [fst snd] in *. subst sc. destruct (IH c') as (Ic & If & Is & Ik).
    destruct (igo_code key fs r c') as [rest c'']. destruct (igo_spec key (flatten fs) r c') as [orest sc''].
    cbn [fst snd] in *. split; [exact Ic|]. destruct m; cbn [app flat_map].
    + rewrite (Hm1 eq_refl), If. split; [reflexivity|]. split; [constructor; auto|].
      intros br [<-|Hbr]; [|apply Ik, Hbr]. rewrite (Hm1 eq_refl). exact Hk.
    + rewrite (Hm0 eq_refl), If. cbn [app]. auto.
Qed.

Lemma Forall_forallb_imp {A} (g : A -> bool) (P : A -> Prop) l :
  Forall (fun x => g x = true -> P x) l -> forallb g l = true -> Forall P l.
Proof.
  induction 1 as [|x l Hx _ IH]; cbn [forallb]; intros H; constructor; apply andb_true_iff in H; tauto.
Qed.

Lemma refines_all f : fvalid f = true -> coin_safe f = true ->
  forall key fs coins, skel_ok fs -> refines key f fs coins.
Proof.
  induction f as [f IH] using rfilter_ind'. intros Hv Hs key fs coins Hok.
  assert (Hcnt : forall fs', (0 <? count_cells fs')%nat = false -> flatten fs' = []).
  { intros fs' H. rewrite count_pos_flatten, negb_false_iff in H. apply is_empty_fams_flatten, H. }
  assert (Hpc : is_per_cell f = true -> refines key f fs coins).
  { intros Hp. unfold refines. rewrite (per_cell_sem key f _ coins Hp Hv), <- per_cell_flatten. cbn [fst snd].
    replace (feval key f fs coins) with ((0 <? count_cells (per_cell f fs))%nat, per_cell f fs, coins)
      by (destruct f; try discriminate; reflexivity).
    cbn [fst snd]. split; [reflexivity|]. split; [reflexivity|]. intros H. apply Hcnt in H. exact H. }
  destruct f as [b|b|l|l|p t e|r|r|r|r|fm s e|s e|s e|n|n|n| |lb|v]; cbn [subs] in IH;
    try (apply Hpc; reflexivity).
  - (* pass *) unfold refines. cbn. split; [reflexivity|]. split; [reflexivity|discriminate].
  - (* block *) unfold refines. cbn. split; [reflexivity|]. split; [discriminate|reflexivity].
  - (* chain *) rewrite fvalid_chain in Hv. rewrite coin_safe_chain in Hs.
    apply andb_true_iff in Hv, Hs. destruct Hv as [_ Hv], Hs as [Hs Ht].
    apply chain_refines; [|exact Ht|exact Hok].
    clear -IH Hv Hs. induction IH as [|x l Hx _ IHl]; [constructor|]. cbn [forallb] in Hv, Hs.
    apply andb_true_iff in Hv, Hs. constructor; [|apply IHl; tauto]. intros fs coins. apply Hx; tauto.
  - (* interleave *) rewrite fvalid_interleave in Hv. rewrite coin_safe_interleave in Hs.
    apply andb_true_iff in Hv. destruct Hv as [_ Hv].
    assert (Hl : Forall (fun g => forall fs coins, skel_ok fs -> refines key g fs coins) l).
    { clear -IH Hv Hs. induction IH as [|x l Hx _ IHl]; [constructor|]. cbn [forallb] in Hv, Hs.
      apply andb_true_iff in Hv, Hs. constructor; [|apply IHl; tauto]. intros fs coins. apply Hx; tauto. }
    destruct (interleave_go key fs l Hok Hl coins) as (Gc & Gf & Gs & Gk).
    unfold refines. rewrite feval_interleave, fsem_interleave.
    destruct (igo_code key fs l coins) as [brs c']. destruct (igo_spec key (flatten fs) l coins) as [outs sc].
    cbn [fst snd] in *. subst sc outs.
    destruct (merge_branches_flatten fs brs Hok Gs Gk) as [M _]. rewrite <- M.
    split; [reflexivity|]. split; [reflexivity|]. intros H. apply Hcnt, H.
  - (* condition *) cbn [fvalid coin_safe] in Hv, Hs. apply andb_true_iff in Hv, Hs.
    destruct Hv as [Hv Hve], Hs as [Hs Hse]. apply andb_true_iff in Hv, Hs.
    destruct Hv as [Hvp Hvt], Hs as [Hsp Hst].
    inversion IH as [|? ? Hp Hte]; subst. apply Forall_app in Hte. destruct Hte as [Ht He].
    destruct (Hp Hvp Hsp key fs coins Hok) as (Pc & P1 & P0).
    unfold refines. cbn [feval fsem].
    destruct (feval key p fs coins) as [[m pfs] c']. destruct (fsem key p (flatten fs) coins) as [o sc].
    cbn [fst snd] in *. subst sc.
    assert (Hbr : forall g : option rfilter,
               Forall (fun f => fvalid f = true -> coin_safe f = true ->
                                forall key fs coins, skel_ok fs -> refines key f fs coins) (opt_list g) ->
               match g with Some x => fvalid x | None => true end = true ->
               match g with Some x => coin_safe x | None => true end = true ->
               let code := match g with Some x => feval key x fs c' | None => (false, fs, c') end in
               let spec := match g with Some x => fsem key x (flatten fs) c' | None => ([], c') end in
               snd code = snd spec
               /\ (fst (fst code) = true -> flatten (snd (fst code)) = fst spec)
               /\ (fst (fst code) = false -> fst spec = [])).
    { intros [g|] Hg Hgv Hgs; cbn zeta.
      - cbn in Hg. inversion Hg as [|? ? Hg' _]; subst. apply (Hg' Hgv Hgs key fs c' Hok).
      - cbn. split; [reflexivity|]. split; [discriminate|reflexivity]. }
    assert (Etest : m && negb (is_empty_fams pfs) = match o with [] => false | _ => true end).
    { destruct m; cbn [andb].
      - rewrite <- (P1 eq_refl). destruct (is_empty_fams pfs) eqn:E.
        + apply is_empty_fams_flatten in E. rewrite E. reflexivity.
        + apply is_empty_fams_false in E. destruct (flatten pfs); [congruence|reflexivity]. 
      - rewrite (P0 eq_refl). reflexivity. }
    rewrite Etest. destruct o as [|y o'].
    + apply (Hbr e He Hve Hse).
    + apply (Hbr t Ht Hvt Hst).
  - (* row key regex *) destruct r as [|r]; [discriminate|]. unfold refines. cbn [feval fsem rx_match opt_true matches].
    destruct (re_match r key); cbn [fst snd].
    + split; [reflexivity|]. split; [reflexivity|]. intros H. apply Hcnt, H.
    + split; [reflexivity|]. split; [discriminate|reflexivity].
  - (* cells per row limit *) unfold refines. cbn [feval fsem fst snd]. rewrite limit_fams_flatten.
    split; [reflexivity|]. split; [reflexivity|discriminate].
  - (* cells per row offset *) unfold refines. cbn [feval fsem fst snd]. rewrite offset_fams_flatten.
    split; [reflexivity|]. split; [reflexivity|discriminate].
  - (* cells per column limit *) unfold refines. cbn [feval fsem fst snd]. rewrite (percol_flatten _ _ Hok).
    split; [reflexivity|]. split; [reflexivity|discriminate].
  - (* sample *) unfold refines. cbn [feval fsem]. destruct coins as [|c cs]; cbn [fst snd].
    + split; [reflexivity|]. split; [discriminate|reflexivity].
    + destruct c; (split; [reflexivity|]); (split; [try discriminate; reflexivity|try discriminate; reflexivity]).
Qed.

(* ------------------------------------------------------------------ *)
(* C05, main statement.

   FULL statement asked for (for every filter accepted by the validator):
     forall f key fs coins, fvalid f = true -> fams_ok fs ->
       let '(m, fs', coins') := feval key f fs coins in
       let '(out, scoins) := fsem key f (flatten fs) coins in
       coins' = scoins /\ (m = true -> flatten fs' = out) /\ (m = false -> out = []).
   It is FALSE of the model (and of the Go code): see [filter_refines_fsem_coins_refuted] and
   [filter_refines_fsem_cells_refuted] below.  The emulator stops a chain when a stage reports "no
   match", the specification when a stage outputs no cell; the two differ on the stages that report a
   match without a cell (pass on an empty row, cells-per-row limit 0, an offset past the end, ...),
   and then the number of coins consumed by later sample filters differs.  The guard [coin_safe f]
   excludes exactly that: in every chain, a stage whose match flag is not exact is not followed by a
   sample filter.  Interleave is covered, at any depth. *)
Theorem filter_refines_fsem_partial : forall f key fs coins,
  fvalid f = true -> coin_safe f = true -> fams_ok fs ->
  let '(m, fs', coins') := feval key f fs coins in
  let '(out, scoins) := fsem key f (flatten fs) coins in
  coins' = scoins /\ (m = true -> flatten fs' = out) /\ (m = false -> out = []).
Proof.
  intros f key fs coins Hv Hs Hok.
  assert (R := refines_all f Hv Hs key fs coins (fams_ok_skel_ok fs Hok)). unfold refines in R.
  destruct (feval key f fs coins) as [[m fs'] c']. destruct (fsem key f (flatten fs) coins) as [out sc].
  exact R.
Qed.

(* the same under the weaker invariant that is preserved by every filter (interleave may produce
   equal timestamps within a column, so [fams_ok] itself is not preserved) *)
Theorem filter_refines_fsem_skel_partial : forall f key fs coins,
  fvalid f = true -> coin_safe f = true -> skel_ok fs ->
  let '(m, fs', coins') := feval key f fs coins in
  let '(out, scoins) := fsem key f (flatten fs) coins in
  coins' = scoins /\ (m = true -> flatten fs' = out /\ skel_ok fs') /\ (m = false -> out = []).
Proof.
  intros f key fs coins Hv Hs Hok.
  assert (R := refines_all f Hv Hs key fs coins Hok). unfold refines in R.
  assert (K := feval_skel f key fs coins Hok).
  destruct (feval key f fs coins) as [[m fs'] c']. destruct (fsem key f (flatten fs) coins) as [out sc].
  cbn [fst snd] in *. destruct R as (R1 & R2 & R3). split; [exact R1|]. split; [|exact R3].
  intros Hm. split; [apply R2, Hm|]. eapply skel_ok_eq; [apply K, Hm|exact Hok].
Qed.

(* filters without a sample filter are all covered *)
Lemma no_coins_tails_ok l : existsb uses_coins l = false -> tails_ok l = true.
Proof.
  induction l as [|x r IH]; cbn [existsb tails_ok]; [reflexivity|]. intros H. apply orb_false_iff in H.
  destruct H as [_ H]. rewrite H, (IH H). cbn [negb]. rewrite orb_true_r. reflexivity.
Qed.

Lemma no_coins_safe f : uses_coins f = false -> coin_safe f = true.
Proof.
  induction f as [f IH] using rfilter_ind'.
  destruct f as [b|b|l|l|p t e|r|r|r|r|fm s e|s e|s e|n|n|n| |lb|v]; cbn [subs] in IH; try reflexivity.
  - rewrite uses_coins_chain, coin_safe_chain. intros H. rewrite (no_coins_tails_ok l H), andb_true_r.
    induction IH as [|x l Hx _ IHl]; [reflexivity|]. cbn [existsb forallb] in *. apply orb_false_iff in H.
    rewrite Hx, IHl; tauto.
  - rewrite uses_coins_interleave, coin_safe_interleave. intros H.
    induction IH as [|x l Hx _ IHl]; [reflexivity|]. cbn [existsb forallb] in *. apply orb_false_iff in H.
    rewrite Hx, IHl; tauto.
  - cbn [uses_coins coin_safe]. intros H. apply orb_false_iff in H. destruct H as [H He].
    apply orb_false_iff in H. destruct H as [Hp Ht].
    inversion IH as [|? ? Hp' Hte]; subst. apply Forall_app in Hte. destruct Hte as [Ht' He'].
    rewrite (Hp' Hp). cbn [andb].
    assert (Et : match t with Some x => coin_safe x | None => true end = true).
    { destruct t as [g|]; [|reflexivity]. cbn in Ht'. inversion Ht'; subst. auto. }
    assert (Ee : match e with Some x => coin_safe x | None => true end = true).
    { destruct e as [g|]; [|reflexivity]. cbn in He'. inversion He'; subst. auto. }
    rewrite Et, Ee. reflexivity.
Qed.

Theorem filter_refines_fsem_nosample : forall f key fs coins,
  fvalid f = true -> uses_coins f = false -> fams_ok fs ->
  let '(m, fs', coins') := feval key f fs coins in
  let '(out, scoins) := fsem key f (flatten fs) coins in
  coins' = coins /\ scoins = coins /\ (m = true -> flatten fs' = out) /\ (m = false -> out = []).
Proof.
  intros f key fs coins Hv Hu Hok.
  assert (R := filter_refines_fsem_partial f key fs coins Hv (no_coins_safe f Hu) Hok).
  assert (C := feval_no_coins f key fs coins Hu).
  destruct (feval key f fs coins) as [[m fs'] c']. destruct (fsem key f (flatten fs) coins) as [out sc].
  cbn [snd] in C. destruct R as (R1 & R2 & R3). subst. auto.
Qed.

(* ReadRows level: scan_rows outputs the row iff "m = true and scrubbing leaves something" *)
Theorem row_output_iff_partial : forall tf f key fs coins,
  fvalid f = true -> coin_safe f = true -> fams_ok fs -> all_known tf fs ->
  let '(m, fs', _) := feval key f fs coins in
  (m = true /\ scrub_fams tf fs' <> []) <-> fst (fsem key f (flatten fs) coins) <> [].
Proof.
  intros tf f key fs coins Hv Hs Hok Hk.
  assert (R := filter_refines_fsem_partial f key fs coins Hv Hs Hok).
  assert (K := feval_all_known tf key f fs coins Hk).
  destruct (feval key f fs coins) as [[m fs'] c']. destruct (fsem key f (flatten fs) coins) as [out sc].
  cbn [fst snd] in *. destruct R as (_ & R1 & R0). rewrite (scrub_fams_nonempty tf fs' K). split.
  - intros [Hm Hne]. rewrite <- (R1 Hm). exact Hne.
  - intros Hne. destruct m; [|exfalso; apply Hne, R0; reflexivity]. split; [reflexivity|].
    rewrite (R1 eq_refl). exact Hne.
Qed.

(* a checker for the row invariant, for the examples *)
Fixpoint nodupb (l : list bytes) : bool :=
  match l with [] => true | x :: r => negb (existsb (beqb x) r) && nodupb r end.

Lemma nodupb_sound l : nodupb l = true -> NoDup l.
Proof.
  induction l as [|x r IH]; cbn [nodupb]; intros H; constructor; apply andb_true_iff in H; destruct H as [H1 H2].
  - intros Hin. apply negb_true_iff in H1. assert (E : existsb (beqb x) r = true).
    { apply existsb_exists. exists x. split; [exact Hin|apply beqb_refl]. }
    congruence.
  - apply IH, H2.
Qed.

Definition fams_okb (fs : list family) : bool :=
  nodupb (map fam_name fs)
  && forallb (fun f => nodupb (map col_q (fam_cols f)) && forallb (fun c => descb (col_cells c)) (fam_cols f)) fs.

Lemma fams_okb_sound fs : fams_okb fs = true -> fams_ok fs.
Proof.
  unfold fams_okb, fams_ok. intros H. apply andb_true_iff in H. destruct H as [H1 H2].
  split; [apply nodupb_sound, H1|]. apply Forall_forall. intros f Hf.
  rewrite forallb_forall in H2. specialize (H2 f Hf). apply andb_true_iff in H2. destruct H2 as [H2 H3].
  split; [apply nodupb_sound, H2|]. apply Forall_forall. intros c Hc. rewrite forallb_forall in H3.
  apply descb_sound, H3, Hc.
Qed.

(* ---- the unguarded statement is false ---- *)
Definition rf_row : list family :=
  [mkFam (H 0x0166) [mkCol (H 0x0171) [mkCell 1000 (H 0x0176) []]]].

Lemma rf_row_ok : fams_ok rf_row.
Proof. apply fams_okb_sound. reflexivity. Qed.

(* coins: limit 0 reports a match with no cell, the chain goes on and the sample filter eats a coin;
   the specification has stopped *)
Lemma filter_refines_fsem_coins_refuted :
  exists f key fs coins, fvalid f = true /\ fams_ok fs
    /\ snd (feval key f fs coins) <> snd (fsem key f (flatten fs) coins).
Proof.
  exists (FChain [FCellsPerRowLimit 0; FSample true]), [], rf_row, [true].
  split; [reflexivity|]. split; [exact rf_row_ok|]. vm_compute. discriminate.
Qed.

(* cells: inside an interleave the misaligned coin changes which branch lets the row through *)
Lemma filter_refines_fsem_cells_refuted :
  exists f key fs coins, fvalid f = true /\ fams_ok fs
    /\ fst (fst (feval key f fs coins)) = true
    /\ flatten (snd (fst (feval key f fs coins))) <> fst (fsem key f (flatten fs) coins).
Proof.
  exists (FInterleave [FChain [FCellsPerRowLimit 0; FSample true]; FSample true]), [], rf_row, [false; true].
  split; [reflexivity|]. split; [exact rf_row_ok|]. split; [reflexivity|]. vm_compute. discriminate.
Qed.

(* the literal "first appearance in the concatenated branch outputs" reading of interleave is not
   what the emulator does: a column emptied by an early branch keeps its place in the row *)
Lemma interleave_first_appearance_refuted :
  exists f fs, fvalid f = true /\ fams_ok fs /\ coin_safe f = true
    /\ let outs := flatten (snd (fst (feval [] f fs []))) in
       map key_of outs = [(H 0x0166, H 0x0171); (H 0x0166, H 0x0172); (H 0x0166, H 0x0172)]   (* f:q, then f:r: row order *)
       /\ map key_of (fst (fsem [] (FCellsPerRowOffset 1) (flatten fs) [])
                      ++ fst (fsem [] (FPass true) (flatten fs) []))
          = [(H 0x0166, H 0x0172); (H 0x0166, H 0x0171); (H 0x0166, H 0x0172)].  (* f:r appears first *)
Proof.
  exists (FInterleave [FCellsPerRowOffset 1; FPass true]),
         [mkFam (H 0x0166) [mkCol (H 0x0171) [mkCell 1000 (H 0x0176) []];
                            mkCol (H 0x0172) [mkCell 1000 (H 0x0177) []]]].
  split; [reflexivity|]. split; [|split; [reflexivity|vm_compute; split; reflexivity]].
  apply fams_okb_sound. reflexivity.
Qed.

(* non-vacuity of the main theorem: a valid, coin-safe filter with chain, interleave, condition and
   sample, on a well-formed two-column row; both sides compute the same non-trivial result *)
Definition nv_filter : rfilter :=
  FChain [FSample true;
          FInterleave [FCondition (FQualRegex (RxOk (RLit 113))) (Some FStrip) (Some (FLabel (H 0x0178)));
                       FChain [FCellsPerColLimit 1; FValueRegex (RxOk (RStar RAnyNoNL))]];
          FCellsPerRowOffset 1].
Definition nv_row : list family :=
  [mkFam (H 0x0166) [mkCol (H 0x0171) [mkCell 2000 (H 0x0176) []; mkCell 1000 (H 0x0175) []];
                     mkCol (H 0x0172) [mkCell 1000 (H 0x0177) []]]].

Example filter_refines_nonvacuous :
  fvalid nv_filter = true /\ coin_safe nv_filter = true /\ uses_coins nv_filter = true /\ fams_ok nv_row
  /\ feval [] nv_filter nv_row [true; false]
     = (true,
        [mkFam (H 0x0166) [mkCol (H 0x0171) [mkCell 2000 (H 0x0176) []; mkCell 1000 [] []];
                           mkCol (H 0x0172) [mkCell 1000 [] []; mkCell 1000 (H 0x0177) []]]],
        [false])
  /\ fsem [] nv_filter (flatten nv_row) [true; false]
     = ([(H 0x0166, H 0x0171, mkCell 2000 (H 0x0176) []); (H 0x0166, H 0x0171, mkCell 1000 [] []);
         (H 0x0166, H 0x0172, mkCell 1000 [] []); (H 0x0166, H 0x0172, mkCell 1000 (H 0x0177) [])], [false]).
Proof.
  split; [reflexivity|]. split; [reflexivity|]. split; [reflexivity|]. split.
  - apply fams_okb_sound. reflexivity.
  - split; vm_compute; reflexivity.
Qed.

(* C05: the emulator's filter evaluation (BT/Filter.v) against the denotational filter semantics
   (BT/FilterSpec.v); validation; per-leaf boundary lemmas. *)
From Coq Require Import List NArith ZArith Bool Lia ZifyBool ZifyNat ZifyN Arith.
Import ListNotations.
From Emu.Common Require Import Bytes Str StrProofs.
From Emu.BT Require Import Types Regex Mutate Filter Gc RowSet Server.
From Emu.BT Require Import RegexProofs FilterSpec CellSpec CellProofs.
Local Open Scope Z_scope.

(* ------------------------------------------------------------------ *)
(* induction over filters through the nested lists / options *)
Definition opt_list {A} (o : option A) : list A := match o with Some x => [x] | None => [] end.
Definition subs (f : rfilter) : list rfilter :=
  match f with
  | FChain l | FInterleave l => l
  | FCondition p t e => p :: opt_list t ++ opt_list e
  | _ => []
  end.

Lemma rfilter_ind' (P : rfilter -> Prop) :
  (forall f, Forall P (subs f) -> P f) -> forall f, P f.
Proof.
  intros H. fix IH 1. intros f. apply H.
  destruct f as [b|b|l|l|p t e|r|r|r|r|fm s e|s e|s e|n|n|n| |l|v]; cbn [subs]; try constructor.
  - induction l as [|x l IHl]; constructor; [apply IH|exact IHl].
  - induction l as [|x l IHl]; constructor; [apply IH|exact IHl].
  - apply IH.
  - destruct t as [x|], e as [y|]; cbn; repeat constructor; apply IH.
Qed.

(* ------------------------------------------------------------------ *)
(* flatten: basic facts *)
Lemma flatten_cons f r : flatten (f :: r) = flatten_fam f ++ flatten r.
Proof. reflexivity. Qed.
Lemma flatten_fam_cons n c cs :
  flatten_fam (mkFam n (c :: cs)) = flatten_col n c ++ flatten_fam (mkFam n cs).
Proof. reflexivity. Qed.
Lemma flatten_col_length n c : length (flatten_col n c) = length (col_cells c).
Proof. unfold flatten_col. apply map_length. Qed.

Lemma flatten_app a b : flatten (a ++ b) = flatten a ++ flatten b.
Proof. unfold flatten. apply flat_map_app. Qed.

Lemma count_cells_flatten fs : count_cells fs = length (flatten fs).
Proof.
  unfold count_cells. induction fs as [|f r IH]; cbn [fold_right]; [reflexivity|].
  rewrite flatten_cons, app_length, <- IH. clear IH. generalize (fold_right
    (fun (f0 : family) (acc : nat) => fold_right (fun (c : column) (a : nat) => (length (col_cells c) + a)%nat) acc (fam_cols f0)) 0%nat r).
  intros k. unfold flatten_fam. induction (fam_cols f) as [|c cs IHc]; cbn [fold_right flat_map length]; [reflexivity|].
  rewrite app_length, flatten_col_length, IHc. lia.
Qed.

Lemma is_empty_fams_flatten fs : is_empty_fams fs = true <-> flatten fs = [].
Proof.
  unfold is_empty_fams. induction fs as [|f r IH]; cbn [forallb]; [tauto|].
  rewrite flatten_cons, andb_true_iff, IH. clear IH.
  assert (H : forallb (fun c => match col_cells c with [] => true | _ => false end) (fam_cols f) = true
              <-> flatten_fam f = []).
  { unfold flatten_fam. induction (fam_cols f) as [|c cs IHc]; cbn [forallb flat_map]; [tauto|].
    rewrite andb_true_iff, IHc. unfold flatten_col. destruct (col_cells c); cbn; [tauto|].
    split; [intros [? _]; discriminate|discriminate]. }
  rewrite H. split.
  - intros [-> ->]. reflexivity.
  - intros E. apply app_eq_nil in E. exact E.
Qed.

Lemma is_empty_fams_false fs : is_empty_fams fs = false <-> flatten fs <> [].
Proof.
  rewrite <- is_empty_fams_flatten. destruct (is_empty_fams fs); split; congruence.
Qed.

Lemma count_pos_flatten fs : (0 <? count_cells fs)%nat = negb (is_empty_fams fs).
Proof.
  rewrite count_cells_flatten. destruct (is_empty_fams fs) eqn:E.
  - apply is_empty_fams_flatten in E. rewrite E. reflexivity.
  - apply is_empty_fams_false in E. destruct (flatten fs); [congruence|reflexivity].
Qed.

(* ------------------------------------------------------------------ *)
(* filters never invent a family: the family names of the result are among those of the input *)
Lemma map_cols_names g fs : map fam_name (map_cols g fs) = map fam_name fs.
Proof. unfold map_cols. rewrite map_map. reflexivity. Qed.

Lemma limit_fams_names fs : forall n, map fam_name (limit_fams n fs) = map fam_name fs.
Proof.
  induction fs as [|f r IH]; intros n; cbn [limit_fams]; [reflexivity|].
  destruct (limit_cols n (fam_cols f)) as [l' cs']. cbn. rewrite IH. reflexivity.
Qed.

Lemma offset_fams_names fs : forall n, map fam_name (offset_fams n fs) = map fam_name fs.
Proof.
  induction fs as [|f r IH]; intros n; cbn [offset_fams]; [reflexivity|].
  destruct (offset_cols n (fam_cols f)) as [[o'|] cs']; cbn; [rewrite IH|]; reflexivity.
Qed.

Lemma upd_col_names fs fam q g :
  map fam_name (upd_col fs fam q g)
  = if get_family fs fam then map fam_name fs else map fam_name fs ++ [fam].
Proof. unfold upd_col. rewrite set_family_names. reflexivity. Qed.

Lemma ensure_family_names fs n : incl (map fam_name (ensure_family fs n)) (n :: map fam_name fs).
Proof.
  unfold ensure_family. destruct (get_family fs n).
  - apply incl_tl, incl_refl.
  - rewrite map_app. cbn. intros x Hx. apply in_app_iff in Hx. cbn in *. tauto.
Qed.

Lemma merge_branch_names br : forall acc,
  incl (map fam_name (merge_branch acc br)) (map fam_name acc ++ map fam_name br).
Proof.
  unfold merge_branch. induction br as [|f r IH]; intros acc; cbn [fold_left map].
  - rewrite app_nil_r. apply incl_refl.
  - eapply incl_tran; [apply IH|]. clear IH.
    assert (H : forall cs a, incl (map fam_name a) (fam_name f :: map fam_name acc) ->
              incl (map fam_name (fold_left (fun a' c => upd_col a' (fam_name f) (col_q c) (fun cs0 => cs0 ++ col_cells c)) cs a))
                   (fam_name f :: map fam_name acc)).
    { induction cs as [|c cs IHc]; intros a Ha; cbn [fold_left]; [exact Ha|].
      apply IHc. rewrite upd_col_names. destruct (get_family a (fam_name f)); [exact Ha|].
      intros x Hx. apply in_app_iff in Hx. destruct Hx as [Hx|[<-|[]]]; [apply Ha, Hx|left; reflexivity]. }
    specialize (H (fam_cols f) _ (ensure_family_names acc (fam_name f))).
    intros x Hx. apply in_app_iff in Hx. rewrite in_app_iff. cbn. destruct Hx as [Hx|Hx].
    + apply H in Hx. cbn in Hx. tauto.
    + tauto.
Qed.

Lemma merge_branches_names brs (l : list bytes) :
  Forall (fun br => incl (map fam_name br) l) brs -> incl (map fam_name (merge_branches brs)) l.
Proof.
  intros H. unfold merge_branches. rewrite map_cols_names.
  assert (G : forall acc, incl (map fam_name acc) l -> incl (map fam_name (fold_left merge_branch brs acc)) l).
  { induction H as [|br brs Hbr _ IH]; intros acc Hacc; cbn [fold_left]; [exact Hacc|].
    apply IH. eapply incl_tran; [apply merge_branch_names|]. apply incl_app; assumption. }
  apply G. intros x [].
Qed.

Lemma feval_fam_names f : forall key fs coins,
  incl (map fam_name (snd (fst (feval key f fs coins)))) (map fam_name fs).
Proof.
  induction f as [f IH] using rfilter_ind'. intros key fs coins.
  destruct f as [b|b|l|l|p t e|r|r|r|r|fm s e|s e|s e|n|n|n| |lb|v]; cbn [subs] in IH;
    try (cbn [feval fst snd]; unfold per_cell; rewrite ?map_cols_names; apply incl_refl).
  - (* chain *) cbn [feval]. revert fs coins. induction IH as [|x l Hx _ IHl]; intros fs coins; [apply incl_refl|].
    specialize (Hx key fs coins). destruct (feval key x fs coins) as [[m fs'] c']. cbn [fst snd] in Hx.
    destruct m; [|exact Hx]. eapply incl_tran; [apply IHl|exact Hx].
  - (* interleave *) cbn [feval].
    match goal with |- context [let '(brs, coins') := ?G l coins in _] => set (go := G) end.
    assert (Hgo : forall l', Forall (fun g => forall key fs coins,
                     incl (map fam_name (snd (fst (feval key g fs coins)))) (map fam_name fs)) l' ->
                   forall coins, Forall (fun br => incl (map fam_name br) (map fam_name fs)) (fst (go l' coins))).
    { intros l' Hl'. induction Hl' as [|x l' Hx _ IHl]; intros cs; cbn [go fst]; [constructor|].
      specialize (Hx key fs cs). destruct (feval key x fs cs) as [[m fs'] c']. cbn [fst snd] in Hx.
      specialize (IHl c'). fold go. destruct (go l' c') as [rest c'']. cbn [fst] in *.
      destruct m; cbn [app]; [constructor|]; assumption. }
    specialize (Hgo l IH coins). destruct (go l coins) as [brs coins']. cbn [fst snd] in *.
    apply merge_branches_names. exact Hgo.
  - (* condition *) cbn [feval]. inversion IH as [|? ? Hp Hte]; subst.
    destruct (feval key p fs coins) as [[m pfs] c'].
    assert (Ht : forall x, t = Some x -> forall key fs coins,
               incl (map fam_name (snd (fst (feval key x fs coins)))) (map fam_name fs)).
    { intros x ->. cbn in Hte. inversion Hte; subst. assumption. }
    assert (He : forall x, e = Some x -> forall key fs coins,
               incl (map fam_name (snd (fst (feval key x fs coins)))) (map fam_name fs)).
    { intros x ->. rewrite Forall_app in Hte. destruct Hte as [_ Hte]. inversion Hte; subst. assumption. }
    destruct (m && negb (is_empty_fams pfs)).
    + destruct t as [x|]; [apply (Ht x eq_refl)|apply incl_refl].
    + destruct e as [x|]; [apply (He x eq_refl)|apply incl_refl].
  - (* row key regex *) cbn [feval]. destruct (opt_true (rx_match r key)); apply incl_refl.
  - (* row limit *) cbn [feval fst snd]. rewrite limit_fams_names. apply incl_refl.
  - (* row offset *) cbn [feval fst snd]. rewrite offset_fams_names. apply incl_refl.
  - (* sample *) cbn [feval]. destruct coins; apply incl_refl.
Qed.

Lemma all_known_names tf fs : all_known tf fs <-> (forall n, In n (map fam_name fs) -> known_family tf n = true).
Proof.
  unfold all_known. rewrite Forall_forall. split.
  - intros H n Hn. apply in_map_iff in Hn. destruct Hn as (f & <- & Hf). apply H, Hf.
  - intros H f Hf. apply H. apply in_map. exact Hf.
Qed.

Lemma feval_all_known tf key f fs coins :
  all_known tf fs -> all_known tf (snd (fst (feval key f fs coins))).
Proof.
  rewrite !all_known_names. intros H n Hn. apply H. eapply feval_fam_names. exact Hn.
Qed.

(* ------------------------------------------------------------------ *)
(* scrubbing a row whose families the table knows leaves a row iff there is a cell *)
Lemma insert_col_nonempty c l : insert_col c l <> [].
Proof. destruct l as [|d r]; cbn; [discriminate|]. destruct (lex_ltb (col_q c) (col_q d)); discriminate. Qed.

Lemma sort_cols_nil l : sort_cols l = [] <-> l = [].
Proof.
  destruct l as [|c r]; cbn; [tauto|]. split; [|discriminate].
  intros H. exfalso. exact (insert_col_nonempty _ _ H).
Qed.

Lemma scrub_fams_nil tf fs : all_known tf fs -> (scrub_fams tf fs = [] <-> is_empty_fams fs = true).
Proof.
  unfold scrub_fams, is_empty_fams, all_known. induction fs as [|f r IH]; intros Hk; cbn [filter map forallb]; [tauto|].
  inversion Hk as [|? ? Hf Hr]; subst. rewrite Hf. cbn [map filter]. specialize (IH Hr).
  rewrite andb_true_iff, <- IH. clear IH.
  assert (H : fam_cols (scrub_fam f) = [] <->
              forallb (fun c => match col_cells c with [] => true | _ => false end) (fam_cols f) = true).
  { unfold scrub_fam. cbn [fam_cols]. rewrite sort_cols_nil.
    induction (fam_cols f) as [|c cs IHc]; cbn [filter forallb]; [tauto|].
    destruct (col_cells c); cbn [andb]; [exact IHc|]. split; discriminate. }
  destruct (fam_cols (scrub_fam f)) eqn:E.
  - rewrite <- H. tauto.
  - split; [discriminate|]. intros [H1 _]. apply H in H1. discriminate.
Qed.

Lemma scrub_fams_nonempty tf fs : all_known tf fs -> (scrub_fams tf fs <> [] <-> flatten fs <> []).
Proof.
  intros Hk. rewrite (scrub_fams_nil tf fs Hk), is_empty_fams_flatten. tauto.
Qed.

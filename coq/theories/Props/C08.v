(* C08 — placeholder statements; theorems in BT/DiskProofs.v (to come) *)
From Coq Require Import List NArith ZArith Bool.
From Emu.BT Require Import Types Server Disk.
Example C08_model_runs : restart (image_of init_dstate) = nil.
Proof. reflexivity. Qed.

(* C08 — Bigtable, on-disk storage: stopping the emulator at any moment and starting it again on
   the same directory serves exactly what the acknowledged requests produced; a request in flight
   is wholly present or wholly absent; nothing deleted comes back.
   Only statements here; the model of the disk engine is BT/Disk.v (image, restart, dstep with the
   images at the instrumented crash points), the proofs are in BT/DiskProofs.v.
   srv_eq = same table names, and under each name the same families with their GC rules and the
   same rows; on the sorted lists the model builds it is equality ([C08_srv_eq_is_equality]). *)
From Coq Require Import List NArith ZArith Bool.
Import ListNotations.
From Emu.Common Require Import Bytes Str StrProofs.
From Emu.BT Require Import Types Mutate Server AdminProofs CellSpec Check Disk DiskCheck DiskProofs.

Theorem C08_srv_eq_is_equality : forall s1 s2, asorted s1 -> asorted s2 -> srv_eq s1 s2 -> s1 = s2.
Proof. exact srv_eq_sorted_eq. Qed.
Print Assumptions C08_srv_eq_is_equality.

(* ---- 1. the invariant: one definition file per live table holding exactly its families;
        directories without a live table (they may hold rows) never under a live name ---- *)
Theorem C08_disk_inv_step : forall d c, disk_inv d -> disk_inv (fst (fst (dstep d c))).
Proof. exact disk_inv_step. Qed.
Print Assumptions C08_disk_inv_step.

Theorem C08_disk_inv_run : forall cs d, disk_inv d -> disk_inv (fst (drun d cs)).
Proof. exact disk_inv_run. Qed.
Print Assumptions C08_disk_inv_run.

Theorem C08_disk_inv_reachable : forall cs, disk_inv (fst (drun init_dstate cs)).
Proof. exact disk_inv_reachable. Qed.
Print Assumptions C08_disk_inv_reachable.

(* ---- 3. while it runs the disk engine is unobservable: states and answers of [run] (C17) ---- *)
Theorem C08_mem_is_sequential : forall cs,
  ds_mem (fst (drun init_dstate cs)) = fst (run [] cs) /\ map fst (snd (drun init_dstate cs)) = snd (run [] cs).
Proof. exact mem_is_sequential. Qed.
Print Assumptions C08_mem_is_sequential.

(* ---- 2. durability: for every program, a restart at the request boundary serves exactly the
        acknowledged state; for every prefix of the program ---- *)
Theorem C08_durable_after_ack : forall cs,
  srv_eq (restart (image_of (fst (drun init_dstate cs)))) (ds_mem (fst (drun init_dstate cs)))
  /\ restart (image_of (fst (drun init_dstate cs))) = fst (run [] cs).
Proof. exact durable_after_ack. Qed.
Print Assumptions C08_durable_after_ack.

Theorem C08_durable_every_boundary : forall cs k,
  restart (image_of (fst (drun init_dstate (firstn k cs)))) = fst (run [] (firstn k cs)).
Proof. exact durable_every_boundary. Qed.
Print Assumptions C08_durable_every_boundary.

(* ---- 5. restart cycles ---- *)
(* starting on a well-formed image establishes the invariant *)
Theorem C08_boot_inv : forall im, image_wf im -> disk_inv (boot im).
Proof. exact boot_inv. Qed.
Print Assumptions C08_boot_inv.

(* stop/start at a boundary: the server is the same, the directory is the same, k cycles change nothing *)
Theorem C08_restart_idempotent : forall d, disk_inv d ->
  disk_inv (boot (image_of d))
  /\ ds_mem (boot (image_of d)) = ds_mem d
  /\ restart (image_of (boot (image_of d))) = restart (image_of d)
  /\ forall k, restart (Nat.iter k cycle (image_of d)) = ds_mem d.
Proof. exact restart_idempotent. Qed.
Print Assumptions C08_restart_idempotent.

Theorem C08_cycle_identity : forall d, disk_inv d -> image_of (boot (image_of d)) = image_of d.
Proof. exact cycle_identity. Qed.
Print Assumptions C08_cycle_identity.

(* for any well-formed image (also one taken at a crash point) *)
Theorem C08_restart_cycles : forall k im, image_wf im ->
  image_wf (Nat.iter k cycle im) /\ restart (Nat.iter k cycle im) = restart im.
Proof. exact restart_cycles. Qed.
Print Assumptions C08_restart_cycles.

(* the restarted server continues like the original *)
Theorem C08_restarted_continues : forall d cs, disk_inv d ->
  ds_mem (fst (drun (boot (image_of d)) cs)) = ds_mem (fst (drun d cs))
  /\ map fst (snd (drun (boot (image_of d)) cs)) = map fst (snd (drun d cs))
  /\ restart (image_of (fst (drun (boot (image_of d)) cs))) = restart (image_of (fst (drun d cs))).
Proof. exact restarted_continues. Qed.
Print Assumptions C08_restarted_continues.

(* ---- 4. a kill inside a request ---- *)
(* PARTIAL.  Full statement: for every reachable d, request c and crash-point image im of dstep d c,
   restart im is srv_eq to the restart before or the restart after.  Proved with the guard
   [no_effective_drop]: the request is not a ModifyFamilies that both rewrites rows (drops a family
   holding cells) and changes the families.  The guard is exact (C08_crash_modify_first_point_exact),
   and the unguarded statement is false of the code (C08_crash_atomic_drop_family_refuted, BT-18).
   No hypothesis on the directories left without a definition: they may hold rows. *)
Theorem C08_crash_atomic_partial : forall d c, disk_inv d -> no_effective_drop (ds_mem d) c ->
  forall nm im, In (nm, im) (snd (dstep d c)) ->
  srv_eq (restart im) (restart (image_of d)) \/ srv_eq (restart im) (restart (image_of (fst (fst (dstep d c))))).
Proof. exact crash_atomic_partial. Qed.
Print Assumptions C08_crash_atomic_partial.

(* for every program: before = run of the program, after = run of the program plus the request *)
Theorem C08_crash_atomic_program_partial : forall cs c nm im,
  let d := fst (drun init_dstate cs) in
  no_effective_drop (fst (run [] cs)) c -> In (nm, im) (snd (dstep d c)) ->
  srv_eq (restart im) (fst (run [] cs)) \/ srv_eq (restart im) (fst (run [] (cs ++ [c]))).
Proof. exact crash_atomic_program. Qed.
Print Assumptions C08_crash_atomic_program_partial.

(* the guard holds: for every request other than ModifyFamilies; for a ModifyFamilies without a drop;
   for the drop of a family that holds no cell *)
Theorem C08_guard_other : forall s c, (forall name mods, cl_req c <> BModifyFamilies name mods) -> no_effective_drop s c.
Proof. exact other_no_effective_drop. Qed.
Print Assumptions C08_guard_other.
Theorem C08_guard_no_drop : forall s name mods now coins, no_drop mods = true ->
  no_effective_drop s (mkCall (BModifyFamilies name mods) now coins).
Proof. exact no_drop_no_effective_drop. Qed.
Print Assumptions C08_guard_no_drop.
Theorem C08_guard_cellless_family : forall cs name f now coins,
  let s := fst (run [] cs) in
  (forall t k fs, alookup name s = Some t -> alookup k (t_rows t) = Some fs -> get_family fs f = None) ->
  no_effective_drop s (mkCall (BModifyFamilies name [MDrop f]) now coins).
Proof. exact drop_cellless_family_guard. Qed.
Print Assumptions C08_guard_cellless_family.

(* exactness: killed at disk.meta.tmp inside a successful ModifyFamilies the directory restarts
   with the OLD families and the NEW (purged) rows; that is the state before iff no row was
   rewritten, the state after iff the families did not change *)
Theorem C08_crash_modify_first_point_exact : forall d name mods now coins t, disk_inv d ->
  alookup name (ds_mem d) = Some t ->
  let c := mkCall (BModifyFamilies name mods) now coins in
  br_code (snd (fst (dstep d c))) = cOK ->
  let t' := apply_mods t mods in
  exists im rest, snd (dstep d c) = (s_meta_tmp, im) :: rest
    /\ alookup name (restart im) = Some (mkTable (t_fams t) (t_rows t'))
    /\ (srv_eq (restart im) (restart (image_of d)) <-> t_rows t' = t_rows t)
    /\ (srv_eq (restart im) (restart (image_of (fst (fst (dstep d c))))) <-> t_fams t' = t_fams t).
Proof. exact crash_modify_first_point_exact. Qed.
Print Assumptions C08_crash_modify_first_point_exact.

(* BT-18: a reachable state and a ModifyFamilies-with-drop whose first crash point restarts to neither *)
Theorem C08_crash_atomic_drop_family_refuted :
  exists cs c im rest,
    let d := fst (drun init_dstate cs) in
    snd (dstep d c) = (s_meta_tmp, im) :: rest
    /\ br_code (snd (fst (dstep d c))) = cOK
    /\ ~ srv_eq (restart im) (restart (image_of d))
    /\ ~ srv_eq (restart im) (restart (image_of (fst (fst (dstep d c))))).
Proof. exact crash_atomic_drop_family_refuted. Qed.
Print Assumptions C08_crash_atomic_drop_family_refuted.

(* CreateTable first removes a leftover directory: a kill at any of its four crash points restarts
   to the state before or the state after, whatever the directories without a definition hold
   (in particular the rows of an earlier table of that name whose DeleteTable was killed) *)
Theorem C08_crash_atomic_create_with_orphan : forall d parent tid fams now coins, disk_inv d ->
  let c := mkCall (BCreateTable parent tid fams) now coins in
  let d' := fst (fst (dstep d c)) in
  forall nm im, In (nm, im) (snd (dstep d c)) ->
  srv_eq (restart im) (restart (image_of d)) \/ srv_eq (restart im) (restart (image_of d')).
Proof. exact crash_atomic_create_with_orphan. Qed.
Print Assumptions C08_crash_atomic_create_with_orphan.

(* point by point: absent at disk.create.cleaned and disk.meta.tmp (state before), defined and empty
   at disk.meta.renamed and disk.db.removed (state after); no directory left at the first and last *)
Theorem C08_create_crash_points_exact : forall d parent tid fams now coins, disk_inv d ->
  let name := table_name parent tid in
  let c := mkCall (BCreateTable parent tid fams) now coins in
  br_code (snd (fst (dstep d c))) = cOK ->
  exists imc im1 im2 im3,
    snd (dstep d c) = [(s_create_cleaned, imc); (s_meta_tmp, im1); (s_meta_renamed, im2); (s_db_removed, im3)]
    /\ srv_eq (restart imc) (ds_mem d) /\ srv_eq (restart im1) (ds_mem d)
    /\ alookup name (restart imc) = None /\ alookup name (restart im1) = None
    /\ alookup name (restart im2) = Some (mkTable (make_fams fams) [])
    /\ alookup name (restart im3) = Some (mkTable (make_fams fams) [])
    /\ alookup name (im_dirs imc) = None /\ alookup name (im_dirs im3) = None.
Proof. exact create_crash_points_exact. Qed.
Print Assumptions C08_create_crash_points_exact.

(* DeleteTable killed between the removal of the definition file and of the directory
   (disk.delete.undefined): the restarted server is the state AFTER the request - the table is
   absent, every other table unchanged; the directory is still there with the table's rows, an
   orphan of the started server *)
Theorem C08_crash_in_delete_is_after : forall d name now coins, disk_inv d ->
  let c := mkCall (BDeleteTable name) now coins in
  br_code (snd (fst (dstep d c))) = cOK ->
  let d' := fst (fst (dstep d c)) in
  exists im t, snd (dstep d c) = [(s_delete_undefined, im)]
    /\ alookup name (ds_mem d) = Some t
    /\ srv_eq (restart im) (restart (image_of d'))
    /\ alookup name (restart im) = None
    /\ (forall n, n <> name -> alookup n (restart im) = alookup n (restart (image_of d)))
    /\ alookup name (im_dirs im) = Some (t_rows t)
    /\ alookup name (ds_orphans (boot im)) = Some (t_rows t).
Proof. exact crash_in_delete_is_after. Qed.
Print Assumptions C08_crash_in_delete_is_after.

(* requests without crash points: row writes, DropRowRange (by prefix and delete-all), RMW, CAM, GC, reads *)
Theorem C08_no_crash_points : forall d c, disk_special (cl_req c) = false -> snd (dstep d c) = [].
Proof. exact no_crash_points. Qed.
Print Assumptions C08_no_crash_points.

Theorem C08_row_requests_no_crash_points : forall d now coins,
  (forall tbl key muts, snd (dstep d (mkCall (BMutateRow tbl key muts) now coins)) = [])
  /\ (forall tbl entries, snd (dstep d (mkCall (BMutateRows tbl entries) now coins)) = [])
  /\ (forall tbl key p tm fm, snd (dstep d (mkCall (BCheckAndMutate tbl key p tm fm) now coins)) = [])
  /\ (forall tbl key rules, snd (dstep d (mkCall (BReadModifyWrite tbl key rules) now coins)) = [])
  /\ (forall tbl all pfx, snd (dstep d (mkCall (BDropRowRange tbl all pfx) now coins)) = [])
  /\ (forall tbl, snd (dstep d (mkCall (BRunGC tbl) now coins)) = [])
  /\ (forall tbl keys ranges f limit, snd (dstep d (mkCall (BReadRows tbl keys ranges f limit) now coins)) = []).
Proof. exact row_requests_no_crash_points. Qed.
Print Assumptions C08_row_requests_no_crash_points.

(* DropRowRange with delete-all deletes the rows in one atomic leveldb batch: no crash point *)
Theorem C08_clear_has_no_crash_point : forall d name pfx now coins,
  snd (dstep d (mkCall (BDropRowRange name true pfx) now coins)) = [].
Proof. exact clear_has_no_crash_point. Qed.
Print Assumptions C08_clear_has_no_crash_point.

(* ---- repeated crash/restart cycles: states reachable by requests, restarts at request
        boundaries and restarts on the image of any crash point ---- *)
Theorem C08_reachable_inv : forall d, dreach d -> disk_inv d.
Proof. exact dreach_inv. Qed.
Print Assumptions C08_reachable_inv.

(* the image at every crash point is a well-formed directory image *)
Theorem C08_crash_image_wf : forall d c nm im, disk_inv d -> In (nm, im) (snd (dstep d c)) -> image_wf im.
Proof. exact crash_image_wf. Qed.
Print Assumptions C08_crash_image_wf.

Theorem C08_crash_restart_cycles : forall d, dreach d ->
  restart (image_of d) = ds_mem d
  /\ (forall cs, restart (image_of (fst (drun d cs))) = fst (run (ds_mem d) cs)
                 /\ map fst (snd (drun d cs)) = snd (run (ds_mem d) cs))
  /\ (forall c nm im, In (nm, im) (snd (dstep d c)) ->
        ds_mem (boot im) = restart im
        /\ restart (image_of (boot im)) = restart im
        /\ (no_effective_drop (ds_mem d) c ->
            srv_eq (restart im) (restart (image_of d)) \/ srv_eq (restart im) (restart (image_of (fst (fst (dstep d c))))))).
Proof. exact crash_restart_cycles. Qed.
Print Assumptions C08_crash_restart_cycles.

(* ---- 6. nothing deleted comes back ---- *)
(* a deleted table is absent from every later restart, at boundaries and crash points, through any
   history of requests (other than a create of that name), restarts and crashes *)
Theorem C08_deleted_table_stays_deleted : forall d name now coins, dreach d ->
  let c := mkCall (BDeleteTable name) now coins in
  br_code (snd (fst (dstep d c))) = cOK ->
  let d' := fst (fst (dstep d c)) in
  alookup name (restart (image_of d')) = None
  /\ forall d2, reach_nc name d' d2 ->
       alookup name (restart (image_of d2)) = None
       /\ forall c2 nm im, not_create name c2 -> In (nm, im) (snd (dstep d2 c2)) -> alookup name (restart im) = None.
Proof. exact deleted_table_stays_deleted. Qed.
Print Assumptions C08_deleted_table_stays_deleted.

(* also when the DeleteTable itself is killed at its crash point (directory with rows left behind) *)
Theorem C08_killed_delete_stays_deleted : forall d name now coins, dreach d ->
  let c := mkCall (BDeleteTable name) now coins in
  forall nm im, In (nm, im) (snd (dstep d c)) ->
  dreach (boot im) /\ alookup name (restart im) = None
  /\ forall d2, reach_nc name (boot im) d2 ->
       alookup name (restart (image_of d2)) = None
       /\ forall c2 nm2 im2, not_create name c2 -> In (nm2, im2) (snd (dstep d2 c2)) -> alookup name (restart im2) = None.
Proof. exact killed_delete_stays_deleted. Qed.
Print Assumptions C08_killed_delete_stays_deleted.

(* for every reachable state, also one with a directory holding old rows under that name
   (C08_dreach_orphan_with_rows): a successfully (re-)created table - the names were valid and the
   table absent - restarts empty - also at the crash points of the create - and afterwards holds
   exactly what was written since *)
Theorem C08_recreated_table_restarts_empty : forall d parent tid fams now coins, dreach d ->
  let name := table_name parent tid in
  let c := mkCall (BCreateTable parent tid fams) now coins in
  br_code (snd (fst (dstep d c))) = cOK ->
  let d' := fst (fst (dstep d c)) in
  valid_tid tid = true /\ valid_parent parent = true /\ alookup name (ds_mem d) = None
  /\ alookup name (restart (image_of d')) = Some (mkTable (make_fams fams) [])
  /\ ds_mem d' = set_table (ds_mem d) name (mkTable (make_fams fams) [])
  /\ (forall nm im, In (nm, im) (snd (dstep d c)) ->
        alookup name (restart im) = None \/ alookup name (restart im) = Some (mkTable (make_fams fams) []))
  /\ (forall cs, restart (image_of (fst (drun d' cs))) = fst (run (ds_mem d') cs)).
Proof. exact recreated_table_restarts_empty. Qed.
Print Assumptions C08_recreated_table_restarts_empty.

Theorem C08_dropped_prefix_absent : forall d name p now coins t, dreach d -> alookup name (ds_mem d) = Some t ->
  let d' := fst (fst (dstep d (mkCall (BDropRowRange name false (Some p)) now coins))) in
  exists t', alookup name (restart (image_of d')) = Some t'
    /\ t_fams t' = t_fams t
    /\ (forall k, has_prefix k p = true -> alookup k (t_rows t') = None)
    /\ (forall k, has_prefix k p = false -> alookup k (t_rows t') = alookup k (t_rows t)).
Proof. exact dropped_prefix_absent. Qed.
Print Assumptions C08_dropped_prefix_absent.

Theorem C08_cleared_table_restarts_empty : forall d name pfx now coins t, dreach d -> alookup name (ds_mem d) = Some t ->
  let c := mkCall (BDropRowRange name true pfx) now coins in
  alookup name (restart (image_of (fst (fst (dstep d c))))) = Some (mkTable (t_fams t) [])
  /\ snd (dstep d c) = [].
Proof. exact cleared_table_restarts_empty. Qed.
Print Assumptions C08_cleared_table_restarts_empty.

Theorem C08_deleted_row_absent : forall d name key muts now coins, dreach d ->
  let c := mkCall (BMutateRow name key (muts ++ [DeleteFromRow])) now coins in
  br_code (snd (fst (dstep d c))) = cOK ->
  exists t', alookup name (restart (image_of (fst (fst (dstep d c))))) = Some t' /\ alookup key (t_rows t') = None.
Proof. exact deleted_row_absent. Qed.
Print Assumptions C08_deleted_row_absent.

Theorem C08_dropped_family_absent : forall d name f now coins t, dreach d -> alookup name (ds_mem d) = Some t ->
  known_family (t_fams t) f = true ->
  let d' := fst (fst (dstep d (mkCall (BModifyFamilies name [MDrop f]) now coins))) in
  exists t', alookup name (restart (image_of d')) = Some t'
    /\ t_fams t' = aremove f (t_fams t)
    /\ known_family (t_fams t') f = false
    /\ (forall k fs, alookup k (t_rows t') = Some fs -> get_family fs f = None)
    /\ (forall k, alookup k (t_rows t) = None -> alookup k (t_rows t') = None).
Proof. exact dropped_family_absent. Qed.
Print Assumptions C08_dropped_family_absent.

(* ---- crash points and code order: the points a request passes, by name ---- *)
Theorem C08_crash_point_names : forall d c,
  map fst (snd (dstep d c)) =
  if negb (N.eqb (br_code (snd (fst (dstep d c)))) cOK) then [] else
  match cl_req c with
  | BCreateTable _ _ _ => [s_create_cleaned; s_meta_tmp; s_meta_renamed; s_db_removed]
                                                   (* RemoveAll(dir), SetTableMeta, then newDiskDb(nuke) *)
  | BDeleteTable _ => [s_delete_undefined]                             (* Remove(definition) | RemoveAll(dir) *)
  | BModifyFamilies _ _ => [s_meta_tmp; s_meta_renamed]                (* SetTableMeta *)
  | _ => []
  end.
Proof. exact crash_point_names. Qed.
Print Assumptions C08_crash_point_names.

(* ---- the checker (BT/DiskCheck.v) stays inside the theory: the state the next program segment
        starts in (clean stop, or kill at the marked crash point of the last request) is reachable ---- *)
Theorem C08_next_boot_dreach : forall d0 c crash, dreach d0 ->
  dreach (next_boot (fst (fst (dstep d0 c))) (snd (dstep d0 c)) crash).
Proof. exact next_boot_dreach. Qed.
Print Assumptions C08_next_boot_dreach.

Theorem C08_dcheck_segment_dreach : forall names cs obs d i last, dreach d -> last_of d last ->
  let r := dcheck_segment names d i last cs obs in
  dreach (fst (fst r)) /\ last_of (fst (fst r)) (snd (fst r)).
Proof. exact dcheck_segment_dreach. Qed.
Print Assumptions C08_dcheck_segment_dreach.

Theorem C08_dcheck_next_segment_dreach : forall names cs obs crash d i, dreach d ->
  let r := dcheck_segment names d i [] cs obs in
  dreach (next_boot (fst (fst r)) (snd (fst r)) crash).
Proof. exact dcheck_next_segment_dreach. Qed.
Print Assumptions C08_dcheck_next_segment_dreach.

(* ---- non-vacuity: a program with create, writes, clear, modify, delete, re-create ---- *)
Example C08_prog_acks :
  map (fun r => (br_code (fst r), map fst (snd r))) (snd (drun init_dstate ex_prog))
  = [ (cOK, [s_create_cleaned; s_meta_tmp; s_meta_renamed; s_db_removed]); (cOK, []); (cOK, []);
      (cOK, []); (cOK, []); (cOK, [s_meta_tmp; s_meta_renamed]); (cOK, [s_delete_undefined]);
      (cOK, [s_create_cleaned; s_meta_tmp; s_meta_renamed; s_db_removed]); (cOK, []) ].
Proof. vm_compute. reflexivity. Qed.

(* (table, (families, row keys)) served by a restart at each of the 10 request boundaries *)
Example C08_prog_boundaries :
  map (fun k => ex_view (restart (image_of (fst (drun init_dstate (firstn k ex_prog)))))) (seq 0 10)
  = [ [];
      [(ex_name, ([[102%N]; [103%N]], []))];
      [(ex_name, ([[102%N]; [103%N]], [[97%N]]))];
      [(ex_name, ([[102%N]; [103%N]], [[97%N]; [98%N]]))];
      [(ex_name, ([[102%N]; [103%N]], []))];
      [(ex_name, ([[102%N]; [103%N]], [[99%N]]))];
      [(ex_name, ([[102%N]; [103%N]; [104%N]], [[99%N]]))];
      [];
      [(ex_name, ([[103%N]], []))];
      [(ex_name, ([[103%N]], [[100%N]]))] ].
Proof. vm_compute. reflexivity. Qed.

(* ... and at each crash point inside each request: always the boundary before or after *)
Example C08_prog_crash_points :
  map (fun r => map (fun p => ex_view (restart (snd p))) (snd r)) (snd (drun init_dstate ex_prog))
  = [ [ []; []; [(ex_name, ([[102%N]; [103%N]], []))]; [(ex_name, ([[102%N]; [103%N]], []))] ];
      []; [];
      [];
      [];
      [ [(ex_name, ([[102%N]; [103%N]], [[99%N]]))]; [(ex_name, ([[102%N]; [103%N]; [104%N]], [[99%N]]))] ];
      [ [] ];
      [ []; []; [(ex_name, ([[103%N]], []))]; [(ex_name, ([[103%N]], []))] ];
      [] ].
Proof. vm_compute. reflexivity. Qed.

(* the hypotheses of the theorems are met along the program *)
Example C08_prog_hyps :
  let d := fst (drun init_dstate (firstn 7 ex_prog)) in
  dreach d /\ disk_inv d /\ alookup ex_name (ds_mem d) = None
  /\ no_effective_drop (ds_mem (fst (drun init_dstate (firstn 5 ex_prog)))) (nth 5 ex_prog (ex_put 0 0)).
Proof. exact ex_prog_hyps. Qed.

(* BT-18 in numbers: (families, row keys) before / at the two crash points / after *)
Example C08_bt18_restarts :
  let d := fst (drun init_dstate [ex_create ex_fg; ex_put 97 102]) in
  let c := mkCall (BModifyFamilies ex_name [MDrop [102%N]]) 0%Z [] in
  let view (s : server) := match alookup ex_name s with
                           | Some t => Some (map fst (t_fams t), map fst (t_rows t))
                           | None => None end in
  view (restart (image_of d)) = Some ([[102%N]; [103%N]], [[97%N]])
  /\ map (fun p => view (restart (snd p))) (snd (dstep d c)) = [Some ([[102%N]; [103%N]], []); Some ([[103%N]], [])]
  /\ view (restart (image_of (fst (fst (dstep d c))))) = Some ([[103%N]], []).
Proof. vm_compute. repeat split; reflexivity. Qed.

(* a crash image with a directory but no definition (create killed at disk.meta.tmp): the restarted
   server has it as an orphan, and the retried create and a write work *)
Example C08_crash_then_continue :
  let c := ex_create ex_fg in
  let im := snd (nth 1 (snd (dstep init_dstate c)) (s_meta_tmp, mkImage [] [])) in
  im = mkImage [] [(ex_name, [])]
  /\ ds_orphans (boot im) = [(ex_name, [])]
  /\ ex_view (restart (image_of (fst (drun (boot im) [c; ex_put 97 102])))) = [(ex_name, ([[102%N]; [103%N]], [[97%N]]))].
Proof. vm_compute. repeat split; reflexivity. Qed.

(* a reachable state with a directory holding a row and no definition: create, write, DeleteTable
   killed at disk.delete.undefined, start (what the checker's next_boot computes for that marker) *)
Example C08_dreach_orphan_with_rows :
  dreach ex_killed_delete /\ disk_inv ex_killed_delete
  /\ ex_killed_delete = mkDState [] [] [(ex_name, ex_row97)]
  /\ ~ orphans_empty ex_killed_delete
  /\ ex_killed_delete = next_boot (fst (fst (dstep ex_before_delete ex_delete))) (snd (dstep ex_before_delete ex_delete))
                                   (Some s_delete_undefined).
Proof. exact dreach_orphan_with_rows. Qed.

(* CreateTable on that state: (families, row keys) of the table at the four crash points and after *)
Example C08_create_over_orphan_with_rows :
  let view (s : server) := match alookup ex_name s with
                           | Some t => Some (map fst (t_fams t), map fst (t_rows t))
                           | None => None end in
  map (fun p => (fst p, view (restart (snd p)))) (snd (dstep ex_killed_delete (ex_create ex_fg)))
  = [ (s_create_cleaned, None); (s_meta_tmp, None);
      (s_meta_renamed, Some ([[102%N]; [103%N]], [])); (s_db_removed, Some ([[102%N]; [103%N]], [])) ]
  /\ view (restart (image_of (fst (fst (dstep ex_killed_delete (ex_create ex_fg)))))) = Some ([[102%N]; [103%N]], [])
  /\ ds_orphans (fst (fst (dstep ex_killed_delete (ex_create ex_fg)))) = [].
Proof. vm_compute. repeat split; reflexivity. Qed.

(* the double kill: create, write a row, DeleteTable killed at disk.delete.undefined, start,
   CreateTable killed at disk.meta.renamed, start: the table is defined and EMPTY (before the
   delete it held the row), and no directory is left without a definition *)
Example C08_double_kill_table_empty :
  dreach ex_double_kill
  /\ ds_mem ex_double_kill = [(ex_name, mkTable (make_fams ex_fg) [])]
  /\ ds_orphans ex_double_kill = []
  /\ ex_double_kill = next_boot (fst (fst (dstep ex_killed_delete (ex_create ex_fg)))) (snd (dstep ex_killed_delete (ex_create ex_fg)))
                                 (Some s_meta_renamed)
  /\ alookup ex_name (restart (image_of ex_before_delete)) = Some (mkTable (make_fams ex_fg) ex_row97).
Proof. exact double_kill_table_empty. Qed.

(* ---- table names: every table of every state of the disk engine - after any requests, restarts
        and kills inside requests - has a valid name
        projects/<project>/instances/<instance>/tables/<table id> ---- *)
Theorem C08_reachable_names_valid : forall d, dreach d ->
  forall n, In n (map fst (ds_mem d)) -> valid_table_name n.
Proof. exact dreach_names_valid. Qed.
Print Assumptions C08_reachable_names_valid.

(* the definition files too *)
Theorem C08_reachable_meta_names_valid : forall d n, dreach d -> In n (map fst (ds_meta d)) -> valid_table_name n.
Proof. exact dreach_meta_names_valid. Qed.
Print Assumptions C08_reachable_meta_names_valid.

(* hence the directory of one table never lies inside the directory of another *)
Theorem C08_reachable_tables_not_nested : forall d n1 n2 t1 t2, dreach d ->
  alookup n1 (ds_mem d) = Some t1 -> alookup n2 (ds_mem d) = Some t2 -> n1 <> n2 ->
  has_prefix (n2 ++ s_slash1) (n1 ++ s_slash1) = false.
Proof. exact dreach_tables_not_nested. Qed.
Print Assumptions C08_reachable_tables_not_nested.

(* a server started on a directory it did not write serves whatever definition files it finds: the
   statement is about the images the engine itself produces *)
Example C08_boot_arbitrary_image_names_refuted :
  let im := mkImage [([46%N; 46%N], [])] [] in
  map fst (ds_mem (boot im)) = [[46%N; 46%N]] /\ valid_table_nameb [46%N; 46%N] = false.
Proof. exact boot_arbitrary_image_names_refuted. Qed.

Example C08_reachable_names_valid_nonvacuous :
  let d := fst (drun init_dstate [ex_create ex_fg; ex_put 97 102]) in
  dreach d /\ map fst (ds_mem d) = [ex_name] /\ valid_table_nameb ex_name = true.
Proof. exact dreach_names_valid_nonvacuous. Qed.

(* ---- definition files: <name>.table.proto (written as <name>.table.proto.tmp and renamed) lies
        beside the directory <name>/; it is never the directory of a table nor inside one ---- *)
Theorem C08_definition_files_apart : forall n1 n2, valid_table_name n1 -> valid_table_name n2 ->
  n1 ++ s_table_proto <> n2
  /\ ~ has_prefix (n1 ++ s_table_proto) (n2 ++ s_slash1) = true
  /\ n1 ++ s_table_proto_tmp <> n2
  /\ ~ has_prefix (n1 ++ s_table_proto_tmp) (n2 ++ s_slash1) = true.
Proof. exact definition_files_apart. Qed.
Print Assumptions C08_definition_files_apart.

Theorem C08_reachable_definition_files_apart : forall d n1 n2, dreach d ->
  In n1 (map fst (ds_mem d)) -> In n2 (map fst (ds_mem d)) ->
  n1 ++ s_table_proto <> n2
  /\ ~ has_prefix (n1 ++ s_table_proto) (n2 ++ s_slash1) = true
  /\ n1 ++ s_table_proto_tmp <> n2
  /\ ~ has_prefix (n1 ++ s_table_proto_tmp) (n2 ++ s_slash1) = true.
Proof. exact dreach_definition_files_apart. Qed.
Print Assumptions C08_reachable_definition_files_apart.

(* different tables have different definition files, and no temporary is another's definition *)
Theorem C08_definition_files_distinct : forall n1 n2 : bytes,
  (n1 ++ s_table_proto = n2 ++ s_table_proto -> n1 = n2)
  /\ (n1 ++ s_table_proto_tmp = n2 ++ s_table_proto_tmp -> n1 = n2)
  /\ n1 ++ s_table_proto_tmp <> n2 ++ s_table_proto.
Proof. exact definition_files_distinct. Qed.
Print Assumptions C08_definition_files_distinct.

(* a table id has 1 to 50 characters and is not a definition-file name *)
Theorem C08_valid_tid_bounded : forall t, valid_tid t = true -> (1 <= length t <= 50)%nat.
Proof. exact valid_tid_bounded. Qed.
Print Assumptions C08_valid_tid_bounded.

Theorem C08_valid_tid_not_definition_file : forall t, valid_tid t = true ->
  has_suffix t s_table_proto = false /\ has_suffix t s_table_proto_tmp = false.
Proof. exact valid_tid_not_definition_file. Qed.
Print Assumptions C08_valid_tid_not_definition_file.

Theorem C08_reachable_tid_bounded : forall d n, dreach d -> In n (map fst (ds_mem d)) ->
  exists parent tid, n = table_name parent tid /\ valid_parent parent = true /\ valid_tid tid = true
                     /\ (1 <= length tid <= 50)%nat.
Proof. exact dreach_tid_bounded. Qed.
Print Assumptions C08_reachable_tid_bounded.

Example C08_tid_length_and_suffix :
  valid_tid ex_tid50 = true /\ valid_tid ex_tid51 = false                        (* 50 and 51 characters *)
  /\ valid_tid (ex_tid ++ s_table_proto) = false                                 (* t1.table.proto *)
  /\ valid_tid (120%N :: s_table_proto_tmp) = false                              (* x.table.proto.tmp *)
  /\ valid_tid (97%N :: s_table_proto ++ [120%N]) = true                         (* a.table.protox *)
  /\ valid_tid (ex_tid ++ s_table_proto ++ [46%N; 116%N]) = true                 (* t1.table.proto.t *)
  /\ valid_table_nameb (table_name ex_parent ex_tid ++ s_table_proto) = false.
Proof. exact ex_tid_length_and_suffix. Qed.

(* on the disk engine: with t1 registered, CreateTable "t1.table.proto" and a 51-character id are
   refused, nothing is written (no crash point), the state is unchanged *)
Example C08_create_definition_file_rejected :
  let d := fst (drun init_dstate [mkCall (BCreateTable ex_parent ex_tid []) 0%Z []]) in
  dreach d /\ ds_mem d <> []
  /\ dstep d (mkCall (BCreateTable ex_parent (ex_tid ++ s_table_proto) []) 0%Z []) = (d, fail cInvalidArgument, [])
  /\ dstep d (mkCall (BCreateTable ex_parent ex_tid51 []) 0%Z []) = (d, fail cInvalidArgument, [])
  /\ br_code (snd (fst (dstep d (mkCall (BCreateTable ex_parent ex_tid50 []) 0%Z [])))) = cOK.
Proof. split; [apply drun_dreach; apply DR_init|]. vm_compute. repeat split. discriminate. Qed.

(* C20 — statements about the handler models: every answer is a well-formed status and an error
   leaves the stored data untouched (both emulators).  The rest of C20 (panics of library code,
   data races, hangs) is outside what a model can express and is judged dynamically. *)
From Coq Require Import List NArith ZArith Bool.
Import ListNotations.
From Emu.Common Require Import Bytes Str.
From Emu.GCS Require Import Model CondsSpec CondsProofs HandlerProofs.
From Emu.BT Require Import Types Server ConcProofs.
From Emu.BT Require AdminProofs.

Theorem C20_gcs_error_leaves_objects : forall s r,
  let '(s', rsp) := handle s r in
  is_success (r_status rsp) = false -> s_buckets s' = s_buckets s /\ s_clock s' = s_clock s.
Proof. exact failed_request_frame. Qed.
Print Assumptions C20_gcs_error_leaves_objects.

Theorem C20_bt_error_leaves_server : forall s c,
  br_code (snd (step s c)) <> cOK -> fst (step s c) = s.
Proof. exact failure_atomic. Qed.
Print Assumptions C20_bt_error_leaves_server.

(* CreateTable with an invalid table id or parent (ids such as "t2/../t1", "./t1", ".." used to
   resolve to another table's files): InvalidArgument, the server is unchanged *)
Theorem C20_create_rejects_invalid_names : forall s parent tid fams now coins,
  valid_tid tid = false \/ valid_parent parent = false ->
  step s (mkCall (BCreateTable parent tid fams) now coins) = (s, fail cInvalidArgument).
Proof. exact AdminProofs.create_rejects_invalid_names. Qed.
Print Assumptions C20_create_rejects_invalid_names.

(* every table name registered in any reachable server has the form
   projects/<project>/instances/<instance>/tables/<table id> *)
Theorem C20_reachable_table_names_valid : forall cs n,
  In n (map fst (fst (run [] cs))) -> AdminProofs.valid_table_name n.
Proof. exact AdminProofs.reachable_table_names_valid. Qed.
Print Assumptions C20_reachable_table_names_valid.

Example C20_create_rejected :
  let s := fst (run [] [mkCall (BCreateTable AdminProofs.ex_parent AdminProofs.ex_tid []) 0%Z []]) in
  s <> []
  /\ step s (mkCall (BCreateTable AdminProofs.ex_parent
                       (AdminProofs.ex_tid2 ++ s_slash1 ++ s_dotdot ++ s_slash1 ++ AdminProofs.ex_tid) []) 0%Z [])
     = (s, fail cInvalidArgument)
  /\ step s (mkCall (BCreateTable AdminProofs.ex_parent (s_dot ++ s_slash1 ++ AdminProofs.ex_tid) []) 0%Z []) = (s, fail cInvalidArgument)
  /\ step s (mkCall (BCreateTable (AdminProofs.table_name AdminProofs.ex_parent AdminProofs.ex_tid) AdminProofs.ex_tid2 []) 0%Z [])
     = (s, fail cInvalidArgument)
  /\ br_code (snd (step s (mkCall (BCreateTable AdminProofs.ex_parent AdminProofs.ex_tid2 []) 0%Z []))) = cOK.
Proof. exact AdminProofs.ex_create_rejected. Qed.

(* GCS-18 repaired: a request that would give a new object a name that is not valid UTF-8 (media
   upload, compose destination, copy destination) is answered 400 and changes nothing, whatever
   the state; requests whose new name is valid, or that name no new object, pass the check unchanged *)
From Emu.Common Require Import Utf8.
From Emu.GCS Require Import Wire WireProofs.
Theorem C20_invalid_name_refused : forall s r,
  names_valid r = false -> handle s (sanitize r) = (s, err 400).
Proof. exact sanitize_invalid_refused. Qed.
Print Assumptions C20_invalid_name_refused.

Theorem C20_valid_name_passes : forall r, names_valid r = true -> sanitize r = r.
Proof. exact sanitize_valid. Qed.
Print Assumptions C20_valid_name_passes.

Theorem C20_ascii_is_valid : forall s, ascii s -> utf8_valid s = true.
Proof. exact ascii_valid. Qed.
Print Assumptions C20_ascii_is_valid.

Example C20_invalid_upload_refused :
  run_wire init_state [RUploadMedia [98]%N bad_name_witness [] [120]%N no_cparams] = (init_state, [err 400]).
Proof. exact wire_invalid_upload_refused. Qed.

(* C20 — statements about the handler models: every answer is a well-formed status and an error
   leaves the stored data untouched (both emulators).  The rest of C20 (panics of library code,
   data races, hangs) is outside what a model can express and is judged dynamically. *)
From Coq Require Import List NArith ZArith Bool.
Import ListNotations.
From Emu.Common Require Import Bytes Str.
From Emu.GCS Require Import Model CondsSpec CondsProofs HandlerProofs.
From Emu.BT Require Import Types Server ConcProofs.

Theorem C20_gcs_error_leaves_objects : forall s r,
  let '(s', rsp) := handle s r in
  is_success (r_status rsp) = false -> s_buckets s' = s_buckets s /\ s_clock s' = s_clock s.
Proof. exact failed_request_frame. Qed.
Print Assumptions C20_gcs_error_leaves_objects.

Theorem C20_bt_error_leaves_server : forall s c,
  br_code (snd (step s c)) <> cOK -> fst (step s c) = s.
Proof. exact failure_atomic. Qed.
Print Assumptions C20_bt_error_leaves_server.

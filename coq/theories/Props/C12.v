(* C12 — Bigtable CheckAndMutateRow: the predicate is evaluated on the row's current content, exactly
   the selected mutation list is applied, atomically.  Only statements here; proofs are in
   BT/CamProofs.v (over the sequential model Server.step, table present). *)
From Coq Require Import List NArith ZArith Bool.
Import ListNotations.
From Emu.Common Require Import Bytes Str StrProofs.
From Emu.BT Require Import Types Regex Mutate Filter Server FilterSpec CellSpec CamProofs.
Local Open Scope Z_scope.

(* the verdict: with a (valid) predicate, "matched" iff evaluating it on the row's current content
   leaves at least one cell *)
Theorem C12_cam_matched_iff : forall s tbl t key p tm fm now coins b,
  alookup tbl s = Some t -> fvalid p = true ->
  br_body (snd (step s (cam_call tbl key (Some p) tm fm now coins))) = YMatched b ->
  b = (let '(m, nfs, _) := feval key p (get_row t key) coins in m && negb (is_empty_fams nfs))
  /\ (b = true <-> let '(m, nfs, _) := feval key p (get_row t key) coins in m = true /\ flatten nfs <> []).
Proof. exact cam_matched_iff. Qed.
Print Assumptions C12_cam_matched_iff.

(* without a predicate, "matched" iff the row has a cell *)
Theorem C12_cam_matched_nopred_iff : forall s tbl t key tm fm now coins b,
  alookup tbl s = Some t ->
  br_body (snd (step s (cam_call tbl key None tm fm now coins))) = YMatched b ->
  (b = true <-> flatten (get_row t key) <> []).
Proof. exact cam_matched_nopred_iff. Qed.
Print Assumptions C12_cam_matched_nopred_iff.

(* the answer is that verdict or the error Unknown, nothing else *)
Theorem C12_cam_response_shape : forall s tbl t key pred tm fm now coins,
  alookup tbl s = Some t -> pred_valid pred = true ->
  let r := snd (step s (cam_call tbl key pred tm fm now coins)) in
  r = ok (YMatched (cam_which key pred (get_row t key) coins)) \/ r = fail cUnknown.
Proof. exact cam_response_shape. Qed.
Print Assumptions C12_cam_response_shape.

(* the verdict is what ReadRows of that single key with the same filter (same coins, no limit)
   shows: the row is returned iff matched *)
Theorem C12_cam_matches_readrows : forall s tbl t key p now coins,
  alookup tbl s = Some t -> row_stored t key -> fvalid p = true ->
  let b := cam_which key (Some p) (get_row t key) coins in
  let filtered := snd (fst (feval key p (get_row t key) coins)) in
  step s (mkCall (BReadRows tbl [key] [] (Some p) 0) now coins)
  = (s, ok (YRows (if b then [mkRow key (scrub_fams (t_fams t) filtered)] else []))).
Proof. exact cam_matches_readrows. Qed.
Print Assumptions C12_cam_matches_readrows.

Theorem C12_cam_matched_iff_readrows : forall s tbl t key p tm fm now now' coins b,
  alookup tbl s = Some t -> row_stored t key -> fvalid p = true ->
  br_body (snd (step s (cam_call tbl key (Some p) tm fm now coins))) = YMatched b ->
  exists rows, snd (step s (mkCall (BReadRows tbl [key] [] (Some p) 0) now' coins)) = ok (YRows rows)
    /\ (b = true <-> exists r, rows = [r] /\ row_key r = key /\ row_fams r <> [])
    /\ (b = false <-> rows = []).
Proof. exact cam_matched_iff_readrows. Qed.
Print Assumptions C12_cam_matched_iff_readrows.

(* every table satisfying the representation invariant stores its rows in that form *)
Theorem C12_table_ok_row_stored : forall t key, table_ok t -> row_stored t key.
Proof. exact table_ok_row_stored. Qed.
Print Assumptions C12_table_ok_row_stored.

(* the new state is exactly MutateRow's with the selected list, from the same state and clock;
   same status code; on error nothing changes *)
Theorem C12_cam_applies_selected_branch : forall s tbl t key pred tm fm now coins,
  alookup tbl s = Some t -> pred_valid pred = true ->
  let b := cam_which key pred (get_row t key) coins in
  let '(s1, r1) := step s (cam_call tbl key pred tm fm now coins) in
  let '(s2, r2) := step s (mkCall (BMutateRow tbl key (if b then tm else fm)) now coins) in
  s1 = s2 /\ br_code r1 = br_code r2
  /\ (br_code r1 = cOK -> r1 = ok (YMatched b) /\ r2 = ok YNone)
  /\ (br_code r1 <> cOK -> r1 = fail cUnknown /\ r2 = fail cUnknown /\ s1 = s).
Proof. exact cam_applies_selected_branch. Qed.
Print Assumptions C12_cam_applies_selected_branch.

(* errors are atomic, and only the predicate and the SELECTED list can cause one *)
Theorem C12_cam_error_atomic : forall s tbl t key pred tm fm now coins,
  alookup tbl s = Some t ->
  let b := cam_which key pred (get_row t key) coins in
  let '(s1, r1) := step s (cam_call tbl key pred tm fm now coins) in
  (pred_valid pred = false -> r1 = fail cInvalidArgument /\ s1 = s)
  /\ (pred_valid pred = true -> forallb (mutation_ok (t_fams t) now) (if b then tm else fm) = false ->
      r1 = fail cUnknown /\ s1 = s)
  /\ (pred_valid pred = true -> forallb (mutation_ok (t_fams t) now) (if b then tm else fm) = true ->
      r1 = ok (YMatched b)).
Proof. exact cam_error_atomic. Qed.
Print Assumptions C12_cam_error_atomic.

(* "invalid mutation" is a property of the mutation, the table's families and the clock only *)
Theorem C12_mutations_fail_iff : forall tf now ms fs,
  apply_mutations tf now fs ms = None <-> forallb (mutation_ok tf now) ms = false.
Proof. intros tf now ms fs. apply apply_mutations_none_iff. Qed.
Print Assumptions C12_mutations_fail_iff.

(* the list that is not selected may contain anything *)
Theorem C12_cam_other_branch_irrelevant : forall s tbl t key pred tm fm other now coins,
  alookup tbl s = Some t ->
  let b := cam_which key pred (get_row t key) coins in
  step s (cam_call tbl key pred tm fm now coins)
  = step s (cam_call tbl key pred (if b then tm else other) (if b then other else fm) now coins).
Proof. exact cam_other_branch_irrelevant. Qed.
Print Assumptions C12_cam_other_branch_irrelevant.

(* ---- non-vacuity: table "t" with family "f", row "k" = { f:q @1000 "v" } ---- *)
Definition c12_t : table :=
  mkTable [(H 0x0166, None)]
          [(H 0x016b, [mkFam (H 0x0166) [mkCol (H 0x0171) [mkCell 1000 (H 0x0176) []]]])].
Definition c12_s : server := [(H 0x0174, c12_t)].
Definition c12_pred : rfilter := FChain [FValueRegex (RxOk (RLit 118)); FCellsPerRowLimit 1].   (* value == "v" *)
Definition c12_tm := [SetCell (H 0x0166) (H 0x0172) 2000 (H 0x0131)].
Definition c12_bad := [SetCell (H 0x017a) (H 0x0172) 2000 (H 0x0131)].                          (* unknown family *)

Example C12_nonvacuous_hyps :
  alookup (H 0x0174) c12_s = Some c12_t /\ row_stored c12_t (H 0x016b) /\ table_ok c12_t
  /\ fvalid c12_pred = true.
Proof.
  assert (T : table_ok c12_t).
  { split; [apply as_one|]. constructor; [|constructor]. split; [|discriminate]. split.
    - split; [repeat constructor; cbn; tauto|]. repeat constructor; cbn; tauto.
    - repeat constructor; cbn; try discriminate; tauto. }
  split; [reflexivity|]. split; [apply table_ok_row_stored, T|]. split; [exact T|reflexivity].
Qed.

(* matched: the true-list is applied (an invalid false-list does not matter) and ReadRows shows the row *)
Example C12_nonvacuous_matched :
  let '(s1, r1) := step c12_s (cam_call (H 0x0174) (H 0x016b) (Some c12_pred) c12_tm c12_bad 5000 []) in
  r1 = ok (YMatched true)
  /\ s1 = fst (step c12_s (mkCall (BMutateRow (H 0x0174) (H 0x016b) c12_tm) 5000 []))
  /\ s1 <> c12_s
  /\ snd (step c12_s (mkCall (BReadRows (H 0x0174) [H 0x016b] [] (Some c12_pred) 0) 7 []))
     = ok (YRows [mkRow (H 0x016b) [mkFam (H 0x0166) [mkCol (H 0x0171) [mkCell 1000 (H 0x0176) []]]]]).
Proof. vm_compute. repeat split; try reflexivity. discriminate. Qed.

(* not matched (absent row): the false-list is selected; it is invalid: error, state unchanged *)
Example C12_nonvacuous_error :
  step c12_s (cam_call (H 0x0174) (H 0x017a) (Some c12_pred) c12_tm c12_bad 5000 []) = (c12_s, fail cUnknown)
  /\ step c12_s (cam_call (H 0x0174) (H 0x016b) (Some (FSample false)) c12_tm c12_tm 5000 [])
     = (c12_s, fail cInvalidArgument)
  /\ snd (step c12_s (cam_call (H 0x0174) (H 0x017a) None c12_bad c12_tm 5000 [])) = ok (YMatched false).
Proof. vm_compute. repeat split; reflexivity. Qed.

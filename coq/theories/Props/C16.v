(* C16 (policy half) — Bigtable: garbage collection removes exactly what the GC rules condemn.
   Only statements here; proofs are in BT/GcProofs.v.  (The concurrency half of C16 — writes racing
   with a pass — is not about this sequential model.) *)
From Coq Require Import List NArith ZArith Bool.
Import ListNotations.
From Emu.Common Require Import Bytes Str StrProofs.
From Emu.BT Require Import Types Mutate Gc Server CellSpec CellProofs GcProofs MutateProofs.
Local Open Scope Z_scope.

(* the policy *)
Theorem C16_condemned_max_versions : forall n now idx c, 0 <= n ->
  condemned (GMaxVersions n) now idx c = (Z.to_nat n <=? idx)%nat.
Proof. exact max_versions_exact. Qed.
Print Assumptions C16_condemned_max_versions.

Theorem C16_condemned_max_age : forall secs nanos now idx c,
  condemned (GMaxAge secs nanos) now idx c = (c_ts c <? gc_cutoff secs nanos now).
Proof. exact max_age_boundary. Qed.
Print Assumptions C16_condemned_max_age.

Theorem C16_condemned_union : forall rs now idx c,
  condemned (GUnion rs) now idx c = existsb (fun r => condemned r now idx c) rs.
Proof. exact condemned_union. Qed.
Print Assumptions C16_condemned_union.

(* boundary: a cell exactly at the cut-off is retained *)
Theorem C16_cutoff_retained : forall secs nanos now idx c,
  c_ts c = gc_cutoff secs nanos now -> condemned (GMaxAge secs nanos) now idx c = false.
Proof. exact max_age_cutoff_retained. Qed.
Print Assumptions C16_cutoff_retained.

(* applyGC keeps exactly the cells that are not condemned (descending column) *)
Theorem C16_apply_gc_is_filter : forall rule now cells, desc cells ->
  apply_gc cells rule now = filter_idx (fun i c => negb (condemned rule now i c)) 0 cells.
Proof. exact apply_gc_is_filter. Qed.
Print Assumptions C16_apply_gc_is_filter.

(* for any list at all it cuts at the first condemned cell ... *)
Theorem C16_apply_gc_take : forall rule now cells,
  apply_gc cells rule now = take_idx (retained rule now) 0 cells.
Proof. exact apply_gc_take. Qed.
Print Assumptions C16_apply_gc_take.

(* ... so the result is a prefix: it never invents, alters or reorders cells *)
Theorem C16_apply_gc_prefix : forall rule now cells,
  apply_gc cells rule now = firstn (length (apply_gc cells rule now)) cells.
Proof. exact apply_gc_prefix. Qed.
Print Assumptions C16_apply_gc_prefix.

Theorem C16_apply_gc_subset : forall rule now cells c, In c (apply_gc cells rule now) -> In c cells.
Proof. exact apply_gc_subset. Qed.
Print Assumptions C16_apply_gc_subset.

(* monotone condemnation down a descending column *)
Theorem C16_condemned_mono : forall rule now i j c d,
  (i <= j)%nat -> c_ts d <= c_ts c -> condemned rule now i c = true -> condemned rule now j d = true.
Proof. exact condemned_mono. Qed.
Print Assumptions C16_condemned_mono.

Theorem C16_max_versions_negative : forall n now cells, n < 0 -> apply_gc cells (GMaxVersions n) now = cells.
Proof. exact max_versions_negative. Qed.
Print Assumptions C16_max_versions_negative.

(* one row: families without a rule / with an unsupported rule are returned untouched, the other
   families column by column through apply_gc *)
Theorem C16_gc_fam_untouched : forall tf now f,
  match alookup (fam_name f) tf with Some (Some GOther) | Some None | None => True | _ => False end ->
  gc_fam tf now f = f.
Proof. exact gc_fam_untouched. Qed.
Print Assumptions C16_gc_fam_untouched.

Theorem C16_gc_cells_of : forall tf now fs f q,
  cells_of (snd (gc_fams tf now fs)) f q
  = match alookup f tf with
    | Some (Some rule) => apply_gc (cells_of fs f q) rule now
    | _ => cells_of fs f q
    end.
Proof. exact gc_cells_of. Qed.
Print Assumptions C16_gc_cells_of.

Theorem C16_gc_unchanged : forall tf now fs, fst (gc_fams tf now fs) = false -> snd (gc_fams tf now fs) = fs.
Proof. exact gc_unchanged. Qed.
Print Assumptions C16_gc_unchanged.

(* the pass over a table *)
Theorem C16_gc_pass_spec : forall t now, table_ok t ->
  let t' := gc_pass t now in
  table_ok t' /\ t_fams t' = t_fams t
  /\ (forall key, gc_content (t_fams t) now (get_row t key) (get_row t' key))
  /\ (forall key, alookup key (t_rows t') = None <-> forall f q ts, abs_fams (get_row t' key) f q ts = None).
Proof. exact gc_pass_spec. Qed.
Print Assumptions C16_gc_pass_spec.

(* the request: other tables untouched, invariant kept *)
Theorem C16_gc_step_spec : forall s tbl now coins, server_ok s ->
  let '(s', rsp) := step s (mkCall (BRunGC tbl) now coins) in
  server_ok s'
  /\ (forall n, n <> tbl -> alookup n s' = alookup n s)
  /\ match alookup tbl s with
     | Some t => alookup tbl s' = Some (gc_pass t now) /\ rsp = ok YNone
     | None => s' = s /\ rsp = fail cNotFound
     end.
Proof. exact gc_step_spec. Qed.
Print Assumptions C16_gc_step_spec.

(* non-vacuity: a descending column; the cut-off falls exactly on a cell; unions *)
Example C16_nonvacuous :
  let cells := [mkCell 9000 [1%N] []; mkCell 7000 [2%N] []; mkCell 5000 [3%N] []; mkCell 1000 [4%N] []] in
  desc cells
  /\ gc_cutoff 0 3000000 8000 = 5000
  /\ apply_gc cells (GMaxAge 0 3000000) 8000 = firstn 3 cells
  /\ apply_gc cells (GMaxVersions 2) 8000 = firstn 2 cells
  /\ apply_gc cells (GUnion [GMaxVersions 3; GMaxAge 0 1000000]) 8000 = firstn 2 cells
  /\ apply_gc cells (GUnion [GOther; GMaxVersions (-1)]) 8000 = cells.
Proof. exact gc_example. Qed.

(* a table on which the pass removes a whole row and trims another *)
Example C16_nonvacuous_table :
  let tf := [([102%N], Some (GMaxAge 0 0)); ([103%N], None)] in
  let t := mkTable tf
             [([97%N], [mkFam [102%N] [mkCol [113%N] [mkCell 1000 [1%N] []]]]);
              ([98%N], [mkFam [102%N] [mkCol [113%N] [mkCell 9000 [1%N] []; mkCell 2000 [2%N] []]];
                        mkFam [103%N] [mkCol [113%N] [mkCell 1000 [5%N] []]]])] in
  gc_pass t 5000
  = mkTable tf [([98%N], [mkFam [102%N] [mkCol [113%N] [mkCell 9000 [1%N] []]];
                          mkFam [103%N] [mkCol [113%N] [mkCell 1000 [5%N] []]]])].
Proof. vm_compute. reflexivity. Qed.

(* the same table reached by a client history (hence server_ok, by C01_history), then a GC request *)
Example C16_nonvacuous_history :
  let s := fst (run [] gc_history) in
  server_ok s
  /\ (exists t, alookup gc_tbl s = Some t /\ table_ok t /\ length (t_rows t) = 2%nat)
  /\ exists t', alookup gc_tbl (fst (step s (mkCall (BRunGC gc_tbl) 5000 []))) = Some t'
       /\ t_rows t' = [([98%N], [mkFam [102%N] [mkCol [113%N] [mkCell 9000 [1%N] []]];
                                 mkFam [103%N] [mkCol [113%N] [mkCell 1000 [5%N] []]]])].
Proof.
  assert (Hs : server_ok (fst (run [] gc_history))) by apply MutateProofs.C01_history.
  split; [exact Hs|]. split.
  - assert (Hl : alookup gc_tbl (fst (run [] gc_history)) = Some (mkTable
        [([102%N], Some (GMaxAge 0 0)); ([103%N], None)]
        [([97%N], [mkFam [102%N] [mkCol [113%N] [mkCell 1000 [1%N] []]]]);
         ([98%N], [mkFam [102%N] [mkCol [113%N] [mkCell 9000 [1%N] []; mkCell 2000 [2%N] []]];
                   mkFam [103%N] [mkCol [113%N] [mkCell 1000 [5%N] []]]])])) by (vm_compute; reflexivity).
    eexists. split; [exact Hl|]. split; [|reflexivity].
    eapply server_ok_lookup; [exact Hs|exact Hl].
  - exists (mkTable [([102%N], Some (GMaxAge 0 0)); ([103%N], None)]
             [([98%N], [mkFam [102%N] [mkCol [113%N] [mkCell 9000 [1%N] []]];
                        mkFam [103%N] [mkCol [113%N] [mkCell 1000 [5%N] []]]])]).
    split; vm_compute; reflexivity.
Qed.

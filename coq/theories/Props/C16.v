(* C16 (policy half) — Bigtable: garbage collection removes exactly what the GC rules condemn.
   Only statements here; proofs are in BT/GcProofs.v.  (The concurrency half of C16 — writes racing
   with a pass — is not about this sequential model.) *)
From Coq Require Import List NArith ZArith Bool.
Import ListNotations.
From Emu.Common Require Import Bytes Str StrProofs.
From Emu.BT Require Import Types Mutate Gc Server CellSpec CellProofs GcProofs MutateProofs.
Local Open Scope Z_scope.

(* the policy *)
Theorem C16_condemned_max_versions : forall n now idx c, 0 <= n ->
  condemned (GMaxVersions n) now idx c = (Z.to_nat n <=? idx)%nat.
Proof. exact max_versions_exact. Qed.
Print Assumptions C16_condemned_max_versions.

Theorem C16_condemned_max_age : forall secs nanos now idx c,
  condemned (GMaxAge secs nanos) now idx c = (c_ts c <? gc_cutoff secs nanos now).
Proof. exact max_age_boundary. Qed.
Print Assumptions C16_condemned_max_age.

Theorem C16_condemned_union : forall rs now idx c,
  condemned (GUnion rs) now idx c = existsb (fun r => condemned r now idx c) rs.
Proof. exact condemned_union. Qed.
Print Assumptions C16_condemned_union.

(* boundary: a cell exactly at the cut-off is retained *)
Theorem C16_cutoff_retained : forall secs nanos now idx c,
  c_ts c = gc_cutoff secs nanos now -> condemned (GMaxAge secs nanos) now idx c = false.
Proof. exact max_age_cutoff_retained. Qed.
Print Assumptions C16_cutoff_retained.

(* applyGC keeps exactly the cells that are not condemned (descending column) *)
Theorem C16_apply_gc_is_filter : forall rule now cells, desc cells ->
  apply_gc cells rule now = filter_idx (fun i c => negb (condemned rule now i c)) 0 cells.
Proof. exact apply_gc_is_filter. Qed.
Print Assumptions C16_apply_gc_is_filter.

(* for any list at all it cuts at the first condemned cell ... *)
Theorem C16_apply_gc_take : forall rule now cells,
  apply_gc cells rule now = take_idx (retained rule now) 0 cells.
Proof. exact apply_gc_take. Qed.
Print Assumptions C16_apply_gc_take.

(* ... so the result is a prefix: it never invents, alters or reorders cells *)
Theorem C16_apply_gc_prefix : forall rule now cells,
  apply_gc cells rule now = firstn (length (apply_gc cells rule now)) cells.
Proof. exact apply_gc_prefix. Qed.
Print Assumptions C16_apply_gc_prefix.

Theorem C16_apply_gc_subset : forall rule now cells c, In c (apply_gc cells rule now) -> In c cells.
Proof. exact apply_gc_subset. Qed.
Print Assumptions C16_apply_gc_subset.

(* monotone condemnation down a descending column *)
Theorem C16_condemned_mono : forall rule now i j c d,
  (i <= j)%nat -> c_ts d <= c_ts c -> condemned rule now i c = true -> condemned rule now j d = true.
Proof. exact condemned_mono. Qed.
Print Assumptions C16_condemned_mono.

Theorem C16_max_versions_negative : forall n now cells, n < 0 -> apply_gc cells (GMaxVersions n) now = cells.
Proof. exact max_versions_negative. Qed.
Print Assumptions C16_max_versions_negative.

(* one row: families without a rule / with an unsupported rule are returned untouched, the other
   families column by column through apply_gc *)
Theorem C16_gc_fam_untouched : forall tf now f,
  match alookup (fam_name f) tf with Some (Some GOther) | Some None | None => True | _ => False end ->
  gc_fam tf now f = f.
Proof. exact gc_fam_untouched. Qed.
Print Assumptions C16_gc_fam_untouched.

Theorem C16_gc_cells_of : forall tf now fs f q,
  cells_of (snd (gc_fams tf now fs)) f q
  = match alookup f tf with
    | Some (Some rule) => apply_gc (cells_of fs f q) rule now
    | _ => cells_of fs f q
    end.
Proof. exact gc_cells_of. Qed.
Print Assumptions C16_gc_cells_of.

Theorem C16_gc_unchanged : forall tf now fs, fst (gc_fams tf now fs) = false -> snd (gc_fams tf now fs) = fs.
Proof. exact gc_unchanged. Qed.
Print Assumptions C16_gc_unchanged.

(* the pass over a table *)
Theorem C16_gc_pass_spec : forall t now, table_ok t ->
  let t' := gc_pass t now in
  table_ok t' /\ t_fams t' = t_fams t
  /\ (forall key, gc_content (t_fams t) now (get_row t key) (get_row t' key))
  /\ (forall key, alookup key (t_rows t') = None <-> forall f q ts, abs_fams (get_row t' key) f q ts = None).
Proof. exact gc_pass_spec. Qed.
Print Assumptions C16_gc_pass_spec.

(* the request: other tables untouched, invariant kept *)
Theorem C16_gc_step_spec : forall s tbl now coins, server_ok s ->
  let '(s', rsp) := step s (mkCall (BRunGC tbl) now coins) in
  server_ok s'
  /\ (forall n, n <> tbl -> alookup n s' = alookup n s)
  /\ match alookup tbl s with
     | Some t => alookup tbl s' = Some (gc_pass t now) /\ rsp = ok YNone
     | None => s' = s /\ rsp = fail cNotFound
     end.
Proof. exact gc_step_spec. Qed.
Print Assumptions C16_gc_step_spec.

(* non-vacuity: a descending column; the cut-off falls exactly on a cell; unions *)
Example C16_nonvacuous :
  let cells := [mkCell 9000 [1%N] []; mkCell 7000 [2%N] []; mkCell 5000 [3%N] []; mkCell 1000 [4%N] []] in
  desc cells
  /\ gc_cutoff 0 3000000 8000 = 5000
  /\ apply_gc cells (GMaxAge 0 3000000) 8000 = firstn 3 cells
  /\ apply_gc cells (GMaxVersions 2) 8000 = firstn 2 cells
  /\ apply_gc cells (GUnion [GMaxVersions 3; GMaxAge 0 1000000]) 8000 = firstn 2 cells
  /\ apply_gc cells (GUnion [GOther; GMaxVersions (-1)]) 8000 = cells.
Proof. exact gc_example. Qed.

(* a table on which the pass removes a whole row and trims another *)
Example C16_nonvacuous_table :
  let tf := [([102%N], Some (GMaxAge 0 0)); ([103%N], None)] in
  let t := mkTable tf
             [([97%N], [mkFam [102%N] [mkCol [113%N] [mkCell 1000 [1%N] []]]]);
              ([98%N], [mkFam [102%N] [mkCol [113%N] [mkCell 9000 [1%N] []; mkCell 2000 [2%N] []]];
                        mkFam [103%N] [mkCol [113%N] [mkCell 1000 [5%N] []]]])] in
  gc_pass t 5000
  = mkTable tf [([98%N], [mkFam [102%N] [mkCol [113%N] [mkCell 9000 [1%N] []]];
                          mkFam [103%N] [mkCol [113%N] [mkCell 1000 [5%N] []]]])].
Proof. vm_compute. reflexivity. Qed.

(* the same table reached by a client history (hence server_ok, by C01_history), then a GC request *)
Example C16_nonvacuous_history :
  let s := fst (run [] gc_history) in
  server_ok s
  /\ (exists t, alookup gc_tbl s = Some t /\ table_ok t /\ length (t_rows t) = 2%nat)
  /\ exists t', alookup gc_tbl (fst (step s (mkCall (BRunGC gc_tbl) 5000 []))) = Some t'
       /\ t_rows t' = [([98%N], [mkFam [102%N] [mkCol [113%N] [mkCell 9000 [1%N] []]];
                                 mkFam [103%N] [mkCol [113%N] [mkCell 1000 [5%N] []]]])].
Proof.
  assert (Hs : server_ok (fst (run [] gc_history))) by apply MutateProofs.C01_history.
  split; [exact Hs|]. split.
  - assert (Hl : alookup gc_tbl (fst (run [] gc_history)) = Some (mkTable
        [([102%N], Some (GMaxAge 0 0)); ([103%N], None)]
        [([97%N], [mkFam [102%N] [mkCol [113%N] [mkCell 1000 [1%N] []]]]);
         ([98%N], [mkFam [102%N] [mkCol [113%N] [mkCell 9000 [1%N] []; mkCell 2000 [2%N] []]];
                   mkFam [103%N] [mkCol [113%N] [mkCell 1000 [5%N] []]]])])) by (vm_compute; reflexivity).
    eexists. split; [exact Hl|]. split; [|reflexivity].
    eapply server_ok_lookup; [exact Hs|exact Hl].
  - exists (mkTable [([102%N], Some (GMaxAge 0 0)); ([103%N], None)]
             [([98%N], [mkFam [102%N] [mkCol [113%N] [mkCell 9000 [1%N] []]];
                        mkFam [103%N] [mkCol [113%N] [mkCell 1000 [5%N] []]]])]).
    split; vm_compute; reflexivity.
Qed.

(* ================================================================== *)
(* hand-over (interleaving) theorems                                   *)
(* ================================================================== *)
(* The concurrency half of C16: a GC pass hands the table lock over every btGcBatch rows and races
   with writers.  Statements about the interleaving model BT/Conc.v (one scheduler step of the GC
   thread = one batch), for ALL schedules; proofs are in BT/GcConcProofs.v and BT/ConcProofs.v. *)
From Emu.Gen Require Import Consts.
From Emu.BT Require Import Conc ConcProofs GcConcProofs.

(* one batch changes only rows among the first btGcBatch keys, each to what the per-row step
   makes of its CURRENT value in t (the row is re-read under the lock); the other rows and the
   schema are untouched; the keys left are the rest of the list *)
Theorem C16_gc_section_pointwise : forall t now keys, asorted (t_rows t) -> NoDup keys ->
  let t' := fst (gc_section t now keys) in
  snd (gc_section t now keys) = skipn (Z.to_nat btGcBatch) keys
  /\ (length (gc_batch keys) <= Z.to_nat btGcBatch)%nat
  /\ t_fams t' = t_fams t
  /\ asorted (t_rows t')
  /\ (forall k, ~ In k (gc_batch keys) -> alookup k (t_rows t') = alookup k (t_rows t))
  /\ (forall k, In k (gc_batch keys) ->
        alookup k (t_rows t') =
        match alookup k (t_rows t) with
        | None => None
        | Some fs => if fst (gc_fams (t_fams t) now fs)
                     then AdminProofs.nonempty_opt (scrub_fams (t_fams t) (snd (gc_fams (t_fams t) now fs)))
                     else Some fs
        end).
Proof. exact gc_section_pointwise. Qed.
Print Assumptions C16_gc_section_pointwise.

(* in terms of contents: per visited row exactly what the rules condemn NOW goes *)
Theorem C16_gc_section_content : forall t now keys, table_ok t -> NoDup keys ->
  let t' := fst (gc_section t now keys) in
  table_ok t' /\ t_fams t' = t_fams t
  /\ (forall k, In k (gc_batch keys) -> gc_content (t_fams t) now (get_row t k) (get_row t' k))
  /\ (forall k, ~ In k (gc_batch keys) -> alookup k (t_rows t') = alookup k (t_rows t)).
Proof. exact gc_section_content. Qed.
Print Assumptions C16_gc_section_content.

(* gc_sections_bounded: "never locks clients out for more than one batch".  One scheduler step
   of a parked GC thread = ONE batch of at most btGcBatch rows, then it is parked at the hand-over
   again (with exactly the other keys left) or has answered ... *)
Theorem C16_gc_step_one_batch : forall st i c rest keys now tbl,
  thread_at st i c rest (PGc keys now) -> Conc.req_table (cl_req c) = Some tbl ->
  snd (cstep st i) <> OBlocked ->
  cs_server (fst (cstep st i)) = apply_effect (cs_server st) (EGc tbl now keys)
  /\ (length (gc_batch keys) <= Z.to_nat btGcBatch)%nat
  /\ ((snd (cstep st i) = OAt /\ prog_at (fst (cstep st i)) i = PGc (skipn (Z.to_nat btGcBatch) keys) now)
      \/ (snd (cstep st i) = ODone (ok YNone) /\ prog_at (fst (cstep st i)) i = PNew)).
Proof. exact gc_step_one_batch. Qed.
Print Assumptions C16_gc_step_one_batch.

(* ... and while it is parked it keeps nobody out: only writers parked inside their write
   section (PMid) ever block a step *)
Theorem C16_gc_parked_never_blocks : forall st i g keys now,
  conc_inv st -> prog_at st g = PGc keys now ->
  cs_holder st <> Some g
  /\ (snd (cstep st i) = OBlocked -> exists j k, cs_holder st = Some j /\ j <> g /\ prog_at st j = PMid k).
Proof. exact gc_parked_never_blocks. Qed.
Print Assumptions C16_gc_parked_never_blocks.

(* the server after ANY schedule is the serial composition, in schedule order, of the commit
   effects ([step] of the committing request) and the batch effects ([gc_section] on the table
   as it is at that moment) *)
Theorem C16_crun_is_serial_effects : forall sched st,
  cs_server (fst (crun st sched)) = fold_left apply_effect (effects st sched) (cs_server st).
Proof. exact crun_is_serial_effects. Qed.
Print Assumptions C16_crun_is_serial_effects.

(* the data-model invariant survives every interleaving of requests and GC batches *)
Theorem C16_crun_server_ok : forall sched st, server_ok (cs_server st) -> server_ok (cs_server (fst (crun st sched))).
Proof. exact crun_server_ok. Qed.
Print Assumptions C16_crun_server_ok.

(* a batch keeps every cell the rule in force does not condemn now *)
Theorem C16_gc_effect_keeps : forall s tbl' now keys tbl key fam q ts v, server_ok s ->
  has_cell s tbl key fam q ts v -> (tbl' = tbl -> uncondemned s tbl fam ts now) ->
  has_cell (apply_effect s (EGc tbl' now keys)) tbl key fam q ts v.
Proof. exact gc_effect_keeps. Qed.
Print Assumptions C16_gc_effect_keeps.

(* no lost write: a stored cell (e.g. just written by an OK MutateRow, next theorem) is still
   stored after ANY schedule of GC batches and commits in which no committed request deletes it
   and no batch runs under a rule condemning it at the pass's clock *)
Theorem C16_gc_no_lost_write : forall sched st tbl key fam q ts v,
  server_ok (cs_server st) -> has_cell (cs_server st) tbl key fam q ts v ->
  effects_keep (cs_server st) (effects st sched) tbl key fam q ts v ->
  has_cell (cs_server (fst (crun st sched))) tbl key fam q ts v.
Proof. exact gc_no_lost_write. Qed.
Print Assumptions C16_gc_no_lost_write.

Theorem C16_setcell_ok_has_cell : forall s tbl key fam q ts v now coins, server_ok s -> ts <> -1 ->
  snd (step s (mkCall (BMutateRow tbl key [SetCell fam q ts v]) now coins)) = ok YNone ->
  has_cell (fst (step s (mkCall (BMutateRow tbl key [SetCell fam q ts v]) now coins))) tbl key fam q ts v.
Proof. exact setcell_ok_has_cell. Qed.
Print Assumptions C16_setcell_ok_has_cell.

(* sufficient conditions for "this commit does not delete the cell" *)
Theorem C16_commit_other_table_keeps : forall s c tbl key fam q ts v,
  AdminProofs.affected (cl_req c) <> Some tbl -> has_cell s tbl key fam q ts v -> has_cell (fst (step s c)) tbl key fam q ts v.
Proof. exact commit_other_table_keeps. Qed.
Print Assumptions C16_commit_other_table_keeps.

Theorem C16_commit_other_row_keeps : forall s tbl key' muts now coins key fam q ts v, server_ok s -> key' <> key ->
  has_cell s tbl key fam q ts v ->
  has_cell (fst (step s (mkCall (BMutateRow tbl key' muts) now coins))) tbl key fam q ts v.
Proof. exact commit_other_row_keeps. Qed.
Print Assumptions C16_commit_other_row_keeps.

Theorem C16_commit_other_columns_keeps : forall s tbl key muts now coins fam q ts v, server_ok s ->
  Forall (sets_other_column fam q) muts ->
  has_cell s tbl key fam q ts v ->
  has_cell (fst (step s (mkCall (BMutateRow tbl key muts) now coins))) tbl key fam q ts v.
Proof. exact commit_other_columns_keeps. Qed.
Print Assumptions C16_commit_other_columns_keeps.

(* non-vacuity: 150 rows with one old cell each, rule "max age 0" and a pass at clock 5000 that
   condemns them; the pass needs two batches; between them a writer stores a fresh cell in row
   120 (second batch).  The writer is not blocked, the fresh cell survives the second batch, every
   other row is collected *)
Definition C16h_rows : list (bytes * list mutation) :=
  map (fun n => ([N.of_nat n], [SetCell [102%N] [113%N] 1000 [1%N]])) (seq 0 150).
Definition C16h_s0 : server :=
  fst (run [] [mkCall (BCreateTable [112; 114; 111; 106; 101; 99; 116; 115; 47; 112; 47; 105; 110; 115; 116; 97; 110; 99; 101; 115; 47; 105]%N [116%N] [([102%N], Some (GMaxAge 0 0))]) 0 [];
               mkCall (BMutateRows gc_tbl C16h_rows) 0 []]).
Definition C16h_w : call := mkCall (BMutateRow gc_tbl [120%N] [SetCell [102%N] [113%N] 9000 [7%N]]) 0 [].
Definition C16h_st0 : cstate := init_cstate C16h_s0 [[mkCall (BRunGC gc_tbl) 5000 []]; [C16h_w]].

Example C16_handover_example :
  server_ok C16h_s0
  /\ (exists t, alookup gc_tbl C16h_s0 = Some t /\ length (t_rows t) = 150%nat)
  /\ snd (crun C16h_st0 [0; 1; 1; 1; 0]%nat) = [OAt; OAt; OAt; ODone (ok YNone); ODone (ok YNone)]
  /\ (exists keys, prog_at (fst (crun C16h_st0 [0%nat])) 0 = PGc keys 5000 /\ length keys = 50%nat)
  /\ (exists t, alookup gc_tbl (cs_server (fst (crun C16h_st0 [0; 1; 1; 1; 0]%nat))) = Some t
        /\ t_rows t = [([120%N], [mkFam [102%N] [mkCol [113%N] [mkCell 9000 [7%N] []]]])]).
Proof.
  split; [apply MutateProofs.C01_history|]. split; [eexists; split; vm_compute; reflexivity|].
  split; [vm_compute; reflexivity|]. split; [eexists; split; vm_compute; reflexivity|].
  eexists; split; vm_compute; reflexivity.
Qed.

(* the hypotheses of C16_gc_no_lost_write are met right after the writer's commit *)
Example C16_no_lost_write_hyps :
  let st := fst (crun C16h_st0 [0; 1; 1; 1]%nat) in
  server_ok (cs_server st)
  /\ has_cell (cs_server st) gc_tbl [120%N] [102%N] [113%N] 9000 [7%N]
  /\ effects_keep (cs_server st) (effects st [0%nat]) gc_tbl [120%N] [102%N] [113%N] 9000 [7%N].
Proof.
  cbv zeta. split; [apply crun_server_ok; apply MutateProofs.C01_history|]. split.
  - eexists. split; vm_compute; reflexivity.
  - cbn [effects effects_keep]. split; [|exact I].
    assert (E : exists keys, step_effect (fst (crun C16h_st0 [0; 1; 1; 1]%nat)) 0 = EGc gc_tbl 5000 keys)
      by (eexists; vm_compute; reflexivity).
    destruct E as [keys ->]. cbn [effect_keeps]. intros _ t rule Ht Hr idx c Hc.
    assert (Ef : exists t0, alookup gc_tbl (cs_server (fst (crun C16h_st0 [0; 1; 1; 1]%nat))) = Some t0
                            /\ t_fams t0 = [([102%N], Some (GMaxAge 0 0))])
      by (eexists; split; vm_compute; reflexivity).
    destruct Ef as [t0 [Et0 Ef]]. rewrite Et0 in Ht. injection Ht as <-. rewrite Ef in Hr. cbn in Hr. injection Hr as <-.
    cbn [condemned]. rewrite Hc. reflexivity.
Qed.

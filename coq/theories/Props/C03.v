(* C03 — Bigtable: ReadRows returns exactly the requested rows, once, in key order.
   Only statements here; the RowSet meaning is BT/RowSetSpec.v, proofs are in BT/ScanProofs.v
   (and BT/RowSetProofs.v for merge_union). *)
From Coq Require Import List NArith ZArith Bool Sorting.
Import ListNotations.
From Emu.Common Require Import Bytes Str StrProofs.
From Emu.BT Require Import Types Mutate Filter RowSet RowSetProofs RowSetSpec Server ScanProofs.
Local Open Scope Z_scope.

(* ---- bound encoding ---- *)

(* the byte range the code scans for a RowRange holds exactly the range's keys (open start /
   closed end are encoded by appending a 0 byte; an empty end key, open or closed, is "unset").
   Every rowrange, every non-empty key. *)
Theorem C03_encode_range_spec : forall rr k, k <> [] ->
  (in_srange (encode_range rr) k <-> in_row_range rr k).
Proof. exact encode_range_spec. Qed.
Print Assumptions C03_encode_range_spec.

(* end_key_closed = "" passes validation (it counts as unset there) and the scan agrees: the
   range is unbounded above, every key that satisfies the start bound is inside *)
Theorem C03_encode_range_closed_empty_end_unbounded : forall s k, k <> [] ->
  (in_srange (encode_range (mkRange s (BClosed []))) k <-> in_bound_lo s k).
Proof. exact encode_range_closed_empty_end_unbounded. Qed.
Print Assumptions C03_encode_range_closed_empty_end_unbounded.

(* ... in particular every key >= a closed start *)
Theorem C03_encode_range_closed_empty_end_from_start : forall s k, lex_le s k ->
  in_srange (encode_range (mkRange (BClosed s) (BClosed []))) k.
Proof. exact encode_range_closed_empty_end_from_start. Qed.
Print Assumptions C03_encode_range_closed_empty_end_from_start.

Theorem C03_key_range_spec : forall x k, in_srange (key_range x) k <-> k = x.
Proof. exact key_range_spec. Qed.
Print Assumptions C03_key_range_spec.

Theorem C03_in_srange_b_reflects : forall r k, in_srange_b r k = true <-> in_srange r k.
Proof. exact in_srange_b_iff. Qed.
Print Assumptions C03_in_srange_b_reflects.

(* ---- validation ---- *)

(* "validate_spec": a range is rejected iff both ends carry non-empty keys and start > end *)
Theorem C03_validate_spec : forall rr, range_ok rr = false <-> range_inverted rr.
Proof. exact range_ok_spec. Qed.
Print Assumptions C03_validate_spec.

Theorem C03_readrows_rejects_iff : forall ranges,
  forallb range_ok ranges = false <-> exists rr, In rr ranges /\ range_inverted rr.
Proof. exact readrows_rejects_iff. Qed.
Print Assumptions C03_readrows_rejects_iff.

Theorem C03_step_readrows : forall s tbl t keys ranges limit now coins,
  alookup tbl s = Some t ->
  step s (mkCall (BReadRows tbl keys ranges None limit) now coins) =
  (s, if forallb range_ok ranges
      then ok (YRows (scan_all t None limit (scan_ranges keys ranges) 0 coins []))
      else fail cInvalidArgument).
Proof. exact step_readrows. Qed.
Print Assumptions C03_step_readrows.

(* ---- merging ---- *)

(* the merged ranges cover exactly the union of the given ones (all range lists) *)
Theorem C03_merge_union : forall l k, in_any (merge_simple_ranges l) k <-> in_any l k.
Proof. exact merge_union. Qed.
Print Assumptions C03_merge_union.

(* the scanned ranges cover exactly the requested keys; empty RowSet = whole table *)
Theorem C03_scan_ranges_union : forall keys ranges k, k <> [] ->
  (in_any (scan_ranges keys ranges) k <-> requested keys ranges k).
Proof. exact scan_ranges_union. Qed.
Print Assumptions C03_scan_ranges_union.

(* consecutive output ranges: the earlier one is bounded and ends strictly below the next start *)
Theorem C03_merge_sorted_disjoint : forall l pre a b post,
  merge_simple_ranges l = pre ++ a :: b :: post -> re a <> [] /\ lex_lt (re a) (rs b).
Proof. exact merge_sorted_disjoint. Qed.
Print Assumptions C03_merge_sorted_disjoint.

(* pairwise, and ascending by start *)
Theorem C03_merge_sorted_disjoint_strong : forall l,
  StronglySorted (fun a b => re a <> [] /\ lex_lt (re a) (rs b)) (merge_simple_ranges l).
Proof. exact merge_sorted_disjoint_strong. Qed.
Print Assumptions C03_merge_sorted_disjoint_strong.

Theorem C03_merge_sorted_by_start : forall l,
  StronglySorted (fun a b => lex_le (rs a) (rs b)) (merge_simple_ranges l).
Proof. exact merge_sorted_by_start. Qed.
Print Assumptions C03_merge_sorted_by_start.

(* no key is in two output ranges *)
Theorem C03_merge_no_overlap : forall l pre a mid b post k,
  merge_simple_ranges l = pre ++ a :: mid ++ b :: post -> in_srange a k -> ~ in_srange b k.
Proof. exact merge_no_overlap. Qed.
Print Assumptions C03_merge_no_overlap.

(* ---- the scan ---- *)

(* "readrows_exact": no filter, no limit, table in ascending key order without the empty key:
   the result holds exactly the stored rows that are requested and have output, with the
   scrubbed stored families, in strictly ascending key order, each once.  Every RowSet. *)
Theorem C03_readrows_exact : forall t keys ranges limit coins,
  asorted (t_rows t) -> Forall (fun p => fst p <> []) (t_rows t) -> limit <= 0 ->
  let res := scan_all t None limit (scan_ranges keys ranges) 0 coins [] in
  (forall r, In r res <->
     exists fs, In (row_key r, fs) (t_rows t) /\ requested keys ranges (row_key r)
                /\ row_fams r = scrub_fams (t_fams t) fs /\ row_fams r <> [])
  /\ StronglySorted lex_lt (map row_key res)
  /\ NoDup (map row_key res).
Proof. exact scan_exact. Qed.
Print Assumptions C03_readrows_exact.

(* the same without any guard on ranges or keys, in terms of the scanned byte ranges *)
Theorem C03_readrows_exact_ranges : forall t keys ranges limit coins, asorted (t_rows t) -> limit <= 0 ->
  let res := scan_all t None limit (scan_ranges keys ranges) 0 coins [] in
  (forall r, In r res <->
     exists fs, In (row_key r, fs) (t_rows t) /\ in_any (scan_ranges keys ranges) (row_key r)
                /\ row_fams r = scrub_fams (t_fams t) fs /\ row_fams r <> [])
  /\ StronglySorted lex_lt (map row_key res)
  /\ NoDup (map row_key res).
Proof. exact scan_exact_ranges. Qed.
Print Assumptions C03_readrows_exact_ranges.

(* ... and as an equation: the result IS the stored list, filtered, scrubbed *)
Theorem C03_readrows_exact_eq : forall t keys ranges limit coins, asorted (t_rows t) -> limit <= 0 ->
  scan_all t None limit (scan_ranges keys ranges) 0 coins [] =
  map (out_row t) (filter (fun p => has_output t (snd p))
                     (filter (fun p => in_ranges_b (scan_ranges keys ranges) (fst p)) (t_rows t))).
Proof. exact scan_exact_eq. Qed.
Print Assumptions C03_readrows_exact_eq.

(* any filter, any limit: one pass in key order over the covered stored rows, coins threaded in
   that order ([visit]: emitted iff the row has cells, the filter matches and the scrubbed
   filter result is non-empty), cut at the limit *)
Theorem C03_readrows_filter : forall t f limit keys ranges coins, asorted (t_rows t) ->
  scan_all t f limit (scan_ranges keys ranges) 0 coins [] =
  limit_cut limit (fst (visit_all t f (filter (fun p => in_ranges_b (scan_ranges keys ranges) (fst p)) (t_rows t)) coins)).
Proof. exact scan_exact_filter. Qed.
Print Assumptions C03_readrows_filter.

(* rows_limit = n > 0 returns the first n rows of the unlimited answer (any filter, any ranges,
   any table) *)
Theorem C03_limit_first_n : forall t f limit limit0 srs coins, 0 < limit -> limit0 <= 0 ->
  scan_all t f limit srs 0 coins [] = firstn (Z.to_nat limit) (scan_all t f limit0 srs 0 coins []).
Proof. exact limit_first_n. Qed.
Print Assumptions C03_limit_first_n.

(* ---- SampleRowKeys ---- *)

Theorem C03_sample_keys_ok : forall t obs, sample_ok t obs = true ->
  subseq (map fst obs) (map fst (t_rows t))
  /\ nondecr_from 0 (map snd obs)
  /\ (t_rows t <> [] -> obs <> [] /\ last (map fst obs) [] = last (map fst (t_rows t)) [])
  /\ (t_rows t = [] -> obs = [])
  /\ (asorted (t_rows t) -> StronglySorted lex_lt (map fst obs)).
Proof. exact sample_ok_sound. Qed.
Print Assumptions C03_sample_keys_ok.

Theorem C03_sample_ok_iff : forall t obs, sample_ok t obs = true <-> sample_spec (map fst (t_rows t)) obs.
Proof. exact sample_ok_iff. Qed.
Print Assumptions C03_sample_ok_iff.

Theorem C03_sample_last_only : forall t off, t_rows t <> [] -> 0 <= off ->
  sample_ok t [(last (map fst (t_rows t)) [], off)] = true.
Proof. exact sample_ok_last_only. Qed.
Print Assumptions C03_sample_last_only.

(* ---- non-vacuity: the adversarial universe a, a\0, a\0\0, ab, b, \0, \xff ---- *)
Definition C03_fs : list family := [mkFam [102%N] [mkCol [113%N] [mkCell 0 [118%N] []]]].
Definition C03_t : table :=
  mkTable [([102%N], None)]
          [([0%N], C03_fs); ([97%N], C03_fs); ([97; 0]%N, C03_fs); ([97; 0; 0]%N, C03_fs);
           ([97; 98]%N, C03_fs); ([98%N], C03_fs); ([255%N], C03_fs)].
(* (a, ab]  and  [a\0\0, b)  overlap; plus the single key \xff *)
Definition C03_ranges : list rowrange :=
  [mkRange (BOpen [97%N]) (BClosed [97; 98]%N); mkRange (BClosed [97; 0; 0]%N) (BOpen [98%N])].
Definition C03_keys : list bytes := [[255%N]].

Example C03_hyps_met :
  asorted (t_rows C03_t) /\ Forall (fun p => fst p <> []) (t_rows C03_t)
  /\ forallb range_ok C03_ranges = true.
Proof.
  split; [|split].
  - repeat (constructor; try reflexivity).
  - repeat (constructor; try discriminate).
  - reflexivity.
Qed.

(* an end closed at the empty key: [ab, ""]  passes validation and reads to the end of the
   table, like [ab, unset) *)
Example C03_closed_empty_end_example :
  range_ok (mkRange (BClosed [97; 98]%N) (BClosed [])) = true
  /\ map row_key (scan_all C03_t None 0 (scan_ranges [] [mkRange (BClosed [97; 98]%N) (BClosed [])]) 0 [] [])
     = [[97; 98]; [98]; [255]]%N
  /\ scan_ranges [] [mkRange (BClosed [97; 98]%N) (BClosed [])] = scan_ranges [] [mkRange (BClosed [97; 98]%N) BUnset]
  /\ length (scan_all C03_t None 0 (scan_ranges [] [mkRange BUnset (BClosed [])]) 0 [] []) = 7%nat.
Proof. vm_compute. repeat split. Qed.

Example C03_scan_example :
  map row_key (scan_all C03_t None 0 (scan_ranges C03_keys C03_ranges) 0 [] [])
  = [[97; 0]; [97; 0; 0]; [97; 98]; [255]]%N
  /\ scan_ranges C03_keys C03_ranges
     = [ {| rs := [97; 0]%N; re := [98%N] |}; {| rs := [255%N]; re := [255; 0]%N |} ]
  /\ map row_key (scan_all C03_t None 2 (scan_ranges C03_keys C03_ranges) 0 [] []) = [[97; 0]; [97; 0; 0]]%N
  /\ length (scan_all C03_t None 0 (scan_ranges [] []) 0 [] []) = 7%nat.
Proof. vm_compute. repeat split. Qed.

Example C03_validate_example :
  range_ok (mkRange (BClosed [98%N]) (BOpen [97%N])) = false
  /\ range_ok (mkRange (BClosed [98%N]) (BOpen [])) = true
  /\ range_ok (mkRange (BOpen [97%N]) (BOpen [97%N])) = true.
Proof. vm_compute. repeat split. Qed.

Example C03_sample_example :
  sample_ok C03_t [([97%N], 10); ([97; 98]%N, 10); ([255%N], 70)] = true
  /\ sample_ok C03_t [([97; 98]%N, 10); ([97%N], 20); ([255%N], 70)] = false
  /\ sample_ok C03_t [([97%N], 10)] = false.
Proof. vm_compute. repeat split. Qed.

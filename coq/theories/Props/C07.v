(* C07 — GCS: concurrent operations on one object are atomic and serialisable, for ALL schedules
   of the interleaving model GCS/Conc.v.  Only statements here; proofs are in GCS/ConcProofs.v. *)
From Coq Require Import List NArith ZArith Bool.
Import ListNotations.
From Emu.Common Require Import Bytes Str.
From Emu.GCS Require Import Model Conc UploadProofs GenerationProofs ComposeProofs ConcProofs.
Local Open Scope Z_scope.

(* ---- 1. the object locks ---- *)

(* in every reachable state: at most one holder per object key, at most one lock per thread,
   every entry (k, i) of the holders list is a thread i parked at its yield on a request that
   locked k, and every parked thread has its entry.  (The key of a resumable PUT is computed in the
   store of the step that takes the lock; for all other requests it does not depend on the store
   and the invariant is the equivalence C07_glock_inv_iff_static.) *)
Theorem C07_glock_inv : forall s0 progs sched, glock_inv (fst (grun (init_g s0 progs) sched)).
Proof. exact glock_inv_reachable. Qed.
Print Assumptions C07_glock_inv.

Theorem C07_glock_inv_step : forall st i, glock_inv st -> glock_inv (fst (gstep st i)).
Proof. exact glock_inv_gstep. Qed.
Print Assumptions C07_glock_inv_step.

Theorem C07_glock_inv_iff_static : forall st i th r rest cap, glock_inv st ->
  nth_error (g_threads st) i = Some th -> gt_todo th = r :: rest -> gt_prog th = GHold cap -> key_static r ->
  forall k s, In (k, i) (g_holders st) <-> lock_key s r = Some k.
Proof. exact glock_inv_iff_static. Qed.
Print Assumptions C07_glock_inv_iff_static.

(* a blocked step happens only when ANOTHER thread holds the key, and changes nothing but the
   freezing of the head request of the stepping thread; the key is the request's key in the store
   of that step (what gstep computes) *)
Theorem C07_blocked_step : forall st i, glock_inv st -> snd (gstep st i) = OBlocked ->
  exists th r0 rest k j,
    nth_error (g_threads st) i = Some th /\ gt_todo th = r0 :: rest /\ gt_prog th = GNew
    /\ lock_key (g_store st) r0 = Some k /\ j <> i /\ In (k, j) (g_holders st) /\ holds_key st j k
    /\ fst (gstep st i) = mkGState (g_store st) (g_holders st)
                            (upd_nth (g_threads st) i (mkGThread (freeze (g_store st) r0 :: rest) GNew)).
Proof. exact gstep_blocked_spec. Qed.
Print Assumptions C07_blocked_step.

(* a step of thread i touches no other thread *)
Theorem C07_step_other_threads : forall st i j, j <> i ->
  nth_error (g_threads (fst (gstep st i))) j = nth_error (g_threads st) j.
Proof. exact gstep_other_threads. Qed.
Print Assumptions C07_step_other_threads.

(* requests without an object / destination name take no lock: they are refused (400) before
   locks.Run, in one atomic step, and leave the store as it is *)
Theorem C07_nameless_multipart_atomic : forall s b m d cp, um_name m = [] ->
  lock_key s (RUploadMultipart b m d cp) = None /\ fst (handle s (RUploadMultipart b m d cp)) = s.
Proof. exact nameless_multipart_atomic. Qed.
Print Assumptions C07_nameless_multipart_atomic.

Theorem C07_nameless_compose_atomic : forall s b dst bad srcs dm cp x,
  split (dst ++ s_compose) s_compose = [[]; x] ->
  lock_key s (RCompose b dst bad srcs dm cp) = None /\ fst (handle s (RCompose b dst bad srcs dm cp)) = s.
Proof. exact nameless_compose_atomic. Qed.
Print Assumptions C07_nameless_compose_atomic.

Theorem C07_nameless_copy_atomic : forall s b1 n1 b2 n2 f1 rest b2',
  split (n1 ++ s_rewrite_b ++ b2 ++ s_o ++ n2) s_rewrite_b = [f1; rest] -> split2 rest s_o = [b2'; []] ->
  lock_key s (RCopy b1 n1 b2 n2) = None /\ fst (handle s (RCopy b1 n1 b2 n2)) = s.
Proof. exact nameless_copy_atomic. Qed.
Print Assumptions C07_nameless_copy_atomic.

(* ---- 2. the final store is the fold of the commit effects, in schedule order ---- *)

Theorem C07_gconc_effects : forall sched st,
  g_store (fst (grun st sched)) = fold_left apply_geffect (geffects st sched) (g_store st).
Proof. exact gconc_effects. Qed.
Print Assumptions C07_gconc_effects.

(* A GET commits at its FETCH step (the step that runs its handler) and answers at a later step
   with the response computed there, so the answers no longer come in commit order.  gcommits_t:
   (operation, response of its effect) at every commit step, in commit order; ganswers_t:
   (operation, response) at every ODone, in answer order.  The commit responses are the responses
   of the effects, in order; every answer is the response of the same operation's commit (unless
   the operation was fetched before the run), every commit is answered with its response (unless it
   is a GET still parked at the end), and every operation commits at most once. *)
Theorem C07_gconc_effect_resps : forall sched st,
  map snd (gcommits_t st sched) = effect_resps (g_store st) (geffects st sched)
  /\ map snd (ganswers_t st sched) = done_resps (snd (grun st sched))
  /\ (forall op rsp, In (op, rsp) (ganswers_t st sched) -> In (op, rsp) (gcommits_t st sched) \/ reading st op rsp)
  /\ (forall op rsp, In (op, rsp) (gcommits_t st sched) ->
        In (op, rsp) (ganswers_t st sched) \/ reading (fst (grun st sched)) op rsp)
  /\ NoDup (map fst (gcommits_t st sched)).
Proof. exact gconc_effect_resps. Qed.
Print Assumptions C07_gconc_effect_resps.

(* without GETs (and no reader parked at the start) the answers come in commit order: the former
   statement *)
Theorem C07_gconc_effect_resps_get_free : forall sched st, all_reqs not_get st -> no_reads st ->
  done_resps (snd (grun st sched)) = effect_resps (g_store st) (geffects st sched).
Proof. exact gconc_effect_resps_get_free. Qed.
Print Assumptions C07_gconc_effect_resps_get_free.

(* what one step does, summarised by its effect: a commit answers at once with the response of
   its effect, except the fetch of a GET, which parks holding it; a step without effect leaves the
   store alone and, if it answers, is a parked GET giving the response it holds *)
Theorem C07_step_effect_spec : forall st i,
  match step_effect st i with
  | Some e => g_store (fst (gstep st i)) = apply_geffect (g_store st) e
              /\ (snd (gstep st i) = ODone (effect_resp (g_store st) e)
                  \/ (snd (gstep st i) = OAt /\ exists r, e = EHandle r /\ is_get r = true
                      /\ cur_req st i = Some (r, GNew)
                      /\ cur_req (fst (gstep st i)) i = Some (r, GRead (effect_resp (g_store st) e))))
  | None => g_store (fst (gstep st i)) = g_store st
            /\ forall rsp, snd (gstep st i) = ODone rsp -> exists r, cur_req st i = Some (r, GRead rsp)
  end.
Proof. exact step_effect_spec. Qed.
Print Assumptions C07_step_effect_spec.

(* ---- 3. serialisability ---- *)

(* programs without compose: every schedule equals the sequential run of the frozen requests in
   commit order (a GET at its fetch) — same final store; the response of every operation is the
   response the sequential run gives at its position in the log, and the answers given are exactly
   these (each GET answers what the sequential run answers at the GET's position) *)
Theorem C07_gconc_serializable_object : forall s0 progs sched, Forall (Forall not_compose) progs ->
  let st := init_g s0 progs in
  g_store (fst (grun st sched)) = fst (run s0 (glog st sched))
  /\ map snd (gcommits_t st sched) = snd (run s0 (glog st sched))
  /\ map fst (gcommits_t st sched) = map fst (glog_t st sched)
  /\ (forall op rsp, In (op, rsp) (ganswers_t st sched) -> In (op, rsp) (gcommits_t st sched))
  /\ (forall op rsp, In (op, rsp) (gcommits_t st sched) ->
        In (op, rsp) (ganswers_t st sched) \/ reading (fst (grun st sched)) op rsp).
Proof. exact gconc_serializable_object. Qed.
Print Assumptions C07_gconc_serializable_object.

(* ... and without GETs the responses come in the same order too: the former statement *)
Theorem C07_gconc_serializable_object_get_free : forall s0 progs sched,
  Forall (Forall not_compose) progs -> Forall (Forall not_get) progs ->
  let st := init_g s0 progs in
  g_store (fst (grun st sched)) = fst (run s0 (glog st sched))
  /\ done_resps (snd (grun st sched)) = snd (run s0 (glog st sched)).
Proof. exact gconc_serializable_object_get_free. Qed.
Print Assumptions C07_gconc_serializable_object_get_free.

(* real-time order: A COMMITTED (a fortiori answered, C07_gconc_real_time_answered) before B's
   first step => A precedes B in the linearisation *)
Theorem C07_gconc_real_time : forall st s1 s2 A rA B rB,
  In (A, rA) (glog_t st s1) -> ~ In B (gops st s1) -> In (B, rB) (glog_t st (s1 ++ s2)) ->
  exists l1 l2 l3, glog_t st (s1 ++ s2) = l1 ++ (A, rA) :: l2 ++ (B, rB) :: l3.
Proof. exact gconc_real_time. Qed.
Print Assumptions C07_gconc_real_time.

Theorem C07_gconc_real_time_answered : forall st s1 s2 A rspA B rspB,
  ~ reading st A rspA -> In (A, rspA) (ganswers_t st s1) -> ~ In B (gops st s1) ->
  In (B, rspB) (gcommits_t st (s1 ++ s2)) ->
  exists l1 l2 l3, gcommits_t st (s1 ++ s2) = l1 ++ (A, rspA) :: l2 ++ (B, rspB) :: l3.
Proof. exact gconc_real_time_answered. Qed.
Print Assumptions C07_gconc_real_time_answered.

Theorem C07_glog_t_reqs : forall sched st, map snd (glog_t st sched) = glog st sched.
Proof. exact glog_t_reqs. Qed.
Print Assumptions C07_glog_t_reqs.

(* every operation is linearised at most once *)
Theorem C07_glog_t_nodup : forall sched st, NoDup (map fst (glog_t st sched)).
Proof. exact glog_t_nodup. Qed.
Print Assumptions C07_glog_t_nodup.

(* the requests of the linearisation are the threads' program requests, at the position their
   identity says, with preconditions frozen against a store of the run *)
Theorem C07_glog_request_origin : forall s0 progs sched i L r,
  In ((i, L), r) (glog_t (init_g s0 progs) sched) ->
  exists served r0 rest s, nth_error progs i = Some (served ++ r0 :: rest)
    /\ length (r0 :: rest) = L /\ r = freeze s r0.
Proof. exact glog_request_origin_init. Qed.
Print Assumptions C07_glog_request_origin.

(* compose: all sources exist in ONE store state (the capture step) ... *)
Theorem C07_compose_capture : forall st i b dst bad srcs dm cp,
  cur_req st i = Some (RCompose b dst bad srcs dm cp, GNew) -> snd (gstep st i) = OAt ->
  exists dstname,
    lock_key (g_store st) (RCompose b dst bad srcs dm cp) = Some (b, dstname)
    /\ Forall (src_usable (g_store st) b) srcs
    /\ g_store (fst (gstep st i)) = g_store st
    /\ cur_req (fst (gstep st i)) i
       = Some (RCompose b dst bad srcs dm cp,
               GHold (Some (mkObj (flat_map (src_data (g_store st) b) srcs) (dm_ctype dm)
                                  (s_clock (g_store st) + 1) 1 false (dm_meta dm)))).
Proof. exact compose_capture. Qed.
Print Assumptions C07_compose_capture.

(* ... and their concatenation is stored with a generation fresh at commit time *)
Theorem C07_compose_commit : forall st i b dst bad srcs dm cp o d,
  cur_req st i = Some (RCompose b dst bad srcs dm cp, GHold (Some o)) ->
  lock_key (g_store st) (RCompose b dst bad srcs dm cp) = Some (b, d) ->
  let s := g_store st in
  let o' := mkObj (o_data o) (o_ctype o) (s_clock s + 1) 1 (o_md5 o) (o_meta o) in
  step_effect st i = Some (EAdd b d o)
  /\ snd (gstep st i) = ODone (mkResp 200 (BMeta (view b d o')))
  /\ find_obj (g_store (fst (gstep st i))) b d = Some o'
  /\ (forall b' n', (b', n') <> (b, d) -> find_obj (g_store (fst (gstep st i))) b' n' = find_obj s b' n')
  /\ (gens_bounded s -> forall b0 n0 o0, find_obj s b0 n0 = Some o0 -> o_gen o0 < o_gen o').
Proof. exact compose_commit. Qed.
Print Assumptions C07_compose_commit.

(* ---- 4. exactly one conditional writer wins ---- *)

(* any number of threads, each with uploads of (b, n) conditioned on ifGenerationMatch = g, the
   generation the object has: in every schedule that lets all finish, the first commit answers
   200 and every other one 412 *)
Theorem C07_exactly_one_conditional_writer_wins : forall s0 b n g (payloads : list (str * bytes)) sched,
  n <> [] -> 0 < g <= int64_max -> has_gen b n g s0 ->
  let st := init_g s0 (map (fun cd => [RUploadMedia b n (fst cd) (snd cd) (cp_lit (print_int g))]) payloads) in
  all_done (fst (grun st sched)) ->
  map r_status (done_resps (snd (grun st sched)))
  = match length payloads with O => [] | S k => 200 :: repeat 412 k end.
Proof. exact exactly_one_conditional_writer_wins. Qed.
Print Assumptions C07_exactly_one_conditional_writer_wins.

(* FULL statement (without no_reads st) is false now that a thread can be parked in GRead: such a
   thread answers with the response it holds whatever its request is
   (C07_exactly_one_conditional_writer_wins_from_refuted_parked_reader).  Exact guard: no thread of
   st is parked in GRead (true of every init_g, and kept by programs without GETs). *)
Theorem C07_exactly_one_conditional_writer_wins_from_partial : forall st sched b n g,
  n <> [] -> 0 < g <= int64_max ->
  all_reqs (gen_upload b n g) st -> no_reads st -> has_gen b n g (g_store st) ->
  all_done (fst (grun st sched)) ->
  map r_status (done_resps (snd (grun st sched)))
  = match pending st with O => [] | S k => 200 :: repeat 412 k end.
Proof. exact exactly_one_conditional_writer_wins_from_partial. Qed.
Print Assumptions C07_exactly_one_conditional_writer_wins_from_partial.

Theorem C07_exactly_one_conditional_writer_wins_from_refuted_parked_reader :
  let st := mkGState c07_s1 [] [mkGThread [c07_cup [2]%N] (GRead (err 404))] in
  c07_n <> [] /\ 0 < c07_g <= int64_max
  /\ all_reqs (gen_upload c07_b c07_n c07_g) st /\ has_gen c07_b c07_n c07_g (g_store st)
  /\ all_done (fst (grun st [0%nat])) /\ pending st = 1%nat
  /\ map r_status (done_resps (snd (grun st [0%nat]))) = [404]
  /\ ~ no_reads st.
Proof. exact exactly_one_conditional_writer_wins_from_refuted_parked_reader. Qed.
Print Assumptions C07_exactly_one_conditional_writer_wins_from_refuted_parked_reader.

(* the same with SYMBOLIC preconditions "ifGenerationMatch = the generation of (b, n) as I see it"
   (PGen b n 0), frozen at each thread's first step, all first steps before any answer *)
Theorem C07_exactly_one_conditional_writer_wins_symbolic : forall s0 b n g (payloads : list (str * bytes)) pre post,
  n <> [] -> 0 < g <= int64_max -> has_gen b n g s0 ->
  let st := init_g s0 (map (fun cd => [RUploadMedia b n (fst cd) (snd cd) (sym_cp b n)]) payloads) in
  (forall i, (i < length payloads)%nat -> In i pre) -> done_resps (snd (grun st pre)) = [] ->
  all_done (fst (grun st (pre ++ post))) ->
  map r_status (done_resps (snd (grun st (pre ++ post))))
  = match length payloads with O => [] | S k => 200 :: repeat 412 k end.
Proof. exact exactly_one_conditional_writer_wins_symbolic. Qed.
Print Assumptions C07_exactly_one_conditional_writer_wins_symbolic.

(* likewise for uploads conditioned on non-existence (ifGenerationMatch=0) of an absent object *)
Theorem C07_exactly_one_dne_writer_wins : forall s0 b n (payloads : list (str * bytes)) sched,
  n <> [] -> find_obj s0 b n = None ->
  let st := init_g s0 (map (fun cd => [RUploadMedia b n (fst cd) (snd cd) (cp_lit [48%N])]) payloads) in
  all_done (fst (grun st sched)) ->
  map r_status (done_resps (snd (grun st sched)))
  = match length payloads with O => [] | S k => 200 :: repeat 412 k end.
Proof. exact exactly_one_dne_writer_wins. Qed.
Print Assumptions C07_exactly_one_dne_writer_wins.

(* the sequential core: after one succeeds the condition is false for all later ones *)
Theorem C07_gen_upload_seq : forall b n g s r, n <> [] -> 0 < g <= int64_max -> gen_upload b n g r ->
  (has_gen b n g s -> r_status (snd (handle s r)) = 200 /\ has_other_gen b n g (fst (handle s r)))
  /\ (has_other_gen b n g s -> handle s r = (s, err 412)).
Proof. intros b n g s r Hn Hg Hr. split; [apply gen_upload_win|apply gen_upload_lose]; assumption. Qed.
Print Assumptions C07_gen_upload_seq.

(* ---- 5. the lock is held from check to mutation ---- *)

(* lock_respecting excludes ONLY bucket deletions.  A handler run in store s changes no object but
   the one whose lock the request takes in s — including the PUT completing a resumable upload *)
Theorem C07_handle_frame_key : forall s r b n, lock_respecting r -> lock_key s r <> Some (b, n) ->
  find_obj (fst (handle s r)) b n = find_obj s b n.
Proof. exact handle_frame_key. Qed.
Print Assumptions C07_handle_frame_key.

(* while thread i holds the lock of (b, n), steps of other threads do not change object (b, n).
   FULL statement (false, see C07_held_object_stable_refuted_stale_session):
     forall st i j b n, glock_inv st -> all_reqs lock_respecting st ->
       In ((b, n), i) (g_holders st) -> j <> i ->
       find_obj (g_store (fst (gstep st j))) b n = find_obj (g_store st) b n.
   Exact guard: sess_coherent st — the session of every parked resumable PUT still is a session for
   the object the thread locked (the model's commit looks the session up again).  It is vacuous
   when no thread issues resumable PUTs (C07_sess_coherent_static: the former theorem) and holds in
   every state reachable from a well-formed store (C07_held_object_stable_reachable). *)
Theorem C07_held_object_stable_partial : forall st i j b n, glock_inv st -> sess_coherent st ->
  all_reqs lock_respecting st ->
  In ((b, n), i) (g_holders st) -> j <> i ->
  find_obj (g_store (fst (gstep st j))) b n = find_obj (g_store st) b n.
Proof. exact held_object_stable_partial. Qed.
Print Assumptions C07_held_object_stable_partial.

Theorem C07_sess_coherent_static : forall st, all_reqs key_static st -> sess_coherent st.
Proof. exact sess_coherent_static. Qed.
Print Assumptions C07_sess_coherent_static.

Theorem C07_held_object_stable_reachable : forall s0 progs sched i j b n, sessions_wf s0 ->
  s_upcount s0 + Z.of_nat (length sched) <= int64_max ->
  let st := fst (grun (init_g s0 progs) sched) in
  all_reqs lock_respecting st -> In ((b, n), i) (g_holders st) -> j <> i ->
  find_obj (g_store (fst (gstep st j))) b n = find_obj (g_store st) b n.
Proof. exact held_object_stable_reachable. Qed.
Print Assumptions C07_held_object_stable_reachable.

(* guard sess_safe (length mid) st: no resumable PUT at all, or the session invariant and an id
   counter that cannot reach int64_max within the run *)
Theorem C07_held_object_stable_run_partial : forall mid st i b n, glock_inv st -> all_reqs lock_respecting st ->
  sess_safe (length mid) st ->
  In ((b, n), i) (g_holders st) -> Forall (fun j => j <> i) mid ->
  let st' := fst (grun st mid) in
  find_obj (g_store st') b n = find_obj (g_store st) b n
  /\ In ((b, n), i) (g_holders st')
  /\ nth_error (g_threads st') i = nth_error (g_threads st) i.
Proof. exact held_object_stable_run_partial. Qed.
Print Assumptions C07_held_object_stable_run_partial.

(* the commit of the holder itself changes no object but the one it holds (a parked resumable PUT
   stores the object it locked) *)
Theorem C07_commit_changes_only_held_object : forall st i k b n, glock_inv st -> sess_coherent st ->
  all_reqs lock_respecting st -> In (k, i) (g_holders st) -> (b, n) <> k ->
  find_obj (g_store (fst (gstep st i))) b n = find_obj (g_store st) b n.
Proof. exact commit_changes_only_held_object. Qed.
Print Assumptions C07_commit_changes_only_held_object.

(* the session invariant: well-formed stores stay well-formed, and the invariant holds in every
   state reachable from a well-formed store (init_state is one) *)
Theorem C07_sessions_wf_init : sessions_wf init_state.
Proof. exact sessions_wf_init. Qed.
Print Assumptions C07_sessions_wf_init.

Theorem C07_sessions_wf_preserved : forall s r, sessions_wf s -> sessions_wf (fst (handle s r)).
Proof. exact handle_sessions_wf. Qed.
Print Assumptions C07_sessions_wf_preserved.

Theorem C07_gsess_inv_step : forall st i, glock_inv st -> gsess_inv st -> s_upcount (g_store st) < int64_max ->
  gsess_inv (fst (gstep st i)).
Proof. exact gsess_inv_gstep. Qed.
Print Assumptions C07_gsess_inv_step.

Theorem C07_gsess_inv_reachable : forall s0 progs sched, sessions_wf s0 ->
  s_upcount s0 + Z.of_nat (length sched) <= int64_max -> gsess_inv (fst (grun (init_g s0 progs) sched)).
Proof. exact gsess_inv_reachable. Qed.
Print Assumptions C07_gsess_inv_reachable.

Theorem C07_sess_safe_reachable : forall s0 progs sched n, sessions_wf s0 ->
  s_upcount s0 + Z.of_nat (length sched + n) <= int64_max ->
  sess_safe n (fst (grun (init_g s0 progs) sched)).
Proof. exact sess_safe_reachable. Qed.
Print Assumptions C07_sess_safe_reachable.

(* the guards are needed: a bucket deletion removes an object whose lock another thread holds *)
Theorem C07_held_object_stable_refuted_delete_bucket :
  let st := fst (gstep (init_g c07_s1 [[c07_up [2]%N]; [RDeleteBucket c07_b c07_cp0]]) 0) in
  In ((c07_b, c07_n), 0%nat) (g_holders st)
  /\ find_obj (g_store st) c07_b c07_n <> None
  /\ find_obj (g_store (fst (gstep st 1))) c07_b c07_n = None.
Proof. exact held_object_stable_refuted_delete_bucket. Qed.
Print Assumptions C07_held_object_stable_refuted_delete_bucket.

(* ... and from a store that is not well formed (a session under id "1" with the id counter at 0)
   a session id is handed out twice, and the commit of a parked resumable PUT stores an object
   whose lock another thread holds *)
Theorem C07_held_object_stable_refuted_stale_session :
  let s0 := set_uploads c07_s1 0 [([49]%N, mkUpload c07_b [109]%N [116]%N 0 [] empty_conds [])] in
  let put := RResumablePut [49]%N (Some [98; 121; 116; 101; 115; 32; 48; 45; 48; 47; 49]%N) [9]%N in
  let st := fst (grun (init_g s0 [[c07_up [2]%N]; [put];
                                  [RResumableInit c07_b false (mkUpMeta c07_n [116]%N 0 []) c07_cp0]]) [0; 1; 2]%nat) in
  glock_inv st /\ all_reqs lock_respecting st
  /\ In ((c07_b, c07_n), 0%nat) (g_holders st)
  /\ In ((c07_b, [109]%N), 1%nat) (g_holders st)
  /\ (exists o, find_obj (g_store st) c07_b c07_n = Some o /\ o_data o = [1]%N)
  /\ (exists o, find_obj (g_store (fst (gstep st 1))) c07_b c07_n = Some o /\ o_data o = [9]%N)
  /\ ~ sessions_wf s0.
Proof. exact held_object_stable_refuted_stale_session. Qed.
Print Assumptions C07_held_object_stable_refuted_stale_session.

(* the PUT that completes a resumable upload takes the object lock: with an upload parked holding
   the lock of (b, n), the completing PUT of a session for (b, n) is blocked and changes nothing;
   it proceeds (yield, then commit) once the holder has committed *)
Theorem C07_resumable_put_blocked_by_holder :
  let s2 := fst (handle c07_s1 (RResumableInit c07_b false (mkUpMeta c07_n [116]%N 0 []) c07_cp0)) in
  let put := RResumablePut [49]%N (Some [98; 121; 116; 101; 115; 32; 48; 45; 48; 47; 49]%N) [9]%N in
  let st := fst (gstep (init_g s2 [[c07_up [2]%N]; [put]]) 0) in
  In ((c07_b, c07_n), 0%nat) (g_holders st)
  /\ lock_key (g_store st) put = Some (c07_b, c07_n)
  /\ (exists o, find_obj (g_store st) c07_b c07_n = Some o /\ o_data o = [1]%N)
  /\ gstep st 1 = (st, OBlocked)
  /\ map otag (snd (grun st [1; 0; 1; 1]%nat)) = [2; 200; 1; 200]
  /\ (exists o, find_obj (g_store (fst (grun st [1; 0; 1; 1]%nat))) c07_b c07_n = Some o /\ o_data o = [9]%N).
Proof. exact resumable_put_blocked_by_holder. Qed.
Print Assumptions C07_resumable_put_blocked_by_holder.

(* a patch conditioned on metageneration m that answers 200 was applied to an object whose
   metageneration was m at its commit *)
Theorem C07_metagen_patch_never_applies_to_unmatched_state : forall st i b n p cp m rsp,
  step_effect st i = Some (EHandle (RPatch b n p cp)) -> cp3 cp = PRaw (print_int m) -> 0 < m <= int64_max ->
  snd (gstep st i) = ODone rsp -> r_status rsp = 200 ->
  exists o, find_obj (g_store st) b n = Some o /\ o_metagen o = m
    /\ find_obj (g_store (fst (gstep st i))) b n
       = Some (mkObj (o_data o) (match pt_ctype p with Some t => t | None => o_ctype o end)
                     (o_gen o) (m + 1) (o_md5 o)
                     (match pt_meta p with Some kv => merge_meta (o_meta o) kv | None => o_meta o end)).
Proof. exact metagen_patch_never_applies_to_unmatched_state. Qed.
Print Assumptions C07_metagen_patch_never_applies_to_unmatched_state.

(* and the object that passed the check at the yield is the object the patch is applied to,
   whatever the other threads do in between.  FULL statement (false for the reason
   C07_held_object_stable is): the same without the guard sess_safe (S (length mid)) st. *)
Theorem C07_held_patch_applies_to_checked_object_partial : forall st i b n p cp mid,
  glock_inv st -> all_reqs lock_respecting st -> sess_safe (S (length mid)) st ->
  cur_req st i = Some (RPatch b n p cp, GNew) -> snd (gstep st i) = OAt ->
  Forall (fun j => j <> i) mid ->
  let st2 := fst (grun (fst (gstep st i)) mid) in
  exists o c,
    find_obj (g_store st) b n = Some o
    /\ resolve_conds (g_store st) cp = Some c /\ validate_conds (Some (o_gen o, o_metagen o)) c = VPass
    /\ find_obj (g_store st2) b n = Some o
    /\ cur_req st2 i = Some (RPatch b n p cp, GHold None)
    /\ snd (gstep st2 i) = ODone (if pt_bad p then err 400 else mkResp 200 (BMeta (view b n (patched p o))))
    /\ (pt_bad p = false -> find_obj (g_store (fst (gstep st2 i))) b n = Some (patched p o)).
Proof. exact held_patch_applies_to_checked_object_partial. Qed.
Print Assumptions C07_held_patch_applies_to_checked_object_partial.

(* ---- 6. no lost update ---- *)

(* the key of an effect is computed in the store of its commit step, where gstep runs the handler *)
Theorem C07_object_changes_only_by_own_key_commit : forall st j b n, all_reqs lock_respecting st ->
  find_obj (g_store (fst (gstep st j))) b n <> find_obj (g_store st) b n ->
  exists e, step_effect st j = Some e /\ effect_key (g_store st) e = Some (b, n).
Proof. exact object_changes_only_by_own_key_commit. Qed.
Print Assumptions C07_object_changes_only_by_own_key_commit.

Theorem C07_no_lost_update : forall st i e sched b n, all_reqs lock_respecting st ->
  step_effect st i = Some e ->
  g_store (fst (gstep st i)) = apply_geffect (g_store st) e
  /\ (quiet_on (fst (gstep st i)) sched (b, n) ->
      find_obj (g_store (fst (grun st (i :: sched)))) b n = find_obj (apply_geffect (g_store st) e) b n).
Proof. exact no_lost_update. Qed.
Print Assumptions C07_no_lost_update.

(* ---- 7. reads ---- *)

(* a GET is two steps: the FETCH (one store read; the thread parks holding the response built from
   what it read) and the ANSWER.  Whatever the other threads do between the two (writers may
   overwrite or delete the object), the answer is the response computed in the store of the fetch:
   generation, metageneration, metadata and content belong together at ONE instant *)
Theorem C07_get_answers_its_fetch_state : forall st i r mid, cur_req st i = Some (r, GNew) -> is_get r = true ->
  Forall (fun j => j <> i) mid ->
  let rsp := snd (handle (g_store st) r) in
  let st1 := fst (gstep st i) in
  let st2 := fst (grun st1 mid) in
  snd (gstep st i) = OAt /\ g_store st1 = g_store st /\ g_holders st1 = g_holders st
  /\ step_effect st i = Some (EHandle r)
  /\ cur_req st2 i = Some (r, GRead rsp)
  /\ snd (gstep st2 i) = ODone rsp
  /\ g_store (fst (gstep st2 i)) = g_store st2.
Proof. exact get_answers_its_fetch_state. Qed.
Print Assumptions C07_get_answers_its_fetch_state.

(* for ALL schedules: every answer given to that GET is the response computed at its fetch *)
Theorem C07_get_answer_unique : forall st i r sched rsp', cur_req st i = Some (r, GNew) -> is_get r = true ->
  In (op_of st i, rsp') (ganswers_t st (i :: sched)) -> rsp' = snd (handle (g_store st) r).
Proof. exact get_answer_unique. Qed.
Print Assumptions C07_get_answer_unique.

(* that response, for an object GET: every field from the one object stored under (b, n) *)
Theorem C07_get_response_shape : forall s b n r, r = RGetMeta b n \/ r = RGetMedia b n ->
  snd (handle s r) = match find_obj s b n with
                     | Some o => if match r with RGetMeta _ _ => true | _ => false end
                                 then mkResp 200 (BMeta (view b n o))
                                 else mkResp 200 (BMedia (o_data o) (o_ctype o) (o_gen o) (o_metagen o))
                     | None => err 404
                     end.
Proof. exact get_response_shape. Qed.
Print Assumptions C07_get_response_shape.

(* neither step of a GET changes the store or the holders *)
Theorem C07_get_changes_nothing : forall st i r, glock_inv st ->
  (cur_req st i = Some (r, GNew) /\ is_get r = true) \/ (exists rsp, cur_req st i = Some (r, GRead rsp)) ->
  g_store (fst (gstep st i)) = g_store st /\ g_holders (fst (gstep st i)) = g_holders st.
Proof. exact get_changes_nothing. Qed.
Print Assumptions C07_get_changes_nothing.
(* file_read_mixture_refuted: the file store's 3-step Add is not in this model; a read between its
   steps mixing new content with old metadata is exhibited dynamically as finding GCS-10. *)

(* ---- non-vacuity ---- *)

(* two uploaders of the same object: the second is blocked while the first is parked at its yield *)
Example C07_two_uploaders_one_blocked :
  map otag (snd (grun (init_g c07_s1 [[c07_up [2]%N]; [c07_up [3]%N]]) [0; 1; 0; 1; 1]%nat)) = [1; 2; 200; 1; 200].
Proof. vm_compute. reflexivity. Qed.

(* a multipart upload without an object name is answered 400 in one step (no yield, not blocked)
   even while an upload of (b, n) is parked; the same upload with a name parks at its yield *)
Example C07_nameless_multipart_one_step :
  map otag (snd (grun (init_g c07_s1 [[c07_up [2]%N]; [RUploadMultipart c07_b (mkUpMeta [] [116]%N 0 []) [3]%N c07_cp0]])
                      [0; 1]%nat)) = [1; 400]
  /\ map otag (snd (grun (init_g c07_s1 [[c07_up [2]%N]; [RUploadMultipart c07_b (mkUpMeta [109]%N [116]%N 0 []) [3]%N c07_cp0]])
                      [0; 1]%nat)) = [1; 1].
Proof. split; vm_compute; reflexivity. Qed.

(* two readers (media, metadata) fetch object (b, n) of c07_s1; a writer then overwrites it
   completely (yield, commit: content [2], a new generation); the readers answer afterwards — with
   the OLD object, every field of it, while the store holds the new one.  Commit order: the two
   fetches, then the writer; answer order: the writer first *)
Example C07_get_answers_old_object :
  let st := init_g c07_s1 [[RGetMedia c07_b c07_n]; [c07_up [2]%N]; [RGetMeta c07_b c07_n]] in
  let out := grun st [0; 2; 1; 1; 0; 2]%nat in
  map otag (snd out) = [1; 1; 1; 200; 200; 200]
  /\ nth 4 (snd out) OIdle = ODone (mkResp 200 (BMedia [1]%N [116]%N c07_g 1))
  /\ nth 5 (snd out) OIdle = ODone (mkResp 200 (BMeta (mkView c07_b c07_n 1 c07_g 1 [116]%N 1 [])))
  /\ snd (handle c07_s1 (RGetMedia c07_b c07_n)) = mkResp 200 (BMedia [1]%N [116]%N c07_g 1)
  /\ snd (handle c07_s1 (RGetMeta c07_b c07_n)) = mkResp 200 (BMeta (mkView c07_b c07_n 1 c07_g 1 [116]%N 1 []))
  /\ find_obj (g_store (fst out)) c07_b c07_n = Some (mkObj [2]%N [116]%N (c07_g + 1) 1 true [])
  /\ map fst (gcommits_t st [0; 2; 1; 1; 0; 2]%nat) = [(0, 1); (2, 1); (1, 1)]%nat
  /\ map fst (ganswers_t st [0; 2; 1; 1; 0; 2]%nat) = [(1, 1); (0, 1); (2, 1)]%nat.
Proof. exact get_answers_old_object. Qed.

(* two conditional uploaders: the hypotheses of C07_exactly_one_conditional_writer_wins hold, and
   exactly one answers 200 in either order *)
Example C07_conditional_writers_nonvacuous :
  c07_n <> [] /\ 0 < c07_g <= int64_max /\ has_gen c07_b c07_n c07_g c07_s1
  /\ all_done (fst (grun (init_g c07_s1 [[c07_cup [2]%N]; [c07_cup [3]%N]]) [0; 1; 0; 1]%nat))
  /\ map otag (snd (grun (init_g c07_s1 [[c07_cup [2]%N]; [c07_cup [3]%N]]) [0; 1; 0; 1]%nat)) = [1; 2; 200; 412]
  /\ map otag (snd (grun (init_g c07_s1 [[c07_cup [2]%N]; [c07_cup [3]%N]]) [1; 0; 1; 0]%nat)) = [1; 2; 200; 412].
Proof.
  split; [discriminate|]. split; [vm_compute; split; [reflexivity|discriminate]|]. split.
  - eexists. split; [vm_compute; reflexivity|]. split; [reflexivity|]. vm_compute. discriminate.
  - split; [intros th Hin; vm_compute in Hin; destruct Hin as [<-|[<-|[]]]; reflexivity|].
    split; vm_compute; reflexivity.
Qed.

Example C07_dne_writers_nonvacuous :
  find_obj init_state c07_b c07_n = None
  /\ all_done (fst (grun (init_g init_state [[c07_dup [2]%N]; [c07_dup [3]%N]]) [0; 1; 0; 1]%nat))
  /\ map otag (snd (grun (init_g init_state [[c07_dup [2]%N]; [c07_dup [3]%N]]) [0; 1; 0; 1]%nat)) = [1; 2; 200; 412].
Proof.
  split; [reflexivity|]. split; [intros th Hin; vm_compute in Hin; destruct Hin as [<-|[<-|[]]]; reflexivity|].
  vm_compute. reflexivity.
Qed.

(* a metageneration-conditioned patch parked at its yield while an uploader of the same object is
   blocked: hypotheses of C07_held_patch_applies_to_checked_object_partial *)
Example C07_held_patch_nonvacuous :
  let st := init_g c07_s1 [[c07_patch]; [c07_up [3]%N]] in
  all_reqs lock_respecting st /\ glock_inv st /\ gsess_inv st /\ sess_safe 6 st
  /\ cur_req st 0 = Some (c07_patch, GNew) /\ snd (gstep st 0) = OAt
  /\ map otag (snd (grun st [0; 1; 0; 1; 1]%nat)) = [1; 2; 200; 1; 200].
Proof.
  cbn zeta.
  assert (Hwf : sessions_wf c07_s1) by (apply handle_sessions_wf; apply sessions_wf_init).
  split; [apply all_reqs_init; repeat constructor|]. split; [apply glock_inv_init|].
  split; [apply gsess_inv_init; exact Hwf|].
  split; [right; split; [apply gsess_inv_init; exact Hwf|vm_compute; discriminate]|].
  split; [reflexivity|]. split; vm_compute; reflexivity.
Qed.

(* a resumable PUT parked at its yield holding the lock of its session's object, in a state
   reachable from a well-formed store: the guards of section 5 hold there *)
Example C07_sess_safe_nonvacuous :
  let s2 := fst (handle c07_s1 (RResumableInit c07_b false (mkUpMeta c07_n [116]%N 0 []) c07_cp0)) in
  let put := RResumablePut [49]%N (Some [98; 121; 116; 101; 115; 32; 48; 45; 48; 47; 49]%N) [9]%N in
  let st := fst (grun (init_g s2 [[c07_up [2]%N]; [put]]) [0; 1; 0; 1]%nat) in
  sessions_wf s2 /\ glock_inv st /\ all_reqs lock_respecting st /\ gsess_inv st /\ sess_safe 5 st
  /\ parked_put st 1 [49]%N (c07_b, c07_n).
Proof. exact sess_safe_nonvacuous. Qed.

(* symbolic preconditions: both first steps, then both commits.  If thread 1 made its first step
   only after thread 0's answer, its condition would be frozen to the NEW generation and it would
   win too: the hypothesis "all first steps before any answer" is needed *)
Example C07_symbolic_writers_nonvacuous :
  let st := init_g c07_s1 [[c07_sup [2]%N]; [c07_sup [3]%N]] in
  done_resps (snd (grun st [0; 1]%nat)) = []
  /\ map otag (snd (grun st ([0; 1] ++ [0; 1])%nat)) = [1; 2; 200; 412]
  /\ map otag (snd (grun st [0; 0; 1; 1]%nat)) = [1; 200; 1; 200].
Proof. cbn zeta. split; [|split]; vm_compute; reflexivity. Qed.

(* the linearisation of a schedule in which the second thread commits first *)
Example C07_log_example :
  map fst (glog_t (init_g c07_s1 [[c07_cup [2]%N]; [c07_cup [3]%N]]) [1; 0; 1; 0]%nat) = [(1, 1); (0, 1)]%nat.
Proof. vm_compute. reflexivity. Qed.

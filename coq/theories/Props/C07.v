(* C07 — GCS: concurrent operations on one object are atomic and serialisable, for ALL schedules
   of the interleaving model GCS/Conc.v.  Only statements here; proofs are in GCS/ConcProofs.v. *)
From Coq Require Import List NArith ZArith Bool.
Import ListNotations.
From Emu.Common Require Import Bytes Str.
From Emu.GCS Require Import Model Conc UploadProofs GenerationProofs ComposeProofs ConcProofs.
Local Open Scope Z_scope.

(* ---- 1. the object locks ---- *)

(* in every reachable state: at most one holder per object key, at most one lock per thread,
   (k, i) is in the holders list iff thread i is parked at its yield on a request locking k *)
Theorem C07_glock_inv : forall s0 progs sched, glock_inv (fst (grun (init_g s0 progs) sched)).
Proof. exact glock_inv_reachable. Qed.
Print Assumptions C07_glock_inv.

Theorem C07_glock_inv_step : forall st i, glock_inv st -> glock_inv (fst (gstep st i)).
Proof. exact glock_inv_gstep. Qed.
Print Assumptions C07_glock_inv_step.

(* a blocked step happens only when ANOTHER thread holds the key, and changes nothing but the
   freezing of the head request of the stepping thread *)
Theorem C07_blocked_step : forall st i, glock_inv st -> snd (gstep st i) = OBlocked ->
  exists th r0 rest k j,
    nth_error (g_threads st) i = Some th /\ gt_todo th = r0 :: rest /\ gt_prog th = GNew
    /\ lock_key r0 = Some k /\ j <> i /\ In (k, j) (g_holders st) /\ holds_key st j k
    /\ fst (gstep st i) = mkGState (g_store st) (g_holders st)
                            (upd_nth (g_threads st) i (mkGThread (freeze (g_store st) r0 :: rest) GNew)).
Proof. exact gstep_blocked_spec. Qed.
Print Assumptions C07_blocked_step.

(* a step of thread i touches no other thread *)
Theorem C07_step_other_threads : forall st i j, j <> i ->
  nth_error (g_threads (fst (gstep st i))) j = nth_error (g_threads st) j.
Proof. exact gstep_other_threads. Qed.
Print Assumptions C07_step_other_threads.

(* ---- 2. the final store is the fold of the commit effects, in schedule order ---- *)

Theorem C07_gconc_effects : forall sched st,
  g_store (fst (grun st sched)) = fold_left apply_geffect (geffects st sched) (g_store st).
Proof. exact gconc_effects. Qed.
Print Assumptions C07_gconc_effects.

Theorem C07_gconc_effect_resps : forall sched st,
  done_resps (snd (grun st sched)) = effect_resps (g_store st) (geffects st sched).
Proof. exact gconc_effect_resps. Qed.
Print Assumptions C07_gconc_effect_resps.

(* what one step does, summarised by its effect *)
Theorem C07_step_effect_spec : forall st i,
  match step_effect st i with
  | Some e => g_store (fst (gstep st i)) = apply_geffect (g_store st) e
              /\ snd (gstep st i) = ODone (effect_resp (g_store st) e)
  | None => g_store (fst (gstep st i)) = g_store st /\ forall rsp, snd (gstep st i) <> ODone rsp
  end.
Proof. exact step_effect_spec. Qed.
Print Assumptions C07_step_effect_spec.

(* ---- 3. serialisability ---- *)

(* programs without compose: every schedule equals the sequential run of the frozen requests in
   commit order — same final store, same responses in the same order *)
Theorem C07_gconc_serializable_object : forall s0 progs sched, Forall (Forall not_compose) progs ->
  let st := init_g s0 progs in
  g_store (fst (grun st sched)) = fst (run s0 (glog st sched))
  /\ done_resps (snd (grun st sched)) = snd (run s0 (glog st sched)).
Proof. exact gconc_serializable_object. Qed.
Print Assumptions C07_gconc_serializable_object.

(* real-time order: A answered before B's first step => A precedes B in the linearisation *)
Theorem C07_gconc_real_time : forall st s1 s2 A rA B rB,
  In (A, rA) (glog_t st s1) -> ~ In B (gops st s1) -> In (B, rB) (glog_t st (s1 ++ s2)) ->
  exists l1 l2 l3, glog_t st (s1 ++ s2) = l1 ++ (A, rA) :: l2 ++ (B, rB) :: l3.
Proof. exact gconc_real_time. Qed.
Print Assumptions C07_gconc_real_time.

Theorem C07_glog_t_reqs : forall sched st, map snd (glog_t st sched) = glog st sched.
Proof. exact glog_t_reqs. Qed.
Print Assumptions C07_glog_t_reqs.

(* every operation is linearised at most once *)
Theorem C07_glog_t_nodup : forall sched st, NoDup (map fst (glog_t st sched)).
Proof. exact glog_t_nodup. Qed.
Print Assumptions C07_glog_t_nodup.

(* compose: all sources exist in ONE store state (the capture step) ... *)
Theorem C07_compose_capture : forall st i b dst bad srcs dm cp,
  cur_req st i = Some (RCompose b dst bad srcs dm cp, GNew) -> snd (gstep st i) = OAt ->
  exists dstname,
    lock_key (RCompose b dst bad srcs dm cp) = Some (b, dstname)
    /\ Forall (src_usable (g_store st) b) srcs
    /\ g_store (fst (gstep st i)) = g_store st
    /\ cur_req (fst (gstep st i)) i
       = Some (RCompose b dst bad srcs dm cp,
               GHold (Some (mkObj (flat_map (src_data (g_store st) b) srcs) (dm_ctype dm)
                                  (s_clock (g_store st) + 1) 1 false (dm_meta dm)))).
Proof. exact compose_capture. Qed.
Print Assumptions C07_compose_capture.

(* ... and their concatenation is stored with a generation fresh at commit time *)
Theorem C07_compose_commit : forall st i b dst bad srcs dm cp o d,
  cur_req st i = Some (RCompose b dst bad srcs dm cp, GHold (Some o)) ->
  lock_key (RCompose b dst bad srcs dm cp) = Some (b, d) ->
  let s := g_store st in
  let o' := mkObj (o_data o) (o_ctype o) (s_clock s + 1) 1 (o_md5 o) (o_meta o) in
  step_effect st i = Some (EAdd b d o)
  /\ snd (gstep st i) = ODone (mkResp 200 (BMeta (view b d o')))
  /\ find_obj (g_store (fst (gstep st i))) b d = Some o'
  /\ (forall b' n', (b', n') <> (b, d) -> find_obj (g_store (fst (gstep st i))) b' n' = find_obj s b' n')
  /\ (gens_bounded s -> forall b0 n0 o0, find_obj s b0 n0 = Some o0 -> o_gen o0 < o_gen o').
Proof. exact compose_commit. Qed.
Print Assumptions C07_compose_commit.

(* C07 — placeholder statements; the serialisation theorems are in GCS/ConcProofs.v (to come) *)
From Coq Require Import List NArith ZArith Bool.
From Emu.GCS Require Import Model Conc.
Example C07_model_runs : snd (gstep (mkGState init_state nil nil) 0) = OIdle.
Proof. reflexivity. Qed.

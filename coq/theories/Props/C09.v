(* C09 — GCS: the file store answers like the memory store.  The listing walk visits the names
   in bytewise order (each preceded by the directories leading to it), so on every well-formed
   state every request — listings included — gets the same answer from both stores.
   Only statements here; proofs are in GCS/FileListProofs.v. *)
From Coq Require Import List NArith ZArith Bool Sorting Permutation.
Import ListNotations.
From Emu.Common Require Import Bytes Str StrProofs.
From Emu.GCS Require Import Model FileList UploadProofs ListingProofs FileListProofs.
Local Open Scope Z_scope.

(* every request other than a listing is served by the same handler model for both stores *)
Theorem C09_same_handlers : forall s r, (forall b p d c m, r <> RList b p d c m) -> handle_fs s r = handle s r.
Proof. intros s r H. destruct r; try reflexivity. exfalso. eapply H. reflexivity. Qed.
Print Assumptions C09_same_handlers.

(* 1. the file walk visits the names in bytewise order ... *)
Theorem C09_fs_sort_perm : forall names, Permutation names (fs_sort names).
Proof. exact fs_sort_perm. Qed.
Print Assumptions C09_fs_sort_perm.

Theorem C09_fs_sort_sorted : forall names, StronglySorted lex_le (fs_sort names).
Proof. exact fs_sort_sorted. Qed.
Print Assumptions C09_fs_sort_sorted.

(* ... which is the order the names of a bucket are kept in *)
Theorem C09_fs_sort_id_on_sorted : forall names, StronglySorted lex_le names -> fs_sort names = names.
Proof. exact fs_sort_id_on_sorted. Qed.
Print Assumptions C09_fs_sort_id_on_sorted.

Theorem C09_fs_sort_bucket : forall bk : bucket, asorted bk -> fs_sort (map fst bk) = map fst bk.
Proof. exact fs_sort_bucket. Qed.
Print Assumptions C09_fs_sort_bucket.

Theorem C09_fs_sort_state_ok : forall s b bk, state_ok s -> get_bucket s b = Some bk ->
  fs_sort (map fst bk) = map fst bk.
Proof. exact fs_sort_state_ok. Qed.
Print Assumptions C09_fs_sort_state_ok.

Theorem C09_fs_sort_reachable : forall rs b bk, get_bucket (fst (run init_state rs)) b = Some bk ->
  fs_sort (map fst bk) = map fst bk.
Proof. exact fs_sort_reachable. Qed.
Print Assumptions C09_fs_sort_reachable.

(* 2. on every sorted bucket the two walks return the same page, for every prefix, delimiter,
   cursor and page size; no condition on the shape of the names *)
Theorem C09_fs_walk_equiv : forall (bk : bucket) delim cursor prefix maxres,
  asorted bk ->
  list_walk delim cursor prefix maxres (fs_entries bk) = list_walk delim cursor prefix maxres (mem_entries bk).
Proof. exact fs_walk_equiv. Qed.
Print Assumptions C09_fs_walk_equiv.

Theorem C09_fs_walk_equiv_names : forall names delim cursor prefix maxres,
  StronglySorted lex_lt names ->
  list_walk delim cursor prefix maxres (([], true) :: fs_entries_go [] (fs_sort names))
  = list_walk delim cursor prefix maxres (ents names).
Proof. exact fs_walk_equiv_names. Qed.
Print Assumptions C09_fs_walk_equiv_names.

Theorem C09_fs_walk_equiv_nodelim : forall (bk : bucket) cursor prefix maxres,
  asorted bk ->
  list_walk [] cursor prefix maxres (fs_entries bk)
  = (firstn maxres (filter (sel cursor prefix) (map fst bk)), [],
     (maxres <? length (filter (sel cursor prefix) (map fst bk)))%nat,
     last_opt (firstn maxres (filter (sel cursor prefix) (map fst bk)))).
Proof. exact fs_walk_equiv_nodelim. Qed.
Print Assumptions C09_fs_walk_equiv_nodelim.

(* 3. hence the handlers agree on every state satisfying the store invariant, and whole runs
   agree; from the empty store without any condition on the requests *)
Theorem C09_stores_equivalent_buckets : forall s r,
  (forall b bk, get_bucket s b = Some bk -> asorted bk) -> handle_fs s r = handle s r.
Proof. exact stores_equivalent_buckets. Qed.
Print Assumptions C09_stores_equivalent_buckets.

Theorem C09_stores_equivalent : forall s r, state_ok s -> handle_fs s r = handle s r.
Proof. exact stores_equivalent. Qed.
Print Assumptions C09_stores_equivalent.

Theorem C09_run_fs_equiv : forall rs s, state_ok s -> run_fs s rs = run s rs.
Proof. exact run_fs_equiv. Qed.
Print Assumptions C09_run_fs_equiv.

Theorem C09_run_fs_equiv_init : forall rs, run_fs init_state rs = run init_state rs.
Proof. exact run_fs_equiv_init. Qed.
Print Assumptions C09_run_fs_equiv_init.

Theorem C09_run_fs_canon_equiv : forall rs, run_fs_canon rs = run_canon rs.
Proof. exact run_fs_canon_equiv. Qed.
Print Assumptions C09_run_fs_canon_equiv.

(* 4. the pruning tests on directory entries are sound for all inputs: nothing under a skipped
   directory is selected; everything under (and, in an ascending list, after) a directory beyond
   the prefix range is beyond it too *)
Theorem C09_prune_sound : forall cursor prefix d n, has_prefix n (d ++ s_sep) = true ->
  (less_than_prefix d cursor || less_than_prefix d prefix = true -> sel cursor prefix n = false)
  /\ (greater_than_prefix d prefix = true ->
      greater_than_prefix n prefix = true /\ has_prefix n prefix = false
      /\ forall rest, StronglySorted lex_lt (n :: rest) ->
           Forall (fun g => greater_than_prefix g prefix = true /\ has_prefix g prefix = false) rest).
Proof. exact prune_sound. Qed.
Print Assumptions C09_prune_sound.

(* soundness of the file listing on any state ... *)
Theorem C09_fs_list_sound : forall s b prefix delim cursor maxres s' items prefixes next,
  handle_fs s (RList b prefix delim cursor maxres) = (s', mkResp 200 (BList items prefixes next)) ->
  Forall (fun v => exists o, find_obj s b (v_name v) = Some o /\ v = view b (v_name v) o
                    /\ lex_ltb (match cursor with Some c => c | None => [] end) (v_name v) = true
                    /\ has_prefix (v_name v) prefix = true) items.
Proof. exact fs_list_sound. Qed.
Print Assumptions C09_fs_list_sound.

(* ... and its completeness on well-formed states: exactly the first m selected names *)
Theorem C09_fs_list_complete : forall s b prefix cursor ms m bk,
  state_ok s -> parse_int ms = Some m -> (1 <= m)%Z -> get_bucket s b = Some bk ->
  let cur := match cursor with Some c => c | None => [] end in
  let F := filter (sel cur prefix) (map fst bk) in
  let found := firstn (Z.to_nat m) F in
  let more := (Z.to_nat m <? length F)%nat in
  exists items,
    handle_fs s (RList b prefix [] cursor (Some ms))
    = (s, mkResp 200 (BList items []
                        (if more then match rev found with l :: _ => Some l | [] => None end else None)))
    /\ map v_name items = found
    /\ Forall (fun v => v_bucket v = b /\ exists o, alookup (v_name v) bk = Some o /\ v = view b (v_name v) o) items.
Proof. exact fs_list_complete. Qed.
Print Assumptions C09_fs_list_complete.

(* 5. what the walk used to do (finding GCS-2, repaired): filepath.Walk's order is a sort by
   path-segment lists; where it agrees with the bytewise order the old walk was right; on bucket
   {"foo-bar/x", "foo/y"} with prefix "foo-" it listed nothing, the repaired walk lists "foo-bar/x" *)
Theorem C09_fs_sort_walk_perm : forall names, Permutation names (fs_sort_walk names).
Proof. exact fs_sort_walk_perm. Qed.
Print Assumptions C09_fs_sort_walk_perm.

Theorem C09_fs_sort_walk_sorted : forall names, StronglySorted name_le (fs_sort_walk names).
Proof. exact fs_sort_walk_sorted. Qed.
Print Assumptions C09_fs_sort_walk_sorted.

Theorem C09_order_compatible_iff : forall names, order_compatible names <-> StronglySorted name_le names.
Proof. exact order_compatible_iff. Qed.
Print Assumptions C09_order_compatible_iff.

Theorem C09_old_walk_equiv_order : forall (bk : bucket) delim cursor prefix maxres,
  asorted bk -> order_compatible (map fst bk) ->
  list_walk delim cursor prefix maxres (fs_entries_walk bk) = list_walk delim cursor prefix maxres (mem_entries bk).
Proof. exact old_walk_equiv_order. Qed.
Print Assumptions C09_old_walk_equiv_order.

Theorem C09_old_walk_order_refuted :
  get_bucket c09_state c09_bucket = Some c09_bk
  /\ map fst c09_bk = [c09_foo_bar_x; c09_foo_y]
  /\ fs_sort_walk (map fst c09_bk) = [c09_foo_y; c09_foo_bar_x]
  /\ fs_sort (map fst c09_bk) = [c09_foo_bar_x; c09_foo_y]
  /\ list_walk [] [] c09_foo_dash 1000 (fs_entries_walk c09_bk) = ([], [], false, None)
  /\ list_walk [] [] c09_foo_dash 1000 (fs_entries c09_bk) = ([c09_foo_bar_x], [], false, Some c09_foo_bar_x)
  /\ list_walk [] [] c09_foo_dash 1000 (mem_entries c09_bk) = ([c09_foo_bar_x], [], false, Some c09_foo_bar_x)
  /\ list_proj (snd (handle_fs c09_state c09_list)) = ([c09_foo_bar_x], [], None)
  /\ handle_fs c09_state c09_list = handle c09_state c09_list.
Proof. exact old_walk_order_refuted. Qed.
Print Assumptions C09_old_walk_order_refuted.

(* ---- non-vacuity ---- *)

(* the sort moves names, and the two orders differ on the names of GCS-2 *)
Example C09_sort_nonvacuous :
  fs_sort [c09_foo_y; [101]%N; c09_foo_bar_x] = [[101]%N; c09_foo_bar_x; c09_foo_y]
  /\ fs_sort_walk [c09_foo_bar_x; c09_foo_y] = [c09_foo_y; c09_foo_bar_x]
  /\ StronglySorted lex_lt [c09_foo_bar_x; c09_foo_y]
  /\ ~ order_compatible [c09_foo_bar_x; c09_foo_y].
Proof.
  split; [vm_compute; reflexivity|]. split; [vm_compute; reflexivity|]. split; [repeat constructor|].
  unfold order_compatible. vm_compute. discriminate.
Qed.

(* bucket {"a/b", "a/c/d", "e"}: a reachable, well-formed state; its bucket is sorted; the walk
   emits each directory once, before the first name below it; a listing with a delimiter collapses
   a/ on both stores; a cursor inside a/ and a small page behave alike too *)
Example C09_equiv_nonvacuous :
  state_ok c09_ok_state
  /\ (exists bk, get_bucket c09_ok_state c09_bucket = Some bk /\ asorted bk
        /\ map fst bk = [[97; 47; 98]; [97; 47; 99; 47; 100]; [101]]%N
        /\ fs_entries bk
           = [([], true); ([97]%N, true); ([97; 47; 98]%N, false); ([97; 47; 99]%N, true);
              ([97; 47; 99; 47; 100]%N, false); ([101]%N, false)])
  /\ list_proj (snd (handle_fs c09_ok_state (RList c09_bucket [] [47]%N None None))) = ([[101]%N], [[97; 47]%N], None)
  /\ list_proj (snd (handle_fs c09_ok_state (RList c09_bucket [97; 47]%N [] (Some [97; 47; 98]%N) (Some [49]%N))))
     = ([[97; 47; 99; 47; 100]%N], [], None)
  /\ list_proj (snd (handle_fs c09_ok_state (RList c09_bucket [] [] None (Some [50]%N))))
     = ([[97; 47; 98]; [97; 47; 99; 47; 100]]%N, [], Some [97; 47; 99; 47; 100]%N).
Proof.
  split; [apply state_ok_run; apply state_ok_init|].
  split; [|split; [|split]; vm_compute; reflexivity].
  destruct (get_bucket c09_ok_state c09_bucket) as [bk|] eqn:E; [|vm_compute in E; discriminate].
  exists bk. split; [reflexivity|].
  split; [eapply reachable_bucket_sorted; exact E|].
  vm_compute in E. injection E as <-. split; vm_compute; reflexivity.
Qed.

(* no representability condition: bucket {"a", "a//c", "a/b"} ("a" is an object and a directory,
   "a//c" has an empty segment) is well-formed for the model, the walk emits file a, directory a,
   directory a/, ..., and the listings agree *)
Example C09_odd_names_nonvacuous :
  state_ok c09_odd_state
  /\ (exists bk, get_bucket c09_odd_state c09_bucket = Some bk
        /\ map fst bk = [[97]; [97; 47; 47; 99]; [97; 47; 98]]%N
        /\ fs_entries bk
           = [([], true); ([97]%N, false); ([97]%N, true); ([97; 47]%N, true); ([97; 47; 47; 99]%N, false);
              ([97; 47; 98]%N, false)])
  /\ handle_fs c09_odd_state (RList c09_bucket [97; 47]%N [47]%N None None)
     = handle c09_odd_state (RList c09_bucket [97; 47]%N [47]%N None None)
  /\ list_proj (snd (handle_fs c09_odd_state (RList c09_bucket [97; 47]%N [47]%N None None)))
     = ([[97; 47; 98]%N], [[97; 47; 47]%N], None).
Proof.
  assert (Hok : state_ok c09_odd_state) by (apply state_ok_run; apply state_ok_init).
  split; [exact Hok|]. split; [|split; [apply stores_equivalent; exact Hok|vm_compute; reflexivity]].
  destruct (get_bucket c09_odd_state c09_bucket) as [bk|] eqn:E; [|vm_compute in E; discriminate].
  exists bk. split; [reflexivity|]. vm_compute in E. injection E as <-. split; vm_compute; reflexivity.
Qed.

(* the pruning tests fire: directory "a" is skipped for prefix "b" and for cursor "b";
   directory "c" is beyond the prefix range of "b" *)
Example C09_prune_nonvacuous :
  has_prefix [97; 47; 120]%N ([97]%N ++ s_sep) = true
  /\ less_than_prefix [97]%N [98]%N = true
  /\ sel [] [98]%N [97; 47; 120]%N = false /\ sel [98]%N [] [97; 47; 120]%N = false
  /\ greater_than_prefix [99]%N [98]%N = true
  /\ greater_than_prefix [99; 47; 120]%N [98]%N = true.
Proof. repeat split; vm_compute; reflexivity. Qed.

(* a complete page: two of the three names, token = the last one *)
Example C09_complete_nonvacuous :
  parse_int [50]%N = Some 2
  /\ exists bk, get_bucket c09_ok_state c09_bucket = Some bk
       /\ firstn (Z.to_nat 2) (filter (sel [] []) (map fst bk)) = [[97; 47; 98]; [97; 47; 99; 47; 100]]%N
       /\ (Z.to_nat 2 <? length (filter (sel [] []) (map fst bk)))%nat = true.
Proof.
  split; [vm_compute; reflexivity|].
  destruct (get_bucket c09_ok_state c09_bucket) as [bk|] eqn:E; [|vm_compute in E; discriminate].
  exists bk. split; [reflexivity|]. vm_compute in E. injection E as <-. split; vm_compute; reflexivity.
Qed.

(* with a delimiter and a page of one, the page token is the collapsed prefix "a/" on the file
   store as on the memory store, and the page resumed from it skips everything below a/ *)
Example C09_delimiter_token_nonvacuous :
  list_proj (snd (handle_fs c09_ok_state (RList c09_bucket [] [47]%N None (Some [49]%N))))
  = ([], [[97; 47]%N], Some [97; 47]%N)
  /\ list_proj (snd (handle_fs c09_ok_state (RList c09_bucket [] [47]%N (Some [97; 47]%N) (Some [49]%N))))
     = ([[101]%N], [], None)
  /\ handle_fs c09_ok_state (RList c09_bucket [] [47]%N (Some [97; 47]%N) (Some [49]%N))
     = handle c09_ok_state (RList c09_bucket [] [47]%N (Some [97; 47]%N) (Some [49]%N)).
Proof.
  split; [vm_compute; reflexivity|]. split; [vm_compute; reflexivity|].
  apply stores_equivalent. apply state_ok_run. apply state_ok_init.
Qed.

(* The file store's (bucket, name) -> files mapping (GCS/FsPaths.v, tied to filestore.go by listing
   what Add creates): different storable names of a bucket, and objects of different buckets, share
   neither content file nor sidecar; a name ending in the sidecar extension is refused *)
From Emu.GCS Require Import FsPaths FsPathsProofs.
Theorem C09_files_apart : forall b n1 n2,
  storable n1 = true -> storable n2 = true -> n1 <> n2 ->
  forall f, In f [content_file b n1; sidecar_file b n1] -> In f [content_file b n2; sidecar_file b n2] -> False.
Proof. exact files_apart. Qed.
Print Assumptions C09_files_apart.

Theorem C09_buckets_apart : forall b1 b2 n1 n2,
  bucket_ok b1 = true -> bucket_ok b2 = true -> storable n1 = true -> storable n2 = true -> b1 <> b2 ->
  forall f, In f [content_file b1 n1; sidecar_file b1 n1] -> In f [content_file b2 n2; sidecar_file b2 n2] -> False.
Proof. exact buckets_apart. Qed.
Print Assumptions C09_buckets_apart.

Theorem C09_sidecar_names_refused : forall b n, add_files b (n ++ s_meta_ext) = None.
Proof. exact sidecar_names_refused. Qed.
Print Assumptions C09_sidecar_names_refused.

Theorem C09_add_files_shape : forall b n fs,
  add_files b n = Some fs -> fs = [content_file b n; sidecar_file b n] /\ storable n = true /\ bucket_ok b = true.
Proof. exact add_files_shape. Qed.
Print Assumptions C09_add_files_shape.

Example C09_siblings_apart : forall b f,
  In f [content_file b n_report; sidecar_file b n_report] ->
  In f [content_file b (n_report ++ x_tmp); sidecar_file b (n_report ++ x_tmp)] -> False.
Proof. exact siblings_apart. Qed.

(* C09 — GCS: the file store answers like the memory store, except for the listing walk order.
   Only statements here; proofs are in GCS/FileListProofs.v. *)
From Coq Require Import List NArith ZArith Bool Sorting Permutation.
Import ListNotations.
From Emu.Common Require Import Bytes Str StrProofs.
From Emu.GCS Require Import Model FileList ListingProofs FileListProofs.
Local Open Scope Z_scope.

(* every request other than a listing is served by the same handler model for both stores *)
Theorem C09_same_handlers : forall s r, (forall b p d c m, r <> RList b p d c m) -> handle_fs s r = handle s r.
Proof. intros s r H. destruct r; try reflexivity. exfalso. eapply H. reflexivity. Qed.
Print Assumptions C09_same_handlers.

(* 1. the file walk visits the names in the order of their path-segment lists *)
Theorem C09_fs_sort_perm : forall names, Permutation names (fs_sort names).
Proof. exact fs_sort_perm. Qed.
Print Assumptions C09_fs_sort_perm.

Theorem C09_fs_sort_sorted : forall names, StronglySorted name_le (fs_sort names).
Proof. exact fs_sort_sorted. Qed.
Print Assumptions C09_fs_sort_sorted.

(* 2. order-compatible = already in segment order *)
Theorem C09_order_compatible_iff : forall names, order_compatible names <-> StronglySorted name_le names.
Proof. exact order_compatible_iff. Qed.
Print Assumptions C09_order_compatible_iff.

(* 3. on a bucket whose names are representable and order-compatible the two walks return the
   same page, for every prefix, delimiter, cursor and page size *)
Theorem C09_fs_walk_equiv : forall (bk : bucket) delim cursor prefix maxres,
  asorted bk -> representable (map fst bk) -> order_compatible (map fst bk) ->
  list_walk delim cursor prefix maxres (fs_entries bk) = list_walk delim cursor prefix maxres (mem_entries bk).
Proof. exact fs_walk_equiv. Qed.
Print Assumptions C09_fs_walk_equiv.

(* in the model order-compatibility alone suffices *)
Theorem C09_fs_walk_equiv_order : forall (bk : bucket) delim cursor prefix maxres,
  asorted bk -> order_compatible (map fst bk) ->
  list_walk delim cursor prefix maxres (fs_entries bk) = list_walk delim cursor prefix maxres (mem_entries bk).
Proof. exact fs_walk_equiv_order. Qed.
Print Assumptions C09_fs_walk_equiv_order.

Theorem C09_fs_walk_equiv_nodelim : forall (bk : bucket) cursor prefix maxres,
  asorted bk -> order_compatible (map fst bk) ->
  list_walk [] cursor prefix maxres (fs_entries bk)
  = (firstn maxres (filter (sel cursor prefix) (map fst bk)), [],
     (maxres <? length (filter (sel cursor prefix) (map fst bk)))%nat).
Proof. exact fs_walk_equiv_nodelim. Qed.
Print Assumptions C09_fs_walk_equiv_nodelim.

(* hence the handlers agree on such states, and so do whole runs through such states *)
Theorem C09_stores_equivalent : forall s r, fs_compatible s -> handle_fs s r = handle s r.
Proof. exact stores_equivalent. Qed.
Print Assumptions C09_stores_equivalent.

Theorem C09_run_fs_equiv : forall rs s, fs_compatible_run s rs -> run_fs s rs = run s rs.
Proof. exact run_fs_equiv. Qed.
Print Assumptions C09_run_fs_equiv.

(* 4. finding GCS-2: bucket {"foo-bar/x", "foo/y"}, prefix "foo-": memory store lists "foo-bar/x",
   the file store lists nothing *)
Theorem C09_stores_listing_refuted :
  list_proj (snd (handle c09_state c09_list)) = ([c09_foo_bar_x], [], None)
  /\ list_proj (snd (handle_fs c09_state c09_list)) = ([], [], None)
  /\ handle_fs c09_state c09_list <> handle c09_state c09_list.
Proof. exact stores_listing_refuted. Qed.
Print Assumptions C09_stores_listing_refuted.

(* 5. soundness of the file listing without any hypothesis on the names *)
Theorem C09_prune_sound_partial : forall s b prefix delim cursor maxres s' items prefixes next,
  handle_fs s (RList b prefix delim cursor maxres) = (s', mkResp 200 (BList items prefixes next)) ->
  Forall (fun v => exists o, find_obj s b (v_name v) = Some o /\ v = view b (v_name v) o
                    /\ lex_ltb (match cursor with Some c => c | None => [] end) (v_name v) = true
                    /\ has_prefix (v_name v) prefix = true) items.
Proof. exact prune_sound_partial. Qed.
Print Assumptions C09_prune_sound_partial.

(* ---- non-vacuity ---- *)

Example C09_sort_nonvacuous :
  fs_sort [c09_foo_bar_x; c09_foo_y] = [c09_foo_y; c09_foo_bar_x]
  /\ ~ order_compatible [c09_foo_bar_x; c09_foo_y].
Proof. split; [vm_compute; reflexivity|]. unfold order_compatible. vm_compute. discriminate. Qed.

(* representability alone is not enough: the names of finding GCS-2 are lex-ascending and
   representable, but not order-compatible *)
Example C09_representable_not_enough :
  representable [c09_foo_bar_x; c09_foo_y]
  /\ StronglySorted lex_lt [c09_foo_bar_x; c09_foo_y]
  /\ ~ order_compatible [c09_foo_bar_x; c09_foo_y].
Proof.
  split; [|split].
  - split.
    + repeat constructor; try discriminate; vm_compute; intuition discriminate.
    + intros n m Hn Hm [t [Ht E]]. cbn in Hn, Hm.
      destruct Hn as [<-|[<-|[]]]; destruct Hm as [<-|[<-|[]]]; vm_compute in E;
        try discriminate E; injection E; intros; subst; try discriminate; try congruence; apply Ht; reflexivity.
  - repeat constructor.
  - unfold order_compatible. vm_compute. discriminate.
Qed.

(* bucket {"a/b", "a/c/d", "e"}: sorted, representable, order-compatible; a listing with a
   delimiter collapses a/ on both stores *)
Example C09_compatible_nonvacuous :
  fs_compatible c09_ok_state
  /\ list_proj (snd (handle_fs c09_ok_state (RList c09_bucket [] [47]%N None None))) = ([[101]%N], [[97; 47]%N], None)
  /\ fs_entries_go [] [[97; 47; 98]; [97; 47; 99; 47; 100]; [101]]%N
     = [([97]%N, true); ([97; 47; 98]%N, false); ([97; 47; 99]%N, true); ([97; 47; 99; 47; 100]%N, false); ([101]%N, false)].
Proof.
  split; [|split; vm_compute; reflexivity].
  intros b bk H. unfold get_bucket in H. remember (s_buckets c09_ok_state) as bs eqn:Ebs. vm_compute in Ebs. subst bs.
  cbn [alookup] in H. destruct (beqb b [98%N]); [|discriminate]. injection H as <-. split; [|split].
  - repeat constructor.
  - split.
    + repeat constructor; try discriminate; vm_compute; intuition discriminate.
    + intros n m Hn Hm [t [Ht E]]. cbn in Hn, Hm.
      destruct Hn as [<-|[<-|[<-|[]]]]; destruct Hm as [<-|[<-|[<-|[]]]]; vm_compute in E;
        try discriminate E; injection E; intros; subst; try discriminate; try congruence; apply Ht; reflexivity.
  - vm_compute. reflexivity.
Qed.

(* C09 — GCS: the file store answers like the memory store, except for the listing walk order.
   Only statements here; proofs are in GCS/FileListProofs.v. *)
From Coq Require Import List NArith ZArith Bool Sorting Permutation.
Import ListNotations.
From Emu.Common Require Import Bytes Str.
From Emu.GCS Require Import Model FileList ListingProofs FileListProofs.
Local Open Scope Z_scope.

(* every request other than a listing is served by the same handler model for both stores *)
Theorem C09_same_handlers : forall s r, (forall b p d c m, r <> RList b p d c m) -> handle_fs s r = handle s r.
Proof. intros s r H. destruct r; try reflexivity. exfalso. eapply H. reflexivity. Qed.
Print Assumptions C09_same_handlers.

(* the file walk visits the names in the order of their path-segment lists *)
Theorem C09_fs_sort_perm : forall names, Permutation names (fs_sort names).
Proof. exact fs_sort_perm. Qed.
Print Assumptions C09_fs_sort_perm.

Theorem C09_fs_sort_sorted : forall names, StronglySorted name_le (fs_sort names).
Proof. exact fs_sort_sorted. Qed.
Print Assumptions C09_fs_sort_sorted.

(* finding GCS-2: bucket {"foo-bar/x", "foo/y"}, prefix "foo-": memory store lists "foo-bar/x",
   the file store lists nothing *)
Theorem C09_stores_listing_refuted :
  list_proj (snd (handle c09_state c09_list)) = ([c09_foo_bar_x], [], None)
  /\ list_proj (snd (handle_fs c09_state c09_list)) = ([], [], None)
  /\ handle_fs c09_state c09_list <> handle c09_state c09_list.
Proof. exact stores_listing_refuted. Qed.
Print Assumptions C09_stores_listing_refuted.

Example C09_sort_nonvacuous :
  fs_sort [c09_foo_bar_x; c09_foo_y] = [c09_foo_y; c09_foo_bar_x].
Proof. vm_compute. reflexivity. Qed.

(* C09 — statements about the file-store listing model; proofs in GCS/FileListProofs.v (to come) *)
From Coq Require Import List NArith ZArith Bool.
Import ListNotations.
From Emu.Common Require Import Bytes Str.
From Emu.GCS Require Import Model FileList.
(* every request other than a listing is served by the same handler model for both stores *)
Theorem C09_same_handlers : forall s r, (forall b p d c m, r <> RList b p d c m) -> handle_fs s r = handle s r.
Proof. intros s r H. destruct r; try reflexivity. exfalso. eapply H. reflexivity. Qed.
Print Assumptions C09_same_handlers.

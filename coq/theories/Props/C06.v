(* C06 — placeholder statements; the serialisation theorems are in BT/ConcProofs.v (to come) *)
From Coq Require Import List NArith ZArith Bool.
From Emu.BT Require Import Types Server Conc.
Example C06_model_runs : snd (cstep (mkCState nil None nil) 0) = OIdle.
Proof. reflexivity. Qed.

(* C06 — Bigtable: single-row writes are all-or-nothing and linearizable.
   Only statements here; the interleaving model is BT/Conc.v (one scheduler step = the run of a
   request up to its next instrumented yield point), proofs are in BT/ConcProofs.v.
   All theorems hold for EVERY schedule and any number of threads. *)
From Coq Require Import List NArith ZArith Bool.
Import ListNotations.
From Emu.Common Require Import Bytes Str StrProofs.
From Emu.BT Require Import Types Mutate Server CellSpec MutateProofs RmwProofs Conc ConcProofs.
Local Open Scope Z_scope.

(* ---- the lock structure ---- *)

(* in every reachable state the holder is exactly the thread parked inside its write section,
   and every thread's progress fits the request it is running *)
Theorem C06_conc_inv : forall s0 progs sched,
  let st := fst (crun (init_cstate s0 progs) sched) in
  (forall i, cs_holder st = Some i <-> at_mid st i) /\ Forall thread_wf (cs_threads st).
Proof. exact conc_inv_reachable. Qed.
Print Assumptions C06_conc_inv.

(* at most one thread is inside a write section *)
Theorem C06_mid_unique : forall st i j, conc_inv st -> at_mid st i -> at_mid st j -> i = j.
Proof. exact mid_unique. Qed.
Print Assumptions C06_mid_unique.

(* a blocked step: the thread needs the lock, ANOTHER thread holds it (parked inside its write
   section), and nothing changes *)
Theorem C06_blocked_spec : forall st i, snd (cstep st i) = OBlocked ->
  fst (cstep st i) = st
  /\ exists c rest p j, thread_at st i c rest p /\ needs_lock (cl_req c) p = true
                        /\ cs_holder st = Some j /\ j <> i /\ (conc_inv st -> at_mid st j).
Proof. exact blocked_spec. Qed.
Print Assumptions C06_blocked_spec.

Theorem C06_free_not_blocked : forall st i, cs_holder st = None -> snd (cstep st i) <> OBlocked.
Proof. exact free_not_blocked. Qed.
Print Assumptions C06_free_not_blocked.

Theorem C06_idle_spec : forall st i, snd (cstep st i) = OIdle -> fst (cstep st i) = st.
Proof. exact idle_spec. Qed.
Print Assumptions C06_idle_spec.

(* a step of thread i never changes another thread's record *)
Theorem C06_cstep_frame : forall st i j, j <> i ->
  nth_error (cs_threads (fst (cstep st i))) j = nth_error (cs_threads st) j.
Proof. exact cstep_frame. Qed.
Print Assumptions C06_cstep_frame.

(* the complete case analysis of one scheduler step *)
Theorem C06_cstep_spec : forall st i, cstep_spec st i (fst (cstep st i)) (snd (cstep st i)).
Proof. exact cstep_spec_holds. Qed.
Print Assumptions C06_cstep_spec.

(* ---- (a) serialisability ---- *)

(* every step is a serial effect: nothing, the whole committing request ([step]), or one GC batch *)
Theorem C06_crun_is_serial_effects : forall sched st,
  cs_server (fst (crun st sched)) = fold_left apply_effect (effects st sched) (cs_server st).
Proof. exact crun_is_serial_effects. Qed.
Print Assumptions C06_crun_is_serial_effects.

(* the linearisation log [lin_log]: one entry per request, made at the step that fixes its effect
   and its answer (a writer: the step leaving the write section = its ODone step; a read: the step
   ending its last section, one r.send yield before its ODone).  For programs without GC
   requests, EVERY schedule is explained by the serial run of the log: same final server; same
   response for every entry (but reads that handed over in the middle: ev_exact = false); per
   thread, the log holds the thread's requests in program order, with the answers it received
   (the last one possibly still owed: [pending]) *)
Theorem C06_conc_serializable : forall s0 progs sched, no_gc_progs progs ->
  let st0 := init_cstate s0 progs in
  let L := lin_log st0 sched in
  fst (run s0 (map ev_call L)) = cs_server (fst (crun st0 sched))
  /\ Forall2 (fun e r => ev_exact e = true -> ev_resp e = r) L (snd (run s0 (map ev_call L)))
  /\ forall j,
       map ev_resp (lin_of j L) = done_of j sched (snd (crun st0 sched)) ++ pending (fst (crun st0 sched)) j
       /\ map ev_tag (lin_of j L) ++ tag (unlin (fst (crun st0 sched)) j) = tag (nth j progs []).
Proof. exact conc_serializable. Qed.
Print Assumptions C06_conc_serializable.

(* (thread, ev_rem) names a request; no request is logged twice *)
Theorem C06_lin_log_nodup : forall s0 progs sched, no_gc_progs progs ->
  NoDup (map (fun e => (ev_tid e, ev_rem e)) (lin_log (init_cstate s0 progs) sched)).
Proof. exact lin_log_nodup. Qed.
Print Assumptions C06_lin_log_nodup.

(* "simple" requests: an entry is inexact only for a read that had handed the lock over in the
   middle of its scan (it was parked at a non-final r.send); every request that runs in one
   section — all writes, admin requests, reads without hand-over — is exact *)
Theorem C06_inexact_only_after_handover : forall st i e, step_event st i = Some e -> ev_exact e = false ->
  exists rows rngs count coins pending acc, prog_at st i = PScan rows rngs count coins pending acc false.
Proof. exact inexact_only_after_handover. Qed.
Print Assumptions C06_inexact_only_after_handover.

(* writes and admin requests only: the log IS the list of calls in the order of their ODone steps *)
Theorem C06_conc_serializable_writes : forall s0 progs sched,
  no_gc_progs progs -> no_req_progs is_read progs ->
  let st0 := init_cstate s0 progs in
  let D := done_log st0 sched in
  run s0 (map ev_call D) = (cs_server (fst (crun st0 sched)), map ev_resp D).
Proof. exact conc_serializable_writes. Qed.
Print Assumptions C06_conc_serializable_writes.

(* the same for every schedule along which no read is ever parked inside its scan (reads that
   answer in the step taking their first lock, e.g. with nothing to send, are allowed).  For reads
   that park before their last send the ODone order is NOT a serialisation: see
   C06_read_linearises_at_its_section below *)
Theorem C06_conc_serializable_odone : forall s0 progs sched, no_gc_progs progs ->
  let st0 := init_cstate s0 progs in
  scan_free st0 sched ->
  let D := done_log st0 sched in
  run s0 (map ev_call D) = (cs_server (fst (crun st0 sched)), map ev_resp D).
Proof. exact conc_serializable_odone. Qed.
Print Assumptions C06_conc_serializable_odone.

(* commit order = lock-acquisition order *)
Theorem C06_commit_order_is_lock_order : forall s0 progs sched,
  acq_log (init_cstate s0 progs) sched
  = commit_log (init_cstate s0 progs) sched ++ opt_list (cs_holder (fst (crun (init_cstate s0 progs) sched))).
Proof. exact commit_order_is_lock_order_init. Qed.
Print Assumptions C06_commit_order_is_lock_order.

(* ---- (b) real-time order ---- *)

(* if request A (of thread i) answers at the step after [sa], and request B (of thread j) is
   still not started after [sa ++ i :: sb], then in the log of every extension A's entry comes
   before B's: the log splits as La ++ Lb, A's entry (with the answer A received) is in La, and
   La has no entry of B nor of any later request of B's thread.  (thread, ev_rem) names a request *)
Theorem C06_conc_realtime : forall s0 progs sa i sb j cA restA pA cB restB r,
  no_gc_progs progs ->
  let st0 := init_cstate s0 progs in
  let st1 := fst (crun st0 sa) in
  thread_at st1 i cA restA pA -> snd (cstep st1 i) = ODone r ->
  let st2 := fst (crun st0 (sa ++ i :: sb)) in
  thread_at st2 j cB restB PNew ->
  forall sc,
  exists La Lb ea,
    lin_log st0 ((sa ++ i :: sb) ++ sc) = La ++ Lb
    /\ In ea La /\ ev_tid ea = i /\ ev_tag ea = (cA, length restA) /\ ev_resp ea = r
    /\ forall eb, In eb La -> ev_tid eb = j -> (length restB < ev_rem eb)%nat.
Proof. exact conc_realtime. Qed.
Print Assumptions C06_conc_realtime.

(* ---- (c) concurrent increments add up ---- *)
Theorem C06_conc_increments_add_up : forall s0 tbl key fam q v0 progs sched,
  server_ok s0 -> counter_at s0 tbl key fam q v0 ->
  Forall (fun p => exists c, p = [c] /\ is_incr tbl key fam q c) progs ->
  let st := fst (crun (init_cstate s0 progs) sched) in
  (forall j, todo_at st j = []) ->
  counter_at (cs_server st) tbl key fam q (wrap64 (v0 + Z.of_nat (length progs))).
Proof. exact conc_increments_add_up. Qed.
Print Assumptions C06_conc_increments_add_up.

(* the sequential fact behind it: a run of increments adds their number *)
Theorem C06_run_incrs : forall tbl key fam q calls s v, server_ok s -> counter_at s tbl key fam q v ->
  Forall (is_incr tbl key fam q) calls ->
  counter_at (fst (run s calls)) tbl key fam q (wrap64 (v + Z.of_nat (length calls))).
Proof. exact run_incrs. Qed.
Print Assumptions C06_run_incrs.

(* ---- (d) two conditional writes ---- *)
Theorem C06_conc_cam_exclusive : forall s0 cA cB sched rA rB,
  is_gc (cl_req cA) = false -> is_gc (cl_req cB) = false ->
  is_read (cl_req cA) = false -> is_read (cl_req cB) = false ->
  (br_body (snd (step s0 cA)) = YMatched true -> br_body (snd (step (fst (step s0 cA)) cB)) <> YMatched true) ->
  (br_body (snd (step s0 cB)) = YMatched true -> br_body (snd (step (fst (step s0 cB)) cA)) <> YMatched true) ->
  let outs := snd (crun (init_cstate s0 [[cA]; [cB]]) sched) in
  In rA (done_of 0 sched outs) -> In rB (done_of 1 sched outs) ->
  ~ (br_body rA = YMatched true /\ br_body rB = YMatched true).
Proof. exact conc_cam_exclusive. Qed.
Print Assumptions C06_conc_cam_exclusive.

(* ---- (e) failure atomicity (sequential) ---- *)

(* EVERY request answered with an error leaves the whole server exactly as it was *)
Theorem C06_failure_atomic : forall s c, br_code (snd (step s c)) <> cOK -> fst (step s c) = s.
Proof. exact failure_atomic. Qed.
Print Assumptions C06_failure_atomic.

Theorem C06_failure_atomic_row : forall s c tbl key, br_code (snd (step s c)) <> cOK ->
  option_map (fun t => get_row t key) (alookup tbl (fst (step s c)))
  = option_map (fun t => get_row t key) (alookup tbl s).
Proof. exact failure_atomic_row. Qed.
Print Assumptions C06_failure_atomic_row.

(* MutateRows: the fold of [mrows_step] over the entries; an entry whose status is not OK leaves
   the table exactly as the entries before it left it *)
Theorem C06_step_mutate_rows : forall s tbl entries now coins,
  step s (mkCall (BMutateRows tbl entries) now coins) =
  match alookup tbl s with
  | None => (s, fail cNotFound)
  | Some t => (set_table s tbl (fst (fold_left (mrows_step now) entries (t, []))),
               ok (YEntries (snd (fold_left (mrows_step now) entries (t, [])))))
  end.
Proof. exact step_mutate_rows. Qed.
Print Assumptions C06_step_mutate_rows.

Theorem C06_mutate_rows_entry_atomic : forall now ta cs e,
  exists code, snd (mrows_step now (ta, cs) e) = cs ++ [code]
               /\ (code <> cOK -> fst (mrows_step now (ta, cs) e) = ta).
Proof. exact mutate_rows_entry_atomic. Qed.
Print Assumptions C06_mutate_rows_entry_atomic.

(* ---- (f) no torn read ---- *)
Theorem C06_no_torn_read : forall s0 progs sched, no_gc_progs progs ->
  let L := lin_log (init_cstate s0 progs) sched in
  forall k e, nth_error L k = Some e -> ev_exact e = true ->
    ev_resp e = snd (step (fst (run s0 (map ev_call (firstn k L)))) (ev_call e)).
Proof. exact no_torn_read. Qed.
Print Assumptions C06_no_torn_read.

(* ---- non-vacuity ---- *)
Definition C06_tbl : bytes := [112; 114; 111; 106; 101; 99; 116; 115; 47; 112; 47; 105; 110; 115; 116; 97; 110; 99; 101; 115; 47; 105; 47; 116; 97; 98; 108; 101; 115; 47; 116]%N.   (* "projects/p/instances/i/tables/t" *)
Definition C06_s0 : server :=
  fst (run [] [mkCall (BCreateTable [112; 114; 111; 106; 101; 99; 116; 115; 47; 112; 47; 105; 110; 115; 116; 97; 110; 99; 101; 115; 47; 105]%N [116%N] [([102%N], None)]) 0 []]).
Definition C06_w (v : N) : call := mkCall (BMutateRow C06_tbl [114%N] [SetCell [102%N] [113%N] 1000 [v]]) 0 [].
Definition C06_r : call := mkCall (BReadRows C06_tbl [] [] None 0) 0 [].

(* two writers on the same row: the second is blocked while the first is parked inside its
   section; both commit; the log is in commit order *)
Example C06_two_writers :
  let st0 := init_cstate C06_s0 [[C06_w 1]; [C06_w 2]] in
  let sched := [0; 0; 1; 1; 0; 0; 1; 1]%nat in
  snd (crun st0 sched) = [OAt; OAt; OAt; OBlocked; ODone (ok YNone); OIdle; OAt; ODone (ok YNone)]
  /\ map ev_call (lin_log st0 sched) = [C06_w 1; C06_w 2]
  /\ done_log st0 sched = lin_log st0 sched
  /\ acq_log st0 sched = [0; 1]%nat /\ commit_log st0 sched = [0; 1]%nat
  /\ cs_server (fst (crun st0 sched)) = fst (run C06_s0 [C06_w 1; C06_w 2]).
Proof. vm_compute. repeat split. Qed.

(* a read linearises BEFORE it answers: in ODone order the schedule below would read [write; read]
   although the read does not see the write — the log has [read; write] *)
Example C06_read_linearises_at_its_section :
  let st0 := init_cstate (fst (run C06_s0 [C06_w 1])) [[C06_r]; [C06_w 2]] in
  let sched := [0; 0; 1; 1; 1; 0]%nat in
  map is_done (snd (crun st0 sched)) = [false; false; false; false; true; true]
  /\ map ev_call (lin_log st0 sched) = [C06_r; C06_w 2]
  /\ map ev_call (done_log st0 sched) = [C06_w 2; C06_r]
  /\ map ev_resp (lin_log st0 sched) = snd (run (fst (run C06_s0 [C06_w 1])) [C06_r; C06_w 2])
  /\ map ev_resp (done_log st0 sched) <> snd (run (fst (run C06_s0 [C06_w 1])) [C06_w 2; C06_r]).
Proof. vm_compute. repeat split. discriminate. Qed.

(* real time: the hypotheses of C06_conc_realtime are met (writer 0 answers, then writer 1 starts) *)
Example C06_realtime_hyps :
  let st0 := init_cstate C06_s0 [[C06_w 1]; [C06_w 2]] in
  let sa := [0; 0]%nat in
  thread_at (fst (crun st0 sa)) 0 (C06_w 1) [] (PMid 0)
  /\ snd (cstep (fst (crun st0 sa)) 0) = ODone (ok YNone)
  /\ thread_at (fst (crun st0 (sa ++ [0%nat]))) 1 (C06_w 2) [] PNew
  /\ map ev_tid (lin_log st0 ((sa ++ [0%nat]) ++ [1; 1; 1]%nat)) = [0; 1]%nat.
Proof. vm_compute. repeat split. Qed.

(* three concurrent increments of a counter holding 5, interleaved: the counter ends at 8 *)
Definition C06_ctr (v : N) : bytes := [0; 0; 0; 0; 0; 0; 0; v]%N.
Definition C06_s1 : server :=
  fst (run [] [mkCall (BCreateTable [112; 114; 111; 106; 101; 99; 116; 115; 47; 112; 47; 105; 110; 115; 116; 97; 110; 99; 101; 115; 47; 105]%N [116%N] [([102%N], None)]) 0 [];
               mkCall (BMutateRow C06_tbl [114%N] [SetCell [102%N] [113%N] 1000 (C06_ctr 5)]) 0 []]).
Definition C06_inc (now : Z) : call := mkCall (BReadModifyWrite C06_tbl [114%N] [RIncrement [102%N] [113%N] 1]) now [].

Example C06_increments :
  server_ok C06_s1
  /\ counter_at C06_s1 C06_tbl [114%N] [102%N] [113%N] 5
  /\ let st := fst (crun (init_cstate C06_s1 [[C06_inc 7000]; [C06_inc 500]; [C06_inc 3000]])
                         [0; 1; 2; 1; 0; 2; 1; 1; 0; 0; 2; 2]%nat) in
     (forall j, todo_at st j = [])
     /\ counter_at (cs_server st) C06_tbl [114%N] [102%N] [113%N] 8.
Proof.
  split; [apply MutateProofs.C01_history|]. split.
  - do 3 eexists. split; [vm_compute; reflexivity|]. repeat split.
  - split.
    + intros [|[|[|j]]]; vm_compute; try reflexivity. destruct j; reflexivity.
    + do 3 eexists. split; [vm_compute; reflexivity|]. repeat split.
Qed.

(* two "delete the row if it has a cell" requests: serially the second never matches after the
   first; in the schedule below (the second blocked behind the first) exactly one matches *)
Definition C06_cam : call := mkCall (BCheckAndMutate C06_tbl [114%N] None [DeleteFromRow] []) 0 [].
Example C06_cam_hyps :
  (br_body (snd (step C06_s1 C06_cam)) = YMatched true ->
   br_body (snd (step (fst (step C06_s1 C06_cam)) C06_cam)) <> YMatched true)
  /\ snd (crun (init_cstate C06_s1 [[C06_cam]; [C06_cam]]) [0; 1; 0; 1; 0; 1; 1]%nat)
     = [OAt; OAt; OAt; OBlocked; ODone (ok (YMatched true)); OAt; ODone (ok (YMatched false))].
Proof. split; [intros _; vm_compute; discriminate|vm_compute; reflexivity]. Qed.

(* a failing MutateRow (unknown family) among valid mutations: nothing of it is kept *)
Example C06_failure_example :
  let c := mkCall (BMutateRow C06_tbl [114%N] [SetCell [102%N] [113%N] 2000 [9%N]; SetCell [120%N] [113%N] 2000 [9%N]]) 0 [] in
  snd (step C06_s1 c) = fail cUnknown /\ fst (step C06_s1 c) = C06_s1.
Proof. vm_compute. split; reflexivity. Qed.

(* a read with nothing to send answers in the step that takes its lock: the schedule is scan-free
   and the ODone order serialises it together with the writers *)
Definition C06_r_empty : call := mkCall (BReadRows C06_tbl [[122%N]] [] None 0) 0 [].
Example C06_scan_free_example :
  let st0 := init_cstate C06_s0 [[C06_r_empty]; [C06_w 2]] in
  let sched := [0; 1; 0; 1; 1]%nat in
  scan_free st0 sched
  /\ map ev_call (done_log st0 sched) = [C06_r_empty; C06_w 2]
  /\ map ev_resp (done_log st0 sched) = [ok (YRows []); ok YNone].
Proof.
  split; [|split; vm_compute; reflexivity].
  cbn [scan_free]. repeat split; try (intros [|[|[|i]]]; vm_compute; try reflexivity; destruct i; reflexivity).
Qed.

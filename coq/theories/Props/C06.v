(* C06 — Bigtable: single-row writes are all-or-nothing and linearizable.
   Only statements here; the interleaving model is BT/Conc.v (one scheduler step = the run of a
   request up to its next instrumented yield point), proofs are in BT/ConcProofs.v.
   All theorems hold for EVERY schedule and any number of threads. *)
From Coq Require Import List NArith ZArith Bool.
Import ListNotations.
From Emu.Common Require Import Bytes Str StrProofs.
From Emu.BT Require Import Types Mutate Server Conc ConcProofs.
Local Open Scope Z_scope.

(* ---- the lock structure ---- *)

(* in every reachable state the holder is exactly the thread parked inside its write section,
   and every thread's progress fits the request it is running *)
Theorem C06_conc_inv : forall s0 progs sched,
  let st := fst (crun (init_cstate s0 progs) sched) in
  (forall i, cs_holder st = Some i <-> at_mid st i) /\ Forall thread_wf (cs_threads st).
Proof. exact conc_inv_reachable. Qed.
Print Assumptions C06_conc_inv.

(* at most one thread is inside a write section *)
Theorem C06_mid_unique : forall st i j, conc_inv st -> at_mid st i -> at_mid st j -> i = j.
Proof. exact mid_unique. Qed.
Print Assumptions C06_mid_unique.

(* a blocked step: the thread needs the lock, ANOTHER thread holds it (parked inside its write
   section), and nothing changes *)
Theorem C06_blocked_spec : forall st i, snd (cstep st i) = OBlocked ->
  fst (cstep st i) = st
  /\ exists c rest p j, thread_at st i c rest p /\ needs_lock (cl_req c) p = true
                        /\ cs_holder st = Some j /\ j <> i /\ (conc_inv st -> at_mid st j).
Proof. exact blocked_spec. Qed.
Print Assumptions C06_blocked_spec.

Theorem C06_free_not_blocked : forall st i, cs_holder st = None -> snd (cstep st i) <> OBlocked.
Proof. exact free_not_blocked. Qed.
Print Assumptions C06_free_not_blocked.

Theorem C06_idle_spec : forall st i, snd (cstep st i) = OIdle -> fst (cstep st i) = st.
Proof. exact idle_spec. Qed.
Print Assumptions C06_idle_spec.

(* a step of thread i never changes another thread's record *)
Theorem C06_cstep_frame : forall st i j, j <> i ->
  nth_error (cs_threads (fst (cstep st i))) j = nth_error (cs_threads st) j.
Proof. exact cstep_frame. Qed.
Print Assumptions C06_cstep_frame.

(* the complete case analysis of one scheduler step *)
Theorem C06_cstep_spec : forall st i, cstep_spec st i (fst (cstep st i)) (snd (cstep st i)).
Proof. exact cstep_spec_holds. Qed.
Print Assumptions C06_cstep_spec.

(* ---- (a) serialisability ---- *)

(* every step is a serial effect: nothing, the whole committing request ([step]), or one GC batch *)
Theorem C06_crun_is_serial_effects : forall sched st,
  cs_server (fst (crun st sched)) = fold_left apply_effect (effects st sched) (cs_server st).
Proof. exact crun_is_serial_effects. Qed.
Print Assumptions C06_crun_is_serial_effects.

(* the linearisation log [lin_log]: one entry per request, made at the step that fixes its effect
   and its answer (a writer: the step leaving the write section = its ODone step; a read: the step
   ending its last section, one r.send yield before its ODone).  For programs without GC
   requests, EVERY schedule is explained by the serial run of the log: same final server; same
   response for every entry (but reads that handed over in the middle: ev_exact = false); per
   thread, the log holds the thread's requests in program order, with the answers it received
   (the last one possibly still owed: [pending]) *)
Theorem C06_conc_serializable : forall s0 progs sched, no_gc_progs progs ->
  let st0 := init_cstate s0 progs in
  let L := lin_log st0 sched in
  fst (run s0 (map ev_call L)) = cs_server (fst (crun st0 sched))
  /\ Forall2 (fun e r => ev_exact e = true -> ev_resp e = r) L (snd (run s0 (map ev_call L)))
  /\ forall j,
       map ev_resp (lin_of j L) = done_of j sched (snd (crun st0 sched)) ++ pending (fst (crun st0 sched)) j
       /\ map ev_tag (lin_of j L) ++ tag (unlin (fst (crun st0 sched)) j) = tag (nth j progs []).
Proof. exact conc_serializable. Qed.
Print Assumptions C06_conc_serializable.

(* writes and admin requests only: the log IS the list of calls in the order of their ODone steps *)
Theorem C06_conc_serializable_writes : forall s0 progs sched,
  no_gc_progs progs -> no_req_progs is_read progs ->
  let st0 := init_cstate s0 progs in
  let D := done_log st0 sched in
  run s0 (map ev_call D) = (cs_server (fst (crun st0 sched)), map ev_resp D).
Proof. exact conc_serializable_writes. Qed.
Print Assumptions C06_conc_serializable_writes.

(* commit order = lock-acquisition order *)
Theorem C06_commit_order_is_lock_order : forall s0 progs sched,
  acq_log (init_cstate s0 progs) sched
  = commit_log (init_cstate s0 progs) sched ++ opt_list (cs_holder (fst (crun (init_cstate s0 progs) sched))).
Proof. exact commit_order_is_lock_order_init. Qed.
Print Assumptions C06_commit_order_is_lock_order.

(* ---- non-vacuity ---- *)
Definition C06_tbl : bytes := [112; 47; 116; 97; 98; 108; 101; 115; 47; 116]%N.   (* "p/tables/t" *)
Definition C06_s0 : server :=
  fst (run [] [mkCall (BCreateTable [112%N] [116%N] [([102%N], None)]) 0 []]).
Definition C06_w (v : N) : call := mkCall (BMutateRow C06_tbl [114%N] [SetCell [102%N] [113%N] 1000 [v]]) 0 [].
Definition C06_r : call := mkCall (BReadRows C06_tbl [] [] None 0) 0 [].

(* two writers on the same row: the second is blocked while the first is parked inside its
   section; both commit; the log is in commit order *)
Example C06_two_writers :
  let st0 := init_cstate C06_s0 [[C06_w 1]; [C06_w 2]] in
  let sched := [0; 0; 1; 1; 0; 0; 1; 1]%nat in
  snd (crun st0 sched) = [OAt; OAt; OAt; OBlocked; ODone (ok YNone); OIdle; OAt; ODone (ok YNone)]
  /\ map ev_call (lin_log st0 sched) = [C06_w 1; C06_w 2]
  /\ done_log st0 sched = lin_log st0 sched
  /\ acq_log st0 sched = [0; 1]%nat /\ commit_log st0 sched = [0; 1]%nat
  /\ cs_server (fst (crun st0 sched)) = fst (run C06_s0 [C06_w 1; C06_w 2]).
Proof. vm_compute. repeat split. Qed.

(* a read linearises BEFORE it answers: in ODone order the schedule below would read [write; read]
   although the read does not see the write — the log has [read; write] *)
Example C06_read_linearises_at_its_section :
  let st0 := init_cstate (fst (run C06_s0 [C06_w 1])) [[C06_r]; [C06_w 2]] in
  let sched := [0; 0; 1; 1; 1; 0]%nat in
  map is_done (snd (crun st0 sched)) = [false; false; false; false; true; true]
  /\ map ev_call (lin_log st0 sched) = [C06_r; C06_w 2]
  /\ map ev_call (done_log st0 sched) = [C06_w 2; C06_r]
  /\ map ev_resp (lin_log st0 sched) = snd (run (fst (run C06_s0 [C06_w 1])) [C06_r; C06_w 2])
  /\ map ev_resp (done_log st0 sched) <> snd (run (fst (run C06_s0 [C06_w 1])) [C06_w 2; C06_r]).
Proof. vm_compute. repeat split. discriminate. Qed.

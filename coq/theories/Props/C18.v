(* C18 — Bigtable: scans stay sane while the table is being written.
   Only statements here; the interleaving model is BT/Conc.v, proofs are in BT/ScanConcProofs.v.
   The scanning thread runs among ANY other threads (writers, other scans, admin requests, GC
   passes); all theorems hold for every schedule. *)
From Coq Require Import List NArith ZArith Bool Sorting Lia.
Import ListNotations.
From Emu.Common Require Import Bytes Str StrProofs.
From Emu.BT Require Import Types Mutate Filter RowSet Server ScanProofs AdminProofs Bulk Conc ConcProofs ScanConcProofs.
Local Open Scope Z_scope.

(* ---- (a) every returned row comes from a snapshot ---- *)

(* [st]: the read is parked before its first lock; [sb ++ [i]]: any schedule whose last step is
   the read's answer.  Every returned row was produced by the scan's loop body [visit] (filter,
   then scrub with the table's families) from a row stored under its key in the table in one of
   [own_servers]: the server states in which the scan itself ran a section (each range's snapshot
   is taken in one of them) — states that existed between the scan's first and last step *)
Theorem C18_scan_rows_from_snapshot : forall st i c rest tbl keys ranges f limit sb res,
  thread_at st i c rest PAtLock -> cl_req c = BReadRows tbl keys ranges f limit ->
  done_of i sb (snd (crun st sb)) = [] ->
  snd (cstep (fst (crun st sb)) i) = ODone (ok (YRows res)) ->
  forall r, In r res -> emitted_from (own_servers i st (sb ++ [i])) tbl f r.
Proof. exact scan_rows_from_snapshot. Qed.
Print Assumptions C18_scan_rows_from_snapshot.

(* these states are servers after prefixes of the schedule, at steps of the scan *)
Theorem C18_own_servers_prefix : forall i sched st s, In s (own_servers i st sched) ->
  exists n, (n < length sched)%nat /\ nth_error sched n = Some i /\ s = cs_server (fst (crun st (firstn n sched))).
Proof. exact own_servers_prefix. Qed.
Print Assumptions C18_own_servers_prefix.

(* without a filter, spelled out: the row is the value stored under its key after a prefix of
   the schedule, scrubbed with the families of the table after a (possibly later) prefix *)
Theorem C18_scan_rows_from_snapshot_nofilter : forall st i c rest tbl keys ranges limit sb res,
  thread_at st i c rest PAtLock -> cl_req c = BReadRows tbl keys ranges None limit ->
  done_of i sb (snd (crun st sb)) = [] ->
  snd (cstep (fst (crun st sb)) i) = ODone (ok (YRows res)) ->
  forall r, In r res ->
  exists n1 n2 t1 t2 fs,
    (n1 < length (sb ++ [i]))%nat /\ nth_error (sb ++ [i]) n1 = Some i
    /\ alookup tbl (cs_server (fst (crun st (firstn n1 (sb ++ [i]))))) = Some t1
    /\ In (row_key r, fs) (t_rows t1)
    /\ (n2 < length (sb ++ [i]))%nat /\ nth_error (sb ++ [i]) n2 = Some i
    /\ alookup tbl (cs_server (fst (crun st (firstn n2 (sb ++ [i]))))) = Some t2
    /\ r = mkRow (row_key r) (scrub_fams (t_fams t2) fs) /\ row_fams r <> [].
Proof. exact scan_rows_from_snapshot_nofilter. Qed.
Print Assumptions C18_scan_rows_from_snapshot_nofilter.

(* ---- (b) ascending, no duplicates ---- *)
Theorem C18_scan_ascending_nodup : forall s0 progs sched i c rest p res, server_wf s0 ->
  let st := fst (crun (init_cstate s0 progs) sched) in
  thread_at st i c rest p -> is_read (cl_req c) = true ->
  snd (cstep st i) = ODone (ok (YRows res)) ->
  StronglySorted lex_lt (map row_key res) /\ NoDup (map row_key res).
Proof. exact scan_ascending_nodup. Qed.
Print Assumptions C18_scan_ascending_nodup.

(* every reachable server keeps its tables in key order (also under GC batches) *)
Theorem C18_crun_wf : forall sched st, server_wf (cs_server st) -> server_wf (cs_server (fst (crun st sched))).
Proof. exact crun_wf. Qed.
Print Assumptions C18_crun_wf.

(* ---- (c) rows nobody touches are returned exactly ---- *)
Theorem C18_scan_untouched_rows_exact : forall st i c rest tbl keys ranges limit sb res k fs tf,
  thread_at st i c rest PAtLock -> cl_req c = BReadRows tbl keys ranges None limit ->
  done_of i sb (snd (crun st sb)) = [] ->
  snd (cstep (fst (crun st sb)) i) = ODone (ok (YRows res)) ->
  (forall s, In s (own_servers i st (sb ++ [i])) -> row_const tbl k fs tf s) ->
  (forall r, In r res -> row_key r = k -> r = mkRow k (scrub_fams tf fs))
  /\ (limit <= 0 -> in_any (scan_ranges keys ranges) k -> scrub_fams tf fs <> [] -> In (mkRow k (scrub_fams tf fs)) res).
Proof. exact scan_untouched_rows_exact. Qed.
Print Assumptions C18_scan_untouched_rows_exact.

(* ---- (d) status and progress ---- *)

(* a valid read whose table exists parks at its first step ... *)
Theorem C18_scan_starts : forall st i c rest tbl t, thread_at st i c rest PNew -> valid_read (cl_req c) ->
  Conc.req_table (cl_req c) = Some tbl -> alookup tbl (cs_server st) = Some t ->
  cstep st i = (set_prog st i c rest PAtLock, OAt).
Proof. exact scan_starts. Qed.
Print Assumptions C18_scan_starts.

(* ... and whenever it answers while the table exists, it answers OK with rows *)
Theorem C18_scan_status_ok : forall st i c rest p tbl keys ranges f limit t rsp,
  thread_at st i c rest p -> cl_req c = BReadRows tbl keys ranges f limit ->
  p = PAtLock \/ is_scan_prog p = true ->
  alookup tbl (cs_server st) = Some t ->
  snd (cstep st i) = ODone rsp -> exists res, rsp = ok (YRows res).
Proof. exact scan_status_ok. Qed.
Print Assumptions C18_scan_status_ok.

(* never blocked unless a writer is parked inside its write section *)
Theorem C18_scan_not_blocked : forall st i, conc_inv st -> (forall j, ~ at_mid st j) -> snd (cstep st i) <> OBlocked.
Proof. exact scan_not_blocked. Qed.
Print Assumptions C18_scan_not_blocked.

(* every unblocked step of a scan answers, parks for the last send, or parks with a strictly
   smaller (ranges left, snapshot rows left): it ends after finitely many steps of its own *)
Theorem C18_scan_step_progress : forall st i c rest tbl keys ranges f limit rows rngs count coins pending acc,
  thread_at st i c rest (PScan rows rngs count coins pending acc false) ->
  cl_req c = BReadRows tbl keys ranges f limit ->
  snd (cstep st i) = OAt ->
  exists rows' rngs' c' co' p' acc' final',
    prog_at (fst (cstep st i)) i = PScan rows' rngs' c' co' p' acc' final'
    /\ ((final' = true /\ rows' = [] /\ rngs' = [])
        \/ (final' = false /\ scan_lt (length rngs', length rows') (length rngs, length rows))).
Proof. exact scan_step_progress. Qed.
Print Assumptions C18_scan_step_progress.

(* ---- non-vacuity: a scan that hands over in the middle, with a writer in between ---- *)
Definition C18_tbl : bytes := [112; 114; 111; 106; 101; 99; 116; 115; 47; 112; 47; 105; 110; 115; 116; 97; 110; 99; 101; 115; 47; 105; 47; 116; 97; 98; 108; 101; 115; 47; 116]%N.   (* "projects/p/instances/i/tables/t" *)
Definition C18_w (k v : N) : call := mkCall (BMutateRow C18_tbl [k] [SetCell [102%N] [113%N] 1000 [v]]) 0 [].
(* row a: 11 x 100 = 1100 cells (> btFlushChunks = 1024); rows b, c: one cell *)
Definition C18_s0 : server :=
  fst (run [] [mkCall (BCreateTable [112; 114; 111; 106; 101; 99; 116; 115; 47; 112; 47; 105; 110; 115; 116; 97; 110; 99; 101; 115; 47; 105]%N [116%N] [([102%N], None)]) 0 [];
               mkCall (BMutateRow C18_tbl [97%N] (bulk_muts [102%N] 11 100 1000 [1%N])) 0 [];
               C18_w 98 1; C18_w 99 1]).
Definition C18_read : call := mkCall (BReadRows C18_tbl [] [] None 0) 0 [].
Definition C18_st : cstate := fst (crun (init_cstate C18_s0 [[C18_read]; [C18_w 98 2]]) [0%nat]).
(* the scan's first section (hands over after row a), the writer commits b := 2, the scan
   continues in its snapshot, last send *)
Definition C18_sb : list nat := [0; 1; 1; 1; 0]%nat.

Example C18_hyps_met :
  server_wf C18_s0
  /\ thread_at C18_st 0 C18_read [] PAtLock
  /\ snd (crun C18_st C18_sb) = [OAt; OAt; OAt; ODone (ok YNone); OAt]
  /\ done_of 0 C18_sb (snd (crun C18_st C18_sb)) = []
  /\ (exists res, snd (cstep (fst (crun C18_st C18_sb)) 0) = ODone (ok (YRows res))
        /\ map row_key res = [[97]; [98]; [99]]%N
        (* b is returned with the value of the SNAPSHOT (1), not the committed 2 *)
        /\ nth_error res 1 = Some (mkRow [98%N] [mkFam [102%N] [mkCol [113%N] [mkCell 1000 [1%N] []]]]))
  /\ (exists t, alookup C18_tbl (cs_server (fst (crun C18_st C18_sb))) = Some t
        /\ get_row t [98%N] = [mkFam [102%N] [mkCol [113%N] [mkCell 1000 [2%N] []]]]).
Proof.
  split; [apply reachable_wf|]. split; [vm_compute; reflexivity|]. split; [vm_compute; reflexivity|].
  split; [vm_compute; reflexivity|]. split.
  - eexists. split; [vm_compute; reflexivity|]. split; vm_compute; reflexivity.
  - eexists. split; vm_compute; reflexivity.
Qed.

(* row c is untouched throughout: the hypothesis of (c) holds for it *)
Example C18_untouched_hyp :
  forall s, In s (own_servers 0 C18_st (C18_sb ++ [0%nat])) ->
  row_const C18_tbl [99%N] [mkFam [102%N] [mkCol [113%N] [mkCell 1000 [1%N] []]]] [([102%N], None)] s.
Proof.
  assert (Hwf : server_wf (cs_server C18_st)) by (apply crun_wf; apply reachable_wf).
  intros s Hs. destruct (own_servers_prefix _ _ _ _ Hs) as [n [Hn [_ ->]]].
  assert (Hw : server_wf (cs_server (fst (crun C18_st (firstn n (C18_sb ++ [0%nat])))))) by (apply crun_wf; exact Hwf).
  cbn [length C18_sb app] in Hn.
  assert (Hrows : forall m, (m < 6)%nat -> exists t,
            alookup C18_tbl (cs_server (fst (crun C18_st (firstn m (C18_sb ++ [0%nat]))))) = Some t
            /\ t_fams t = [([102%N], None)]
            /\ alookup [99%N] (t_rows t) = Some [mkFam [102%N] [mkCol [113%N] [mkCell 1000 [1%N] []]]]).
  { intros m Hm. do 6 (destruct m as [|m]; [eexists; split; [vm_compute; reflexivity|split; vm_compute; reflexivity]|]). lia. }
  destruct (Hrows n Hn) as [t [H1 [H2 H3]]]. exists t. repeat split; auto.
  destruct Hw as [_ Hw]. destruct (Hw _ _ H1) as [G _]. exact G.
Qed.

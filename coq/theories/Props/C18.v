(* C18 — placeholder statements; the scan theorems are in BT/ConcProofs.v (to come) *)
From Coq Require Import List NArith ZArith Bool.
From Emu.BT Require Import Types Server Conc.
Example C18_model_runs : snd (cstep (mkCState nil None nil) 0) = OIdle.
Proof. reflexivity. Qed.

(* C13 — Bigtable: ReadModifyWriteRow increments and appends against the latest cell.
   Only statements here; proofs are in BT/RmwProofs.v. *)
From Coq Require Import List NArith ZArith Bool.
Import ListNotations.
From Emu.Common Require Import Bytes Str StrProofs.
From Emu.BT Require Import Types Mutate Server CellSpec CellProofs RmwProofs.
Local Open Scope Z_scope.

(* the 8-byte big-endian codec *)
Theorem C13_be64_roundtrip : forall z, be64_decode (be64_encode z) = wrap64 z.
Proof. exact be64_roundtrip. Qed.
Print Assumptions C13_be64_roundtrip.

Theorem C13_be64_length : forall z, length (be64_encode z) = 8%nat.
Proof. exact be64_length. Qed.
Print Assumptions C13_be64_length.

Theorem C13_be64_encode_decode : forall b, length b = 8%nat -> (forall x, In x b -> (x < 256)%N) ->
  be64_encode (be64_decode b) = b.
Proof. exact be64_encode_decode. Qed.
Print Assumptions C13_be64_encode_decode.

(* increment = add and wrap at 64 bits (two's complement) *)
Theorem C13_rmw_increment_wraps : forall prev amt,
  be64_decode (incr_value prev amt) = wrap64 (be64_decode prev + amt)
  /\ length (incr_value prev amt) = 8%nat
  /\ - two63 <= be64_decode (incr_value prev amt) < two63
  /\ exists k, be64_decode (incr_value prev amt) = be64_decode prev + amt + k * two64.
Proof. exact rmw_increment_wraps. Qed.
Print Assumptions C13_rmw_increment_wraps.

(* the model's loop: each rule computes one cell from the row as left by the previous rules,
   writes it into the row and notes it in the response *)
Theorem C13_rmw_rules_unfold : forall tf now rule rest fs res,
  rmw_rules tf now (rule :: rest) fs res
  = match rmw_new_cell tf now rule fs with
    | None => None
    | Some nc => rmw_rules tf now rest (rmw_write fs rule nc) (rmw_note res rule nc)
    end.
Proof. exact rmw_rules_cons. Qed.
Print Assumptions C13_rmw_rules_unfold.

(* one rule on a well-formed row *)
Theorem C13_rmw_rule_spec : forall tf now rule fs nc,
  fams_ok fs -> rmw_new_cell tf now rule fs = Some nc ->
  let fam := fst (rule_target rule) in
  let q := snd (rule_target rule) in
  let old := cells_of fs fam q in
  let fs' := rmw_write fs rule nc in
  fams_ok fs'
  /\ known_family tf fam = true
  /\ c_ts nc = match old with c :: _ => Z.max (trunc_ms now) (c_ts c) | [] => trunc_ms now end
  /\ match rule with
     | RAppend _ _ v => c_val nc = match old with c :: _ => c_val c | [] => [] end ++ v
     | RIncrement _ _ amt =>
         be64_decode (c_val nc) = wrap64 (match old with c :: _ => be64_decode (c_val c) | [] => 0 end + amt)
         /\ length (c_val nc) = 8%nat
         /\ match old with c :: _ => length (c_val c) = 8%nat | [] => True end
     | RUnset _ _ => False
     end
  /\ (exists r, cells_of fs' fam q = nc :: r)
  /\ abs_fams fs' fam q (c_ts nc) = Some (c_val nc)
  /\ (forall f q' t, (f, q', t) <> (fam, q, c_ts nc) -> abs_fams fs' f q' t = abs_fams fs f q' t).
Proof. exact rmw_rule_spec. Qed.
Print Assumptions C13_rmw_rule_spec.

(* the head of a descending column is its newest cell *)
Theorem C13_newest_is_max : forall c r, desc (c :: r) ->
  cell_lookup (c :: r) (c_ts c) = Some (c_val c)
  /\ forall t, cell_lookup (c :: r) t <> None -> t <= c_ts c.
Proof. exact newest_is_max. Qed.
Print Assumptions C13_newest_is_max.

(* the response holds exactly the newly written cells: per touched column the last cell written
   there (= that column's newest cell in the new row), nothing for untouched columns *)
Theorem C13_rmw_response_spec : forall tf now rules fs fs' res,
  fams_ok fs -> rmw_rules tf now rules fs [] = Some (fs', res) ->
  fams_ok res /\ all_known tf res /\
  forall f q, cells_of res f q = if existsb (targets f q) rules then firstn 1 (cells_of fs' f q) else [].
Proof. exact rmw_response_spec. Qed.
Print Assumptions C13_rmw_response_spec.

(* the whole request, any rule list: a column that no rule names keeps exactly its cells, and in
   every column every version present before is still present afterwards ("older versions are
   kept": a rule replaces a version only at the very timestamp it writes) *)
Theorem C13_rmw_untouched_columns : forall tf now rules fs res fs' res' f q,
  rmw_rules tf now rules fs res = Some (fs', res') ->
  existsb (targets f q) rules = false -> cells_of fs' f q = cells_of fs f q.
Proof. exact rmw_rules_untouched. Qed.
Print Assumptions C13_rmw_untouched_columns.

Theorem C13_rmw_keeps_versions : forall tf now rules fs res fs' res',
  fams_ok fs -> rmw_rules tf now rules fs res = Some (fs', res') ->
  forall f q t, abs_fams fs f q t <> None -> abs_fams fs' f q t <> None.
Proof. exact rmw_rules_keep_versions. Qed.
Print Assumptions C13_rmw_keeps_versions.

(* failures *)
Theorem C13_unknown_family_fails : forall tf now rules fs res rule,
  In rule rules -> known_family tf (fst (rule_target rule)) = false ->
  rmw_rules tf now rules fs res = None.
Proof. exact rmw_unknown_family_fails. Qed.
Print Assumptions C13_unknown_family_fails.

Theorem C13_bad_increment_fails : forall tf now pre fam q amt post fs res fs1 res1 c r,
  rmw_rules tf now pre fs res = Some (fs1, res1) ->
  cells_of fs1 fam q = c :: r -> length (c_val c) <> 8%nat ->
  rmw_rules tf now (pre ++ RIncrement fam q amt :: post) fs res = None.
Proof. exact rmw_bad_increment_fails. Qed.
Print Assumptions C13_bad_increment_fails.

Theorem C13_rmw_error_atomic : forall s tbl key rules now coins t,
  alookup tbl s = Some t ->
  rmw_rules (t_fams t) now rules (get_row t key) [] = None ->
  step s (mkCall (BReadModifyWrite tbl key rules) now coins) = (s, fail cUnknown).
Proof. exact rmw_error_atomic. Qed.
Print Assumptions C13_rmw_error_atomic.

Theorem C13_unchanged_unless_ok : forall s tbl key rules now coins,
  br_code (snd (step s (mkCall (BReadModifyWrite tbl key rules) now coins))) <> cOK ->
  fst (step s (mkCall (BReadModifyWrite tbl key rules) now coins)) = s.
Proof. exact rmw_step_unchanged_unless_ok. Qed.
Print Assumptions C13_unchanged_unless_ok.

(* success at server level *)
Theorem C13_rmw_step_ok : forall s tbl key rules now coins t fs res,
  server_ok s -> alookup tbl s = Some t ->
  rmw_rules (t_fams t) now rules (get_row t key) [] = Some (fs, res) ->
  let '(s', rsp) := step s (mkCall (BReadModifyWrite tbl key rules) now coins) in
  server_ok s'
  /\ rsp = ok (YRows [mkRow key (scrub_fams (t_fams t) res)])
  /\ cm_eq (abs_fams (scrub_fams (t_fams t) res)) (abs_fams res)
  /\ (exists t', alookup tbl s' = Some t' /\ t_fams t' = t_fams t
                 /\ cm_eq (abs_fams (get_row t' key)) (abs_fams fs)
                 /\ forall k, k <> key -> alookup k (t_rows t') = alookup k (t_rows t))
  /\ (forall n, n <> tbl -> alookup n s' = alookup n s).
Proof. exact rmw_step_ok. Qed.
Print Assumptions C13_rmw_step_ok.

(* non-vacuity: a well-formed row with a cell in the future of the clock; increment + append
   succeed (timestamp arbitration both ways); append-then-increment on the same column fails;
   increment on an existing EMPTY value fails; wrap-around at the int64 boundary *)
Example C13_nonvacuous :
  let tf := [([102%N], None)] in
  let fs := [mkFam [102%N] [mkCol [113%N] [mkCell 5000 [0;0;0;0;0;0;0;1]%N []; mkCell 1000 [7%N] []];
                            mkCol [101%N] [mkCell 2000 [] []]]] in
  fams_ok fs
  /\ rmw_rules tf 3500 [RIncrement [102%N] [113%N] 2; RAppend [102%N] [120%N] [1%N]] fs []
     = Some ([mkFam [102%N] [mkCol [113%N] [mkCell 5000 [0;0;0;0;0;0;0;3]%N []; mkCell 1000 [7%N] []];
                             mkCol [101%N] [mkCell 2000 [] []];
                             mkCol [120%N] [mkCell 3000 [1%N] []]]],
             [mkFam [102%N] [mkCol [113%N] [mkCell 5000 [0;0;0;0;0;0;0;3]%N []];
                             mkCol [120%N] [mkCell 3000 [1%N] []]]])
  /\ rmw_rules tf 9000 [RAppend [102%N] [113%N] [9%N]; RIncrement [102%N] [113%N] 1] fs [] = None
  /\ rmw_rules tf 9000 [RIncrement [102%N] [101%N] 1] fs [] = None
  /\ rmw_rules tf 9000 [RIncrement [103%N] [101%N] 1] fs [] = None
  /\ be64_decode (incr_value [127; 255; 255; 255; 255; 255; 255; 255]%N 1) = - 9223372036854775808.
Proof. split; [apply fams_okb_sound; reflexivity|]. vm_compute. auto 10. Qed.

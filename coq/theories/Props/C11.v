(* C11 — GCS: listing and pagination (memory store: names strictly ascending, no directories).
   Full theorem without delimiter; with a delimiter only the page-size bound and soundness.
   Only statements here; proofs are in GCS/ListingProofs.v. *)
From Coq Require Import List NArith ZArith Bool Sorted.
Import ListNotations.
From Emu.Common Require Import Bytes Str StrProofs.
From Emu.GCS Require Import Model UploadProofs ListingProofs.

(* the early abort of the walk: in an ascending list, once an entry is beyond the prefix range
   all later ones are, and none of them has the prefix *)
Theorem C11_prefix_abort_sound : forall f rest p,
  StronglySorted lex_lt (f :: rest) -> greater_than_prefix f p = true ->
  Forall (fun g => greater_than_prefix g p = true /\ has_prefix g p = false) (f :: rest).
Proof. exact prefix_abort_sound. Qed.
Print Assumptions C11_prefix_abort_sound.

(* (i) one page without delimiter = the first maxResults names that are after the cursor and
   have the prefix; moreResults iff there are more than maxResults of them *)
Theorem C11_page_spec : forall cursor prefix maxres names,
  StronglySorted lex_lt names ->
  list_walk [] cursor prefix maxres (ents names)
  = (firstn maxres (filter (sel cursor prefix) names), [],
     (maxres <? length (filter (sel cursor prefix) names))%nat).
Proof. exact page_spec. Qed.
Print Assumptions C11_page_spec.

Theorem C11_page_spec_bucket : forall cursor prefix maxres (bk : bucket),
  asorted bk ->
  list_walk [] cursor prefix maxres (mem_entries bk)
  = (firstn maxres (filter (sel cursor prefix) (map fst bk)), [],
     (maxres <? length (filter (sel cursor prefix) (map fst bk)))%nat).
Proof. exact page_spec_bucket. Qed.
Print Assumptions C11_page_spec_bucket.

(* (ii) following the page tokens with maxResults >= 1: every selected name exactly once, in
   ascending order, in pages of at most maxResults *)
Theorem C11_paginate_complete_nodup_sorted : forall prefix cursor maxres names,
  StronglySorted lex_lt names -> (1 <= maxres)%nat ->
  let pages := follow (S (length names)) names prefix cursor maxres in
  concat pages = filter (sel cursor prefix) names
  /\ Forall (fun pg => (length pg <= maxres)%nat) pages
  /\ StronglySorted lex_lt (concat pages) /\ NoDup (concat pages).
Proof. exact paginate_complete_nodup_sorted. Qed.
Print Assumptions C11_paginate_complete_nodup_sorted.

(* (iii) any delimiter, any entries (directories included): items + prefixes <= maxResults *)
Theorem C11_page_size_bound : forall delim cursor prefix maxres entries,
  let '(found, prefixes, more) := list_walk delim cursor prefix maxres entries in
  (length found + length prefixes <= maxres)%nat.
Proof. exact page_size_bound. Qed.
Print Assumptions C11_page_size_bound.

(* any delimiter: every item is an entry after the cursor with the prefix; every returned prefix
   is an initial segment of such an entry *)
Theorem C11_page_sound : forall delim cursor prefix maxres entries,
  let '(found, prefixes, more) := list_walk delim cursor prefix maxres entries in
  Forall (found_sound cursor prefix entries) found /\ Forall (prefix_sound cursor prefix entries) prefixes.
Proof. exact page_sound. Qed.
Print Assumptions C11_page_sound.

(* the handler: maxResults = m >= 1, no delimiter, sorted bucket *)
Theorem C11_handle_list_page : forall s b prefix cursor ms m bk,
  parse_int ms = Some m -> (1 <= m)%Z -> get_bucket s b = Some bk -> asorted bk ->
  let cur := match cursor with Some c => c | None => [] end in
  let F := filter (sel cur prefix) (map fst bk) in
  let found := firstn (Z.to_nat m) F in
  let more := (Z.to_nat m <? length F)%nat in
  exists items,
    handle s (RList b prefix [] cursor (Some ms))
    = (s, mkResp 200 (BList items []
                        (if more then match rev found with l :: _ => Some l | [] => None end else None)))
    /\ map v_name items = found
    /\ Forall (fun v => v_bucket v = b /\ exists o, alookup (v_name v) bk = Some o /\ v = view b (v_name v) o) items.
Proof. exact handle_list_page. Qed.
Print Assumptions C11_handle_list_page.

(* buckets of reachable states are sorted (state_ok is an invariant, see C02) *)
Theorem C11_reachable_bucket_sorted : forall rs b bk,
  get_bucket (fst (run init_state rs)) b = Some bk -> asorted bk.
Proof. exact reachable_bucket_sorted. Qed.
Print Assumptions C11_reachable_bucket_sorted.

(* FINDING: with a delimiter, following the tokens loses entries (token = last item name only) *)
Theorem C11_paginate_with_delimiter_refuted :
  let cp := mkCP (PRaw []) (PRaw []) (PRaw []) (PRaw []) in
  let bk := [98]%N in
  let up n := RUploadMedia bk n [116]%N [1]%N cp in
  let s := fst (run init_state [up [97]%N; up [98; 47; 49]%N; up [98; 47; 50]%N; up [99]%N]) in
  list_proj (snd (handle s (RList bk [] [47]%N None (Some [50]%N)))) = ([[97]%N], [[98; 47]%N], Some [97]%N)
  /\ list_proj (snd (handle s (RList bk [] [47]%N (Some [97]%N) (Some [50]%N)))) = ([], [[98; 47]%N], None)
  /\ find_obj s bk [99]%N <> None /\ sel [] [] [99]%N = true /\ has_prefix [99]%N [98; 47]%N = false.
Proof. exact paginate_with_delimiter_refuted. Qed.
Print Assumptions C11_paginate_with_delimiter_refuted.

(* FINDING: an object named "" (accepted by the multipart upload) is never listed *)
Theorem C11_empty_name_never_listed_witness :
  let cp := mkCP (PRaw []) (PRaw []) (PRaw []) (PRaw []) in
  let bk := [98]%N in
  let r := RUploadMultipart bk (mkUpMeta [] [116]%N 0 []) [1]%N cp in
  r_status (snd (handle init_state r)) = 200%Z
  /\ r_status (snd (handle (fst (handle init_state r)) (RGetMedia bk []))) = 200%Z
  /\ list_proj (snd (handle (fst (handle init_state r)) (RList bk [] [] None None))) = ([], [], None).
Proof. exact empty_name_never_listed_witness. Qed.
Print Assumptions C11_empty_name_never_listed_witness.

(* non-vacuity *)
Example C11_nonvacuous :
  let names := [[97]; [97; 49]; [97; 50]; [97; 51]; [98; 49]; [99]]%N in
  StronglySorted lex_lt names
  /\ follow (S (length names)) names [97]%N [] 2 = [[[97]; [97; 49]]; [[97; 50]; [97; 51]]]%N
  /\ page names [97]%N [] 2 = ([[97]; [97; 49]]%N, true).
Proof. cbn zeta. split; [apply listing_example|]. split; apply listing_example. Qed.

(* C11 — GCS: listing and pagination (memory store: names strictly ascending, no directories).
   Full theorems without and with a delimiter (GCS-1 repaired: the page token is the last item OR
   collapsed prefix of the page, names below a prefix already on the page take no room, and a page
   resumed from a prefix token skips the names below it).
   Only statements here; proofs are in GCS/ListingProofs.v. *)
From Coq Require Import List NArith ZArith Bool Sorted.
Import ListNotations.
From Emu.Common Require Import Bytes Str StrProofs.
From Emu.GCS Require Import Model UploadProofs Oracles ListingProofs.

(* the early abort of the walk: in an ascending list, once an entry is beyond the prefix range
   all later ones are, and none of them has the prefix *)
Theorem C11_prefix_abort_sound : forall f rest p,
  StronglySorted lex_lt (f :: rest) -> greater_than_prefix f p = true ->
  Forall (fun g => greater_than_prefix g p = true /\ has_prefix g p = false) (f :: rest).
Proof. exact prefix_abort_sound. Qed.
Print Assumptions C11_prefix_abort_sound.

(* (i) one page without delimiter = the first maxResults names that are after the cursor and
   have the prefix; moreResults iff there are more than maxResults of them; the last entry of the
   page (the token when moreResults) is its last name *)
Theorem C11_page_spec : forall cursor prefix maxres names,
  StronglySorted lex_lt names ->
  list_walk [] cursor prefix maxres (ents names)
  = (firstn maxres (filter (sel cursor prefix) names), [],
     (maxres <? length (filter (sel cursor prefix) names))%nat,
     last_opt (firstn maxres (filter (sel cursor prefix) names))).
Proof. exact page_spec. Qed.
Print Assumptions C11_page_spec.

Theorem C11_page_spec_bucket : forall cursor prefix maxres (bk : bucket),
  asorted bk ->
  list_walk [] cursor prefix maxres (mem_entries bk)
  = (firstn maxres (filter (sel cursor prefix) (map fst bk)), [],
     (maxres <? length (filter (sel cursor prefix) (map fst bk)))%nat,
     last_opt (firstn maxres (filter (sel cursor prefix) (map fst bk)))).
Proof. exact page_spec_bucket. Qed.
Print Assumptions C11_page_spec_bucket.

(* (ii) following the page tokens with maxResults >= 1: every selected name exactly once, in
   ascending order, in pages of at most maxResults *)
Theorem C11_paginate_complete_nodup_sorted : forall prefix cursor maxres names,
  StronglySorted lex_lt names -> (1 <= maxres)%nat ->
  let pages := follow (S (length names)) names prefix cursor maxres in
  concat pages = filter (sel cursor prefix) names
  /\ Forall (fun pg => (length pg <= maxres)%nat) pages
  /\ StronglySorted lex_lt (concat pages) /\ NoDup (concat pages).
Proof. exact paginate_complete_nodup_sorted. Qed.
Print Assumptions C11_paginate_complete_nodup_sorted.

(* (iii) any delimiter, any entries (directories included): items + prefixes <= maxResults *)
Theorem C11_page_size_bound : forall delim cursor prefix maxres entries,
  let '(found, prefixes, more, last) := list_walk delim cursor prefix maxres entries in
  (length found + length prefixes <= maxres)%nat.
Proof. exact page_size_bound. Qed.
Print Assumptions C11_page_size_bound.

(* any delimiter: every item is an entry after the cursor with the prefix; every returned prefix
   is an initial segment of such an entry *)
Theorem C11_page_sound : forall delim cursor prefix maxres entries,
  let '(found, prefixes, more, last) := list_walk delim cursor prefix maxres entries in
  Forall (found_sound cursor prefix entries) found /\ Forall (prefix_sound cursor prefix entries) prefixes.
Proof. exact page_sound. Qed.
Print Assumptions C11_page_sound.

(* the handler: maxResults = m >= 1, no delimiter, sorted bucket *)
Theorem C11_handle_list_page : forall s b prefix cursor ms m bk,
  parse_int ms = Some m -> (1 <= m)%Z -> get_bucket s b = Some bk -> asorted bk ->
  let cur := match cursor with Some c => c | None => [] end in
  let F := filter (sel cur prefix) (map fst bk) in
  let found := firstn (Z.to_nat m) F in
  let more := (Z.to_nat m <? length F)%nat in
  exists items,
    handle s (RList b prefix [] cursor (Some ms))
    = (s, mkResp 200 (BList items []
                        (if more then match rev found with l :: _ => Some l | [] => None end else None)))
    /\ map v_name items = found
    /\ Forall (fun v => v_bucket v = b /\ exists o, alookup (v_name v) bk = Some o /\ v = view b (v_name v) o) items.
Proof. exact handle_list_page. Qed.
Print Assumptions C11_handle_list_page.

(* the handler for ANY delimiter: the response is the page of the walk over the bucket's names,
   and the token is the walk's last entry (item or collapsed prefix) iff there are more results *)
Theorem C11_handle_list_walk : forall s b prefix delim cursor ms m bk,
  parse_int ms = Some m -> (1 <= m)%Z -> get_bucket s b = Some bk -> asorted bk ->
  let cur := match cursor with Some c => c | None => [] end in
  let '(found, prefixes, more, last) := list_walk delim cur prefix (Z.to_nat m) (ents (map fst bk)) in
  exists items,
    handle s (RList b prefix delim cursor (Some ms))
    = (s, mkResp 200 (BList items prefixes (if more then last else None)))
    /\ map v_name items = found
    /\ Forall (fun v => v_bucket v = b /\ exists o, alookup (v_name v) bk = Some o /\ v = view b (v_name v) o) items.
Proof. exact handle_list_walk. Qed.
Print Assumptions C11_handle_list_walk.

(* buckets of reachable states are sorted (state_ok is an invariant, see C02) *)
Theorem C11_reachable_bucket_sorted : forall rs b bk,
  get_bucket (fst (run init_state rs)) b = Some bk -> asorted bk.
Proof. exact reachable_bucket_sorted. Qed.
Print Assumptions C11_reachable_bucket_sorted.

(* (iv) one page with ANY delimiter and ANY cursor: the first maxResults entries — items, and each
   collapsed prefix once — of the names the cursor lets through; moreResults iff a further entry
   exists; last = the key of the last entry on the page *)
Theorem C11_page_delim_spec : forall delim cursor prefix maxres names,
  StronglySorted lex_lt names ->
  let E := evk [] (map (tkey delim prefix) (filter (keep delim cursor prefix) names)) in
  let pg := firstn maxres E in
  list_walk delim cursor prefix maxres (ents names)
  = (ev_items pg, ev_prefixes pg, (maxres <? length E)%nat, ev_last pg None).
Proof. exact page_delim_spec. Qed.
Print Assumptions C11_page_delim_spec.

(* resuming from the key of an entry (an item name or a collapsed prefix) lets through exactly the
   names whose key is greater: nothing below a prefix token is listed again, nothing after it is lost *)
Theorem C11_keep_key : forall delim prefix c n,
  good_cursor delim prefix c -> has_prefix n prefix = true ->
  keep delim c prefix n = lex_ltb c (fst (tkey delim prefix n)).
Proof. exact keep_key. Qed.
Print Assumptions C11_keep_key.

(* names below one collapsed prefix are contiguous in an ascending list: the key is monotone *)
Theorem C11_tkey_mono : forall delim prefix n m,
  has_prefix n prefix = true -> has_prefix m prefix = true -> lex_lt n m ->
  kle (tkey delim prefix n) (tkey delim prefix m).
Proof. exact tkey_mono. Qed.
Print Assumptions C11_tkey_mono.

(* (v) MAIN THEOREM, GCS-1 repaired: ascending names, any prefix, ANY delimiter, maxResults >= 1.
   Following the page tokens from the empty cursor (fuel S (length names) suffices: the chain of
   tokens ends) yields exactly the expected listing (Oracles.expected_listing: matching names that
   do not collapse; distinct collapsed prefixes in order of first occurrence) — nothing lost,
   nothing repeated across pages — in pages of at most maxResults entries.  The empty name is the
   only name not listed (a listing without token starts strictly after ""). *)
Theorem C11_paginate_with_delimiter_complete : forall prefix delim maxres names,
  StronglySorted lex_lt names -> (1 <= maxres)%nat ->
  let pages := follow_delim (S (length names)) names prefix delim [] maxres in
  let expected := expected_listing (nonempty_names names) prefix delim in
  all_items pages = fst expected
  /\ all_prefixes pages = snd expected
  /\ Forall (fun pg => (length (pg_items pg) + length (pg_prefixes pg) <= maxres)%nat) pages
  /\ tokens_end pages
  /\ StronglySorted lex_lt (all_items pages) /\ StronglySorted lex_lt (all_prefixes pages)
  /\ NoDup (all_items pages) /\ NoDup (all_prefixes pages).
Proof. exact paginate_with_delimiter_complete. Qed.
Print Assumptions C11_paginate_with_delimiter_complete.

(* against the listing of ALL names, with the exact guard: no object named "" unless the query
   prefix is non-empty *)
Theorem C11_paginate_with_delimiter_complete_partial : forall prefix delim maxres names,
  StronglySorted lex_lt names -> (1 <= maxres)%nat ->
  (In [] names -> prefix <> []) ->
  let pages := follow_delim (S (length names)) names prefix delim [] maxres in
  let expected := expected_listing names prefix delim in
  all_items pages = fst expected
  /\ all_prefixes pages = snd expected
  /\ Forall (fun pg => (length (pg_items pg) + length (pg_prefixes pg) <= maxres)%nat) pages
  /\ tokens_end pages
  /\ StronglySorted lex_lt (all_items pages) /\ StronglySorted lex_lt (all_prefixes pages)
  /\ NoDup (all_items pages) /\ NoDup (all_prefixes pages).
Proof. exact paginate_with_delimiter_complete_partial. Qed.
Print Assumptions C11_paginate_with_delimiter_complete_partial.

(* the same at the handler: a client following nextPageToken on a sorted bucket (every bucket of a
   reachable state, C11_reachable_bucket_sorted) receives exactly the expected listing, once *)
Theorem C11_handle_pagination_complete : forall s b prefix delim ms m bk,
  parse_int ms = Some m -> (1 <= m)%Z -> get_bucket s b = Some bk -> asorted bk ->
  let pages := follow_handle (S (length bk)) s b prefix delim None ms in
  let expected := expected_listing (nonempty_names (map fst bk)) prefix delim in
  all_items pages = fst expected
  /\ all_prefixes pages = snd expected
  /\ Forall (fun pg => (length (pg_items pg) + length (pg_prefixes pg) <= Z.to_nat m)%nat) pages
  /\ tokens_end pages
  /\ NoDup (all_items pages) /\ NoDup (all_prefixes pages).
Proof. exact handle_pagination_complete. Qed.
Print Assumptions C11_handle_pagination_complete.

(* the guard is needed: bucket {"", "a"}, prefix "", delimiter "/" *)
Theorem C11_paginate_with_delimiter_full_refuted :
  let names := [[]; [97]]%N in
  StronglySorted lex_lt names
  /\ follow_delim (S (length names)) names [] [47]%N [] 5 = [mkLpage [[97]%N] [] None]
  /\ expected_listing names [] [47]%N = ([[]; [97]]%N, []).
Proof. exact paginate_with_delimiter_full_refuted. Qed.
Print Assumptions C11_paginate_with_delimiter_full_refuted.

(* what the OLD token rule did (GCS-1): names a/1, a/2, b/1, delimiter "/", pages of one — the
   first page is the prefix a/ WITHOUT token, b/ is never returned; names a, b/1, b/2, c, pages of
   two — token "a", the second page repeats b/ and loses c.  The new rule returns everything once. *)
Theorem C11_old_token_rule_refuted :
  let names := [[97; 47; 49]; [97; 47; 50]; [98; 47; 49]]%N in
  let names2 := [[97]; [98; 47; 49]; [98; 47; 50]; [99]]%N in
  old_page [47]%N [] [] 1 names = mkLpage [] [[97; 47]%N] None
  /\ expected_listing names [] [47]%N = ([], [[97; 47]; [98; 47]]%N)
  /\ follow_delim (S (length names)) names [] [47]%N [] 1
     = [mkLpage [] [[97; 47]%N] (Some [97; 47]%N); mkLpage [] [[98; 47]%N] None]
  /\ old_page [47]%N [] [] 2 names2 = mkLpage [[97]%N] [[98; 47]%N] (Some [97]%N)
  /\ old_page [47]%N [97]%N [] 2 names2 = mkLpage [] [[98; 47]%N] None
  /\ follow_delim (S (length names2)) names2 [] [47]%N [] 2
     = [mkLpage [[97]%N] [[98; 47]%N] (Some [98; 47]%N); mkLpage [[99]%N] [] None].
Proof. exact old_token_rule_refuted. Qed.
Print Assumptions C11_old_token_rule_refuted.

(* the former GCS-1 witness at the handler now lists everything once *)
Theorem C11_paginate_with_delimiter_handler_example :
  let cp := mkCP (PRaw []) (PRaw []) (PRaw []) (PRaw []) in
  let bk := [98]%N in
  let up n := RUploadMedia bk n [116]%N [1]%N cp in
  let s := fst (run init_state [up [97]%N; up [98; 47; 49]%N; up [98; 47; 50]%N; up [99]%N]) in
  list_proj (snd (handle s (RList bk [] [47]%N None (Some [50]%N)))) = ([[97]%N], [[98; 47]%N], Some [98; 47]%N)
  /\ list_proj (snd (handle s (RList bk [] [47]%N (Some [98; 47]%N) (Some [50]%N)))) = ([[99]%N], [], None)
  /\ follow_handle 5 s bk [] [47]%N None [50]%N
     = [mkLpage [[97]%N] [[98; 47]%N] (Some [98; 47]%N); mkLpage [[99]%N] [] None].
Proof. exact paginate_with_delimiter_handler_example. Qed.
Print Assumptions C11_paginate_with_delimiter_handler_example.

(* an upload without object name is refused with 400 by all three upload paths, in every state,
   and changes nothing *)
Theorem C11_empty_name_rejected : forall s,
  (forall b ct data cp, handle s (RUploadMedia b [] ct data cp) = (s, err 400))
  /\ (forall b m data cp, um_name m = [] -> handle s (RUploadMultipart b m data cp) = (s, err 400))
  /\ (forall b bad m cp, um_name m = [] -> handle s (RResumableInit b bad m cp) = (s, err 400)).
Proof. exact empty_name_rejected. Qed.
Print Assumptions C11_empty_name_rejected.

(* compose and copy refuse a destination name that parses to "" likewise *)
Theorem C11_empty_destination_rejected : forall s,
  (forall b dst bad srcs dm cp, compose_dst dst = Some [] ->
     handle s (RCompose b dst bad srcs dm cp) = (s, err 400))
  /\ (forall b1 n1 b2 n2, copy_dst n1 b2 n2 = Some [] ->
     handle s (RCopy b1 n1 b2 n2) = (s, err 400)).
Proof. exact empty_destination_rejected. Qed.
Print Assumptions C11_empty_destination_rejected.

(* the invariant "no stored object (and no resumable session's object) has the empty name" is kept
   by EVERY request *)
Theorem C11_names_ok_preserved : forall s r, names_ok s -> names_ok (fst (handle s r)).
Proof. exact names_ok_preserved. Qed.
Print Assumptions C11_names_ok_preserved.

(* no bucket of a reachable state holds the empty name *)
Theorem C11_reachable_names_nonempty : forall rs b bk,
  get_bucket (fst (run init_state rs)) b = Some bk -> ~ In [] (map fst bk).
Proof. exact reachable_names_nonempty. Qed.
Print Assumptions C11_reachable_names_nonempty.

(* (vi) the listing theorem on reachable states, at full strength: every history, every bucket,
   any prefix, ANY delimiter, maxResults >= 1 — following the tokens yields exactly the expected
   listing of ALL the bucket's names *)
Theorem C11_paginate_reachable_complete : forall rs b bk prefix delim maxres,
  get_bucket (fst (run init_state rs)) b = Some bk -> (1 <= maxres)%nat ->
  let names := map fst bk in
  let pages := follow_delim (S (length names)) names prefix delim [] maxres in
  let expected := expected_listing names prefix delim in
  all_items pages = fst expected
  /\ all_prefixes pages = snd expected
  /\ Forall (fun pg => (length (pg_items pg) + length (pg_prefixes pg) <= maxres)%nat) pages
  /\ tokens_end pages
  /\ StronglySorted lex_lt (all_items pages) /\ StronglySorted lex_lt (all_prefixes pages)
  /\ NoDup (all_items pages) /\ NoDup (all_prefixes pages).
Proof. exact paginate_reachable_complete. Qed.
Print Assumptions C11_paginate_reachable_complete.

(* the same for a client following nextPageToken through the handler *)
Theorem C11_handle_pagination_reachable : forall rs b bk prefix delim ms m,
  let s := fst (run init_state rs) in
  get_bucket s b = Some bk -> parse_int ms = Some m -> (1 <= m)%Z ->
  let pages := follow_handle (S (length bk)) s b prefix delim None ms in
  let expected := expected_listing (map fst bk) prefix delim in
  all_items pages = fst expected
  /\ all_prefixes pages = snd expected
  /\ Forall (fun pg => (length (pg_items pg) + length (pg_prefixes pg) <= Z.to_nat m)%nat) pages
  /\ tokens_end pages
  /\ NoDup (all_items pages) /\ NoDup (all_prefixes pages).
Proof. exact handle_pagination_reachable. Qed.
Print Assumptions C11_handle_pagination_reachable.

(* non-vacuity of the reachable-state theorems: uploads, a compose, a copy, and the two requests
   that used to store "" (now 400); the bucket and its listing through the handler *)
Example C11_reachable_nonvacuous :
  let cp := mkCP (PRaw []) (PRaw []) (PRaw []) (PRaw []) in
  let bk := [98]%N in
  let rs := [RUploadMedia bk [97; 47; 49]%N [116]%N [1]%N cp;
             RUploadMultipart bk (mkUpMeta [99]%N [116]%N 0 []) [2]%N cp;
             RCompose bk [97; 47; 50]%N false [([99]%N, PRaw [])] None cp;
             RCopy bk [99]%N bk [100]%N;
             RCompose bk [] false [] None cp;
             RCopy bk [99]%N bk []] in
  map r_status (snd (run init_state rs)) = [200; 200; 200; 200; 400; 400]%Z
  /\ option_map (map fst) (get_bucket (fst (run init_state rs)) bk) = Some [[97; 47; 49]; [97; 47; 50]; [99]; [100]]%N
  /\ follow_handle 5 (fst (run init_state rs)) bk [] [47]%N None [49]%N
     = [mkLpage [] [[97; 47]%N] (Some [97; 47]%N); mkLpage [[99]%N] [] (Some [99]%N); mkLpage [[100]%N] [] None].
Proof. exact paginate_reachable_example. Qed.

(* non-vacuity *)
Example C11_nonvacuous :
  let names := [[97]; [97; 49]; [97; 50]; [97; 51]; [98; 49]; [99]]%N in
  StronglySorted lex_lt names
  /\ follow (S (length names)) names [97]%N [] 2 = [[[97]; [97; 49]]; [[97; 50]; [97; 51]]]%N
  /\ page names [97]%N [] 2 = ([[97]; [97; 49]]%N, true).
Proof. cbn zeta. split; [apply listing_example|]. split; apply listing_example. Qed.

(* non-vacuity of the delimiter theorems: ascending names with an object that is its own collapsed
   prefix ("d/") and an empty segment ("e//y"); pages of two under prefix "", pages of one under
   prefix "e/" *)
Example C11_delimiter_nonvacuous :
  let names := [[97]; [98; 47; 49]; [98; 47; 50]; [99]; [100; 47]; [100; 47; 120];
                [101; 47; 47; 121]; [101; 47; 122]]%N in
  StronglySorted lex_lt names
  /\ follow_delim (S (length names)) names [] [47]%N [] 2
     = [mkLpage [[97]%N] [[98; 47]%N] (Some [98; 47]%N);
        mkLpage [[99]%N] [[100; 47]%N] (Some [100; 47]%N);
        mkLpage [] [[101; 47]%N] None]
  /\ expected_listing names [] [47]%N = ([[97]; [99]]%N, [[98; 47]; [100; 47]; [101; 47]]%N)
  /\ follow_delim (S (length names)) names [101; 47]%N [47]%N [] 1
     = [mkLpage [] [[101; 47; 47]%N] (Some [101; 47; 47]%N); mkLpage [[101; 47; 122]%N] [] None].
Proof. exact paginate_with_delimiter_example. Qed.

(* GCS-18 repaired: every name a listing can have to put into a page token is valid UTF-8 (the token
   is a proto3 string field, whose encoder refuses anything else): no object of any state reachable
   through the name check in front of the handlers (Wire.v) has another name — every program, no guard *)
From Emu.Common Require Import Utf8.
From Emu.GCS Require Import Wire WireProofs.
Theorem C11_reachable_names_utf8 : forall rs b bk n o,
  get_bucket (fst (run_wire init_state rs)) b = Some bk -> In (n, o) bk -> utf8_valid n = true.
Proof. exact wire_reachable_names_utf8. Qed.
Print Assumptions C11_reachable_names_utf8.

(* run_wire is a run of the handlers, so the listing theorems above (stated for every state reachable
   by [run]) cover it *)
Theorem C11_run_wire_is_run : forall s rs, run_wire s rs = run s (map sanitize rs).
Proof. exact run_wire_is_run. Qed.
Print Assumptions C11_run_wire_is_run.

(* the behaviour before the repair, on the handlers alone: an upload stores a name that is not valid UTF-8 *)
Theorem C11_unchecked_upload_stores_invalid_name :
  exists bk o, get_bucket (fst (run init_state [RUploadMedia [98]%N bad_name_witness [] [120]%N no_cparams])) [98]%N = Some bk
               /\ In (bad_name_witness, o) bk /\ utf8_valid bad_name_witness = false.
Proof. exact unchecked_upload_stores_invalid_name. Qed.
Print Assumptions C11_unchecked_upload_stores_invalid_name.

(* C17 — Bigtable: the storage engine is unobservable.
   The model has ONE representation of the row store for all engines: [t_rows], an association
   list in strictly ascending key order ([asorted]); agreement of the three real engines with it
   is checked dynamically.  Here: the ordered-map laws of that representation which the
   handlers rely on.  Only statements; proofs are in BT/ScanProofs.v (section OrderedMap),
   BT/AdminProofs.v and Common/StrProofs.v. *)
From Coq Require Import List NArith ZArith Bool Sorting.
Import ListNotations.
From Emu.Common Require Import Bytes Str StrProofs.
From Emu.BT Require Import Types Mutate Filter RowSet Server ScanProofs AdminProofs.
Local Open Scope Z_scope.

Definition rowstore := list (bytes * list family).

(* ---- get after put / delete ---- *)
Theorem C17_get_put_same : forall k v (rows : rowstore), alookup k (ainsert k v rows) = Some v.
Proof. exact omap_get_put_same. Qed.
Print Assumptions C17_get_put_same.

Theorem C17_get_put_other : forall k k' v (rows : rowstore), k' <> k -> alookup k' (ainsert k v rows) = alookup k' rows.
Proof. exact omap_get_put_other. Qed.
Print Assumptions C17_get_put_other.

Theorem C17_get_delete_same : forall k (rows : rowstore), asorted rows -> alookup k (aremove k rows) = None.
Proof. exact omap_get_delete_same. Qed.
Print Assumptions C17_get_delete_same.

Theorem C17_get_delete_other : forall k k' (rows : rowstore), k' <> k -> alookup k' (aremove k rows) = alookup k' rows.
Proof. exact omap_get_delete_other. Qed.
Print Assumptions C17_get_delete_other.

(* ---- the handlers' write path keeps the order, and reads see the write ---- *)
Theorem C17_update_row_sorted : forall t k fs, asorted (t_rows t) -> asorted (t_rows (update_row t k fs)).
Proof. exact update_row_sorted. Qed.
Print Assumptions C17_update_row_sorted.

Theorem C17_get_row_update : forall t k fs k', asorted (t_rows t) ->
  get_row (update_row t k fs) k' = if beqb k' k then scrub_fams (t_fams t) fs else get_row t k'.
Proof. exact get_row_update. Qed.
Print Assumptions C17_get_row_update.

(* every reachable server keeps all its stores (and the table map itself) in order *)
Theorem C17_reachable_sorted : forall cs n t, alookup n (fst (run [] cs)) = Some t -> asorted (t_rows t).
Proof. exact reachable_rows_sorted. Qed.
Print Assumptions C17_reachable_sorted.

(* ---- iteration ---- *)
(* full iteration = strictly ascending keys, no duplicates *)
Theorem C17_iter_order : forall rows : rowstore,
  asorted rows -> StronglySorted lex_lt (map fst rows) /\ NoDup (map fst rows).
Proof. exact omap_iter_order. Qed.
Print Assumptions C17_iter_order.

(* the iteration order is a function of the contents alone: two ordered stores with the same
   lookups are the same list (no trace of insertion order, deletions, engine) *)
Theorem C17_store_ext : forall rows1 rows2 : rowstore, asorted rows1 -> asorted rows2 ->
  (forall k, alookup k rows1 = alookup k rows2) -> rows1 = rows2.
Proof. exact omap_ext. Qed.
Print Assumptions C17_store_ext.

(* range iteration (AscendRange / AscendGreaterOrEqual / AscendLessThan / Ascend, as scan_all
   uses it): an ascending sub-list with exactly the entries of the range *)
Theorem C17_range_iter : forall sr (rows : rowstore), asorted rows ->
  let it := filter (fun p => in_srange_b sr (fst p)) rows in
  asorted it /\ subseq it rows /\ forall kv, In kv it <-> In kv rows /\ in_srange sr (fst kv).
Proof. exact omap_range_iter. Qed.
Print Assumptions C17_range_iter.

(* prefix walk (DropRowRange): keys with prefix p form one contiguous block starting at the
   first key >= p *)
Theorem C17_prefix_block : forall p k1 k2,
  (has_prefix k2 p = true -> lex_le p k2)
  /\ (lex_le p k1 -> lex_lt k1 k2 -> has_prefix k2 p = true -> has_prefix k1 p = true).
Proof. exact prefix_block. Qed.
Print Assumptions C17_prefix_block.

(* ---- early stop is respected: the iterator callback's "stop" ends the scan ---- *)
(* a scan with limit n > 0 returns the first n rows of the unlimited scan (any filter, coins) *)
Theorem C17_early_stop : forall t f limit limit0 srs coins, 0 < limit -> limit0 <= 0 ->
  scan_all t f limit srs 0 coins [] = firstn (Z.to_nat limit) (scan_all t f limit0 srs 0 coins []).
Proof. exact limit_first_n. Qed.
Print Assumptions C17_early_stop.

(* the whole read = one pass over the iteration of the ranges, cut at the limit *)
Theorem C17_scan_is_one_pass : forall t f limit srs coins,
  scan_all t f limit srs 0 coins [] = limit_cut limit (fst (visit_all t f (ranges_rows t srs) coins)).
Proof. exact scan_all_spec. Qed.
Print Assumptions C17_scan_is_one_pass.

(* ---- non-vacuity ---- *)
Definition C17_fs (v : N) : list family := [mkFam [102%N] [mkCol [113%N] [mkCell 0 [v] []]]].
Definition C17_tf : list (bytes * option gcrule) := [([102%N], None)].
(* the same contents reached by two different histories *)
Definition C17_t1 : table :=
  update_row (update_row (update_row (mkTable C17_tf []) [98%N] (C17_fs 1)) [97%N] (C17_fs 2)) [97; 0]%N (C17_fs 3).
Definition C17_t2 : table :=
  update_row (update_row (update_row (update_row (update_row (mkTable C17_tf [])
    [97; 0]%N (C17_fs 3)) [99%N] (C17_fs 9)) [97%N] (C17_fs 2)) [99%N] []) [98%N] (C17_fs 1).

Example C17_histories_agree :
  t_rows C17_t1 = t_rows C17_t2 /\ map fst (t_rows C17_t1) = [[97]; [97; 0]; [98]]%N
  /\ asorted (t_rows C17_t1).
Proof.
  split; [vm_compute; reflexivity|]. split; [vm_compute; reflexivity|].
  repeat apply update_row_sorted. constructor.
Qed.

Example C17_range_and_stop :
  map fst (filter (fun p => in_srange_b {| rs := [97; 0]%N; re := [] |} (fst p)) (t_rows C17_t1)) = [[97; 0]; [98]]%N
  /\ map row_key (scan_all C17_t1 None 2 [ {| rs := []; re := [] |} ] 0 [] []) = [[97]; [97; 0]]%N
  /\ map row_key (scan_all C17_t1 (Some (FSample true)) 1 [ {| rs := []; re := [] |} ] 0 [false; true; true] [])
     = [[97; 0]]%N.
Proof. vm_compute. repeat split. Qed.

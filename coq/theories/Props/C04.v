(* C04 — GCS: preconditions gate mutations exactly; a failed one changes nothing.
   Only statements here; proofs are in GCS/CondsProofs.v and GCS/HandlerProofs.v. *)
From Coq Require Import List NArith ZArith Bool.
Import ListNotations.
From Emu.Common Require Import Bytes Str.
From Emu.GCS Require Import Model CondsSpec CondsProofs HandlerProofs.
Local Open Scope Z_scope.

(* unparsable parameter <=> the request is rejected before anything else (400) *)
Theorem C04_unparsable_400 : forall p1 p2 p3 p4,
  parse_conds p1 p2 p3 p4 = None <-> any_bad p1 p2 p3 p4 = true.
Proof. exact parse_conds_none. Qed.
Print Assumptions C04_unparsable_400.

(* the code's truth table = "every supplied precondition holds", for every object state;
   partial: a literal 0 for a parameter other than ifGenerationMatch is excluded (GCS-7) *)
Theorem C04_conds_iff_partial : forall p1 p2 p3 p4 o c,
  no_zero_but_genmatch p2 p3 p4 = true ->
  parse_conds p1 p2 p3 p4 = Some c ->
  (validate_conds o c = VPass <-> holds p1 p2 p3 p4 o = true).
Proof. exact validate_iff_holds. Qed.
Print Assumptions C04_conds_iff_partial.

(* the full statement (without the guard) is false of the code: witness *)
Theorem C04_conds_zero_refuted :
  exists p1 p2 p3 p4 o c, parse_conds p1 p2 p3 p4 = Some c
    /\ holds p1 p2 p3 p4 o = false /\ validate_conds o c = VPass.
Proof. exact conds_zero_refuted. Qed.
Print Assumptions C04_conds_zero_refuted.

(* 412, or 304 only when a not-match condition fails; 412 only when a match condition fails
   or the object is absent *)
Theorem C04_failure_code_allowed : forall p1 p2 p3 p4 o c,
  no_zero_but_genmatch p2 p3 p4 = true ->
  parse_conds p1 p2 p3 p4 = Some c ->
  allowed_code p1 p2 p3 p4 o (validate_conds o c).
Proof. exact validate_code_allowed. Qed.
Print Assumptions C04_failure_code_allowed.

(* every request answered with an error leaves all buckets and objects untouched *)
Theorem C04_failed_request_frame : forall s r,
  let '(s', rsp) := handle s r in
  is_success (r_status rsp) = false -> s_buckets s' = s_buckets s /\ s_clock s' = s_clock s.
Proof. exact failed_request_frame. Qed.
Print Assumptions C04_failed_request_frame.

(* the mutating handlers act iff the gate passes, and answer the gate's code otherwise *)
Theorem C04_gate_upload_media : forall s b n ct data cp, n <> [] ->
  let '(s', rsp) := handle s (RUploadMedia b n ct data cp) in
  match gate s cp (find_obj s b n) with
  | Some VPass => r_status rsp = 200
                  /\ find_obj s' b n = Some (mkObj data ct (s_clock s + 1) 1 true [])
  | g => r_status rsp = status_of_gate g /\ s' = s
  end.
Proof. exact gate_upload_media. Qed.
Print Assumptions C04_gate_upload_media.

Theorem C04_gate_delete : forall s b n cp,
  let '(s', rsp) := handle s (RDelete b n cp) in
  match gate s cp (find_obj s b n) with
  | Some VPass => match find_obj s b n with
                  | Some _ => r_status rsp = 204
                  | None => r_status rsp = 404 /\ s' = s
                  end
  | g => r_status rsp = status_of_gate g /\ s' = s
  end.
Proof. exact gate_delete. Qed.
Print Assumptions C04_gate_delete.

Theorem C04_gate_patch : forall s b n p cp o, find_obj s b n = Some o -> pt_bad p = false ->
  let '(s', rsp) := handle s (RPatch b n p cp) in
  match gate s cp (Some o) with
  | Some VPass =>
      r_status rsp = 200 /\
      r_body rsp = BMeta (view b n (mkObj (o_data o)
                                 (match pt_ctype p with Some t => t | None => o_ctype o end)
                                 (o_gen o) (o_metagen o + 1) (o_md5 o)
                                 (match pt_meta p with Some kv => merge_meta (o_meta o) kv | None => o_meta o end)))
  | g => r_status rsp = status_of_gate g /\ s' = s
  end.
Proof. exact gate_patch. Qed.
Print Assumptions C04_gate_patch.

(* non-vacuity: a concrete state and parameter vectors meeting the hypotheses, on both sides *)
Example C04_nonvacuous :
  let o := Some (7, 2) in
  no_zero_but_genmatch (VNum 8) (VNum 2) (VNum 3) = true
  /\ (exists c, parse_conds (VNum 7) (VNum 8) (VNum 2) (VNum 3) = Some c /\ validate_conds o c = VPass)
  /\ (exists c, parse_conds (VNum 7) (VNum 7) VAbsent VAbsent = Some c /\ validate_conds o c = VFail304)
  /\ (exists c, parse_conds (VNum 0) VAbsent VAbsent VAbsent = Some c /\ validate_conds None c = VPass
                /\ validate_conds o c = VFail412).
Proof. cbn. repeat split; eexists; repeat split; reflexivity. Qed.

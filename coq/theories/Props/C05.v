(* C05 — placeholder; the theorems are added as BT/*Proofs.v land *)
From Coq Require Import List NArith ZArith Bool.
From Emu.BT Require Import Types Mutate Server.
Example C05_model_runs : snd (step nil (mkCall (BGetTable nil) 0%Z nil)) = fail cNotFound.
Proof. reflexivity. Qed.

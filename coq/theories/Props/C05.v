(* C05 — Bigtable row filters: the emulator's evaluation (BT/Filter.v) refines the denotational
   filter semantics (BT/FilterSpec.v, Layer B); invalid filters are rejected up front; regexes match
   the whole field bytewise.  Only statements here; proofs are in BT/RegexProofs.v and
   BT/FilterProofs.v. *)
From Coq Require Import List NArith ZArith Bool.
Import ListNotations.
From Emu.Common Require Import Bytes Str StrProofs.
From Emu.BT Require Import Types Regex Mutate Filter Server.
From Emu.BT Require Import RegexProofs FilterSpec CellSpec FilterProofs.
Local Open Scope Z_scope.

(* ---- regular expressions ---- *)
(* the matcher decides membership in the language of the pattern: whole field, byte by byte *)
Theorem C05_regex_matcher_correct : forall r s, re_match r s = true <-> lang r s.
Proof. exact regex_matcher_correct. Qed.
Print Assumptions C05_regex_matcher_correct.

Theorem C05_regex_leaf_spec : forall r f q c,
  (include_cell (FFamilyRegex (RxOk r)) f q c = true <-> lang r f)
  /\ (include_cell (FQualRegex (RxOk r)) f q c = true <-> lang r q)
  /\ (include_cell (FValueRegex (RxOk r)) f q c = true <-> lang r (c_val c)).
Proof. exact regex_leaf_spec. Qed.
Print Assumptions C05_regex_leaf_spec.

(* ---- validation ---- *)
Theorem C05_fvalid_spec : forall f, fvalid f = true <-> valid_filter f.
Proof. exact fvalid_spec. Qed.
Print Assumptions C05_fvalid_spec.

Theorem C05_invalid_rejected : forall s tbl t f now coins,
  alookup tbl s = Some t -> fvalid f = false ->
  (forall keys ranges limit,
      step s (mkCall (BReadRows tbl keys ranges (Some f) limit) now coins) = (s, fail cInvalidArgument))
  /\ (forall key tm fm,
      step s (mkCall (BCheckAndMutate tbl key (Some f) tm fm) now coins) = (s, fail cInvalidArgument)).
Proof. exact invalid_rejected. Qed.
Print Assumptions C05_invalid_rejected.

(* ---- range leaves: boundaries ---- *)
Theorem C05_column_range_spec : forall fam s e f q c,
  include_cell (FColRange fam s e) f q c = true <-> f = fam /\ lower_in s q /\ upper_in e q.
Proof. exact column_range_spec. Qed.
Print Assumptions C05_column_range_spec.

Theorem C05_value_range_spec : forall s e f q c,
  include_cell (FValueRange s e) f q c = true <-> lower_in s (c_val c) /\ upper_in e (c_val c).
Proof. exact value_range_spec. Qed.
Print Assumptions C05_value_range_spec.

(* start inclusive, end exclusive, end 0 = unbounded *)
Theorem C05_ts_range_spec : forall s e f q c,
  include_cell (FTsRange s e) f q c = true <-> s <= c_ts c /\ (e = 0 \/ c_ts c < e).
Proof. exact ts_range_spec. Qed.
Print Assumptions C05_ts_range_spec.

Theorem C05_sample_all_or_nothing : forall key fs c coins,
  feval key (FSample true) fs (c :: coins) = (c, fs, coins).
Proof. exact sample_all_or_nothing. Qed.
Print Assumptions C05_sample_all_or_nothing.

(* ---- the refinement ----
   FULL statement (every valid filter):
     forall f key fs coins, fvalid f = true -> fams_ok fs ->
       let '(m, fs', coins') := feval key f fs coins in
       let '(out, scoins) := fsem key f (flatten fs) coins in
       coins' = scoins /\ (m = true -> flatten fs' = out) /\ (m = false -> out = []).
   It is false (C05_coins_refuted, C05_cells_refuted).  Proved: the same under the guard
   [coin_safe f = true] (in every chain, a stage that can report "match" with zero cells — pass, sample,
   the three limit/offset filters, chains ending in / conditions branching to one — is not followed by
   a sample filter).  Every filter WITHOUT a sample filter satisfies the guard; interleave is covered
   at every depth. *)
Theorem C05_filter_refines_fsem_partial : forall f key fs coins,
  fvalid f = true -> coin_safe f = true -> fams_ok fs ->
  let '(m, fs', coins') := feval key f fs coins in
  let '(out, scoins) := fsem key f (flatten fs) coins in
  coins' = scoins /\ (m = true -> flatten fs' = out) /\ (m = false -> out = []).
Proof. exact filter_refines_fsem_partial. Qed.
Print Assumptions C05_filter_refines_fsem_partial.

Theorem C05_filter_refines_fsem_nosample : forall f key fs coins,
  fvalid f = true -> uses_coins f = false -> fams_ok fs ->
  let '(m, fs', coins') := feval key f fs coins in
  let '(out, scoins) := fsem key f (flatten fs) coins in
  coins' = coins /\ scoins = coins /\ (m = true -> flatten fs' = out) /\ (m = false -> out = []).
Proof. exact filter_refines_fsem_nosample. Qed.
Print Assumptions C05_filter_refines_fsem_nosample.

Theorem C05_no_coins_safe : forall f, uses_coins f = false -> coin_safe f = true.
Proof. exact no_coins_safe. Qed.
Print Assumptions C05_no_coins_safe.

(* ReadRows outputs the row (match flag set and something left after scrubbing) iff the
   specification yields at least one cell *)
Theorem C05_row_output_iff_partial : forall tf f key fs coins,
  fvalid f = true -> coin_safe f = true -> fams_ok fs -> all_known tf fs ->
  let '(m, fs', _) := feval key f fs coins in
  (m = true /\ scrub_fams tf fs' <> []) <-> fst (fsem key f (flatten fs) coins) <> [].
Proof. exact row_output_iff_partial. Qed.
Print Assumptions C05_row_output_iff_partial.

(* the specification never invents a column *)
Theorem C05_fsem_keys : forall f key l coins x,
  In x (fst (fsem key f l coins)) -> In (key_of x) (map key_of l).
Proof. exact fsem_keys. Qed.
Print Assumptions C05_fsem_keys.

(* witnesses against the unguarded statement *)
Theorem C05_coins_refuted :
  exists f key fs coins, fvalid f = true /\ fams_ok fs
    /\ snd (feval key f fs coins) <> snd (fsem key f (flatten fs) coins).
Proof. exact filter_refines_fsem_coins_refuted. Qed.
Print Assumptions C05_coins_refuted.

Theorem C05_cells_refuted :
  exists f key fs coins, fvalid f = true /\ fams_ok fs
    /\ fst (fst (feval key f fs coins)) = true
    /\ flatten (snd (fst (feval key f fs coins))) <> fst (fsem key f (flatten fs) coins).
Proof. exact filter_refines_fsem_cells_refuted. Qed.
Print Assumptions C05_cells_refuted.

(* ---- non-vacuity ---- *)
Example C05_nonvacuous_refinement :
  fvalid nv_filter = true /\ coin_safe nv_filter = true /\ uses_coins nv_filter = true /\ fams_ok nv_row
  /\ fst (fst (feval [] nv_filter nv_row [true; false])) = true
  /\ length (fst (fsem [] nv_filter (flatten nv_row) [true; false])) = 4%nat
  /\ flatten (snd (fst (feval [] nv_filter nv_row [true; false])))
     = fst (fsem [] nv_filter (flatten nv_row) [true; false]).
Proof.
  destruct filter_refines_nonvacuous as (H1 & H2 & H3 & H4 & _).
  split; [exact H1|]. split; [exact H2|]. split; [exact H3|]. split; [exact H4|].
  split; [vm_compute; reflexivity|]. split; vm_compute; reflexivity.
Qed.

Example C05_nonvacuous_validation :
  fvalid (FTsRange 1000 2500) = false /\ fvalid (FChain [FPass true]) = false
  /\ fvalid (FLabel (H 0x015f5f)) = false /\ fvalid (FValueRegex RxBad) = false
  /\ valid_filter (FCondition (FTsRange 1000 0) (Some (FLabel (H 0x01612d31))) None)
  /\ step [(H 0x0174, mkTable [] [])] (mkCall (BReadRows (H 0x0174) [] [] (Some (FSample false)) 0) 0 [])
     = ([(H 0x0174, mkTable [] [])], fail cInvalidArgument).
Proof.
  split; [reflexivity|]. split; [reflexivity|]. split; [reflexivity|]. split; [reflexivity|].
  split; [apply fvalid_spec; reflexivity|reflexivity].
Qed.

Example C05_nonvacuous_ranges :
  let c := mkCell 2000 (H 0x0162) [] in
  include_cell (FTsRange 1000 2000) [] [] c = false          (* end exclusive *)
  /\ include_cell (FTsRange 2000 0) [] [] c = true           (* start inclusive, 0 = unbounded *)
  /\ include_cell (FValueRange (BOpen (H 0x0162)) BUnset) [] [] c = false
  /\ include_cell (FValueRange (BClosed (H 0x0162)) (BClosed (H 0x0162))) [] [] c = true
  /\ include_cell (FColRange (H 0x0166) (BClosed (H 0x0161)) (BOpen (H 0x0163))) (H 0x0166) (H 0x0163) c = false
  /\ include_cell (FColRange (H 0x0166) (BClosed (H 0x0161)) (BOpen (H 0x0163))) (H 0x0166) (H 0x016200) c = true.
Proof. vm_compute. repeat split; reflexivity. Qed.

(* C14 — Bigtable: admin requests change exactly what they name.
   Only statements here; proofs are in BT/AdminProofs.v. *)
From Coq Require Import List NArith ZArith Bool Sorting.
Import ListNotations.
From Emu.Common Require Import Bytes Str StrProofs.
From Emu.BT Require Import Types Mutate Filter RowSet Server ScanProofs AdminProofs.
Local Open Scope Z_scope.

(* ---- tables: create / get / list / delete ---- *)

(* CreateTable in one equation: the names are validated first (InvalidArgument), then the existence
   check (AlreadyExists), then the empty table is registered *)
Theorem C14_create_spec : forall s parent tid fams now coins,
  step s (mkCall (BCreateTable parent tid fams) now coins) =
  if negb (valid_tid tid) || negb (valid_parent parent) then (s, fail cInvalidArgument)
  else match alookup (table_name parent tid) s with
       | Some _ => (s, fail cAlreadyExists)
       | None => (set_table s (table_name parent tid) (mkTable (make_fams fams) []),
                  ok (YTable (table_name parent tid) (make_fams fams)))
       end.
Proof. exact create_spec. Qed.
Print Assumptions C14_create_spec.

(* an invalid table id (not a letter, digit or _ followed by letters, digits, _ - .) or parent (not
   projects/<project>/instances/<instance>): InvalidArgument, nothing changes *)
Theorem C14_create_rejects_invalid_names : forall s parent tid fams now coins,
  valid_tid tid = false \/ valid_parent parent = false ->
  step s (mkCall (BCreateTable parent tid fams) now coins) = (s, fail cInvalidArgument).
Proof. exact create_rejects_invalid_names. Qed.
Print Assumptions C14_create_rejects_invalid_names.

(* creating an existing table: nothing changes; AlreadyExists for valid names (InvalidArgument
   otherwise: the validation comes first) *)
Theorem C14_create_existing : forall s parent tid fams now coins t,
  alookup (table_name parent tid) s = Some t ->
  step s (mkCall (BCreateTable parent tid fams) now coins) =
  (s, fail (if valid_tid tid && valid_parent parent then cAlreadyExists else cInvalidArgument)).
Proof. exact create_existing. Qed.
Print Assumptions C14_create_existing.

(* a CreateTable answers OK exactly when both names are valid and the table does not exist ... *)
Theorem C14_create_ok_iff : forall s parent tid fams now coins,
  br_code (snd (step s (mkCall (BCreateTable parent tid fams) now coins))) = cOK <->
  valid_tid tid = true /\ valid_parent parent = true /\ alookup (table_name parent tid) s = None.
Proof. exact create_ok_iff. Qed.
Print Assumptions C14_create_ok_iff.

(* ... and then it is the registration of the empty table *)
Theorem C14_create_ok_inv : forall s parent tid fams now coins,
  br_code (snd (step s (mkCall (BCreateTable parent tid fams) now coins))) = cOK ->
  valid_tid tid = true /\ valid_parent parent = true /\ alookup (table_name parent tid) s = None
  /\ step s (mkCall (BCreateTable parent tid fams) now coins) =
     (set_table s (table_name parent tid) (mkTable (make_fams fams) []),
      ok (YTable (table_name parent tid) (make_fams fams))).
Proof. exact create_ok_inv. Qed.
Print Assumptions C14_create_ok_inv.

(* after a successful create the table exists with the given families, no rows, and GetTable
   returns the families *)
Theorem C14_create_then_get : forall s parent tid fams now coins now' coins',
  br_code (snd (step s (mkCall (BCreateTable parent tid fams) now coins))) = cOK ->
  let s' := fst (step s (mkCall (BCreateTable parent tid fams) now coins)) in
  alookup (table_name parent tid) s' = Some (mkTable (make_fams fams) [])
  /\ step s' (mkCall (BGetTable (table_name parent tid)) now' coins')
     = (s', ok (YTable (table_name parent tid) (make_fams fams))).
Proof. exact create_then_get. Qed.
Print Assumptions C14_create_then_get.

Theorem C14_create_then_listed : forall s parent tid fams now coins now' coins',
  br_code (snd (step s (mkCall (BCreateTable parent tid fams) now coins))) = cOK ->
  let s' := fst (step s (mkCall (BCreateTable parent tid fams) now coins)) in
  exists l, step s' (mkCall (BListTables parent) now' coins') = (s', ok (YTables l))
            /\ In (table_name parent tid) l.
Proof. exact create_then_listed. Qed.
Print Assumptions C14_create_then_listed.

(* ListTables: exactly the stored names under the parent; nothing changes *)
Theorem C14_list_tables_spec : forall s parent now coins,
  exists l, step s (mkCall (BListTables parent) now coins) = (s, ok (YTables l))
            /\ forall n, In n l <-> In n (map fst s) /\ has_prefix n (parent ++ s_tables_sep) = true.
Proof. exact list_tables_spec. Qed.
Print Assumptions C14_list_tables_spec.

(* EVERY request naming a missing table: NotFound, nothing changes *)
Theorem C14_missing_table_not_found : forall s r now coins n,
  req_table r = Some n -> alookup n s = None -> step s (mkCall r now coins) = (s, fail cNotFound).
Proof. exact missing_table_not_found. Qed.
Print Assumptions C14_missing_table_not_found.

(* after a successful delete every request naming the table answers NotFound *)
Theorem C14_delete_then_not_found : forall s name now coins t, asorted s -> alookup name s = Some t ->
  let s' := fst (step s (mkCall (BDeleteTable name) now coins)) in
  snd (step s (mkCall (BDeleteTable name) now coins)) = ok YNone
  /\ alookup name s' = None
  /\ forall r now' coins', req_table r = Some name -> step s' (mkCall r now' coins') = (s', fail cNotFound).
Proof. exact delete_then_not_found. Qed.
Print Assumptions C14_delete_then_not_found.

Theorem C14_delete_then_requests : forall s name now coins t, asorted s -> alookup name s = Some t ->
  let s' := fst (step s (mkCall (BDeleteTable name) now coins)) in
  (forall n c, step s' (mkCall (BGetTable name) n c) = (s', fail cNotFound))
  /\ (forall key muts n c, step s' (mkCall (BMutateRow name key muts) n c) = (s', fail cNotFound))
  /\ (forall keys ranges f limit n c, step s' (mkCall (BReadRows name keys ranges f limit) n c) = (s', fail cNotFound)).
Proof. exact delete_then_requests. Qed.
Print Assumptions C14_delete_then_requests.

(* a re-created table has no rows (the create succeeds: valid names, and the delete made room) *)
Theorem C14_delete_then_create_empty : forall s parent tid fams now coins now' coins' t, asorted s ->
  valid_tid tid = true -> valid_parent parent = true ->
  alookup (table_name parent tid) s = Some t ->
  let s1 := fst (step s (mkCall (BDeleteTable (table_name parent tid)) now coins)) in
  let s2 := fst (step s1 (mkCall (BCreateTable parent tid fams) now' coins')) in
  br_code (snd (step s1 (mkCall (BCreateTable parent tid fams) now' coins'))) = cOK
  /\ alookup (table_name parent tid) s2 = Some (mkTable (make_fams fams) []).
Proof. exact delete_then_create_empty. Qed.
Print Assumptions C14_delete_then_create_empty.

(* frame: whatever the request, a table other than the one it names is untouched (in particular
   tables under another parent) *)
Theorem C14_step_frame : forall s c other, affected (cl_req c) <> Some other ->
  alookup other (fst (step s c)) = alookup other s.
Proof. exact step_frame. Qed.
Print Assumptions C14_step_frame.

(* ---- ModifyColumnFamilies ---- *)

(* atomic: validation fails => that code and no change; succeeds => families = apply_mods *)
Theorem C14_modify_families_atomic : forall s name mods now coins t, alookup name s = Some t ->
  step s (mkCall (BModifyFamilies name mods) now coins) =
  if N.eqb (validate_mods (map fst (t_fams t)) mods) cOK
  then (set_table s name (apply_mods t mods), ok (YTable name (t_fams (apply_mods t mods))))
  else (s, fail (validate_mods (map fst (t_fams t)) mods)).
Proof. exact modify_families_atomic. Qed.
Print Assumptions C14_modify_families_atomic.

Theorem C14_apply_mods_fams : forall mods t, t_fams (apply_mods t mods) = fold_left mod_fams mods (t_fams t).
Proof. exact apply_mods_fams. Qed.
Print Assumptions C14_apply_mods_fams.

(* validation = sequential simulation: the status of the first modification that fails against
   the families left by its predecessors in the same request *)
Theorem C14_validate_mods_sequential : forall t mods, asorted (t_fams t) ->
  validate_mods (map fst (t_fams t)) mods = first_error t mods.
Proof. exact validate_mods_sequential. Qed.
Print Assumptions C14_validate_mods_sequential.

Theorem C14_validate_create_existing : forall ex id rule rest,
  existsb (beqb id) ex = true -> validate_mods ex (MCreate id rule :: rest) = cAlreadyExists.
Proof. exact validate_create_existing. Qed.
Print Assumptions C14_validate_create_existing.
Theorem C14_validate_drop_unknown : forall ex id rest,
  existsb (beqb id) ex = false -> validate_mods ex (MDrop id :: rest) = cUnknown.
Proof. exact validate_drop_unknown. Qed.
Print Assumptions C14_validate_drop_unknown.
Theorem C14_validate_update_unknown : forall ex id rule rest,
  existsb (beqb id) ex = false -> validate_mods ex (MUpdate id rule :: rest) = cUnknown.
Proof. exact validate_update_unknown. Qed.
Print Assumptions C14_validate_update_unknown.
Theorem C14_validate_create_twice : forall ex id r1 r2 rest,
  validate_mods ex (MCreate id r1 :: MCreate id r2 :: rest) = cAlreadyExists.
Proof. exact validate_create_twice. Qed.
Print Assumptions C14_validate_create_twice.
Theorem C14_validate_drop_then_use : forall ex id rule rest,
  validate_mods ex (MDrop id :: MUpdate id rule :: rest) = cUnknown
  /\ validate_mods ex (MDrop id :: MDrop id :: rest) = cUnknown.
Proof. exact validate_drop_then_use. Qed.
Print Assumptions C14_validate_drop_then_use.
Theorem C14_validate_create_then_use : forall ex id r1 rule rest,
  existsb (beqb id) ex = false ->
  validate_mods ex (MCreate id r1 :: MUpdate id rule :: rest) = validate_mods (id :: ex) rest.
Proof. exact validate_create_then_use. Qed.
Print Assumptions C14_validate_create_then_use.

(* ---- dropping a family ---- *)

Theorem C14_drop_family_step : forall s name f now coins t,
  alookup name s = Some t -> known_family (t_fams t) f = true ->
  step s (mkCall (BModifyFamilies name [MDrop f]) now coins) =
  (set_table s name (drop_family t f), ok (YTable name (aremove f (t_fams t)))).
Proof. exact drop_family_step. Qed.
Print Assumptions C14_drop_family_step.

(* exactly family f is lost: from the schema, and from every row (rows in stored form); rows
   left without families disappear; absent keys stay absent *)
Theorem C14_drop_family_removes_exactly : forall t f, asorted (t_fams t) -> asorted (t_rows t) ->
  let t' := drop_family t f in
  t_fams t' = aremove f (t_fams t)
  /\ known_family (t_fams t') f = false
  /\ (forall g, g <> f -> alookup g (t_fams t') = alookup g (t_fams t))
  /\ asorted (t_rows t')
  /\ (forall k, alookup k (t_rows t) = None -> alookup k (t_rows t') = None)
  /\ (forall k fs, alookup k (t_rows t) = Some fs -> row_stored t fs ->
        let fs' := filter (fun fm => negb (beqb (fam_name fm) f)) fs in
        alookup k (t_rows t') = nonempty_opt fs'
        /\ get_family fs' f = None
        /\ (forall g, g <> f -> get_family fs' g = get_family fs g)).
Proof. exact drop_family_removes_exactly. Qed.
Print Assumptions C14_drop_family_removes_exactly.

Theorem C14_drop_family_then_setcell_rejected : forall s name f now coins t key q ts v rest now' coins',
  alookup name s = Some t -> known_family (t_fams t) f = true -> asorted (t_fams t) ->
  let s' := fst (step s (mkCall (BModifyFamilies name [MDrop f]) now coins)) in
  step s' (mkCall (BMutateRow name key (SetCell f q ts v :: rest)) now' coins') = (s', fail cUnknown).
Proof. exact drop_family_then_setcell_rejected. Qed.
Print Assumptions C14_drop_family_then_setcell_rejected.

(* ---- DropRowRange ---- *)

(* byte-order facts behind the walk "from the first key >= p while the prefix matches" *)
Theorem C14_prefix_block : forall p k1 k2,
  (has_prefix k2 p = true -> lex_le p k2)
  /\ (lex_le p k1 -> lex_lt k1 k2 -> has_prefix k2 p = true -> has_prefix k1 p = true).
Proof. exact prefix_block. Qed.
Print Assumptions C14_prefix_block.

(* exactly the rows with prefix p go, for every p *)
Theorem C14_drop_prefix_exact : forall s name p now coins t, alookup name s = Some t -> asorted (t_rows t) ->
  step s (mkCall (BDropRowRange name false (Some p)) now coins) =
  (set_table s name (mkTable (t_fams t) (filter (fun r => negb (has_prefix (fst r) p)) (t_rows t))), ok YNone).
Proof. exact drop_prefix_exact. Qed.
Print Assumptions C14_drop_prefix_exact.

Theorem C14_drop_prefix_lookup : forall s name p now coins t, alookup name s = Some t -> asorted (t_rows t) ->
  exists t', step s (mkCall (BDropRowRange name false (Some p)) now coins) = (set_table s name t', ok YNone)
    /\ t_fams t' = t_fams t /\ asorted (t_rows t')
    /\ (forall k, has_prefix k p = true -> alookup k (t_rows t') = None)
    /\ (forall k, has_prefix k p = false -> alookup k (t_rows t') = alookup k (t_rows t))
    /\ (forall kv, In kv (t_rows t') <-> In kv (t_rows t) /\ has_prefix (fst kv) p = false).
Proof. exact drop_prefix_lookup. Qed.
Print Assumptions C14_drop_prefix_lookup.

Theorem C14_drop_prefix_empty : forall s name now coins t, alookup name s = Some t -> asorted (t_rows t) ->
  step s (mkCall (BDropRowRange name false (Some [])) now coins) = (set_table s name (mkTable (t_fams t) []), ok YNone).
Proof. exact drop_prefix_empty. Qed.
Print Assumptions C14_drop_prefix_empty.

Theorem C14_drop_all : forall s name pfx now coins t, alookup name s = Some t ->
  step s (mkCall (BDropRowRange name true pfx) now coins) = (set_table s name (mkTable (t_fams t) []), ok YNone).
Proof. exact drop_all. Qed.
Print Assumptions C14_drop_all.

Theorem C14_drop_nothing : forall s name now coins t, alookup name s = Some t ->
  step s (mkCall (BDropRowRange name false None) now coins) = (s, fail cUnknown).
Proof. exact drop_nothing. Qed.
Print Assumptions C14_drop_nothing.

Theorem C14_drop_keeps_schema : forall s name all pfx now coins t, alookup name s = Some t ->
  match alookup name (fst (step s (mkCall (BDropRowRange name all pfx) now coins))) with
  | Some t' => t_fams t' = t_fams t
  | None => False
  end.
Proof. exact drop_keeps_schema. Qed.
Print Assumptions C14_drop_keeps_schema.

(* ---- the sortedness hypotheses are invariants of every run from the empty server ---- *)
Theorem C14_step_wf : forall s c, server_wf s -> server_wf (fst (step s c)).
Proof. exact step_wf. Qed.
Print Assumptions C14_step_wf.

Theorem C14_reachable_wf : forall cs, server_wf (fst (run [] cs)).
Proof. exact reachable_wf. Qed.
Print Assumptions C14_reachable_wf.

(* ---- non-vacuity ---- *)
Definition C14_cell : list cell := [mkCell 0 [118%N] []].
Definition C14_f : family := mkFam [102%N] [mkCol [113%N] C14_cell].
Definition C14_g : family := mkFam [103%N] [mkCol [113%N] C14_cell].
(* keys a, a\xff, a\xff\0, a\xff\xff, b *)
Definition C14_t : table :=
  mkTable [([102%N], None); ([103%N], Some (GMaxVersions 1))]
          [([97%N], [C14_f; C14_g]); ([97; 255]%N, [C14_f]); ([97; 255; 0]%N, [C14_g]);
           ([97; 255; 255]%N, [C14_f; C14_g]); ([98%N], [C14_g])].
Definition C14_name : bytes := table_name [112; 114; 111; 106; 101; 99; 116; 115; 47; 112; 47; 105; 110; 115; 116; 97; 110; 99; 101; 115; 47; 105]%N [116%N].       (* projects/p/instances/i/tables/t *)
Definition C14_other : bytes := table_name [112; 114; 111; 106; 101; 99; 116; 115; 47; 113; 47; 105; 110; 115; 116; 97; 110; 99; 101; 115; 47; 105]%N [116%N].      (* projects/q/instances/i/tables/t *)
Definition C14_s : server := [(C14_name, C14_t); (C14_other, C14_t)].

Example C14_hyps_met :
  server_wf C14_s /\ alookup C14_name C14_s = Some C14_t
  /\ asorted (t_rows C14_t) /\ asorted (t_fams C14_t)
  /\ known_family (t_fams C14_t) [102%N] = true
  /\ Forall (fun kv => row_stored C14_t (snd kv)) (t_rows C14_t).
Proof.
  assert (Hr : asorted (t_rows C14_t)) by (repeat (constructor; try reflexivity)).
  assert (Hf : asorted (t_fams C14_t)) by (repeat (constructor; try reflexivity)).
  split; [|split; [|split; [|split; [|split]]]]; auto.
  - split; [repeat (constructor; try reflexivity)|].
    intros n t H. unfold C14_s in H. cbn [alookup] in H.
    destruct (beqb n C14_name); [injection H as <-; split; auto|].
    destruct (beqb n C14_other); [injection H as <-; split; auto|discriminate].
  - repeat constructor.
Qed.

(* prefix ending in 0xff that is also a key: exactly the three a\xff* rows go *)
Example C14_drop_prefix_example :
  let s' := fst (step C14_s (mkCall (BDropRowRange C14_name false (Some [97; 255]%N)) 0 [])) in
  (match alookup C14_name s' with Some t' => map fst (t_rows t') | None => [] end) = [[97]; [98]]%N
  /\ alookup C14_other s' = Some C14_t.
Proof. vm_compute. split; reflexivity. Qed.

(* dropping family f: row a\xff (only f) disappears, the others lose f *)
Example C14_drop_family_example :
  let s' := fst (step C14_s (mkCall (BModifyFamilies C14_name [MDrop [102%N]]) 0 [])) in
  (match alookup C14_name s' with
   | Some t' => (map fst (t_fams t'), map (fun kv => (fst kv, map fam_name (snd kv))) (t_rows t'))
   | None => ([], [])
   end)
  = ([[103%N]], [([97%N], [[103%N]]); ([97; 255; 0]%N, [[103%N]]); ([97; 255; 255]%N, [[103%N]]); ([98%N], [[103%N]])])
  /\ snd (step s' (mkCall (BMutateRow C14_name [97%N] [SetCell [102%N] [113%N] 0 [118%N]]) 0 [])) = fail cUnknown.
Proof. vm_compute. split; reflexivity. Qed.

(* atomicity: [create new; create existing] answers AlreadyExists and keeps nothing (BT-11) *)
Example C14_modify_atomic_example :
  step C14_s (mkCall (BModifyFamilies C14_name [MCreate [104%N] None; MCreate [102%N] None]) 0 [])
  = (C14_s, fail cAlreadyExists).
Proof. vm_compute. reflexivity. Qed.

(* ---- table names ---- *)

(* a valid table name is exactly projects/<project>/instances/<instance>/tables/<table id>: six
   slash-free pieces, none of them empty, "." or ".." *)
Theorem C14_valid_name_six_segments : forall n, valid_table_name n ->
  exists pr inst tid,
    split n s_slash1 = [s_projects; pr; s_instances; inst; s_tables; tid]
    /\ n = join [s_projects; pr; s_instances; inst; s_tables; tid]
    /\ plain_seg pr = true /\ plain_seg inst = true /\ valid_tid tid = true
    /\ noslash pr = true /\ noslash inst = true /\ noslash tid = true.
Proof. exact valid_name_six_segments. Qed.
Print Assumptions C14_valid_name_six_segments.

(* the validity of a name can be decided on the name alone *)
Theorem C14_valid_table_name_iff : forall n, valid_table_name n <-> valid_table_nameb n = true.
Proof. exact valid_table_name_iff. Qed.
Print Assumptions C14_valid_table_name_iff.

(* a valid table id contains no "/" *)
Theorem C14_valid_tid_no_slash : forall tid, valid_tid tid = true ->
  ~ In 47%N tid /\ split tid s_slash1 = [tid].
Proof. exact valid_tid_no_slash. Qed.
Print Assumptions C14_valid_tid_no_slash.

(* a valid name has no empty, "." or ".." piece and no leading "/" *)
Theorem C14_valid_names_are_clean : forall n, valid_table_name n ->
  Forall (fun seg => plain_seg seg = true) (split n s_slash1)
  /\ has_prefix n s_slash1 = false
  /\ length (split n s_slash1) = 6%nat.
Proof. exact valid_names_are_clean. Qed.
Print Assumptions C14_valid_names_are_clean.

(* different valid names = different, non-nested directories: n1/ is never a prefix of n2/ *)
Theorem C14_valid_names_not_nested : forall n1 n2, valid_table_name n1 -> valid_table_name n2 -> n1 <> n2 ->
  ~ has_prefix (n2 ++ s_slash1) (n1 ++ s_slash1) = true.
Proof. exact valid_names_not_nested. Qed.
Print Assumptions C14_valid_names_not_nested.

(* a valid name determines its parent and its table id *)
Theorem C14_valid_name_unique_parts : forall p1 t1 p2 t2,
  valid_parent p1 = true -> valid_tid t1 = true -> valid_parent p2 = true -> valid_tid t2 = true ->
  table_name p1 t1 = table_name p2 t2 -> p1 = p2 /\ t1 = t2.
Proof. exact valid_name_unique_parts. Qed.
Print Assumptions C14_valid_name_unique_parts.

(* only a successful CreateTable adds a name, and the name it adds is valid *)
Theorem C14_step_new_name : forall s c n,
  In n (map fst (fst (step s c))) -> ~ In n (map fst s) ->
  exists parent tid fams, cl_req c = BCreateTable parent tid fams /\ n = table_name parent tid
    /\ valid_parent parent = true /\ valid_tid tid = true /\ br_code (snd (step s c)) = cOK.
Proof. exact step_new_name. Qed.
Print Assumptions C14_step_new_name.

(* every table name registered in any reachable server is valid *)
Theorem C14_reachable_table_names_valid : forall cs n,
  In n (map fst (fst (run [] cs))) -> valid_table_name n.
Proof. exact reachable_table_names_valid. Qed.
Print Assumptions C14_reachable_table_names_valid.

Theorem C14_reachable_tables_not_nested : forall cs n1 n2 t1 t2,
  alookup n1 (fst (run [] cs)) = Some t1 -> alookup n2 (fst (run [] cs)) = Some t2 -> n1 <> n2 ->
  has_prefix (n2 ++ s_slash1) (n1 ++ s_slash1) = false.
Proof. exact reachable_tables_not_nested. Qed.
Print Assumptions C14_reachable_tables_not_nested.

Example C14_valid_names :
  valid_parent ex_parent = true /\ valid_tid ex_tid = true
  /\ valid_tid [95; 65; 46; 45; 122; 57]%N = true
  /\ valid_table_nameb (table_name ex_parent ex_tid) = true
  /\ valid_table_nameb C14_name = true /\ valid_table_nameb C14_other = true.
Proof. vm_compute. auto 10. Qed.

Example C14_invalid_tids :
  valid_tid [] = false
  /\ valid_tid (ex_tid2 ++ s_slash1 ++ s_dotdot ++ s_slash1 ++ ex_tid) = false   (* t2/../t1 *)
  /\ valid_tid (s_dot ++ s_slash1 ++ ex_tid) = false                             (* ./t1 *)
  /\ valid_tid s_dotdot = false /\ valid_tid s_dot = false
  /\ valid_tid (s_dot ++ ex_tid) = false                                         (* .t1 *)
  /\ valid_tid (45%N :: ex_tid) = false                                          (* -t1 *)
  /\ valid_tid (ex_tid ++ s_tables_sep ++ ex_tid2) = false.                      (* t1/tables/t2 *)
Proof. vm_compute. repeat split. Qed.

Example C14_invalid_parents :
  valid_parent [] = false
  /\ valid_parent [112%N] = false                                                (* p *)
  /\ valid_parent (s_slash1 ++ ex_parent) = false                                (* /projects/p/instances/i *)
  /\ valid_parent (ex_parent ++ s_slash1) = false                                (* projects/p/instances/i/ *)
  /\ valid_parent (ex_parent ++ s_tables_sep ++ ex_tid) = false                  (* a table name as parent *)
  /\ valid_parent (s_projects ++ s_slash1 ++ s_dotdot ++ s_slash1 ++ s_instances ++ s_slash1 ++ [105%N]) = false
  /\ valid_parent (s_projects ++ s_slash1 ++ s_slash1 ++ s_instances ++ s_slash1 ++ [105%N]) = false
  /\ valid_parent (s_dotdot ++ s_slash1 ++ ex_parent) = false.
Proof. vm_compute. repeat split. Qed.

(* the requests of the defect (a table id that resolves to another table's files) are refused and
   leave the server as it was; a valid second table is accepted *)
Example C14_create_rejected :
  let s := fst (run [] [mkCall (BCreateTable ex_parent ex_tid []) 0 []]) in
  s <> []
  /\ step s (mkCall (BCreateTable ex_parent (ex_tid2 ++ s_slash1 ++ s_dotdot ++ s_slash1 ++ ex_tid) []) 0 [])
     = (s, fail cInvalidArgument)
  /\ step s (mkCall (BCreateTable ex_parent (s_dot ++ s_slash1 ++ ex_tid) []) 0 []) = (s, fail cInvalidArgument)
  /\ step s (mkCall (BCreateTable (table_name ex_parent ex_tid) ex_tid2 []) 0 []) = (s, fail cInvalidArgument)
  /\ br_code (snd (step s (mkCall (BCreateTable ex_parent ex_tid2 []) 0 []))) = cOK.
Proof. exact ex_create_rejected. Qed.

(* t1 and t10: one name is a string prefix of the other, the directories are not nested *)
Example C14_not_nested :
  let n1 := table_name ex_parent ex_tid in
  let n2 := table_name ex_parent (ex_tid ++ [48%N]) in
  valid_table_nameb n1 = true /\ valid_table_nameb n2 = true /\ has_prefix n2 n1 = true
  /\ has_prefix (n2 ++ s_slash1) (n1 ++ s_slash1) = false.
Proof. exact ex_not_nested. Qed.

(* ---- table ids: length and definition-file names ---- *)

(* a valid table id has between 1 and 50 characters *)
Theorem C14_valid_tid_bounded : forall t, valid_tid t = true -> (1 <= length t <= 50)%nat.
Proof. exact valid_tid_bounded. Qed.
Print Assumptions C14_valid_tid_bounded.

(* ... and does not end in ".table.proto" or ".table.proto.tmp" *)
Theorem C14_valid_tid_not_definition_file : forall t, valid_tid t = true ->
  has_suffix t s_table_proto = false /\ has_suffix t s_table_proto_tmp = false.
Proof. exact valid_tid_not_definition_file. Qed.
Print Assumptions C14_valid_tid_not_definition_file.

(* the definition-file name of one table is never the name (directory) of a table - the same or
   another - nor inside one *)
Theorem C14_definition_files_apart : forall n1 n2, valid_table_name n1 -> valid_table_name n2 ->
  n1 ++ s_table_proto <> n2
  /\ ~ has_prefix (n1 ++ s_table_proto) (n2 ++ s_slash1) = true
  /\ n1 ++ s_table_proto_tmp <> n2
  /\ ~ has_prefix (n1 ++ s_table_proto_tmp) (n2 ++ s_slash1) = true.
Proof. exact definition_files_apart. Qed.
Print Assumptions C14_definition_files_apart.

Theorem C14_definition_file_not_table_name : forall n, valid_table_name n ->
  ~ valid_table_name (n ++ s_table_proto) /\ ~ valid_table_name (n ++ s_table_proto_tmp).
Proof. exact definition_file_not_table_name. Qed.
Print Assumptions C14_definition_file_not_table_name.

Theorem C14_reachable_definition_files_apart : forall cs n1 n2,
  In n1 (map fst (fst (run [] cs))) -> In n2 (map fst (fst (run [] cs))) ->
  n1 ++ s_table_proto <> n2
  /\ ~ has_prefix (n1 ++ s_table_proto) (n2 ++ s_slash1) = true
  /\ n1 ++ s_table_proto_tmp <> n2
  /\ ~ has_prefix (n1 ++ s_table_proto_tmp) (n2 ++ s_slash1) = true.
Proof. exact reachable_definition_files_apart. Qed.
Print Assumptions C14_reachable_definition_files_apart.

Example C14_tid_length_and_suffix :
  valid_tid ex_tid50 = true /\ valid_tid ex_tid51 = false                        (* 50 and 51 characters *)
  /\ valid_tid (ex_tid ++ s_table_proto) = false                                 (* t1.table.proto *)
  /\ valid_tid (120%N :: s_table_proto_tmp) = false                              (* x.table.proto.tmp *)
  /\ valid_tid (97%N :: s_table_proto ++ [120%N]) = true                         (* a.table.protox *)
  /\ valid_tid (ex_tid ++ s_table_proto ++ [46%N; 116%N]) = true                 (* t1.table.proto.t *)
  /\ valid_table_nameb (table_name ex_parent ex_tid ++ s_table_proto) = false.
Proof. exact ex_tid_length_and_suffix. Qed.

Example C14_create_definition_file_rejected :
  let s := fst (run [] [mkCall (BCreateTable ex_parent ex_tid []) 0 []]) in
  s <> []
  /\ step s (mkCall (BCreateTable ex_parent (ex_tid ++ s_table_proto) []) 0 []) = (s, fail cInvalidArgument)
  /\ step s (mkCall (BCreateTable ex_parent (ex_tid ++ s_table_proto_tmp) []) 0 []) = (s, fail cInvalidArgument)
  /\ step s (mkCall (BCreateTable ex_parent ex_tid51 []) 0 []) = (s, fail cInvalidArgument)
  /\ br_code (snd (step s (mkCall (BCreateTable ex_parent ex_tid50 []) 0 []))) = cOK.
Proof. exact ex_create_definition_file_rejected. Qed.

(* C01 — Bigtable: reads reflect exactly the mutations applied (data-model equivalence).
   Only statements here; the Layer-B spec is BT/CellSpec.v, proofs are in BT/CellProofs.v and
   BT/MutateProofs.v. *)
From Coq Require Import List NArith ZArith Bool.
Import ListNotations.
From Emu.Common Require Import Bytes Str StrProofs.
From Emu.Gen Require Import Consts.
From Emu.BT Require Import Types Mutate Server CellSpec CellProofs MutateProofs.
Local Open Scope Z_scope.

(* appendOrReplaceCell: keeps the column strictly descending and is a point update of the map *)
Theorem C01_insert_cell_spec : forall cs n, desc cs ->
  desc (insert_cell cs n)
  /\ forall t, cell_lookup (insert_cell cs n) t = if t =? c_ts n then Some (c_val n) else cell_lookup cs t.
Proof. exact insert_cell_spec. Qed.
Print Assumptions C01_insert_cell_spec.

(* DeleteFromColumn's two sort.Search indices remove exactly the half-open interval [s, e),
   0 = unbounded on that side, for every descending column *)
Theorem C01_delete_range_halfopen : forall cs s e, desc cs -> 0 <= s -> 0 <= e ->
  delete_range cs s e = filter (fun c => negb (in_del_range s e (c_ts c))) cs
  /\ desc (delete_range cs s e)
  /\ (forall c, In c (delete_range cs s e) <-> In c cs /\ in_del_range s e (c_ts c) = false)
  /\ (forall t, cell_lookup (delete_range cs s e) t = if in_del_range s e t then None else cell_lookup cs t).
Proof. exact delete_range_spec. Qed.
Print Assumptions C01_delete_range_halfopen.

(* reading the lower bound literally ("s <= ts" also for s = 0) is false of the code when a cell
   has a negative timestamp: start 0 really is "unbounded below" *)
Theorem C01_delete_range_literal_lower_bound_refuted :
  exists cs s e, desc cs /\ 0 <= s /\ 0 <= e /\
    delete_range cs s e <> filter (fun c => negb ((s <=? c_ts c) && ((e =? 0) || (c_ts c <? e)))) cs.
Proof. exact delete_range_literal_lower_bound_refuted. Qed.
Print Assumptions C01_delete_range_literal_lower_bound_refuted.

(* one mutation: the code refines the cell-map spec, errors coincide *)
Theorem C01_apply_mutation_refines : forall tf now fs m, fams_ok fs ->
  match apply_mutation tf now fs m with
  | Some fs' => fams_ok fs' /\ exists cm', spec_mutation tf now m (abs_fams fs) = Some cm' /\ cm_eq (abs_fams fs') cm'
  | None => spec_mutation tf now m (abs_fams fs) = None
  end.
Proof. exact apply_mutation_refines. Qed.
Print Assumptions C01_apply_mutation_refines.

(* a request's mutation list, in order; the first invalid mutation fails the whole list *)
Theorem C01_apply_mutations_refines : forall tf now ms fs, fams_ok fs ->
  match apply_mutations tf now fs ms with
  | Some fs' => fams_ok fs' /\ exists cm', spec_mutations tf now ms (abs_fams fs) = Some cm' /\ cm_eq (abs_fams fs') cm'
  | None => spec_mutations tf now ms (abs_fams fs) = None
  end.
Proof. exact apply_mutations_refines. Qed.
Print Assumptions C01_apply_mutations_refines.

(* exactly the requests the API calls invalid are errors *)
Theorem C01_invalid_iff : forall tf now m cm,
  spec_mutation tf now m cm = None <->
  match m with
  | SetCell fam _ ts _ => known_family tf fam = false
                          \/ valid_timestamp (if ts =? -1 then trunc_ms now else ts) = false
  | DeleteFromColumn fam _ (Some (s, e)) => known_family tf fam = false \/ range_valid s e = false
  | DeleteFromColumn fam _ None => known_family tf fam = false
  | DeleteFromFamily fam => known_family tf fam = false
  | DeleteFromRow => False
  | MutUnset => True
  end.
Proof. exact spec_mutation_none_iff. Qed.
Print Assumptions C01_invalid_iff.

Theorem C01_valid_timestamp : forall ts,
  valid_timestamp ts = true <-> btMinValidTs <= ts <= btMaxValidTs /\ (btTsGranularity | ts).
Proof. exact valid_timestamp_iff. Qed.
Print Assumptions C01_valid_timestamp.

Theorem C01_valid_timestamp_concrete : forall ts,
  valid_timestamp ts = true <-> 0 <= ts <= 9223372036854775000 /\ (1000 | ts).
Proof. exact valid_timestamp_concrete. Qed.
Print Assumptions C01_valid_timestamp_concrete.

Theorem C01_range_valid : forall s e,
  range_valid s e = true <->
  valid_timestamp s = true /\ (valid_timestamp e = true \/ e = 0) /\ (e = 0 \/ s < e).
Proof. exact range_valid_iff. Qed.
Print Assumptions C01_range_valid.

(* server-assigned timestamps *)
Theorem C01_trunc_ms_multiple : forall now, now <> -1 -> (1000 | trunc_ms now).
Proof. exact trunc_ms_multiple. Qed.
Print Assumptions C01_trunc_ms_multiple.

Theorem C01_server_time_truncated : forall tf now fs fam q v,
  apply_mutation tf now fs (SetCell fam q (-1) v) = apply_mutation tf now fs (SetCell fam q (trunc_ms now) v)
  /\ (fams_ok fs ->
      match apply_mutation tf now fs (SetCell fam q (-1) v) with
      | Some fs' => valid_timestamp (trunc_ms now) = true
                    /\ (1000 | trunc_ms now)
                    /\ abs_fams fs' fam q (trunc_ms now) = Some v
                    /\ forall f q' t, (f, q', t) <> (fam, q, trunc_ms now) -> abs_fams fs' f q' t = abs_fams fs f q' t
      | None => known_family tf fam = false \/ valid_timestamp (trunc_ms now) = false
      end).
Proof. exact server_time_truncated. Qed.
Print Assumptions C01_server_time_truncated.

(* scrubRow keeps the content (cells of families unknown to the table vanish) and produces the
   stored form: each family once and known, columns ascending, no empty column or family *)
Theorem C01_scrub_content : forall tf fs, fams_ok fs -> forall f q t,
  abs_fams (scrub_fams tf fs) f q t = if known_family tf f then abs_fams fs f q t else None.
Proof. exact scrub_content. Qed.
Print Assumptions C01_scrub_content.

Theorem C01_scrub_preserves_content : forall tf fs, fams_ok fs -> all_known tf fs ->
  cm_eq (abs_fams (scrub_fams tf fs)) (abs_fams fs) /\ stored_ok tf (scrub_fams tf fs).
Proof. exact scrub_preserves_content. Qed.
Print Assumptions C01_scrub_preserves_content.

Theorem C01_scrub_empty_iff : forall tf fs, all_known tf fs ->
  (scrub_fams tf fs = [] <-> is_empty_fams fs = true).
Proof. exact scrub_empty_iff. Qed.
Print Assumptions C01_scrub_empty_iff.

Theorem C01_is_empty_content : forall fs, fams_ok fs ->
  (is_empty_fams fs = true <-> forall f q t, abs_fams fs f q t = None).
Proof. exact is_empty_content. Qed.
Print Assumptions C01_is_empty_content.

Theorem C01_scrub_stored_id : forall tf fs, stored_ok tf fs -> scrub_fams tf fs = fs.
Proof. exact scrub_stored_id. Qed.
Print Assumptions C01_scrub_stored_id.

(* the invariant, for ALL thirteen request kinds *)
Theorem C01_step_preserves_server_ok : forall s c, server_ok s -> server_ok (fst (step s c)).
Proof. exact step_preserves_server_ok. Qed.
Print Assumptions C01_step_preserves_server_ok.

Theorem C01_history : forall cs, server_ok (fst (run [] cs)).
Proof. exact MutateProofs.C01_history. Qed.
Print Assumptions C01_history.

(* no stored row without a cell *)
Theorem C01_row_absent_iff_empty : forall t key, table_ok t ->
  (alookup key (t_rows t) = None <-> forall f q ts, abs_fams (get_row t key) f q ts = None).
Proof. exact GcProofs.row_absent_iff_empty. Qed.
Print Assumptions C01_row_absent_iff_empty.

(* MutateRow: OK => the stored row's content is the spec's fold over the previous content, the row
   is in stored form, every other row and table is untouched; not OK => nothing changed *)
Theorem C01_mutate_row_then_get : forall s tbl key muts now coins, server_ok s ->
  let '(s', rsp) := step s (mkCall (BMutateRow tbl key muts) now coins) in
  if N.eqb (br_code rsp) cOK then
    exists t t' cm',
      alookup tbl s = Some t
      /\ spec_mutations (t_fams t) now muts (abs_fams (get_row t key)) = Some cm'
      /\ alookup tbl s' = Some t' /\ t_fams t' = t_fams t
      /\ cm_eq (abs_fams (get_row t' key)) cm'
      /\ stored_ok (t_fams t) (get_row t' key)
      /\ (forall k, k <> key -> alookup k (t_rows t') = alookup k (t_rows t))
      /\ (forall n, n <> tbl -> alookup n s' = alookup n s)
  else
    s' = s
    /\ (alookup tbl s = None
        \/ exists t, alookup tbl s = Some t
                     /\ spec_mutations (t_fams t) now muts (abs_fams (get_row t key)) = None).
Proof. exact mutate_row_then_get. Qed.
Print Assumptions C01_mutate_row_then_get.

(* MutateRows: per-entry status *)
Theorem C01_mutate_rows_entry : forall now ta cs e, table_ok ta ->
  let '(ta', cs') := mrows_step now (ta, cs) e in
  match spec_mutations (t_fams ta) now (snd e) (abs_fams (get_row ta (fst e))) with
  | Some cm' => cs' = cs ++ [cOK] /\ t_fams ta' = t_fams ta
                /\ cm_eq (abs_fams (get_row ta' (fst e))) cm'
                /\ (forall k, k <> fst e -> alookup k (t_rows ta') = alookup k (t_rows ta))
  | None => cs' = cs ++ [cInternal] /\ ta' = ta
  end.
Proof. exact mrows_step_spec. Qed.
Print Assumptions C01_mutate_rows_entry.

(* non-vacuity: a concrete row meeting fams_ok, a valid and an invalid mutation list on it, the
   scrubbed (stored) form; and a concrete history leading to a non-trivial server state that
   satisfies server_ok, on which MutateRow succeeds and fails *)
Example C01_nonvacuous_row :
  let tf := [([102%N], None)] in
  let fs := [mkFam [102%N] [mkCol [113%N] [mkCell 5000 [1%N] []; mkCell 3000 [2%N] []; mkCell 1000 [3%N] []]]] in
  fams_ok fs
  /\ apply_mutations tf 7777 fs [SetCell [102%N] [97%N] (-1) [9%N]; DeleteFromColumn [102%N] [113%N] (Some (3000, 5000))]
     = Some [mkFam [102%N] [mkCol [113%N] [mkCell 5000 [1%N] []; mkCell 1000 [3%N] []];
                            mkCol [97%N] [mkCell 7000 [9%N] []]]]
  /\ scrub_fams tf [mkFam [102%N] [mkCol [113%N] [mkCell 5000 [1%N] []; mkCell 1000 [3%N] []];
                                   mkCol [97%N] [mkCell 7000 [9%N] []]]]
     = [mkFam [102%N] [mkCol [97%N] [mkCell 7000 [9%N] []];
                       mkCol [113%N] [mkCell 5000 [1%N] []; mkCell 1000 [3%N] []]]]
  /\ apply_mutations tf 7777 fs [SetCell [102%N] [97%N] 1500 [9%N]] = None.
Proof. exact C01_example. Qed.

Example C01_nonvacuous_history :
  let s := fst (run [] ex_history) in
  server_ok s
  /\ map br_code (snd (run [] ex_history)) = [cOK; cOK; cOK; cUnknown; cOK]
  /\ exists t, alookup ex_tbl s = Some t
       /\ t_rows t = [([114%N], [mkFam [102%N] [mkCol [97%N] [mkCell 2000 [2%N] []];
                                               mkCol [113%N] [mkCell 9000 [1%N; 7%N] []]]])].
Proof.
  split; [apply MutateProofs.C01_history|]. split; [vm_compute; reflexivity|].
  eexists. split; vm_compute; reflexivity.
Qed.

(* C10 — GCS: generation / metageneration laws.
   Only statements here; proofs are in GCS/GenerationProofs.v. *)
From Coq Require Import List NArith ZArith Bool Sorted.
Import ListNotations.
From Emu.Common Require Import Bytes Str.
From Emu.GCS Require Import Model UploadProofs GenerationProofs.
Local Open Scope Z_scope.

(* every stored object's generation is at most the clock: an invariant of [handle] *)
Theorem C10_gens_bounded_init : gens_bounded init_state.
Proof. exact gens_bounded_init. Qed.
Print Assumptions C10_gens_bounded_init.

Theorem C10_gens_bounded_preserved : forall s r, gens_bounded s -> gens_bounded (fst (handle s r)).
Proof. exact gens_bounded_preserved. Qed.
Print Assumptions C10_gens_bounded_preserved.

Theorem C10_gens_bounded_find : forall s b n o,
  gens_bounded s -> find_obj s b n = Some o -> o_gen o <= s_clock s.
Proof. exact gens_bounded_find. Qed.
Print Assumptions C10_gens_bounded_find.

(* the clock never decreases, and moves by at most one per request *)
Theorem C10_clock_monotone : forall s r, s_clock s <= s_clock (fst (handle s r)).
Proof. exact clock_monotone. Qed.
Print Assumptions C10_clock_monotone.

Theorem C10_clock_step : forall s r,
  s_clock (fst (handle s r)) = s_clock s \/ s_clock (fst (handle s r)) = s_clock s + 1.
Proof. exact clock_step. Qed.
Print Assumptions C10_clock_step.

Theorem C10_clock_monotone_run : forall rs s, s_clock s <= s_clock (fst (run s rs)).
Proof. exact clock_monotone_run. Qed.
Print Assumptions C10_clock_monotone_run.

(* every content write answered 200 (media, multipart, resumable completion, compose, copy
   destination) stores an object with generation clock+1 and metageneration 1 *)
Theorem C10_content_write_fresh_generation : forall s r,
  is_content_write r = true -> r_status (snd (handle s r)) = 200 ->
  exists b n o, targets s r = [(b, n)]
    /\ find_obj (fst (handle s r)) b n = Some o
    /\ o_gen o = s_clock s + 1 /\ o_metagen o = 1
    /\ s_clock (fst (handle s r)) = s_clock s + 1.
Proof. exact content_write_fresh_generation. Qed.
Print Assumptions C10_content_write_fresh_generation.

(* ... strictly above every generation present before the request *)
Theorem C10_fresh_generation_exceeds_all : forall s r,
  gens_bounded s -> is_content_write r = true -> r_status (snd (handle s r)) = 200 ->
  exists b n o, targets s r = [(b, n)] /\ find_obj (fst (handle s r)) b n = Some o /\ o_metagen o = 1
    /\ forall b0 n0 o0, find_obj s b0 n0 = Some o0 -> o_gen o0 < o_gen o.
Proof. exact fresh_generation_exceeds_all. Qed.
Print Assumptions C10_fresh_generation_exceeds_all.

(* ... and above everything any earlier state of the run held *)
Theorem C10_fresh_generation_exceeds_history : forall s0 rs r,
  gens_bounded s0 ->
  let s := fst (run s0 rs) in
  is_content_write r = true -> r_status (snd (handle s r)) = 200 ->
  exists b n o, targets s r = [(b, n)] /\ find_obj (fst (handle s r)) b n = Some o
    /\ forall rsA rsB, rs = rsA ++ rsB ->
       forall b0 n0 o0, find_obj (fst (run s0 rsA)) b0 n0 = Some o0 -> o_gen o0 < o_gen o.
Proof. exact fresh_generation_exceeds_history. Qed.
Print Assumptions C10_fresh_generation_exceeds_history.

(* the generations written along any run (from any state) are strictly increasing *)
Theorem C10_generations_strictly_increasing : forall rs s, StronglySorted Z.lt (run_gens s rs).
Proof. exact generations_strictly_increasing. Qed.
Print Assumptions C10_generations_strictly_increasing.

Theorem C10_written_gen_spec : forall s r,
  match written_gen s r with
  | Some g => g = s_clock s + 1 /\ s_clock (fst (handle s r)) = g
  | None => is_content_write r = false \/ r_status (snd (handle s r)) <> 200
  end.
Proof. exact written_gen_spec. Qed.
Print Assumptions C10_written_gen_spec.

Theorem C10_generations_from_init : forall rs,
  StronglySorted Z.lt (run_gens init_state rs) /\ Forall (fun g => clock0 < g) (run_gens init_state rs)
  /\ gens_bounded (fst (run init_state rs)).
Proof. exact generations_from_init. Qed.
Print Assumptions C10_generations_from_init.

(* a patch answered 200 bumps the metageneration by one and sets content type / metadata as
   supplied; data, generation and md5 are kept, the read-only fields of the patch are ignored,
   no generation is handed out and no other object changes *)
Theorem C10_patch_bumps_metagen_only : forall s b n p cp,
  r_status (snd (handle s (RPatch b n p cp))) = 200 ->
  exists o, find_obj s b n = Some o
    /\ find_obj (fst (handle s (RPatch b n p cp))) b n
       = Some (mkObj (o_data o)
                     (match pt_ctype p with Some t => t | None => o_ctype o end)
                     (o_gen o) (o_metagen o + 1) (o_md5 o)
                     (match pt_meta p with Some kv => merge_meta (o_meta o) kv | None => o_meta o end))
    /\ s_clock (fst (handle s (RPatch b n p cp))) = s_clock s
    /\ forall b' n', (b', n') <> (b, n) ->
         find_obj (fst (handle s (RPatch b n p cp))) b' n' = find_obj s b' n'.
Proof. exact patch_bumps_metagen_only. Qed.
Print Assumptions C10_patch_bumps_metagen_only.

(* reads return the state unchanged *)
Theorem C10_reads_change_nothing : forall s r, is_read r = true -> fst (handle s r) = s.
Proof. exact reads_change_nothing. Qed.
Print Assumptions C10_reads_change_nothing.

(* non-vacuity: upload, overwrite, read, compose, copy, patch *)
Example C10_nonvacuous :
  let cp := mkCP (PRaw []) (PRaw []) (PRaw []) (PRaw []) in
  let bk := [98]%N in
  let rs := [RUploadMedia bk [120]%N [116]%N [1; 2; 3]%N cp;
             RUploadMedia bk [120]%N [116]%N [4]%N cp;
             RGetMeta bk [120]%N;
             RCompose bk [122]%N false [([120]%N, PRaw [])] None cp;
             RCopy bk [120]%N bk [121]%N;
             RPatch bk [120]%N (mkPatch false (Some [117]%N) None None None None) cp] in
  run_gens init_state rs = [clock0 + 1; clock0 + 2; clock0 + 3; clock0 + 4]
  /\ map r_status (snd (run init_state rs)) = [200; 200; 200; 200; 200; 200]
  /\ option_map o_metagen (find_obj (fst (run init_state rs)) bk [120]%N) = Some 2
  /\ option_map o_gen (find_obj (fst (run init_state rs)) bk [120]%N) = Some (clock0 + 2).
Proof. exact generations_example. Qed.

(* C02 — statements only; see GCS/*Proofs.v *)
From Coq Require Import List NArith ZArith Bool.
From Emu.GCS Require Import Model CondsSpec CondsProofs HandlerProofs.
Theorem C02_failed_request_frame : forall s r,
  let '(s', rsp) := handle s r in
  is_success (r_status rsp) = false -> s_buckets s' = s_buckets s /\ s_clock s' = s_clock s.
Proof. exact failed_request_frame. Qed.
Print Assumptions C02_failed_request_frame.

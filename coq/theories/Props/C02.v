(* C02 — GCS: what is uploaded is what is served, until overwritten or deleted.
   Only statements here; proofs are in GCS/UploadProofs.v (and GCS/HandlerProofs.v). *)
From Coq Require Import List NArith ZArith Bool.
Import ListNotations.
From Emu.Common Require Import Bytes Str StrProofs IntProofs.
From Emu.GCS Require Import Model CondsSpec CondsProofs HandlerProofs UploadProofs.
Local Open Scope Z_scope.

(* ---- resumable uploads ---- *)

(* For every payload P and every session of PUTs consistent with P (chunks P[lo,lo+len) with
   total "*" or |P| at ANY offset, re-sends and overlaps included; status/finalise requests
   with an empty body), starting from any prefix of P: after every step the bytes held are a
   prefix of P, and whenever a step completes the upload (finish_upload is called, flag true)
   the bytes handed over are exactly P.  No bound on P; the empty payload is included. *)
Theorem C02_resumable_assembles_payload : forall P steps held,
  is_prefix held P ->
  Forall (fun st => consistent P (fst st) (snd st)) steps ->
  Forall (fun hf => is_prefix (fst hf) P /\ (snd hf = true -> fst hf = P)) (session held steps).
Proof. exact resumable_assembles_payload. Qed.
Print Assumptions C02_resumable_assembles_payload.

(* progress (lengths in the int64 domain): a consistent chunk at an offset within the bytes
   held is accepted and leaves exactly P[0, lo+len) *)
Theorem C02_resume_accepts_chunk : forall P held lo len T,
  Z.of_nat (length P) <= int64_max ->
  is_prefix held P -> (lo <= length held)%nat -> (lo + len <= length P)%nat ->
  resume_apply held (mkBR (Z.of_nat lo) (Z.of_nat lo + Z.of_nat len - 1) T) (firstn len (skipn lo P))
  = Some (firstn (lo + len) P).
Proof. exact resume_apply_accepts_chunk. Qed.
Print Assumptions C02_resume_accepts_chunk.

Theorem C02_resume_accepts_status : forall held hi T,
  resume_apply held (mkBR (-1) hi T) [] = Some held.
Proof. exact resume_apply_accepts_status. Qed.
Print Assumptions C02_resume_accepts_status.

(* the same through [handle]: one PUT on a pending upload either completes it, storing exactly
   P with a fresh generation, or changes no object and leaves a prefix of P pending *)
Theorem C02_resumable_put_step : forall P id s u st,
  state_ok s -> alookup id (s_uploads s) = Some u -> is_prefix (up_data u) P ->
  step_consistent P st ->
  let s' := fst (handle s (put_req id st)) in
  let rsp := snd (handle s (put_req id st)) in
  (r_status rsp = 200 /\ alookup id (s_uploads s') = None /\ stored_as s' u P
   /\ find_obj s' (up_bucket u) (up_name u)
      = Some (mkObj P (up_ctype u) (s_clock s + 1) 1 true (merge_meta [] (up_meta u))))
  \/ (r_status rsp <> 200 /\ s_buckets s' = s_buckets s /\ s_clock s' = s_clock s
      /\ exists u', alookup id (s_uploads s') = Some u' /\ same_target u' u /\ is_prefix (up_data u') P).
Proof. exact resumable_put_step. Qed.
Print Assumptions C02_resumable_put_step.

(* a whole session through [run] *)
Theorem C02_resumable_session_end_to_end : forall P id steps s u,
  state_ok s -> alookup id (s_uploads s) = Some u -> is_prefix (up_data u) P ->
  Forall (step_consistent P) steps ->
  let s' := fst (run s (map (put_req id) steps)) in
  let rsps := snd (run s (map (put_req id) steps)) in
  if existsb (fun r => Z.eqb (r_status r) 200) rsps
  then stored_as s' u P
  else s_buckets s' = s_buckets s
       /\ exists u', alookup id (s_uploads s') = Some u' /\ same_target u' u /\ is_prefix (up_data u') P.
Proof. exact resumable_session_end_to_end. Qed.
Print Assumptions C02_resumable_session_end_to_end.

(* ---- Content-Range text ---- *)

Theorem C02_parse_byte_range_rejects_non_bytes : forall cr,
  has_prefix cr s_bytes_sp = false -> parse_byte_range cr = None.
Proof. exact parse_byte_range_rejects_non_bytes. Qed.
Print Assumptions C02_parse_byte_range_rejects_non_bytes.

(* "bytes */T" *)
Theorem C02_parse_byte_range_star : forall t, ~ In 47%N t ->
  parse_byte_range (s_bytes_sp ++ s_star ++ s_slash ++ t)
  = if beqb t s_star then Some (mkBR (-1) (-1) (-1))
    else match parse_int t with Some sz => Some (mkBR (-1) (-1) sz) | None => None end.
Proof. exact parse_byte_range_star. Qed.
Print Assumptions C02_parse_byte_range_star.

(* "bytes A-B/T" with A, B digit strings, T a digit string or "*" *)
Theorem C02_parse_byte_range_digits : forall a b t,
  forallb is_digit a = true -> forallb is_digit b = true ->
  forallb is_digit t = true \/ t = s_star ->
  parse_byte_range (s_bytes_sp ++ a ++ s_dash ++ b ++ s_slash ++ t)
  = match parse_int a, parse_int b with
    | Some lo, Some hi =>
        if beqb t s_star then Some (mkBR lo hi (-1))
        else match parse_int t with Some sz => Some (mkBR lo hi sz) | None => None end
    | _, _ => None
    end.
Proof. exact parse_byte_range_digits. Qed.
Print Assumptions C02_parse_byte_range_digits.

(* strconv.ParseInt (strconv.FormatInt z) = z on int64 *)
Theorem C02_parse_print_int_roundtrip : forall z,
  int64_min <= z <= int64_max -> parse_int (print_int z) = Some z.
Proof. exact parse_print_int_roundtrip. Qed.
Print Assumptions C02_parse_print_int_roundtrip.

(* the headers a client prints parse to the intended byte_range *)
Theorem C02_chunk_header_parses : forall lo hi total,
  0 <= lo <= int64_max -> 0 <= hi <= int64_max ->
  match total with Some T => 0 <= T <= int64_max | None => True end ->
  parse_byte_range (chunk_header lo hi total) = Some (mkBR lo hi (total_value total)).
Proof. exact chunk_header_parses. Qed.
Print Assumptions C02_chunk_header_parses.

Theorem C02_status_header_parses : forall total,
  match total with Some T => 0 <= T <= int64_max | None => True end ->
  parse_byte_range (status_header total) = Some (mkBR (-1) (-1) (total_value total)).
Proof. exact status_header_parses. Qed.
Print Assumptions C02_status_header_parses.

(* hence the requests of a real client (payload length in int64) are consistent steps *)
Theorem C02_chunk_step_consistent : forall P lo len total,
  Z.of_nat (length P) <= int64_max -> (1 <= len)%nat -> (lo + len <= length P)%nat ->
  total = None \/ total = Some (Z.of_nat (length P)) ->
  step_consistent P (chunk_header (Z.of_nat lo) (Z.of_nat lo + Z.of_nat len - 1) total,
                     firstn len (skipn lo P)).
Proof. exact chunk_step_consistent. Qed.
Print Assumptions C02_chunk_step_consistent.

Theorem C02_status_step_consistent : forall P total,
  Z.of_nat (length P) <= int64_max ->
  total = None \/ total = Some (Z.of_nat (length P)) ->
  step_consistent P (status_header total, []).
Proof. exact status_step_consistent. Qed.
Print Assumptions C02_status_step_consistent.

(* FINDINGS (outside C02's hypotheses): the declared total is not checked against the data, and
   a re-send at a lower offset discards the bytes held beyond it *)
Theorem C02_resume_total_smaller_than_data_witness :
  resume_apply [] (mkBR 0 4 3) [1; 2; 3; 4; 5]%N = Some [1; 2; 3; 4; 5]%N
  /\ resume_done (mkBR 0 4 3) [1; 2; 3; 4; 5]%N = true.
Proof. exact resume_total_smaller_than_data_witness. Qed.
Print Assumptions C02_resume_total_smaller_than_data_witness.

Theorem C02_resume_resend_truncates_witness :
  resume_apply [1; 2; 3; 4; 5; 6]%N (mkBR 0 1 (-1)) [1; 2]%N = Some [1; 2]%N.
Proof. exact resume_resend_truncates_witness. Qed.
Print Assumptions C02_resume_resend_truncates_witness.

(* ---- upload, then read ---- *)

Theorem C02_upload_then_get : forall s b n ctype data cp,
  r_status (snd (handle s (RUploadMedia b n ctype data cp))) = 200 ->
  let s' := fst (handle s (RUploadMedia b n ctype data cp)) in
  handle s' (RGetMedia b n) = (s', mkResp 200 (BMedia data ctype (s_clock s + 1) 1))
  /\ exists v, handle s' (RGetMeta b n) = (s', mkResp 200 (BMeta v))
       /\ v_bucket v = b /\ v_name v = n /\ v_size v = Z.of_nat (length data) /\ v_ctype v = ctype
       /\ v_md5 v = 1%N /\ v_metagen v = 1 /\ v_gen v = s_clock s + 1 /\ v_meta v = [].
Proof. exact upload_then_get. Qed.
Print Assumptions C02_upload_then_get.

Theorem C02_multipart_upload_then_get : forall s b m data cp,
  r_status (snd (handle s (RUploadMultipart b m data cp))) = 200 ->
  let s' := fst (handle s (RUploadMultipart b m data cp)) in
  handle s' (RGetMedia b (um_name m)) = (s', mkResp 200 (BMedia data (um_ctype m) (s_clock s + 1) 1))
  /\ exists v, handle s' (RGetMeta b (um_name m)) = (s', mkResp 200 (BMeta v))
       /\ v_size v = Z.of_nat (length data) /\ v_ctype v = um_ctype m
       /\ v_md5 v = 1%N /\ v_metagen v = 1 /\ v_gen v = s_clock s + 1
       /\ v_meta v = merge_meta [] (um_meta m).
Proof. exact multipart_upload_then_get. Qed.
Print Assumptions C02_multipart_upload_then_get.

(* a wrong or malformed declared md5: 400 and the previous state, whatever it held *)
Theorem C02_bad_md5_keeps_previous : forall s b m data cp,
  um_md5 m = 2%N \/ um_md5 m = 3%N ->
  handle s (RUploadMultipart b m data cp) = (s, err 400).
Proof. exact bad_md5_keeps_previous. Qed.
Print Assumptions C02_bad_md5_keeps_previous.

(* an upload without object name is refused with 400 by all three upload paths, in every state,
   and changes nothing *)
Theorem C02_empty_name_rejected : forall s,
  (forall b ct data cp, handle s (RUploadMedia b [] ct data cp) = (s, err 400))
  /\ (forall b m data cp, um_name m = [] -> handle s (RUploadMultipart b m data cp) = (s, err 400))
  /\ (forall b bad m cp, um_name m = [] -> handle s (RResumableInit b bad m cp) = (s, err 400)).
Proof. exact empty_name_rejected. Qed.
Print Assumptions C02_empty_name_rejected.

(* compose and copy refuse a destination name that parses to "" likewise *)
Theorem C02_empty_destination_rejected : forall s,
  (forall b dst bad srcs dm cp, compose_dst dst = Some [] ->
     handle s (RCompose b dst bad srcs dm cp) = (s, err 400))
  /\ (forall b1 n1 b2 n2, copy_dst n1 b2 n2 = Some [] ->
     handle s (RCopy b1 n1 b2 n2) = (s, err 400)).
Proof. exact empty_destination_rejected. Qed.
Print Assumptions C02_empty_destination_rejected.

(* hence no bucket of a reachable state holds an object with the empty name *)
Theorem C02_reachable_names_nonempty : forall rs b bk,
  get_bucket (fst (run init_state rs)) b = Some bk -> ~ In [] (map fst bk).
Proof. exact reachable_names_nonempty. Qed.
Print Assumptions C02_reachable_names_nonempty.

(* ---- until overwritten or deleted ---- *)

Theorem C02_other_objects_untouched : forall s r b' n',
  ~ In (b', n') (targets s r) -> bucket_target r <> Some b' ->
  find_obj (fst (handle s r)) b' n' = find_obj s b' n'.
Proof. exact other_objects_untouched. Qed.
Print Assumptions C02_other_objects_untouched.

Theorem C02_served_until_overwritten : forall rs s b n,
  untouched_run s rs b n -> find_obj (fst (run s rs)) b n = find_obj s b n.
Proof. exact served_until_overwritten. Qed.
Print Assumptions C02_served_until_overwritten.

Theorem C02_state_ok_init : state_ok init_state.
Proof. exact state_ok_init. Qed.
Print Assumptions C02_state_ok_init.

Theorem C02_state_ok_preserved : forall s r, state_ok s -> state_ok (fst (handle s r)).
Proof. exact state_ok_preserved. Qed.
Print Assumptions C02_state_ok_preserved.

Theorem C02_state_ok_run : forall rs s, state_ok s -> state_ok (fst (run s rs)).
Proof. exact state_ok_run. Qed.
Print Assumptions C02_state_ok_run.

Theorem C02_delete_makes_absent : forall s b n cp,
  state_ok s -> r_status (snd (handle s (RDelete b n cp))) = 204 ->
  find_obj (fst (handle s (RDelete b n cp))) b n = None.
Proof. exact delete_makes_absent. Qed.
Print Assumptions C02_delete_makes_absent.

Theorem C02_delete_then_get_404 : forall s b n cp,
  state_ok s -> r_status (snd (handle s (RDelete b n cp))) = 204 ->
  let s' := fst (handle s (RDelete b n cp)) in
  handle s' (RGetMedia b n) = (s', err 404) /\ handle s' (RGetMeta b n) = (s', err 404).
Proof. exact delete_then_get_404. Qed.
Print Assumptions C02_delete_then_get_404.

(* a request answered with an error changes no object (shared with C04) *)
Theorem C02_failed_request_frame : forall s r,
  let '(s', rsp) := handle s r in
  is_success (r_status rsp) = false -> s_buckets s' = s_buckets s /\ s_clock s' = s_clock s.
Proof. exact failed_request_frame. Qed.
Print Assumptions C02_failed_request_frame.

(* non-vacuity: see session_example, resumable_end_to_end_example and upload_get_delete_example
   in GCS/UploadProofs.v (concrete sessions and a concrete two-object state meeting the
   hypotheses above); re-exported here *)
Example C02_nonvacuous_session :
  let P := [104; 101; 108; 108; 111]%N in
  session [] [ (mkBR 0 2 (-1), [104; 101; 108]%N);
               (mkBR (-1) (-1) (-1), []);
               (mkBR 2 4 5, [108; 108; 111]%N) ]
  = [ ([104; 101; 108]%N, false); ([104; 101; 108]%N, false); (P, true) ]
  /\ Forall (fun st => consistent P (fst st) (snd st))
       [ (mkBR 0 2 (-1), [104; 101; 108]%N); (mkBR (-1) (-1) (-1), []); (mkBR 2 4 5, [108; 108; 111]%N) ]
  /\ session [] [ (mkBR (-1) (-1) 0, []) ] = [ ([], true) ]
  /\ consistent [] (mkBR (-1) (-1) 0) [].
Proof. exact session_example. Qed.

(* ====================================================================================== *)
(* ---- URL forms ----
   ParseGcsUrl (storage/gcsemu/parse.go, model GCS/Url.v): the URLs a client builds for a
   bucket b and an object name n parse back to (b, n).  Proofs are in GCS/UrlProofs.v.
   ok_bucket b: non-empty, no '/', no newline;  ok_name n: non-empty, no newline.
   a2b "..." is the byte string of an ASCII literal. *)
From Coq Require String.
Import String.StringSyntax.
From Emu.GCS Require Import Url UrlProofs.

(* JSON API object URL *)
Theorem C02_url_roundtrip_json : forall b n, ok_bucket b = true -> ok_name n = true ->
  parse_gcs_url (a2b "/storage/v1/b/" ++ b ++ a2b "/o/" ++ n) = Some (b, n, false).
Proof. exact url_roundtrip_json. Qed.
Print Assumptions C02_url_roundtrip_json.

(* the same behind any prefix that does not contain "/s" *)
Theorem C02_url_roundtrip_prefixed : forall pre b n,
  prefix_clean pre = true -> ok_bucket b = true -> ok_name n = true ->
  parse_gcs_url (pre ++ a2b "/storage/v1/b/" ++ b ++ a2b "/o/" ++ n) = Some (b, n, false).
Proof. exact url_roundtrip_prefixed. Qed.
Print Assumptions C02_url_roundtrip_prefixed.

Theorem C02_url_roundtrip_download : forall b n, ok_bucket b = true -> ok_name n = true ->
  parse_gcs_url (a2b "/download/storage/v1/b/" ++ b ++ a2b "/o/" ++ n) = Some (b, n, false).
Proof. exact url_roundtrip_download. Qed.
Print Assumptions C02_url_roundtrip_download.

Theorem C02_url_roundtrip_upload : forall b n, ok_bucket b = true -> ok_name n = true ->
  parse_gcs_url (a2b "/upload/storage/v1/b/" ++ b ++ a2b "/o/" ++ n) = Some (b, n, false).
Proof. exact url_roundtrip_upload. Qed.
Print Assumptions C02_url_roundtrip_upload.

(* "/b/<bucket>/o/<name>": guard no_api_fragment n = "/" ++ n does not contain "/storage/v1/b"
   (otherwise patterns 1/2 win: C02_url_roundtrip_b_refuted) *)
Theorem C02_url_roundtrip_b : forall b n,
  ok_bucket b = true -> ok_name n = true -> no_api_fragment n = true ->
  parse_gcs_url (a2b "/b/" ++ b ++ a2b "/o/" ++ n) = Some (b, n, false).
Proof. exact url_roundtrip_b. Qed.
Print Assumptions C02_url_roundtrip_b.

Theorem C02_url_roundtrip_b_refuted :
  let b := a2b "bkt" in let n := a2b "storage/v1/b/other/o/y" in
  ok_bucket b = true /\ ok_name n = true /\ no_api_fragment n = false
  /\ parse_gcs_url (a2b "/b/" ++ b ++ a2b "/o/" ++ n) = Some (a2b "other", a2b "y", false).
Proof. exact url_roundtrip_b_refuted. Qed.
Print Assumptions C02_url_roundtrip_b_refuted.

(* public URL "/<bucket>/<name>".  FULL statement (without public_guard) is false: GCS-8 below.
   public_guard path: path contains neither "/storage/v1/b" nor "/b/" seg "/o" with a non-empty
   slash-free seg (meaning of the two halves: C02_url_guard_api_meaning / _bseg_meaning) *)
Theorem C02_url_roundtrip_public_partial : forall b n,
  ok_bucket b = true -> ok_name n = true ->
  public_guard (a2b "/" ++ b ++ a2b "/" ++ n) = true ->
  parse_gcs_url (a2b "/" ++ b ++ a2b "/" ++ n) = Some (b, n, true).
Proof. exact url_roundtrip_public_partial. Qed.
Print Assumptions C02_url_roundtrip_public_partial.

(* GCS-8: a public URL whose object name contains "/b/other/o/y" is served as another
   bucket/object, not public *)
Theorem C02_url_public_refuted :
  let b := a2b "bkt" in let n := a2b "x/b/other/o/y" in
  ok_bucket b = true /\ ok_name n = true
  /\ public_guard (a2b "/" ++ b ++ a2b "/" ++ n) = false
  /\ parse_gcs_url (a2b "/" ++ b ++ a2b "/" ++ n) = Some (a2b "other", a2b "y", false).
Proof. exact url_public_refuted. Qed.
Print Assumptions C02_url_public_refuted.

(* names without '/' always meet the guard *)
Theorem C02_url_roundtrip_public_flat : forall b n,
  ok_bucket b = true -> ok_name n = true -> forallb not_slash n = true ->
  parse_gcs_url (a2b "/" ++ b ++ a2b "/" ++ n) = Some (b, n, true).
Proof. exact url_roundtrip_public_flat. Qed.
Print Assumptions C02_url_roundtrip_public_flat.

Theorem C02_url_guard_api_meaning : forall s lit,
  contains s lit = true <-> exists p t, s = p ++ lit ++ t.
Proof. exact contains_true_iff. Qed.
Print Assumptions C02_url_guard_api_meaning.

Theorem C02_url_guard_bseg_meaning : forall p,
  has_bseg_o p = true <->
  exists pre seg post, p = pre ++ a2b "/b/" ++ seg ++ a2b "/o" ++ post /\ ok_seg seg = true.
Proof. exact has_bseg_o_iff. Qed.
Print Assumptions C02_url_guard_bseg_meaning.

(* bucket URLs: "/storage/v1/b/<bucket>" and "/storage/v1/b/<bucket>/o" *)
Theorem C02_url_bucket_forms : forall b, ok_bucket b = true ->
  parse_gcs_url (a2b "/storage/v1/b/" ++ b) = Some (b, [], false)
  /\ parse_gcs_url (a2b "/storage/v1/b/" ++ b ++ a2b "/o") = Some (b, [], false).
Proof. exact url_bucket_forms. Qed.
Print Assumptions C02_url_bucket_forms.

(* ok_name is needed: '.' stops at a newline, the object name is silently truncated *)
Theorem C02_url_newline_truncates :
  let b := a2b "bkt" in let n := [97; 10; 98]%N in
  ok_bucket b = true /\ ok_name n = false
  /\ parse_gcs_url (a2b "/storage/v1/b/" ++ b ++ a2b "/o/" ++ n) = Some (b, [97%N], false)
  /\ parse_gcs_url (a2b "/" ++ b ++ a2b "/" ++ n) = Some (b, [97%N], true).
Proof. exact url_newline_truncates. Qed.
Print Assumptions C02_url_newline_truncates.

Theorem C02_url_newline_truncates_general : forall b n1 n2,
  ok_bucket b = true -> forallb not_nl n1 = true ->
  parse_gcs_url (a2b "/storage/v1/b/" ++ b ++ a2b "/o/" ++ n1 ++ 10%N :: n2) = Some (b, n1, false).
Proof. exact url_newline_truncates_general. Qed.
Print Assumptions C02_url_newline_truncates_general.

(* the correspondence checker answers [] exactly when every observed result is the model's *)
Theorem C02_check_urls_sound : forall l,
  check_urls l = [] <-> Forall (fun pr => parse_gcs_url (fst pr) = snd pr) l.
Proof. exact check_urls_sound. Qed.
Print Assumptions C02_check_urls_sound.

(* non-vacuity: a realistic bucket and nested name meet every guard above *)
Example C02_url_guards_nonvacuous :
  let b := a2b "my-bucket" in let n := a2b "dir/sub dir/2013-tax-returns.pdf" in
  ok_bucket b = true /\ ok_name n = true /\ no_api_fragment n = true
  /\ prefix_clean (a2b "/download") = true /\ prefix_clean (a2b "/upload") = true
  /\ public_guard (a2b "/" ++ b ++ a2b "/" ++ n) = true
  /\ parse_gcs_url (a2b "/" ++ b ++ a2b "/" ++ n) = Some (b, n, true)
  /\ parse_gcs_url (a2b "/b/" ++ b ++ a2b "/o/" ++ n) = Some (b, n, false)
  /\ parse_gcs_url (a2b "/download/storage/v1/b/" ++ b ++ a2b "/o/" ++ n) = Some (b, n, false).
Proof. exact url_guards_example. Qed.

(* the quirks of the unanchored patterns, computed *)
Example C02_url_quirks :
  parse_gcs_url (a2b "/storage/v1/b/bkt/o2/x") = Some (a2b "bkt", [], false)
  /\ parse_gcs_url (a2b "/storage/v1/b//o/x") = Some ([], [], false)
  /\ parse_gcs_url (a2b "/storage/v1/b") = Some ([], [], false)
  /\ parse_gcs_url (a2b "/bkt") = None
  /\ parse_gcs_url (a2b "/") = None.
Proof. vm_compute. repeat split. Qed.

(* GCS-18 repaired: object names are non-empty valid UTF-8 in every state reachable through the name
   check in front of the handlers (Wire.v) *)
From Emu.Common Require Import Utf8.
From Emu.GCS Require Import Wire WireProofs.
Theorem C02_wire_names_utf8 : forall rs b bk n o,
  get_bucket (fst (run_wire init_state rs)) b = Some bk -> In (n, o) bk -> utf8_valid n = true.
Proof. exact wire_reachable_names_utf8. Qed.
Print Assumptions C02_wire_names_utf8.

Theorem C02_wire_names_nonempty : forall rs b bk,
  get_bucket (fst (run_wire init_state rs)) b = Some bk -> ~ In [] (map fst bk).
Proof. exact wire_reachable_names_nonempty. Qed.
Print Assumptions C02_wire_names_nonempty.

(* The file store's (bucket, name) -> files mapping (GCS/FsPaths.v, tied to filestore.go by listing
   what Add creates): different storable names of a bucket, and objects of different buckets, share
   neither content file nor sidecar; a name ending in the sidecar extension is refused *)
From Emu.GCS Require Import FsPaths FsPathsProofs.
Theorem C02_files_apart : forall b n1 n2,
  storable n1 = true -> storable n2 = true -> n1 <> n2 ->
  forall f, In f [content_file b n1; sidecar_file b n1] -> In f [content_file b n2; sidecar_file b n2] -> False.
Proof. exact files_apart. Qed.
Print Assumptions C02_files_apart.

Theorem C02_buckets_apart : forall b1 b2 n1 n2,
  bucket_ok b1 = true -> bucket_ok b2 = true -> storable n1 = true -> storable n2 = true -> b1 <> b2 ->
  forall f, In f [content_file b1 n1; sidecar_file b1 n1] -> In f [content_file b2 n2; sidecar_file b2 n2] -> False.
Proof. exact buckets_apart. Qed.
Print Assumptions C02_buckets_apart.

Theorem C02_sidecar_names_refused : forall b n, add_files b (n ++ s_meta_ext) = None.
Proof. exact sidecar_names_refused. Qed.
Print Assumptions C02_sidecar_names_refused.

Theorem C02_add_files_shape : forall b n fs,
  add_files b n = Some fs -> fs = [content_file b n; sidecar_file b n] /\ storable n = true /\ bucket_ok b = true.
Proof. exact add_files_shape. Qed.
Print Assumptions C02_add_files_shape.

Example C02_siblings_apart : forall b f,
  In f [content_file b n_report; sidecar_file b n_report] ->
  In f [content_file b (n_report ++ x_tmp); sidecar_file b (n_report ++ x_tmp)] -> False.
Proof. exact siblings_apart. Qed.

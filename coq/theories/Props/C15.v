(* C15 — GCS: compose concatenates, copy clones.
   Only statements here; proofs are in GCS/ComposeProofs.v. *)
From Coq Require Import List NArith ZArith Bool.
Import ListNotations.
From Emu.Common Require Import Bytes Str.
From Emu.Gen Require Import Consts.
From Emu.GCS Require Import Model UploadProofs ComposeProofs.
Local Open Scope Z_scope.

(* a well-formed compose whose sources all exist and pass their generation condition (in the
   state BEFORE the request) and whose destination preconditions pass: 200, the destination is
   the concatenation in request order of the sources' contents before the request (repeated
   sources and the destination among the sources included), md5 absent, metageneration 1,
   fresh generation; every other object (so every source but the destination) is untouched *)
Theorem C15_compose_concat : forall s b dst srcs dm cp c,
  resolve_conds s cp = Some c ->
  contains dst s_compose = false -> dst <> [] ->
  Z.of_nat (length srcs) <= gcsMaxComposeSources ->
  Forall (src_usable s b) srcs ->
  validate_conds (obj_gens (find_obj s b dst)) c = VPass ->
  let s' := fst (handle s (RCompose b dst false srcs dm cp)) in
  let rsp := snd (handle s (RCompose b dst false srcs dm cp)) in
  let o' := mkObj (flat_map (src_data s b) srcs) (dm_ctype dm) (s_clock s + 1) 1 false (dm_meta dm) in
  rsp = mkResp 200 (BMeta (view b dst o'))
  /\ find_obj s' b dst = Some o'
  /\ forall b' n', (b', n') <> (b, dst) -> find_obj s' b' n' = find_obj s b' n'.
Proof. exact compose_concat. Qed.
Print Assumptions C15_compose_concat.

(* conversely a compose answered 200 is always that case *)
Theorem C15_compose_200_inv : forall s b dst bad srcs dm cp,
  r_status (snd (handle s (RCompose b dst bad srcs dm cp))) = 200 ->
  exists dstname x,
    split (dst ++ s_compose) s_compose = [dstname; x]
    /\ Forall (src_usable s b) srcs
    /\ fst (handle s (RCompose b dst bad srcs dm cp))
       = store_add s b dstname (flat_map (src_data s b) srcs) (dm_ctype dm) false (dm_meta dm).
Proof. exact compose_200_inv. Qed.
Print Assumptions C15_compose_200_inv.

(* the destination name is what precedes "/compose" *)
Theorem C15_split_compose : forall dst,
  contains dst s_compose = false -> split (dst ++ s_compose) s_compose = [dst; []].
Proof. exact split_compose. Qed.
Print Assumptions C15_split_compose.

(* more than gcsMaxComposeSources sources: 400 whatever else the request says, state unchanged *)
Theorem C15_compose_too_many_400 : forall s b dst bad srcs dm cp,
  Z.of_nat (length srcs) > gcsMaxComposeSources ->
  handle s (RCompose b dst bad srcs dm cp) = (s, err 400).
Proof. exact compose_too_many_400. Qed.
Print Assumptions C15_compose_too_many_400.

(* a missing source (all sources before it usable): 404, state unchanged *)
Theorem C15_compose_missing_source_404 : forall s b dst pre sc post dm cp c,
  resolve_conds s cp = Some c ->
  contains dst s_compose = false -> dst <> [] ->
  Z.of_nat (length (pre ++ sc :: post)) <= gcsMaxComposeSources ->
  Forall (src_usable s b) pre -> find_obj s b (fst sc) = None ->
  handle s (RCompose b dst false (pre ++ sc :: post) dm cp) = (s, err 404).
Proof. exact compose_missing_source_404. Qed.
Print Assumptions C15_compose_missing_source_404.

(* an unusable source anywhere: an error and the state unchanged *)
Theorem C15_compose_unusable_source_fails : forall s b dst bad srcs dm cp sc,
  In sc srcs -> ~ src_usable s b sc ->
  fst (handle s (RCompose b dst bad srcs dm cp)) = s
  /\ In (r_status (snd (handle s (RCompose b dst bad srcs dm cp)))) [400; 404; 412; 304].
Proof. exact compose_unusable_source_fails. Qed.
Print Assumptions C15_compose_unusable_source_fails.

(* copy: the destination gets the source's data, content type, md5 flag and metadata, a fresh
   generation and metageneration 1; everything else (the source, if different) is untouched *)
Theorem C15_copy_clones : forall s b1 n1 b2 n2 f1 rest b2' f2 o,
  contains (n1 ++ s_rewrite_b ++ b2 ++ s_o ++ n2) s_compose = false ->
  split (n1 ++ s_rewrite_b ++ b2 ++ s_o ++ n2) s_rewrite_b = [f1; rest] ->
  split2 rest s_o = [b2'; f2] -> f2 <> [] ->
  find_obj s b1 f1 = Some o ->
  let s' := fst (handle s (RCopy b1 n1 b2 n2)) in
  let rsp := snd (handle s (RCopy b1 n1 b2 n2)) in
  let o' := mkObj (o_data o) (o_ctype o) (s_clock s + 1) 1 (o_md5 o) (o_meta o) in
  rsp = mkResp 200 (BRewrite (view b2' f2 o'))
  /\ find_obj s' b2' f2 = Some o'
  /\ forall b' n', (b', n') <> (b2', f2) -> find_obj s' b' n' = find_obj s b' n'.
Proof. exact copy_clones. Qed.
Print Assumptions C15_copy_clones.

Theorem C15_copy_source_untouched : forall s b1 n1 b2 n2 f1 rest b2' f2 o,
  contains (n1 ++ s_rewrite_b ++ b2 ++ s_o ++ n2) s_compose = false ->
  split (n1 ++ s_rewrite_b ++ b2 ++ s_o ++ n2) s_rewrite_b = [f1; rest] ->
  split2 rest s_o = [b2'; f2] -> f2 <> [] ->
  find_obj s b1 f1 = Some o -> (b1, f1) <> (b2', f2) ->
  find_obj (fst (handle s (RCopy b1 n1 b2 n2))) b1 f1 = Some o.
Proof. exact copy_source_untouched. Qed.
Print Assumptions C15_copy_source_untouched.

Theorem C15_copy_missing_404 : forall s b1 n1 b2 n2 f1 rest b2' f2,
  contains (n1 ++ s_rewrite_b ++ b2 ++ s_o ++ n2) s_compose = false ->
  split (n1 ++ s_rewrite_b ++ b2 ++ s_o ++ n2) s_rewrite_b = [f1; rest] ->
  split2 rest s_o = [b2'; f2] -> f2 <> [] ->
  find_obj s b1 f1 = None ->
  handle s (RCopy b1 n1 b2 n2) = (s, err 404).
Proof. exact copy_missing_404. Qed.
Print Assumptions C15_copy_missing_404.

Theorem C15_copy_200_inv : forall s b1 n1 b2 n2,
  r_status (snd (handle s (RCopy b1 n1 b2 n2))) = 200 ->
  exists f1 rest b2' f2 o,
    split (n1 ++ s_rewrite_b ++ b2 ++ s_o ++ n2) s_rewrite_b = [f1; rest]
    /\ split2 rest s_o = [b2'; f2] /\ find_obj s b1 f1 = Some o
    /\ fst (handle s (RCopy b1 n1 b2 n2)) = store_add s b2' f2 (o_data o) (o_ctype o) (o_md5 o) (o_meta o).
Proof. exact copy_200_inv. Qed.
Print Assumptions C15_copy_200_inv.

(* a destination name that parses to "" is refused by both handlers (400 "missing destination object
   name"), in every state, and nothing changes; this is the case the theorems above exclude with
   dst <> [] / f2 <> [] *)
Theorem C15_empty_destination_rejected : forall s,
  (forall b dst bad srcs dm cp, compose_dst dst = Some [] ->
     handle s (RCompose b dst bad srcs dm cp) = (s, err 400))
  /\ (forall b1 n1 b2 n2, copy_dst n1 b2 n2 = Some [] ->
     handle s (RCopy b1 n1 b2 n2) = (s, err 400)).
Proof. exact empty_destination_rejected. Qed.
Print Assumptions C15_empty_destination_rejected.

(* the requests that used to store an object named "": 400 now, nothing stored *)
Example C15_empty_destination_rejected_example :
  let cp := mkCP (PRaw []) (PRaw []) (PRaw []) (PRaw []) in
  let bk := [98]%N in
  let r1 := RCompose bk [] false [] None cp in
  let rs2 := [RUploadMedia bk [97]%N [116]%N [1]%N cp; RCopy bk [97]%N bk []] in
  compose_dst [] = Some [] /\ copy_dst [97]%N bk [] = Some []
  /\ map r_status (snd (run init_state [r1])) = [400]
  /\ get_bucket (fst (run init_state [r1])) bk = None
  /\ map r_status (snd (run init_state rs2)) = [200; 400]
  /\ option_map (map fst) (get_bucket (fst (run init_state rs2)) bk) = Some [[97]%N].
Proof. exact empty_destination_rejected_example. Qed.

(* non-vacuity: see compose_copy_example in GCS/ComposeProofs.v (x ++ y ++ x composed into x,
   a 404, a 33-source 400, a copy and a copy of a missing object on a concrete state) *)
Example C15_nonvacuous :
  let cp := mkCP (PRaw []) (PRaw []) (PRaw []) (PRaw []) in
  let bk := [98]%N in
  let s := fst (run init_state [RUploadMedia bk [120]%N [116]%N [1; 2]%N cp;
                                RUploadMedia bk [121]%N [116]%N [3]%N cp]) in
  let srcs := [([120]%N, PRaw []); ([121]%N, PGen bk [121]%N 0); ([120]%N, PRaw [])] in
  Forall (src_usable s bk) srcs
  /\ option_map o_data (find_obj (fst (handle s (RCompose bk [120]%N false srcs None cp))) bk [120]%N)
     = Some [1; 2; 3; 1; 2]%N.
Proof. cbn zeta. split; [apply compose_copy_example|apply compose_copy_example]. Qed.

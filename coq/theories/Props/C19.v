(* C19 — gcsutil lock map: mutual exclusion, cancellation safety, no deadlock, no leak.
   Statements only; the model is Lock/LockExec.v, the proofs are in Lock/LockExecProofs.v.
   [reachable n s]: s is reached from the initial state with n threads by any sequence of
   ACall / AStep / ACancel actions in which Unlock(k) is only called by the holder of k
   (without that discipline mutual exclusion is false of the code:
   ex_undisciplined_unlock_breaks_mutex).  n, the keys and the length are arbitrary. *)
From Coq Require Import List Arith Bool.
Import ListNotations.
From Emu.Lock Require Import LockExec LockExecProofs.

(* the inductive invariant holds in every reachable state *)
Theorem C19_lm_invariant : forall n s, reachable n s -> Inv s.
Proof. exact lm_invariant. Qed.
Print Assumptions C19_lm_invariant.

(* every disciplined schedule run by the executable model from the initial state is reachable *)
Theorem C19_reachable_run : forall n acts, run_disc (init n) acts = true -> reachable n (fst (run (init n) acts)).
Proof. exact reachable_run. Qed.
Print Assumptions C19_reachable_run.

(* at most one thread is between a successful acquisition of k and the receive of its Unlock *)
Theorem C19_lm_mutual_exclusion : forall n s k, reachable n s -> holders k s <= 1.
Proof. exact lm_mutual_exclusion. Qed.
Print Assumptions C19_lm_mutual_exclusion.

(* Lock returns true only by the send alternative of the select: the thread becomes the one
   holder, on the object mapped from the key, and the channel goes from empty to full *)
Theorem C19_lm_lock_true_acquires : forall n s a s',
  reachable n s -> step s a = (s', ORet true) ->
  exists t c k i, a = AStep t c
    /\ nth_error (thr s) t = Some (L2b k i) /\ nth_error (thr s') t = Some (Held k i)
    /\ mp s' k = Some i /\ full s i = false /\ full s' i = true
    /\ holders k s = 0 /\ holders k s' = 1.
Proof. exact lm_lock_true_acquires. Qed.
Print Assumptions C19_lm_lock_true_acquires.

(* ... and a thread becomes a holder by no other step *)
Theorem C19_lm_lock_true_iff_acquired : forall n s a,
  reachable n s -> disciplined s a = true ->
  (snd (step s a) = ORet true
   <-> exists t k i, nth_error (thr (fst (step s a))) t = Some (Held k i) /\ nth_error (thr s) t <> Some (Held k i)).
Proof. exact lm_lock_true_iff_acquired. Qed.
Print Assumptions C19_lm_lock_true_iff_acquired.

(* Lock returns false only with an ended context; the thread holds nothing, channels are
   untouched, its refcount contribution is removed, the entry goes with the last user *)
Theorem C19_lm_cancel_holds_nothing : forall n s a s',
  reachable n s -> step s a = (s', ORet false) ->
  exists t c k i, a = AStep t c
    /\ nth_error (thr s) t = Some (L3 k i) /\ canc s t = true
    /\ nth_error (thr s') t = Some Idle
    /\ (forall j, full s' j = full s j)
    /\ S (rc s' i) = rc s i /\ (forall j, j <> i -> rc s' j = rc s j)
    /\ (forall k', holders k' s' = holders k' s)
    /\ (forall k', holds_key k' (L3 k i) = false)
    /\ (rc s i = 1 -> mp s' k = None)
    /\ (forall k', k' <> k -> mp s' k' = mp s k').
Proof. exact lm_cancel_holds_nothing. Qed.
Print Assumptions C19_lm_cancel_holds_nothing.

(* the give-up steps themselves touch no channel, refcount or entry *)
Theorem C19_lm_giveup_touches_nothing : forall s t c k i s',
  (nth_error (thr s) t = Some (L2a k i) \/ nth_error (thr s) t = Some (L2b k i)) ->
  step s (AStep t c) = (s', OStepped) ->
  (forall j, full s' j = full s j) /\ (forall j, rc s' j = rc s j) /\ (forall k', mp s' k' = mp s k').
Proof. exact lm_giveup_touches_nothing. Qed.
Print Assumptions C19_lm_giveup_touches_nothing.

(* the holder's receive never fails, and afterwards every thread waiting for that key is enabled
   and acquires (unless it is cancelled and prefers to give up) *)
Theorem C19_lm_no_lost_wakeup : forall n s h k j c,
  reachable n s -> nth_error (thr s) h = Some (U2 k j true) ->
  snd (step s (AStep h c)) = OStepped
  /\ forall w i c', nth_error (thr (fst (step s (AStep h c)))) w = Some (L2b k i) ->
       progress (snd (step (fst (step s (AStep h c))) (AStep w c'))) = true
       /\ (canc s w = false \/ c' = true -> snd (step (fst (step s (AStep h c))) (AStep w c')) = ORet true).
Proof. exact lm_no_lost_wakeup. Qed.
Print Assumptions C19_lm_no_lost_wakeup.

(* a step on key k leaves the entry, lock object, threads and enabledness of any other key alone *)
Theorem C19_lm_independent_keys : forall n s t c k k',
  reachable n s -> thread_key s t = Some k -> k' <> k ->
  mp (fst (step s (AStep t c))) k' = mp s k'
  /\ (forall i', mp s k' = Some i' ->
        full (fst (step s (AStep t c))) i' = full s i' /\ rc (fst (step s (AStep t c))) i' = rc s i')
  /\ (forall u, u <> t -> nth_error (thr (fst (step s (AStep t c)))) u = nth_error (thr s) u)
  /\ (forall u, canc (fst (step s (AStep t c))) u = canc s u)
  /\ (forall u c', u <> t -> thread_key s u = Some k' ->
        snd (step (fst (step s (AStep t c))) (AStep u c')) = snd (step s (AStep u c'))).
Proof. exact lm_independent_keys. Qed.
Print Assumptions C19_lm_independent_keys.

(* Unlock of a key nobody holds panics and the state is exactly what it was *)
Theorem C19_lm_unlock_unheld_panics : forall n s t k c1 c2,
  reachable n s -> nth_error (thr s) t = Some Idle -> holders k s = 0 ->
  exists s' outs, run s [ACall t (Unlock k); AStep t c1; AStep t c2] = (s', outs)
    /\ In OPanic outs /\ same_shared s s' /\ thr s' = thr s.
Proof. exact lm_unlock_unheld_panics. Qed.
Print Assumptions C19_lm_unlock_unheld_panics.

(* step level, any state: no entry at U1 / empty channel at U2 => panic, shared state untouched *)
Theorem C19_lm_unlock_step_panics : forall s t c,
  (forall k g, nth_error (thr s) t = Some (U1 k g) -> mp s k = None ->
     step s (AStep t c) = (set_pc s t Idle, OPanic))
  /\ (forall k j own, nth_error (thr s) t = Some (U2 k j own) -> full s j = false ->
     step s (AStep t c) = (set_pc s t Idle, OPanic))
  /\ same_shared s (set_pc s t Idle).
Proof. exact lm_unlock_step_panics. Qed.
Print Assumptions C19_lm_unlock_step_panics.

(* disciplined callers never see a panic (in particular the refcount never drops below zero) *)
Theorem C19_lm_no_panic : forall n s a, reachable n s -> disciplined s a = true -> snd (step s a) <> OPanic.
Proof. exact lm_no_panic. Qed.
Print Assumptions C19_lm_no_panic.

(* all threads idle (none inside a call, none holding) => the map has no entries *)
Theorem C19_lm_no_leak : forall n s,
  reachable n s -> Forall (fun p => p = Idle) (thr s) -> (forall k, mp s k = None) /\ map_size s = 0.
Proof. exact lm_no_leak. Qed.
Print Assumptions C19_lm_no_leak.

(* an entry exists exactly while some thread is between its L1 and its L3/U3 on that key *)
Theorem C19_lm_entry_iff_referenced : forall n s k,
  reachable n s ->
  (mp s k <> None <-> exists t p i, nth_error (thr s) t = Some p /\ refs k i p = true).
Proof. exact lm_entry_iff_referenced. Qed.
Print Assumptions C19_lm_entry_iff_referenced.

(* if some thread is inside a call, then some internal step is enabled, or the only obstacle is
   a holder that has not called Unlock yet — and that call is enabled and disciplined *)
Theorem C19_lm_no_deadlock : forall n s,
  reachable n s ->
  (exists t p, nth_error (thr s) t = Some p /\ quiescent p = false) ->
  (exists t c, progress (snd (step s (AStep t c))) = true)
  \/ (exists w h k i, nth_error (thr s) w = Some (L2b k i) /\ nth_error (thr s) h = Some (Held k i)
        /\ disciplined s (ACall h (Unlock k)) = true
        /\ snd (step s (ACall h (Unlock k))) = OStepped).
Proof. exact lm_no_deadlock. Qed.
Print Assumptions C19_lm_no_deadlock.

(* non-vacuity: concrete 3-thread, 2-key runs *)
Example C19_ex_cancel_run :
  run_disc (init 3) ex_sched1 = true
  /\ snd (run (init 3) ex_sched1) =
       [OStepped; OStepped; OStepped; ORet true;
        OStepped; OStepped; OStepped; OBlocked;
        OStepped; OStepped; OStepped; ORet true;
        OStepped; OStepped; ORet false;
        OStepped; OStepped; OStepped; ODone;
        OStepped; OStepped; OStepped; ODone]
  /\ map_size (fst (run (init 3) ex_sched1)) = 0
  /\ thr (fst (run (init 3) ex_sched1)) = [Idle; Idle; Idle].
Proof. exact ex_cancel_run. Qed.
Print Assumptions C19_ex_cancel_run.

Example C19_ex_undisciplined_unlock_breaks_mutex :
  run_disc (init 3) ex_sched_rogue = false
  /\ holders 0 (fst (run (init 3) ex_sched_rogue)) = 2.
Proof. exact ex_undisciplined_unlock_breaks_mutex. Qed.
Print Assumptions C19_ex_undisciplined_unlock_breaks_mutex.

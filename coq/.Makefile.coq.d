theories/BT/RowSet.vo theories/BT/RowSet.glob theories/BT/RowSet.v.beautified theories/BT/RowSet.required_vo: theories/BT/RowSet.v theories/Common/Bytes.vo
theories/BT/RowSet.vio: theories/BT/RowSet.v theories/Common/Bytes.vio
theories/BT/RowSet.vos theories/BT/RowSet.vok theories/BT/RowSet.required_vos: theories/BT/RowSet.v theories/Common/Bytes.vos
theories/BT/RowSetProofs.vo theories/BT/RowSetProofs.glob theories/BT/RowSetProofs.v.beautified theories/BT/RowSetProofs.required_vo: theories/BT/RowSetProofs.v theories/Common/Bytes.vo theories/BT/RowSet.vo
theories/BT/RowSetProofs.vio: theories/BT/RowSetProofs.v theories/Common/Bytes.vio theories/BT/RowSet.vio
theories/BT/RowSetProofs.vos theories/BT/RowSetProofs.vok theories/BT/RowSetProofs.required_vos: theories/BT/RowSetProofs.v theories/Common/Bytes.vos theories/BT/RowSet.vos
theories/Common/Bytes.vo theories/Common/Bytes.glob theories/Common/Bytes.v.beautified theories/Common/Bytes.required_vo: theories/Common/Bytes.v 
theories/Common/Bytes.vio: theories/Common/Bytes.v 
theories/Common/Bytes.vos theories/Common/Bytes.vok theories/Common/Bytes.required_vos: theories/Common/Bytes.v 
theories/Common/Mutex.vo theories/Common/Mutex.glob theories/Common/Mutex.v.beautified theories/Common/Mutex.required_vo: theories/Common/Mutex.v 
theories/Common/Mutex.vio: theories/Common/Mutex.v 
theories/Common/Mutex.vos theories/Common/Mutex.vok theories/Common/Mutex.required_vos: theories/Common/Mutex.v 
theories/Common/MutexProofs.vo theories/Common/MutexProofs.glob theories/Common/MutexProofs.v.beautified theories/Common/MutexProofs.required_vo: theories/Common/MutexProofs.v theories/Common/Mutex.vo
theories/Common/MutexProofs.vio: theories/Common/MutexProofs.v theories/Common/Mutex.vio
theories/Common/MutexProofs.vos theories/Common/MutexProofs.vok theories/Common/MutexProofs.required_vos: theories/Common/MutexProofs.v theories/Common/Mutex.vos
theories/Common/Str.vo theories/Common/Str.glob theories/Common/Str.v.beautified theories/Common/Str.required_vo: theories/Common/Str.v theories/Common/Bytes.vo
theories/Common/Str.vio: theories/Common/Str.v theories/Common/Bytes.vio
theories/Common/Str.vos theories/Common/Str.vok theories/Common/Str.required_vos: theories/Common/Str.v theories/Common/Bytes.vos
theories/Common/StrProofs.vo theories/Common/StrProofs.glob theories/Common/StrProofs.v.beautified theories/Common/StrProofs.required_vo: theories/Common/StrProofs.v theories/Common/Bytes.vo theories/Common/Str.vo
theories/Common/StrProofs.vio: theories/Common/StrProofs.v theories/Common/Bytes.vio theories/Common/Str.vio
theories/Common/StrProofs.vos theories/Common/StrProofs.vok theories/Common/StrProofs.required_vos: theories/Common/StrProofs.v theories/Common/Bytes.vos theories/Common/Str.vos
theories/GCS/Check.vo theories/GCS/Check.glob theories/GCS/Check.v.beautified theories/GCS/Check.required_vo: theories/GCS/Check.v theories/Common/Bytes.vo theories/Common/Str.vo theories/GCS/Model.vo
theories/GCS/Check.vio: theories/GCS/Check.v theories/Common/Bytes.vio theories/Common/Str.vio theories/GCS/Model.vio
theories/GCS/Check.vos theories/GCS/Check.vok theories/GCS/Check.required_vos: theories/GCS/Check.v theories/Common/Bytes.vos theories/Common/Str.vos theories/GCS/Model.vos
theories/GCS/CondsProofs.vo theories/GCS/CondsProofs.glob theories/GCS/CondsProofs.v.beautified theories/GCS/CondsProofs.required_vo: theories/GCS/CondsProofs.v theories/Common/Bytes.vo theories/Common/Str.vo theories/GCS/Model.vo theories/GCS/CondsSpec.vo
theories/GCS/CondsProofs.vio: theories/GCS/CondsProofs.v theories/Common/Bytes.vio theories/Common/Str.vio theories/GCS/Model.vio theories/GCS/CondsSpec.vio
theories/GCS/CondsProofs.vos theories/GCS/CondsProofs.vok theories/GCS/CondsProofs.required_vos: theories/GCS/CondsProofs.v theories/Common/Bytes.vos theories/Common/Str.vos theories/GCS/Model.vos theories/GCS/CondsSpec.vos
theories/GCS/CondsSpec.vo theories/GCS/CondsSpec.glob theories/GCS/CondsSpec.v.beautified theories/GCS/CondsSpec.required_vo: theories/GCS/CondsSpec.v theories/GCS/Model.vo
theories/GCS/CondsSpec.vio: theories/GCS/CondsSpec.v theories/GCS/Model.vio
theories/GCS/CondsSpec.vos theories/GCS/CondsSpec.vok theories/GCS/CondsSpec.required_vos: theories/GCS/CondsSpec.v theories/GCS/Model.vos
theories/GCS/HandlerProofs.vo theories/GCS/HandlerProofs.glob theories/GCS/HandlerProofs.v.beautified theories/GCS/HandlerProofs.required_vo: theories/GCS/HandlerProofs.v theories/Common/Bytes.vo theories/Common/Str.vo theories/GCS/Model.vo theories/GCS/CondsSpec.vo theories/GCS/CondsProofs.vo theories/GCS/StoreProofs.vo
theories/GCS/HandlerProofs.vio: theories/GCS/HandlerProofs.v theories/Common/Bytes.vio theories/Common/Str.vio theories/GCS/Model.vio theories/GCS/CondsSpec.vio theories/GCS/CondsProofs.vio theories/GCS/StoreProofs.vio
theories/GCS/HandlerProofs.vos theories/GCS/HandlerProofs.vok theories/GCS/HandlerProofs.required_vos: theories/GCS/HandlerProofs.v theories/Common/Bytes.vos theories/Common/Str.vos theories/GCS/Model.vos theories/GCS/CondsSpec.vos theories/GCS/CondsProofs.vos theories/GCS/StoreProofs.vos
theories/GCS/Model.vo theories/GCS/Model.glob theories/GCS/Model.v.beautified theories/GCS/Model.required_vo: theories/GCS/Model.v theories/Common/Bytes.vo theories/Common/Str.vo theories/Gen/Consts.vo
theories/GCS/Model.vio: theories/GCS/Model.v theories/Common/Bytes.vio theories/Common/Str.vio theories/Gen/Consts.vio
theories/GCS/Model.vos theories/GCS/Model.vok theories/GCS/Model.required_vos: theories/GCS/Model.v theories/Common/Bytes.vos theories/Common/Str.vos theories/Gen/Consts.vos
theories/GCS/StoreProofs.vo theories/GCS/StoreProofs.glob theories/GCS/StoreProofs.v.beautified theories/GCS/StoreProofs.required_vo: theories/GCS/StoreProofs.v theories/Common/Bytes.vo theories/Common/Str.vo theories/Common/StrProofs.vo theories/GCS/Model.vo
theories/GCS/StoreProofs.vio: theories/GCS/StoreProofs.v theories/Common/Bytes.vio theories/Common/Str.vio theories/Common/StrProofs.vio theories/GCS/Model.vio
theories/GCS/StoreProofs.vos theories/GCS/StoreProofs.vok theories/GCS/StoreProofs.required_vos: theories/GCS/StoreProofs.v theories/Common/Bytes.vos theories/Common/Str.vos theories/Common/StrProofs.vos theories/GCS/Model.vos
theories/Gen/Consts.vo theories/Gen/Consts.glob theories/Gen/Consts.v.beautified theories/Gen/Consts.required_vo: theories/Gen/Consts.v 
theories/Gen/Consts.vio: theories/Gen/Consts.v 
theories/Gen/Consts.vos theories/Gen/Consts.vok theories/Gen/Consts.required_vos: theories/Gen/Consts.v 
theories/Lock/LockMap.vo theories/Lock/LockMap.glob theories/Lock/LockMap.v.beautified theories/Lock/LockMap.required_vo: theories/Lock/LockMap.v 
theories/Lock/LockMap.vio: theories/Lock/LockMap.v 
theories/Lock/LockMap.vos theories/Lock/LockMap.vok theories/Lock/LockMap.required_vos: theories/Lock/LockMap.v 
theories/Lock/LockMapProofs.vo theories/Lock/LockMapProofs.glob theories/Lock/LockMapProofs.v.beautified theories/Lock/LockMapProofs.required_vo: theories/Lock/LockMapProofs.v theories/Lock/LockMap.vo
theories/Lock/LockMapProofs.vio: theories/Lock/LockMapProofs.v theories/Lock/LockMap.vio
theories/Lock/LockMapProofs.vos theories/Lock/LockMapProofs.vok theories/Lock/LockMapProofs.required_vos: theories/Lock/LockMapProofs.v theories/Lock/LockMap.vos
theories/Props/C04.vo theories/Props/C04.glob theories/Props/C04.v.beautified theories/Props/C04.required_vo: theories/Props/C04.v theories/Common/Bytes.vo theories/Common/Str.vo theories/GCS/Model.vo theories/GCS/CondsSpec.vo theories/GCS/CondsProofs.vo theories/GCS/HandlerProofs.vo
theories/Props/C04.vio: theories/Props/C04.v theories/Common/Bytes.vio theories/Common/Str.vio theories/GCS/Model.vio theories/GCS/CondsSpec.vio theories/GCS/CondsProofs.vio theories/GCS/HandlerProofs.vio
theories/Props/C04.vos theories/Props/C04.vok theories/Props/C04.required_vos: theories/Props/C04.v theories/Common/Bytes.vos theories/Common/Str.vos theories/GCS/Model.vos theories/GCS/CondsSpec.vos theories/GCS/CondsProofs.vos theories/GCS/HandlerProofs.vos

#!/bin/sh
# regenerate _CoqProject / Makefile.coq from the files present and build (full .vo build)
cd "$(dirname "$0")"
{
  echo "-Q theories Emu"
  echo "-arg -w -arg -notation-overridden,-deprecated-hint-without-locality,-deprecated-instance-without-locality"
  find theories -name '*.v' | sort
} > _CoqProject.new
if ! cmp -s _CoqProject.new _CoqProject; then mv _CoqProject.new _CoqProject; coq_makefile -f _CoqProject -o Makefile.coq >/dev/null; else rm _CoqProject.new; fi
[ -f Makefile.coq ] || coq_makefile -f _CoqProject -o Makefile.coq >/dev/null
exec timeout 3000 make -f Makefile.coq -j16 "$@"

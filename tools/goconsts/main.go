// goconsts regenerates coq/theories/Gen/Consts.v from the Go sources of /repo: the named
// constants and the literals the theorems mention.  Standard library only (go/parser, go/ast).
package main

import (
	"fmt"
	"go/ast"
	"go/parser"
	"go/token"
	"math/big"
	"os"
	"sort"
	"strings"
)

type env map[string]*big.Int

var builtin = env{
	"math.MaxInt64":    new(big.Int).SetUint64(1<<63 - 1),
	"math.MinInt64":    new(big.Int).Neg(new(big.Int).SetUint64(1 << 63)),
	"time.Nanosecond":  big.NewInt(1),
	"time.Microsecond": big.NewInt(1000),
	"time.Millisecond": big.NewInt(1000000),
	"time.Second":      big.NewInt(1000000000),
	"time.Minute":      big.NewInt(60000000000),
	"time.Hour":        big.NewInt(3600000000000),
}

func eval(e ast.Expr, en env) (*big.Int, bool) {
	switch x := e.(type) {
	case *ast.BasicLit:
		if x.Kind == token.INT {
			v, ok := new(big.Int).SetString(strings.ReplaceAll(x.Value, "_", ""), 0)
			return v, ok
		}
		if x.Kind == token.FLOAT {
			f, _, err := big.ParseFloat(x.Value, 10, 200, big.ToNearestEven)
			if err == nil && f.IsInt() {
				v, _ := f.Int(nil)
				return v, true
			}
		}
	case *ast.ParenExpr:
		return eval(x.X, en)
	case *ast.Ident:
		if v, ok := en[x.Name]; ok {
			return v, true
		}
	case *ast.SelectorExpr:
		if id, ok := x.X.(*ast.Ident); ok {
			if v, ok := builtin[id.Name+"."+x.Sel.Name]; ok {
				return v, true
			}
		}
	case *ast.UnaryExpr:
		if v, ok := eval(x.X, en); ok {
			switch x.Op {
			case token.SUB:
				return new(big.Int).Neg(v), true
			case token.ADD:
				return v, true
			}
		}
	case *ast.CallExpr: // conversions such as int64(x)
		if len(x.Args) == 1 {
			if id, ok := x.Fun.(*ast.Ident); ok && (strings.HasPrefix(id.Name, "int") || strings.HasPrefix(id.Name, "uint")) {
				return eval(x.Args[0], en)
			}
			if sel, ok := x.Fun.(*ast.SelectorExpr); ok && sel.Sel.Name == "Duration" {
				return eval(x.Args[0], en)
			}
		}
	case *ast.BinaryExpr:
		a, ok1 := eval(x.X, en)
		b, ok2 := eval(x.Y, en)
		if ok1 && ok2 {
			r := new(big.Int)
			switch x.Op {
			case token.ADD:
				return r.Add(a, b), true
			case token.SUB:
				return r.Sub(a, b), true
			case token.MUL:
				return r.Mul(a, b), true
			case token.QUO:
				if b.Sign() != 0 {
					return r.Quo(a, b), true
				}
			case token.REM:
				if b.Sign() != 0 {
					return r.Rem(a, b), true
				}
			}
		}
	}
	return nil, false
}

func namedConsts(f *ast.File, en env) {
	// two passes so that later constants may refer to earlier ones in any order
	for pass := 0; pass < 3; pass++ {
		ast.Inspect(f, func(n ast.Node) bool {
			gd, ok := n.(*ast.GenDecl)
			if !ok || gd.Tok != token.CONST {
				return true
			}
			for _, sp := range gd.Specs {
				vs := sp.(*ast.ValueSpec)
				for i, name := range vs.Names {
					if i < len(vs.Values) {
						if v, ok := eval(vs.Values[i], en); ok {
							en[name.Name] = v
						}
					}
				}
			}
			return true
		})
	}
}

func funcBody(f *ast.File, name string) *ast.BlockStmt {
	for _, d := range f.Decls {
		if fd, ok := d.(*ast.FuncDecl); ok && fd.Name.Name == name {
			return fd.Body
		}
	}
	return nil
}

func exprString(e ast.Expr) string {
	switch x := e.(type) {
	case *ast.Ident:
		return x.Name
	case *ast.SelectorExpr:
		return exprString(x.X) + "." + x.Sel.Name
	case *ast.CallExpr:
		var a []string
		for _, y := range x.Args {
			a = append(a, exprString(y))
		}
		return exprString(x.Fun) + "(" + strings.Join(a, ",") + ")"
	case *ast.BasicLit:
		return x.Value
	case *ast.BinaryExpr:
		return exprString(x.X) + x.Op.String() + exprString(x.Y)
	case *ast.ParenExpr:
		return "(" + exprString(x.X) + ")"
	}
	return "?"
}

// findBinary looks inside function fn for a binary expression op whose left side prints as lhs
// and whose right side is a constant expression; returns its value.
func findBinary(f *ast.File, fn string, op token.Token, lhs string, en env) (*big.Int, bool) {
	body := funcBody(f, fn)
	if body == nil {
		return nil, false
	}
	var res *big.Int
	ast.Inspect(body, func(n ast.Node) bool {
		be, ok := n.(*ast.BinaryExpr)
		if ok && res == nil && be.Op == op && exprString(be.X) == lhs {
			if v, ok := eval(be.Y, en); ok {
				res = v
			}
		}
		return true
	})
	return res, res != nil
}

func findAssign(f *ast.File, fn, lhs string, en env) (*big.Int, bool) {
	body := funcBody(f, fn)
	if body == nil {
		return nil, false
	}
	var res *big.Int
	ast.Inspect(body, func(n ast.Node) bool {
		as, ok := n.(*ast.AssignStmt)
		if ok && res == nil && len(as.Lhs) == 1 && len(as.Rhs) == 1 && exprString(as.Lhs[0]) == lhs {
			if v, ok := eval(as.Rhs[0], en); ok {
				res = v
			}
		}
		return true
	})
	return res, res != nil
}

func findCallArg(f *ast.File, fn, callee string, en env) (*big.Int, bool) {
	body := funcBody(f, fn)
	if body == nil {
		return nil, false
	}
	var res *big.Int
	ast.Inspect(body, func(n ast.Node) bool {
		ce, ok := n.(*ast.CallExpr)
		if ok && res == nil && exprString(ce.Fun) == callee && len(ce.Args) == 1 {
			if v, ok := eval(ce.Args[0], en); ok {
				res = v
			}
		}
		return true
	})
	return res, res != nil
}

func main() {
	repo, out := os.Args[1], os.Args[2]
	fset := token.NewFileSet()
	parse := func(p string) *ast.File {
		f, err := parser.ParseFile(fset, repo+"/"+p, nil, 0)
		if err != nil {
			fmt.Fprintln(os.Stderr, "goconsts:", err)
			return &ast.File{Name: ast.NewIdent("missing")}
		}
		return f
	}
	bt := parse("bigtable/bttest/inmem.go")
	gcs := parse("storage/gcsemu/gcsemu.go")
	vals := map[string]*big.Int{}
	missing := []string{}
	// defaults = the values at the pinned commit, used (and reported) when a literal can no longer be located
	defaults := map[string]string{
		"gcsMaxComposeSources": "32", "gcsDefaultMaxResults": "1000", "gcsUploadLru": "1024",
		"btMinValidTs": "0", "btMaxValidTs": "9223372036854775000", "btTsGranularity": "1000",
		"btFlushChunks": "1024", "btGcBatch": "100", "btQuiesceNanos": "300000000000",
	}
	put := func(name string, v *big.Int, ok bool) {
		if ok {
			vals[name] = v
		} else {
			missing = append(missing, name)
			d, _ := new(big.Int).SetString(defaults[name], 10)
			vals[name] = d
		}
	}
	en := env{}
	namedConsts(bt, en)
	gen := env{}
	namedConsts(gcs, gen)
	v, ok := gen["gcsMaxComposeSources"]
	put("gcsMaxComposeSources", v, ok)
	v, ok = findAssign(gcs, "handleGcsListBucket", "maxResults", gen)
	put("gcsDefaultMaxResults", v, ok)
	v, ok = findCallArg(gcs, "NewGcsEmu", "gcache.New", gen)
	put("gcsUploadLru", v, ok)
	v, ok = en["minValidMilliSeconds"]
	put("btMinValidTs", v, ok)
	v, ok = en["maxValidMilliSeconds"]
	put("btMaxValidTs", v, ok)
	v, ok = findBinary(bt, "validTimestamp", token.REM, "ts", en)
	put("btTsGranularity", v, ok)
	v, ok = findBinary(bt, "ReadRows", token.GTR, "len(cb.chunks)", en)
	put("btFlushChunks", v, ok)
	v, ok = findBinary(bt, "gc", token.REM, "i", en)
	put("btGcBatch", v, ok)
	// quiesceNanos is a const declared inside gc
	if body := funcBody(bt, "gc"); body != nil {
		tmp := &ast.File{Decls: nil}
		_ = tmp
		ast.Inspect(body, func(n ast.Node) bool {
			if ds, ok := n.(*ast.DeclStmt); ok {
				if gd, ok := ds.Decl.(*ast.GenDecl); ok && gd.Tok == token.CONST {
					for _, sp := range gd.Specs {
						vs := sp.(*ast.ValueSpec)
						for i, nm := range vs.Names {
							if i < len(vs.Values) {
								if v, ok := eval(vs.Values[i], en); ok {
									en[nm.Name] = v
								}
							}
						}
					}
				}
			}
			return true
		})
	}
	v, ok = en["quiesceNanos"]
	put("btQuiesceNanos", v, ok)

	var sb strings.Builder
	sb.WriteString("(* GENERATED by tools/goconsts from /repo on every run -- do not edit. *)\nFrom Coq Require Import ZArith.\n")
	names := make([]string, 0, len(vals))
	for k := range vals {
		names = append(names, k)
	}
	sort.Strings(names)
	for _, k := range names {
		fmt.Fprintf(&sb, "Definition %s : Z := (%s)%%Z.\n", k, vals[k].String())
	}
	sort.Strings(missing)
	fmt.Fprintf(&sb, "(* not located in the source (pinned-commit value used): %s *)\n", strings.Join(missing, " "))
	old, _ := os.ReadFile(out)
	if string(old) != sb.String() {
		if err := os.WriteFile(out, []byte(sb.String()), 0o666); err != nil {
			fmt.Fprintln(os.Stderr, err)
			os.Exit(1)
		}
	}
	if len(missing) > 0 {
		fmt.Println("MISSING " + strings.Join(missing, " "))
	}
}

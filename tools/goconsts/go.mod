module goconsts

go 1.23.0

package main

import (
	"fmt"
	"os"
	"path/filepath"
	"sort"
	"strings"

	"github.com/fullstorydev/emulators/storage/gcsemu"
	"google.golang.org/api/storage/v1"
)

// The file store's mapping from (bucket, object name) to files, against GCS/FsPaths.v: for every
// name of a small alphabet up to a length (exhaustively) and a pool of traps, Add is called on an
// empty store and the files it created are listed through the OS. The store root is nested two
// levels deep inside the scratch directory, so that a file written outside the root is seen too.

func fsPathNames() []string {
	var ns []string
	alpha := []byte{'a', '.', '/'}
	var rec func(cur []byte, left int)
	rec = func(cur []byte, left int) {
		ns = append(ns, string(cur))
		if left == 0 {
			return
		}
		for _, c := range alpha {
			rec(append(append([]byte{}, cur...), c), left-1)
		}
	}
	rec(nil, 5)
	ext := ".emumeta"
	for _, n := range []string{"x", "a/x", "", "a.emumeta/b", "a/.emumeta/b", "x.emumeta.tmp", "x.tmp", "x~", "x.tmp.emumeta", "é", "a b", "a\\b", "..a", "a..", ".a/.b", "UP/low", "a/b/c/d/e/f", "bad" + badByteMarker, "%2e%2e", "x.EMUMETA", "emumeta", ".emumet"} {
		ns = append(ns, n, n+ext, n+ext+ext, n+"/"+ext)
	}
	return ns
}

// fsAddFiles calls Add(bucket, name) on an empty file store and lists the files below the scratch
// directory, relative to the store root.
func fsAddFiles(bucket, name string) (files []string, refused bool, notes []string) {
	d, err := os.MkdirTemp(tmpRoot, "fsp")
	if err != nil {
		panic(err)
	}
	defer os.RemoveAll(d)
	root := filepath.Join(d, "outer", "store")
	if err := os.MkdirAll(root, 0o777); err != nil {
		panic(err)
	}
	st := gcsemu.NewFileStore(root)
	func() {
		defer func() {
			if p := recover(); p != nil {
				notes = append(notes, fmt.Sprint("Add panicked: ", p))
				refused = true
			}
		}()
		if err := st.Add(bucket, name, []byte("x"), &storage.Object{}); err != nil {
			refused = true
		}
	}()
	_ = filepath.Walk(d, func(p string, info os.FileInfo, err error) error {
		if err == nil && !info.IsDir() {
			rel, _ := filepath.Rel(root, p)
			files = append(files, filepath.ToSlash(rel))
		}
		return nil
	})
	sort.Strings(files)
	if refused && len(files) > 0 {
		notes = append(notes, fmt.Sprintf("Add(%q, %q) reported an error but left files behind: %q", bucket, name, files))
	}
	return files, refused, notes
}

func fsPathCase(bucket, name string) (Case, string) {
	b, n := strings.ReplaceAll(bucket, badByteMarker, "\xff"), strings.ReplaceAll(name, badByteMarker, "\xff")
	files, refused, notes := fsAddFiles(b, n)
	obs := Resp{Status: 200, Kind: "files", Prefixes: files, Notes: notes}
	coqObs := "None"
	if refused {
		obs.Status = 400
	} else {
		var fs []string
		for _, f := range files {
			fs = append(fs, cStr(f))
		}
		coqObs = "(Some " + cList(fs) + ")"
	}
	c := Case{Store: "file", Tag: "fs-paths", Prog: []Req{{Kind: "fs_add", B: bucket, N: name}}, Obs: []Resp{obs}}
	return c, fmt.Sprintf("(%s, %s, %s)", cStr(b), cStr(n), coqObs)
}

const fsPathType = "(str * str * option (list str))"

func addFsPathCases(sink *Sink) int {
	type job struct{ b, n string }
	var jobs []job
	for _, n := range fsPathNames() {
		jobs = append(jobs, job{"bkt", n})
	}
	for _, b := range []string{"", ".", "..", "a/b", "a\\b", "b.k", "...", "../x", "bkt/", "/bkt", "UP", "é"} {
		for _, n := range []string{"x", "a/b", "x.emumeta", ""} {
			jobs = append(jobs, job{b, n})
		}
	}
	type res struct {
		c    Case
		text string
		js   []byte
	}
	out := make([]res, len(jobs))
	parallel(len(jobs), func(i int) {
		c, text := fsPathCase(jobs[i].b, jobs[i].n)
		js, _ := jsonMarshal(c)
		out[i] = res{c, text, js}
	})
	for _, r := range out {
		sink.AddPreV("fspaths", "check_fspaths", fsPathType, r.c, r.text, r.js, r.c.Obs[0].Status == 200)
	}
	return len(jobs)
}

package main

import (
	"encoding/json"
	"fmt"
	"math/rand"
	"sync"
	"sync/atomic"
	"time"
)

// the race-detector binary: h_gcs_race -prop race -tier <seconds> -replay <mem|file>
func raceMain(secs int, store string) {
	mk := stores()[0]
	if store == "file" {
		mk = stores()[1]
	}
	st, cleanup := mk.mk()
	defer cleanup()
	e := NewEmu(st)
	names := []string{"a", "b/c", "b/d", "e.txt", "shared"}
	for _, n := range names {
		e.Exec(Req{Kind: "upload_media", B: "bkt", N: n, CType: "text/plain", Data: []byte("seed-" + n), CP: noConds})
	}
	var requests int64
	var pmu sync.Mutex
	var panics []string
	deadline := time.Now().Add(time.Duration(secs) * time.Second)
	var wg sync.WaitGroup
	worker := func(seed int64, kinds []int) {
		defer wg.Done()
		rng := rand.New(rand.NewSource(seed))
		for time.Now().Before(deadline) {
			n := names[rng.Intn(len(names))]
			var r Req
			switch kinds[rng.Intn(len(kinds))] {
			case 0:
				r = Req{Kind: "upload_media", B: "bkt", N: n, CType: "text/x", Data: []byte(fmt.Sprint("w", rng.Intn(100))), CP: noConds}
			case 1:
				ct := "text/p"
				r = Req{Kind: "patch", B: "bkt", N: n, Patch: &Patch{CType: &ct, HasMeta: true, Meta: [][2]string{{"k", fmt.Sprint(rng.Intn(9))}}}, CP: noConds}
			case 2:
				r = Req{Kind: "get_meta", B: "bkt", N: n}
			case 3:
				r = Req{Kind: "get_media", B: "bkt", N: n}
			case 4:
				r = Req{Kind: "list", B: "bkt", Prefix: []string{"", "b/"}[rng.Intn(2)], Delim: []string{"", "/"}[rng.Intn(2)]}
			case 5:
				r = Req{Kind: "delete", B: "bkt", N: n, CP: noConds}
			case 6:
				r = Req{Kind: "compose", B: "bkt", N: "shared", Srcs: []Src{{Name: "a", Cond: Raw("")}, {Name: n, Cond: Raw("")}}, Up: &UpMeta{CType: "x/y"}, CP: noConds}
			case 7:
				r = Req{Kind: "copy", B: "bkt", N: n, B2: "bkt", N2: "shared"}
			case 8:
				r = Req{Kind: "create_bucket", B: "bkt2"}
			case 9:
				r = Req{Kind: "delete_bucket", B: "bkt2", CP: noConds}
			case 10:
				r = Req{Kind: "upload_multipart", B: "bkt2", Up: &UpMeta{Name: "x", Md5: 1, Meta: [][2]string{{"a", "b"}}}, Data: []byte("y"), CP: noConds}
			case 11:
				r = Req{Kind: "get_bucket", B: "bkt2"}
			}
			o := e.Exec(r)
			atomic.AddInt64(&requests, 1)
			if o.Panic != "" {
				pmu.Lock()
				if len(panics) < 5 {
					panics = append(panics, r.Kind+": "+o.Panic)
				}
				pmu.Unlock()
			}
		}
	}
	for i, m := range [][]int{{0, 1, 2, 3}, {2, 3, 4, 1}, {4, 5, 0}, {6, 7, 2}, {8, 9, 10, 11}, {0, 5, 4, 1}, {1, 2, 1, 3}} {
		wg.Add(1)
		go worker(int64(i+1), m)
	}
	wg.Wait()
	b, _ := json.Marshal(map[string]interface{}{"requests": requests, "panics": panics, "hangs": 0})
	fmt.Println(string(b))
}

package main

import (
	"encoding/json"
	"fmt"
	"math/rand"
	"os"
	"path/filepath"
	"sort"

	"github.com/fullstorydev/emulators/storage/gcsemu"
)

// C09: every program runs on the memory store and on the file store (each compared with its
// model, which differ only in the listing walk); on the file store a FRESH emulator instance is
// opened on the same directory at every request boundary and must answer exactly like the running
// one (restart equivalence); a directory pre-seeded with a content file without sidecar is served.

func snapshot(e *Emu, names []string) string {
	type snap struct {
		Name string
		Meta *View
		Body []byte
		St   int
	}
	var out []interface{}
	for _, b := range histBuckets {
		for _, n := range names {
			s := snap{Name: b + "/" + n}
			if o := e.rawMeta(b, n); o != nil {
				s.Meta = e.viewOf(o)
			}
			if data, ok := e.rawMedia(b, n); ok {
				s.Body = data
				s.St = 200
			}
			out = append(out, s)
		}
		l := e.Exec(Req{Kind: "list", B: b})
		var names []string
		for _, it := range l.Items {
			names = append(names, it.Name)
		}
		out = append(out, []interface{}{b, l.Status, names})
	}
	js, _ := json.Marshal(out)
	return string(js)
}

func runC09File(prog []Req, names []string) ([]Req, []Resp) {
	d, err := os.MkdirTemp(tmpRoot, "c09")
	if err != nil {
		panic(err)
	}
	defer os.RemoveAll(d)
	e := NewEmu(gcsemu.NewFileStore(d))
	out := make([]Req, len(prog))
	copy(out, prog)
	var ids []string
	var obs []Resp
	for i := range out {
		if out[i].Kind == "resumable_put" && len(out[i].ID) > 0 && out[i].ID[0] == '#' {
			var k int
			fmt.Sscanf(out[i].ID, "#%d", &k)
			if k < len(ids) {
				out[i].ID = ids[k]
			} else {
				out[i].ID = "999999"
			}
		}
		o := e.Exec(out[i])
		if out[i].Kind == "resumable_init" {
			if o.Status == 200 {
				ids = append(ids, o.ID)
			} else {
				ids = append(ids, "999999")
			}
		}
		// restart equivalence at this request boundary (pending resumable uploads are session state
		// of the instance and are not expected to survive)
		if i%3 == 2 || i == len(out)-1 {
			fresh := NewEmu(gcsemu.NewFileStore(d))
			if a, b := snapshot(e, names), snapshot(fresh, names); a != b {
				o.Notes = append(o.Notes, "restart: a fresh instance on the same directory answers differently from the running one")
			}
		}
		obs = append(obs, o)
	}
	return out, obs
}

func legacyCase() (notes []string) {
	d, err := os.MkdirTemp(tmpRoot, "legacy")
	if err != nil {
		panic(err)
	}
	defer os.RemoveAll(d)
	_ = os.MkdirAll(filepath.Join(d, "bkt", "dir"), 0o777)
	_ = os.WriteFile(filepath.Join(d, "bkt", "dir", "legacy.bin"), []byte("legacy-content"), 0o666)
	e := NewEmu(gcsemu.NewFileStore(d))
	if data, ok := e.rawMedia("bkt", "dir/legacy.bin"); !ok || string(data) != "legacy-content" {
		notes = append(notes, "legacy: content file without sidecar is not served")
	}
	if o := e.rawMeta("bkt", "dir/legacy.bin"); o == nil || o.Size != 14 || o.Name != "dir/legacy.bin" || o.Generation == 0 {
		notes = append(notes, "legacy: metadata of a sidecar-less file is wrong or missing")
	}
	l := e.Exec(Req{Kind: "list", B: "bkt"})
	if l.Status != 200 || len(l.Items) != 1 || l.Items[0].Name != "dir/legacy.bin" {
		notes = append(notes, "legacy: sidecar-less file is not listed")
	}
	// it can be overwritten, patched and deleted like any object
	if o := e.Exec(Req{Kind: "patch", B: "bkt", N: "dir/legacy.bin", Patch: &Patch{HasMeta: true, Meta: [][2]string{{"k", "v"}}}, CP: noConds}); o.Status != 200 {
		notes = append(notes, fmt.Sprint("legacy: patch of a sidecar-less file answered ", o.Status))
	}
	if o := e.Exec(Req{Kind: "delete", B: "bkt", N: "dir/legacy.bin", CP: noConds}); o.Status != 204 {
		notes = append(notes, fmt.Sprint("legacy: delete of a sidecar-less file answered ", o.Status))
	}
	return notes
}

func genC09(out, tier string, rng *rand.Rand) {
	sink := NewSink(out, gcsPrelude, "(list req * list resp)", "check_all", 40)
	sink.fsVariant = true
	n, length := 120, 30
	if tier == "thorough" {
		n, length = 1500, 50
	}
	type res struct {
		c    Case
		text string
		js   []byte
	}
	progs := make([][]Req, n)
	for i := range progs {
		progs[i] = genHistory(rng, "C09", namesRepresentable, length)
	}
	// directed: overwrites that keep the size (recompose from other sources, copies of composites): the
	// file store must hold the new bytes, and so must an instance restarted on the directory
	progs = append(progs, sameSizePrograms()...)
	// directed: a bucket deleted while it still holds nested objects, then written into again (with and
	// without re-creating it first)
	upn := func(n, d string) Req {
		return Req{Kind: "upload_media", B: "bkt", N: n, CType: "text/plain", Data: []byte(d), CP: noConds}
	}
	rdn := func(n string) Req { return Req{Kind: "get_media", B: "bkt", N: n} }
	progs = append(progs,
		[]Req{upn("dir/one", "1"), upn("dir/sub/two", "2"), upn("top", "3"), {Kind: "delete_bucket", B: "bkt", CP: noConds}, upn("dir/three", "4"), rdn("dir/three"), rdn("dir/one"), {Kind: "list", B: "bkt"}, upn("dir/sub/four", "5"), rdn("dir/sub/four"), {Kind: "list", B: "bkt"}},
		[]Req{upn("dir/one", "1"), {Kind: "delete_bucket", B: "bkt", CP: noConds}, {Kind: "create_bucket", B: "bkt"}, upn("dir/one", "again"), rdn("dir/one"), {Kind: "list", B: "bkt"}, {Kind: "delete", B: "bkt", N: "dir/one", CP: noConds}, upn("dir/two", "x"), {Kind: "list", B: "bkt"}})
	// names that exist only as directories of the file store (objects below them) are absent objects
	progs = append(progs,
		[]Req{upn("reports/q2", "x"), upn("reports/2023/q1", "y"), {Kind: "get_meta", B: "bkt", N: "reports"}, rdn("reports"), {Kind: "patch", B: "bkt", N: "reports", Patch: &Patch{HasMeta: true, Meta: [][2]string{{"k", "v"}}}, CP: noConds},
			{Kind: "delete", B: "bkt", N: "reports", CP: noConds}, {Kind: "delete", B: "bkt", N: "reports/2023", CP: noConds}, rdn("reports/q2"), rdn("reports/2023/q1"), {Kind: "list", B: "bkt"},
			{Kind: "copy", B: "bkt", N: "reports", B2: "bkt", N2: "copy-of-dir"}, {Kind: "compose", B: "bkt", N: "composed", Srcs: []Src{{Name: "reports", Cond: Raw("")}}, Up: &UpMeta{CType: "x/y"}, CP: noConds}, {Kind: "list", B: "bkt"}})
	// directory levels that hold ONLY directories, some of whose names extend another's by a character that
	// sorts below '/' (logs, logs-old, logs.bak; v1, v1-rc, v1.1): listed whole, in pages, by prefix and
	// with a delimiter
	{
		names := []string{"logs/2024/a.txt", "logs-old/2023/b.txt", "logs.bak/c.txt", "data/d.txt", "top/v1/x", "top/v1.1/y", "top/v1-rc/z", "top/v1/sub/w"}
		var prog []Req
		for i, n := range names {
			prog = append(prog, upn(n, fmt.Sprint(i)))
		}
		sorted := append([]string{}, names...)
		sort.Strings(sorted)
		two := "2"
		one := "1"
		prog = append(prog, Req{Kind: "list", B: "bkt"}, Req{Kind: "list", B: "bkt", MaxRes: &two})
		for i := 1; i < len(sorted); i++ {
			c := sorted[i-1]
			prog = append(prog, Req{Kind: "list", B: "bkt", MaxRes: &one, Cursor: &c})
			if i%2 == 0 {
				prog = append(prog, Req{Kind: "list", B: "bkt", MaxRes: &two, Cursor: &c})
			}
		}
		for _, pd := range [][2]string{{"", "/"}, {"logs", ""}, {"logs", "/"}, {"logs-", ""}, {"top/", "/"}, {"top/v1", ""}, {"top/v1", "/"}, {"top/v1.", ""}, {"top/v1/", "/"}} {
			prog = append(prog, Req{Kind: "list", B: "bkt", Prefix: pd[0], Delim: pd[1]}, Req{Kind: "list", B: "bkt", Prefix: pd[0], Delim: pd[1], MaxRes: &one})
		}
		progs = append(progs, prog)
	}
	// names that differ from a written name by .tmp, ~, .bak ... are objects of their own
	progs = append(progs, siblingPrograms()...)
	n = len(progs)
	results := make([]res, 2*n)
	parallel(2*n, func(k int) {
		i := k / 2
		var c Case
		if k%2 == 0 {
			p, o := runProgIDs(stores()[0], progs[i])
			c = Case{Store: "mem", Tag: "paired", Prog: p, Obs: o}
		} else {
			p, o := runC09File(progs[i], namesRepresentable)
			c = Case{Store: "file", Tag: "paired+restart", Prog: p, Obs: o}
		}
		js, _ := json.Marshal(c)
		results[k] = res{c, c.coq(), js}
	})
	for k := range results {
		nt := histNontrivial(results[k].c)
		if results[k].c.Store == "file" {
			sink.AddPreV("fs", "check_all_fs", "(list req * list resp)", results[k].c, results[k].text, results[k].js, nt)
		} else {
			sink.AddPre(results[k].c, results[k].text, results[k].js, nt)
		}
	}
	addFsPathCases(sink) // the (bucket, name) -> files mapping of the file store against GCS/FsPaths.v
	// the pre-seeded directory
	lc := Case{Store: "file", Tag: "legacy", Prog: []Req{{Kind: "get_bucket", B: "no-such-bucket"}}, Obs: []Resp{{Status: 404, Kind: "none", Notes: legacyCase()}}}
	js, _ := json.Marshal(lc)
	sink.AddPreV("fs", "check_all_fs", "(list req * list resp)", lc, lc.coq(), js, true)
	sink.Close(fmt.Sprintf("random histories of about %d requests (names representable as files) run side by side on the memory store (memory model) and the file store (file-store model: same handlers, filepath.Walk order); on the file store a fresh emulator instance is opened on the directory after every third request and at the end and must answer every metadata GET, media GET and listing exactly like the running instance; plus a directory pre-seeded with a content file without sidecar; plus the files Add creates in an empty file store for every name over {a . /} up to length 5 and a pool of traps, against GCS/FsPaths.v; non-trivial = a successful write and a non-empty download", length), false)
}

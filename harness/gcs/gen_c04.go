package main

import (
	"fmt"
	"math/rand"
)

// C04: complete enumeration of
//   4 condition parameters x {unset, equal to current, different, "0", negative, unparsable}
//   x object state {absent, fresh, patched, overwritten} x operation x store,
// each followed by metadata+media GETs of every object in the bucket; then random histories.

const c04Bucket = "bkt"

func condValue(kind int, param int, b, n string) CParam {
	switch kind {
	case 0:
		return Raw("")
	case 1: // equal to current
		if param < 2 {
			return GenOf(b, n, 0)
		}
		return MetaOf(b, n, 0)
	case 2: // different from current (and from every later generation: the model hands out consecutive
		// numbers where the implementation hands out nanosecond timestamps, so current+1 could collide)
		if param < 2 {
			return GenOf(b, n, -1)
		}
		return MetaOf(b, n, 1)
	case 3:
		return Raw("0")
	case 4:
		return Raw("-7")
	default:
		return Raw("12x")
	}
}

func c04Setup(state int) []Req {
	prog := []Req{{Kind: "upload_media", B: c04Bucket, N: "other", CType: "text/plain", Data: []byte("bystander"), CP: noConds},
		{Kind: "upload_media", B: c04Bucket, N: "src1", CType: "text/plain", Data: []byte("S1"), CP: noConds}}
	if state >= 1 {
		prog = append(prog, Req{Kind: "upload_media", B: c04Bucket, N: "obj", CType: "text/plain", Data: []byte("v1"), CP: noConds})
	}
	if state == 2 {
		ct := "text/html"
		prog = append(prog, Req{Kind: "patch", B: c04Bucket, N: "obj", Patch: &Patch{CType: &ct}, CP: noConds})
	}
	if state == 3 {
		prog = append(prog, Req{Kind: "upload_media", B: c04Bucket, N: "obj", CType: "text/plain", Data: []byte("v2"), CP: noConds})
	}
	return prog
}

func c04Probes() []Req {
	var p []Req
	for _, n := range []string{"obj", "other", "src1"} {
		p = append(p, Req{Kind: "get_meta", B: c04Bucket, N: n}, Req{Kind: "get_media", B: c04Bucket, N: n})
	}
	return p
}

var c04Ops = []string{"media", "multipart", "resumable", "patch", "delete", "compose_dst", "compose_src"}

func c04Op(op string, cp [4]CParam) []Req {
	switch op {
	case "media":
		return []Req{{Kind: "upload_media", B: c04Bucket, N: "obj", CType: "text/new", Data: []byte("NEW"), CP: cp}}
	case "multipart":
		return []Req{{Kind: "upload_multipart", B: c04Bucket, Up: &UpMeta{Name: "obj", CType: "text/new", Md5: 1}, Data: []byte("NEW"), CP: cp}}
	case "resumable":
		cr := "bytes 0-2/3"
		return []Req{{Kind: "resumable_init", B: c04Bucket, Up: &UpMeta{Name: "obj", CType: "text/new"}, CP: cp},
			{Kind: "resumable_put", B: c04Bucket, ID: "#0", CRange: &cr, Data: []byte("NEW")}}
	case "patch":
		ct := "text/patched"
		return []Req{{Kind: "patch", B: c04Bucket, N: "obj", Patch: &Patch{CType: &ct, HasMeta: true, Meta: [][2]string{{"k", "v"}}}, CP: cp}}
	case "delete":
		return []Req{{Kind: "delete", B: c04Bucket, N: "obj", CP: cp}}
	case "compose_dst":
		return []Req{{Kind: "compose", B: c04Bucket, N: "obj", Srcs: []Src{{Name: "src1", Cond: Raw("")}, {Name: "other", Cond: Raw("")}},
			Up: &UpMeta{CType: "text/composed"}, CP: cp}}
	}
	panic(op)
}

func genC04(out, tier string, rng *rand.Rand) {
	sink := NewSink(out, gcsPrelude, "(list req * list resp)", "check_all", 400)
	sink.oracle = "oracle_all_c04"
	probes := c04Probes()
	var tasks []Task
	for _, mk := range stores() {
		for state := 0; state < 4; state++ {
			setup := c04Setup(state)
			for _, op := range c04Ops {
				if op == "compose_src" {
					// per-source generation match: one parameter, on source "obj" (needs it present or absent)
					for k := 0; k < 6; k++ {
						if k == 5 {
							continue // a JSON number field cannot carry an unparsable value
						}
						prog := append(append([]Req{}, setup...), Req{Kind: "compose", B: c04Bucket, N: "dst",
							Srcs: []Src{{Name: "src1", Cond: Raw("")}, {Name: "obj", Cond: condValue(k, 0, c04Bucket, "obj")}},
							Up:   &UpMeta{CType: "text/composed"}, CP: noConds})
						prog = append(prog, probes...)
						prog = append(prog, Req{Kind: "get_media", B: c04Bucket, N: "dst"})
						tasks = append(tasks, Task{mk, op, prog, k != 0})
					}
					continue
				}
				for k0 := 0; k0 < 6; k0++ {
					for k1 := 0; k1 < 6; k1++ {
						for k2 := 0; k2 < 6; k2++ {
							for k3 := 0; k3 < 6; k3++ {
								cp := [4]CParam{condValue(k0, 0, c04Bucket, "obj"), condValue(k1, 1, c04Bucket, "obj"),
									condValue(k2, 2, c04Bucket, "obj"), condValue(k3, 3, c04Bucket, "obj")}
								prog := append(append([]Req{}, setup...), c04Op(op, cp)...)
								prog = append(prog, probes...)
								tasks = append(tasks, Task{mk, op, prog, k0+k1+k2+k3 != 0})
							}
						}
					}
				}
			}
		}
	}
	// re-uploads of the bytes the object already holds, with the matching MD5 declared (what a client's
	// retry of a create-if-absent upload looks like): a failed precondition is a failed precondition
	for _, mk := range stores() {
		for state := 1; state < 4; state++ {
			cur := []byte("v1")
			if state == 3 {
				cur = []byte("v2")
			}
			cr := fmt.Sprintf("bytes 0-%d/%d", len(cur)-1, len(cur))
			for k0 := 0; k0 < 6; k0++ {
				for k1 := 0; k1 < 4; k1 += 3 {
					for k2 := 0; k2 < 4; k2++ {
						cp := [4]CParam{condValue(k0, 0, c04Bucket, "obj"), condValue(k1, 1, c04Bucket, "obj"), condValue(k2, 2, c04Bucket, "obj"), Raw("")}
						for _, op := range [][]Req{
							{{Kind: "upload_multipart", B: c04Bucket, Up: &UpMeta{Name: "obj", CType: "text/new", Md5: 1}, Data: cur, CP: cp}},
							{{Kind: "resumable_init", B: c04Bucket, Up: &UpMeta{Name: "obj", CType: "text/new", Md5: 1}, Data: cur, CP: cp},
								{Kind: "resumable_put", B: c04Bucket, ID: "#0", CRange: &cr, Data: cur}, {Kind: "resumable_put", B: c04Bucket, ID: "#0", CRange: &cr, Data: cur}},
						} {
							prog := append(append([]Req{}, c04Setup(state)...), op...)
							prog = append(prog, probes...)
							tasks = append(tasks, Task{mk, "same-bytes-retry", prog, k0+k1+k2 != 0})
						}
					}
				}
			}
		}
	}
	// a resumable session carries its conditions from the request that opened it to the request that
	// sends the last byte: whatever happens to the object in between (metadata patch, overwrite,
	// delete, nothing), they are judged against the object as it is when the upload is performed
	ct := "text/between"
	between := [][]Req{
		nil,
		{{Kind: "patch", B: c04Bucket, N: "obj", Patch: &Patch{CType: &ct}, CP: noConds}},
		{{Kind: "upload_media", B: c04Bucket, N: "obj", CType: "text/plain", Data: []byte("v3"), CP: noConds}},
		{{Kind: "delete", B: c04Bucket, N: "obj", CP: noConds}},
		{{Kind: "delete", B: c04Bucket, N: "obj", CP: noConds}, {Kind: "upload_media", B: c04Bucket, N: "obj", CType: "text/plain", Data: []byte("v4"), CP: noConds}},
	}
	cr := "bytes 0-2/3"
	for _, mk := range stores() {
		for state := 0; state < 4; state++ {
			for param := 0; param < 4; param++ {
				for _, kind := range []int{1, 2, 3} {
					for bi, mid := range between {
						cp := [4]CParam{Raw(""), Raw(""), Raw(""), Raw("")}
						cp[param] = condValue(kind, param, c04Bucket, "obj")
						prog := append(append([]Req{}, c04Setup(state)...), Req{Kind: "resumable_init", B: c04Bucket, Up: &UpMeta{Name: "obj", CType: "text/new"}, CP: cp})
						prog = append(prog, mid...)
						prog = append(prog, Req{Kind: "resumable_put", B: c04Bucket, ID: "#0", CRange: &cr, Data: []byte("NEW")})
						prog = append(prog, probes...)
						tasks = append(tasks, Task{mk, "session-conditions", prog, bi != 0})
					}
				}
			}
		}
	}
	RunTasks(sink, tasks)
	// ... then the same conditions revisited inside random histories
	nh := 150
	if tier == "thorough" {
		nh = 2000
	}
	var htasks []Task
	for i := 0; i < nh; i++ {
		prog := genHistory(rng, "C04", namesRepresentable, 30)
		for _, mk := range stores() {
			htasks = append(htasks, Task{mk, "history", prog, true})
		}
	}
	RunTasksNT(sink, htasks, histNontrivial)
	// conditions are judged against the object as it is when the request takes effect: every
	// interleaving of a conditional delete / upload / patch with another writer of the same object
	{
		genCur := [4]CParam{GenOf(c07B, "obj", 0), Raw(""), Raw(""), Raw("")}
		metaCur := [4]CParam{Raw(""), Raw(""), MetaOf(c07B, "obj", 0), Raw("")}
		genNot := [4]CParam{Raw(""), GenOf(c07B, "obj", 0), Raw(""), Raw("")}
		addObjectInterleavings(sink, Req{Kind: "delete", B: c07B, N: "obj", CP: genCur}, 2, nil, []int{0, 3, 4, 5, 6}, "cond-delete-gen")
		addObjectInterleavings(sink, Req{Kind: "delete", B: c07B, N: "obj", CP: metaCur}, 2, nil, []int{0, 3}, "cond-delete-metagen")
		addObjectInterleavings(sink, Req{Kind: "delete", B: c07B, N: "obj", CP: genNot}, 2, nil, []int{0, 6}, "cond-delete-gen-not")
		condUp, _ := c07Request(1, 1)
		addObjectInterleavings(sink, condUp, 2, nil, []int{0, 3, 4, 6}, "cond-upload")
		condPatch, _ := c07Request(3, 1)
		addObjectInterleavings(sink, condPatch, 2, nil, []int{0, 3, 4, 5}, "cond-patch")
	}
	sink.Close("complete truth table: 4 condition parameters x {unset, =current, current-1 (generation) or current+1 (metageneration), \"0\", \"-7\", \"12x\"} x object state "+
		"{absent, fresh, patched, overwritten} x operation {media, multipart, resumable, patch, delete, compose destination, compose source} x store {mem, file}; "+
		"plus resumable sessions whose object is patched / overwritten / deleted / re-created between the opening request and the last byte (tag session-conditions); each case = setup + operation + metadata/media GET of every object; distinct = distinct canonical (program, observation) text; "+
		"non-trivial = at least one condition parameter supplied; followed by random histories (tag history) with conditions on one request in three; and every interleaving (at the yield points between precondition check and store mutation, and at lock acquisition) of a conditional delete (generation, metageneration, generation-not-match), a conditional upload and a conditional patch with a second writer of the object (upload, patch, delete, compose, copy), both stores, step by step against the interleaving model", true)
}

package main

import (
	"fmt"
	"math/rand"
	"strings"
)

// C11: for subsets of a small name universe chosen for the traps, every (prefix, delimiter,
// page size) is listed by following nextPageToken to the end.  thorough: all subsets.

var c11NamesMem = []string{"a", "a.txt", "a/b", "a/b/c", "a-b/c", "a0", "b/", "ab", "a/", "b"}
var c11NamesFile = []string{"a.txt", "a-b/c", "a/b", "a/c/d", "a0", "b", "foo-bar/x", "foo/y", "foo.d/z", "snap.emumeta/1"}
var c11Prefixes = []string{"", "a", "a/", "a-", "b", "foo", "foo-", "a/b"}
var c11Delims = []string{"", "/", "-", "//", "b/", "."}

// chain builds the list requests of one full pagination by running them (tokens come from the server).
func c11Chains(e *Emu, names []string, prefixes, delims []string) ([]Req, []Resp) {
	var prog []Req
	var obs []Resp
	for _, p := range prefixes {
		for _, d := range delims {
			for max := 1; max <= 4; max++ {
				ms := fmt.Sprint(max)
				var cursor *string
				for page := 0; page < 3*len(names)+4; page++ {
					r := Req{Kind: "list", B: "bkt", Prefix: p, Delim: d, MaxRes: &ms, Cursor: cursor}
					o := e.Exec(r)
					prog = append(prog, r)
					obs = append(obs, o)
					if o.Status != 200 || o.Next == nil {
						break
					}
					c := *o.Next
					cursor = &c
				}
			}
		}
	}
	return prog, obs
}

func c11LongNames() []string {
	var ns []string
	for _, l := range []int{100, 126, 127, 128, 129, 200, 240} {
		ns = append(ns, "n"+fmt.Sprint(l)+"-"+strings.Repeat("x", l-len(fmt.Sprint(l))-2))
	}
	// and names that are not valid UTF-8 (refused: a page token could not carry them)
	ns = append(ns, "n1"+badByteMarker, "n100-"+badByteMarker+"x")
	return append(ns, strings.Repeat("D", 130)+"/x", strings.Repeat("D", 130)+"/y", strings.Repeat("E", 127)+"/z", strings.Repeat("F", 200)+"/"+strings.Repeat("g", 200))
}

func genC11(out, tier string, rng *rand.Rand) {
	sink := NewSink(out, gcsPrelude, "(list req * list resp)", "check_all", 8)
	sink.oracle = "oracle_all_c11"
	sink.fsVariant = true
	type job struct {
		mk    storeMaker
		names []string
		long  bool
	}
	var jobs []job
	subsets := func(universe []string) [][]string {
		var all [][]string
		for mask := 1; mask < 1<<len(universe); mask++ {
			var ns []string
			for i, n := range universe {
				if mask&(1<<i) != 0 {
					ns = append(ns, n)
				}
			}
			all = append(all, ns)
		}
		return all
	}
	memSubs, fileSubs := subsets(c11NamesMem), subsets(c11NamesFile)
	exhaustive := tier == "thorough"
	if !exhaustive {
		pick := func(all [][]string, n int) [][]string {
			var out [][]string
			out = append(out, all[len(all)-1]) // the full universe always
			for i := 0; i < n; i++ {
				out = append(out, all[rng.Intn(len(all))])
			}
			return out
		}
		memSubs, fileSubs = pick(memSubs, 24), pick(fileSubs, 24)
	}
	for _, ns := range memSubs {
		jobs = append(jobs, job{stores()[0], ns, false})
	}
	for _, ns := range fileSubs {
		jobs = append(jobs, job{stores()[1], ns, false})
	}
	// long names: page tokens carry the last name of a page, whatever its length (the token's length
	// field grows to two bytes at 128, the file store allows components of up to 247 bytes)
	for _, mk := range stores() {
		jobs = append(jobs, job{mk, c11LongNames(), true})
	}
	// run jobs in parallel through the generic task runner: the program of a job is produced while running
	type res struct {
		c    Case
		text string
		js   []byte
	}
	results := make([]res, len(jobs))
	parallel(len(jobs), func(i int) {
		j := jobs[i]
		st, cleanup := j.mk.mk()
		defer cleanup()
		e := NewEmu(st)
		var prog []Req
		var obs []Resp
		for k, n := range j.names {
			r := Req{Kind: "upload_media", B: "bkt", N: n, CType: "text/plain", Data: []byte(fmt.Sprint("content-", k)), CP: noConds}
			prog = append(prog, r)
			obs = append(obs, e.Exec(r))
		}
		prefixes, delims := c11Prefixes, c11Delims
		if j.long {
			prefixes, delims = []string{"", "n", strings.Repeat("D", 130)}, []string{"", "/"}
		}
		p2, o2 := c11Chains(e, j.names, prefixes, delims)
		prog, obs = append(prog, p2...), append(obs, o2...)
		// error cases of the listing endpoint
		for _, r := range []Req{{Kind: "list", B: "no-such-bucket"}, {Kind: "list", B: "no-such-bucket", Prefix: "a/"}, {Kind: "list", B: "no-such-bucket", Prefix: "a/b/c", Delim: "/"},
			{Kind: "list", B: "no-such-bucket", Prefix: "foo/", MaxRes: strp("1")}, {Kind: "list", B: "bkt", Prefix: "no/such/dir/"}, {Kind: "list", B: "bkt", Prefix: "a.txt/x"},
			{Kind: "delete_bucket", B: "bkt", CP: noConds}, {Kind: "list", B: "bkt"}, {Kind: "list", B: "bkt", Prefix: "a/"}, {Kind: "list", B: "bkt", Prefix: "foo/y", Delim: "/"},
			{Kind: "upload_media", B: "bkt", N: "a/again", CType: "text/plain", Data: []byte("back"), CP: noConds}, {Kind: "list", B: "bkt", Prefix: "a/"}, {Kind: "list", B: "bkt"},
			{Kind: "list_bad_token", B: "bkt"},
			{Kind: "list", B: "bkt", MaxRes: strp("0")}, {Kind: "list", B: "bkt", MaxRes: strp("x")}, {Kind: "list", B: "bkt", MaxRes: strp("-3")}} {
			prog = append(prog, r)
			obs = append(obs, e.Exec(r))
		}
		c := Case{Store: j.mk.name, Tag: fmt.Sprintf("%d-names", len(j.names)), Prog: prog, Obs: obs}
		js, _ := jsonMarshal(c)
		results[i] = res{c, c.coq(), js}
	})
	for i, j := range jobs {
		if j.mk.name == "file" {
			sink.AddPreV("fs", "check_all_fs", "(list req * list resp)", results[i].c, results[i].text, results[i].js, len(j.names) >= 2)
		} else {
			sink.AddPre(results[i].c, results[i].text, results[i].js, len(j.names) >= 2)
		}
	}
	sink.Close(fmt.Sprintf("bucket contents = subsets of a 10-name universe per store (memory: %v; file: %v; thorough = all 1023 subsets, quick = the full universe + 24 random subsets per store); for each subset every (prefix in %v) x (delimiter in %q) x maxResults 1..4 is listed by following nextPageToken to the end, plus the 404/400 cases (missing and deleted bucket with and without a prefix that names directories, bad token, bad page size) and a re-creation by upload after the bucket was deleted; plus, per store, one bucket of 11 long names (100..240 bytes, directories of 127..200 bytes) paged with sizes 1..4, so that page tokens carry names on both sides of 128 bytes; distinct = distinct canonical text; non-trivial = at least two names", c11NamesMem, c11NamesFile, c11Prefixes, c11Delims), exhaustive)
}

func strp(s string) *string { return &s }

package main

import (
	"encoding/json"
	"fmt"
	"math/rand"
	"net/url"

	"github.com/fullstorydev/emulators/storage/gcsemu"
)

// URL forms (C02): the real ParseGcsUrl is called on generated decoded paths and compared with the
// Coq model of the four unanchored patterns (Emu.GCS.Url).

type UrlCase struct {
	Store  string `json:"store"`
	Tag    string `json:"tag"`
	Path   string `json:"path"`
	OK     bool   `json:"ok"`
	Bucket string `json:"bucket,omitempty"`
	Object string `json:"object,omitempty"`
	Public bool   `json:"public,omitempty"`
}

func (c UrlCase) coq() string {
	if !c.OK {
		return "(" + cStr(c.Path) + ", None)"
	}
	return fmt.Sprintf("(%s, Some (%s, %s, %s))", cStr(c.Path), cStr(c.Bucket), cStr(c.Object), cBool(c.Public))
}

func urlPaths(rng *rand.Rand, n int) []string {
	buckets := []string{"bkt", "b", "o", "storage", "my-bucket.example", "B K", "é", "v1"}
	names := []string{"x", "a/b.txt", "dir/o/file", "o", "o/x", "b/other/o/y", "x/b/other/o/y", "storage/v1/b/zz/o/q", "line\nbreak", "sp ace", "a//b", "/lead", "trail/", ".", "o2/x", "é/ü", "%2F", "a/storage/v1/b"}
	var ps []string
	for _, b := range buckets {
		for _, nm := range names {
			ps = append(ps, "/storage/v1/b/"+b+"/o/"+nm, "/download/storage/v1/b/"+b+"/o/"+nm, "/upload/storage/v1/b/"+b+"/o", "/b/"+b+"/o/"+nm, "/"+b+"/"+nm, "/storage/v1/b/"+b, "/storage/v1/b/"+b+"/o", "/b/"+b+"/o", "/storage/v1/b/"+b+"/o2/"+nm)
		}
	}
	ps = append(ps, "/", "", "//", "/x", "/storage/v1/b", "/storage/v1/b/", "/storage/v1/b//o/x", "/storage/v1", "/b//o/x", "/b/x", "x/y", "/storage/v1/b/bkt/ox", "/a/b/c/o/d")
	// random concatenations of fragments
	frags := []string{"/", "b", "o", "/b/", "/o/", "/o", "storage", "/storage/v1/b", "/storage/v1/b/", "x", "bkt", "\n", "v1", "//", "a.txt", "/download", "é"}
	for i := 0; i < n; i++ {
		s := ""
		for k := 1 + rng.Intn(8); k > 0; k-- {
			s += frags[rng.Intn(len(frags))]
		}
		ps = append(ps, s)
	}
	return ps
}

// publicRoundTrip: the public form of (bucket, name) must resolve to that object (Layer B)
func publicRoundTrip(sink *Sink) {
	buckets := []string{"bkt", "my-bucket.example", "storage", "b-1"} // valid bucket names have at least 3 characters
	names := []string{"x", "a/b.txt", "dir/o/file", "sp ace", "é/ü", "x/b/other/o/y", "b/other/o/y", "docs/storage/v1/b/zz/o/q", "o/x", "deep/b/c/o"}
	for _, b := range buckets {
		for _, n := range names {
			p := "/" + b + "/" + n
			c := UrlCase{Store: "n/a", Tag: "public-roundtrip", Path: p}
			var notes []string
			g, ok := gcsemu.ParseGcsUrl(&url.URL{Path: p})
			if ok {
				c.OK, c.Bucket, c.Object, c.Public = true, g.Bucket, g.Object, g.IsPublic
			}
			if !ok || g.Bucket != b || g.Object != n || !g.IsPublic {
				notes = append(notes, fmt.Sprintf("the public URL of bucket %q object %q resolves to bucket %q object %q (public=%v)", b, n, c.Bucket, c.Object, c.Public))
			}
			pc := Case{Store: "n/a", Tag: "public-roundtrip", Prog: []Req{{Kind: "get_media", B: b, N: n, UrlForm: "public"}}, Obs: []Resp{{Status: 200, Kind: "none", Notes: notes}}}
			js, _ := json.Marshal(pc)
			sink.AddOracleOnly(pc, string(js), js, true)
		}
	}
}

func genUrls(sink *Sink, tier string, rng *rand.Rand) {
	publicRoundTrip(sink)
	n := 3000
	if tier == "thorough" {
		n = 60000
	}
	for _, p := range urlPaths(rng, n) {
		c := UrlCase{Store: "n/a", Tag: "url", Path: p}
		if g, ok := gcsemu.ParseGcsUrl(&url.URL{Path: p}); ok {
			c.OK, c.Bucket, c.Object, c.Public = true, g.Bucket, g.Object, g.IsPublic
		}
		js, _ := json.Marshal(c)
		pc := Case{Store: "n/a", Tag: "url"}
		sink.AddPreV("url", "check_urls", "(str * option (str * str * bool))", pc, c.coq(), js, c.OK)
	}
}

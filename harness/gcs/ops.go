package main

import (
	"bytes"
	"compress/gzip"
	"context"
	"crypto/md5"
	"encoding/base64"
	"encoding/json"
	"fmt"
	"io"
	"mime/multipart"
	"net/http"
	"net/http/httptest"
	"net/textproto"
	"net/url"
	"sort"
	"strconv"
	"strings"
	"sync"
	"sync/atomic"
	"time"

	"github.com/fullstorydev/emulators/storage/gcsemu"
	"github.com/fullstorydev/emulators/storage/gcsutil"
	storage "google.golang.org/api/storage/v1"
)

// ---------- abstract requests (mirror of Emu.GCS.Model.req) ----------

type CParam struct {
	Kind  string `json:"kind"` // raw | gen | meta
	Raw   string `json:"raw,omitempty"`
	B     string `json:"b,omitempty"`
	N     string `json:"n,omitempty"`
	Delta int64  `json:"delta,omitempty"`
}

func Raw(s string) CParam                { return CParam{Kind: "raw", Raw: s} }
func GenOf(b, n string, d int64) CParam  { return CParam{Kind: "gen", B: b, N: n, Delta: d} }
func MetaOf(b, n string, d int64) CParam { return CParam{Kind: "meta", B: b, N: n, Delta: d} }

var noConds = [4]CParam{Raw(""), Raw(""), Raw(""), Raw("")}

func (p CParam) coq() string {
	switch p.Kind {
	case "gen":
		return fmt.Sprintf("(PGen %s %s %s)", cStr(p.B), cStr(p.N), cZ(p.Delta))
	case "meta":
		return fmt.Sprintf("(PMeta %s %s %s)", cStr(p.B), cStr(p.N), cZ(p.Delta))
	}
	return "(PRaw " + cStr(p.Raw) + ")"
}
func cCP(cp [4]CParam) string {
	return fmt.Sprintf("(mkCP %s %s %s %s)", cp[0].coq(), cp[1].coq(), cp[2].coq(), cp[3].coq())
}

type UpMeta struct {
	Name  string      `json:"name"`
	CType string      `json:"ctype,omitempty"`
	Md5   int         `json:"md5,omitempty"` // 0 none 1 good 2 wrong 3 not base64
	Meta  [][2]string `json:"meta,omitempty"`
}

func (m UpMeta) coq() string {
	return fmt.Sprintf("(mkUpMeta %s %s %s %s)", cStr(m.Name), cStr(m.CType), cN(m.Md5), cKVList(m.Meta))
}

type Patch struct {
	Bad     bool        `json:"bad,omitempty"`
	CType   *string     `json:"ctype,omitempty"`
	Meta    [][2]string `json:"meta,omitempty"`
	HasMeta bool        `json:"hasmeta,omitempty"`
	Gen     *int64      `json:"gen,omitempty"`
	Md5     *string     `json:"md5,omitempty"`
	Metagen *int64      `json:"metagen,omitempty"`
	// further fields of an object resource a client may send back (e.g. the GET resource of another
	// object used as a template): the server must ignore them -- the URL says which object is patched
	Name   *string `json:"name,omitempty"`
	Bucket *string `json:"bucket,omitempty"`
	Size   *int64  `json:"size,omitempty"`
}

func (p Patch) coq() string {
	meta := "None"
	if p.HasMeta {
		meta = "(Some " + cKVList(p.Meta) + ")"
	}
	gen := "None"
	if p.Gen != nil {
		gen = "(Some " + cZ(*p.Gen) + ")"
	}
	mg := "None"
	if p.Metagen != nil {
		mg = "(Some " + cZ(*p.Metagen) + ")"
	}
	return fmt.Sprintf("(mkPatch %s %s %s %s %s %s)", cBool(p.Bad), cOptStr(p.CType), meta, gen, cOptStr(p.Md5), mg)
}

type Src struct {
	Name string `json:"name"`
	Cond CParam `json:"cond"`
}

type Req struct {
	Kind   string    `json:"kind"`
	B      string    `json:"b,omitempty"`
	N      string    `json:"n,omitempty"`
	B2     string    `json:"b2,omitempty"`
	N2     string    `json:"n2,omitempty"`
	CType  string    `json:"ctype,omitempty"`
	Data   []byte    `json:"data,omitempty"`
	CP     [4]CParam `json:"cp"`
	Up     *UpMeta   `json:"up,omitempty"`
	Bad    bool      `json:"bad,omitempty"`
	ID     string    `json:"id,omitempty"`
	CRange *string   `json:"crange,omitempty"`
	Patch  *Patch    `json:"patch,omitempty"`
	Prefix string    `json:"prefix,omitempty"`
	Delim  string    `json:"delim,omitempty"`
	Cursor *string   `json:"cursor,omitempty"`
	MaxRes *string   `json:"maxres,omitempty"`
	Srcs   []Src     `json:"srcs,omitempty"`
	// transport variations that the model does not see (must not matter)
	Gzip    bool   `json:"gzip,omitempty"`
	UrlForm string `json:"urlform,omitempty"` // "", "download", "public", "b"
	Proto   string `json:"proto,omitempty"`   // for the C04 table: media|multipart|resumable
}

// badByteMarker stands, inside the names of generated requests, for a byte that makes the name invalid
// UTF-8 (0xFF). Programs are kept as JSON, which cannot carry such a byte, so the marker is translated
// where the request goes onto the wire and where it is printed for the model: to 0xFF in names that
// travel in the URL (object name, copy destination), and to U+FFFD in names that travel in a JSON
// body (multipart / resumable metadata, compose sources), which is what the server's JSON decoder
// makes of the byte.
const badByteMarker = "\uE0FF"

func (r Req) wire() Req {
	has := strings.Contains(r.N, badByteMarker) || strings.Contains(r.N2, badByteMarker) || (r.Up != nil && strings.Contains(r.Up.Name, badByteMarker))
	for _, sc := range r.Srcs {
		has = has || strings.Contains(sc.Name, badByteMarker)
	}
	if !has {
		return r
	}
	r.N = strings.ReplaceAll(r.N, badByteMarker, "\xff")
	r.N2 = strings.ReplaceAll(r.N2, badByteMarker, "\xff")
	if r.Up != nil {
		up := *r.Up
		up.Name = strings.ReplaceAll(up.Name, badByteMarker, "\uFFFD")
		r.Up = &up
	}
	if len(r.Srcs) > 0 {
		srcs := append([]Src{}, r.Srcs...)
		for i := range srcs {
			srcs[i].Name = strings.ReplaceAll(srcs[i].Name, badByteMarker, "\uFFFD")
		}
		r.Srcs = srcs
	}
	return r
}

func (r Req) coq() string {
	r = r.wire()
	switch r.Kind {
	case "upload_media":
		return fmt.Sprintf("(RUploadMedia %s %s %s %s %s)", cStr(r.B), cStr(r.N), cStr(r.CType), cBytes(r.Data), cCP(r.CP))
	case "upload_multipart":
		return fmt.Sprintf("(RUploadMultipart %s %s %s %s)", cStr(r.B), r.Up.coq(), cBytes(r.Data), cCP(r.CP))
	case "upload_multipart_bad":
		return fmt.Sprintf("(RUploadMultipartBad %s %s)", cStr(r.B), cCP(r.CP))
	case "resumable_init":
		return fmt.Sprintf("(RResumableInit %s %s %s %s)", cStr(r.B), cBool(r.Bad), r.Up.coq(), cCP(r.CP))
	case "resumable_put":
		return fmt.Sprintf("(RResumablePut %s %s %s)", cStr(r.ID), cOptStr(r.CRange), cBytes(r.Data))
	case "get_media":
		return fmt.Sprintf("(RGetMedia %s %s)", cStr(r.B), cStr(r.N))
	case "get_meta":
		return fmt.Sprintf("(RGetMeta %s %s)", cStr(r.B), cStr(r.N))
	case "delete":
		return fmt.Sprintf("(RDelete %s %s %s)", cStr(r.B), cStr(r.N), cCP(r.CP))
	case "patch":
		return fmt.Sprintf("(RPatch %s %s %s %s)", cStr(r.B), cStr(r.N), r.Patch.coq(), cCP(r.CP))
	case "list":
		return fmt.Sprintf("(RList %s %s %s %s %s)", cStr(r.B), cStr(r.Prefix), cStr(r.Delim), cOptStr(r.Cursor), cOptStr(r.MaxRes))
	case "list_bad_token":
		return fmt.Sprintf("(RListBadToken %s)", cStr(r.B))
	case "compose":
		var srcs []string
		for _, s := range r.Srcs {
			srcs = append(srcs, "("+cStr(s.Name)+", "+s.Cond.coq()+")")
		}
		dm := "None"
		if r.Up != nil {
			dm = "(Some " + r.Up.coq() + ")"
		}
		return fmt.Sprintf("(RCompose %s %s %s %s %s %s)", cStr(r.B), cStr(r.N), cBool(r.Bad), cList(srcs), dm, cCP(r.CP))
	case "copy":
		return fmt.Sprintf("(RCopy %s %s %s %s)", cStr(r.B), cStr(r.N), cStr(r.B2), cStr(r.N2))
	case "create_bucket":
		return fmt.Sprintf("(RCreateBucket %s)", cStr(r.B))
	case "get_bucket":
		return fmt.Sprintf("(RGetBucket %s)", cStr(r.B))
	case "delete_bucket":
		return fmt.Sprintf("(RDeleteBucket %s %s)", cStr(r.B), cCP(r.CP))
	}
	panic("unknown req kind " + r.Kind)
}

// ---------- observed responses (mirror of Emu.GCS.Model.resp) ----------

type View struct {
	Bucket  string            `json:"bucket"`
	Name    string            `json:"name"`
	Size    int64             `json:"size"`
	Gen     int64             `json:"gen"` // raw; replaced by rank before printing
	Metagen int64             `json:"metagen"`
	CType   string            `json:"ctype"`
	Md5     int               `json:"md5"` // 0 empty, 1 hash of content, 2 other
	Meta    map[string]string `json:"meta,omitempty"`
}

type Resp struct {
	Status   int      `json:"status"`
	Kind     string   `json:"kind"` // none meta media list rewrite resume init bucket
	View     *View    `json:"view,omitempty"`
	Data     []byte   `json:"data,omitempty"`
	CType    string   `json:"ctype,omitempty"`
	Gen      int64    `json:"gen,omitempty"`
	Metagen  int64    `json:"metagen,omitempty"`
	Items    []View   `json:"items,omitempty"`
	Prefixes []string `json:"prefixes,omitempty"`
	Next     *string  `json:"next,omitempty"`
	Held     int64    `json:"held,omitempty"`
	ID       string   `json:"id,omitempty"`
	Bucket   string   `json:"bucketname,omitempty"`
	// side observations checked by the harness itself (Layer B side conditions)
	Notes []string `json:"notes,omitempty"`
	Panic string   `json:"panic,omitempty"`
}

func (v View) coq(rank map[int64]int) string {
	return fmt.Sprintf("(mkView %s %s %s %s %s %s %s %s)", cStr(v.Bucket), cStr(v.Name), cZ(v.Size),
		cZ(int64(rank[v.Gen])), cZ(v.Metagen), cStr(v.CType), cN(v.Md5), cKV(v.Meta))
}

func (r Resp) gens() []int64 {
	switch r.Kind {
	case "meta", "rewrite":
		return []int64{r.View.Gen}
	case "media":
		return []int64{r.Gen}
	case "list":
		var g []int64
		for _, it := range r.Items {
			g = append(g, it.Gen)
		}
		return g
	}
	return nil
}

func (r Resp) coq(rank map[int64]int) string {
	body := "BNone"
	switch r.Kind {
	case "meta":
		body = "(BMeta " + r.View.coq(rank) + ")"
	case "rewrite":
		body = "(BRewrite " + r.View.coq(rank) + ")"
	case "media":
		body = fmt.Sprintf("(BMedia %s %s %s %s)", cBytes(r.Data), cStr(r.CType), cZ(int64(rank[r.Gen])), cZ(r.Metagen))
	case "list":
		var items, prefs []string
		for _, it := range r.Items {
			items = append(items, it.coq(rank))
		}
		for _, p := range r.Prefixes {
			prefs = append(prefs, cStr(p))
		}
		body = fmt.Sprintf("(BList %s %s %s)", cList(items), cList(prefs), cOptStr(r.Next))
	case "resume":
		body = "(BResume " + cZ(r.Held) + ")"
	case "init":
		body = "(BUploadInit " + cStr(r.ID) + ")"
	case "bucket":
		body = "(BBucket " + cStr(r.Bucket) + ")"
	}
	return fmt.Sprintf("(mkResp %s %s)", cZ(int64(r.Status)), body)
}

func rankGens(rs []Resp) map[int64]int {
	set := map[int64]bool{}
	for _, r := range rs {
		for _, g := range r.gens() {
			set[g] = true
		}
	}
	var all []int64
	for g := range set {
		all = append(all, g)
	}
	sort.Slice(all, func(i, j int) bool { return all[i] < all[j] })
	rank := map[int64]int{}
	for i, g := range all {
		rank[g] = i
	}
	return rank
}

// ---------- executing requests on the real emulator ----------

type Emu struct {
	wedged atomic.Bool
	g      *gcsemu.GcsEmu
	mux    *http.ServeMux
	sent   sync.Map // base64 MD5 of every payload this harness has sent (see viewOf)
}

func NewEmu(store gcsemu.Store) *Emu {
	g := gcsemu.NewGcsEmu(gcsemu.Options{Store: store})
	mux := http.NewServeMux()
	g.Register(mux)
	return &Emu{g: g, mux: mux}
}

// do sends one HTTP request through the same handler chain the server registers.
// ctxByG: the context a scheduled request runs under (so that the scheduler can abandon it the way a
// client that gives up does); requests of other goroutines run under the background context
var ctxByG sync.Map

func (e *Emu) do(req *http.Request) (rec *httptest.ResponseRecorder, panicked string) {
	if v, ok := ctxByG.Load(goid()); ok {
		if _, q := quietG.Load(goid()); !q {
			req = req.WithContext(v.(context.Context))
		}
	}
	rec = httptest.NewRecorder()
	defer func() {
		if p := recover(); p != nil {
			panicked = fmt.Sprint(p)
		}
	}()
	e.mux.ServeHTTP(rec, req)
	return rec, ""
}

func esc(s string) string {
	// path-escape every byte that is not unreserved, but keep '/' literal half of the time is a
	// transport variation decided by the caller; here: escape everything except '/'.
	var sb strings.Builder
	for i := 0; i < len(s); i++ {
		c := s[i]
		if c >= 'a' && c <= 'z' || c >= 'A' && c <= 'Z' || c >= '0' && c <= '9' || c == '-' || c == '_' || c == '.' || c == '~' || c == '/' {
			sb.WriteByte(c)
		} else {
			fmt.Fprintf(&sb, "%%%02X", c)
		}
	}
	return sb.String()
}

// quietG: goroutines that are, right now, reading on behalf of the harness itself (canonicalising a
// response, resolving a symbolic precondition): such reads pass the handlers' yield points without
// parking, they are not steps of the scheduled request
var quietG sync.Map

func quietly() func() {
	g := goid()
	quietG.Store(g, true)
	return func() { quietG.Delete(g) }
}

func (e *Emu) rawMeta(b, n string) *storage.Object {
	defer quietly()()
	req := httptest.NewRequest("GET", "http://emu/storage/v1/b/"+esc(b)+"/o/"+esc(n), nil)
	rec, p := e.do(req)
	if p != "" || rec.Code != 200 {
		return nil
	}
	var o storage.Object
	if json.Unmarshal(rec.Body.Bytes(), &o) != nil {
		return nil
	}
	return &o
}

func (e *Emu) rawMedia(b, n string) ([]byte, bool) {
	defer quietly()()
	req := httptest.NewRequest("GET", "http://emu/storage/v1/b/"+esc(b)+"/o/"+esc(n)+"?alt=media", nil)
	req.Header.Set("Accept-Encoding", "gzip")
	rec, p := e.do(req)
	if p != "" || rec.Code != 200 {
		return nil, false
	}
	return rec.Body.Bytes(), true
}

func (e *Emu) resolve(p CParam) string {
	switch p.Kind {
	case "gen":
		if o := e.rawMeta(p.B, p.N); o != nil {
			return strconv.FormatInt(o.Generation+p.Delta, 10)
		}
		return strconv.FormatInt(12345+p.Delta, 10)
	case "meta":
		if o := e.rawMeta(p.B, p.N); o != nil {
			return strconv.FormatInt(o.Metageneration+p.Delta, 10)
		}
		return strconv.FormatInt(12345+p.Delta, 10)
	}
	return p.Raw
}

var condNames = [4]string{"ifGenerationMatch", "ifGenerationNotMatch", "ifMetagenerationMatch", "ifMetagenerationNotMatch"}

func (e *Emu) condQuery(cp [4]CParam, q url.Values) {
	for i, p := range cp {
		v := e.resolve(p)
		if v != "" {
			q.Set(condNames[i], v)
		}
	}
}

func (e *Emu) viewOf(o *storage.Object) *View {
	v := &View{Bucket: o.Bucket, Name: o.Name, Size: int64(o.Size), Gen: o.Generation, Metagen: o.Metageneration,
		CType: o.ContentType, Meta: o.Metadata}
	if o.Md5Hash == "" {
		v.Md5 = 0
	} else {
		v.Md5 = 2
		if data, ok := e.rawMedia(o.Bucket, o.Name); ok {
			sum := md5.Sum(data)
			if base64.StdEncoding.EncodeToString(sum[:]) == o.Md5Hash {
				v.Md5 = 1
			}
		}
		if v.Md5 == 2 {
			// in an interleaved execution the object may have been replaced since this response was
			// built: a hash of some payload sent earlier is the hash of (then) content, not a foreign one
			if _, ok := e.sent.Load(o.Md5Hash); ok {
				v.Md5 = 1
			}
		}
	}
	return v
}

func md5Decl(kind int, data []byte) string {
	switch kind {
	case 1:
		s := md5.Sum(data)
		return base64.StdEncoding.EncodeToString(s[:])
	case 2:
		s := md5.Sum(append([]byte("x"), data...))
		return base64.StdEncoding.EncodeToString(s[:])
	case 3:
		return "!!not-base64!!"
	}
	return ""
}

func upJSON(m *UpMeta, data []byte) []byte {
	o := map[string]interface{}{}
	if m.Name != "" {
		o["name"] = m.Name
	}
	if m.CType != "" {
		o["contentType"] = m.CType
	}
	if m.Md5 != 0 {
		o["md5Hash"] = md5Decl(m.Md5, data)
	}
	if len(m.Meta) > 0 {
		// later entries overwrite earlier ones, as in the model's merge
		mm := map[string]string{}
		for _, kv := range m.Meta {
			mm[kv[0]] = kv[1]
		}
		o["metadata"] = mm
	}
	b, _ := json.Marshal(o)
	return b
}

func maybeGzip(r Req, req *http.Request, body []byte) {
	if r.Gzip {
		var buf bytes.Buffer
		zw := gzip.NewWriter(&buf)
		_, _ = zw.Write(body)
		_ = zw.Close()
		req.Body = io.NopCloser(bytes.NewReader(buf.Bytes()))
		req.ContentLength = int64(buf.Len())
		req.Header.Set("Content-Encoding", "gzip")
	}
}

func (e *Emu) objectResp(rec *httptest.ResponseRecorder, okKind string) Resp {
	if rec.Code != 200 {
		return e.errResp(rec)
	}
	var o storage.Object
	if err := json.Unmarshal(rec.Body.Bytes(), &o); err != nil {
		return Resp{Status: rec.Code, Kind: "none", Notes: []string{"undecodable object body: " + err.Error()}}
	}
	r := Resp{Status: 200, Kind: okKind, View: e.viewOf(&o)}
	if h := rec.Header().Get("x-goog-generation"); h != "" && h != strconv.FormatInt(o.Generation, 10) {
		r.Notes = append(r.Notes, "generation header "+h+" != body "+strconv.FormatInt(o.Generation, 10))
	}
	if h := rec.Header().Get("X-Goog-Metageneration"); h != "" && h != strconv.FormatInt(o.Metageneration, 10) {
		r.Notes = append(r.Notes, "metageneration header "+h+" != body")
	}
	return r
}

// errResp checks the error envelope (JSON error body with the same code; a 304 carries no body).
func (e *Emu) errResp(rec *httptest.ResponseRecorder) Resp {
	r := Resp{Status: rec.Code, Kind: "none"}
	if rec.Code >= 400 {
		var env struct {
			Error struct {
				Code int `json:"code"`
			} `json:"error"`
		}
		if err := json.Unmarshal(rec.Body.Bytes(), &env); err != nil || env.Error.Code != rec.Code {
			r.Notes = append(r.Notes, fmt.Sprintf("error body is not a JSON envelope with code %d: %.80q", rec.Code, rec.Body.String()))
		}
	}
	return r
}

// ExecDirect runs one request on the calling goroutine (the cooperative scheduler identifies its
// threads by goroutine and has its own hang detection).
func (e *Emu) ExecDirect(r Req) Resp {
	var o Resp
	_, p := e.exec(r, &o)
	if p != "" {
		return Resp{Status: 599, Kind: "none", Panic: p}
	}
	return o
}

// Exec runs one request with a watchdog: a request that does not return within 10 s is a hang
// (status 598); the emulator is then considered wedged and later requests are not attempted.
func (e *Emu) Exec(r Req) (out Resp) {
	if e.wedged.Load() {
		return Resp{Status: 598, Kind: "none", Panic: "not attempted: an earlier request hangs"}
	}
	done := make(chan Resp, 1)
	go func() {
		var o Resp
		_, p := e.exec(r, &o)
		if p != "" {
			o = Resp{Status: 599, Kind: "none", Panic: p}
		}
		done <- o
	}()
	select {
	case o := <-done:
		return o
	case <-time.After(10 * time.Second):
		e.wedged.Store(true)
		return Resp{Status: 598, Kind: "none", Panic: "request did not return within 10s (hang)"}
	}
}

func (e *Emu) exec(r Req, out *Resp) (*httptest.ResponseRecorder, string) {
	r = r.wire()
	if len(r.Data) > 0 || r.Kind == "upload_media" || r.Kind == "upload_multipart" {
		sum := md5.Sum(r.Data)
		e.sent.Store(base64.StdEncoding.EncodeToString(sum[:]), true)
	}
	base := "http://emu/storage/v1/b/"
	if r.UrlForm == "b" {
		base = "http://emu/b/"
	}
	q := url.Values{}
	switch r.Kind {
	case "upload_media":
		e.condQuery(r.CP, q)
		q.Set("uploadType", "media")
		if r.N != "" {
			q.Set("name", r.N)
		}
		req := httptest.NewRequest("POST", "http://emu/upload/storage/v1/b/"+esc(r.B)+"/o?"+q.Encode(), bytes.NewReader(r.Data))
		if r.CType != "" {
			req.Header.Set("Content-Type", r.CType)
		}
		maybeGzip(r, req, r.Data)
		rec, p := e.do(req)
		if p == "" {
			*out = e.objectResp(rec, "meta")
		}
		return rec, p
	case "upload_multipart", "upload_multipart_bad":
		e.condQuery(r.CP, q)
		q.Set("uploadType", "multipart")
		var buf bytes.Buffer
		mw := multipart.NewWriter(&buf)
		if r.Kind == "upload_multipart" {
			h := textproto.MIMEHeader{}
			h.Set("Content-Type", "application/json")
			pw, _ := mw.CreatePart(h)
			_, _ = pw.Write(upJSON(r.Up, r.Data))
			h2 := textproto.MIMEHeader{}
			h2.Set("Content-Type", "application/octet-stream")
			pw2, _ := mw.CreatePart(h2)
			_, _ = pw2.Write(r.Data)
			_ = mw.Close()
		} else {
			buf.WriteString("--" + mw.Boundary() + "\r\nContent-Type: application/json\r\n\r\n{\"name\": \"x\"")
		}
		body := buf.Bytes()
		req := httptest.NewRequest("POST", "http://emu/upload/storage/v1/b/"+esc(r.B)+"/o?"+q.Encode(), bytes.NewReader(body))
		req.Header.Set("Content-Type", "multipart/related; boundary="+mw.Boundary())
		maybeGzip(r, req, body)
		rec, p := e.do(req)
		if p == "" {
			*out = e.objectResp(rec, "meta")
		}
		return rec, p
	case "resumable_init":
		e.condQuery(r.CP, q)
		q.Set("uploadType", "resumable")
		body := upJSON(r.Up, nil)
		if r.Up.Md5 != 0 {
			body = upJSON(r.Up, r.Data) // Data carries the payload the declared hash refers to
		}
		if r.Bad {
			body = []byte("{not json")
		}
		req := httptest.NewRequest("POST", "http://emu/upload/storage/v1/b/"+esc(r.B)+"/o?"+q.Encode(), bytes.NewReader(body))
		req.Header.Set("Content-Type", "application/json")
		maybeGzip(r, req, body)
		rec, p := e.do(req)
		if p == "" {
			if rec.Code == 200 {
				loc := rec.Header().Get("Location")
				id := ""
				if u, err := url.Parse(loc); err == nil {
					id = u.Query().Get("upload_id")
				}
				*out = Resp{Status: 200, Kind: "init", ID: id}
			} else {
				*out = e.errResp(rec)
			}
		}
		return rec, p
	case "resumable_put":
		q.Set("upload_id", r.ID)
		req := httptest.NewRequest("PUT", "http://emu/upload/storage/v1/b/"+esc(r.B)+"/o?"+q.Encode(), bytes.NewReader(r.Data))
		if r.CRange != nil {
			req.Header.Set("Content-Range", *r.CRange)
		}
		maybeGzip(r, req, r.Data)
		rec, p := e.do(req)
		if p == "" {
			switch rec.Code {
			case 308:
				rg := rec.Header().Get("Range")
				held := int64(-1)
				if strings.HasPrefix(rg, "bytes=0-") {
					if v, err := strconv.ParseInt(strings.TrimPrefix(rg, "bytes=0-"), 10, 64); err == nil {
						held = v + 1
					}
				}
				*out = Resp{Status: 308, Kind: "resume", Held: held}
			default:
				*out = e.objectResp(rec, "meta")
			}
		}
		return rec, p
	case "get_media":
		var u string
		switch r.UrlForm {
		case "download":
			u = "http://emu/download/storage/v1/b/" + esc(r.B) + "/o/" + esc(r.N) + "?alt=media"
		case "public":
			u = "http://emu/" + esc(r.B) + "/" + esc(r.N)
		default:
			u = base + esc(r.B) + "/o/" + esc(r.N) + "?alt=media"
		}
		req := httptest.NewRequest("GET", u, nil)
		req.Header.Set("Accept-Encoding", "gzip")
		rec, p := e.do(req)
		if p == "" {
			if rec.Code == 200 {
				g, _ := strconv.ParseInt(rec.Header().Get("X-Goog-Generation"), 10, 64)
				mg, _ := strconv.ParseInt(rec.Header().Get("X-Goog-Metageneration"), 10, 64)
				*out = Resp{Status: 200, Kind: "media", Data: append([]byte{}, rec.Body.Bytes()...), CType: rec.Header().Get("Content-Type"), Gen: g, Metagen: mg}
			} else {
				*out = e.errResp(rec)
			}
		}
		return rec, p
	case "get_meta":
		req := httptest.NewRequest("GET", base+esc(r.B)+"/o/"+esc(r.N), nil)
		rec, p := e.do(req)
		if p == "" {
			*out = e.objectResp(rec, "meta")
		}
		return rec, p
	case "delete":
		e.condQuery(r.CP, q)
		req := httptest.NewRequest("DELETE", base+esc(r.B)+"/o/"+esc(r.N)+"?"+q.Encode(), nil)
		rec, p := e.do(req)
		if p == "" {
			*out = e.errResp(rec)
		}
		return rec, p
	case "patch":
		e.condQuery(r.CP, q)
		var body []byte
		if r.Patch.Bad {
			body = []byte(`{"metadata": {"broken": "yes"}, "contentType": 5}`)
		} else {
			o := map[string]interface{}{}
			if r.Patch.CType != nil {
				o["contentType"] = *r.Patch.CType
			}
			if r.Patch.HasMeta {
				mm := map[string]string{}
				for _, kv := range r.Patch.Meta {
					mm[kv[0]] = kv[1]
				}
				o["metadata"] = mm
			}
			if r.Patch.Gen != nil {
				o["generation"] = strconv.FormatInt(*r.Patch.Gen, 10)
			}
			if r.Patch.Md5 != nil {
				o["md5Hash"] = *r.Patch.Md5
			}
			if r.Patch.Metagen != nil {
				o["metageneration"] = strconv.FormatInt(*r.Patch.Metagen, 10)
			}
			if r.Patch.Name != nil {
				o["name"] = *r.Patch.Name
			}
			if r.Patch.Bucket != nil {
				o["bucket"] = *r.Patch.Bucket
			}
			if r.Patch.Size != nil {
				o["size"] = strconv.FormatInt(*r.Patch.Size, 10)
			}
			body, _ = json.Marshal(o)
		}
		req := httptest.NewRequest("PATCH", base+esc(r.B)+"/o/"+esc(r.N)+"?"+q.Encode(), bytes.NewReader(body))
		req.Header.Set("Content-Type", "application/json")
		rec, p := e.do(req)
		if p == "" {
			*out = e.objectResp(rec, "meta")
		}
		return rec, p
	case "list", "list_bad_token":
		lq := url.Values{}
		if r.Prefix != "" {
			lq.Set("prefix", r.Prefix)
		}
		if r.Delim != "" {
			lq.Set("delimiter", r.Delim)
		}
		if r.Cursor != nil {
			lq.Set("pageToken", gcsutil.EncodePageToken(*r.Cursor))
		}
		if r.Kind == "list_bad_token" {
			lq.Set("pageToken", "%%%not-a-token")
		}
		if r.MaxRes != nil {
			lq.Set("maxResults", *r.MaxRes)
		}
		req := httptest.NewRequest("GET", base+esc(r.B)+"/o?"+lq.Encode(), nil)
		rec, p := e.do(req)
		if p == "" {
			if rec.Code != 200 {
				*out = e.errResp(rec)
				return rec, p
			}
			var objs storage.Objects
			if err := json.Unmarshal(rec.Body.Bytes(), &objs); err != nil {
				*out = Resp{Status: 200, Kind: "none", Notes: []string{"undecodable list body"}}
				return rec, p
			}
			o := Resp{Status: 200, Kind: "list", Prefixes: objs.Prefixes}
			for _, it := range objs.Items {
				v := e.viewOf(it)
				o.Items = append(o.Items, *v)
				// items_equal_get: each item equals what a metadata GET returns
				if m := e.rawMeta(it.Bucket, it.Name); m == nil || m.Generation != it.Generation || m.Metageneration != it.Metageneration ||
					m.Size != it.Size || m.Md5Hash != it.Md5Hash || m.ContentType != it.ContentType {
					o.Notes = append(o.Notes, "list item differs from metadata GET: "+it.Name)
				}
			}
			if objs.NextPageToken != "" {
				name, err := gcsutil.DecodePageToken(objs.NextPageToken)
				if err != nil {
					o.Notes = append(o.Notes, "undecodable nextPageToken")
				}
				o.Next = &name
			}
			*out = o
		}
		return rec, p
	case "compose":
		e.condQuery(r.CP, q)
		var body []byte
		if r.Bad {
			body = []byte("{not json")
		} else {
			cr := map[string]interface{}{}
			var srcs []map[string]interface{}
			for _, s := range r.Srcs {
				so := map[string]interface{}{"name": s.Name}
				if v := e.resolve(s.Cond); v != "" {
					so["objectPreconditions"] = map[string]interface{}{"ifGenerationMatch": v}
				}
				srcs = append(srcs, so)
			}
			cr["sourceObjects"] = srcs
			if r.Up != nil {
				cr["destination"] = json.RawMessage(upJSON(r.Up, nil))
			}
			body, _ = json.Marshal(cr)
		}
		req := httptest.NewRequest("POST", base+esc(r.B)+"/o/"+esc(r.N)+"/compose?"+q.Encode(), bytes.NewReader(body))
		req.Header.Set("Content-Type", "application/json")
		rec, p := e.do(req)
		if p == "" {
			*out = e.objectResp(rec, "meta")
		}
		return rec, p
	case "copy":
		var cbody io.Reader
		if r.Up != nil {
			// the optional destination resource of a rewrite request (the emulator ignores it)
			res := map[string]interface{}{}
			if r.Up.CType != "" {
				res["contentType"] = r.Up.CType
			}
			if len(r.Up.Meta) > 0 {
				m := map[string]string{}
				for _, kv := range r.Up.Meta {
					m[kv[0]] = kv[1]
				}
				res["metadata"] = m
			}
			js, _ := json.Marshal(res)
			cbody = bytes.NewReader(js)
		}
		req := httptest.NewRequest("POST", base+esc(r.B)+"/o/"+esc(r.N)+"/rewriteTo/b/"+esc(r.B2)+"/o/"+esc(r.N2), cbody)
		if cbody != nil {
			req.Header.Set("Content-Type", "application/json")
		}
		rec, p := e.do(req)
		if p == "" {
			if rec.Code != 200 {
				*out = e.errResp(rec)
				return rec, p
			}
			var rr storage.RewriteResponse
			if err := json.Unmarshal(rec.Body.Bytes(), &rr); err != nil || rr.Resource == nil {
				*out = Resp{Status: 200, Kind: "none", Notes: []string{"undecodable rewrite response"}}
				return rec, p
			}
			o := Resp{Status: 200, Kind: "rewrite", View: e.viewOf(rr.Resource)}
			if !rr.Done || rr.TotalBytesRewritten != int64(rr.Resource.Size) || rr.ObjectSize != int64(rr.Resource.Size) {
				o.Notes = append(o.Notes, "rewrite byte counts disagree with resource size")
			}
			*out = o
		}
		return rec, p
	case "create_bucket":
		body, _ := json.Marshal(map[string]string{"name": r.B})
		req := httptest.NewRequest("POST", "http://emu/storage/v1/b", bytes.NewReader(body))
		req.Header.Set("Content-Type", "application/json")
		rec, p := e.do(req)
		if p == "" {
			if rec.Code == 200 {
				*out = Resp{Status: 200, Kind: "bucket", Bucket: r.B}
			} else {
				*out = e.errResp(rec)
			}
		}
		return rec, p
	case "get_bucket":
		req := httptest.NewRequest("GET", "http://emu/storage/v1/b/"+esc(r.B), nil)
		rec, p := e.do(req)
		if p == "" {
			if rec.Code == 200 {
				var b storage.Bucket
				_ = json.Unmarshal(rec.Body.Bytes(), &b)
				*out = Resp{Status: 200, Kind: "bucket", Bucket: b.Name}
			} else {
				*out = e.errResp(rec)
			}
		}
		return rec, p
	case "delete_bucket":
		e.condQuery(r.CP, q)
		req := httptest.NewRequest("DELETE", "http://emu/storage/v1/b/"+esc(r.B)+"?"+q.Encode(), nil)
		rec, p := e.do(req)
		if p == "" {
			*out = e.errResp(rec)
		}
		return rec, p
	}
	panic("unknown request kind " + r.Kind)
}
